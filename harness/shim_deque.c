/* correspondence shim for src/cc_deque.c
 * session objects: deque slots 0..3 (`o=<slot>`, default 0; builders take `to=<slot>`),
 * one iterator (`it_*`) and one zip iterator (`zit_*`). */
#include "cc_deque.c"
#include "common.h"
#include "deque_print.h"

#define NSLOT 4
static CC_Deque *D[NSLOT];
static CC_DequeIter it;       static int it_slot = -1;
static CC_DequeZipIter zit;   static int zit_a = -1, zit_b = -1;

static int sparse;           /* obs=sparse on a constructor line: no content sweep except in `observe` */
static bool sweep_now;
static int quiet;            /* phys=quiet on a constructor line: buffer checksum instead of the dump, except in `observe` */
static bool dump_now;
static void shim_reset(void) { sparse = 0; quiet = 0; for (int i = 0; i < NSLOT; i++) D[i] = NULL; it_slot = zit_a = zit_b = -1; }
static void forget_iters(int k) { if (it_slot == k) it_slot = -1; if (zit_a == k || zit_b == k) zit_a = zit_b = -1; }

static void obs_all(void) { for (int k = 0; k < NSLOT; k++) if (D[k]) obs_deque("d", k, D[k]); }
static void phys_all(void) {
    size_t start = olen; bool any = false;
    for (int k = 0; k < NSLOT; k++) if (D[k]) { phys_deque("d", k, D[k], dump_now); any = true; }
    if (it_slot >= 0) { o(" it=%d:%zu:%d", it_slot, it.index, (int)it.last_removed); any = true; }
    if (zit_a >= 0) { o(" zit=%d:%d:%zu:%d", zit_a, zit_b, zit.index, (int)zit.last_removed); any = true; }
    if (!any) { o("-"); return; }
    memmove(obuf + start, obuf + start + 1, olen - start); olen--;   /* drop the leading space */
    for (int k = 0; k < NSLOT; k++) if (D[k]) { walk_deque(D[k]); if (sweep_now) walk_deque_api(D[k]); }
}
static void o_out(enum cc_stat st, void *out) { o_stat(st); if (st == CC_OK) o(" out=%llu", VAL(out)); }

static void do_op(Cmd *c) {
    int k = (int)kv_u64(c, "o", 0), to = (int)kv_u64(c, "to", 1);
    uint64_t a0 = pos_u64(c, 0), a1 = pos_u64(c, 1);
    bool noout = kv_u64(c, "noout", 0) != 0;
    void *out = PTR(777777);
    enum cc_stat st;
    if (k < 0 || k >= NSLOT || to < 0 || to >= NSLOT) { o("st=- badslot"); o_sep(); o("-"); return; }
    sweep_now = !sparse; dump_now = !quiet;
    if (is_op(c, "observe")) { sweep_now = true; dump_now = true; o("st=-");
    } else if (is_op(c, "new")) {
        if (!strcmp(kv_str(c, "obs", ""), "sparse")) { sparse = 1; sweep_now = false; }
        if (!strcmp(kv_str(c, "phys", ""), "quiet")) { quiet = 1; dump_now = false; }
        if (D[k]) { o("st=- busy"); o_sep(); o("-"); return; }
        CC_DequeConf conf; cc_deque_conf_init(&conf);
        conf.capacity = kv_u64(c, "cap", conf.capacity);
        conf.mem_alloc = conf_malloc; conf.mem_calloc = conf_calloc; conf.mem_free = conf_free;
        CC_Deque *d = NULL;
        st = cc_deque_new_conf(&conf, &d);
        D[k] = st == CC_OK ? d : NULL;
        o_stat(st);
    } else if (is_op(c, "new_default")) {
        if (!strcmp(kv_str(c, "obs", ""), "sparse")) { sparse = 1; sweep_now = false; }
        if (!strcmp(kv_str(c, "phys", ""), "quiet")) { quiet = 1; dump_now = false; }
        if (D[k]) { o("st=- busy"); o_sep(); o("-"); return; }
        CC_Deque *d = NULL; st = cc_deque_new(&d); D[k] = st == CC_OK ? d : NULL; o_stat(st);
    } else if (is_op(c, "destroy")) {            /* end of history: release every live object */
        for (int i = 0; i < NSLOT; i++) if (D[i]) { cc_deque_destroy(D[i]); D[i] = NULL; }
        it_slot = zit_a = zit_b = -1; o("st=-");
    } else if (is_op(c, "zit_new")) {
        int k2 = (int)kv_u64(c, "o2", 1);
        if (k2 < 0 || k2 >= NSLOT || !D[k] || !D[k2]) { o("st=- nosession"); o_sep(); o("-"); return; }
        cc_deque_zip_iter_init(&zit, D[k], D[k2]); zit_a = k; zit_b = k2; o("st=-");
    } else if (!strncmp(c->op, "zit_", 4)) {
        if (zit_a < 0) { o("st=- nosession"); o_sep(); o("-"); return; }
        void *o1 = PTR(777777), *o2 = PTR(777777);
        if (is_op(c, "zit_next")) {
            st = cc_deque_zip_iter_next(&zit, &o1, &o2); o_stat(st);
            if (st == CC_OK) o(" out=%llu out2=%llu", VAL(o1), VAL(o2));
        } else if (is_op(c, "zit_add")) {
            st = cc_deque_zip_iter_add(&zit, PTR(a0), PTR(a1)); o_stat(st);
        } else if (is_op(c, "zit_remove")) {
            st = cc_deque_zip_iter_remove(&zit, noout ? NULL : &o1, noout ? NULL : &o2); o_stat(st);
            if (st == CC_OK && !noout) {     /* an out parameter the library did not write prints as `-` */
                if (o1 == PTR(777777)) o(" out=-"); else o(" out=%llu", VAL(o1));
                if (o2 == PTR(777777)) o(" out2=-"); else o(" out2=%llu", VAL(o2));
            }
        } else if (is_op(c, "zit_replace")) {
            st = cc_deque_zip_iter_replace(&zit, PTR(a0), PTR(a1), noout ? NULL : &o1, noout ? NULL : &o2); o_stat(st);
            if (st == CC_OK && !noout) o(" out=%llu out2=%llu", VAL(o1), VAL(o2));
        } else if (is_op(c, "zit_index")) {
            o("st=- out=%zu", cc_deque_zip_iter_index(&zit));
        } else o("st=- badop");
    } else if (!strncmp(c->op, "it_", 3) && !is_op(c, "it_new")) {
        if (it_slot < 0) { o("st=- nosession"); o_sep(); o("-"); return; }
        if (is_op(c, "it_next")) { st = cc_deque_iter_next(&it, &out); o_out(st, out); }
        else if (is_op(c, "it_remove")) { st = cc_deque_iter_remove(&it, noout ? NULL : &out); if (noout) o_stat(st); else o_out(st, out); }
        else if (is_op(c, "it_add")) { st = cc_deque_iter_add(&it, PTR(a0)); o_stat(st); }
        else if (is_op(c, "it_replace")) { st = cc_deque_iter_replace(&it, PTR(a0), noout ? NULL : &out); if (noout) o_stat(st); else o_out(st, out); }
        else if (is_op(c, "it_index")) o("st=- out=%zu", cc_deque_iter_index(&it));
        else if (is_op(c, "it_sweep")) {   /* `it_sweep n=<k>`: k x iter_next, stops at the end: count + checksum of the values */
            uint64_t cnt = kv_u64(c, "n", 1), got = 0, h = 0xcbf29ce484222325ULL; st = CC_OK;
            for (uint64_t i = 0; i < cnt; i++) { st = cc_deque_iter_next(&it, &out); if (st != CC_OK) break; got++; h = (h ^ (uint64_t)VAL(out)) * 0x100000001b3ULL; }
            o_stat(st); o(" out=%llu sum=%llu", (unsigned long long)got, (unsigned long long)h);
        }
        else o("st=- badop");
    } else if (!D[k]) { o("st=- nosession"); o_sep(); o("-"); return;
    } else if (is_op(c, "it_new")) { cc_deque_iter_init(&it, D[k]); it_slot = k; o("st=-");
    } else if (is_op(c, "drop")) { cc_deque_destroy(D[k]); D[k] = NULL; forget_iters(k); o("st=-");
    } else if (is_op(c, "destroy_cb")) { cc_deque_destroy_cb(D[k], cb_rec); D[k] = NULL; forget_iters(k); o("st=- "); o_cb();
    } else if (is_op(c, "add")) { st = cc_deque_add(D[k], PTR(a0)); o_stat(st);
    } else if (is_op(c, "fill")) {
        /* `fill n=<count> seed=<s>`: count x add_last of (i * 7919 + s * 104729) % 1000003, i = 0.., stops at the first failure */
        uint64_t cnt = kv_u64(c, "n", 0), sd = kv_u64(c, "seed", 1); st = CC_OK;
        for (uint64_t i = 0; i < cnt && st == CC_OK; i++) st = cc_deque_add_last(D[k], PTR((i * 7919ULL + sd * 104729ULL) % 1000003ULL));
        o_stat(st);
    } else if (is_op(c, "add_first")) { st = cc_deque_add_first(D[k], PTR(a0)); o_stat(st);
    } else if (is_op(c, "add_last")) { st = cc_deque_add_last(D[k], PTR(a0)); o_stat(st);
    } else if (is_op(c, "add_at")) { st = cc_deque_add_at(D[k], PTR(a0), (size_t)a1); o_stat(st);
    } else if (is_op(c, "replace_at")) { st = cc_deque_replace_at(D[k], PTR(a0), (size_t)a1, noout ? NULL : &out); if (noout) o_stat(st); else o_out(st, out);
    } else if (is_op(c, "remove")) { st = cc_deque_remove(D[k], PTR(a0), noout ? NULL : &out); if (noout) o_stat(st); else o_out(st, out);
    } else if (is_op(c, "remove_at")) { st = cc_deque_remove_at(D[k], (size_t)a0, noout ? NULL : &out); if (noout) o_stat(st); else o_out(st, out);
    } else if (is_op(c, "remove_first")) { st = cc_deque_remove_first(D[k], noout ? NULL : &out); if (noout) o_stat(st); else o_out(st, out);
    } else if (is_op(c, "remove_last")) { st = cc_deque_remove_last(D[k], noout ? NULL : &out); if (noout) o_stat(st); else o_out(st, out);
    } else if (is_op(c, "remove_all")) { cc_deque_remove_all(D[k]); o("st=-");
    } else if (is_op(c, "remove_all_cb")) { cc_deque_remove_all_cb(D[k], cb_rec); o("st=- "); o_cb();
    } else if (is_op(c, "get_at")) { st = cc_deque_get_at(D[k], (size_t)a0, &out); o_out(st, out);
    } else if (is_op(c, "get_first")) { st = cc_deque_get_first(D[k], &out); o_out(st, out);
    } else if (is_op(c, "get_last")) { st = cc_deque_get_last(D[k], &out); o_out(st, out);
    } else if (is_op(c, "reverse")) { cc_deque_reverse(D[k]); o("st=-");
    } else if (is_op(c, "trim")) { st = cc_deque_trim_capacity(D[k]); o_stat(st);
    } else if (is_op(c, "contains")) { o("st=- out=%zu", cc_deque_contains(D[k], PTR(a0)));
    } else if (is_op(c, "contains_value")) { o("st=- out=%zu", cc_deque_contains_value(D[k], PTR(a0), cmp_mod10));
    } else if (is_op(c, "index_of")) { size_t ix = 777777; st = cc_deque_index_of(D[k], PTR(a0), &ix); o_stat(st); if (st == CC_OK) o(" out=%zu", ix);
    } else if (is_op(c, "size")) { o("st=- out=%zu", cc_deque_size(D[k]));
    } else if (is_op(c, "foreach")) { cc_deque_foreach(D[k], cb_rec); o("st=- "); o_cb();
    } else if (is_op(c, "filter_mut")) { st = cc_deque_filter_mut(D[k], pred_even); o_stat(st); o(" "); o_cb();
    } else if (is_op(c, "mk_filter") || is_op(c, "mk_copy_shallow") || is_op(c, "mk_copy_deep")) {
        if (D[to]) { o("st=- busy"); o_sep(); o("-"); return; }
        CC_Deque *r = NULL;
        if (is_op(c, "mk_filter")) st = cc_deque_filter(D[k], pred_even, &r);
        else if (is_op(c, "mk_copy_shallow")) st = cc_deque_copy_shallow(D[k], &r);
        else st = cc_deque_copy_deep(D[k], cp_1000, &r);
        if (st == CC_OK) D[to] = r;
        o_stat(st); o(" "); o_cb();
    } else { o("st=- badop"); }
    if (sweep_now) obs_all();
    o_sep(); phys_all();
}
