/* correspondence shim for src/cc_hashtable.c (cc_array.c is needed by get_keys/get_values) */
#include "cc_common.c"
#include "cc_array.c"
#undef DEFAULT_CAPACITY
#undef DEFAULT_EXPANSION_FACTOR
#include "cc_hashtable.c"
#include "common.h"

/* ------------------------------------------------------------------ keys
 * protocol keys are integers, 0 = the NULL key.  Key kinds (chosen by hash=…):
 *   const/low/mul/id/lib_ptr : the key IS the pointer value PTR(k), compared by value
 *   lib_str                  : interned decimal string of k, compared with cc_common_cmp_str
 *   lib_gen                  : interned klen-byte little-endian image of k, compared with memcmp
 * With `keys=buf` (string / byte keys only) keys are real buffers: every call receives a *fresh copy* of
 * the key's bytes — look-ups in a rotating scratch arena, insertions in a per-history arena whose slots
 * stay valid while the table may store them — so an equal key never arrives as the stored pointer and
 * only the comparator (strcmp / memcmp over key_length bytes, klen = 8 = sizeof(void*) included) can
 * find it. */
enum { K_PTR, K_STR, K_BYTES };
static int key_kind = K_PTR, key_len_bytes = 4;
#define NINTERN 8192
static uint64_t intern_val[NINTERN]; static size_t n_intern;
static char intern_str[NINTERN][24];
static _Alignas(16) unsigned char intern_bytes[NINTERN][16];
static size_t intern(uint64_t k) {
    for (size_t i = 0; i < n_intern; i++) if (intern_val[i] == k) return i;
    if (n_intern >= NINTERN) { fprintf(stderr, "intern table full\n"); exit(3); }
    size_t i = n_intern++;
    intern_val[i] = k;
    snprintf(intern_str[i], sizeof intern_str[i], "%" PRIu64, k);
    memset(intern_bytes[i], 0, 16);
    for (int b = 0; b < 8; b++) intern_bytes[i][b] = (unsigned char)(k >> (8 * b));
    return i;
}
static int key_fresh;                       /* keys=buf */
static int sparse;                          /* obs=sparse: content is observed only by the `observe` op */
#define NSCRATCH 64
#define NARENA (1 << 15)
static _Alignas(16) unsigned char scratch[NSCRATCH][32]; static size_t scratch_i;
static _Alignas(16) unsigned char arena[NARENA][32]; static size_t arena_i;
static void *interned_key(uint64_t k) {
    if (key_kind == K_STR) return intern_str[intern(k)];
    if (key_kind == K_BYTES) return intern_bytes[intern(k)];
    return PTR(k);
}
/* key for a look-up / removal / membership test: never the pointer the table stores */
static void *mkkey(uint64_t k) {
    if (k == 0) return NULL;
    if (!key_fresh || key_kind == K_PTR) return interned_key(k);
    unsigned char *slot = scratch[scratch_i++ % NSCRATCH];
    memset(slot, (unsigned char)(scratch_i * 37 + 1), 32);   /* the bytes after the key differ from call to call */
    memcpy(slot, interned_key(k), key_kind == K_STR ? strlen(intern_str[intern(k)]) + 1 : (size_t)key_len_bytes);
    return slot;
}
/* key for an insertion (the table may keep the pointer): a new slot that stays valid for the history */
static void *mkkey_stored(uint64_t k) {
    if (k == 0) return NULL;
    if (!key_fresh || key_kind == K_PTR) return interned_key(k);
    if (arena_i >= NARENA) { fprintf(stderr, "key arena full\n"); exit(3); }
    unsigned char *slot = arena[arena_i++];
    memset(slot, (unsigned char)(arena_i * 29 + 3), 32);
    memcpy(slot, interned_key(k), key_kind == K_STR ? strlen(intern_str[intern(k)]) + 1 : (size_t)key_len_bytes);
    return slot;
}
static unsigned long long keyval(const void *p) {
    if (!p) return 0;
    if (key_kind == K_STR) return strtoull((const char *)p, NULL, 10);
    if (key_kind == K_BYTES) { unsigned long long v = 0; const unsigned char *b = p;
        for (int i = 0; i < 8 && i < key_len_bytes; i++) v |= (unsigned long long)b[i] << (8 * i); return v; }
    return VAL(p);
}
static int cmp_ptrval(const void *a, const void *b) { return (uintptr_t)a < (uintptr_t)b ? -1 : (uintptr_t)a > (uintptr_t)b; }
static int cmp_bytes(const void *a, const void *b) { return memcmp(a, b, (size_t)key_len_bytes); }
/* harness hash functions (the Lean driver implements the same) */
static size_t h_const(const void *k, int l, uint32_t s) { (void)k; (void)l; (void)s; return 7; }
static size_t h_low(const void *k, int l, uint32_t s) { (void)l; (void)s; return (size_t)((uintptr_t)k & 1); }
static size_t h_mul(const void *k, int l, uint32_t s) { (void)l; (void)s; return (size_t)(((uint64_t)(uintptr_t)k * 2654435761ULL) & 0xffffffffULL); }
static size_t h_id(const void *k, int l, uint32_t s) { (void)l; (void)s; return (size_t)(uintptr_t)k; }

static void conf_from_cmd(Cmd *c, CC_HashTableConf *conf) {
    cc_hashtable_conf_init(conf);
    conf->initial_capacity = kv_u64(c, "cap", 16);
    conf->load_factor = strtof(kv_str(c, "lf", "0.75"), NULL);
    conf->hash_seed = (uint32_t)kv_u64(c, "seed", 0);
    const char *h = kv_str(c, "hash", "id");
    key_kind = K_PTR; conf->key_compare = cmp_ptrval; conf->key_length = KEY_LENGTH_POINTER;
    if (!strcmp(h, "const")) conf->hash = h_const;
    else if (!strcmp(h, "low")) conf->hash = h_low;
    else if (!strcmp(h, "mul")) conf->hash = h_mul;
    else if (!strcmp(h, "lib_ptr")) conf->hash = POINTER_HASH;
    else if (!strcmp(h, "lib_str")) { conf->hash = STRING_HASH; key_kind = K_STR; conf->key_compare = cc_common_cmp_str; conf->key_length = KEY_LENGTH_VARIABLE; }
    else if (!strcmp(h, "lib_gen")) { conf->hash = GENERAL_HASH; key_kind = K_BYTES; key_len_bytes = (int)kv_u64(c, "klen", 4);
        conf->key_compare = cmp_bytes; conf->key_length = key_len_bytes; }
    else conf->hash = h_id;
    key_fresh = !strcmp(kv_str(c, "keys", "id"), "buf"); arena_i = 0;
    sparse = !strcmp(kv_str(c, "obs", "full"), "sparse");
    conf->mem_alloc = conf_malloc; conf->mem_calloc = conf_calloc; conf->mem_free = conf_free;
}

/* ------------------------------------------------------------------ session */
#define NSLOT 4
static CC_HashTable *ht;
static CC_Array *darr[NSLOT];
static int dkind[NSLOT]; /* 1 = keys array (elements are key pointers), 2 = values */
static CC_HashTableIter it; static int it_valid;
static uint64_t universe[4096]; static size_t n_univ;
static unsigned long long ord_log[4096]; static size_t ord_n; static int ord_on;
static int load_bound_broken; /* C20: size > threshold right after a successful insertion */
static void eids_reset(void);
static void shim_reset(void) { eids_reset(); sparse = 0; ht = NULL; for (int i = 0; i < NSLOT; i++) darr[i] = NULL; it_valid = 0; n_univ = 0; }
static void univ_add(uint64_t k) {
    for (size_t i = 0; i < n_univ; i++) if (universe[i] == k) return;
    if (n_univ < 4096) universe[n_univ++] = k;
}
static int cmp_u64(const void *a, const void *b) { uint64_t x = *(const uint64_t *)a, y = *(const uint64_t *)b; return x < y ? -1 : x > y; }
static void cb_key(const void *k) { if (ord_n < 4096) ord_log[ord_n++] = keyval(k); }
static void cb_val(void *v) { if (ord_n < 4096) ord_log[ord_n++] = VAL(v); }
static void o_sorted(const char *name, unsigned long long *v, size_t n) {
    uint64_t *t = __real_malloc(sizeof(uint64_t) * (n ? n : 1));
    for (size_t i = 0; i < n; i++) t[i] = v[i];
    qsort(t, n, sizeof(uint64_t), cmp_u64);
    O_LIST(name); for (size_t i = 0; i < n; i++) o_item(t[i]); o_end();
    __real_free(t);
}

/* content through the public API: get/contains_key over every key this history ever added,
 * cross-checked against a private iterator (count and pairs) */
static void obs_abs(void) {
    if (ht) {
        qsort(universe, n_univ, sizeof(uint64_t), cmp_u64);
        size_t cnt = 0;
        o("size=%zu ", cc_hashtable_size(ht));
        if (cc_hashtable_capacity(ht) != ht->capacity) o("WALK=capacity-accessor ");
        O_LIST("keys");
        for (size_t i = 0; i < n_univ; i++) if (cc_hashtable_contains_key(ht, mkkey(universe[i]))) { o_item(universe[i]); cnt++; }
        o_end(); o(" ");
        O_LIST("vals");
        for (size_t i = 0; i < n_univ; i++) { void *v = PTR(424242);
            if (cc_hashtable_get(ht, mkkey(universe[i]), &v) == CC_OK) o_item(VAL(v)); }
        o_end();
        if (cnt != cc_hashtable_size(ht)) o(" WALK=size-vs-contains");
        CC_HashTableIter li; cc_hashtable_iter_init(&li, ht); TableEntry *e; size_t n = 0;
        while (cc_hashtable_iter_next(&li, &e) != CC_ITER_END) {
            void *v = PTR(424243); n++;
            if (n > cnt + 4) break;
            if (cc_hashtable_get(ht, e->key, &v) != CC_OK || v != e->value) { o(" WALK=iter-vs-get"); break; }
        }
        if (n != cnt) o(" WALK=iter-count");
    } else o("size=- keys=[] vals=[]");
    for (int s = 1; s < NSLOT; s++) if (darr[s]) {
        char nm[8]; snprintf(nm, sizeof nm, "d%d", s);
        size_t n = cc_array_size(darr[s]); unsigned long long *t = __real_malloc(sizeof *t * (n ? n : 1));
        for (size_t i = 0; i < n; i++) { void *x = NULL; cc_array_get_at(darr[s], i, &x); t[i] = dkind[s] == 1 ? keyval(x) : VAL(x); }
        o(" "); o_sorted(nm, t, n); __real_free(t);
    }
}
static const char *ptr_name(TableEntry *p, char *buf) {
    if (!p) return "-";
    for (size_t i = 0; i < ht->capacity; i++) for (TableEntry *e = ht->buckets[i]; e; e = e->next)
        if (e == p) { snprintf(buf, 32, "%llu", keyval(e->key)); return buf; }
    return "x";
}

/* ---- entry ids in allocation order: an entry gets the next serial number when it is first seen by this walk (at
   most one entry is allocated per operation and every operation is followed by the walk); an entry that has left
   the table loses its id, so an address the allocator hands out again gets a fresh serial -- exactly the ids of the
   pointer-level model (Model/PHash.lean).  `pe=[bucket:id:key:next,...]` prints every chain with its raw links. */
#define NEIDS 65536
static struct { TableEntry *p; unsigned long id; unsigned long gen; } eids[NEIDS];
static size_t n_eids; static unsigned long eid_next, eid_gen;
static void eids_reset(void) { n_eids = 0; eid_next = 0; }
static void eids_scan(CC_HashTable *t) {
    eid_gen++;
    for (size_t i = 0; i < t->capacity; i++) for (TableEntry *e = t->buckets[i]; e; e = e->next) {
        size_t j; for (j = 0; j < n_eids; j++) if (eids[j].p == e) break;
        if (j == n_eids) { if (n_eids >= NEIDS) { fprintf(stderr, "entry id table full\n"); exit(3); }
            eids[n_eids].p = e; eids[n_eids].id = eid_next++; n_eids++; }
        eids[j].gen = eid_gen;
    }
    size_t k = 0; for (size_t j = 0; j < n_eids; j++) if (eids[j].gen == eid_gen) eids[k++] = eids[j];
    n_eids = k;
}
static void o_eid(TableEntry *p) {
    if (!p) { o("-"); return; }
    for (size_t j = 0; j < n_eids; j++) if (eids[j].p == p) { o("%lu", eids[j].id); return; }
    o("x");
}
static void o_pentries(CC_HashTable *t) {
    eids_scan(t);
    o(" pe=["); int first = 1;
    for (size_t i = 0; i < t->capacity; i++) for (TableEntry *e = t->buckets[i]; e; e = e->next) {
        o(first ? "%zu:" : ",%zu:", i); first = 0; o_eid(e); o(":%llu:", keyval(e->key)); o_eid(e->next);
    }
    o("]");
}

static void phys(void) {
    if (ht) {
        o("cap=%zu size=%zu thr=%zu ", ht->capacity, ht->size, ht->threshold);
        size_t total = 0;
        O_LIST("ents");
        for (size_t i = 0; i < ht->capacity; i++) for (TableEntry *e = ht->buckets[i]; e; e = e->next) {
            o(o_first ? "%zu:%llu:%llu:%zu" : ",%zu:%llu:%llu:%zu", i, keyval(e->key), VAL(e->value), e->hash); o_first = 0; total++;
        }
        o_end();
        if (it_valid) { char b1[32], b2[32]; o(" it=%zu/%s/%s", it.bucket_index, ptr_name(it.prev_entry, b1), ptr_name(it.next_entry, b2)); }
        o_pentries(ht);
        if (it_valid) { o(" pit=%zu/", it.bucket_index); o_eid(it.prev_entry); o("/"); o_eid(it.next_entry); }
        /* L2 walkers */
        if (load_bound_broken) o(" WALK=load-bound-after-insert");
        if (total != ht->size) o(" WALK=chain-lengths-vs-size");
        if (ht->capacity == 0 || (ht->capacity & (ht->capacity - 1))) o(" WALK=capacity-not-pow2");
        if (block_size(ht->buckets) < ht->capacity * sizeof(TableEntry *)) o(" WALK=bucket-block-too-small");
        for (size_t i = 0; i < ht->capacity; i++) for (TableEntry *e = ht->buckets[i]; e; e = e->next) {
            if ((e->hash & (ht->capacity - 1)) != i) { o(" WALK=entry-in-wrong-bucket"); goto done; }
            if (e->key ? e->hash != ht->hash(e->key, ht->key_len, ht->hash_seed) : (e->hash != 0 || i != 0)) { o(" WALK=cached-hash-stale"); goto done; }
            if (block_size(e) < sizeof(TableEntry)) { o(" WALK=entry-block-too-small"); goto done; }
        }
        done:;
    } else o("-");
    for (int s = 1; s < NSLOT; s++) if (darr[s]) {
        char nm[8]; snprintf(nm, sizeof nm, "e%d", s);
        o(" d%d=%zu/%zu ", s, darr[s]->size, darr[s]->capacity);
        O_LIST(nm); for (size_t i = 0; i < darr[s]->size; i++) o_item(dkind[s] == 1 ? keyval(darr[s]->buffer[i]) : VAL(darr[s]->buffer[i])); o_end();
        if (block_size(darr[s]->buffer) < darr[s]->capacity * sizeof(void *)) o(" WALK=array-block-too-small");
    }
    if (ord_on) { o(" "); O_LIST("ord"); for (size_t i = 0; i < ord_n; i++) o_item(ord_log[i]); o_end(); }
}
static void destroy_arrays(void) { for (int s = 1; s < NSLOT; s++) if (darr[s]) { cc_array_destroy(darr[s]); darr[s] = NULL; } }

static void do_op(Cmd *c) {
    ord_on = 0; ord_n = 0; load_bound_broken = 0;
    int slot = (int)kv_u64(c, "to", kv_u64(c, "o", 0));
    if (is_op(c, "new")) {
        CC_HashTableConf conf; conf_from_cmd(c, &conf);
        ht = NULL; it_valid = 0; eids_reset();
        enum cc_stat st = cc_hashtable_new_conf(&conf, &ht);
        if (st != CC_OK) ht = NULL;
        o_stat(st); o(" ");
    } else if (is_op(c, "new_default")) {
        ht = NULL; it_valid = 0; eids_reset(); key_kind = K_STR; key_fresh = 0; sparse = !strcmp(kv_str(c, "obs", "full"), "sparse");
        enum cc_stat st = cc_hashtable_new(&ht); if (st != CC_OK) ht = NULL; o_stat(st); o(" ");
    } else if (is_op(c, "arr_add") || is_op(c, "arr_destroy")) {
        if (slot < 1 || slot >= NSLOT || !darr[slot]) { o("st=- noslot "); }
        else if (is_op(c, "arr_add")) { enum cc_stat st = cc_array_add(darr[slot], dkind[slot] == 1 ? mkkey_stored(pos_u64(c, 0)) : PTR(pos_u64(c, 0))); o_stat(st); o(" "); }
        else { cc_array_destroy(darr[slot]); darr[slot] = NULL; o("st=- "); }
    } else if (is_op(c, "destroy")) {
        if (ht) cc_hashtable_destroy(ht);
        ht = NULL; it_valid = 0; destroy_arrays(); o("st=- ");
    } else if (!ht) { o("st=- nosession ");
    } else if (is_op(c, "add")) {
        uint64_t k = pos_u64(c, 0); univ_add(k); it_valid = 0;
        enum cc_stat st = cc_hashtable_add(ht, mkkey_stored(k), PTR(pos_u64(c, 1))); o_stat(st); o(" ");
        if (st == CC_OK && ht->size > ht->threshold) load_bound_broken = 1;
    } else if (is_op(c, "get")) {
        void *out = PTR(777777); enum cc_stat st = cc_hashtable_get(ht, mkkey(pos_u64(c, 0)), &out);
        o_stat(st); if (st == CC_OK) o(" out=%llu", VAL(out)); else if (out != PTR(777777)) o(" WALK=out-written-on-error"); o(" ");
    } else if (is_op(c, "contains_key")) {
        o("st=- out=%d ", (int)cc_hashtable_contains_key(ht, mkkey(pos_u64(c, 0))));
    } else if (is_op(c, "remove")) {
        void *out = PTR(777777); int noout = (int)kv_u64(c, "noout", 0); it_valid = 0;
        enum cc_stat st = cc_hashtable_remove(ht, mkkey(pos_u64(c, 0)), noout ? NULL : &out);
        o_stat(st); if (st == CC_OK && !noout) o(" out=%llu", VAL(out)); else if (out != PTR(777777)) o(" WALK=out-written"); o(" ");
    } else if (is_op(c, "remove_all")) {
        it_valid = 0; cc_hashtable_remove_all(ht); o("st=- ");
    } else if (is_op(c, "foreach_key")) {
        ord_on = 1; cc_hashtable_foreach_key(ht, cb_key); o("st=- "); o_sorted("cb", ord_log, ord_n); o(" ");
    } else if (is_op(c, "foreach_value")) {
        ord_on = 1; cc_hashtable_foreach_value(ht, cb_val); o("st=- "); o_sorted("cb", ord_log, ord_n); o(" ");
    } else if (is_op(c, "mk_keys") || is_op(c, "mk_values")) {
        if (slot < 1 || slot >= NSLOT || darr[slot]) { o("st=- slotbusy "); }
        else {
            CC_Array *a = NULL; int keys = is_op(c, "mk_keys");
            enum cc_stat st = keys ? cc_hashtable_get_keys(ht, &a) : cc_hashtable_get_values(ht, &a);
            if (st == CC_OK) { darr[slot] = a; dkind[slot] = keys ? 1 : 2; } else if (a) o("WALK=out-written-on-error ");
            o_stat(st); o(" ");
        }
    } else if (is_op(c, "it_new")) {
        cc_hashtable_iter_init(&it, ht); it_valid = 1; o("st=- ");
    } else if (is_op(c, "it_next")) {
        if (!it_valid) o("st=- noiter ");
        else { TableEntry *e = NULL; enum cc_stat st = cc_hashtable_iter_next(&it, &e); o_stat(st);
            if (st == CC_OK) { o(" k=%llu v=%llu", keyval(e->key), VAL(e->value)); } o(" "); }
    } else if (is_op(c, "it_remove")) {
        if (!it_valid) o("st=- noiter ");
        else { void *out = PTR(777777); int noout = (int)kv_u64(c, "noout", 0);
            enum cc_stat st = cc_hashtable_iter_remove(&it, noout ? NULL : &out);
            o_stat(st); if (st == CC_OK && !noout) o(" out=%llu", VAL(out)); o(" "); }
    } else if (is_op(c, "destroy_table")) {
        cc_hashtable_destroy(ht); ht = NULL; it_valid = 0; o("st=- ");
    } else if (is_op(c, "observe")) { o("st=- ");
    } else { o("st=- badop "); }
    if (!sparse || is_op(c, "observe")) obs_abs();
    o_sep(); phys();
}
