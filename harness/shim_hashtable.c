/* correspondence shim for src/cc_hashtable.c (cc_array.c is needed by get_keys/get_values) */
#include "cc_common.c"
#include "cc_array.c"
#undef DEFAULT_CAPACITY
#undef DEFAULT_EXPANSION_FACTOR
#include "cc_hashtable.h"
/* FINDING (reported, see notes): the block loop of cc_hashtable_hash (MurmurHash3) loads the key through a
 * `const uint32_t *`; for a fixed-length key of >= 4 bytes whose buffer is not 4-byte aligned that is a misaligned
 * load (undefined behaviour; -fsanitize=alignment: "load of misaligned address … for type 'const uint32_t'").
 * Key buffers are presented at every offset 0..7 (keys=buf), so the alignment check is switched off for this one
 * function — everything else (bounds, the value of the hash) stays checked.  Delete the next line to see the report. */
size_t cc_hashtable_hash(const void *key, int len, uint32_t seed) __attribute__((no_sanitize("alignment")));
#include "cc_hashtable.c"
#include "common.h"

/* ------------------------------------------------------------------ keys
 * protocol keys are integers, 0 = the NULL key.  Key kinds (chosen by hash=…):
 *   const/low/mul/id/lib_ptr : the key IS the pointer value PTR(k), compared by value
 *   lib_str                  : interned decimal string of k, compared with cc_common_cmp_str
 *   lib_gen                  : interned klen-byte little-endian image of k, compared with memcmp
 *                              (bytes 0..7 = k little-endian, byte b >= 8 = byte (b % 8) of k XOR (b*157+11))
 * With `keys=buf` (string / byte keys only) keys are real buffers: every call receives a *fresh copy* of
 * the key's bytes in a block obtained from the REAL malloc (outside the ledgers) of exactly `off + length`
 * bytes with the key at offset `off` in 0..7 — so the key ENDS at the end of its allocation (any read past
 * the key hits the sanitizer's red zone) and equal keys arrive at different alignments from call to call.
 * Look-up keys live in a ring of 64 blocks (freed on reuse); inserted keys stay valid for the history
 * (freed at the next `reset`).  An equal key never arrives as the stored pointer, so only the comparator
 * (strcmp / memcmp over key_length bytes, klen = 8 = sizeof(void*) included) can find it. */
enum { K_PTR, K_STR, K_BYTES };
static int key_kind = K_PTR, key_len_bytes = 4;
#define NINTERN 8192
static uint64_t intern_val[NINTERN]; static size_t n_intern;
static char intern_str[NINTERN][24];
#define KEYIMG 48
static _Alignas(16) unsigned char intern_bytes[NINTERN][KEYIMG];
static size_t intern(uint64_t k) {
    for (size_t i = 0; i < n_intern; i++) if (intern_val[i] == k) return i;
    if (n_intern >= NINTERN) { fprintf(stderr, "intern table full\n"); exit(3); }
    size_t i = n_intern++;
    intern_val[i] = k;
    snprintf(intern_str[i], sizeof intern_str[i], "%" PRIu64, k);
    for (int b = 0; b < 8; b++) intern_bytes[i][b] = (unsigned char)(k >> (8 * b));
    for (int b = 8; b < KEYIMG; b++) intern_bytes[i][b] = (unsigned char)((k >> (8 * (b % 8))) ^ (unsigned)(b * 157 + 11));
    return i;
}
static int key_fresh;                       /* keys=buf */
static int sparse;                          /* obs=sparse: content is observed only by the `observe` op */
static int model_off;                       /* model=off: a history too large for the Lean models (they answer `M ?`) */
static int phys_sum, phys_full;             /* phys=sum: the chains are printed as two checksums, in full only on `observe` */
#define NSCRATCH 64
#define NARENA (1 << 15)
static unsigned char *scratch_blk[NSCRATCH]; static size_t scratch_i;
static unsigned char *arena_blk[NARENA]; static size_t arena_i;
static void *interned_key(uint64_t k) {
    if (key_kind == K_STR) return intern_str[intern(k)];
    if (key_kind == K_BYTES) return intern_bytes[intern(k)];
    return PTR(k);
}
/* exact-size block from the real allocator: `off` filler bytes, then the key, then the end of the block */
static unsigned char *key_block(uint64_t k, size_t off, unsigned char fill, unsigned char **blk) {
    size_t len = key_kind == K_STR ? strlen(intern_str[intern(k)]) + 1 : (size_t)key_len_bytes;
    unsigned char *b = __real_malloc(off + len);
    if (!b) { fprintf(stderr, "key block: out of memory\n"); exit(3); }
    memset(b, fill, off);
    memcpy(b + off, interned_key(k), len);
    *blk = b;
    return b + off;
}
static void keys_release(void) {
    for (size_t i = 0; i < NSCRATCH; i++) if (scratch_blk[i]) { __real_free(scratch_blk[i]); scratch_blk[i] = NULL; }
    for (size_t i = 0; i < arena_i; i++) if (arena_blk[i]) { __real_free(arena_blk[i]); arena_blk[i] = NULL; }
    arena_i = 0;
}
/* key for a look-up / removal / membership test: never the pointer the table stores */
static void *mkkey(uint64_t k) {
    if (k == 0) return NULL;
    if (!key_fresh || key_kind == K_PTR) return interned_key(k);
    size_t s = scratch_i++ % NSCRATCH;
    if (scratch_blk[s]) __real_free(scratch_blk[s]);
    return key_block(k, (scratch_i * 3 + 1) % 8, (unsigned char)(scratch_i * 37 + 1), &scratch_blk[s]);
}
/* key for an insertion (the table may keep the pointer): a new block that stays valid for the history */
static void *mkkey_stored(uint64_t k) {
    if (k == 0) return NULL;
    if (!key_fresh || key_kind == K_PTR) return interned_key(k);
    if (arena_i >= NARENA) { fprintf(stderr, "key arena full\n"); exit(3); }
    size_t s = arena_i++;
    return key_block(k, (s * 5 + 2) % 8, (unsigned char)(s * 29 + 3), &arena_blk[s]);
}
static unsigned long long keyval(const void *p) {
    if (!p) return 0;
    if (key_kind == K_STR) return strtoull((const char *)p, NULL, 10);
    if (key_kind == K_BYTES) { unsigned long long v = 0; const unsigned char *b = p;
        for (int i = 0; i < 8 && i < key_len_bytes; i++) v |= (unsigned long long)b[i] << (8 * i); return v; }
    return VAL(p);
}
static int cmp_ptrval(const void *a, const void *b) { return (uintptr_t)a < (uintptr_t)b ? -1 : (uintptr_t)a > (uintptr_t)b; }
static int cmp_bytes(const void *a, const void *b) { return memcmp(a, b, (size_t)key_len_bytes); }
/* harness hash functions (the Lean driver implements the same) */
static size_t h_const(const void *k, int l, uint32_t s) { (void)k; (void)l; (void)s; return 7; }
static size_t h_low(const void *k, int l, uint32_t s) { (void)l; (void)s; return (size_t)((uintptr_t)k & 1); }
static size_t h_mul(const void *k, int l, uint32_t s) { (void)l; (void)s; return (size_t)(((uint64_t)(uintptr_t)k * 2654435761ULL) & 0xffffffffULL); }
static size_t h_id(const void *k, int l, uint32_t s) { (void)l; (void)s; return (size_t)(uintptr_t)k; }

static void conf_from_cmd(Cmd *c, CC_HashTableConf *conf) {
    cc_hashtable_conf_init(conf);
    conf->initial_capacity = kv_u64(c, "cap", 16);
    conf->load_factor = strtof(kv_str(c, "lf", "0.75"), NULL);
    conf->hash_seed = (uint32_t)kv_u64(c, "seed", 0);
    const char *h = kv_str(c, "hash", "id");
    key_kind = K_PTR; conf->key_compare = cmp_ptrval; conf->key_length = KEY_LENGTH_POINTER;
    if (!strcmp(h, "const")) conf->hash = h_const;
    else if (!strcmp(h, "low")) conf->hash = h_low;
    else if (!strcmp(h, "mul")) conf->hash = h_mul;
    else if (!strcmp(h, "lib_ptr")) conf->hash = POINTER_HASH;
    else if (!strcmp(h, "lib_str")) { conf->hash = STRING_HASH; key_kind = K_STR; conf->key_compare = cc_common_cmp_str; conf->key_length = KEY_LENGTH_VARIABLE; }
    else if (!strcmp(h, "lib_gen")) { conf->hash = GENERAL_HASH; key_kind = K_BYTES; key_len_bytes = (int)kv_u64(c, "klen", 4);
        conf->key_compare = cmp_bytes; conf->key_length = key_len_bytes; }
    else conf->hash = h_id;
    key_fresh = !strcmp(kv_str(c, "keys", "id"), "buf");
    sparse = !strcmp(kv_str(c, "obs", "full"), "sparse"); phys_sum = !strcmp(kv_str(c, "phys", "full"), "sum"); model_off = !strcmp(kv_str(c, "model", "on"), "off");
    conf->mem_alloc = conf_malloc; conf->mem_calloc = conf_calloc; conf->mem_free = conf_free;
}

/* ------------------------------------------------------------------ session */
#define NSLOT 4
static CC_HashTable *ht;
static CC_Array *darr[NSLOT];
static int dkind[NSLOT]; /* 1 = keys array (elements are key pointers), 2 = values */
static CC_HashTableIter it; static int it_valid;
#define NUNIV (1u << 17)
static uint64_t universe[NUNIV]; static size_t n_univ;
static uint64_t univ_tab[NUNIV * 2]; static unsigned char univ_used[NUNIV * 2]; static uint32_t univ_slots[NUNIV];

static unsigned long long ord_log[4096]; static size_t ord_n; static int ord_on;
static int load_bound_broken; /* C20: size > threshold right after a successful insertion */
static void eids_reset(void);
static void shim_reset(void) { eids_reset(); keys_release(); sparse = 0; phys_sum = 0; ht = NULL; for (int i = 0; i < NSLOT; i++) darr[i] = NULL; it_valid = 0; model_off = 0; for (size_t i = 0; i < n_univ; i++) univ_used[univ_slots[i]] = 0; n_univ = 0; }
static void univ_add(uint64_t k) {
    size_t j = (size_t)((k * 0x9E3779B97F4A7C15ULL) >> 46) & (NUNIV * 2 - 1);
    while (univ_used[j]) { if (univ_tab[j] == k) return; j = (j + 1) & (NUNIV * 2 - 1); }
    if (n_univ >= NUNIV) { fprintf(stderr, "key universe full\n"); exit(3); }
    univ_used[j] = 1; univ_tab[j] = k; univ_slots[n_univ] = (uint32_t)j; universe[n_univ++] = k;
}
static int cmp_u64(const void *a, const void *b) { uint64_t x = *(const uint64_t *)a, y = *(const uint64_t *)b; return x < y ? -1 : x > y; }
static void cb_key(const void *k) { if (ord_n < 4096) ord_log[ord_n++] = keyval(k); }
static void cb_val(void *v) { if (ord_n < 4096) ord_log[ord_n++] = VAL(v); }
static void o_sorted(const char *name, unsigned long long *v, size_t n) {
    uint64_t *t = __real_malloc(sizeof(uint64_t) * (n ? n : 1));
    for (size_t i = 0; i < n; i++) t[i] = v[i];
    qsort(t, n, sizeof(uint64_t), cmp_u64);
    O_LIST(name); for (size_t i = 0; i < n; i++) o_item(t[i]); o_end();
    __real_free(t);
}

/* content through the public API: get/contains_key over every key this history ever added,
 * cross-checked against a private iterator (count and pairs) */
static void obs_abs(void) {
    if (ht) {
        qsort(universe, n_univ, sizeof(uint64_t), cmp_u64);
        size_t cnt = 0;
        o("size=%zu ", cc_hashtable_size(ht));
        if (cc_hashtable_capacity(ht) != ht->capacity) o("WALK=capacity-accessor ");
        O_LIST("keys");
        for (size_t i = 0; i < n_univ; i++) if (cc_hashtable_contains_key(ht, mkkey(universe[i]))) { o_item(universe[i]); cnt++; }
        o_end(); o(" ");
        O_LIST("vals");
        for (size_t i = 0; i < n_univ; i++) { void *v = PTR(424242);
            if (cc_hashtable_get(ht, mkkey(universe[i]), &v) == CC_OK) o_item(VAL(v)); }
        o_end();
        if (cnt != cc_hashtable_size(ht)) o(" WALK=size-vs-contains");
        CC_HashTableIter li; cc_hashtable_iter_init(&li, ht); TableEntry *e; size_t n = 0;
        while (cc_hashtable_iter_next(&li, &e) != CC_ITER_END) {
            void *v = PTR(424243); n++;
            if (n > cnt + 4) break;
            if (cc_hashtable_get(ht, e->key, &v) != CC_OK || v != e->value) { o(" WALK=iter-vs-get"); break; }
        }
        if (n != cnt) o(" WALK=iter-count");
    } else o("size=- keys=[] vals=[]");
    for (int s = 1; s < NSLOT; s++) if (darr[s]) {
        char nm[8]; snprintf(nm, sizeof nm, "d%d", s);
        size_t n = cc_array_size(darr[s]); unsigned long long *t = __real_malloc(sizeof *t * (n ? n : 1));
        for (size_t i = 0; i < n; i++) { void *x = NULL; cc_array_get_at(darr[s], i, &x); t[i] = dkind[s] == 1 ? keyval(x) : VAL(x); }
        o(" "); o_sorted(nm, t, n); __real_free(t);
    }
}
static const char *ptr_name(TableEntry *p, char *buf) {
    if (!p) return "-";
    for (size_t i = 0; i < ht->capacity; i++) for (TableEntry *e = ht->buckets[i]; e; e = e->next)
        if (e == p) { snprintf(buf, 32, "%llu", keyval(e->key)); return buf; }
    return "x";
}

/* ---- entry ids in allocation order: an entry gets the next serial number when it is first seen by this walk (at
   most one entry is allocated per operation and every operation is followed by the walk); an entry that has left
   the table loses its id, so an address the allocator hands out again gets a fresh serial -- exactly the ids of the
   pointer-level model (Model/PHash.lean).  `pe=[bucket:id:key:next,...]` prints every chain with its raw links. */
#define NEIDS (1u << 17)
static struct { TableEntry *p; unsigned long id; unsigned long gen; } eids[NEIDS];
static uint32_t eids_slots[NEIDS / 2 + 8]; static size_t eids_used;
static unsigned long eid_next, eid_gen = 1;
static void eids_reset(void) {
    for (size_t i = 0; i < eids_used; i++) eids[eids_slots[i]].p = NULL;
    eids_used = 0; eid_next = 0; eid_gen = 1;
}
static size_t eid_slot(TableEntry *p) {
    size_t i = (size_t)((((uintptr_t)p >> 4) * 2654435761ULL) & (NEIDS - 1));
    while (eids[i].p && eids[i].p != p) i = (i + 1) & (NEIDS - 1);
    return i;
}
static void eids_scan(CC_HashTable *t) {
    if (eids_used > NEIDS / 2 - 4096) {      /* drop the slots of entries that left the table */
        size_t n = 0; TableEntry **ps = __real_malloc(sizeof *ps * eids_used); unsigned long *ids = __real_malloc(sizeof *ids * eids_used);
        for (size_t i = 0; i < eids_used; i++) { size_t j = eids_slots[i]; if (eids[j].gen == eid_gen) { ps[n] = eids[j].p; ids[n] = eids[j].id; n++; } eids[j].p = NULL; }
        eids_used = 0;
        for (size_t i = 0; i < n; i++) { size_t j = eid_slot(ps[i]); eids[j].p = ps[i]; eids[j].id = ids[i]; eids[j].gen = eid_gen; eids_slots[eids_used++] = (uint32_t)j; }
        __real_free(ps); __real_free(ids);
        if (eids_used > NEIDS / 2 - 4096) { fprintf(stderr, "entry id table full\n"); exit(3); }
    }
    unsigned long prev = eid_gen; eid_gen++;
    for (size_t i = 0; i < t->capacity; i++) for (TableEntry *e = t->buckets[i]; e; e = e->next) {
        size_t j = eid_slot(e);
        if (!eids[j].p) { eids[j].p = e; eids[j].id = eid_next++; eids_slots[eids_used++] = (uint32_t)j; }
        else if (eids[j].gen != prev) eids[j].id = eid_next++;   /* the address was free in between: a new entry */
        eids[j].gen = eid_gen;
    }
}
static int eid_of(TableEntry *p, unsigned long *id) {
    size_t j = eid_slot(p);
    if (eids[j].p == p && eids[j].gen == eid_gen) { *id = eids[j].id; return 1; }
    return 0;
}
static void o_eid(TableEntry *p) {
    unsigned long id;
    if (!p) { o("-"); return; }
    if (eid_of(p, &id)) o("%lu", id); else o("x");
}
/* phys=sum */ /* (declared above) */ //: chains are printed as two checksums except on `observe` */
#define SUM0 14695981039346656037ULL
#define SUMSTEP(h, x) ((h) = ((h) ^ (unsigned long long)(x)) * 1099511628211ULL)
static void o_pentries(CC_HashTable *t) {
    eids_scan(t);
    if (phys_sum && (!phys_full || model_off)) {
        unsigned long long h = SUM0;
        for (size_t i = 0; i < t->capacity; i++) for (TableEntry *e = t->buckets[i]; e; e = e->next) {
            unsigned long id = 0, nid = 0; eid_of(e, &id);
            SUMSTEP(h, i); SUMSTEP(h, id); SUMSTEP(h, keyval(e->key));
            if (e->next && eid_of(e->next, &nid)) SUMSTEP(h, nid); else SUMSTEP(h, 0xffffffffffffffffULL);
        }
        o(" psum=%llx", h); return;
    }
    o(" pe=["); int first = 1;
    for (size_t i = 0; i < t->capacity; i++) for (TableEntry *e = t->buckets[i]; e; e = e->next) {
        o(first ? "%zu:" : ",%zu:", i); first = 0; o_eid(e); o(":%llu:", keyval(e->key)); o_eid(e->next);
    }
    o("]");
}

static void phys(void) {
    if (ht) {
        o("cap=%zu size=%zu thr=%zu ", ht->capacity, ht->size, ht->threshold);
        if (model_off && !phys_full) return;  /* chains are walked (checksums, walkers) on `observe` only */
        size_t total = 0;
        if (phys_sum && (!phys_full || model_off)) {
            unsigned long long h = SUM0;
            for (size_t i = 0; i < ht->capacity; i++) for (TableEntry *e = ht->buckets[i]; e; e = e->next) {
                SUMSTEP(h, i); SUMSTEP(h, keyval(e->key)); SUMSTEP(h, VAL(e->value)); SUMSTEP(h, e->hash); total++; }
            o("sum=%llx", h);
        } else {
        O_LIST("ents");
        for (size_t i = 0; i < ht->capacity; i++) for (TableEntry *e = ht->buckets[i]; e; e = e->next) {
            o(o_first ? "%zu:%llu:%llu:%zu" : ",%zu:%llu:%llu:%zu", i, keyval(e->key), VAL(e->value), e->hash); o_first = 0; total++;
        }
        o_end();
        }
        if (it_valid) { char b1[32], b2[32]; o(" it=%zu/%s/%s", it.bucket_index, ptr_name(it.prev_entry, b1), ptr_name(it.next_entry, b2)); }
        o_pentries(ht);
        if (it_valid) { o(" pit=%zu/", it.bucket_index); o_eid(it.prev_entry); o("/"); o_eid(it.next_entry); }
        /* L2 walkers */
        if (load_bound_broken) o(" WALK=load-bound-after-insert");
        if (total != ht->size) o(" WALK=chain-lengths-vs-size");
        if (ht->capacity == 0 || (ht->capacity & (ht->capacity - 1))) o(" WALK=capacity-not-pow2");
        if (block_size(ht->buckets) < ht->capacity * sizeof(TableEntry *)) o(" WALK=bucket-block-too-small");
        for (size_t i = 0; i < ht->capacity; i++) for (TableEntry *e = ht->buckets[i]; e; e = e->next) {
            if ((e->hash & (ht->capacity - 1)) != i) { o(" WALK=entry-in-wrong-bucket"); goto done; }
            if (e->key ? e->hash != ht->hash(e->key, ht->key_len, ht->hash_seed) : (e->hash != 0 || i != 0)) { o(" WALK=cached-hash-stale"); goto done; }
            if ((!phys_sum || phys_full) && !model_off && block_size(e) < sizeof(TableEntry)) { o(" WALK=entry-block-too-small"); goto done; }
        }
        done:;
    } else o("-");
    for (int s = 1; s < NSLOT; s++) if (darr[s]) {
        char nm[8]; snprintf(nm, sizeof nm, "e%d", s);
        o(" d%d=%zu/%zu ", s, darr[s]->size, darr[s]->capacity);
        O_LIST(nm); for (size_t i = 0; i < darr[s]->size; i++) o_item(dkind[s] == 1 ? keyval(darr[s]->buffer[i]) : VAL(darr[s]->buffer[i])); o_end();
        if (block_size(darr[s]->buffer) < darr[s]->capacity * sizeof(void *)) o(" WALK=array-block-too-small");
    }
    if (ord_on) { o(" "); O_LIST("ord"); for (size_t i = 0; i < ord_n; i++) o_item(ord_log[i]); o_end(); }
}
static void destroy_arrays(void) { for (int s = 1; s < NSLOT; s++) if (darr[s]) { cc_array_destroy(darr[s]); darr[s] = NULL; } }

/* a live iterator session survives direct calls on the table as far as the C code stays inside live memory: get /
 * contains_key always; add unless it rehashes (entries are only relinked, but which of them the iterator still
 * visits is unspecified); remove unless it frees the entry `prev_entry` or `next_entry` points to (iter_next /
 * iter_remove would dereference freed memory - outside the contract); remove_all never. */
static int it_names(uint64_t k) {
    TableEntry *p = it.prev_entry, *n = it.next_entry;
    return (p && keyval(p->key) == k) || (n && keyval(n->key) == k);
}
static void do_op(Cmd *c) {
    phys_full = is_op(c, "observe"); ord_on = 0; ord_n = 0; load_bound_broken = 0;
    int slot = (int)kv_u64(c, "to", kv_u64(c, "o", 0));
    if (is_op(c, "new")) {
        CC_HashTableConf conf; conf_from_cmd(c, &conf);
        ht = NULL; it_valid = 0; eids_reset();
        enum cc_stat st = cc_hashtable_new_conf(&conf, &ht);
        if (st != CC_OK) ht = NULL;
        o_stat(st); o(" ");
    } else if (is_op(c, "new_default")) {
        ht = NULL; it_valid = 0; eids_reset(); key_kind = K_STR; key_fresh = 0; sparse = !strcmp(kv_str(c, "obs", "full"), "sparse"); phys_sum = !strcmp(kv_str(c, "phys", "full"), "sum");
        enum cc_stat st = cc_hashtable_new(&ht); if (st != CC_OK) ht = NULL; o_stat(st); o(" ");
    } else if (is_op(c, "arr_add") || is_op(c, "arr_destroy")) {
        if (slot < 1 || slot >= NSLOT || !darr[slot]) { o("st=- noslot "); }
        else if (is_op(c, "arr_add")) { enum cc_stat st = cc_array_add(darr[slot], dkind[slot] == 1 ? mkkey_stored(pos_u64(c, 0)) : PTR(pos_u64(c, 0))); o_stat(st); o(" "); }
        else { cc_array_destroy(darr[slot]); darr[slot] = NULL; o("st=- "); }
    } else if (is_op(c, "destroy")) {
        if (ht) cc_hashtable_destroy(ht);
        ht = NULL; it_valid = 0; destroy_arrays(); o("st=- ");
    } else if (!ht) { o("st=- nosession ");
    } else if (is_op(c, "add")) {
        uint64_t k = pos_u64(c, 0); univ_add(k); size_t cap0 = ht->capacity;
        enum cc_stat st = cc_hashtable_add(ht, mkkey_stored(k), PTR(pos_u64(c, 1))); o_stat(st); o(" ");
        if (ht->capacity != cap0) it_valid = 0;             /* a rehash under a live iterator: enumeration unspecified */
        if (st == CC_OK && ht->size > ht->threshold) load_bound_broken = 1;
    } else if (is_op(c, "get")) {
        void *out = PTR(777777); enum cc_stat st = cc_hashtable_get(ht, mkkey(pos_u64(c, 0)), &out);
        o_stat(st); if (st == CC_OK) o(" out=%llu", VAL(out)); else if (out != PTR(777777)) o(" WALK=out-written-on-error"); o(" ");
    } else if (is_op(c, "contains_key")) {
        o("st=- out=%d ", (int)cc_hashtable_contains_key(ht, mkkey(pos_u64(c, 0))));
    } else if (is_op(c, "remove")) {
        void *out = PTR(777777); int noout = (int)kv_u64(c, "noout", 0);
        if (it_valid && it_names(pos_u64(c, 0))) it_valid = 0;   /* the entry prev_entry/next_entry points to is about to be freed */
        enum cc_stat st = cc_hashtable_remove(ht, mkkey(pos_u64(c, 0)), noout ? NULL : &out);
        o_stat(st); if (st == CC_OK && !noout) o(" out=%llu", VAL(out)); else if (out != PTR(777777)) o(" WALK=out-written"); o(" ");
    } else if (is_op(c, "remove_all")) {
        it_valid = 0; cc_hashtable_remove_all(ht); o("st=- ");
    } else if (is_op(c, "foreach_key")) {
        ord_on = 1; cc_hashtable_foreach_key(ht, cb_key); o("st=- "); o_sorted("cb", ord_log, ord_n); o(" ");
    } else if (is_op(c, "foreach_value")) {
        ord_on = 1; cc_hashtable_foreach_value(ht, cb_val); o("st=- "); o_sorted("cb", ord_log, ord_n); o(" ");
    } else if (is_op(c, "mk_keys") || is_op(c, "mk_values")) {
        if (slot < 1 || slot >= NSLOT || darr[slot]) { o("st=- slotbusy "); }
        else {
            CC_Array *a = NULL; int keys = is_op(c, "mk_keys");
            enum cc_stat st = keys ? cc_hashtable_get_keys(ht, &a) : cc_hashtable_get_values(ht, &a);
            if (st == CC_OK) { darr[slot] = a; dkind[slot] = keys ? 1 : 2; } else if (a) o("WALK=out-written-on-error ");
            o_stat(st); o(" ");
        }
    } else if (is_op(c, "it_new")) {
        cc_hashtable_iter_init(&it, ht); it_valid = 1; o("st=- ");
    } else if (is_op(c, "it_next")) {
        if (!it_valid) o("st=- noiter ");
        else { TableEntry *e = NULL; enum cc_stat st = cc_hashtable_iter_next(&it, &e); o_stat(st);
            if (st == CC_OK) { o(" k=%llu v=%llu", keyval(e->key), VAL(e->value)); } o(" "); }
    } else if (is_op(c, "it_remove")) {
        if (!it_valid) o("st=- noiter ");
        else { void *out = PTR(777777); int noout = (int)kv_u64(c, "noout", 0);
            enum cc_stat st = cc_hashtable_iter_remove(&it, noout ? NULL : &out);
            o_stat(st); if (st == CC_OK && !noout) o(" out=%llu", VAL(out)); o(" "); }
    } else if (is_op(c, "destroy_table")) {
        cc_hashtable_destroy(ht); ht = NULL; it_valid = 0; o("st=- ");
    } else if (is_op(c, "observe")) { o("st=- ");
    } else { o("st=- badop "); }
    if (!sparse || is_op(c, "observe")) obs_abs();
    o_sep(); phys();
}
