/* correspondence shim for src/cc_list.c (doubly linked list)
 *
 * slots: up to NSLOT lists live at once (`o=<slot>`, `from=<slot>`, `to=<slot>`, default slot 0).
 * `destroy`/`destroy_cb` release every live slot (ascending), `drop o=k`/`drop_cb o=k` one slot.
 * At most one iterator (it_ / dit_ / zit_) is active; every non-iterator operation drops it.
 * Iterator mutators outside the documented contract (add before the first successful next or after
 * a remove, second structural change for one yielded element) are not executed: `st=- contract`. */
#include "cc_list.c"
#include "common.h"

#define NSLOT 4
#define WLIMIT 200000
static CC_List *L[NSLOT];
static int it_kind;              /* 0 none, 1 it_, 2 dit_, 3 zit_ */
static CC_ListIter it;
static CC_ListZipIter zit;
static int it_o, it_o2, it_changed;
static int sparse;   /* obs=sparse on a constructor line: no observation through the library except by `observe` */
/* `phys=quiet` on a constructor line (scale histories): the phys section prints, per slot, size / head / tail / first / last
   and two FNV-1a-64 checksums instead of the dumps — `nck` over the data along `next` from `head`, `lck` over
   (display id, data, prev id, next id) of every node plus the ids of `head` and `tail` (NULL = 2^64-1, a pointer to no listed
   node = 2^64-2), every number mixed in as 8 little-endian bytes.  `observe` prints the full obs and phys sections as long as the
   live lists hold at most BIGLIM nodes in total, above that checksums (`abs<k>=#<fnv>/<n>`).  The Lean driver computes the same. */
static int quiet;
#define BIGLIM 4000
#define FNV0 14695981039346656037ULL
static uint64_t fnv_mix(uint64_t h, uint64_t x) { for (int i = 0; i < 8; i++) { h ^= (x & 0xff); h *= 1099511628211ULL; x >>= 8; } return h; }
static size_t total_nodes(void) { size_t n = 0; for (int k = 0; k < NSLOT; k++) if (L[k]) n += L[k]->size; return n; }
static void links_reset(void);
static void shim_reset(void) { for (int i = 0; i < NSLOT; i++) L[i] = NULL; it_kind = 0; sparse = 0; quiet = 0; links_reset(); }

/* ---- harness callbacks ---- */
static int cmp_num(const void *a, const void *b) { uintptr_t x = (uintptr_t)a, y = (uintptr_t)b; return verif_mag(x < y ? -1 : x > y); }
static int cmp_key(const void *a, const void *b) { uintptr_t x = (uintptr_t)a % 10, y = (uintptr_t)b % 10; return verif_mag(x < y ? -1 : x > y); }
static int cmpq_num(const void *a, const void *b) { return cmp_num(*(void *const *)a, *(void *const *)b); }
static bool pred_even(const void *e) { return (uintptr_t)e % 2 == 0; }
static void *cp_plus(void *e) { return PTR((uintptr_t)e + 1000); }
static uintptr_t red_acc;
static void red_fn(void *a, void *b, void *res) {
    unsigned long long x = (a == res) ? *(uintptr_t *)res : VAL(a), y = VAL(b);
    cb_record(PTR(x)); cb_record(PTR(y));
    *(uintptr_t *)res = (uintptr_t)((x * 3 + y + 1) % 1000003ULL);
}
static int (*pick_cmp(Cmd *c))(const void *, const void *) {
    return !strcmp(kv_str(c, "cmp", "num"), "key") ? cmp_key : cmp_num;
}

/* ---- observation through the public API ---- */
/* The observer must not disturb the object: it uses iterators, size, get_first, get_last only.  The cross-check
   "get_at at every index agrees with the traversal" (both walking directions of get_node_at) performs lookups, and a
   lookup may legitimately leave state behind in the list (a cursor cache); doing it after every operation would hide
   any defect in such state.  It is therefore tied to one operation of the vocabulary: it runs for the slot on which
   `foreach` was just executed, and only then. */
static int sweep_slot = -1;
static void obs_slot(int k) {
    CC_List *l = L[k];
    static unsigned long long fw[WLIMIT];
    size_t n = 0; void *e;
    CC_ListIter i; cc_list_iter_init(&i, l);
    o("abs%d=[", k); o_first = 1;
    while (cc_list_iter_next(&i, &e) != CC_ITER_END && n < WLIMIT) { o_item(VAL(e)); fw[n++] = VAL(e); }
    o_end();
    cc_list_diter_init(&i, l);
    o(" rev%d=[", k); o_first = 1; size_t nb = 0;
    while (cc_list_diter_next(&i, &e) != CC_ITER_END && nb++ < WLIMIT) o_item(VAL(e));
    o_end();
    o(" size%d=%zu", k, cc_list_size(l));
    void *f = NULL;
    if (cc_list_get_first(l, &f) == CC_OK) o(" first%d=%llu", k, VAL(f)); else o(" first%d=-", k);
    if (cc_list_get_last(l, &f) == CC_OK) o(" last%d=%llu", k, VAL(f)); else o(" last%d=-", k);
    if (k == sweep_slot) for (size_t j = 0; j < n; j++) {
        void *g = NULL;
        if (cc_list_get_at(l, j, &g) != CC_OK || VAL(g) != fw[j]) { o(" GETAT%d=mismatch@%zu", k, j); break; }
    }
}
/* observation of a big list (quiet sessions): the two traversals through the public iterators as checksums */
static void obs_slot_ck(int k) {
    CC_List *l = L[k];
    void *e; size_t n = 0, nb = 0; uint64_t hf = FNV0, hb = FNV0;
    CC_ListIter i; cc_list_iter_init(&i, l);
    while (cc_list_iter_next(&i, &e) != CC_ITER_END && n < WLIMIT) { hf = fnv_mix(hf, VAL(e)); n++; }
    cc_list_diter_init(&i, l);
    while (cc_list_diter_next(&i, &e) != CC_ITER_END && nb < WLIMIT) { hb = fnv_mix(hb, VAL(e)); nb++; }
    o("abs%d=#%llu/%zu rev%d=#%llu/%zu size%d=%zu", k, (unsigned long long)hf, n, k, (unsigned long long)hb, nb, k, cc_list_size(l));
    void *f = NULL;
    if (cc_list_get_first(l, &f) == CC_OK) o(" first%d=%llu", k, VAL(f)); else o(" first%d=-", k);
    if (cc_list_get_last(l, &f) == CC_OK) o(" last%d=%llu", k, VAL(f)); else o(" last%d=-", k);
}
static void obs_all(void) {
    int any = 0, big = quiet && total_nodes() > BIGLIM;
    for (int k = 0; k < NSLOT; k++) if (L[k]) { if (any) o(" "); if (big) obs_slot_ck(k); else obs_slot(k); any = 1; }
    if (!any) o("none");
    sweep_slot = -1;
}

/* ---- private state + heap walkers ---- */
static Node *wnodes[WLIMIT];
static size_t wcount;
static long pos_of(Node *p) { for (size_t i = 0; i < wcount; i++) if (wnodes[i] == p) return (long)i; return -1; }
static void o_ptr(const char *name, int k, Node *p) {
    if (!p) { o(" %s%d=-", name, k); return; }
    long q = pos_of(p);
    if (q < 0) o(" %s%d=?", name, k); else o(" %s%d=%ld", name, k, q);
}
/* ---- raw link structure: every node gets a display id when it is first seen on a walk (all live slots in ascending
   order, along `next` from `head`) and keeps it while it stays on some list; `links<k>=[id:data:prev:next,...]` prints the
   actual prev/next pointers through that table (`-` NULL, `?` a pointer to no listed node).  The Lean driver runs the
   pointer-level model (Model/PList.lean) alongside and numbers its nodes in the same way, so L3 compares the link
   structure and the identity of the nodes.  After an operation that has no pointer-level model (mk_*)
   both sides renumber from scratch. */
#define DCAP (1u << 19)
typedef struct { Node *p; unsigned long id; unsigned long gen; } DEnt;
static DEnt dtab[2][DCAP];
static unsigned long dgen[2], dgen_ctr, dnext_id;
static int dcur, links_renumber;
static size_t d_hash(Node *p) { return (size_t)((((uintptr_t)p) >> 4) * 2654435761u) & (DCAP - 1); }
static long d_get(int t, Node *p) {
    for (size_t i = d_hash(p);; i = (i + 1) & (DCAP - 1)) {
        DEnt *e = &dtab[t][i];
        if (e->gen != dgen[t]) return -1;
        if (e->p == p) return (long)e->id;
    }
}
static void d_put(int t, Node *p, unsigned long id) {
    for (size_t i = d_hash(p);; i = (i + 1) & (DCAP - 1)) {
        DEnt *e = &dtab[t][i];
        if (e->gen != dgen[t]) { e->p = p; e->id = id; e->gen = dgen[t]; return; }
        if (e->p == p) return;
    }
}
static void links_reset(void) { dgen[0] = ++dgen_ctr; dgen[1] = ++dgen_ctr; dnext_id = 0; links_renumber = 0; }
static void links_prepass(void) {
    if (!dgen_ctr) links_reset();
    int nt = 1 - dcur;
    dgen[nt] = ++dgen_ctr;
    for (int k = 0; k < NSLOT; k++) if (L[k]) {
        size_t cnt = 0;
        for (Node *n = L[k]->head; n && cnt < L[k]->size + 4; n = n->next, cnt++) {
            if (d_get(nt, n) >= 0) break;
            long id = links_renumber ? -1 : d_get(dcur, n);
            d_put(nt, n, id >= 0 ? (unsigned long)id : dnext_id++);
        }
    }
    dcur = nt; links_renumber = 0;
}
static void o_did(Node *p) { if (!p) { o("-"); return; } long id = d_get(dcur, p); if (id < 0) o("?"); else o("%ld", id); }
static void o_links(int k) {
    CC_List *l = L[k];
    o(" links%d=[", k);
    size_t cnt = 0; int first = 1;
    for (Node *n = l->head; n && cnt < l->size + 4; n = n->next, cnt++) {
        if (!first) o(","); first = 0;
        o_did(n); o(":%llu:", VAL(n->data)); o_did(n->prev); o(":"); o_did(n->next);
    }
    o("] hd%d=", k); o_did(l->head); o(" tl%d=", k); o_did(l->tail);
}
static void phys_slot(int k) {
    CC_List *l = L[k];
    const char *walk = NULL;
    wcount = 0;
    Node *start = l->head; size_t hp = 0;
    if (start) { while (start->prev && hp < WLIMIT) { start = start->prev; hp++; } if (hp) walk = "head-prev-not-null"; }
    for (Node *n = start; n && wcount < WLIMIT; n = n->next) {
        wnodes[wcount++] = n;
        if (n->next && n->next->prev != n && !walk) walk = "next-prev-not-mirror";
    }
    if (wcount >= WLIMIT) walk = "cycle";
    o("size%d=%zu", k, l->size);
    o_ptr("head", k, l->head); o_ptr("tail", k, l->tail);
    o(" nodes%d=[", k); o_first = 1; for (size_t i = 0; i < wcount; i++) o_item(VAL(wnodes[i]->data)); o_end();
    if (!walk && wcount != l->size) walk = "count-ne-size";
    if (!walk && !l->head && l->tail) walk = "head-null-tail-not";
    if (!walk && l->head && !l->tail) walk = "tail-null-head-not";
    if (!walk && l->tail && l->tail->next) walk = "tail-next-not-null";
    if (!walk && l->tail && pos_of(l->tail) != (long)wcount - 1) walk = "tail-not-last";
    if (!walk && block_size(l) < sizeof(CC_List)) walk = "header-block";
    for (size_t i = 0; i < wcount && !walk; i++) if (block_size(wnodes[i]) < sizeof(Node)) walk = "node-block";
    if (it_kind == 1 || it_kind == 2) { if (it_o == k) {
        /* positions refer to the chain just walked */
        o(" itk%d=%d itidx%d=%zu", k, it_kind, k, it.index); o_ptr("itlast", k, it.last); o_ptr("itnext", k, it.next); } }
    if (it_kind == 3 && (it_o == k || it_o2 == k)) {
        o(" zitidx%d=%zu", k, zit.index);
        o_ptr("zitlast", k, it_o == k ? zit.l1_last : zit.l2_last); o_ptr("zitnext", k, it_o == k ? zit.l1_next : zit.l2_next); }
    o_links(k);
    if (walk) o(" WALK=%s", walk);
}
static uint64_t did_num(Node *p) { if (!p) return ~0ULL; long id = d_get(dcur, p); return id < 0 ? ~0ULL - 1 : (uint64_t)id; }
static void phys_slot_quiet(int k) {
    CC_List *l = L[k];
    const char *walk = NULL;
    wcount = 0;
    Node *start = l->head; size_t hp = 0;
    if (start) { while (start->prev && hp < WLIMIT) { start = start->prev; hp++; } if (hp) walk = "head-prev-not-null"; }
    uint64_t nck = FNV0, lck = FNV0;
    for (Node *n = start; n && wcount < WLIMIT; n = n->next) {
        wnodes[wcount++] = n;
        if (n->next && n->next->prev != n && !walk) walk = "next-prev-not-mirror";
        nck = fnv_mix(nck, VAL(n->data));
    }
    if (wcount >= WLIMIT) walk = "cycle";
    size_t cnt = 0;
    for (Node *n = l->head; n && cnt < l->size + 4; n = n->next, cnt++) {
        lck = fnv_mix(lck, did_num(n)); lck = fnv_mix(lck, VAL(n->data)); lck = fnv_mix(lck, did_num(n->prev)); lck = fnv_mix(lck, did_num(n->next));
    }
    lck = fnv_mix(lck, did_num(l->head)); lck = fnv_mix(lck, did_num(l->tail));
    o("size%d=%zu", k, l->size);
    if (!l->head) o(" head%d=-", k); else o(" head%d=%s", k, l->head == start ? "0" : "?");
    if (!l->tail) o(" tail%d=-", k); else o(" tail%d=%s", k, (wcount && l->tail == wnodes[wcount - 1]) ? "last" : "?");
    if (wcount) o(" first%d=%llu last%d=%llu", k, VAL(wnodes[0]->data), k, VAL(wnodes[wcount - 1]->data)); else o(" first%d=- last%d=-", k, k);
    o(" nck%d=%llu lck%d=%llu", k, (unsigned long long)nck, k, (unsigned long long)lck);
    if (!walk && wcount != l->size) walk = "count-ne-size";
    if (!walk && !l->head && l->tail) walk = "head-null-tail-not";
    if (!walk && l->head && !l->tail) walk = "tail-null-head-not";
    if (!walk && l->tail && l->tail->next) walk = "tail-next-not-null";
    if (!walk && block_size(l) < sizeof(CC_List)) walk = "header-block";
    if (it_kind == 1 || it_kind == 2) { if (it_o == k) {
        o(" itk%d=%d itidx%d=%zu", k, it_kind, k, it.index); o_ptr("itlast", k, it.last); o_ptr("itnext", k, it.next); } }
    if (it_kind == 3 && (it_o == k || it_o2 == k)) {
        o(" zitidx%d=%zu", k, zit.index);
        o_ptr("zitlast", k, it_o == k ? zit.l1_last : zit.l2_last); o_ptr("zitnext", k, it_o == k ? zit.l1_next : zit.l2_next); }
    if (walk) o(" WALK=%s", walk);
}
static int phys_full_now;   /* set by `observe` in a quiet session when the lists are small enough for the full dump */
static void phys(void) {
    int any = 0;
    links_prepass();
    for (int k = 0; k < NSLOT; k++) if (L[k]) { if (any) o(" "); if (quiet && !phys_full_now) phys_slot_quiet(k); else phys_slot(k); any = 1; }
    if (!any) o("-");
    phys_full_now = 0;
}

static void fill_conf(CC_ListConf *conf) {
    cc_list_conf_init(conf);
    conf->mem_alloc = conf_malloc; conf->mem_calloc = conf_calloc; conf->mem_free = conf_free;
}
static void o_out(enum cc_stat st, void *out) { o_stat(st); if (st == CC_OK) o(" out=%llu", VAL(out)); }

static void do_op(Cmd *c) {
    int k = (int)kv_u64(c, "o", 0), from = (int)kv_u64(c, "from", 1), to = (int)kv_u64(c, "to", 1);
    uint64_t v = pos_u64(c, 0), idx = kv_u64(c, "idx", 0);
    int noout = (int)kv_u64(c, "noout", 0);   /* CONVENTIONS Addendum 3: pass NULL for the optional out-pointer(s) */
    int is_it = !strncmp(c->op, "it_", 3) || !strncmp(c->op, "dit_", 4) || !strncmp(c->op, "zit_", 4);
    if (!is_it && !is_op(c, "observe")) it_kind = 0;
    {   /* operations without a pointer-level model: renumber the nodes afterwards (Driver/DList.lean: plUnsupported) */
        static const char *un[] = { NULL };
        int k0 = (int)kv_u64(c, "o", 0), f0 = (int)kv_u64(c, "from", 1), t0 = (int)kv_u64(c, "to", 1);
        if (k0 >= 0 && k0 < NSLOT && f0 >= 0 && f0 < NSLOT && t0 >= 0 && t0 < NSLOT)
            for (int i = 0; un[i]; i++) if (is_op(c, un[i])) links_renumber = 1;
    }
    if (!strncmp(c->op, "new", 3) && !strcmp(kv_str(c, "obs", "full"), "sparse")) sparse = 1;
    if (!strncmp(c->op, "new", 3) && !strcmp(kv_str(c, "phys", "full"), "quiet")) quiet = 1;
    if (k < 0 || k >= NSLOT || from < 0 || from >= NSLOT || to < 0 || to >= NSLOT) { o("st=- badslot "); goto done; }
    if (is_op(c, "observe")) { o("st=- "); sweep_slot = -1; obs_all(); o_sep(); phys_full_now = !(quiet && total_nodes() > BIGLIM); phys(); return; }
    CC_List *l = L[k];
    if (is_op(c, "new")) {
        if (l) { o("st=- busy "); goto done; }
        CC_ListConf conf; fill_conf(&conf);
        enum cc_stat st = cc_list_new_conf(&conf, &L[k]); if (st != CC_OK) L[k] = NULL;
        o_stat(st); o(" ");
    } else if (is_op(c, "new_default")) {
        if (l) { o("st=- busy "); goto done; }
        enum cc_stat st = cc_list_new(&L[k]); if (st != CC_OK) L[k] = NULL;
        o_stat(st); o(" ");
    } else if (is_op(c, "destroy") || is_op(c, "destroy_cb")) {
        int any = 0;
        for (int j = 0; j < NSLOT; j++) if (L[j]) {
            any = 1;
            if (is_op(c, "destroy")) cc_list_destroy(L[j]); else cc_list_destroy_cb(L[j], cb_record);
            L[j] = NULL;
        }
        if (!any) { o("st=- nosession"); o_sep(); o("-"); return; }
        o("st=- "); if (is_op(c, "destroy_cb")) { o_cb(); o(" "); }
    } else if (is_it) {
        /* ---------------- iterators ---------------- */
        if (is_op(c, "it_new") || is_op(c, "dit_new")) {
            if (!l) { it_kind = 0; o("st=- nosession"); o_sep(); phys(); return; }
            it_kind = is_op(c, "it_new") ? 1 : 2; it_o = k; it_changed = 0;
            if (it_kind == 1) cc_list_iter_init(&it, l); else cc_list_diter_init(&it, l);
            o("st=- ");
        } else if (is_op(c, "zit_new")) {
            int k2 = (int)kv_u64(c, "o2", 1);
            /* a zip iterator over the SAME list (o2 == o) is accepted: the header docs do not forbid it.  It is a known finding
               (KF-list-zip-same-list: zip remove frees the node twice, the slist zip add loses a node); no generator emits it, the
               Lean drivers answer "contract" and the lines are only run from corpus/<k>/defect_zip_same_list_*.ops */
            if (k2 < 0 || k2 >= NSLOT || !l || !L[k2]) { it_kind = 0; o("st=- contract "); goto done; }
            it_kind = 3; it_o = k; it_o2 = k2; it_changed = 0;
            cc_list_zip_iter_init(&zit, l, L[k2]);
            o("st=- ");
        } else {
            int want = !strncmp(c->op, "it_", 3) ? 1 : !strncmp(c->op, "dit_", 4) ? 2 : 3;
            const char *sub = c->op + (want == 1 ? 3 : 4);
            if (it_kind != want || !L[it_o] || (want == 3 && !L[it_o2])) { o("st=- noiter "); goto done; }
            void *out1 = NULL, *out2 = NULL; enum cc_stat st;
            Node *last = want == 3 ? ((zit.l1_last && zit.l2_last) ? zit.l1_last : NULL) : it.last;
            if (!strcmp(sub, "next")) {
                st = want == 1 ? cc_list_iter_next(&it, noout ? NULL : &out1) : want == 2 ? cc_list_diter_next(&it, noout ? NULL : &out1)
                                                                           : cc_list_zip_iter_next(&zit, noout ? NULL : &out1, noout ? NULL : &out2);
                if (st == CC_OK) it_changed = 0;
                o_stat(st); if (st == CC_OK && !noout) { o(" out=%llu", VAL(out1)); if (want == 3) o(" out2=%llu", VAL(out2)); } o(" ");
            } else if (!strcmp(sub, "add")) {
                if (!last) { o("st=- contract "); goto done; }
                st = want == 1 ? cc_list_iter_add(&it, PTR(v)) : want == 2 ? cc_list_diter_add(&it, PTR(v))
                                                                           : cc_list_zip_iter_add(&zit, PTR(v), PTR(pos_u64(c, 1)));
                if (st == CC_OK) it_changed = 1;
                o_stat(st); o(" ");
            } else if (!strcmp(sub, "remove")) {
                st = want == 1 ? cc_list_iter_remove(&it, noout ? NULL : &out1) : want == 2 ? cc_list_diter_remove(&it, noout ? NULL : &out1)
                                                                             : cc_list_zip_iter_remove(&zit, noout ? NULL : &out1, noout ? NULL : &out2);
                if (st == CC_OK) it_changed = 1;
                o_stat(st); if (st == CC_OK && !noout) { o(" out=%llu", VAL(out1)); if (want == 3) o(" out2=%llu", VAL(out2)); } o(" ");
            } else if (!strcmp(sub, "replace")) {
                st = want == 1 ? cc_list_iter_replace(&it, PTR(v), noout ? NULL : &out1) : want == 2 ? cc_list_diter_replace(&it, PTR(v), noout ? NULL : &out1)
                               : cc_list_zip_iter_replace(&zit, PTR(v), PTR(pos_u64(c, 1)), noout ? NULL : &out1, noout ? NULL : &out2);
                o_stat(st); if (st == CC_OK && !noout) { o(" out=%llu", VAL(out1)); if (want == 3) o(" out2=%llu", VAL(out2)); } o(" ");
            } else if (!strcmp(sub, "index")) {
                size_t ix = want == 1 ? cc_list_iter_index(&it) : want == 2 ? cc_list_diter_index(&it) : cc_list_zip_iter_index(&zit);
                o("st=- out=%zu ", ix);
            } else { o("st=- badop "); }
        }
    } else if (!l) { o("st=- nosession"); o_sep(); phys(); return;
    } else if (is_op(c, "drop")) { cc_list_destroy(l); L[k] = NULL; o("st=- ");
    } else if (is_op(c, "drop_cb")) { cc_list_destroy_cb(l, cb_record); L[k] = NULL; o("st=- "); o_cb(); o(" ");
    } else if (is_op(c, "fill")) {
        /* `fill n=<count> seed=<s>`: count appends of the values (i * 7919 + seed * 104729) % 1000003, i = 0.. (scale histories) */
        uint64_t cnt = kv_u64(c, "n", 0), sd = kv_u64(c, "seed", 1); enum cc_stat st = CC_OK;
        for (uint64_t i = 0; i < cnt && st == CC_OK; i++) st = cc_list_add(l, PTR((i * 7919ULL + sd * 104729ULL) % 1000003ULL));
        o_stat(st); o(" ");
    } else if (is_op(c, "add")) { o_stat(cc_list_add(l, PTR(v))); o(" ");
    } else if (is_op(c, "add_first")) { o_stat(cc_list_add_first(l, PTR(v))); o(" ");
    } else if (is_op(c, "add_last")) { o_stat(cc_list_add_last(l, PTR(v))); o(" ");
    } else if (is_op(c, "add_at")) { o_stat(cc_list_add_at(l, PTR(v), idx)); o(" ");
    } else if (is_op(c, "add_all") || is_op(c, "add_all_at") || is_op(c, "splice") || is_op(c, "splice_at")) {
        /* add_all(l, l) / add_all_at(l, l, i) are legal (the list is doubled); splice(l, l) is not */
        if (!L[from] || (from == k && (is_op(c, "splice") || is_op(c, "splice_at")))) { o("st=- contract "); goto done; }
        enum cc_stat st = is_op(c, "add_all") ? cc_list_add_all(l, L[from]) : is_op(c, "add_all_at") ? cc_list_add_all_at(l, L[from], idx)
                        : is_op(c, "splice") ? cc_list_splice(l, L[from]) : cc_list_splice_at(l, L[from], idx);
        o_stat(st); o(" ");
    } else if (is_op(c, "remove")) { void *out = NULL; enum cc_stat st = cc_list_remove(l, PTR(v), noout ? NULL : &out); if (noout) o_stat(st); else o_out(st, out); o(" ");
    } else if (is_op(c, "remove_at")) { void *out = NULL; enum cc_stat st = cc_list_remove_at(l, idx, noout ? NULL : &out); if (noout) o_stat(st); else o_out(st, out); o(" ");
    } else if (is_op(c, "remove_first")) { void *out = NULL; enum cc_stat st = cc_list_remove_first(l, noout ? NULL : &out); if (noout) o_stat(st); else o_out(st, out); o(" ");
    } else if (is_op(c, "remove_last")) { void *out = NULL; enum cc_stat st = cc_list_remove_last(l, noout ? NULL : &out); if (noout) o_stat(st); else o_out(st, out); o(" ");
    } else if (is_op(c, "remove_all")) { o_stat(cc_list_remove_all(l)); o(" ");
    } else if (is_op(c, "remove_all_cb")) { o_stat(cc_list_remove_all_cb(l, cb_record)); o(" "); o_cb(); o(" ");
    } else if (is_op(c, "replace_at")) { void *out = NULL; enum cc_stat st = cc_list_replace_at(l, PTR(v), idx, noout ? NULL : &out); if (noout) o_stat(st); else o_out(st, out); o(" ");
    } else if (is_op(c, "get_first")) { void *out = NULL; enum cc_stat st = cc_list_get_first(l, &out); o_out(st, out); o(" ");
    } else if (is_op(c, "get_last")) { void *out = NULL; enum cc_stat st = cc_list_get_last(l, &out); o_out(st, out); o(" ");
    } else if (is_op(c, "get_at")) { void *out = NULL; enum cc_stat st = cc_list_get_at(l, idx, &out); o_out(st, out); o(" ");
    } else if (is_op(c, "reverse")) { cc_list_reverse(l); o("st=- ");
    } else if (is_op(c, "size")) { o("st=- out=%zu ", cc_list_size(l));
    } else if (is_op(c, "contains")) { o("st=- out=%zu ", cc_list_contains(l, PTR(v)));
    } else if (is_op(c, "contains_value")) { o("st=- out=%zu ", cc_list_contains_value(l, PTR(v), pick_cmp(c)));
    } else if (is_op(c, "index_of")) { size_t ix = 0; enum cc_stat st = cc_list_index_of(l, PTR(v), pick_cmp(c), &ix);
        o_stat(st); if (st == CC_OK) o(" out=%zu", ix); o(" ");
    } else if (is_op(c, "to_array")) {
        void **arr = NULL; enum cc_stat st = cc_list_to_array(l, &arr);
        o_stat(st);
        if (st == CC_OK) { o(" "); O_LIST("arr"); for (size_t i = 0; i < cc_list_size(l); i++) o_item(VAL(arr[i])); o_end();
            if (block_size(arr) < cc_list_size(l) * sizeof(void *)) o(" WALK=array-block");
            if (ledger_find(&L_conf, arr) >= 0) conf_free(arr); else free(arr); }   /* the harness (caller) releases the array through its owner */
        o(" ");
    } else if (is_op(c, "foreach")) { cc_list_foreach(l, cb_record); o("st=- "); o_cb(); o(" "); sweep_slot = k;
    } else if (is_op(c, "reduce")) { red_acc = 0; enum cc_stat st = cc_list_reduce(l, red_fn, &red_acc);
        o_stat(st); if (st == CC_OK) o(" out=%llu", (unsigned long long)red_acc); o(" "); o_cb(); o(" ");
    } else if (is_op(c, "filter_mut")) { o_stat(cc_list_filter_mut(l, pred_even)); o(" ");
    } else if (is_op(c, "sort")) { o_stat(cc_list_sort(l, cmpq_num)); o(" ");
    } else if (is_op(c, "sort_in_place")) { cc_list_sort_in_place(l, pick_cmp(c)); o("st=- ");
    } else if (!strncmp(c->op, "mk_", 3)) {
        if (L[to] || to == k) { o("st=- busy "); goto done; }
        CC_List *out = NULL; enum cc_stat st;
        if (is_op(c, "mk_sub")) st = cc_list_sublist(l, kv_u64(c, "b", 0), kv_u64(c, "e", 0), &out);
        else if (is_op(c, "mk_copy_shallow")) st = cc_list_copy_shallow(l, &out);
        else if (is_op(c, "mk_copy_deep")) st = cc_list_copy_deep(l, cp_plus, &out);
        else if (is_op(c, "mk_filter")) st = cc_list_filter(l, pred_even, &out);
        else { o("st=- badop "); goto done; }
        if (st == CC_OK) L[to] = out;
        o_stat(st); o(" ");
    } else { o("st=- badop "); }
done:
    if (sparse) { o("sparse"); sweep_slot = -1; } else obs_all();
    o_sep(); phys();
}
