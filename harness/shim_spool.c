/* correspondence shim for src/memory/cc_static_pool.c
 *
 * The pool gets a byte buffer  [pre-canary | offset bytes | region (size bytes) | post-canary]
 * and a separately allocated header buffer; with `layout=tight hdr=8|0` both live in ONE block
 * [pre-canary | header (exactly struct_size bytes, address = hdr mod 16) | offset bytes | region | post-canary];
 * with `giant=1` the region is untouched reserved address space (no canaries, no bytes);
 * addresses are printed as offsets relative to the region start (NULL -> "NULL").
 * Every block handed out is dirtied with a non-zero pattern by the "user" (this shim), calloc'ed
 * blocks are first checked to be zero (zero=1).  Walkers (WALK=...) check canaries, containment
 * and disjointness against a shadow list of the blocks that are live according to the
 * public used_bytes() observations. */
#include "cc_static_pool.c"
#include "common.h"
#include <sys/mman.h>

#define CAN 32
#define CANARY 0xC5
#define FRESH 0xEE
#define MAXP 4096

static CC_StaticPool *pool;
static uint8_t *raw, *region, *pstruct;
static size_t rsize, roff;
static uint8_t *ptrs[MAXP]; static size_t nptrs;           /* every allocation result, NULLs included */
static struct { uint8_t *p; size_t n; int pat; } shadow[MAXP]; static size_t nshadow;   /* pat < 0: not written */
static size_t pat_counter;
static void check_contents(void);
static int sparse;      /* obs=sparse: used/free are queried only on `observe` */
static int quiet;       /* phys=quiet: the region bytes are printed as a checksum (FNV-1a 64 of the list text), the full dump on `observe` */
static int observing;
static int giant;       /* giant=1: the region is reserved address space (mmap PROT_NONE) of several GiB and is never touched */
static uint8_t *hdrpos, *databuf;   /* layout=tight: header and data buffer inside one block */
static size_t rawlen;
/* private view of used bytes (no call into the library) for the walkers and the shadow list */
static size_t priv_used(void) { return (size_t)(pool->free_ptr - pool->low_ptr); }

static void shim_reset(void) {
    if (raw && giant) munmap(raw, rawlen); else if (raw) __real_free(raw);
    if (pstruct) __real_free(pstruct);
    raw = region = pstruct = NULL; pool = NULL; nptrs = nshadow = 0; pat_counter = 0; sparse = 0; quiet = 0; giant = 0;
    hdrpos = databuf = NULL;
}
static void o_ptr(uint8_t *p) {
    if (!p) o(" p=NULL"); else o(" p=%lld", (long long)(p - region));
}
static void obs_sweep(void) {
    if (pool) o(" used=%zu free=%zu", cc_static_pool_used_bytes(pool), cc_static_pool_free_bytes(pool));
}
static void obs_abs(void) { if (!sparse) obs_sweep(); }
static void phys(void) {
    if (!pool) { o("-"); return; }
    o("size=%zu free=%zu high=%zu ", pool->size, (size_t)(pool->free_ptr - pool->low_ptr),
      (size_t)(pool->high_ptr - pool->low_ptr));
    if (giant) o("bytes=-");
    else if (quiet && !observing) {
        /* FNV-1a 64 over the text "b0,b1,...,bn" of the list that the full mode prints */
        unsigned long long h = 14695981039346656037ULL; char t[8];
        for (size_t i = 0; i < rsize; i++) {
            int k = snprintf(t, sizeof t, i ? ",%u" : "%u", (unsigned)region[i]);
            for (int j = 0; j < k; j++) { h ^= (unsigned char)t[j]; h *= 1099511628211ULL; }
        }
        o("bytes=#%llu", h);
    } else { O_LIST("bytes"); for (size_t i = 0; i < rsize; i++) o_item(region[i]); o_end(); }
    /* L2 walkers */
    if (!giant) {
        /* canaries: everything of our block before the header (tight layout) or before the region, the
           `offset` bytes between the data buffer and the region, and the bytes after the region */
        uint8_t *pre_end = hdrpos ? hdrpos : region;
        for (uint8_t *q = raw; q < pre_end; q++) if (*q != CANARY) { o(" WALK=canary-before"); break; }
        if (hdrpos) for (uint8_t *q = databuf; q < region; q++) if (*q != CANARY) { o(" WALK=canary-before-region"); break; }
        for (size_t i = 0; i < CAN; i++) if (region[rsize + i] != CANARY) { o(" WALK=canary-after"); break; }
    }
    if (pool->low_ptr != region || pool->block != region) o(" WALK=region-start");
    size_t tot = 0;
    for (size_t i = 0; i < nshadow; i++) {
        tot += shadow[i].n;
        if (shadow[i].p < region || shadow[i].n > rsize || (size_t)(shadow[i].p - region) > rsize - shadow[i].n)
            o(" WALK=block-outside-region");
        for (size_t j = 0; j < i; j++)
            if (shadow[i].n && shadow[j].n && shadow[i].p < shadow[j].p + shadow[j].n && shadow[j].p < shadow[i].p + shadow[i].n)
                o(" WALK=blocks-overlap");
    }
    if (tot != priv_used()) o(" WALK=used-not-sum-of-live-blocks");
    check_contents();
    if (!sparse && cc_static_pool_used_bytes(pool) + cc_static_pool_free_bytes(pool) != rsize) o(" WALK=used-plus-free");
    if (cc_static_pool_struct_size() != sizeof(CC_StaticPool)) o(" WALK=struct-size");
}
/* every live block still holds the pattern its user wrote: handing out, zeroing or rolling back a
 * later block must not touch an earlier one */
static void check_contents(void) {
    for (size_t i = 0; i < nshadow; i++) {
        if (shadow[i].pat < 0) continue;
        for (size_t j = 0; j < shadow[i].n; j++)
            if (shadow[i].p[j] != (uint8_t)shadow[i].pat) { o(" WALK=block-content-changed"); return; }
    }
}
static void handed_out(uint8_t *p, size_t n, size_t used_before) {
    check_contents();
    if (nptrs < MAXP) ptrs[nptrs++] = p;
    if (!p) {
        if (priv_used() != used_before) o(" WALK=null-changed-used");
        return;
    }
    int pat = -1;
    /* the user writes the whole block (only when it is inside our buffer, else ASan would stop us
       before the walker can report) */
    if (!giant && p >= region && n <= rsize && (size_t)(p - region) <= rsize - n) {
        pat = (int)(1 + (pat_counter++ % 250));
        memset(p, pat, n);
    }
    if (nshadow < MAXP) { shadow[nshadow].p = p; shadow[nshadow].n = n; shadow[nshadow].pat = pat; nshadow++; }
}
static void do_op(Cmd *c) {
    if (is_op(c, "new")) {
        shim_reset();
        rsize = kv_u64(c, "size", 16); roff = kv_u64(c, "off", 0);
        sparse = !strcmp(kv_str(c, "obs", "full"), "sparse");
        quiet = !strcmp(kv_str(c, "phys", "full"), "quiet");
        giant = (int)kv_u64(c, "giant", 0);
        enum cc_stat st;
        if (giant) {
            /* several GiB of reserved address space that is never read or written: only pointer
               arithmetic of the pool is exercised (sizes and used counts above 2^32) */
            rawlen = roff + rsize + 4096;
            raw = mmap(NULL, rawlen, PROT_NONE, MAP_PRIVATE | MAP_ANONYMOUS | MAP_NORESERVE, -1, 0);
            if (raw == MAP_FAILED) { raw = NULL; giant = 0; o("st=- WALK=mmap-failed"); o_sep(); o("-"); return; }
            region = raw + roff;
            pstruct = __real_malloc(cc_static_pool_struct_size());
            st = cc_static_pool_new(rsize, roff, raw, pstruct, &pool);
        } else if (!strcmp(kv_str(c, "layout", "apart"), "tight")) {
            /* tight layout: ONE block; the header buffer is exactly cc_static_pool_struct_size() bytes at an
               address = hdr (mod 16) and the data buffer follows it immediately, so a library that places
               its header anywhere but at the start of `pool_alloc`, or needs more than struct_size bytes,
               runs into the data region (caught by the pattern re-verification and the canaries) */
            size_t ss = cc_static_pool_struct_size(), hmod = kv_u64(c, "hdr", 8) % 16;
            rawlen = CAN + 16 + ss + roff + rsize + CAN;
            raw = __real_malloc(rawlen);
            memset(raw, CANARY, rawlen);
            hdrpos = raw + CAN;
            while ((uintptr_t)hdrpos % 16 != hmod) hdrpos++;
            databuf = hdrpos + ss;
            region = databuf + roff;
            memset(region, FRESH, rsize);
            st = cc_static_pool_new(rsize, roff, databuf, hdrpos, &pool);
        } else {
            rawlen = CAN + roff + rsize + CAN;
            raw = __real_malloc(rawlen);
            memset(raw, CANARY, rawlen);
            region = raw + CAN + roff;
            memset(region, FRESH, rsize);
            pstruct = __real_malloc(cc_static_pool_struct_size());
            st = cc_static_pool_new(rsize, roff, raw + CAN, pstruct, &pool);
        }
        if (st != CC_OK) pool = NULL;
        o_stat(st);
    } else if (!pool) { o("st=- nosession"); o_sep(); o("-"); return;
    } else if (is_op(c, "observe")) {
        o("st=-"); obs_sweep(); o_sep(); observing = 1; phys(); observing = 0; return;
    } else if (is_op(c, "malloc")) {
        size_t n = pos_u64(c, 0), u = priv_used();
        uint8_t *p = cc_static_pool_malloc(n, pool);
        o("st=-"); o_ptr(p); handed_out(p, n, u);
    } else if (is_op(c, "calloc") && giant) {
        o("st=- badop");       /* a giant region is never written */
    } else if (is_op(c, "calloc")) {
        size_t a = pos_u64(c, 0), b = pos_u64(c, 1), u = priv_used();
        uint8_t *p = cc_static_pool_calloc(a, b, pool);
        o("st=-"); o_ptr(p);
        if (p) {
            int z = 1;
            /* the request is a*b bytes in the mathematical sense; a wrapped product is smaller */
            size_t n = a * b;
            if (p >= region && n <= rsize && (size_t)(p - region) <= rsize - n)
                for (size_t i = 0; i < n; i++) if (p[i]) z = 0;
            o(" zero=%d", z);
        }
        handed_out(p, a * b, u);
    } else if (is_op(c, "free")) {
        uint8_t *p = NULL;
        if (kv_str(c, "idx", NULL)) { size_t k = kv_u64(c, "idx", 0); p = k < nptrs ? ptrs[k] : NULL; }
        else if (kv_str(c, "off", NULL)) p = region + kv_u64(c, "off", 0);
        size_t u = priv_used();
        cc_static_pool_free(p, pool);
        size_t u2 = priv_used();
        if (u2 < u && nshadow) nshadow--;      /* the roll-back slot was used */
        o("st=-");
    } else if (is_op(c, "pool_reset")) {
        cc_static_pool_reset(pool); nshadow = 0; o("st=-");
    } else if (is_op(c, "destroy")) {
        /* a static pool owns nothing: the caller releases the buffers */
        o("st=-"); o_sep(); o("-"); shim_reset(); return;
    } else { o("st=- badop"); }
    obs_abs(); o_sep(); phys();
}
