/* correspondence shim for src/cc_array.c
 *
 * Session objects: up to NSLOT arrays (slot 0 is built by `new`, the others by the `mk_*`
 * builders), one plain iterator, one zip iterator.  `destroy` releases every live slot,
 * `drop o=k` a single one.
 *
 * obs  : status/out tokens of the call, callback log, then for every live slot k
 *        a<k>=[elements via get_at]  n<k>=cc_array_size  l<k>=get_last (or -)
 *        On a `sort_mod` line (comparator with ties) the sorted slot is printed tie-invariantly instead:
 *        k<k>=[keys in order]  ms<k>=[elements in increasing order]  n<k>  — the order qsort leaves among
 *        equal keys is not promised by C, so L1 does not see it; it stays in phys (buf<k>), i.e. the L3
 *        comparison rests on this C library's qsort being what the model assumes (stable).  A C-only
 *        check (WALK=sort-not-ordered / sort-not-a-permutation) verifies every sort call on its own.
 * phys : per live slot  size<k> cap<k> blk<k>(slots of the buffer block) g<k>((size_t)(capacity*exp_factor))
 *        buf<k>=[live slots], then the cursors  it=<slot>:<index>:<last_removed>  zit=<s1>:<s2>:<index>:<lr> */
#include "cc_array.c"
#include "common.h"

#define NSLOT 4
static CC_Array *A[NSLOT];
static CC_ArrayIter it;       static int it_slot = -1;
static CC_ArrayZipIter zit;   static int z1 = -1, z2 = -1;

static int slot_default[NSLOT];   /* the array in the slot uses the C library allocator triple (built by cc_array_new, or derived from such an array) */
static int sparse, sweep_now = 1;   /* obs=sparse on the constructor line: no content sweep except in `observe` */
static void shim_reset(void) { for (int i = 0; i < NSLOT; i++) A[i] = NULL; it_slot = z1 = z2 = -1; for (int i = 0; i < NSLOT; i++) slot_default[i] = 0; sparse = 0; sweep_now = 1; }

/* fixed callbacks */
static bool  pred_even(const void *e) { cb_record((void *)e); return VAL(e) % 2 == 0; }
static void *cp_plus1000(void *e) { cb_record(e); return PTR(VAL(e) + 1000); }
static void  fn_visit(void *e) { cb_record(e); }
static int   cmp_mod10_val(const void *a, const void *b) { return (int)(VAL(a) % 10) - (int)(VAL(b) % 10); }
/* qsort comparators get pointers to the slots */
static int   cmp_num(const void *a, const void *b) {
    unsigned long long x = VAL(*(void *const *)a), y = VAL(*(void *const *)b); return verif_mag(x < y ? -1 : x > y); }
static int   cmp_mod10(const void *a, const void *b) {
    unsigned long long x = VAL(*(void *const *)a) % 10, y = VAL(*(void *const *)b) % 10; return verif_mag(x < y ? -1 : x > y); }
/* reduce: accumulator r = (3a + b) mod 1000003, operands logged */
static unsigned long long red_acc;
static unsigned long long red_val(void *p) { return p == (void *)&red_acc ? red_acc : VAL(p); }
static void fn_reduce(void *a, void *b, void *res) {
    unsigned long long x = red_val(a), y = red_val(b);
    cb_record(PTR(x)); cb_record(PTR(y));
    *(unsigned long long *)res = (x * 3 + y) % 1000003ULL;
}

/* the slot just sorted by a comparator with ties (sort_mod): the order among equal keys is qsort's
 * business, so on that line L1 sees the key sequence in order and the multiset of the elements (printed
 * in increasing order); the exact order stays in phys (L3, resting on this C library's qsort) */
static int tie_slot = -1;
static int cmp_u64(const void *a, const void *b) {
    unsigned long long x = *(const unsigned long long *)a, y = *(const unsigned long long *)b; return x < y ? -1 : x > y; }
static void obs_tie(int k) {
    size_t n = cc_array_size(A[k]);
    const void *const *pb = cc_array_get_buffer(A[k]);
    char nm[8]; snprintf(nm, sizeof nm, " k%d", k);
    O_LIST(nm);
    for (size_t i = 0; i < n; i++) o_item(VAL(pb[i]) % 10);
    o_end();
    unsigned long long *t = __real_malloc((n ? n : 1) * sizeof *t);
    for (size_t i = 0; i < n; i++) t[i] = VAL(pb[i]);
    qsort(t, n, sizeof *t, cmp_u64);
    snprintf(nm, sizeof nm, " ms%d", k);
    O_LIST(nm);
    for (size_t i = 0; i < n; i++) o_item(t[i]);
    o_end();
    __real_free(t);
    o(" n%d=%zu", k, n);
}
static void obs_all(void) {
    if (!sweep_now) return;      /* sparse session: status, out-values and callback log only */
    for (int k = 0; k < NSLOT; k++) {
        if (!A[k]) continue;
        if (k == tie_slot) { obs_tie(k); continue; }
        char nm[8]; snprintf(nm, sizeof nm, " a%d", k);
        O_LIST(nm);
        size_t n = cc_array_size(A[k]);
        const void *const *pb = cc_array_get_buffer(A[k]);
        int bad = 0;
        for (size_t i = 0; i < n; i++) {
            void *e = PTR(424242);
            if (cc_array_get_at(A[k], i, &e) != CC_OK) bad = 1;
            if (pb[i] != e) bad = 1;
            o_item(VAL(e));
        }
        o_end();
        o(" n%d=%zu", k, n);
        void *l = PTR(424242);
        if (cc_array_get_last(A[k], &l) == CC_OK) o(" l%d=%llu", k, VAL(l)); else o(" l%d=-", k);
        if (bad) o(" WALK=get_at-vs-buffer");
    }
}
static void phys(void) {
    int any = 0;
    for (int k = 0; k < NSLOT; k++) {
        CC_Array *a = A[k];
        if (!a) continue;
        if (any) o(" ");
        any = 1;
        size_t blk = block_size(a->buffer) / sizeof(void *);
        size_t g = (size_t)(a->capacity * a->exp_factor);
        o("size%d=%zu cap%d=%zu blk%d=%zu g%d=%zu ", k, a->size, k, a->capacity, k, blk, k, g);
        if (!sweep_now) {
            /* sparse session between two `observe`s: first and last live slot and an FNV-1a style checksum
             * of the live slots (h = (h ^ v) * 0x100000001b3 per element, 64 bit) instead of the dump */
            unsigned long long h = 0xcbf29ce484222325ULL; size_t n = a->size < blk ? a->size : blk;
            for (size_t i = 0; i < n; i++) h = (h ^ VAL(a->buffer[i])) * 0x100000001b3ULL;
            if (n) o("first%d=%llu last%d=%llu ", k, VAL(a->buffer[0]), k, VAL(a->buffer[n - 1]));
            else o("first%d=- last%d=- ", k, k);
            o("sum%d=%llu", k, h);
        } else {
        char nm[8]; snprintf(nm, sizeof nm, "buf%d", k);
        O_LIST(nm);
        for (size_t i = 0; i < a->size && i < blk; i++) o_item(VAL(a->buffer[i]));
        o_end();
        }
        if (block_size(a->buffer) < a->capacity * sizeof(void *)) o(" WALK=buf-block-too-small");
        if (a->size > a->capacity) o(" WALK=size-gt-capacity");
        if (block_size(a) != sizeof(CC_Array)) o(" WALK=struct-block");
        if (slot_default[k] ? (a->mem_alloc != malloc || a->mem_calloc != calloc || a->mem_free != free)
                         : (a->mem_alloc != conf_malloc || a->mem_calloc != conf_calloc || a->mem_free != conf_free))
            o(" WALK=allocators-not-inherited");
    }
    if (!any) { o("-"); return; }
    if (it_slot >= 0) o(" it=%d:%zu:%d", it_slot, it.index, (int)it.last_removed); else o(" it=-");
    if (z1 >= 0) o(" zit=%d:%d:%zu:%d", z1, z2, zit.index, (int)zit.last_removed); else o(" zit=-");
}

static void drop_slot(int k) {
    if (it_slot == k) it_slot = -1;
    if (z1 == k || z2 == k) z1 = z2 = -1;
    A[k] = NULL;
}
static int noout;   /* noout=1 on an operation with an optional out-pointer: NULL is passed, no out= is printed */
static void o_out(enum cc_stat st, void *out) { o_stat(st); if (st == CC_OK && !noout) o(" out=%llu", VAL(out)); }
#define OUTP(p) (noout ? NULL : (p))

/* cc_array_new_conf with the harness allocators and the line's cap= / exp= */
static enum cc_stat make(Cmd *c, CC_Array **out) {
    CC_ArrayConf conf; cc_array_conf_init(&conf);
    conf.capacity = kv_u64(c, "cap", conf.capacity);
    const char *e = kv_str(c, "exp", NULL);
    if (e) conf.exp_factor = strtof(e, NULL);
    conf.mem_alloc = conf_malloc; conf.mem_calloc = conf_calloc; conf.mem_free = conf_free;
    return cc_array_new_conf(&conf, out);
}
static void do_op(Cmd *c) {
    tie_slot = -1;
    noout = kv_u64(c, "noout", 0) == 1 &&
            (is_op(c, "replace_at") || is_op(c, "remove") || is_op(c, "remove_at") || is_op(c, "remove_last") ||
             is_op(c, "it_remove") || is_op(c, "it_replace") || is_op(c, "zit_remove") || is_op(c, "zit_replace"));
    int k = (int)kv_u64(c, "o", 0), to = (int)kv_u64(c, "to", 1);
    if (k < 0 || k >= NSLOT) k = 0;
    if (to < 0 || to >= NSLOT) to = 1;
    if (is_op(c, "new") || is_op(c, "new_default")) {
        enum cc_stat st;
        shim_reset();
        if (!strcmp(kv_str(c, "obs", ""), "sparse")) { sparse = 1; sweep_now = 0; }
        if (is_op(c, "new")) st = make(c, &A[0]);
        else { st = cc_array_new(&A[0]); slot_default[0] = 1; }
        if (st != CC_OK) A[0] = NULL;
        o_stat(st);
        obs_all(); o_sep(); phys(); return;
    }
    int any = 0; for (int i = 0; i < NSLOT; i++) if (A[i]) any = 1;
    if (!any) { o("st=- nosession"); o_sep(); o("-"); return; }
    sweep_now = !sparse;
    if (is_op(c, "observe")) { sweep_now = 1; o("st=-"); obs_all(); o_sep(); phys(); return; }
    CC_Array *a = A[k];
    void *out = PTR(777777);
    if (is_op(c, "destroy") || is_op(c, "destroy_cb")) {
        for (int i = 0; i < NSLOT; i++) if (A[i]) {
            if (is_op(c, "destroy_cb")) cc_array_destroy_cb(A[i], fn_visit); else cc_array_destroy(A[i]);
            drop_slot(i);
        }
        o("st=-"); if (is_op(c, "destroy_cb")) { o(" "); o_cb(); }
    } else if (is_op(c, "mk_new") || is_op(c, "mk_new_default")) {
        /* a further, independent array in slot `to` (configured triple / C library triple) */
        if (A[to]) o("st=- slotbusy");
        else {
            CC_Array *r = NULL; int dflt = is_op(c, "mk_new_default");
            enum cc_stat st = dflt ? cc_array_new(&r) : make(c, &r);
            if (st == CC_OK) { A[to] = r; slot_default[to] = dflt; }
            o_stat(st);
        }
    } else if (is_op(c, "zit_new")) {
        int p = (int)kv_u64(c, "p", 1);
        if (p < 0 || p >= NSLOT || !A[k] || !A[p]) { z1 = z2 = -1; o("st=- noobj"); }
        else { cc_array_zip_iter_init(&zit, A[k], A[p]); z1 = k; z2 = p; o("st=-"); }
    } else if (!strncmp(c->op, "zit_", 4)) {
        if (z1 < 0) o("st=- noiter");
        else if (is_op(c, "zit_next")) {
            void *o1 = PTR(777777), *o2 = PTR(777777);
            enum cc_stat st = cc_array_zip_iter_next(&zit, &o1, &o2);
            o_stat(st); if (st == CC_OK) o(" out=%llu out2=%llu", VAL(o1), VAL(o2));
        } else if (is_op(c, "zit_remove")) {
            void *o1 = PTR(777777), *o2 = PTR(777777);
            enum cc_stat st = cc_array_zip_iter_remove(&zit, OUTP(&o1), OUTP(&o2));
            o_stat(st); if (st == CC_OK && !noout) o(" out=%llu out2=%llu", VAL(o1), VAL(o2));
        } else if (is_op(c, "zit_add")) {
            o_stat(cc_array_zip_iter_add(&zit, PTR(pos_u64(c, 0)), PTR(pos_u64(c, 1))));
        } else if (is_op(c, "zit_replace")) {
            void *o1 = PTR(777777), *o2 = PTR(777777);
            enum cc_stat st = cc_array_zip_iter_replace(&zit, PTR(pos_u64(c, 0)), PTR(pos_u64(c, 1)), OUTP(&o1), OUTP(&o2));
            o_stat(st); if (st == CC_OK && !noout) o(" out=%llu out2=%llu", VAL(o1), VAL(o2));
        } else if (is_op(c, "zit_index")) {
            o("st=- out=%zu", cc_array_zip_iter_index(&zit));
        } else o("st=- badop");
    } else if (is_op(c, "it_new")) {
        if (!a) { it_slot = -1; o("st=- noobj"); } else { cc_array_iter_init(&it, a); it_slot = k; o("st=-"); }
    } else if (!strncmp(c->op, "it_", 3)) {
        if (it_slot < 0) o("st=- noiter");
        else if (is_op(c, "it_next")) { enum cc_stat st = cc_array_iter_next(&it, &out); o_out(st, out); }
        else if (is_op(c, "it_remove")) { enum cc_stat st = cc_array_iter_remove(&it, OUTP(&out)); o_out(st, out); }
        else if (is_op(c, "it_add")) o_stat(cc_array_iter_add(&it, PTR(pos_u64(c, 0))));
        else if (is_op(c, "it_replace")) { enum cc_stat st = cc_array_iter_replace(&it, PTR(pos_u64(c, 0)), OUTP(&out)); o_out(st, out); }
        else if (is_op(c, "it_index")) o("st=- out=%zu", cc_array_iter_index(&it));
        else o("st=- badop");
    } else if (!a) { o("st=- noobj");
    } else if (is_op(c, "drop")) {
        cc_array_destroy(a); drop_slot(k); o("st=-");
    } else if (is_op(c, "add")) { o_stat(cc_array_add(a, PTR(pos_u64(c, 0))));
    } else if (is_op(c, "add_at")) { o_stat(cc_array_add_at(a, PTR(pos_u64(c, 0)), pos_u64(c, 1)));
    } else if (is_op(c, "replace_at")) { enum cc_stat st = cc_array_replace_at(a, PTR(pos_u64(c, 0)), pos_u64(c, 1), OUTP(&out)); o_out(st, out);
    } else if (is_op(c, "swap_at")) { o_stat(cc_array_swap_at(a, pos_u64(c, 0), pos_u64(c, 1)));
    } else if (is_op(c, "remove")) { enum cc_stat st = cc_array_remove(a, PTR(pos_u64(c, 0)), OUTP(&out)); o_out(st, out);
    } else if (is_op(c, "remove_at")) { enum cc_stat st = cc_array_remove_at(a, pos_u64(c, 0), OUTP(&out)); o_out(st, out);
    } else if (is_op(c, "remove_last")) { enum cc_stat st = cc_array_remove_last(a, OUTP(&out)); o_out(st, out);
    } else if (is_op(c, "remove_all")) { cc_array_remove_all(a); o("st=-");
    } else if (is_op(c, "remove_all_free")) {
        /* the function releases the elements with the C library's free(): give it real libc blocks
         * (non-NULL elements are replaced through the public API first) and report the number of
         * blocks it released in obs; the libc event counters are cleared afterwards so that the
         * session still counts as "configured allocator only" */
        size_t n = cc_array_size(a);
        for (size_t i = 0; i < n; i++) {
            void *e = NULL; cc_array_get_at(a, i, &e);
            if (e) cc_array_replace_at(a, __wrap_malloc(8), i, NULL);
        }
        size_t before = L_libc.frees;
        cc_array_remove_all_free(a);
        o("st=- freed=%zu", L_libc.frees - before);
        L_libc.allocs = L_libc.frees = 0;
    } else if (is_op(c, "reverse")) { cc_array_reverse(a); o("st=-");
    } else if (is_op(c, "filter_mut")) { enum cc_stat st = cc_array_filter_mut(a, pred_even); o_stat(st); o(" "); o_cb();
    } else if (is_op(c, "trim_capacity")) { o_stat(cc_array_trim_capacity(a));
    } else if (is_op(c, "get_at")) { enum cc_stat st = cc_array_get_at(a, pos_u64(c, 0), &out); o_out(st, out);
    } else if (is_op(c, "get_last")) { enum cc_stat st = cc_array_get_last(a, &out); o_out(st, out);
    } else if (is_op(c, "index_of")) { size_t ix = 777777; enum cc_stat st = cc_array_index_of(a, PTR(pos_u64(c, 0)), &ix); o_stat(st); if (st == CC_OK) o(" out=%zu", ix);
    } else if (is_op(c, "contains")) { o("st=- out=%zu", cc_array_contains(a, PTR(pos_u64(c, 0))));
    } else if (is_op(c, "contains_value")) { o("st=- out=%zu", cc_array_contains_value(a, PTR(pos_u64(c, 0)), cmp_mod10_val));
    } else if (is_op(c, "size")) { o("st=- out=%zu", cc_array_size(a));
    } else if (is_op(c, "capacity")) { o("st=- out=%zu", cc_array_capacity(a));
    } else if (is_op(c, "map")) { cc_array_map(a, fn_visit); o("st=- "); o_cb();
    } else if (is_op(c, "reduce")) { red_acc = pos_u64(c, 0); cc_array_reduce(a, fn_reduce, &red_acc); o("st=- out=%llu ", red_acc); o_cb();
    } else if (is_op(c, "sort") || is_op(c, "sort_mod")) {
        /* C-only identity check (obs of sort_mod compares keys and the multiset only): the buffer after
         * the call is ordered by the comparator and is a permutation of the buffer before the call,
         * size and capacity untouched */
        int mod = is_op(c, "sort_mod");
        size_t n = a->size, cap = a->capacity;
        unsigned long long *before = __real_malloc((n ? n : 1) * sizeof *before), *after = __real_malloc((n ? n : 1) * sizeof *after);
        for (size_t i = 0; i < n; i++) before[i] = VAL(a->buffer[i]);
        cc_array_sort(a, mod ? cmp_mod10 : cmp_num);
        o("st=-");
        int bad_order = 0, bad_perm = (a->size != n || a->capacity != cap);
        for (size_t i = 0; i < n && !bad_perm; i++) after[i] = VAL(a->buffer[i]);
        for (size_t i = 0; i + 1 < n && !bad_perm; i++)
            if (mod ? after[i] % 10 > after[i + 1] % 10 : after[i] > after[i + 1]) bad_order = 1;
        if (!bad_perm) {
            qsort(before, n, sizeof *before, cmp_u64); qsort(after, n, sizeof *after, cmp_u64);
            for (size_t i = 0; i < n; i++) if (before[i] != after[i]) bad_perm = 1;
        }
        __real_free(before); __real_free(after);
        if (bad_order) o(" WALK=sort-not-ordered");
        if (bad_perm) o(" WALK=sort-not-a-permutation");
        if (mod) tie_slot = k;
    } else if (!strncmp(c->op, "mk_", 3)) {
        if (A[to] || to == k) o("st=- slotbusy");
        else {
            enum cc_stat st; CC_Array *r = NULL; int cb = 0;
            if (is_op(c, "mk_sub")) st = cc_array_subarray(a, pos_u64(c, 0), pos_u64(c, 1), &r);
            else if (is_op(c, "mk_copy_shallow")) st = cc_array_copy_shallow(a, &r);
            else if (is_op(c, "mk_copy_deep")) { st = cc_array_copy_deep(a, cp_plus1000, &r); cb = 1; }
            else if (is_op(c, "mk_filter")) { st = cc_array_filter(a, pred_even, &r); cb = 1; }
            else { o("st=- badop"); goto done; }
            if (st == CC_OK) { A[to] = r; slot_default[to] = slot_default[k]; }
            o_stat(st); if (cb) { o(" "); o_cb(); }
        }
    } else o("st=- badop");
done:
    obs_all(); o_sep(); phys();
}
