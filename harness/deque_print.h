/* Printing of one CC_Deque for the deque and queue shims (both include cc_deque.c, so the private
 * struct is visible).  obs through the public API, phys from the private fields, walkers. */
#ifndef VERIF_DEQUE_PRINT_H
#define VERIF_DEQUE_PRINT_H

/* fixed harness callbacks */
static void  cb_rec(void *e) { cb_record(e); }
static bool  pred_even(const void *e) { cb_record((void *)e); return VAL(e) % 2 == 0; }
static void *cp_1000(void *e) { cb_record(e); return PTR(VAL(e) + 1000); }
static int   cmp_mod10(const void *a, const void *b) { return (int)(VAL(a) % 10) - (int)(VAL(b) % 10); }

/* obs: the content, element by element through cc_deque_get_at */
static void obs_deque(const char *name, int k, CC_Deque *d) {
    o(" %s%d=[", name, k); o_first = 1;
    size_t n = cc_deque_size(d);
    for (size_t i = 0; i < n; i++) {
        void *e = PTR(424242);
        if (cc_deque_get_at(d, i, &e) != CC_OK) { o(o_first ? "?" : ",?"); o_first = 0; continue; }
        o_item(VAL(e));
    }
    o_end();
}

/* phys: private fields; dead slots print as `_` (the first buffer is malloc'ed, not calloc'ed).
 * `phys=quiet` sessions (long `scale` histories with buffers of thousands of slots) print a 64-bit FNV-1a style
 * checksum of the slots instead (`buf=#<decimal>`; per slot: mix 1 and the value if live, mix 0 if dead) and the
 * full dump only on `observe`; the Lean drivers compute the same number. */
static void phys_deque(const char *name, int k, CC_Deque *d, bool full) {
    o(" %s%d.size=%zu %s%d.cap=%zu %s%d.first=%zu %s%d.last=%zu %s%d.buf=", name, k, d->size, name, k, d->capacity,
      name, k, d->first, name, k, d->last, name, k);
    if (!full) {
        uint64_t h = 0xcbf29ce484222325ULL; const uint64_t P = 0x100000001b3ULL;
        for (size_t j = 0; j < d->capacity; j++) {
            bool live = ((j - d->first) & (d->capacity - 1)) < d->size;
            if (live) { h ^= 1; h *= P; h ^= (uint64_t)VAL(d->buffer[j]); h *= P; } else { h *= P; }
        }
        o("#%llu", (unsigned long long)h);
        return;
    }
    o("[");
    for (size_t j = 0; j < d->capacity; j++) {
        bool live = ((j - d->first) & (d->capacity - 1)) < d->size;
        if (j) o(",");
        if (live) o("%llu", VAL(d->buffer[j])); else o("_");
    }
    o("]");
}

/* L2 walkers on private state only (no call into the library): heap-level facts of every state */
static void walk_deque(CC_Deque *d) {
    size_t cap = d->capacity, n = d->size;
    if (block_size(d->buffer) < cap * sizeof(void *)) o(" WALK=buf-block-too-small");
    if (cap == 0 || (cap & (cap - 1))) o(" WALK=capacity-not-pow2");
    if (n > cap) o(" WALK=size-gt-capacity");
    if (d->first >= cap || d->last >= cap) o(" WALK=first-or-last-out-of-range");
    else if (((d->first + n) & (cap - 1)) != d->last) o(" WALK=last-ne-first-plus-size");
}
/* API-consistency walkers: these call into the library, so they run only where the protocol allows a
 * content sweep (normal mode, or the `observe` op of a sparse session) */
static void walk_deque_api(CC_Deque *d) {
    size_t cap = d->capacity, n = d->size;
    if (cc_deque_size(d) != n) o(" WALK=size-api");
    if (cc_deque_capacity(d) != cap) o(" WALK=capacity-api");
    if ((void *)cc_deque_get_buffer(d) != (void *)d->buffer) o(" WALK=get_buffer-api");
    /* a fresh iterator yields exactly get_at(0..n-1) and then ends (exactly full deques included) */
    CC_DequeIter wi; cc_deque_iter_init(&wi, d);
    size_t cnt = 0; void *e; bool bad = false;
    while (cnt <= n + 1 && cc_deque_iter_next(&wi, &e) == CC_OK) {
        void *g = NULL;
        if (cnt >= n || cc_deque_get_at(d, cnt, &g) != CC_OK || g != e) bad = true;
        if (cc_deque_iter_index(&wi) != cnt) bad = true;
        cnt++;
    }
    if (bad || cnt != n) o(" WALK=iterator-traversal");
    void *g = PTR(424242);
    if (cc_deque_get_at(d, n, &g) == CC_OK) o(" WALK=get_at-size-accepted");
    void *a = NULL, *b = NULL;
    if (n > 0) {
        if (cc_deque_get_first(d, &a) != CC_OK || cc_deque_get_at(d, 0, &b) != CC_OK || a != b) o(" WALK=get_first");
        if (cc_deque_get_last(d, &a) != CC_OK || cc_deque_get_at(d, n - 1, &b) != CC_OK || a != b) o(" WALK=get_last");
    } else {
        if (cc_deque_get_first(d, &a) == CC_OK || cc_deque_get_last(d, &a) == CC_OK) o(" WALK=get-on-empty-accepted");
    }
}
#endif
