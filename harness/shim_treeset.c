/* correspondence shim for src/cc_treeset.c (one translation unit with cc_treetable.c) */
#include "cc_treetable.c"
#include "cc_treeset.c"
#include "common.h"
#include "tree_common.h"

static CC_TreeSet *ts;
static CC_TreeSetIter it; static int have_it;
static int sparse;   /* obs=sparse: no content sweep after the operations, only on `observe` */
static void shim_reset(void) { ts = NULL; have_it = 0; cmp_calls = 0; sparse = 0; bufkeys = 0; quiet = 0; walk_blocks = 1; karena_n = 0; ids_reset(); }

/* content through the public API: a fresh iterator (no comparator calls) */
static void obs_abs(void) {
    O_LIST("elems");
    if (ts) {
        CC_TreeSetIter i; void *e = PTR(777777);
        cc_treeset_iter_init(&i, ts);
        while (cc_treeset_iter_next(&i, &e) != CC_ITER_END) o_item(kval(e));
    }
    o_end();
    o(" size=%zu", ts ? cc_treeset_size(ts) : (size_t)0);
}
static void phys(void) {
    if (!ts) { o("-"); return; }
    phys_tree(ts->t, have_it ? &it.i : NULL);
    if (ts->dummy != (int *)1) o(" WALK=dummy");
    if (block_size(ts) < sizeof(CC_TreeSet)) o(" WALK=set-block");   /* one ledger lookup: cheap also when quiet */
}
static void do_op(Cmd *c) {
    void *out = PTR(777777); enum cc_stat st;
    int noout = (int)kv_u64(c, "noout", 0);
    size_t n0 = ts ? ts->t->size : 0;
    cmp_calls = 0;
    if (is_op(c, "new") || is_op(c, "new_default")) {
        int which = (int)kv_u64(c, "cmp", 0);
        sparse = !strcmp(kv_str(c, "obs", ""), "sparse"); ids_reset();
        bufkeys = !strcmp(kv_str(c, "keys", ""), "buf"); karena_n = 0;      /* keys=buf: see tree_common.h */
        quiet = !strcmp(kv_str(c, "phys", ""), "quiet"); walk_blocks = !quiet;  /* phys=quiet: checksum instead of the dump */
        ts = NULL; have_it = 0;
        if (is_op(c, "new")) {
            CC_TreeSetConf conf; cc_treeset_conf_init(&conf);
            conf.cmp = pick_cmp(which);
            conf.mem_alloc = conf_malloc; conf.mem_calloc = conf_calloc; conf.mem_free = conf_free;
            st = cc_treeset_new_conf(&conf, &ts);
        } else { st = cc_treeset_new(pick_cmp(which), &ts); }
        if (st != CC_OK) ts = NULL;
        o_stat(st); o(" ");
    } else if (!ts) { o("st=- nosession"); o_sep(); o("-"); return;
    } else if (is_op(c, "add")) {
        st = cc_treeset_add(ts, KEY(pos_u64(c, 0))); o_stat(st); o(" ");
    } else if (is_op(c, "remove")) {
        st = cc_treeset_remove(ts, KEY(pos_u64(c, 0)), noout ? NULL : &out); o_stat(st);
        if (st == CC_OK && !noout) o(" out=%llu", VAL(out)); o(" ");
    } else if (is_op(c, "remove_all")) {
        cc_treeset_remove_all(ts); o("st=- ");
    } else if (is_op(c, "contains")) {
        bool b = cc_treeset_contains(ts, KEY(pos_u64(c, 0))); o("st=- out=%d ", (int)b);
    } else if (is_op(c, "size")) {
        o("st=- out=%zu ", cc_treeset_size(ts));
    } else if (is_op(c, "first")) {
        st = cc_treeset_get_first(ts, &out); o_stat(st); if (st == CC_OK) o(" out=%llu", kval(out)); o(" ");
    } else if (is_op(c, "last")) {
        st = cc_treeset_get_last(ts, &out); o_stat(st); if (st == CC_OK) o(" out=%llu", kval(out)); o(" ");
    } else if (is_op(c, "greater_than")) {
        st = cc_treeset_get_greater_than(ts, KEY(pos_u64(c, 0)), &out); o_stat(st); if (st == CC_OK) o(" out=%llu", kval(out)); o(" ");
    } else if (is_op(c, "lesser_than")) {
        st = cc_treeset_get_lesser_than(ts, KEY(pos_u64(c, 0)), &out); o_stat(st); if (st == CC_OK) o(" out=%llu", kval(out)); o(" ");
    } else if (is_op(c, "foreach")) {
        cc_treeset_foreach(ts, cb_key); o("st=- "); o_cb(); o(" ");
    } else if (is_op(c, "it_new")) {
        cc_treeset_iter_init(&it, ts); have_it = 1; o("st=- ");
    } else if (is_op(c, "it_drop")) {
        have_it = 0; o("st=- ");
    } else if (is_op(c, "it_next")) {
        if (!have_it) o("st=- noiter ");
        else { void *e = PTR(777777);
            st = cc_treeset_iter_next(&it, &e); o_stat(st);
            if (st == CC_OK) o(" out=%llu", kval(e)); o(" "); }
    } else if (is_op(c, "it_remove")) {
        if (!have_it || it.i.current == ts->t->sentinel) o("st=- noiter ");   /* precondition: after a next */
        else { st = cc_treeset_iter_remove(&it, noout ? NULL : &out); o_stat(st);
            if (st == CC_OK && !noout) o(" out=%llu", VAL(out)); o(" "); }
    } else if (is_op(c, "observe")) {
        o("st=- "); obs_abs(); o_sep(); walk_blocks = 1; phys(); walk_blocks = !quiet; return;
    } else if (is_op(c, "destroy")) {
        cc_treeset_destroy(ts); ts = NULL; have_it = 0; o("st=- ");
    } else { o("st=- badop "); }
    size_t calls = cmp_calls;
    if (!sparse) obs_abs();
    if (calls > cmp_bound(n0)) o(" WALK=cmp-bound");
    cmp_calls = calls;
    o_sep(); phys();
}
