/* Common part of every correspondence harness binary (one binary per container family).
 * The shim that includes this file has already #included the library sources from the
 * CURRENT /repo working tree, so private structs are visible.
 *
 * Line protocol: stdin = one operation per line, stdout = one "C ..." line per operation:
 *   C <obs> | <phys> | <mem>
 * obs  : status, out-values, callback log and the content observed through the public API
 * phys : private state read through the shim
 * mem  : allocator events of this operation (configured ledger / libc ledger)            */
#ifndef VERIF_COMMON_H
#define VERIF_COMMON_H
#include <stdio.h>
#include <stdlib.h>
#include <string.h>
#include <stdint.h>
#include <stdbool.h>
#include <inttypes.h>

void *__real_malloc(size_t);
void *__real_calloc(size_t, size_t);
void  __real_free(void *);
#ifdef VERIF_WITH_POOL
#include "poolalloc.h"
#else
static int alloc_mode;
static bool pool_owns(void *p) { (void)p; return false; }
static void *pool_alloc_bytes(size_t n, bool zero) { (void)n; (void)zero; return NULL; }
static void pool_alloc_reset(void) {}
static void pool_alloc_select(const char *m) { (void)m; }
#endif

/* ---------------- ledgers ---------------- */
#define MAXBLK 200000
typedef struct { void *p; size_t n; } Blk;
typedef struct { Blk *b; size_t cnt; size_t allocs, frees; const char *name; } Ledger;
static Blk conf_blocks[MAXBLK], libc_blocks[MAXBLK];
static Ledger L_conf = { conf_blocks, 0, 0, 0, "conf" }, L_libc = { libc_blocks, 0, 0, 0, "libc" };
static size_t op_calls, op_refused, op_absurd, ledger_errors;
static size_t fail_at[16], nfail;
static char ledger_msg[256];
static size_t site_alloc_calls; /* total configured allocator calls (evidence) */

static void ledger_add(Ledger *l, void *p, size_t n) {
    if (l->cnt >= MAXBLK) { fprintf(stderr, "ledger full\n"); exit(3); }
    l->b[l->cnt].p = p; l->b[l->cnt].n = n; l->cnt++; l->allocs++;
}
static int ledger_find(Ledger *l, void *p) {
    for (size_t i = l->cnt; i-- > 0;) if (l->b[i].p == p) return (int)i;
    return -1;
}
static size_t ledger_size(Ledger *l, void *p) { int i = ledger_find(l, p); return i < 0 ? 0 : l->b[i].n; }
static size_t block_size(void *p);
static void ledger_del(Ledger *l, Ledger *other, void *p) {
    if (!p) return; /* free(NULL) is legal */
    int i = ledger_find(l, p);
    if (i < 0) {
        ledger_errors++;
        snprintf(ledger_msg, sizeof ledger_msg, "%s-free-of-%s-block",
                 l->name, ledger_find(other, p) >= 0 ? other->name : "unknown");
        if (ledger_find(other, p) >= 0) { /* release it through its owner so ASan stays quiet */
            int j = ledger_find(other, p); other->b[j] = other->b[--other->cnt]; other->frees++;
            __real_free(p);
        }
        return;
    }
    l->b[i] = l->b[--l->cnt]; l->frees++;
    if (!pool_owns(p)) __real_free(p);
}
static bool refuse_now(size_t bytes) {
    op_calls++; site_alloc_calls++;
    for (size_t i = 0; i < nfail; i++) if (fail_at[i] == op_calls) { op_refused++; return true; }
    if (bytes > ((size_t)1 << 40)) { op_absurd++; return true; }
    return false;
}
static void *conf_malloc(size_t n) {
    if (refuse_now(n)) return NULL;
    void *p = alloc_mode ? pool_alloc_bytes(n, false) : __real_malloc(n ? n : 1);
    if (!p) { fprintf(stderr, "harness: backing allocator exhausted\n"); exit(3); }
    ledger_add(&L_conf, p, n); return p;
}
static void *conf_calloc(size_t a, size_t b) {
    if ((b && a > ((size_t)1 << 40) / b) ? (op_calls++, site_alloc_calls++, op_absurd++, true) : refuse_now(a * b)) return NULL;
    void *p = alloc_mode ? pool_alloc_bytes(a * b, true) : __real_calloc(a * b ? a * b : 1, 1);
    if (!p) { fprintf(stderr, "harness: backing allocator exhausted\n"); exit(3); }
    ledger_add(&L_conf, p, a * b); return p;
}
static size_t block_size(void *p) { size_t n = ledger_size(&L_conf, p); return n ? n : ledger_size(&L_libc, p); }
static void conf_free(void *p) { ledger_del(&L_conf, &L_libc, p); }
/* libc allocator as seen from inside the library objects (linker --wrap) */
void *__wrap_malloc(size_t n) { void *p = __real_malloc(n ? n : 1); if (p) ledger_add(&L_libc, p, n); return p; }
void *__wrap_calloc(size_t a, size_t b) { void *p = __real_calloc(a ? a : 1, b ? b : 1); if (p) ledger_add(&L_libc, p, a * b); return p; }
void  __wrap_free(void *p) { ledger_del(&L_libc, &L_conf, p); }

/* ---------------- command parsing ---------------- */
#define MAXTOK 64
typedef struct { char *op; char *pos[MAXTOK]; int npos; char *key[MAXTOK]; char *val[MAXTOK]; int nkv; } Cmd;
static void parse_cmd(char *line, Cmd *c) {
    memset(c, 0, sizeof *c);
    char *save = NULL;
    for (char *t = strtok_r(line, " \t\r\n", &save); t; t = strtok_r(NULL, " \t\r\n", &save)) {
        if (!c->op) { c->op = t; continue; }
        char *eq = strchr(t, '=');
        if (eq && c->nkv < MAXTOK) { *eq = 0; c->key[c->nkv] = t; c->val[c->nkv] = eq + 1; c->nkv++; }
        else if (c->npos < MAXTOK) c->pos[c->npos++] = t;
    }
    if (!c->op) c->op = (char *)"";
}
static const char *kv_str(Cmd *c, const char *k, const char *def) {
    for (int i = 0; i < c->nkv; i++) if (!strcmp(c->key[i], k)) return c->val[i];
    return def;
}
static uint64_t kv_u64(Cmd *c, const char *k, uint64_t def) {
    const char *s = kv_str(c, k, NULL); return s ? strtoull(s, NULL, 10) : def;
}
static double kv_f(Cmd *c, const char *k, double def) {
    const char *s = kv_str(c, k, NULL); return s ? strtod(s, NULL) : def;
}
static uint64_t pos_u64(Cmd *c, int i) { return i < c->npos ? strtoull(c->pos[i], NULL, 10) : 0; }
static bool is_op(Cmd *c, const char *s) { return !strcmp(c->op, s); }
#define PTR(v) ((void *)(uintptr_t)(v))
#define VAL(p) ((unsigned long long)(uintptr_t)(p))

/* ---------------- output ---------------- */
static char obuf[1 << 20]; static size_t olen;
static void o(const char *fmt, ...) __attribute__((format(printf, 1, 2)));
#include <stdarg.h>
static void o(const char *fmt, ...) {
    va_list ap; va_start(ap, fmt);
    int n = vsnprintf(obuf + olen, sizeof obuf - olen, fmt, ap);
    va_end(ap);
    if (n > 0) olen += (size_t)n;
    if (olen >= sizeof obuf - 1) { fprintf(stderr, "output line too long\n"); exit(3); }
}
static void o_list_begin(const char *name) { o("%s=[", name); }
static int o_first;
#define O_LIST(name) (o_list_begin(name), o_first = 1)
static void o_item(unsigned long long v) { o(o_first ? "%llu" : ",%llu", v); o_first = 0; }
static void o_end(void) { o("]"); }
static void o_stat(int st) { o("st=%d", st); }
static void o_sep(void) { o(" | "); }

/* callback log (destroy_cb, remove_all_cb, foreach, map, reduce ...) */
static unsigned long long cb_log[4096]; static size_t cb_n;
static void cb_record(void *e) { if (cb_n < 4096) cb_log[cb_n++] = VAL(e); }
static void o_cb(void) { O_LIST("cb"); for (size_t i = 0; i < cb_n; i++) o_item(cb_log[i]); o_end(); }

/* Comparator results keep their SIGN and vary their MAGNITUDE call by call (1, 7, 1000000, 256, INT_MAX, 2, 65536,
   128): the documented contract of every cmp callback is "<0, 0, >0", so a library that compares the result with
   == 1 / == -1, narrows it to char/short or does arithmetic on it misbehaves on some call.  The model only sees the
   sign.  The counter is reset with the history, so replays are exact. */
static unsigned verif_mag_ctr;
static int verif_mag(int sign) {
    static const int m[8] = {1, 7, 1000000, 256, 2147483647, 2, 65536, 128};
    if (sign == 0) return 0;
    int k = m[verif_mag_ctr++ & 7];
    return sign > 0 ? k : -k;
}

/* the shim provides these */
static void do_op(Cmd *c);       /* executes one op, writes obs and phys sections via o() */
static void shim_reset(void);    /* forget all session objects (their blocks were released by the ledger) */
static void ledger_reset(void) {
    for (size_t i = 0; i < L_conf.cnt; i++) if (!pool_owns(L_conf.b[i].p)) __real_free(L_conf.b[i].p);
    for (size_t i = 0; i < L_libc.cnt; i++) __real_free(L_libc.b[i].p);
    L_conf.cnt = L_libc.cnt = 0; ledger_errors = 0; ledger_msg[0] = 0; verif_mag_ctr = 0;
}

/* default_mode: the session object was built with the library's default constructor, i.e. on the
 * C library allocator; its events are then reported in the configured columns */
static int default_mode;
static void o_mem(void) {
    if (default_mode)
        o("mem=a%zu f%zu r%zu live=%zu libc=a0 f0 llive=0", L_conf.allocs + L_libc.allocs, L_conf.frees + L_libc.frees,
          op_refused, L_conf.cnt + L_libc.cnt);
    else
    o("mem=a%zu f%zu r%zu live=%zu libc=a%zu f%zu llive=%zu", L_conf.allocs, L_conf.frees, op_refused,
      L_conf.cnt, L_libc.allocs, L_libc.frees, L_libc.cnt);
    if (op_absurd) o(" absurd=%zu", op_absurd);
    if (ledger_errors) o(" err=%s", ledger_msg);
}

int main(void) {
    static char line[1 << 16];
    setvbuf(stdout, NULL, _IOFBF, 1 << 16);
    while (fgets(line, sizeof line, stdin)) {
        if (line[0] == '#' || line[0] == '\n') { puts("C #"); fflush(stdout); continue; }
        if (!strncmp(line, "reset", 5)) { shim_reset(); ledger_reset(); pool_alloc_reset(); default_mode = 0; puts("C reset"); fflush(stdout); continue; }
        Cmd c; parse_cmd(line, &c);
        /* per-op reset */
        L_conf.allocs = L_conf.frees = L_libc.allocs = L_libc.frees = 0;
        op_calls = op_refused = op_absurd = 0; cb_n = 0; olen = 0; obuf[0] = 0;
        nfail = 0;
        const char *f = kv_str(&c, "fail", NULL);
        if (f) { char tmp[128]; strncpy(tmp, f, 127); tmp[127] = 0; char *sv = NULL;
            for (char *t = strtok_r(tmp, ",", &sv); t && nfail < 16; t = strtok_r(NULL, ",", &sv)) fail_at[nfail++] = strtoull(t, NULL, 10); }
        if (!strncmp(c.op, "new", 3)) pool_alloc_select(kv_str(&c, "alloc", NULL));
        do_op(&c);
        nfail = 0;
        o_sep(); o_mem();
        fputs("C ", stdout); fputs(obuf, stdout); fputc('\n', stdout); fflush(stdout);
    }
    return 0;
}
#endif
