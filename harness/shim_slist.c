/* correspondence shim for src/cc_slist.c (singly linked list); same protocol as shim_list.c
 * (slots `o=`/`from=`/`to=`, `destroy` releases every live slot, `drop o=k` one slot, one active
 * iterator `it_`/`zit_`, contract guard for iterator mutators). */
#include "cc_slist.c"
#include "common.h"

#define NSLOT 4
#define WLIMIT 200000
static CC_SList *L[NSLOT];
static int it_kind;              /* 0 none, 1 it_, 3 zit_ */
static CC_SListIter it;
static CC_SListZipIter zit;
static int it_o, it_o2, it_changed;
static int sparse;   /* obs=sparse on a constructor line: no observation through the library except by `observe` */
/* `phys=quiet` on a constructor line (scale histories), as in shim_list.c: per slot size / head / tail / first / last and two
   FNV-1a-64 checksums — `nck` over the data along `next`, `lck` over (display id, data, next id) of every node plus the ids of
   `head` and `tail` (NULL = 2^64-1, unknown = 2^64-2; 8 little-endian bytes per number).  `observe` prints the full sections up
   to BIGLIM nodes in total, above that checksums (`abs<k>=#<fnv>/<n>`). */
static int quiet;
#define BIGLIM 4000
#define FNV0 14695981039346656037ULL
static uint64_t fnv_mix(uint64_t h, uint64_t x) { for (int i = 0; i < 8; i++) { h ^= (x & 0xff); h *= 1099511628211ULL; x >>= 8; } return h; }
static size_t total_nodes(void) { size_t n = 0; for (int k = 0; k < NSLOT; k++) if (L[k]) n += L[k]->size; return n; }
static void links_reset(void);
static void shim_reset(void) { for (int i = 0; i < NSLOT; i++) L[i] = NULL; it_kind = 0; sparse = 0; quiet = 0; links_reset(); }

static int cmp_num(const void *a, const void *b) { uintptr_t x = (uintptr_t)a, y = (uintptr_t)b; return verif_mag(x < y ? -1 : x > y); }
static int cmp_key(const void *a, const void *b) { uintptr_t x = (uintptr_t)a % 10, y = (uintptr_t)b % 10; return verif_mag(x < y ? -1 : x > y); }
static int cmpq_num(const void *a, const void *b) { return cmp_num(*(void *const *)a, *(void *const *)b); }
static bool pred_even(const void *e) { return (uintptr_t)e % 2 == 0; }
static void *cp_plus(void *e) { return PTR((uintptr_t)e + 1000); }
static int (*pick_cmp(Cmd *c))(const void *, const void *) {
    return !strcmp(kv_str(c, "cmp", "num"), "key") ? cmp_key : cmp_num;
}

/* The observer must not disturb the object: it uses iterators, size, get_first, get_last only.  The cross-check
   "get_at at every index agrees with the traversal" (both walking directions of get_node_at) performs lookups, and a
   lookup may legitimately leave state behind in the list (a cursor cache); doing it after every operation would hide
   any defect in such state.  It is therefore tied to one operation of the vocabulary: it runs for the slot on which
   `foreach` was just executed, and only then. */
static int sweep_slot = -1;
static void obs_slot(int k) {
    CC_SList *l = L[k];
    static unsigned long long fw[WLIMIT];
    size_t n = 0; void *e;
    CC_SListIter i; cc_slist_iter_init(&i, l);
    o("abs%d=[", k); o_first = 1;
    while (cc_slist_iter_next(&i, &e) != CC_ITER_END && n < WLIMIT) { o_item(VAL(e)); fw[n++] = VAL(e); }
    o_end();
    o(" size%d=%zu", k, cc_slist_size(l));
    void *f = NULL;
    if (cc_slist_get_first(l, &f) == CC_OK) o(" first%d=%llu", k, VAL(f)); else o(" first%d=-", k);
    if (cc_slist_get_last(l, &f) == CC_OK) o(" last%d=%llu", k, VAL(f)); else o(" last%d=-", k);
    if (k == sweep_slot) for (size_t j = 0; j < n; j++) {
        void *g = NULL;
        if (cc_slist_get_at(l, j, &g) != CC_OK || VAL(g) != fw[j]) { o(" GETAT%d=mismatch@%zu", k, j); break; }
    }
}
static void obs_slot_ck(int k) {
    CC_SList *l = L[k];
    void *e; size_t n = 0; uint64_t hf = FNV0;
    CC_SListIter i; cc_slist_iter_init(&i, l);
    while (cc_slist_iter_next(&i, &e) != CC_ITER_END && n < WLIMIT) { hf = fnv_mix(hf, VAL(e)); n++; }
    o("abs%d=#%llu/%zu size%d=%zu", k, (unsigned long long)hf, n, k, cc_slist_size(l));
    void *f = NULL;
    if (cc_slist_get_first(l, &f) == CC_OK) o(" first%d=%llu", k, VAL(f)); else o(" first%d=-", k);
    if (cc_slist_get_last(l, &f) == CC_OK) o(" last%d=%llu", k, VAL(f)); else o(" last%d=-", k);
}
static void obs_all(void) {
    int any = 0, big = quiet && total_nodes() > BIGLIM;
    for (int k = 0; k < NSLOT; k++) if (L[k]) { if (any) o(" "); if (big) obs_slot_ck(k); else obs_slot(k); any = 1; }
    if (!any) o("none");
    sweep_slot = -1;
}

static SNode *wnodes[WLIMIT];
static size_t wcount;
static long pos_of(SNode *p) { for (size_t i = 0; i < wcount; i++) if (wnodes[i] == p) return (long)i; return -1; }
static void o_ptr(const char *name, int k, SNode *p) {
    if (!p) { o(" %s%d=-", name, k); return; }
    long q = pos_of(p);
    if (q < 0) o(" %s%d=?", name, k); else o(" %s%d=%ld", name, k, q);
}
/* ---- raw link structure: every node gets a display id when it is first seen on a walk (all live slots in ascending
   order, along `next` from `head`) and keeps it while it stays on some list; `links<k>=[id:data:next,...]` prints the
   actual next pointers through that table (`-` NULL, `?` a pointer to no listed node).  The Lean driver runs the
   pointer-level model (Model/PSList.lean) alongside and numbers its nodes in the same way, so L3 compares the link
   structure and the identity of the nodes.  After an operation that has no pointer-level model (none at present)
   both sides renumber from scratch. */
#define DCAP (1u << 19)
typedef struct { SNode *p; unsigned long id; unsigned long gen; } DEnt;
static DEnt dtab[2][DCAP];
static unsigned long dgen[2], dgen_ctr, dnext_id;
static int dcur, links_renumber;
static size_t d_hash(SNode *p) { return (size_t)((((uintptr_t)p) >> 4) * 2654435761u) & (DCAP - 1); }
static long d_get(int t, SNode *p) {
    for (size_t i = d_hash(p);; i = (i + 1) & (DCAP - 1)) {
        DEnt *e = &dtab[t][i];
        if (e->gen != dgen[t]) return -1;
        if (e->p == p) return (long)e->id;
    }
}
static void d_put(int t, SNode *p, unsigned long id) {
    for (size_t i = d_hash(p);; i = (i + 1) & (DCAP - 1)) {
        DEnt *e = &dtab[t][i];
        if (e->gen != dgen[t]) { e->p = p; e->id = id; e->gen = dgen[t]; return; }
        if (e->p == p) return;
    }
}
static void links_reset(void) { dgen[0] = ++dgen_ctr; dgen[1] = ++dgen_ctr; dnext_id = 0; links_renumber = 0; }
static void links_prepass(void) {
    if (!dgen_ctr) links_reset();
    int nt = 1 - dcur;
    dgen[nt] = ++dgen_ctr;
    for (int k = 0; k < NSLOT; k++) if (L[k]) {
        size_t cnt = 0;
        for (SNode *n = L[k]->head; n && cnt < L[k]->size + 4; n = n->next, cnt++) {
            if (d_get(nt, n) >= 0) break;
            long id = links_renumber ? -1 : d_get(dcur, n);
            d_put(nt, n, id >= 0 ? (unsigned long)id : dnext_id++);
        }
    }
    dcur = nt; links_renumber = 0;
}
static void o_did(SNode *p) { if (!p) { o("-"); return; } long id = d_get(dcur, p); if (id < 0) o("?"); else o("%ld", id); }
static void o_links(int k) {
    CC_SList *l = L[k];
    o(" links%d=[", k);
    size_t cnt = 0; int first = 1;
    for (SNode *n = l->head; n && cnt < l->size + 4; n = n->next, cnt++) {
        if (!first) o(","); first = 0;
        o_did(n); o(":%llu:", VAL(n->data)); o_did(n->next);
    }
    o("] hd%d=", k); o_did(l->head); o(" tl%d=", k); o_did(l->tail);
}
static void phys_slot(int k) {
    CC_SList *l = L[k];
    const char *walk = NULL;
    wcount = 0;
    for (SNode *n = l->head; n && wcount < WLIMIT; n = n->next) wnodes[wcount++] = n;
    if (wcount >= WLIMIT) walk = "cycle";
    o("size%d=%zu", k, l->size);
    o_ptr("head", k, l->head); o_ptr("tail", k, l->tail);
    o(" nodes%d=[", k); o_first = 1; for (size_t i = 0; i < wcount; i++) o_item(VAL(wnodes[i]->data)); o_end();
    if (!walk && wcount != l->size) walk = "count-ne-size";
    if (!walk && !l->head && l->tail) walk = "head-null-tail-not";
    if (!walk && l->head && !l->tail) walk = "tail-null-head-not";
    if (!walk && l->tail && l->tail->next) walk = "tail-next-not-null";
    if (!walk && l->tail && pos_of(l->tail) != (long)wcount - 1) walk = "tail-not-last";
    if (!walk && block_size(l) < sizeof(CC_SList)) walk = "header-block";
    for (size_t i = 0; i < wcount && !walk; i++) if (block_size(wnodes[i]) < sizeof(SNode)) walk = "node-block";
    if (it_kind == 1 && it_o == k) {
        o(" itidx%d=%zu", k, it.index); o_ptr("itcur", k, it.current); o_ptr("itprev", k, it.prev); o_ptr("itnext", k, it.next); }
    if (it_kind == 3 && (it_o == k || it_o2 == k)) {
        int a = it_o == k;
        o(" zitidx%d=%zu", k, zit.index);
        o_ptr("zitcur", k, a ? zit.l1_current : zit.l2_current); o_ptr("zitprev", k, a ? zit.l1_prev : zit.l2_prev);
        o_ptr("zitnext", k, a ? zit.l1_next : zit.l2_next); }
    o_links(k);
    if (walk) o(" WALK=%s", walk);
}
static uint64_t did_num(SNode *p) { if (!p) return ~0ULL; long id = d_get(dcur, p); return id < 0 ? ~0ULL - 1 : (uint64_t)id; }
static void phys_slot_quiet(int k) {
    CC_SList *l = L[k];
    const char *walk = NULL;
    wcount = 0;
    uint64_t nck = FNV0, lck = FNV0;
    for (SNode *n = l->head; n && wcount < WLIMIT; n = n->next) { wnodes[wcount++] = n; nck = fnv_mix(nck, VAL(n->data)); }
    if (wcount >= WLIMIT) walk = "cycle";
    size_t cnt = 0;
    for (SNode *n = l->head; n && cnt < l->size + 4; n = n->next, cnt++) {
        lck = fnv_mix(lck, did_num(n)); lck = fnv_mix(lck, VAL(n->data)); lck = fnv_mix(lck, did_num(n->next));
    }
    lck = fnv_mix(lck, did_num(l->head)); lck = fnv_mix(lck, did_num(l->tail));
    o("size%d=%zu", k, l->size);
    if (!l->head) o(" head%d=-", k); else o(" head%d=0", k);
    if (!l->tail) o(" tail%d=-", k); else o(" tail%d=%s", k, (wcount && l->tail == wnodes[wcount - 1]) ? "last" : "?");
    if (wcount) o(" first%d=%llu last%d=%llu", k, VAL(wnodes[0]->data), k, VAL(wnodes[wcount - 1]->data)); else o(" first%d=- last%d=-", k, k);
    o(" nck%d=%llu lck%d=%llu", k, (unsigned long long)nck, k, (unsigned long long)lck);
    if (!walk && wcount != l->size) walk = "count-ne-size";
    if (!walk && !l->head && l->tail) walk = "head-null-tail-not";
    if (!walk && l->head && !l->tail) walk = "tail-null-head-not";
    if (!walk && l->tail && l->tail->next) walk = "tail-next-not-null";
    if (!walk && block_size(l) < sizeof(CC_SList)) walk = "header-block";
    if (it_kind == 1 && it_o == k) {
        o(" itidx%d=%zu", k, it.index); o_ptr("itcur", k, it.current); o_ptr("itprev", k, it.prev); o_ptr("itnext", k, it.next); }
    if (it_kind == 3 && (it_o == k || it_o2 == k)) {
        int a = it_o == k;
        o(" zitidx%d=%zu", k, zit.index);
        o_ptr("zitcur", k, a ? zit.l1_current : zit.l2_current); o_ptr("zitprev", k, a ? zit.l1_prev : zit.l2_prev);
        o_ptr("zitnext", k, a ? zit.l1_next : zit.l2_next); }
    if (walk) o(" WALK=%s", walk);
}
static int phys_full_now;   /* set by `observe` in a quiet session when the lists are small enough for the full dump */
static void phys(void) {
    int any = 0;
    links_prepass();
    for (int k = 0; k < NSLOT; k++) if (L[k]) { if (any) o(" "); if (quiet && !phys_full_now) phys_slot_quiet(k); else phys_slot(k); any = 1; }
    if (!any) o("-");
    phys_full_now = 0;
}

static void fill_conf(CC_SListConf *conf) {
    cc_slist_conf_init(conf);
    conf->mem_alloc = conf_malloc; conf->mem_calloc = conf_calloc; conf->mem_free = conf_free;
}
static void o_out(enum cc_stat st, void *out) { o_stat(st); if (st == CC_OK) o(" out=%llu", VAL(out)); }

static void do_op(Cmd *c) {
    int k = (int)kv_u64(c, "o", 0), from = (int)kv_u64(c, "from", 1), to = (int)kv_u64(c, "to", 1);
    uint64_t v = pos_u64(c, 0), idx = kv_u64(c, "idx", 0);
    int noout = (int)kv_u64(c, "noout", 0);   /* CONVENTIONS Addendum 3: pass NULL for the optional out-pointer(s) */
    int is_it = !strncmp(c->op, "it_", 3) || !strncmp(c->op, "zit_", 4);
    if (!is_it && !is_op(c, "observe")) it_kind = 0;
    {   /* operations without a pointer-level model: renumber the nodes afterwards (Driver/SList.lean: plUnsupported) */
        static const char *un[] = { NULL };
        int k0 = (int)kv_u64(c, "o", 0), f0 = (int)kv_u64(c, "from", 1), t0 = (int)kv_u64(c, "to", 1);
        if (k0 >= 0 && k0 < NSLOT && f0 >= 0 && f0 < NSLOT && t0 >= 0 && t0 < NSLOT)
            for (int i = 0; un[i]; i++) if (is_op(c, un[i])) links_renumber = 1;
    }
    if (!strncmp(c->op, "new", 3) && !strcmp(kv_str(c, "obs", "full"), "sparse")) sparse = 1;
    if (!strncmp(c->op, "new", 3) && !strcmp(kv_str(c, "phys", "full"), "quiet")) quiet = 1;
    if (k < 0 || k >= NSLOT || from < 0 || from >= NSLOT || to < 0 || to >= NSLOT) { o("st=- badslot "); goto done; }
    if (is_op(c, "observe")) { o("st=- "); sweep_slot = -1; obs_all(); o_sep(); phys_full_now = !(quiet && total_nodes() > BIGLIM); phys(); return; }
    CC_SList *l = L[k];
    if (is_op(c, "new")) {
        if (l) { o("st=- busy "); goto done; }
        CC_SListConf conf; fill_conf(&conf);
        enum cc_stat st = cc_slist_new_conf(&conf, &L[k]); if (st != CC_OK) L[k] = NULL;
        o_stat(st); o(" ");
    } else if (is_op(c, "new_default")) {
        if (l) { o("st=- busy "); goto done; }
        enum cc_stat st = cc_slist_new(&L[k]); if (st != CC_OK) L[k] = NULL;
        o_stat(st); o(" ");
    } else if (is_op(c, "destroy") || is_op(c, "destroy_cb")) {
        int any = 0;
        for (int j = 0; j < NSLOT; j++) if (L[j]) {
            any = 1;
            if (is_op(c, "destroy")) cc_slist_destroy(L[j]); else cc_slist_destroy_cb(L[j], cb_record);
            L[j] = NULL;
        }
        if (!any) { o("st=- nosession"); o_sep(); o("-"); return; }
        o("st=- "); if (is_op(c, "destroy_cb")) { o_cb(); o(" "); }
    } else if (is_it) {
        if (is_op(c, "it_new")) {
            if (!l) { it_kind = 0; o("st=- nosession"); o_sep(); phys(); return; }
            it_kind = 1; it_o = k; it_changed = 0;
            cc_slist_iter_init(&it, l);
            o("st=- ");
        } else if (is_op(c, "zit_new")) {
            int k2 = (int)kv_u64(c, "o2", 1);
            /* a zip iterator over the SAME list (o2 == o) is accepted: the header docs do not forbid it.  It is a known finding
               (KF-list-zip-same-list: zip remove frees the node twice, the slist zip add loses a node); no generator emits it, the
               Lean drivers answer "contract" and the lines are only run from corpus/<k>/defect_zip_same_list_*.ops */
            if (k2 < 0 || k2 >= NSLOT || !l || !L[k2]) { it_kind = 0; o("st=- contract "); goto done; }
            it_kind = 3; it_o = k; it_o2 = k2; it_changed = 0;
            cc_slist_zip_iter_init(&zit, l, L[k2]);
            o("st=- ");
        } else {
            int want = !strncmp(c->op, "it_", 3) ? 1 : 3;
            const char *sub = c->op + (want == 1 ? 3 : 4);
            if (it_kind != want || !L[it_o] || (want == 3 && !L[it_o2])) { o("st=- noiter "); goto done; }
            void *out1 = NULL, *out2 = NULL; enum cc_stat st;
            SNode *cur = want == 3 ? ((zit.l1_current && zit.l2_current) ? zit.l1_current : NULL) : it.current;
            if (!strcmp(sub, "next")) {
                st = want == 1 ? cc_slist_iter_next(&it, noout ? NULL : &out1) : cc_slist_zip_iter_next(&zit, noout ? NULL : &out1, noout ? NULL : &out2);
                if (st == CC_OK) it_changed = 0;
                o_stat(st); if (st == CC_OK && !noout) { o(" out=%llu", VAL(out1)); if (want == 3) o(" out2=%llu", VAL(out2)); } o(" ");
            } else if (!strcmp(sub, "add")) {
                if (!cur) { o("st=- contract "); goto done; }
                st = want == 1 ? cc_slist_iter_add(&it, PTR(v)) : cc_slist_zip_iter_add(&zit, PTR(v), PTR(pos_u64(c, 1)));
                if (st == CC_OK) it_changed = 1;
                o_stat(st); o(" ");
            } else if (!strcmp(sub, "remove")) {
                st = want == 1 ? cc_slist_iter_remove(&it, noout ? NULL : &out1) : cc_slist_zip_iter_remove(&zit, noout ? NULL : &out1, noout ? NULL : &out2);
                if (st == CC_OK) it_changed = 1;
                o_stat(st); if (st == CC_OK && !noout) { o(" out=%llu", VAL(out1)); if (want == 3) o(" out2=%llu", VAL(out2)); } o(" ");
            } else if (!strcmp(sub, "replace")) {
                st = want == 1 ? cc_slist_iter_replace(&it, PTR(v), noout ? NULL : &out1)
                               : cc_slist_zip_iter_replace(&zit, PTR(v), PTR(pos_u64(c, 1)), noout ? NULL : &out1, noout ? NULL : &out2);
                o_stat(st); if (st == CC_OK && !noout) { o(" out=%llu", VAL(out1)); if (want == 3) o(" out2=%llu", VAL(out2)); } o(" ");
            } else if (!strcmp(sub, "index")) {
                size_t ix = want == 1 ? cc_slist_iter_index(&it) : cc_slist_zip_iter_index(&zit);
                o("st=- out=%zu ", ix);
            } else { o("st=- badop "); }
        }
    } else if (!l) { o("st=- nosession"); o_sep(); phys(); return;
    } else if (is_op(c, "drop")) { cc_slist_destroy(l); L[k] = NULL; o("st=- ");
    } else if (is_op(c, "drop_cb")) { cc_slist_destroy_cb(l, cb_record); L[k] = NULL; o("st=- "); o_cb(); o(" ");
    } else if (is_op(c, "fill")) {
        /* `fill n=<count> seed=<s>`: count appends of the values (i * 7919 + seed * 104729) % 1000003, i = 0.. (scale histories) */
        uint64_t cnt = kv_u64(c, "n", 0), sd = kv_u64(c, "seed", 1); enum cc_stat st = CC_OK;
        for (uint64_t i = 0; i < cnt && st == CC_OK; i++) st = cc_slist_add(l, PTR((i * 7919ULL + sd * 104729ULL) % 1000003ULL));
        o_stat(st); o(" ");
    } else if (is_op(c, "add")) { o_stat(cc_slist_add(l, PTR(v))); o(" ");
    } else if (is_op(c, "add_first")) { o_stat(cc_slist_add_first(l, PTR(v))); o(" ");
    } else if (is_op(c, "add_last")) { o_stat(cc_slist_add_last(l, PTR(v))); o(" ");
    } else if (is_op(c, "add_at")) { o_stat(cc_slist_add_at(l, PTR(v), idx)); o(" ");
    } else if (is_op(c, "add_all") || is_op(c, "add_all_at") || is_op(c, "splice") || is_op(c, "splice_at")) {
        /* add_all(l, l) / add_all_at(l, l, i) are legal (the list is doubled); splice(l, l) is not */
        if (!L[from] || (from == k && (is_op(c, "splice") || is_op(c, "splice_at")))) { o("st=- contract "); goto done; }
        enum cc_stat st = is_op(c, "add_all") ? cc_slist_add_all(l, L[from]) : is_op(c, "add_all_at") ? cc_slist_add_all_at(l, L[from], idx)
                        : is_op(c, "splice") ? cc_slist_splice(l, L[from]) : cc_slist_splice_at(l, L[from], idx);
        o_stat(st); o(" ");
    } else if (is_op(c, "remove")) { void *out = NULL; enum cc_stat st = cc_slist_remove(l, PTR(v), noout ? NULL : &out); if (noout) o_stat(st); else o_out(st, out); o(" ");
    } else if (is_op(c, "remove_at")) { void *out = NULL; enum cc_stat st = cc_slist_remove_at(l, idx, noout ? NULL : &out); if (noout) o_stat(st); else o_out(st, out); o(" ");
    } else if (is_op(c, "remove_first")) { void *out = NULL; enum cc_stat st = cc_slist_remove_first(l, noout ? NULL : &out); if (noout) o_stat(st); else o_out(st, out); o(" ");
    } else if (is_op(c, "remove_last")) { void *out = NULL; enum cc_stat st = cc_slist_remove_last(l, noout ? NULL : &out); if (noout) o_stat(st); else o_out(st, out); o(" ");
    } else if (is_op(c, "remove_all")) { o_stat(cc_slist_remove_all(l)); o(" ");
    } else if (is_op(c, "remove_all_cb")) { o_stat(cc_slist_remove_all_cb(l, cb_record)); o(" "); o_cb(); o(" ");
    } else if (is_op(c, "replace_at")) { void *out = NULL; enum cc_stat st = cc_slist_replace_at(l, PTR(v), idx, noout ? NULL : &out); if (noout) o_stat(st); else o_out(st, out); o(" ");
    } else if (is_op(c, "get_first")) { void *out = NULL; enum cc_stat st = cc_slist_get_first(l, &out); o_out(st, out); o(" ");
    } else if (is_op(c, "get_last")) { void *out = NULL; enum cc_stat st = cc_slist_get_last(l, &out); o_out(st, out); o(" ");
    } else if (is_op(c, "get_at")) { void *out = NULL; enum cc_stat st = cc_slist_get_at(l, idx, &out); o_out(st, out); o(" ");
    } else if (is_op(c, "reverse")) { cc_slist_reverse(l); o("st=- ");
    } else if (is_op(c, "size")) { o("st=- out=%zu ", cc_slist_size(l));
    } else if (is_op(c, "contains")) { o("st=- out=%zu ", cc_slist_contains(l, PTR(v)));
    } else if (is_op(c, "contains_value")) { o("st=- out=%zu ", cc_slist_contains_value(l, PTR(v), pick_cmp(c)));
    } else if (is_op(c, "index_of")) { size_t ix = 0; enum cc_stat st = cc_slist_index_of(l, PTR(v), &ix);
        o_stat(st); if (st == CC_OK) o(" out=%zu", ix); o(" ");
    } else if (is_op(c, "to_array")) {
        void **arr = NULL; enum cc_stat st = cc_slist_to_array(l, &arr);
        o_stat(st);
        if (st == CC_OK) { o(" "); O_LIST("arr"); for (size_t i = 0; i < cc_slist_size(l); i++) o_item(VAL(arr[i])); o_end();
            if (cc_slist_size(l) && block_size(arr) < cc_slist_size(l) * sizeof(void *)) o(" WALK=array-block");
            if (ledger_find(&L_conf, arr) >= 0) conf_free(arr); else free(arr); }   /* the harness (caller) releases the array through its owner */
        o(" ");
    } else if (is_op(c, "foreach")) { cc_slist_foreach(l, cb_record); o("st=- "); o_cb(); o(" "); sweep_slot = k;
    } else if (is_op(c, "filter_mut")) { o_stat(cc_slist_filter_mut(l, pred_even)); o(" ");
    } else if (is_op(c, "sort")) { o_stat(cc_slist_sort(l, cmpq_num)); o(" ");
    } else if (!strncmp(c->op, "mk_", 3)) {
        if (L[to] || to == k) { o("st=- busy "); goto done; }
        CC_SList *out = NULL; enum cc_stat st;
        if (is_op(c, "mk_sub")) st = cc_slist_sublist(l, kv_u64(c, "b", 0), kv_u64(c, "e", 0), &out);
        else if (is_op(c, "mk_copy_shallow")) st = cc_slist_copy_shallow(l, &out);
        else if (is_op(c, "mk_copy_deep")) st = cc_slist_copy_deep(l, cp_plus, &out);
        else if (is_op(c, "mk_filter")) st = cc_slist_filter(l, pred_even, &out);
        else { o("st=- badop "); goto done; }
        if (st == CC_OK) L[to] = out;
        o_stat(st); o(" ");
    } else { o("st=- badop "); }
done:
    if (sparse) { o("sparse"); sweep_slot = -1; } else obs_all();
    o_sep(); phys();
}
