/* correspondence shim for src/cc_queue.c (adapter over CC_Deque): both sources in one translation
 * unit so that the inner deque's private state can be printed.
 * session objects: queue slots 0..1 (`o=<slot>`), one iterator, one zip iterator. */
#include "cc_deque.c"
#include "cc_queue.c"
#include "common.h"
#include "deque_print.h"

#define NSLOT 2
static CC_Queue *Q[NSLOT];
static CC_QueueIter it;   static int it_slot = -1;
static QueueZipIter zit;  static int zit_a = -1, zit_b = -1;

static int sparse;           /* obs=sparse on a constructor line: no content sweep except in `observe` */
static bool sweep_now;
static int quiet;            /* phys=quiet on a constructor line: buffer checksum instead of the dump, except in `observe` */
static bool dump_now;
static void shim_reset(void) { sparse = 0; quiet = 0; for (int i = 0; i < NSLOT; i++) Q[i] = NULL; it_slot = zit_a = zit_b = -1; }

/* obs through the queue's public API only: a fresh queue iterator (front of the inner deque first,
 * i.e. newest element first), cc_queue_size, cc_queue_peek */
static void obs_all(void) {
    for (int k = 0; k < NSLOT; k++) if (Q[k]) {
        CC_QueueIter qi; cc_queue_iter_init(&qi, Q[k]);
        o(" q%d=[", k); o_first = 1;
        void *e; size_t guard = 0;
        while (cc_queue_iter_next(&qi, &e) != CC_ITER_END && guard++ < 100000) o_item(VAL(e));
        o_end();
        o(" n%d=%zu", k, cc_queue_size(Q[k]));
        void *p = PTR(777777);
        enum cc_stat st = cc_queue_peek(Q[k], &p);
        if (st == CC_OK) o(" peek%d=%llu", k, VAL(p)); else o(" peek%d=-", k);
    }
}
static void phys_all(void) {
    size_t start = olen; bool any = false;
    for (int k = 0; k < NSLOT; k++) if (Q[k]) { phys_deque("q", k, Q[k]->d, dump_now); any = true; }
    if (it_slot >= 0) { o(" it=%d:%zu:%d", it_slot, it.i.index, (int)it.i.last_removed); any = true; }
    if (zit_a >= 0) { o(" zit=%d:%d:%zu:%d", zit_a, zit_b, zit.i.index, (int)zit.i.last_removed); any = true; }
    if (!any) { o("-"); return; }
    memmove(obuf + start, obuf + start + 1, olen - start); olen--;
    for (int k = 0; k < NSLOT; k++) if (Q[k]) {
        walk_deque(Q[k]->d); if (sweep_now) walk_deque_api(Q[k]->d);
        if (block_size(Q[k]) < sizeof(CC_Queue)) o(" WALK=queue-header-block");
        if (sweep_now && cc_queue_struct_size() != sizeof(CC_Deque)) o(" WALK=struct-size-api");
    }
}
static void o_out(enum cc_stat st, void *out) { o_stat(st); if (st == CC_OK) o(" out=%llu", VAL(out)); }

static void do_op(Cmd *c) {
    int k = (int)kv_u64(c, "o", 0);
    uint64_t a0 = pos_u64(c, 0), a1 = pos_u64(c, 1);
    bool noout = kv_u64(c, "noout", 0) != 0;
    void *out = PTR(777777);
    enum cc_stat st;
    if (k < 0 || k >= NSLOT) { o("st=- badslot"); o_sep(); o("-"); return; }
    sweep_now = !sparse; dump_now = !quiet;
    if (is_op(c, "observe")) { sweep_now = true; dump_now = true; o("st=-");
    } else if (is_op(c, "new")) {
        if (!strcmp(kv_str(c, "obs", ""), "sparse")) { sparse = 1; sweep_now = false; }
        if (!strcmp(kv_str(c, "phys", ""), "quiet")) { quiet = 1; dump_now = false; }
        if (Q[k]) { o("st=- busy"); o_sep(); o("-"); return; }
        CC_QueueConf conf; cc_queue_conf_init(&conf);
        conf.capacity = kv_u64(c, "cap", conf.capacity);
        conf.mem_alloc = conf_malloc; conf.mem_calloc = conf_calloc; conf.mem_free = conf_free;
        CC_Queue *q = NULL;
        st = cc_queue_new_conf(&conf, &q);
        Q[k] = st == CC_OK ? q : NULL;
        o_stat(st);
    } else if (is_op(c, "new_default")) {
        if (!strcmp(kv_str(c, "obs", ""), "sparse")) { sparse = 1; sweep_now = false; }
        if (!strcmp(kv_str(c, "phys", ""), "quiet")) { quiet = 1; dump_now = false; }
        if (Q[k]) { o("st=- busy"); o_sep(); o("-"); return; }
        CC_Queue *q = NULL; st = cc_queue_new(&q); Q[k] = st == CC_OK ? q : NULL; o_stat(st);
    } else if (is_op(c, "destroy")) {
        for (int i = 0; i < NSLOT; i++) if (Q[i]) { cc_queue_destroy(Q[i]); Q[i] = NULL; }
        it_slot = zit_a = zit_b = -1; o("st=-");
    } else if (is_op(c, "zit_new")) {
        int k2 = (int)kv_u64(c, "o2", 1);
        if (k2 < 0 || k2 >= NSLOT || !Q[k] || !Q[k2]) { o("st=- nosession"); o_sep(); o("-"); return; }
        cc_queue_zip_iter_init(&zit, Q[k], Q[k2]); zit_a = k; zit_b = k2; o("st=-");
    } else if (!strncmp(c->op, "zit_", 4)) {
        if (zit_a < 0) { o("st=- nosession"); o_sep(); o("-"); return; }
        void *o1 = PTR(777777), *o2 = PTR(777777);
        if (is_op(c, "zit_next")) {
            st = cc_queue_zip_iter_next(&zit, &o1, &o2); o_stat(st);
            if (st == CC_OK) o(" out=%llu out2=%llu", VAL(o1), VAL(o2));
        } else if (is_op(c, "zit_replace")) {
            st = cc_queue_zip_iter_replace(&zit, PTR(a0), PTR(a1), noout ? NULL : &o1, noout ? NULL : &o2); o_stat(st);
            if (st == CC_OK && !noout) o(" out=%llu out2=%llu", VAL(o1), VAL(o2));
        } else o("st=- badop");
    } else if (!strncmp(c->op, "it_", 3) && !is_op(c, "it_new")) {
        if (it_slot < 0) { o("st=- nosession"); o_sep(); o("-"); return; }
        if (is_op(c, "it_next")) { st = cc_queue_iter_next(&it, &out); o_out(st, out); }
        else if (is_op(c, "it_sweep")) {   /* `it_sweep n=<k>`: k x iter_next, stops at the end: count + checksum of the values */
            uint64_t cnt = kv_u64(c, "n", 1), got = 0, h = 0xcbf29ce484222325ULL; st = CC_OK;
            for (uint64_t i = 0; i < cnt; i++) { st = cc_queue_iter_next(&it, &out); if (st != CC_OK) break; got++; h = (h ^ (uint64_t)VAL(out)) * 0x100000001b3ULL; }
            o_stat(st); o(" out=%llu sum=%llu", (unsigned long long)got, (unsigned long long)h);
        }
        else if (is_op(c, "it_replace")) { st = cc_queue_iter_replace(&it, PTR(a0), noout ? NULL : &out); if (noout) o_stat(st); else o_out(st, out); }
        else o("st=- badop");
    } else if (!Q[k]) { o("st=- nosession"); o_sep(); o("-"); return;
    } else if (is_op(c, "it_new")) { cc_queue_iter_init(&it, Q[k]); it_slot = k; o("st=-");
    } else if (is_op(c, "destroy_cb")) {
        cc_queue_destroy_cb(Q[k], cb_rec); Q[k] = NULL;
        if (it_slot == k) it_slot = -1;
        if (zit_a == k || zit_b == k) zit_a = zit_b = -1;
        o("st=- "); o_cb();
    } else if (is_op(c, "enqueue")) { st = cc_queue_enqueue(Q[k], PTR(a0)); o_stat(st);
    } else if (is_op(c, "fill")) {
        /* `fill n=<count> seed=<s>`: count x enqueue of (i * 7919 + s * 104729) % 1000003, i = 0.., stops at the first failure */
        uint64_t cnt = kv_u64(c, "n", 0), sd = kv_u64(c, "seed", 1); st = CC_OK;
        for (uint64_t i = 0; i < cnt && st == CC_OK; i++) st = cc_queue_enqueue(Q[k], PTR((i * 7919ULL + sd * 104729ULL) % 1000003ULL));
        o_stat(st);
    } else if (is_op(c, "poll")) { st = cc_queue_poll(Q[k], noout ? NULL : &out); if (noout) o_stat(st); else o_out(st, out);
    } else if (is_op(c, "peek")) { st = cc_queue_peek(Q[k], &out); o_out(st, out);
    } else if (is_op(c, "size")) { o("st=- out=%zu", cc_queue_size(Q[k]));
    } else if (is_op(c, "foreach")) { cc_queue_foreach(Q[k], cb_rec); o("st=- "); o_cb();
    } else { o("st=- badop"); }
    if (sweep_now) obs_all();
    o_sep(); phys_all();
}
