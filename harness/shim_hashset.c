/* correspondence shim for src/cc_hashset.c (one translation unit with cc_hashtable.c, which needs cc_array.c).
 * The key/hash section is the same as in shim_hashtable.c (kept in both files so that the harness
 * cache key, which hashes the shim file, sees every change). */
#include "cc_common.c"
#include "cc_array.c"
#undef DEFAULT_CAPACITY
#undef DEFAULT_EXPANSION_FACTOR
#include "cc_hashtable.h"
/* FINDING (reported, see notes): the block loop of cc_hashtable_hash (MurmurHash3) loads the key through a
 * `const uint32_t *`; for a fixed-length key of >= 4 bytes whose buffer is not 4-byte aligned that is a misaligned
 * load (undefined behaviour; -fsanitize=alignment: "load of misaligned address … for type 'const uint32_t'").
 * Key buffers are presented at every offset 0..7 (keys=buf), so the alignment check is switched off for this one
 * function — everything else (bounds, the value of the hash) stays checked.  Delete the next line to see the report. */
size_t cc_hashtable_hash(const void *key, int len, uint32_t seed) __attribute__((no_sanitize("alignment")));
#include "cc_hashtable.c"
#include "cc_hashset.c"
#include "common.h"

/* ------------------------------------------------------------------ keys
 * protocol keys are integers, 0 = the NULL key.  Key kinds (chosen by hash=…):
 *   const/low/mul/id/lib_ptr : the key IS the pointer value PTR(k), compared by value
 *   lib_str                  : interned decimal string of k, compared with cc_common_cmp_str
 *   lib_gen                  : interned klen-byte little-endian image of k, compared with memcmp
 *                              (bytes 0..7 = k little-endian, byte b >= 8 = byte (b % 8) of k XOR (b*157+11))
 * With `keys=buf` (string / byte keys only) keys are real buffers: every call receives a *fresh copy* of
 * the key's bytes in a block obtained from the REAL malloc (outside the ledgers) of exactly `off + length`
 * bytes with the key at offset `off` in 0..7 — so the key ENDS at the end of its allocation (any read past
 * the key hits the sanitizer's red zone) and equal keys arrive at different alignments from call to call.
 * Look-up keys live in a ring of 64 blocks (freed on reuse); inserted keys stay valid for the history
 * (freed at the next `reset`).  An equal key never arrives as the stored pointer, so only the comparator
 * (strcmp / memcmp over key_length bytes, klen = 8 = sizeof(void*) included) can find it. */
enum { K_PTR, K_STR, K_BYTES };
static int key_kind = K_PTR, key_len_bytes = 4;
#define NINTERN 8192
static uint64_t intern_val[NINTERN]; static size_t n_intern;
static char intern_str[NINTERN][24];
#define KEYIMG 48
static _Alignas(16) unsigned char intern_bytes[NINTERN][KEYIMG];
static size_t intern(uint64_t k) {
    for (size_t i = 0; i < n_intern; i++) if (intern_val[i] == k) return i;
    if (n_intern >= NINTERN) { fprintf(stderr, "intern table full\n"); exit(3); }
    size_t i = n_intern++;
    intern_val[i] = k;
    snprintf(intern_str[i], sizeof intern_str[i], "%" PRIu64, k);
    for (int b = 0; b < 8; b++) intern_bytes[i][b] = (unsigned char)(k >> (8 * b));
    for (int b = 8; b < KEYIMG; b++) intern_bytes[i][b] = (unsigned char)((k >> (8 * (b % 8))) ^ (unsigned)(b * 157 + 11));
    return i;
}
static int key_fresh;                       /* keys=buf */
static int sparse;                          /* obs=sparse: content is observed only by the `observe` op */
static int model_off;                       /* model=off: a history too large for the Lean models (they answer `M ?`) */
static int phys_sum, phys_full;             /* phys=sum: the chains are printed as two checksums, in full only on `observe` */
#define NSCRATCH 64
#define NARENA (1 << 15)
static unsigned char *scratch_blk[NSCRATCH]; static size_t scratch_i;
static unsigned char *arena_blk[NARENA]; static size_t arena_i;
static void *interned_key(uint64_t k) {
    if (key_kind == K_STR) return intern_str[intern(k)];
    if (key_kind == K_BYTES) return intern_bytes[intern(k)];
    return PTR(k);
}
/* exact-size block from the real allocator: `off` filler bytes, then the key, then the end of the block */
static unsigned char *key_block(uint64_t k, size_t off, unsigned char fill, unsigned char **blk) {
    size_t len = key_kind == K_STR ? strlen(intern_str[intern(k)]) + 1 : (size_t)key_len_bytes;
    unsigned char *b = __real_malloc(off + len);
    if (!b) { fprintf(stderr, "key block: out of memory\n"); exit(3); }
    memset(b, fill, off);
    memcpy(b + off, interned_key(k), len);
    *blk = b;
    return b + off;
}
static void keys_release(void) {
    for (size_t i = 0; i < NSCRATCH; i++) if (scratch_blk[i]) { __real_free(scratch_blk[i]); scratch_blk[i] = NULL; }
    for (size_t i = 0; i < arena_i; i++) if (arena_blk[i]) { __real_free(arena_blk[i]); arena_blk[i] = NULL; }
    arena_i = 0;
}
/* key for a look-up / removal / membership test: never the pointer the table stores */
static void *mkkey(uint64_t k) {
    if (k == 0) return NULL;
    if (!key_fresh || key_kind == K_PTR) return interned_key(k);
    size_t s = scratch_i++ % NSCRATCH;
    if (scratch_blk[s]) __real_free(scratch_blk[s]);
    return key_block(k, (scratch_i * 3 + 1) % 8, (unsigned char)(scratch_i * 37 + 1), &scratch_blk[s]);
}
/* key for an insertion (the table may keep the pointer): a new block that stays valid for the history */
static void *mkkey_stored(uint64_t k) {
    if (k == 0) return NULL;
    if (!key_fresh || key_kind == K_PTR) return interned_key(k);
    if (arena_i >= NARENA) { fprintf(stderr, "key arena full\n"); exit(3); }
    size_t s = arena_i++;
    return key_block(k, (s * 5 + 2) % 8, (unsigned char)(s * 29 + 3), &arena_blk[s]);
}
static unsigned long long keyval(const void *p) {
    if (!p) return 0;
    if (key_kind == K_STR) return strtoull((const char *)p, NULL, 10);
    if (key_kind == K_BYTES) { unsigned long long v = 0; const unsigned char *b = p;
        for (int i = 0; i < 8 && i < key_len_bytes; i++) v |= (unsigned long long)b[i] << (8 * i); return v; }
    return VAL(p);
}
static int cmp_ptrval(const void *a, const void *b) { return (uintptr_t)a < (uintptr_t)b ? -1 : (uintptr_t)a > (uintptr_t)b; }
static int cmp_bytes(const void *a, const void *b) { return memcmp(a, b, (size_t)key_len_bytes); }
/* harness hash functions (the Lean driver implements the same) */
static size_t h_const(const void *k, int l, uint32_t s) { (void)k; (void)l; (void)s; return 7; }
static size_t h_low(const void *k, int l, uint32_t s) { (void)l; (void)s; return (size_t)((uintptr_t)k & 1); }
static size_t h_mul(const void *k, int l, uint32_t s) { (void)l; (void)s; return (size_t)(((uint64_t)(uintptr_t)k * 2654435761ULL) & 0xffffffffULL); }
static size_t h_id(const void *k, int l, uint32_t s) { (void)l; (void)s; return (size_t)(uintptr_t)k; }

static void conf_from_cmd(Cmd *c, CC_HashTableConf *conf) {
    cc_hashtable_conf_init(conf);
    conf->initial_capacity = kv_u64(c, "cap", 16);
    conf->load_factor = strtof(kv_str(c, "lf", "0.75"), NULL);
    conf->hash_seed = (uint32_t)kv_u64(c, "seed", 0);
    const char *h = kv_str(c, "hash", "id");
    key_kind = K_PTR; conf->key_compare = cmp_ptrval; conf->key_length = KEY_LENGTH_POINTER;
    if (!strcmp(h, "const")) conf->hash = h_const;
    else if (!strcmp(h, "low")) conf->hash = h_low;
    else if (!strcmp(h, "mul")) conf->hash = h_mul;
    else if (!strcmp(h, "lib_ptr")) conf->hash = POINTER_HASH;
    else if (!strcmp(h, "lib_str")) { conf->hash = STRING_HASH; key_kind = K_STR; conf->key_compare = cc_common_cmp_str; conf->key_length = KEY_LENGTH_VARIABLE; }
    else if (!strcmp(h, "lib_gen")) { conf->hash = GENERAL_HASH; key_kind = K_BYTES; key_len_bytes = (int)kv_u64(c, "klen", 4);
        conf->key_compare = cmp_bytes; conf->key_length = key_len_bytes; }
    else conf->hash = h_id;
    key_fresh = !strcmp(kv_str(c, "keys", "id"), "buf");
    sparse = !strcmp(kv_str(c, "obs", "full"), "sparse"); phys_sum = !strcmp(kv_str(c, "phys", "full"), "sum"); model_off = !strcmp(kv_str(c, "model", "on"), "off");
    conf->mem_alloc = conf_malloc; conf->mem_calloc = conf_calloc; conf->mem_free = conf_free;
}

/* ------------------------------------------------------------------ session */
static CC_HashSet *hs;
static CC_HashSetIter it; static int it_valid;
#define NUNIV (1u << 17)
static uint64_t universe[NUNIV]; static size_t n_univ;
static uint64_t univ_tab[NUNIV * 2]; static unsigned char univ_used[NUNIV * 2]; static uint32_t univ_slots[NUNIV];

static unsigned long long ord_log[4096]; static size_t ord_n; static int ord_on;
static int load_bound_broken; /* C20: size > threshold right after a successful insertion */
static char extra_phys[64]; /* out-value of remove/iter_remove: the table's dummy value, judged at L3 only */
static void eids_reset(void);
static void shim_reset(void) { eids_reset(); keys_release(); sparse = 0; phys_sum = 0; hs = NULL; it_valid = 0; model_off = 0; for (size_t i = 0; i < n_univ; i++) univ_used[univ_slots[i]] = 0; n_univ = 0; }
static void univ_add(uint64_t k) {
    size_t j = (size_t)((k * 0x9E3779B97F4A7C15ULL) >> 46) & (NUNIV * 2 - 1);
    while (univ_used[j]) { if (univ_tab[j] == k) return; j = (j + 1) & (NUNIV * 2 - 1); }
    if (n_univ >= NUNIV) { fprintf(stderr, "key universe full\n"); exit(3); }
    univ_used[j] = 1; univ_tab[j] = k; univ_slots[n_univ] = (uint32_t)j; universe[n_univ++] = k;
}
static int cmp_u64(const void *a, const void *b) { uint64_t x = *(const uint64_t *)a, y = *(const uint64_t *)b; return x < y ? -1 : x > y; }
static void cb_key(const void *k) { if (ord_n < 4096) ord_log[ord_n++] = keyval(k); }
static void o_sorted(const char *name, unsigned long long *v, size_t n) {
    uint64_t *t = __real_malloc(sizeof(uint64_t) * (n ? n : 1));
    for (size_t i = 0; i < n; i++) t[i] = v[i];
    qsort(t, n, sizeof(uint64_t), cmp_u64);
    O_LIST(name); for (size_t i = 0; i < n; i++) o_item(t[i]); o_end();
    __real_free(t);
}
/* content through the public API: contains over every element this history ever added,
 * cross-checked against a private iterator */
static void obs_abs(void) {
    if (!hs) { o("size=- elems=[]"); return; }
    qsort(universe, n_univ, sizeof(uint64_t), cmp_u64);
    size_t cnt = 0;
    o("size=%zu ", cc_hashset_size(hs));
    if (cc_hashset_capacity(hs) != hs->table->capacity) o("WALK=capacity-accessor ");
    O_LIST("elems");
    for (size_t i = 0; i < n_univ; i++) if (cc_hashset_contains(hs, mkkey(universe[i]))) { o_item(universe[i]); cnt++; }
    o_end();
    if (cnt != cc_hashset_size(hs)) o(" WALK=size-vs-contains");
    CC_HashSetIter li; cc_hashset_iter_init(&li, hs); void *e; size_t n = 0;
    while (cc_hashset_iter_next(&li, &e) != CC_ITER_END) {
        n++; if (n > cnt + 4) break;
        if (!cc_hashset_contains(hs, e)) { o(" WALK=iter-vs-contains"); break; }
    }
    if (n != cnt) o(" WALK=iter-count");
}
static const char *ptr_name(TableEntry *p, char *buf) {
    CC_HashTable *ht = hs->table;
    if (!p) return "-";
    for (size_t i = 0; i < ht->capacity; i++) for (TableEntry *e = ht->buckets[i]; e; e = e->next)
        if (e == p) { snprintf(buf, 32, "%llu", keyval(e->key)); return buf; }
    return "x";
}

/* ---- entry ids in allocation order: an entry gets the next serial number when it is first seen by this walk (at
   most one entry is allocated per operation and every operation is followed by the walk); an entry that has left
   the table loses its id, so an address the allocator hands out again gets a fresh serial -- exactly the ids of the
   pointer-level model (Model/PHash.lean).  `pe=[bucket:id:key:next,...]` prints every chain with its raw links. */
#define NEIDS (1u << 17)
static struct { TableEntry *p; unsigned long id; unsigned long gen; } eids[NEIDS];
static uint32_t eids_slots[NEIDS / 2 + 8]; static size_t eids_used;
static unsigned long eid_next, eid_gen = 1;
static void eids_reset(void) {
    for (size_t i = 0; i < eids_used; i++) eids[eids_slots[i]].p = NULL;
    eids_used = 0; eid_next = 0; eid_gen = 1;
}
static size_t eid_slot(TableEntry *p) {
    size_t i = (size_t)((((uintptr_t)p >> 4) * 2654435761ULL) & (NEIDS - 1));
    while (eids[i].p && eids[i].p != p) i = (i + 1) & (NEIDS - 1);
    return i;
}
static void eids_scan(CC_HashTable *t) {
    if (eids_used > NEIDS / 2 - 4096) {      /* drop the slots of entries that left the table */
        size_t n = 0; TableEntry **ps = __real_malloc(sizeof *ps * eids_used); unsigned long *ids = __real_malloc(sizeof *ids * eids_used);
        for (size_t i = 0; i < eids_used; i++) { size_t j = eids_slots[i]; if (eids[j].gen == eid_gen) { ps[n] = eids[j].p; ids[n] = eids[j].id; n++; } eids[j].p = NULL; }
        eids_used = 0;
        for (size_t i = 0; i < n; i++) { size_t j = eid_slot(ps[i]); eids[j].p = ps[i]; eids[j].id = ids[i]; eids[j].gen = eid_gen; eids_slots[eids_used++] = (uint32_t)j; }
        __real_free(ps); __real_free(ids);
        if (eids_used > NEIDS / 2 - 4096) { fprintf(stderr, "entry id table full\n"); exit(3); }
    }
    unsigned long prev = eid_gen; eid_gen++;
    for (size_t i = 0; i < t->capacity; i++) for (TableEntry *e = t->buckets[i]; e; e = e->next) {
        size_t j = eid_slot(e);
        if (!eids[j].p) { eids[j].p = e; eids[j].id = eid_next++; eids_slots[eids_used++] = (uint32_t)j; }
        else if (eids[j].gen != prev) eids[j].id = eid_next++;   /* the address was free in between: a new entry */
        eids[j].gen = eid_gen;
    }
}
static int eid_of(TableEntry *p, unsigned long *id) {
    size_t j = eid_slot(p);
    if (eids[j].p == p && eids[j].gen == eid_gen) { *id = eids[j].id; return 1; }
    return 0;
}
static void o_eid(TableEntry *p) {
    unsigned long id;
    if (!p) { o("-"); return; }
    if (eid_of(p, &id)) o("%lu", id); else o("x");
}
/* phys=sum */ /* (declared above) */ //: chains are printed as two checksums except on `observe` */
#define SUM0 14695981039346656037ULL
#define SUMSTEP(h, x) ((h) = ((h) ^ (unsigned long long)(x)) * 1099511628211ULL)
static void o_pentries(CC_HashTable *t) {
    eids_scan(t);
    if (phys_sum && (!phys_full || model_off)) {
        unsigned long long h = SUM0;
        for (size_t i = 0; i < t->capacity; i++) for (TableEntry *e = t->buckets[i]; e; e = e->next) {
            unsigned long id = 0, nid = 0; eid_of(e, &id);
            SUMSTEP(h, i); SUMSTEP(h, id); SUMSTEP(h, keyval(e->key));
            if (e->next && eid_of(e->next, &nid)) SUMSTEP(h, nid); else SUMSTEP(h, 0xffffffffffffffffULL);
        }
        o(" psum=%llx", h); return;
    }
    o(" pe=["); int first = 1;
    for (size_t i = 0; i < t->capacity; i++) for (TableEntry *e = t->buckets[i]; e; e = e->next) {
        o(first ? "%zu:" : ",%zu:", i); first = 0; o_eid(e); o(":%llu:", keyval(e->key)); o_eid(e->next);
    }
    o("]");
}

static void phys(void) {
    if (!hs) { o("-"); return; }
    CC_HashTable *ht = hs->table;
    o("cap=%zu size=%zu thr=%zu ", ht->capacity, ht->size, ht->threshold);
    if (model_off && !phys_full) return;      /* chains are walked (checksums, walkers) on `observe` only */
    size_t total = 0;
    if (phys_sum && (!phys_full || model_off)) {
        unsigned long long h = SUM0;
        for (size_t i = 0; i < ht->capacity; i++) for (TableEntry *e = ht->buckets[i]; e; e = e->next) {
            SUMSTEP(h, i); SUMSTEP(h, keyval(e->key)); SUMSTEP(h, VAL(e->value)); SUMSTEP(h, e->hash); total++; }
        o("sum=%llx", h);
    } else {
    O_LIST("ents");
    for (size_t i = 0; i < ht->capacity; i++) for (TableEntry *e = ht->buckets[i]; e; e = e->next) {
        o(o_first ? "%zu:%llu:%llu:%zu" : ",%zu:%llu:%llu:%zu", i, keyval(e->key), VAL(e->value), e->hash); o_first = 0; total++;
    }
    o_end();
    }
    if (it_valid) { char b1[32], b2[32]; o(" it=%zu/%s/%s", it.iter.bucket_index, ptr_name(it.iter.prev_entry, b1), ptr_name(it.iter.next_entry, b2)); }
    o_pentries(ht);
    if (it_valid) { o(" pit=%zu/", it.iter.bucket_index); o_eid(it.iter.prev_entry); o("/"); o_eid(it.iter.next_entry); }
    if (ord_on) { o(" "); O_LIST("ord"); for (size_t i = 0; i < ord_n; i++) o_item(ord_log[i]); o_end(); }
    o("%s", extra_phys);
    /* L2 walkers */
    if (load_bound_broken) o(" WALK=load-bound-after-insert");
    if (total != ht->size) o(" WALK=chain-lengths-vs-size");
    if (ht->capacity == 0 || (ht->capacity & (ht->capacity - 1))) o(" WALK=capacity-not-pow2");
    if (block_size(ht->buckets) < ht->capacity * sizeof(TableEntry *)) o(" WALK=bucket-block-too-small");
    if (block_size(hs) < sizeof(CC_HashSet)) o(" WALK=set-block-too-small");
    for (size_t i = 0; i < ht->capacity; i++) for (TableEntry *e = ht->buckets[i]; e; e = e->next) {
        if ((e->hash & (ht->capacity - 1)) != i) { o(" WALK=entry-in-wrong-bucket"); return; }
        if (e->key ? e->hash != ht->hash(e->key, ht->key_len, ht->hash_seed) : (e->hash != 0 || i != 0)) { o(" WALK=cached-hash-stale"); return; }
        if (e->value != (void *)hs->dummy) { o(" WALK=value-not-dummy"); return; }
        if ((!phys_sum || phys_full) && !model_off && block_size(e) < sizeof(TableEntry)) { o(" WALK=entry-block-too-small"); return; }
    }
}
/* a live iterator session survives direct calls on the table as far as the C code stays inside live memory: get /
 * contains_key always; add unless it rehashes (entries are only relinked, but which of them the iterator still
 * visits is unspecified); remove unless it frees the entry `prev_entry` or `next_entry` points to (iter_next /
 * iter_remove would dereference freed memory - outside the contract); remove_all never. */
static int it_names(uint64_t k) {
    TableEntry *p = it.iter.prev_entry, *n = it.iter.next_entry;
    return (p && keyval(p->key) == k) || (n && keyval(n->key) == k);
}
static void do_op(Cmd *c) {
    phys_full = is_op(c, "observe"); ord_on = 0; ord_n = 0; extra_phys[0] = 0; load_bound_broken = 0;
    if (is_op(c, "new")) {
        CC_HashSetConf conf; conf_from_cmd(c, &conf);
        hs = NULL; it_valid = 0; eids_reset();
        enum cc_stat st = cc_hashset_new_conf(&conf, &hs);
        if (st != CC_OK) hs = NULL;
        o_stat(st); o(" ");
    } else if (is_op(c, "new_default")) {
        hs = NULL; it_valid = 0; eids_reset(); key_kind = K_STR; key_fresh = 0; sparse = !strcmp(kv_str(c, "obs", "full"), "sparse"); phys_sum = !strcmp(kv_str(c, "phys", "full"), "sum");
        enum cc_stat st = cc_hashset_new(&hs); if (st != CC_OK) hs = NULL; o_stat(st); o(" ");
    } else if (!hs) { o("st=- nosession ");
    } else if (is_op(c, "add")) {
        uint64_t k = pos_u64(c, 0); univ_add(k); size_t cap0 = hs->table->capacity;
        enum cc_stat st = cc_hashset_add(hs, mkkey_stored(k)); o_stat(st); o(" ");
        if (hs->table->capacity != cap0) it_valid = 0;      /* a rehash under a live iterator: enumeration unspecified */
        if (st == CC_OK && hs->table->size > hs->table->threshold) load_bound_broken = 1;
    } else if (is_op(c, "contains")) {
        o("st=- out=%d ", (int)cc_hashset_contains(hs, mkkey(pos_u64(c, 0))));
    } else if (is_op(c, "remove")) {
        void *out = PTR(777777); int noout = (int)kv_u64(c, "noout", 0);
        if (it_valid && it_names(pos_u64(c, 0))) it_valid = 0;   /* the entry prev_entry/next_entry points to is about to be freed */
        enum cc_stat st = cc_hashset_remove(hs, mkkey(pos_u64(c, 0)), noout ? NULL : &out);
        o_stat(st); if (st == CC_OK && !noout) snprintf(extra_phys, sizeof extra_phys, " rmout=%llu", VAL(out)); else if (out != PTR(777777)) o(" WALK=out-written"); o(" ");
    } else if (is_op(c, "remove_all")) {
        it_valid = 0; cc_hashset_remove_all(hs); o("st=- ");
    } else if (is_op(c, "foreach")) {
        ord_on = 1; cc_hashset_foreach(hs, cb_key); o("st=- "); o_sorted("cb", ord_log, ord_n); o(" ");
    } else if (is_op(c, "it_new")) {
        cc_hashset_iter_init(&it, hs); it_valid = 1; o("st=- ");
    } else if (is_op(c, "it_next")) {
        if (!it_valid) o("st=- noiter ");
        else { void *e = PTR(777777); int noout = (int)kv_u64(c, "noout", 0);
            enum cc_stat st = cc_hashset_iter_next(&it, noout ? NULL : &e); o_stat(st);
            if (st == CC_OK) { if (!noout) o(" k=%llu", keyval(e)); } o(" "); }
    } else if (is_op(c, "it_remove")) {
        if (!it_valid) o("st=- noiter ");
        else { void *out = PTR(777777); int noout = (int)kv_u64(c, "noout", 0);
            enum cc_stat st = cc_hashset_iter_remove(&it, noout ? NULL : &out);
            o_stat(st); if (st == CC_OK && !noout) snprintf(extra_phys, sizeof extra_phys, " rmout=%llu", VAL(out)); o(" "); }
    } else if (is_op(c, "destroy")) {
        cc_hashset_destroy(hs); hs = NULL; it_valid = 0; o("st=- ");
    } else if (is_op(c, "observe")) { o("st=- ");
    } else { o("st=- badop "); }
    if (!sparse || is_op(c, "observe")) obs_abs();
    o_sep(); phys();
}
