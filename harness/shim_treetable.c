/* correspondence shim for src/cc_treetable.c */
#include "cc_treetable.c"
#include "common.h"
#include "tree_common.h"

static CC_TreeTable *tt;
static CC_TreeTableIter it; static int have_it;
static int sparse;   /* obs=sparse: no content sweep after the operations, only on `observe` */
static void shim_reset(void) { tt = NULL; have_it = 0; cmp_calls = 0; sparse = 0; bufkeys = 0; quiet = 0; walk_blocks = 1; karena_n = 0; ids_reset(); }

/* content through the public API: a fresh iterator (no comparator calls) */
static void obs_abs(void) {
    static unsigned long long ks[4096], vs[4096]; size_t n = 0;
    if (tt) {
        CC_TreeTableIter i; CC_TreeTableEntry e;
        cc_treetable_iter_init(&i, tt);
        while (cc_treetable_iter_next(&i, &e) != CC_ITER_END && n < 4096) { ks[n] = kval(e.key); vs[n] = VAL(e.value); n++; }
    }
    O_LIST("keys"); for (size_t j = 0; j < n; j++) o_item(ks[j]); o_end(); o(" ");
    O_LIST("vals"); for (size_t j = 0; j < n; j++) o_item(vs[j]); o_end();
    o(" size=%zu", tt ? cc_treetable_size(tt) : (size_t)0);
}
static void phys(void) {
    if (!tt) { o("-"); return; }
    phys_tree(tt, have_it ? &it : NULL);
}
static void do_op(Cmd *c) {
    void *out = PTR(777777); enum cc_stat st;
    int noout = (int)kv_u64(c, "noout", 0);
    size_t n0 = tt ? tt->size : 0;
    cmp_calls = 0;
    if (is_op(c, "new") || is_op(c, "new_default")) {
        int which = (int)kv_u64(c, "cmp", 0);
        sparse = !strcmp(kv_str(c, "obs", ""), "sparse"); ids_reset();
        bufkeys = !strcmp(kv_str(c, "keys", ""), "buf"); karena_n = 0;      /* keys=buf: see tree_common.h */
        quiet = !strcmp(kv_str(c, "phys", ""), "quiet"); walk_blocks = !quiet;  /* phys=quiet: checksum instead of the dump */
        tt = NULL; have_it = 0;
        if (is_op(c, "new")) {
            CC_TreeTableConf conf; cc_treetable_conf_init(&conf);
            conf.cmp = pick_cmp(which);
            conf.mem_alloc = conf_malloc; conf.mem_calloc = conf_calloc; conf.mem_free = conf_free;
            st = cc_treetable_new_conf(&conf, &tt);
        } else { st = cc_treetable_new(pick_cmp(which), &tt); }
        if (st != CC_OK) tt = NULL;
        o_stat(st); o(" ");
    } else if (!tt) { o("st=- nosession"); o_sep(); o("-"); return;
    } else if (is_op(c, "add")) {
        st = cc_treetable_add(tt, KEY(pos_u64(c, 0)), PTR(pos_u64(c, 1))); o_stat(st); o(" ");
    } else if (is_op(c, "get")) {
        st = cc_treetable_get(tt, KEY(pos_u64(c, 0)), &out); o_stat(st); if (st == CC_OK) o(" out=%llu", VAL(out)); o(" ");
    } else if (is_op(c, "contains_key")) {
        bool b = cc_treetable_contains_key(tt, KEY(pos_u64(c, 0))); o("st=- out=%d ", (int)b);
    } else if (is_op(c, "contains_value")) {
        size_t k = cc_treetable_contains_value(tt, PTR(pos_u64(c, 0))); o("st=- out=%zu ", k);
    } else if (is_op(c, "remove")) {
        st = cc_treetable_remove(tt, KEY(pos_u64(c, 0)), noout ? NULL : &out); o_stat(st);
        if (st == CC_OK && !noout) o(" out=%llu", VAL(out)); o(" ");
    } else if (is_op(c, "remove_first")) {
        st = cc_treetable_remove_first(tt, noout ? NULL : &out); o_stat(st);
        if (st == CC_OK && !noout) o(" out=%llu", VAL(out)); o(" ");
    } else if (is_op(c, "remove_last")) {
        st = cc_treetable_remove_last(tt, noout ? NULL : &out); o_stat(st);
        if (st == CC_OK && !noout) o(" out=%llu", VAL(out)); o(" ");
    } else if (is_op(c, "remove_all")) {
        cc_treetable_remove_all(tt); o("st=- ");
    } else if (is_op(c, "first_key")) {
        st = cc_treetable_get_first_key(tt, &out); o_stat(st); if (st == CC_OK) o(" out=%llu", kval(out)); o(" ");
    } else if (is_op(c, "last_key")) {
        st = cc_treetable_get_last_key(tt, &out); o_stat(st); if (st == CC_OK) o(" out=%llu", kval(out)); o(" ");
    } else if (is_op(c, "first_value")) {
        st = cc_treetable_get_first_value(tt, &out); o_stat(st); if (st == CC_OK) o(" out=%llu", VAL(out)); o(" ");
    } else if (is_op(c, "last_value")) {
        st = cc_treetable_get_last_value(tt, &out); o_stat(st); if (st == CC_OK) o(" out=%llu", VAL(out)); o(" ");
    } else if (is_op(c, "greater_than")) {
        st = cc_treetable_get_greater_than(tt, KEY(pos_u64(c, 0)), &out); o_stat(st); if (st == CC_OK) o(" out=%llu", kval(out)); o(" ");
    } else if (is_op(c, "lesser_than")) {
        st = cc_treetable_get_lesser_than(tt, KEY(pos_u64(c, 0)), &out); o_stat(st); if (st == CC_OK) o(" out=%llu", kval(out)); o(" ");
    } else if (is_op(c, "size")) {
        o("st=- out=%zu ", cc_treetable_size(tt));
    } else if (is_op(c, "foreach_key")) {
        cc_treetable_foreach_key(tt, cb_key); o("st=- "); o_cb(); o(" ");
    } else if (is_op(c, "foreach_value")) {
        cc_treetable_foreach_value(tt, cb_record); o("st=- "); o_cb(); o(" ");
    } else if (is_op(c, "it_new")) {
        cc_treetable_iter_init(&it, tt); have_it = 1; o("st=- ");
    } else if (is_op(c, "it_drop")) {
        have_it = 0; o("st=- ");
    } else if (is_op(c, "it_next")) {
        if (!have_it) o("st=- noiter ");
        else { CC_TreeTableEntry e = { PTR(777777), PTR(777777) };
            st = cc_treetable_iter_next(&it, &e); o_stat(st);
            if (st == CC_OK) o(" k=%llu out=%llu", kval(e.key), VAL(e.value)); o(" "); }
    } else if (is_op(c, "it_remove")) {
        if (!have_it || it.current == tt->sentinel) o("st=- noiter ");   /* precondition: after a next */
        else { st = cc_treetable_iter_remove(&it, noout ? NULL : &out); o_stat(st);
            if (st == CC_OK && !noout) o(" out=%llu", VAL(out)); o(" "); }
    } else if (is_op(c, "observe")) {
        o("st=- "); obs_abs(); o_sep(); walk_blocks = 1; phys(); walk_blocks = !quiet; return;
    } else if (is_op(c, "destroy")) {
        cc_treetable_destroy(tt); tt = NULL; have_it = 0; o("st=- ");
    } else { o("st=- badop "); }
    size_t calls = cmp_calls;
    if (!sparse) obs_abs();
    if (calls > cmp_bound(n0)) o(" WALK=cmp-bound");
    cmp_calls = calls;
    o_sep(); phys();
}
