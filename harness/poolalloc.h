/* Pool-backed allocator triple for the C14 runs ("a container backed by a sufficiently large static
 * or dynamic pool behaves exactly like the same container on malloc").  Enabled with -DVERIF_WITH_POOL
 * for every harness binary except the pool shims themselves.  `alloc=spool` / `alloc=dpool` on the
 * first `new…` line of a history selects it; the ledger keeps counting blocks as usual. */
#ifndef VERIF_POOLALLOC_H
#define VERIF_POOLALLOC_H
#include "memory/cc_static_pool.c"
#include "memory/cc_dynamic_pool.c"
#define POOL_BYTES (48u << 20)
static int alloc_mode;                 /* 0 malloc, 1 static pool, 2 dynamic pool */
static uint8_t *pool_region, *pool_struct;
static CC_StaticPool *pa_spool;
static CC_DynamicPool *pa_dpool;
static void pool_alloc_reset(void) {
    if (pa_dpool) { cc_dynamic_pool_destroy(pa_dpool); pa_dpool = NULL; }
    pa_spool = NULL; alloc_mode = 0;
}
static void pool_alloc_select(const char *m) {
    if (!m || alloc_mode) return;
    if (!strcmp(m, "spool")) {
        if (!pool_region) { pool_region = __real_malloc(POOL_BYTES); pool_struct = __real_malloc(cc_static_pool_struct_size() + 64); }
        cc_static_pool_new(POOL_BYTES, 0, pool_region, pool_struct, &pa_spool);
        alloc_mode = 1;
    } else if (!strcmp(m, "dpool")) {
        CC_DynamicPoolConf c; cc_dynamic_pool_conf_init(&c);
        c.is_fixed = false; c.exp_factor = 2.0f; c.is_packed = true;
        c.mem_alloc = __real_malloc; c.mem_calloc = __real_calloc; c.mem_free = __real_free;
        if (cc_dynamic_pool_new_conf(1u << 16, &c, &pa_dpool) == CC_OK) alloc_mode = 2;
    }
}
static bool pool_owns(void *p) {
    if (alloc_mode == 1) return (uint8_t *)p >= pool_region && (uint8_t *)p < pool_region + POOL_BYTES;
    return alloc_mode == 2;
}
/* sizes are rounded up to 16 so that every block stays 16-byte aligned like malloc's */
static void *pool_alloc_bytes(size_t n, bool zero) {
    size_t r = (n + 15) & ~(size_t)15; if (!r) r = 16;
    void *p = alloc_mode == 1 ? cc_static_pool_malloc(r, pa_spool) : cc_dynamic_pool_malloc(r, pa_dpool);
    if (p && zero) memset(p, 0, r);
    return p;
}
#endif
