/* correspondence shim for src/cc_pqueue.c
 *
 * Comparators: cmp=num (numeric order of the element values) and cmp=mod (order of v % 10: a
 * non-injective total preorder, ties between distinguishable elements).  Since ties may be broken
 * arbitrarily, the obs section only carries tie-invariant observations: the *key* of the element
 * returned by top/pop and the keys of the content in pop order (obtained through the public API
 * by popping everything from a byte copy of the object).  The exact element goes to phys. */
#include "cc_pqueue.c"
#include "common.h"

static CC_PQueue *pq;
static int cmp_mode;   /* 0 = numeric, 1 = v % 10, 2 = clamped 64-bit difference */
static int sparse;     /* obs=sparse: no content sweep after an operation, only on `observe` */
static int quiet;      /* phys=quiet: the buffer is printed as a checksum (FNV-1a 64 of the list text), the full dump on `observe` */
static int observing;
static void shim_reset(void) { pq = NULL; cmp_mode = 0; sparse = 0; quiet = 0; }

static unsigned long long key_of(unsigned long long v) { return cmp_mode == 1 ? v % 10 : v; }
static int cmp_fn(const void *a, const void *b) {
    unsigned long long ka = key_of(VAL(a)), kb = key_of(VAL(b));
    if (cmp_mode == 2) {   /* the 64-bit difference without wrap-around, clamped to the range of int */
        if (ka >= kb) return ka - kb > 2147483647ULL ? 2147483647 : (int)(ka - kb);
        return kb - ka > 2147483648ULL ? (-2147483647 - 1) : -(int)(kb - ka - 1) - 1;
    }
    return verif_mag(ka > kb ? 1 : ka < kb ? -1 : 0);      /* deliberately not -1/0/1: magnitude varies call by call */
}

static void obs_sweep(void) {
    O_LIST("abs");
    if (pq) {
        CC_PQueue copy = *pq;
        void **b = __real_malloc(sizeof(void *) * (pq->capacity ? pq->capacity : 1));
        memcpy(b, pq->buffer, sizeof(void *) * pq->size);
        copy.buffer = b;
        void *v;
        while (cc_pqueue_pop(&copy, &v) == CC_OK) o_item(key_of(VAL(v)));
        __real_free(b);
    }
    o_end();
}
static void obs_abs(void) { if (!sparse) obs_sweep(); }
static int have_out; static unsigned long long out_val;
static void phys(void) {
    if (!pq) { o("-"); return; }
    o("size=%zu cap=%zu ", pq->size, pq->capacity);
    if (quiet && !observing) {
        unsigned long long h = 14695981039346656037ULL; char t[24];
        for (size_t i = 0; i < pq->size; i++) {
            int k = snprintf(t, sizeof t, i ? ",%llu" : "%llu", VAL(pq->buffer[i]));
            for (int j = 0; j < k; j++) { h ^= (unsigned char)t[j]; h *= 1099511628211ULL; }
        }
        o("buf=#%llu", h);
    } else {
        /* in a quiet session the dump printed by `observe` has its own key: the runner's multiset hook
           follows `buf=[...]` from one operation to the next and must not compare dumps that are
           hundreds of operations apart */
        O_LIST(quiet ? "bufdump" : "buf"); for (size_t i = 0; i < pq->size; i++) o_item(VAL(pq->buffer[i])); o_end();
    }
    if (have_out) o(" out=%llu", out_val);
    /* L2 walkers */
    if (block_size(pq->buffer) < pq->capacity * sizeof(void *)) o(" WALK=buf-block-too-small");
    if (pq->size > pq->capacity) o(" WALK=size-exceeds-capacity");
    for (size_t i = 1; i < pq->size; i++)
        if (cmp_fn(pq->buffer[(i - 1) / 2], pq->buffer[i]) < 0) { o(" WALK=heap-order-broken-at-%zu", i); break; }
    if (cc_pqueue_struct_size() != sizeof(CC_PQueue)) o(" WALK=struct-size");
}
static int cmp_u64_desc(const void *a, const void *b) {
    unsigned long long x = *(const unsigned long long *)a, y = *(const unsigned long long *)b;
    return x < y ? 1 : x > y ? -1 : 0;
}
static void do_op(Cmd *c) {
    have_out = 0;
    if (is_op(c, "new") || is_op(c, "new_default")) {
        pq = NULL;
        cmp_mode = !strcmp(kv_str(c, "cmp", "num"), "mod") ? 1 : !strcmp(kv_str(c, "cmp", "num"), "diff") ? 2 : 0;
        sparse = !strcmp(kv_str(c, "obs", "full"), "sparse");
        quiet = !strcmp(kv_str(c, "phys", "full"), "quiet");
        enum cc_stat st;
        if (is_op(c, "new")) {
            CC_PQueueConf conf; cc_pqueue_conf_init(&conf, cmp_fn);
            conf.capacity = kv_u64(c, "cap", conf.capacity);
            if (kv_str(c, "exp", NULL)) conf.exp_factor = strtof(kv_str(c, "exp", "2"), NULL);
            conf.mem_alloc = conf_malloc; conf.mem_calloc = conf_calloc; conf.mem_free = conf_free;
            st = cc_pqueue_new_conf(&conf, &pq);
        } else { st = cc_pqueue_new(&pq, cmp_fn); }
        if (st != CC_OK) pq = NULL;
        o_stat(st); o(" ");
    } else if (!pq) { o("st=- nosession"); o_sep(); o("-"); return;
    } else if (is_op(c, "observe")) {
        o("st=- "); obs_sweep(); o_sep(); observing = 1; phys(); observing = 0; return;
    } else if (is_op(c, "push")) {
        enum cc_stat st = cc_pqueue_push(pq, PTR(pos_u64(c, 0)));
        o_stat(st); o(" ");
    } else if (is_op(c, "top")) {
        void *out = PTR(777777); enum cc_stat st = cc_pqueue_top(pq, &out);
        o_stat(st); if (st == CC_OK) { o(" outk=%llu", key_of(VAL(out))); have_out = 1; out_val = VAL(out); } o(" ");
    } else if (is_op(c, "pop")) {
        void *out = PTR(777777); enum cc_stat st;
        if (kv_u64(c, "null", 0)) { st = cc_pqueue_pop(pq, NULL); o_stat(st); o(" "); }
        else {
            st = cc_pqueue_pop(pq, &out);
            o_stat(st); if (st == CC_OK) { o(" outk=%llu", key_of(VAL(out))); have_out = 1; out_val = VAL(out); } o(" ");
        }
    } else if (is_op(c, "destroy") || is_op(c, "destroy_cb")) {
        if (is_op(c, "destroy_cb")) {
            cc_pqueue_destroy_cb(pq, cb_record);
            /* obs: the keys of the visited elements, sorted (tie-invariant); phys: the raw order */
            unsigned long long k[4096]; for (size_t i = 0; i < cb_n; i++) k[i] = key_of(cb_log[i]);
            qsort(k, cb_n, sizeof k[0], cmp_u64_desc);
            o("st=- "); O_LIST("cb"); for (size_t i = 0; i < cb_n; i++) o_item(k[i]); o_end();
            o_sep(); O_LIST("cbraw"); for (size_t i = 0; i < cb_n; i++) o_item(cb_log[i]); o_end();
        } else { cc_pqueue_destroy(pq); o("st=-"); o_sep(); o("-"); }
        pq = NULL; return;
    } else { o("st=- badop "); }
    obs_abs(); o_sep(); phys();
}
