/* correspondence shim for src/memory/cc_dynamic_pool.c
 *
 * Pointers are printed as <page>:<offset>: page = index of the page counted from the oldest (0),
 * offset relative to the page payload (the byte after the PageInfo header).  The allocator triple
 * handed to the pool fills every new block with 0xEE so that page contents are deterministic.
 * Every block handed out is dirtied by the "user" (this shim) with a running non-zero pattern;
 * calloc'ed blocks are first checked to be zero (zero=1).
 *
 * `giant=1` (with phys=quiet): the configured allocator serves requests of 1 GiB and more from
 * reserved address space (mmap PROT_NONE, only the first 4 KiB -- the PageInfo header -- writable), so
 * pages and requests beyond 4 GiB cost nothing; the user then never writes and calloc is not available. */
#include "cc_dynamic_pool.c"
#include "common.h"
#include <sys/mman.h>

#define FRESH 0xEE
#define MAXP 4096
#define MAXPG 256

static CC_DynamicPool *pool;
static struct { uint8_t *p; int pg; } ptrs[MAXP]; static size_t nptrs;   /* every allocation result */
static struct { uint8_t *p; size_t n; int pg; int pat; } shadow[MAXP]; static size_t nshadow;   /* pat < 0: not written */
static size_t pat_counter;
static void check_contents(void);
static size_t first_size;
static int sparse;      /* obs=sparse: used/free are queried only on `observe` */
static int quiet;       /* phys=quiet: no page dumps (pages of many megabytes) */
static int libc_pool;   /* built by cc_dynamic_pool_new: pages come from libc and are not pre-filled */

static int giant;       /* giant=1: blocks >= 1 GiB are reservations, nothing in a page payload is ever touched */
#define GIANT_MIN ((size_t)1 << 30)
#define MAXG 64
static struct { void *p; size_t len; } gmap[MAXG]; static size_t ngmap;

static void *fill_malloc(size_t n) {
    if (giant && n >= GIANT_MIN) {
        if (refuse_now(n)) return NULL;            /* same accounting as conf_malloc: fail= schedule, > 2^40 absurd */
        if (ngmap >= MAXG) { fprintf(stderr, "harness: too many giant blocks\n"); exit(3); }
        size_t len = (n + 4095) & ~(size_t)4095;
        uint8_t *p = mmap(NULL, len, PROT_NONE, MAP_PRIVATE | MAP_ANONYMOUS | MAP_NORESERVE, -1, 0);
        if (p == MAP_FAILED || mprotect(p, 4096, PROT_READ | PROT_WRITE)) { fprintf(stderr, "harness: backing allocator exhausted\n"); exit(3); }
        gmap[ngmap].p = p; gmap[ngmap].len = len; ngmap++;
        ledger_add(&L_conf, p, n);
        return p;
    }
    void *p = conf_malloc(n); if (p) memset(p, FRESH, n); return p;
}
static void *fill_calloc(size_t a, size_t b) { return conf_calloc(a, b); }
static void fill_free(void *p) {
    for (size_t g = 0; g < ngmap; g++)
        if (gmap[g].p == p) {
            int i = ledger_find(&L_conf, p);
            if (i >= 0) { L_conf.b[i] = L_conf.b[--L_conf.cnt]; L_conf.frees++; }
            else { ledger_errors++; snprintf(ledger_msg, sizeof ledger_msg, "conf-free-of-unknown-block"); }
            munmap(gmap[g].p, gmap[g].len); gmap[g] = gmap[--ngmap];
            return;
        }
    conf_free(p);
}

static void forget_session(void) { pool = NULL; nptrs = nshadow = 0; pat_counter = 0; libc_pool = 0; sparse = 0; quiet = 0; giant = 0; }
/* end of a history: reservations that are still live leave the ledger here (the ledger would hand them to free()) */
static void shim_reset(void) {
    forget_session();
    while (ngmap) {
        int i = ledger_find(&L_conf, gmap[ngmap - 1].p);
        if (i >= 0) L_conf.b[i] = L_conf.b[--L_conf.cnt];
        munmap(gmap[ngmap - 1].p, gmap[ngmap - 1].len); ngmap--;
    }
}

/* pages oldest first */
static int page_list(PageInfo **out) {
    int n = 0; PageInfo *tmp[MAXPG];
    for (PageInfo *p = (PageInfo *)pool->page; p && n < MAXPG; p = p->previous) tmp[n++] = p;
    for (int i = 0; i < n; i++) out[i] = tmp[n - 1 - i];
    return n;
}
static uint8_t *payload(PageInfo *p) { return (uint8_t *)p + sizeof(PageInfo); }
static int page_of(uint8_t *q, size_t *off) {
    PageInfo *pg[MAXPG]; int n = page_list(pg);
    for (int i = 0; i < n; i++)
        if (q >= payload(pg[i]) && q <= payload(pg[i]) + pg[i]->size) { *off = (size_t)(q - payload(pg[i])); return i; }
    return -1;
}
static void o_ptr(uint8_t *p) {
    if (!p) { o(" p=NULL"); return; }
    size_t off; int i = page_of(p, &off);
    if (i < 0) o(" p=? WALK=block-in-no-page"); else o(" p=%d:%zu", i, off);
}
static void obs_sweep(void) {
    if (pool) o(" used=%zu free=%zu", cc_dynamic_pool_used_bytes(pool), cc_dynamic_pool_free_bytes(pool));
}
static void obs_abs(void) { if (!sparse) obs_sweep(); }
/* private view of used bytes (no call into the library) for the walkers and the shadow list */
static size_t priv_used(void) {
    size_t t = (size_t)(pool->free_ptr - pool->low_ptr);
    for (PageInfo *p = ((PageInfo *)pool->page)->previous; p; p = p->previous) t += p->size;
    return t;
}
static void phys(void) {
    if (!pool) { o("-"); return; }
    PageInfo *pg[MAXPG]; int n = page_list(pg);
    o("fixed=%d packed=%d ab=%zu tps=%zu free=%zu high=%zu ", (int)pool->is_fixed, (int)pool->is_packed,
      pool->alignment_boundary, pool->top_page_size, (size_t)(pool->free_ptr - pool->low_ptr),
      (size_t)(pool->high_ptr - pool->low_ptr));
    O_LIST("sizes"); for (int i = 0; i < n; i++) o_item(pg[i]->size); o_end();
    if (!libc_pool && !quiet)
        for (int i = 0; i < n; i++) {
            o(" "); char nm[24]; snprintf(nm, sizeof nm, "pg%d", i);
            if (pg[i]->size > 4096) {   /* large page: FNV-1a 64 of the list text instead of the dump */
                unsigned long long h = 14695981039346656037ULL; char t[8];
                for (size_t j = 0; j < pg[i]->size; j++) {
                    int k = snprintf(t, sizeof t, j ? ",%u" : "%u", (unsigned)payload(pg[i])[j]);
                    for (int q = 0; q < k; q++) { h ^= (unsigned char)t[q]; h *= 1099511628211ULL; }
                }
                o("%s=#%llu", nm, h);
            } else { O_LIST(nm); for (size_t j = 0; j < pg[i]->size; j++) o_item(payload(pg[i])[j]); o_end(); }
        }
    /* L2 walkers */
    if (pool->low_ptr != pool->page + sizeof(PageInfo)) o(" WALK=low-ptr-not-top-payload");
    if (pool->top_page_size != ((PageInfo *)pool->page)->size) o(" WALK=top-page-size");
    for (int i = 0; i < n; i++)
        if (block_size(pg[i]) < pg[i]->size + sizeof(PageInfo)) o(" WALK=page-block-too-small");
    if (L_conf.cnt + L_libc.cnt != (size_t)n + 1) o(" WALK=owned-blocks-%zu-pages-%d", L_conf.cnt + L_libc.cnt, n);
    if (pg[0]->size != first_size) o(" WALK=oldest-page-size");
    for (size_t i = 0; i < nshadow; i++) {
        if (shadow[i].pg >= n || shadow[i].p < payload(pg[shadow[i].pg]) ||
            shadow[i].p + shadow[i].n > payload(pg[shadow[i].pg]) + pg[shadow[i].pg]->size) o(" WALK=block-outside-page");
        for (size_t j = 0; j < i; j++)
            if (shadow[i].n && shadow[j].n && shadow[i].p < shadow[j].p + shadow[j].n && shadow[j].p < shadow[i].p + shadow[i].n)
                o(" WALK=blocks-overlap");
        if (!pool->is_packed && pool->alignment_boundary > 0 && shadow[i].pg < n &&
            (size_t)(shadow[i].p - payload(pg[shadow[i].pg])) % pool->alignment_boundary) o(" WALK=block-misaligned");
    }
    if (pool->is_fixed && n != 1) o(" WALK=fixed-pool-grew");
    check_contents();
    if (sizeof(PageInfo) != 16) o(" WALK=pageinfo-size-%zu", sizeof(PageInfo));
    for (int i = 0; i < n; i++) if (pg[i]->size > (size_t)-1 - sizeof(PageInfo)) o(" WALK=page-size-wraps");
}
/* every live block — also those in older pages — still holds the pattern its user wrote: an
 * expansion, a later block, a calloc or a roll-back must not move or touch an earlier block */
static void check_contents(void) {
    for (size_t i = 0; i < nshadow; i++) {
        if (shadow[i].pat < 0) continue;
        for (size_t j = 0; j < shadow[i].n; j++)
            if (shadow[i].p[j] != (uint8_t)shadow[i].pat) { o(" WALK=block-content-changed"); return; }
    }
}
static void handed_out(uint8_t *p, size_t n, size_t used_before, size_t pages_before) {
    check_contents();
    size_t off = 0; int pgi = p ? page_of(p, &off) : -1;
    if (nptrs < MAXP) { ptrs[nptrs].p = p; ptrs[nptrs].pg = pgi; nptrs++; }
    if (!p) {
        PageInfo *pg[MAXPG];
        if (priv_used() != used_before || (size_t)page_list(pg) != pages_before) o(" WALK=null-changed-state");
        return;
    }
    int pat = -1;
    if (pgi >= 0 && !giant) {
        PageInfo *pg[MAXPG]; page_list(pg);
        if (n <= pg[pgi]->size && off <= pg[pgi]->size - n) { pat = (int)(1 + (pat_counter++ % 250)); memset(p, pat, n); }
    }
    if (nshadow < MAXP) { shadow[nshadow].p = p; shadow[nshadow].n = n; shadow[nshadow].pg = pgi; shadow[nshadow].pat = pat; nshadow++; }
}
static size_t npages(void) { PageInfo *pg[MAXPG]; return (size_t)page_list(pg); }

static void do_op(Cmd *c) {
    if (is_op(c, "new") || is_op(c, "new_default")) {
        forget_session();
        size_t size = kv_u64(c, "size", 16);
        int sp = !strcmp(kv_str(c, "obs", "full"), "sparse");
        int qt = !strcmp(kv_str(c, "phys", "full"), "quiet");
        enum cc_stat st;
        giant = is_op(c, "new") && kv_u64(c, "giant", 0); if (giant) qt = 1;
        if (is_op(c, "new")) {
            CC_DynamicPoolConf conf; cc_dynamic_pool_conf_init(&conf);
            conf.is_fixed = kv_u64(c, "fixed", conf.is_fixed);
            conf.is_packed = kv_u64(c, "packed", conf.is_packed);
            conf.alignment_boundary = kv_u64(c, "ab", conf.alignment_boundary);
            if (kv_str(c, "exp", NULL)) conf.exp_factor = strtof(kv_str(c, "exp", "1"), NULL);
            conf.mem_alloc = fill_malloc; conf.mem_calloc = fill_calloc; conf.mem_free = fill_free;
            st = cc_dynamic_pool_new_conf(size, &conf, &pool);
        } else { libc_pool = 1; st = cc_dynamic_pool_new(size, &pool); }
        if (st != CC_OK) pool = NULL;
        first_size = size; sparse = sp; quiet = qt;
        if (!pool) giant = 0;
        o_stat(st);
    } else if (!pool) { o("st=- nosession"); o_sep(); o("-"); return;
    } else if (is_op(c, "observe")) {
        o("st=-"); obs_sweep(); o_sep(); phys(); return;
    } else if (is_op(c, "malloc")) {
        size_t n = pos_u64(c, 0), u = priv_used(), np = npages();
        uint8_t *p = cc_dynamic_pool_malloc(n, pool);
        o("st=%s", (op_refused && !p) ? "1" : "-"); o_ptr(p);
        if (kv_u64(c, "probe", 0) && p) o(" absalign=%d", (int)((uintptr_t)p % pool->alignment_boundary == 0));
        handed_out(p, n, u, np);
    } else if (is_op(c, "calloc") && giant) {
        o("st=- badop");     /* nothing in a giant session is ever written */
    } else if (is_op(c, "calloc")) {
        size_t a = pos_u64(c, 0), b = pos_u64(c, 1), u = priv_used(), np = npages();
        uint8_t *p = cc_dynamic_pool_calloc(a, b, pool);
        o("st=%s", (op_refused && !p) ? "1" : "-"); o_ptr(p);
        if (p) {
            int z = 1; size_t n = a * b, off; int pgi = page_of(p, &off);
            PageInfo *pg[MAXPG]; page_list(pg);
            if (pgi >= 0 && n <= pg[pgi]->size && off <= pg[pgi]->size - n)
                for (size_t i = 0; i < n; i++) if (p[i]) z = 0;
            o(" zero=%d", z);
        }
        handed_out(p, a * b, u, np);
    } else if (is_op(c, "free")) {
        uint8_t *p = NULL;
        if (kv_str(c, "idx", NULL)) { size_t k = kv_u64(c, "idx", 0); p = k < nptrs ? ptrs[k].p : NULL; }
        else if (kv_str(c, "off", NULL)) p = pool->low_ptr + kv_u64(c, "off", 0);   /* an address in the top page */
        size_t u = priv_used();
        cc_dynamic_pool_free(p, pool);
        size_t u2 = priv_used();
        if (u2 < u && nshadow) nshadow--;
        o("st=-");
    } else if (is_op(c, "pool_reset")) {
        cc_dynamic_pool_reset(pool);
        /* blocks in released pages are gone; pointers into them are invalid from now on */
        size_t k = 0;
        nshadow = k;
        for (size_t i = 0; i < nptrs; i++) if (ptrs[i].pg != 0) { ptrs[i].p = NULL; ptrs[i].pg = -1; }
        o("st=-");
    } else if (is_op(c, "destroy")) {
        cc_dynamic_pool_destroy(pool); pool = NULL;
        o("st=-"); o_sep(); o("-"); return;
    } else { o("st=- badop"); }
    obs_abs(); o_sep(); phys();
}
