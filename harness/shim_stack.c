/* correspondence shim for src/cc_stack.c (adapter over CC_Array).  Both sources are compiled in
 * this translation unit so that the inner array's private state can be printed.
 *
 * obs  : status/out tokens, callback log, then for every live slot k
 *        a<k>=[elements bottom→top via cc_stack_iter_next]  n<k>=cc_stack_size  l<k>=cc_stack_peek (or -)
 * phys : per live slot the inner array  size<k> cap<k> blk<k> g<k> buf<k>=[live slots]; cursors it= zit= */
#include "cc_array.c"
#include "cc_stack.c"
#include "common.h"

#define NSLOT 4
static CC_Stack *S[NSLOT];
static CC_StackIter it;      static int it_slot = -1;
static CC_StackZipIter zit;  static int z1 = -1, z2 = -1;

static int slot_default[NSLOT];   /* the object in the slot uses the C library allocator triple (built by cc_stack_new, or derived from such a stack) */
static int sparse, sweep_now = 1;   /* obs=sparse on the constructor line: no content sweep except in `observe` */
static void shim_reset(void) { for (int i = 0; i < NSLOT; i++) { S[i] = NULL; slot_default[i] = 0; } it_slot = z1 = z2 = -1; sparse = 0; sweep_now = 1; }

static bool pred_even(const void *e) { cb_record((void *)e); return VAL(e) % 2 == 0; }
static void fn_visit(void *e) { cb_record(e); }

static void obs_all(void) {
    if (!sweep_now) return;      /* sparse session: status, out-values and callback log only */
    for (int k = 0; k < NSLOT; k++) {
        if (!S[k]) continue;
        char nm[8]; snprintf(nm, sizeof nm, " a%d", k);
        O_LIST(nm);
        CC_StackIter i; cc_stack_iter_init(&i, S[k]);
        void *e; size_t cnt = 0;
        while (cc_stack_iter_next(&i, &e) != CC_ITER_END) { o_item(VAL(e)); cnt++; }
        o_end();
        o(" n%d=%zu", k, cc_stack_size(S[k]));
        void *l = PTR(424242);
        if (cc_stack_peek(S[k], &l) == CC_OK) o(" l%d=%llu", k, VAL(l)); else o(" l%d=-", k);
        if (cnt != cc_stack_size(S[k])) o(" WALK=iteration-count-vs-size");
    }
}
static void phys(void) {
    int any = 0;
    for (int k = 0; k < NSLOT; k++) {
        if (!S[k]) continue;
        CC_Array *a = S[k]->v;
        if (any) o(" ");
        any = 1;
        size_t blk = block_size(a->buffer) / sizeof(void *);
        size_t g = (size_t)(a->capacity * a->exp_factor);
        o("size%d=%zu cap%d=%zu blk%d=%zu g%d=%zu ", k, a->size, k, a->capacity, k, blk, k, g);
        if (!sweep_now) {
            /* sparse session between two `observe`s: first and last live slot and an FNV-1a style checksum
             * of the live slots (h = (h ^ v) * 0x100000001b3 per element, 64 bit) instead of the dump */
            unsigned long long h = 0xcbf29ce484222325ULL; size_t n = a->size < blk ? a->size : blk;
            for (size_t i = 0; i < n; i++) h = (h ^ VAL(a->buffer[i])) * 0x100000001b3ULL;
            if (n) o("first%d=%llu last%d=%llu ", k, VAL(a->buffer[0]), k, VAL(a->buffer[n - 1]));
            else o("first%d=- last%d=- ", k, k);
            o("sum%d=%llu", k, h);
        } else {
        char nm[8]; snprintf(nm, sizeof nm, "buf%d", k);
        O_LIST(nm);
        for (size_t i = 0; i < a->size && i < blk; i++) o_item(VAL(a->buffer[i]));
        o_end();
        }
        if (block_size(a->buffer) < a->capacity * sizeof(void *)) o(" WALK=buf-block-too-small");
        if (a->size > a->capacity) o(" WALK=size-gt-capacity");
        if (block_size(a) != sizeof(CC_Array)) o(" WALK=array-struct-block");
        if (block_size(S[k]) != sizeof(CC_Stack)) o(" WALK=stack-struct-block");
        if (slot_default[k] ? (a->mem_alloc != malloc || a->mem_calloc != calloc || a->mem_free != free ||
                            S[k]->mem_alloc != malloc || S[k]->mem_calloc != calloc || S[k]->mem_free != free)
                         : (a->mem_alloc != conf_malloc || a->mem_calloc != conf_calloc || a->mem_free != conf_free ||
                            S[k]->mem_alloc != conf_malloc || S[k]->mem_calloc != conf_calloc || S[k]->mem_free != conf_free))
            o(" WALK=allocators-not-inherited");
    }
    if (!any) { o("-"); return; }
    if (it_slot >= 0) o(" it=%d:%zu:%d", it_slot, it.i.index, (int)it.i.last_removed); else o(" it=-");
    if (z1 >= 0) o(" zit=%d:%d:%zu:%d", z1, z2, zit.i.index, (int)zit.i.last_removed); else o(" zit=-");
}
static void drop_slot(int k) {
    if (it_slot == k) it_slot = -1;
    if (z1 == k || z2 == k) z1 = z2 = -1;
    S[k] = NULL;
}
static int noout;   /* noout=1 on an operation with an optional out-pointer: NULL is passed, no out= is printed */
static void o_out(enum cc_stat st, void *out) { o_stat(st); if (st == CC_OK && !noout) o(" out=%llu", VAL(out)); }
#define OUTP(p) (noout ? NULL : (p))
static enum cc_stat make(Cmd *c, CC_Stack **out) {
    CC_StackConf conf; cc_stack_conf_init(&conf);
    conf.capacity = kv_u64(c, "cap", conf.capacity);
    const char *e = kv_str(c, "exp", NULL);
    if (e) conf.exp_factor = strtof(e, NULL);
    conf.mem_alloc = conf_malloc; conf.mem_calloc = conf_calloc; conf.mem_free = conf_free;
    return cc_stack_new_conf(&conf, out);
}

static void do_op(Cmd *c) {
    noout = kv_u64(c, "noout", 0) == 1 && (is_op(c, "pop") || is_op(c, "it_replace") || is_op(c, "zit_replace"));
    int k = (int)kv_u64(c, "o", 0), to = (int)kv_u64(c, "to", 1);
    if (k < 0 || k >= NSLOT) k = 0;
    if (to < 0 || to >= NSLOT) to = 1;
    if (is_op(c, "new") || is_op(c, "new_default")) {
        enum cc_stat st;
        shim_reset();
        if (!strcmp(kv_str(c, "obs", ""), "sparse")) { sparse = 1; sweep_now = 0; }
        if (is_op(c, "new")) st = make(c, &S[0]);
        else { st = cc_stack_new(&S[0]); slot_default[0] = 1; }
        if (st != CC_OK) S[0] = NULL;
        o_stat(st);
        obs_all(); o_sep(); phys(); return;
    }
    int any = 0; for (int i = 0; i < NSLOT; i++) if (S[i]) any = 1;
    if (!any) { o("st=- nosession"); o_sep(); o("-"); return; }
    sweep_now = !sparse;
    if (is_op(c, "observe")) { sweep_now = 1; o("st=-"); obs_all(); o_sep(); phys(); return; }
    CC_Stack *s = S[k];
    void *out = PTR(777777);
    if (is_op(c, "destroy") || is_op(c, "destroy_cb")) {
        for (int i = 0; i < NSLOT; i++) if (S[i]) {
            if (is_op(c, "destroy_cb")) cc_stack_destroy_cb(S[i], fn_visit); else cc_stack_destroy(S[i]);
            drop_slot(i);
        }
        o("st=-"); if (is_op(c, "destroy_cb")) { o(" "); o_cb(); }
    } else if (is_op(c, "zit_new")) {
        int p = (int)kv_u64(c, "p", 1);
        if (p < 0 || p >= NSLOT || !S[k] || !S[p]) { z1 = z2 = -1; o("st=- noobj"); }
        else { cc_stack_zip_iter_init(&zit, S[k], S[p]); z1 = k; z2 = p; o("st=-"); }
    } else if (!strncmp(c->op, "zit_", 4)) {
        void *o1 = PTR(777777), *o2 = PTR(777777);
        if (z1 < 0) o("st=- noiter");
        else if (is_op(c, "zit_next")) {
            enum cc_stat st = cc_stack_zip_iter_next(&zit, &o1, &o2);
            o_stat(st); if (st == CC_OK) o(" out=%llu out2=%llu", VAL(o1), VAL(o2));
        } else if (is_op(c, "zit_replace")) {
            enum cc_stat st = cc_stack_zip_iter_replace(&zit, PTR(pos_u64(c, 0)), PTR(pos_u64(c, 1)), OUTP(&o1), OUTP(&o2));
            o_stat(st); if (st == CC_OK && !noout) o(" out=%llu out2=%llu", VAL(o1), VAL(o2));
        } else o("st=- badop");
    } else if (is_op(c, "it_new")) {
        if (!s) { it_slot = -1; o("st=- noobj"); } else { cc_stack_iter_init(&it, s); it_slot = k; o("st=-"); }
    } else if (!strncmp(c->op, "it_", 3)) {
        if (it_slot < 0) o("st=- noiter");
        else if (is_op(c, "it_next")) { enum cc_stat st = cc_stack_iter_next(&it, &out); o_out(st, out); }
        else if (is_op(c, "it_replace")) { enum cc_stat st = cc_stack_iter_replace(&it, PTR(pos_u64(c, 0)), OUTP(&out)); o_out(st, out); }
        else o("st=- badop");
    } else if (is_op(c, "mk_new") || is_op(c, "mk_new_default")) {
        if (S[to]) o("st=- slotbusy");
        else {
            CC_Stack *r = NULL; int dflt = is_op(c, "mk_new_default");
            enum cc_stat st = dflt ? cc_stack_new(&r) : make(c, &r);
            if (st == CC_OK) { S[to] = r; slot_default[to] = dflt; }
            o_stat(st);
        }
    } else if (!s) { o("st=- noobj");
    } else if (is_op(c, "drop")) { cc_stack_destroy(s); drop_slot(k); o("st=-");
    } else if (is_op(c, "push")) { o_stat(cc_stack_push(s, PTR(pos_u64(c, 0))));
    } else if (is_op(c, "pop")) { enum cc_stat st = cc_stack_pop(s, OUTP(&out)); o_out(st, out);
    } else if (is_op(c, "peek")) { enum cc_stat st = cc_stack_peek(s, &out); o_out(st, out);
    } else if (is_op(c, "size")) { o("st=- out=%zu", cc_stack_size(s));
    } else if (is_op(c, "map")) { cc_stack_map(s, fn_visit); o("st=- "); o_cb();
    } else if (is_op(c, "filter_mut")) { enum cc_stat st = cc_stack_filter_mut(s, pred_even); o_stat(st); o(" "); o_cb();
    } else if (is_op(c, "mk_filter")) {
        if (S[to] || to == k) o("st=- slotbusy");
        else {
            CC_Stack *r = NULL; enum cc_stat st = cc_stack_filter(s, pred_even, &r);
            if (st == CC_OK) { S[to] = r; slot_default[to] = slot_default[k]; }
            o_stat(st); o(" "); o_cb();
        }
    } else o("st=- badop");
    obs_all(); o_sep(); phys();
}
