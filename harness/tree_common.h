/* shared by shim_treetable.c and shim_treeset.c (both #include cc_treetable.c before this file):
 * counting comparators, tree dump and red-black walkers on the real heap.
 */
#ifndef VERIF_TREE_COMMON_H
#define VERIF_TREE_COMMON_H

static size_t cmp_calls;     /* comparator invocations of the current public call */

/* ---- `keys=buf`: keys are records in an arena, compared BY CONTENT; every call presents its key from a fresh
   address (the next arena slot), so equal keys are (almost) never pointer-equal — the normal string-key use of
   the library.  A library that tested `key == n->key`, or overwrote the stored key pointer when a value is
   replaced, is invisible with keys that are their own pointer value.  The spec / model key is the content. */
typedef struct { unsigned long long content; unsigned long long pad; } KRec;
#define KARENA (1u << 18)
static KRec karena[KARENA];
static size_t karena_n;
static int bufkeys;
static void *mk_key(unsigned long long k) {
    if (!bufkeys) return (void *)(uintptr_t)k;
    if (karena_n >= KARENA) { fprintf(stderr, "key arena exhausted\n"); exit(3); }
    karena[karena_n].content = k;
    return &karena[karena_n++];
}
static unsigned long long kval(const void *p) {
    if (!bufkeys) return (unsigned long long)(uintptr_t)p;
    if ((const KRec *)p < karena || (const KRec *)p >= karena + KARENA) return 0xdeadbeefULL;   /* not a key we handed out */
    return ((const KRec *)p)->content;
}
#define KEY(k) mk_key(k)
static int cmp_num(const void *a, const void *b) { cmp_calls++; uint64_t x = kval(a), y = kval(b); return (x > y) - (x < y); }
static int cmp_rev(const void *a, const void *b) { cmp_calls++; uint64_t x = kval(a), y = kval(b); return (x < y) - (x > y); }
/* a total order that is not the numeric one: by v % 100, then by v */
static int cmp_mod(const void *a, const void *b) {
    cmp_calls++; uint64_t x = kval(a), y = kval(b);
    if (x % 100 != y % 100) return (x % 100 > y % 100) ? 7 : -7;
    return (x > y) ? 3 : (x < y) ? -3 : 0;
}
/* numeric order reported with LARGE magnitudes: the 64-bit difference clamped to +-(2^31-1); a library that
 * narrowed the comparator result (char, short) or compared it with == 1 / == -1 would misbehave */
static int cmp_big(const void *a, const void *b) {
    cmp_calls++; uint64_t x = kval(a), y = kval(b);
    if (x > y) return (x - y > 2147483647u) ? 2147483647 : (int)(x - y);
    if (x < y) return (y - x > 2147483647u) ? -2147483647 : -(int)(y - x);
    return 0;
}
typedef int (*cmp_fn)(const void *, const void *);
static cmp_fn pick_cmp(int which) { return which == 1 ? cmp_rev : which == 2 ? cmp_mod : which == 3 ? cmp_big : cmp_num; }
static void cb_key(const void *k) { cb_record((void *)(uintptr_t)kval(k)); }

/* C17: at most 2*floor(log2(n+1))+2 comparator calls on a table holding n keys */
static size_t flog2(size_t x) { size_t r = 0; while (x > 1) { x >>= 1; r++; } return r; }
static size_t cmp_bound(size_t n) { return 2 * flog2(n + 1) + 2; }

/* ---- node identity: every node gets a display id (1, 2, ...) when it is first seen in a dump — exactly one node is
   allocated per successful add, so this is the allocation order — and keeps it while it stays in the tree.  The dump
   prints `#id^parent-id` per node (`S` the sentinel, `?` a pointer to no node of the tree); the Lean driver runs the
   pointer-level model (Model/PTree.lean) alongside, whose ids are its allocation serials, so L3 compares node
   identity and the parent links. */
#define TCAP (1u << 16)
typedef struct { RBNode *p; unsigned long id; unsigned long gen; } TEnt;
static TEnt ttab[2][TCAP];
static unsigned long tgen[2], tgen_ctr, tnext_id = 1;
static int tcur;
static size_t t_hash(RBNode *p) { return (size_t)((((uintptr_t)p) >> 4) * 2654435761u) & (TCAP - 1); }
static long t_get(int t, RBNode *p) {
    for (size_t i = t_hash(p), n = 0; n < TCAP; i = (i + 1) & (TCAP - 1), n++) {
        TEnt *e = &ttab[t][i];
        if (e->gen != tgen[t]) return -1;
        if (e->p == p) return (long)e->id;
    }
    return -1;
}
static void t_put(int t, RBNode *p, unsigned long id) {
    for (size_t i = t_hash(p), n = 0; n < TCAP; i = (i + 1) & (TCAP - 1), n++) {
        TEnt *e = &ttab[t][i];
        if (e->gen != tgen[t]) { e->p = p; e->id = id; e->gen = tgen[t]; return; }
        if (e->p == p) return;
    }
}
/* keys=buf: content -> the key POINTER that was stored when this content entered the tree (same two-generation
   scheme: an entry lives as long as a node with that content is seen in every dump).  `kp=1` for a node whose
   `key` field still is that pointer: cc_treetable_add on an existing key keeps the old key, and remove_node re-links
   nodes instead of copying keys, so the correct library always shows 1. */
typedef struct { unsigned long long c; void *p; unsigned long gen; } KEnt;
static KEnt ktab[2][TCAP];
static size_t k_hash(unsigned long long c) { return (size_t)((c ^ (c >> 29)) * 0x9E3779B97F4A7C15ULL >> 40) & (TCAP - 1); }
static void *k_get(int t, unsigned long long c) {
    for (size_t i = k_hash(c), n = 0; n < TCAP; i = (i + 1) & (TCAP - 1), n++) {
        KEnt *e = &ktab[t][i];
        if (e->gen != tgen[t]) return NULL;
        if (e->c == c) return e->p;
    }
    return NULL;
}
static void k_put(int t, unsigned long long c, void *p) {
    for (size_t i = k_hash(c), n = 0; n < TCAP; i = (i + 1) & (TCAP - 1), n++) {
        KEnt *e = &ktab[t][i];
        if (e->gen != tgen[t]) { e->c = c; e->p = p; e->gen = tgen[t]; return; }
        if (e->c == c) return;
    }
}
static int kp_of(RBNode *n) { return k_get(tcur, kval(n->key)) == n->key; }
static void ids_reset(void) { tgen[0] = ++tgen_ctr; tgen[1] = ++tgen_ctr; tnext_id = 1; tcur = 0; }
static void ids_walk(CC_TreeTable *t, RBNode *n, int nt, int depth) {
    if (n == t->sentinel || n == NULL || depth > 130) return;
    long id = t_get(tcur, n);
    t_put(nt, n, id >= 0 ? (unsigned long)id : tnext_id++);
    if (bufkeys) { void *kp = k_get(tcur, kval(n->key)); k_put(nt, kval(n->key), kp ? kp : n->key); }
    ids_walk(t, n->left, nt, depth + 1); ids_walk(t, n->right, nt, depth + 1);
}
static void ids_prepass(CC_TreeTable *t) {
    if (!tgen_ctr) ids_reset();
    int nt = 1 - tcur;
    tgen[nt] = ++tgen_ctr;
    ids_walk(t, t->root, nt, 0);
    tcur = nt;
}
static void o_id(CC_TreeTable *t, RBNode *p) {
    if (p == t->sentinel) { o("S"); return; }
    long id = p ? t_get(tcur, p) : -1;
    if (id < 0) o("?"); else o("%ld", id);
}

static unsigned long long id_num(CC_TreeTable *t, RBNode *p) {
    if (p == t->sentinel) return 0;
    long id = p ? t_get(tcur, p) : -1;
    return id < 0 ? ~0ULL : (unsigned long long)id;
}
/* `phys=quiet`: instead of the dump, FNV-1a 64 over the same information, 8 little-endian bytes per token, pre-order:
   sentinel link: 0; NULL link: 3; too deep: 4; node: 1 (black) / 2 (red), key, value, id, parent id (sentinel 0,
   unknown 2^64-1), with keys=buf also kp.  The Lean driver computes the same number from its pointer-level heap. */
static int quiet;            /* phys=quiet */
static int walk_blocks = 1;  /* per-node ledger lookups (linear in the ledger): every op normally, on `observe` when quiet */
static unsigned long long fnv;
static void fnv_tok(unsigned long long x) { for (int i = 0; i < 8; i++) { fnv ^= (x >> (8 * i)) & 0xff; fnv *= 1099511628211ULL; } }
static void sum_node(CC_TreeTable *t, RBNode *n, int depth) {
    if (n == t->sentinel) { fnv_tok(0); return; }
    if (n == NULL) { fnv_tok(3); return; }
    if (depth > 130) { fnv_tok(4); return; }
    fnv_tok(n->color == RB_BLACK ? 1 : 2); fnv_tok(kval(n->key)); fnv_tok(VAL(n->value));
    fnv_tok(id_num(t, n)); fnv_tok(id_num(t, n->parent));
    if (bufkeys) fnv_tok((unsigned long long)kp_of(n));
    sum_node(t, n->left, depth + 1); sum_node(t, n->right, depth + 1);
}

static const char *walk_msg;
static void walk_fail(const char *m) { if (!walk_msg) walk_msg = m; }
static size_t walk_nodes;
static RBNode *walk_prev;

static void dump_node(CC_TreeTable *t, RBNode *n, int depth) {
    if (n == t->sentinel) { o("."); return; }
    if (n == NULL) { o("NULL"); walk_fail("null-link"); return; }
    if (depth > 130) { o("..."); walk_fail("depth"); return; }
    o("(%c %llu:%llu#", n->color == RB_BLACK ? 'B' : 'R', kval(n->key), VAL(n->value));
    o_id(t, n); o("^"); o_id(t, n->parent); if (bufkeys) o("!%d", kp_of(n)); o(" ");
    dump_node(t, n->left, depth + 1); o(" "); dump_node(t, n->right, depth + 1); o(")");
}
/* returns the black height of the subtree, computes its height; checks every rule locally */
static int walk_node(CC_TreeTable *t, RBNode *n, RBNode *parent, int depth, int *height) {
    if (n == t->sentinel) { *height = 0; return 0; }
    if (n == NULL || depth > 130) { *height = 0; return 0; }
    walk_nodes++;
    if (n->parent != parent) walk_fail("parent");
    if (n->color != RB_BLACK && n->color != RB_RED) walk_fail("colour");
    if (n->color == RB_RED && (n->left->color == RB_RED || n->right->color == RB_RED)) walk_fail("red-red");
    if (walk_blocks && block_size(n) < sizeof(RBNode)) walk_fail("node-block");
    int hl, hr;
    int bl = walk_node(t, n->left, n, depth + 1, &hl);
    if (walk_prev) { size_t keep = cmp_calls; if (t->cmp(walk_prev->key, n->key) >= 0 || t->cmp(n->key, walk_prev->key) <= 0) walk_fail("bst"); cmp_calls = keep; }
    walk_prev = n;
    int br = walk_node(t, n->right, n, depth + 1, &hr);
    if (bl != br) walk_fail("black-height");
    *height = (hl > hr ? hl : hr) + 1;
    return bl + (n->color == RB_BLACK ? 1 : 0);
}
static int node_in_tree(CC_TreeTable *t, RBNode *n, RBNode *x, int depth) {
    if (n == t->sentinel || n == NULL || depth > 130) return 0;
    return n == x || node_in_tree(t, n->left, x, depth + 1) || node_in_tree(t, n->right, x, depth + 1);
}
/* position of a node, computed as the C code would: by climbing the parent pointers up to the root */
static void o_path(CC_TreeTable *t, RBNode *n) {
    char buf[140]; int len = 0;
    while (n->parent != t->sentinel && n->parent != NULL && len < 135) {
        if (n == n->parent->left) buf[len++] = 'L';
        else if (n == n->parent->right) buf[len++] = 'R';
        else { buf[len++] = '?'; walk_fail("parent"); break; }
        n = n->parent;
    }
    if (n != t->root && len < 135 && (len == 0 || buf[len - 1] != '?')) walk_fail("parent");
    o("/"); while (len > 0) o("%c", buf[--len]);
}
static void phys_tree(CC_TreeTable *t, CC_TreeTableIter *it) {
    walk_msg = NULL;
    ids_prepass(t);
    o("size=%zu cmps=%zu it=", t->size, cmp_calls);
    if (!it) o("-");
    else {
        if (it->current == t->sentinel) o("cur:S"); else if (it->current == NULL) o("cur:N");
        else if (node_in_tree(t, t->root, it->current, 0)) { o("cur:%llu#", kval(it->current->key)); o_id(t, it->current); o_path(t, it->current); }
        else { o("cur:?"); walk_fail("iter-dangling"); }
        if (it->next == t->sentinel) o(",next:S");
        else if (node_in_tree(t, t->root, it->next, 0)) { o(",next:%llu#", kval(it->next->key)); o_id(t, it->next); o_path(t, it->next); }
        else { o(",next:?"); walk_fail("iter-dangling"); }
    }
    if (quiet && !walk_blocks) { fnv = 14695981039346656037ULL; sum_node(t, t->root, 0); o(" tree#=%016llx", fnv); }
    else { o(" tree="); dump_node(t, t->root, 0); }
    /* walkers */
    RBNode *s = t->sentinel;
    if (s->color != RB_BLACK || s->key || s->value || s->left || s->right) walk_fail("sentinel");
    if (t->root != s && t->root->color != RB_BLACK) walk_fail("root-red");
    walk_nodes = 0; walk_prev = NULL; int h = 0;
    walk_node(t, t->root, s, 0, &h);
    if (walk_nodes != t->size) walk_fail("count");
    if ((size_t)h > 2 * flog2(t->size + 1)) walk_fail("height");
    if (block_size(t) < sizeof(CC_TreeTable) || block_size(s) < sizeof(RBNode)) walk_fail("header-block");
    if (walk_msg) o(" WALK=%s", walk_msg);
}
#endif
