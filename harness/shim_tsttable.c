/* correspondence shim for src/cc_tsttable.c
 *
 * keys   : lowercase hex of the key bytes (`k=6162` is "ab"), `k=-` is the empty string
 * values : small naturals
 * obs    : st / out / sorted callback lists, then
 *          abs=[k:v,...]   get + contains_key of every key the history ever mentioned (sorted)
 *          enum=[k:v,...]  what a fresh iterator yields, sorted
 *          size=N
 * phys   : size, the trie in pre-order, the exact yield order of a fresh iterator, the exact
 *          callback order, the session iterator (node pointers printed as paths from the root)
 * `new ... phys=quiet` (scale stream): between `observe`s the trie dump is replaced by `~<FNV-1a 64 of the dump
 *          text>/<node count>`; the walkers still run on every operation, the full dump is printed on `observe` */
#include "cc_tsttable.c"
#include "common.h"

static CC_TSTTable *tt;
static CC_TSTTableIter it;
static int it_valid;
static int sparse, full_now;   /* obs=sparse session: content only on `observe` */
static int quiet;              /* phys=quiet session: checksum of the trie dump instead of the dump */

/* ---- interned keys: entry->key points into this table, which lives until `reset` ---- */
#define MAXKEYS 4096
static char *keys[MAXKEYS]; static size_t nkeys;
static void ids_reset(void);
static void shim_reset(void) {
    tt = NULL; it_valid = 0; quiet = 0; ids_reset();
    for (size_t i = 0; i < nkeys; i++) __real_free(keys[i]);
    nkeys = 0;
}
static int hexv(int c) { return c <= '9' ? c - '0' : c - 'a' + 10; }
static char *intern(const char *hex) {
    char tmp[2048]; size_t n = 0;
    if (*hex == 'x') hex++;            /* optional prefix: keeps all-decimal hex strings from looking like numbers */
    if (strcmp(hex, "-"))
        for (size_t i = 0; hex[i] && hex[i + 1] && n < sizeof tmp - 1; i += 2)
            tmp[n++] = (char)(hexv(hex[i]) * 16 + hexv(hex[i + 1]));
    tmp[n] = 0;
    for (size_t i = 0; i < nkeys; i++) if (!strcmp(keys[i], tmp)) return keys[i];
    if (nkeys >= MAXKEYS) { fprintf(stderr, "too many keys\n"); exit(3); }
    char *s = __real_malloc(n + 1); memcpy(s, tmp, n + 1);
    /* keep the table sorted (strcmp = unsigned byte order, prefixes first) */
    size_t p = nkeys;
    while (p > 0 && strcmp(keys[p - 1], s) > 0) { keys[p] = keys[p - 1]; p--; }
    keys[p] = s; nkeys++;
    return s;
}
static void o_key(const char *k) {
    if (!*k) { o("-"); return; }
    size_t n = strlen(k);
    if (olen + 2 * n + 2 >= sizeof obuf) { fprintf(stderr, "output line too long\n"); exit(3); }
    for (const unsigned char *p = (const unsigned char *)k; *p; p++) {      /* no printf per byte: keys have hundreds */
        obuf[olen++] = "0123456789abcdef"[*p >> 4]; obuf[olen++] = "0123456789abcdef"[*p & 15];
    }
    obuf[olen] = 0;
}

/* ---- comparators for cmp=u / cmp=r sessions (the default one is the library's) ---- */
static int cmp_unsigned(char a, char b) { return (int)(unsigned char)a - (int)(unsigned char)b; }
static int cmp_reverse(char a, char b) { return (int)b - (int)a; }

/* ---- pairs collected through the iterator ---- */
typedef struct { const char *k; unsigned long long v; } Pair;
static Pair pairs[MAXKEYS * 4]; static size_t npairs;
static int pair_cmp(const void *a, const void *b) {
    const Pair *x = a, *y = b; int c = strcmp(x->k, y->k);
    return c ? c : (x->v < y->v ? -1 : x->v > y->v);
}
static void collect_iter(void) {
    npairs = 0;
    CC_TSTTableIter i2; cc_tsttable_iter_init(&i2, tt);
    CC_TSTTableEntry *e;
    while (cc_tsttable_iter_next(&i2, &e) != CC_ITER_END && npairs < MAXKEYS * 4) {
        pairs[npairs].k = e->key; pairs[npairs].v = VAL(e->value); npairs++;
    }
}
static void o_pairs(const char *name) {
    o("%s=[", name);
    for (size_t i = 0; i < npairs; i++) { if (i) o(","); o_key(pairs[i].k); o(":%llu", pairs[i].v); }
    o("]");
}

/* ---- callback logs ---- */
static const char *kcb[MAXKEYS * 4]; static size_t nkcb;
static void key_cb(const void *k) { if (nkcb < MAXKEYS * 4) kcb[nkcb++] = k; }
static void val_cb(void *v) { cb_record(v); }
static int str_cmp(const void *a, const void *b) { return strcmp(*(const char *const *)a, *(const char *const *)b); }
static int ull_cmp(const void *a, const void *b) {
    unsigned long long x = *(const unsigned long long *)a, y = *(const unsigned long long *)b; return x < y ? -1 : x > y; }
static int cb_kind; /* 0 none, 1 keys, 2 values */

static void obs_abs(void) {
    if (sparse && !full_now) return;
    if (!tt) { o("abs=[] enum=[] size=0"); return; }
    o("abs=["); int first = 1;
    for (size_t i = 0; i < nkeys; i++) {
        void *out = PTR(999999);
        bool has = cc_tsttable_contains_key(tt, keys[i]);
        enum cc_stat st = cc_tsttable_get(tt, keys[i], &out);
        if (has != (st == CC_OK)) o("WALK=contains-get-mismatch ");
        if (st == CC_OK) { if (!first) o(","); first = 0; o_key(keys[i]); o(":%llu", VAL(out)); }
    }
    o("] ");
    collect_iter(); qsort(pairs, npairs, sizeof pairs[0], pair_cmp); o_pairs("enum");
    o(" size=%zu", cc_tsttable_size(tt));
}

/* ---- node identity: every node gets a display id (1, 2, ...) when it is first seen in a dump and keeps it
   while it stays in the trie.  A dump walks in pre-order and one `add` allocates one chain top-down along `mid`, so
   this is the allocation order of the nodes that became part of the trie (a refused `add` leaves none).  The dump
   prints `#id^parent-id` per node (`0` = NULL, `?` = a pointer to no node of the trie); the Lean driver runs the
   pointer-level model (Model/PTST.lean) alongside, whose ids are its allocation serials, so L3 compares node identity
   and the `parent` links.  Two generations of the table, so that a freed address that is reused gets a new id. */
#define TCAP (1u << 15)
typedef struct { CC_TSTTableNode *p; unsigned long id; unsigned long gen; } TEnt;
static TEnt ttab[2][TCAP];
static unsigned long tgen[2], tgen_ctr, tnext_id = 1;
static int tcur;
static size_t t_hash(void *p) { return (size_t)((((uintptr_t)p) >> 4) * 2654435761u) & (TCAP - 1); }
static long t_get(int t, CC_TSTTableNode *p) {
    for (size_t i = t_hash(p), n = 0; n < TCAP; i = (i + 1) & (TCAP - 1), n++) {
        TEnt *e = &ttab[t][i];
        if (e->gen != tgen[t]) return -1;
        if (e->p == p) return (long)e->id;
    }
    return -1;
}
static void t_put(int t, CC_TSTTableNode *p, unsigned long id) {
    for (size_t i = t_hash(p), n = 0; n < TCAP; i = (i + 1) & (TCAP - 1), n++) {
        TEnt *e = &ttab[t][i];
        if (e->gen != tgen[t]) { e->p = p; e->id = id; e->gen = tgen[t]; return; }
        if (e->p == p) return;
    }
}
static void ids_reset(void) { tgen[0] = ++tgen_ctr; tgen[1] = ++tgen_ctr; tnext_id = 1; tcur = 0; }
static void ids_walk(CC_TSTTableNode *n, int nt, int depth) {
    if (!n || depth > 4000) return;
    long id = t_get(tcur, n);
    t_put(nt, n, id >= 0 ? (unsigned long)id : tnext_id++);
    ids_walk(n->left, nt, depth + 1); ids_walk(n->mid, nt, depth + 1); ids_walk(n->right, nt, depth + 1);
}
static void ids_prepass(void) {
    if (!tgen_ctr) ids_reset();
    int nt = 1 - tcur;
    tgen[nt] = ++tgen_ctr;
    ids_walk(tt->root, nt, 0);
    tcur = nt;
}
static void o_id(void *p) {
    if (!p) { o("0"); return; }
    long id = t_get(tcur, p);
    if (id < 0) o("?"); else o("%ld", id);
}

/* ---- private state ---- */
static size_t n_eow, n_nodes; static const char *walk_msg; static int check_blocks;
static void o_node(CC_TSTTableNode *n, CC_TSTTableNode *parent) {
    if (!n) { o("."); return; }
    n_nodes++;
    if (n->parent != parent) walk_msg = "parent-pointer";
    if (check_blocks && block_size(n) < sizeof(CC_TSTTableNode)) walk_msg = "node-block-too-small";
    o("(%02x#", (unsigned char)n->c); o_id(n); o("^"); o_id(n->parent); o(";");
    if (n->eow) {
        n_eow++;
        if (check_blocks && block_size(n->data) < sizeof(CC_TSTTableEntry)) walk_msg = "entry-block-too-small";
        o_key(n->data->key); o("=%llu", VAL(n->data->value));
    } else {
        o("-");
        if (!n->left && !n->mid && !n->right) walk_msg = "dangling-unmarked-leaf";
    }
    o(";");
    o_node(n->left, n); o_node(n->mid, n); o_node(n->right, n);
    o(")");
}
static void o_path(void *p) {
    CC_TSTTableNode *n = p;
    if (!n) { o("-"); return; }
    char buf[4096]; size_t len = 0;
    while (n->parent && len < sizeof buf - 1) {
        CC_TSTTableNode *q = n->parent;
        buf[len++] = q->left == n ? 'L' : q->mid == n ? 'M' : q->right == n ? 'R' : '?';
        n = q;
    }
    if (n != tt->root) { o("?"); }
    o("/");
    while (len > 0) o("%c", buf[--len]);
}
static void phys(void) {
    if (!tt) { o("-"); return; }
    o("size=%zu tree=", tt->size);
    n_eow = 0; n_nodes = 0; walk_msg = NULL;
    check_blocks = !quiet || full_now;      /* the harness ledger is searched linearly: only on `observe` when quiet */
    ids_prepass();
    size_t start = olen;
    o_node(tt->root, NULL);
    if (quiet && !full_now) {
        unsigned long long h = 0xcbf29ce484222325ull;
        for (size_t i = start; i < olen; i++) { h ^= (unsigned char)obuf[i]; h *= 0x100000001b3ull; }
        olen = start; obuf[olen] = 0;
        o("~%016llx/%zu", h, n_nodes);
    }
    if (n_eow != tt->size) walk_msg = "eow-count-differs-from-size";
    if (!sparse || full_now) { collect_iter(); o(" "); o_pairs("ord"); }   /* library iterator */
    if (cb_kind == 1) {
        o(" cbord=["); for (size_t i = 0; i < nkcb; i++) { if (i) o(","); o_key(kcb[i]); } o("]");
    } else if (cb_kind == 2) {
        o(" "); O_LIST("cbord"); for (size_t i = 0; i < cb_n; i++) o_item(cb_log[i]); o_end();
    }
    if (it_valid) {
        o(" it=cur:"); o_path(it.current_node); o("#"); o_id(it.current_node);
        o(",next:"); o_path(it.next_node); o("#"); o_id(it.next_node);
        o(",adv:%d", (int)it.advanced_on_remove);
        if (it.advanced_on_remove) o(",ns:%d", (int)it.next_stat);
    }
    if (walk_msg) o(" WALK=%s", walk_msg);
}

static void do_op(Cmd *c) {
    cb_kind = 0; nkcb = 0; full_now = 0;
    const char *kh = kv_str(c, "k", NULL);
    char *key = kh ? intern(kh) : NULL;
    if (is_op(c, "new")) {
        CC_TSTTableConf conf; cc_tsttable_conf_init(&conf);
        const char *cm = kv_str(c, "cmp", "s");
        if (!strcmp(cm, "u")) conf.char_cmp = cmp_unsigned;
        if (!strcmp(cm, "r")) conf.char_cmp = cmp_reverse;
        conf.mem_alloc = conf_malloc; conf.mem_calloc = conf_calloc; conf.mem_free = conf_free;
        tt = NULL; it_valid = 0; sparse = !strcmp(kv_str(c, "obs", "full"), "sparse"); ids_reset();
        quiet = !strcmp(kv_str(c, "phys", "full"), "quiet");
        enum cc_stat st = cc_tsttable_new_conf(&conf, &tt);
        if (st != CC_OK) tt = NULL;
        o_stat(st); o(" ");
    } else if (is_op(c, "new_default")) {
        tt = NULL; it_valid = 0;   /* C-library allocator: reported in the libc columns */
        sparse = !strcmp(kv_str(c, "obs", "full"), "sparse"); ids_reset();
        quiet = !strcmp(kv_str(c, "phys", "full"), "quiet");
        enum cc_stat st = cc_tsttable_new(&tt); if (st != CC_OK) tt = NULL; o_stat(st); o(" ");
    } else if (!tt) { o("st=- nosession"); o_sep(); o("-"); return;
    } else if (is_op(c, "add") && key) {
        it_valid = 0;
        enum cc_stat st = cc_tsttable_add(tt, key, PTR(kv_u64(c, "v", 0)));
        o_stat(st); o(" ");
    } else if (is_op(c, "get") && key) {
        void *out = PTR(888888); enum cc_stat st = cc_tsttable_get(tt, key, &out);
        o_stat(st); if (st == CC_OK) o(" out=%llu", VAL(out)); o(" ");
    } else if (is_op(c, "contains") && key) {
        o("st=- out=%d ", (int)cc_tsttable_contains_key(tt, key));
    } else if (is_op(c, "remove") && key) {
        it_valid = 0;
        void *out = PTR(888888); enum cc_stat st = cc_tsttable_remove(tt, key, &out);
        o_stat(st); if (st == CC_OK) o(" out=%llu", VAL(out)); o(" ");
    } else if (is_op(c, "remove_noout") && key) {
        it_valid = 0;
        enum cc_stat st = cc_tsttable_remove(tt, key, NULL);
        o_stat(st); o(" ");
    } else if (is_op(c, "remove_all")) {
        it_valid = 0; cc_tsttable_remove_all(tt); o("st=- ");
    } else if (is_op(c, "observe")) {
        full_now = 1; o("st=- ");
    } else if (is_op(c, "size")) {
        o("st=- out=%zu ", cc_tsttable_size(tt));
    } else if (is_op(c, "foreach_key")) {
        cc_tsttable_foreach_key(tt, key_cb); cb_kind = 1;
        const char *srt[MAXKEYS * 4]; memcpy(srt, kcb, nkcb * sizeof kcb[0]);
        qsort(srt, nkcb, sizeof srt[0], str_cmp);
        o("st=- cb=["); for (size_t i = 0; i < nkcb; i++) { if (i) o(","); o_key(srt[i]); } o("] ");
    } else if (is_op(c, "foreach_value")) {
        cc_tsttable_foreach_value(tt, val_cb); cb_kind = 2;
        unsigned long long srt[4096]; memcpy(srt, cb_log, cb_n * sizeof cb_log[0]);
        qsort(srt, cb_n, sizeof srt[0], ull_cmp);
        o("st=- "); O_LIST("cb"); for (size_t i = 0; i < cb_n; i++) o_item(srt[i]); o_end(); o(" ");
    } else if (is_op(c, "it_new")) {
        cc_tsttable_iter_init(&it, tt); it_valid = 1; o("st=- ");
    } else if (!strncmp(c->op, "it_", 3) && !it_valid) {
        o("st=- noiter ");
    } else if (is_op(c, "it_next")) {
        CC_TSTTableEntry *e = NULL; enum cc_stat st = cc_tsttable_iter_next(&it, &e);
        o_stat(st); if (st == CC_OK) { o(" out="); o_key(e->key); o(":%llu", VAL(e->value)); } o(" ");
    } else if (is_op(c, "it_remove")) {
        void *out = PTR(888888); enum cc_stat st = cc_tsttable_iter_remove(&it, &out);
        o_stat(st); if (st == CC_OK) o(" out=%llu", VAL(out)); o(" ");
    } else if (is_op(c, "it_remove_noout")) {
        enum cc_stat st = cc_tsttable_iter_remove(&it, NULL);
        o_stat(st); o(" ");
    } else if (is_op(c, "destroy")) {
        cc_tsttable_destroy(tt); tt = NULL; it_valid = 0; o("st=- ");
    } else { o("st=- badop "); }
    obs_abs(); o_sep(); phys();
}
