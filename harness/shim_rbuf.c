/* correspondence shim for src/cc_ring_buffer.c */
#include "cc_ring_buffer.c"
#include "common.h"

static CC_Rbuf *rb;
static void shim_reset(void) { rb = NULL; }

/* content through the public API: dequeue everything from a byte copy of the object */
static void obs_abs(void) {
    O_LIST("abs");
    if (rb) {
        CC_Rbuf copy = *rb;
        uint64_t *b = __real_malloc(sizeof(uint64_t) * (rb->capacity ? rb->capacity : 1));
        memcpy(b, rb->buf, sizeof(uint64_t) * rb->capacity);
        copy.buf = b;
        uint64_t v;
        size_t guard = 0;
        while (cc_rbuf_dequeue(&copy, &v) == CC_OK) { o_item(v); if (++guard > rb->capacity + 1) break; }
        __real_free(b);
    }
    o_end();
    if (rb && rb->size > rb->capacity) o(" WALK=size-gt-capacity");
    if (rb) o(" size=%zu empty=%d", cc_rbuf_size(rb), (int)cc_rbuf_is_empty(rb));
}
static void phys(void) {
    if (!rb) { o("-"); return; }
    o("size=%zu cap=%zu head=%zu tail=%zu ", rb->size, rb->capacity, rb->head, rb->tail);
    O_LIST("buf"); for (size_t i = 0; i < rb->capacity; i++) o_item(rb->buf[i]); o_end();
    /* L2 walker: block sizes on the real heap */
    if (block_size(rb->buf) < rb->capacity * sizeof(uint64_t)) o(" WALK=buf-block-too-small");
}
static void do_op(Cmd *c) {
    if (is_op(c, "new")) {
        CC_RbufConf conf; cc_rbuf_conf_init(&conf);
        conf.capacity = kv_u64(c, "cap", conf.capacity);
        conf.mem_alloc = conf_malloc; conf.mem_calloc = conf_calloc; conf.mem_free = conf_free;
        rb = NULL;
        enum cc_stat st = cc_rbuf_conf_new(&conf, &rb);
        if (st != CC_OK) rb = NULL;
        o_stat(st); o(" ");
    } else if (is_op(c, "new_default")) {
        rb = NULL; enum cc_stat st = cc_rbuf_new(&rb); if (st != CC_OK) rb = NULL; o_stat(st); o(" ");
    } else if (!rb) { o("st=- nosession"); o_sep(); o("-"); return;
    } else if (is_op(c, "enqueue")) {
        cc_rbuf_enqueue(rb, pos_u64(c, 0)); o("st=- ");
    } else if (is_op(c, "dequeue")) {
        uint64_t out = 777777; enum cc_stat st = cc_rbuf_dequeue(rb, &out);
        o_stat(st); if (st == CC_OK) o(" out=%" PRIu64, out); o(" ");
    } else if (is_op(c, "peek")) {
        long long idx = c->npos > 0 ? strtoll(c->pos[0], NULL, 10) : 0;
        uint64_t v = cc_rbuf_peek(rb, (int) idx);
        o("st=- out=%" PRIu64 " ", v);
    } else if (is_op(c, "destroy")) {
        cc_rbuf_destroy(rb); rb = NULL; o("st=- ");
    } else { o("st=- badop "); }
    obs_abs(); o_sep(); phys();
}
