/* correspondence shim for src/sized/cc_array_sized.c
 *
 * Elements are byte vectors of `data_length` bytes.  On the protocol line an element is a decimal
 * number v; it is encoded little-endian into data_length bytes (v mod 256^data_length) and every
 * element read back from the library is printed as the decoded little-endian number (a small
 * bignum printer, element sizes up to 64 bytes).
 *
 * Private copy: every element handed to the library lives in a heap block of exactly data_length
 * bytes that is overwritten (all bytes ^= 0xFF) and released directly after the call, before the
 * content is observed again.  Out-buffers and the `reverse` scratch buffer are exactly data_length
 * bytes as well, so ASan sees every over-read/over-write of a caller buffer.
 *
 * The configured `mem_alloc` is `conf_malloc` followed by a fill with 0xCD, so that the whole
 * buffer (dead slots included) is deterministic and is compared with the model byte for byte.  */
#include "sized/cc_array_sized.c"
#include "common.h"

#define NSLOT 4
#define MAXDL 65536        /* element sizes up to 64 KiB (scale stream) */
#define SMALLDL 64         /* up to here an element is printed as its full decimal value */
#define POISON 0xCD
static CC_ArraySized *ar[NSLOT];
static CC_ArraySizedIter it;       static int it_on, it_slot;
static CC_ArraySizedZipIter zit;   static int zit_on, zit_s1, zit_s2;
static int quiet;                  /* phys=quiet session: buffer printed as a checksum except on `observe` */
static int sparse;                 /* obs=sparse session: content is printed by `observe` only */
static size_t cur_dl;              /* element size seen by the callbacks of the running op */

static void shim_reset(void) { for (int i = 0; i < NSLOT; i++) ar[i] = NULL; it_on = zit_on = 0; sparse = 0; quiet = 0; }

static void *sz_malloc(size_t n) { void *p = conf_malloc(n); if (p) memset(p, POISON, n); return p; }

/* ---------------- element codec ---------------- */
static void enc(const char *dec, uint8_t *out, size_t dl) {
    memset(out, 0, dl);
    for (const char *s = dec; *s >= '0' && *s <= '9'; s++) {
        unsigned carry = (unsigned)(*s - '0');
        for (size_t j = 0; j < dl; j++) { unsigned t = out[j] * 10u + carry; out[j] = (uint8_t)(t & 0xFF); carry = t >> 8; }
    }
}
static uint64_t fnv64(const uint8_t *p, size_t n) {
    uint64_t h = 0xcbf29ce484222325ULL;
    for (size_t i = 0; i < n; i++) { h ^= p[i]; h *= 0x100000001b3ULL; }
    return h;
}
static char *dec(const uint8_t *p, size_t dl) {   /* returns a static string (rotating) */
    static char bufs[8][200]; static int rot;
    char *b = bufs[rot = (rot + 1) & 7];
    if (dl > SMALLDL) {   /* big records: low 8 bytes as a number, then FNV-1a 64 of all bytes */
        uint64_t lo = 0; for (int j = 7; j >= 0; j--) lo = lo * 256 + p[j];
        sprintf(b, "%" PRIu64 ":%016" PRIx64, lo, fnv64(p, dl));
        return b;
    }
    uint8_t t[SMALLDL]; memcpy(t, p, dl);
    char rev[200]; size_t n = 0;
    for (;;) {
        unsigned rem = 0; int nz = 0;
        for (size_t j = dl; j-- > 0;) { unsigned cur = rem * 256u + t[j]; t[j] = (uint8_t)(cur / 10u); rem = cur % 10u; if (t[j]) nz = 1; }
        rev[n++] = (char)('0' + rem);
        if (!nz) break;
    }
    for (size_t i = 0; i < n; i++) b[i] = rev[n - 1 - i];
    b[n] = 0; return b;
}
static uint8_t *ebuf(const char *decs, size_t dl) { uint8_t *e = __real_malloc(dl ? dl : 1); enc(decs, e, dl); return e; }
static void escribble(uint8_t *e, size_t dl) { for (size_t j = 0; j < dl; j++) e[j] ^= 0xFF; __real_free(e); }
/* zip out-buffers start zeroed: an out-value the library leaves untouched (second half of a
 * zip_iter_remove on one and the same array with nothing left to remove) then reads 0 */
static uint8_t *obuf_zero(size_t dl) { uint8_t *e = __real_malloc(dl ? dl : 1); memset(e, 0, dl); return e; }
static uint8_t *obuf_new(size_t dl) { uint8_t *e = __real_malloc(dl ? dl : 1); memset(e, 0xEE, dl); return e; }

/* callback log with big values */
static char cbs[1 << 16]; static size_t cbs_n; static int cbs_first;
static void cbs_reset(void) { cbs_n = 0; cbs[0] = 0; cbs_first = 1; }
static void cbs_add(const char *s) {
    if (cbs_n + strlen(s) + 2 >= sizeof cbs) return;
    cbs_n += (size_t)sprintf(cbs + cbs_n, cbs_first ? "%s" : ",%s", s); cbs_first = 0;
}

/* ---------------- callbacks ---------------- */
static unsigned mod_small(const uint8_t *p, size_t dl, unsigned m) { unsigned r = 0; for (size_t j = dl; j-- > 0;) r = (r * 256u + p[j]) % m; return r; }
static int cmp_asc(const void *a, const void *b) {
    const uint8_t *x = a, *y = b;
    for (size_t j = cur_dl; j-- > 0;) if (x[j] != y[j]) return verif_mag(x[j] < y[j] ? -1 : 1);
    return 0;
}
static int cmp_desc(const void *a, const void *b) { return cmp_asc(b, a); }
static int cmp_m10(const void *a, const void *b) {   /* (v % 10, v) lexicographic: a total order */
    unsigned x = mod_small(a, cur_dl, 10), y = mod_small(b, cur_dl, 10);
    if (x != y) return verif_mag(x < y ? -1 : 1);
    return cmp_asc(a, b);
}
/* a total PREORDER with ties: only the key v % 10 is compared.  qsort is not stable by contract, so
 * the order among records with equal keys is unspecified: the obs of a `sort cmp=k10` is printed
 * tie-invariantly (key sequence in array order + sorted multiset of the records); the exact order is
 * compared in phys (L3) only and rests on this glibc's qsort being a stable merge sort. */
static int cmp_k10(const void *a, const void *b) {
    unsigned x = mod_small(a, cur_dl, 10), y = mod_small(b, cur_dl, 10);
    return x == y ? 0 : verif_mag(x < y ? -1 : 1);
}
static int cmp_plain_asc(const void *a, const void *b) {   /* for the shim's own multiset print */
    const uint8_t *x = a, *y = b;
    for (size_t j = cur_dl; j-- > 0;) if (x[j] != y[j]) return x[j] < y[j] ? -1 : 1;
    return 0;
}
static int tie_slot = -1;          /* slot whose content the current op must print tie-invariantly */
static bool pred_even(const uint8_t *e) { cbs_add(dec(e, cur_dl)); return e[0] % 2 == 0; }
static bool pred_mod3(const uint8_t *e) { cbs_add(dec(e, cur_dl)); unsigned s = 0; for (size_t j = 0; j < cur_dl; j++) s += e[j]; return s % 3 == 0; }
static bool pred_all(const uint8_t *e)  { cbs_add(dec(e, cur_dl)); return true; }
static bool pred_none(const uint8_t *e) { cbs_add(dec(e, cur_dl)); return false; }
typedef bool (*pred_t)(const uint8_t *);
static pred_t pick_pred(Cmd *c) {
    const char *p = kv_str(c, "p", "even");
    if (!strcmp(p, "mod3")) return pred_mod3;
    if (!strcmp(p, "all")) return pred_all;
    if (!strcmp(p, "none")) return pred_none;
    return pred_even;
}
static void map_rec(uint8_t *e) { cbs_add(dec(e, cur_dl)); }
static void map_inc(uint8_t *e) { cbs_add(dec(e, cur_dl)); for (size_t j = 0; j < cur_dl; j++) e[j] = (uint8_t)(e[j] + 1); }
static void red_sum(uint8_t *a, uint8_t *b, uint8_t *r) {
    cbs_add(dec(a, cur_dl)); cbs_add(b ? dec(b, cur_dl) : "N");
    for (size_t j = 0; j < cur_dl; j++) r[j] = (uint8_t)(a[j] + (b ? b[j] : 0));
}

/* ---------------- observation ---------------- */
static void obs_all(void) {
    for (int k = 0; k < NSLOT; k++) {
        CC_ArraySized *a = ar[k]; if (!a) continue;
        size_t n = cc_array_sized_size(a), dl = a->data_length;
        uint8_t *out = obuf_new(dl);
        if (k == tie_slot) {
            /* keys in array order, then the records as a sorted multiset (still through get_at) */
            uint8_t *all = __real_malloc(n * dl + 1);
            o(" k%d=[", k);
            for (size_t i = 0; i < n; i++) {
                if (cc_array_sized_get_at(a, i, out) != CC_OK) { o(i ? ",?" : "?"); memset(all + i * dl, 0, dl); }
                else { o(i ? ",%u" : "%u", mod_small(out, dl, 10)); memcpy(all + i * dl, out, dl); }
            }
            size_t keep = cur_dl; cur_dl = dl;
            qsort(all, n, dl, cmp_plain_asc);
            cur_dl = keep;
            o("] m%d=[", k);
            for (size_t i = 0; i < n; i++) o(i ? ",%s" : "%s", dec(all + i * dl, dl));
            o("] n%d=%zu", k, n);
            __real_free(all); __real_free(out);
            continue;
        }
        o(" a%d=[", k);
        for (size_t i = 0; i < n; i++) {
            if (cc_array_sized_get_at(a, i, out) != CC_OK) o(i ? ",?" : "?"); else o(i ? ",%s" : "%s", dec(out, dl));
        }
        o("] n%d=%zu", k, n);
        if (cc_array_sized_get_last(a, out) == CC_OK) o(" l%d=%s", k, dec(out, dl)); else o(" l%d=-", k);
        __real_free(out);
    }
}
static int phys_full;              /* the current op is `observe` */
static void phys(void) {
    int any = 0;
    for (int k = 0; k < NSLOT; k++) {
        CC_ArraySized *a = ar[k]; if (!a) continue;
        if (any) o(" ");
        any = 1;
        o("dl%d=%zu size%d=%zu cap%d=%zu buf%d=", k, a->data_length, k, a->size, k, a->capacity, k);
        /* an array on the C library allocator has uninitialised dead slots: print the live bytes only */
        size_t nb = (a->mem_alloc != sz_malloc ? a->size : a->capacity) * a->data_length;
        /* full hex dump up to 256 KiB (normal sessions, and `observe` in quiet ones); otherwise FNV-1a 64
         * of the same bytes, up to 16 MiB on `observe` and 1 MiB per ordinary op; beyond: not looked at */
        int full = !quiet || phys_full;
        if (full && nb <= ((size_t)1 << 18)) {
            for (size_t i = 0; i < nb; i++) o("%02x", a->buffer[i]);
            if (nb == 0) o("-");
        } else if (nb <= (phys_full ? (size_t)1 << 24 : (size_t)1 << 20)) o("sum%016" PRIx64, fnv64(a->buffer, nb));
        else o("sum-");
        if (a->size > a->capacity) o(" WALK=size-gt-capacity");
        if (block_size(a->buffer) < a->capacity * a->data_length) o(" WALK=buf-block-too-small");
        if (a->capacity == 0) o(" WALK=capacity-zero");
    }
    if (!any) { o("-"); return; }
    if (it_on) o(" it=%d,%zu,%d", it_slot, it.index, (int)it.last_removed);
    if (zit_on) o(" zit=%d,%d,%zu,%d", zit_s1, zit_s2, zit.index, (int)zit.last_removed);
}
static int any_obj(void) { for (int k = 0; k < NSLOT; k++) if (ar[k]) return 1; return 0; }

static void conf_fill(CC_ArraySizedConf *conf, Cmd *c) {
    cc_array_sized_conf_init(conf);
    conf->capacity = kv_u64(c, "cap", conf->capacity);
    const char *ex = kv_str(c, "exp", NULL);
    if (ex) conf->exp_factor = strtof(ex, NULL);
    conf->mem_alloc = sz_malloc; conf->mem_calloc = conf_calloc; conf->mem_free = conf_free;
}

static void do_op(Cmd *c) {
    int s = (int)kv_u64(c, "o", 0); if (s < 0 || s >= NSLOT) s = 0;
    cbs_reset(); tie_slot = -1; phys_full = is_op(c, "observe");
    if ((is_op(c, "new") || is_op(c, "new_default")) && !strcmp(kv_str(c, "obs", ""), "sparse")) sparse = 1;
    if ((is_op(c, "new") || is_op(c, "new_default")) && !strcmp(kv_str(c, "phys", ""), "quiet")) quiet = 1;
    if (is_op(c, "new")) {
        CC_ArraySizedConf conf; conf_fill(&conf, c);
        size_t es = kv_u64(c, "esize", 1);
        if (ar[s] || es > MAXDL) { o("st=- badslot"); goto tail; }
        enum cc_stat st = cc_array_sized_new_conf(es, &conf, &ar[s]);
        if (st != CC_OK) ar[s] = NULL;
        o_stat(st); goto tail;
    }
    if (is_op(c, "new_default")) {
        size_t es = kv_u64(c, "esize", 1);
        if (ar[s] || es > MAXDL) { o("st=- badslot"); goto tail; }
        enum cc_stat st = cc_array_sized_new(es, &ar[s]);
        if (st != CC_OK) ar[s] = NULL;
        o_stat(st); goto tail;
    }
    if (!any_obj()) { o("st=- nosession"); o_sep(); o("-"); return; }
    if (is_op(c, "observe")) { o("st=-"); goto tail; }
    if (is_op(c, "destroy")) {
        for (int k = 0; k < NSLOT; k++) if (ar[k]) { cc_array_sized_destroy(ar[k]); ar[k] = NULL; }
        it_on = zit_on = 0; o("st=-"); goto tail;
    }
    /* zip iterator ops address their own pair of slots */
    if (!strncmp(c->op, "zit_", 4) && !is_op(c, "zit_new")) {
        if (!zit_on) { o("st=- noiter"); goto tail; }
        CC_ArraySized *a1 = ar[zit_s1], *a2 = ar[zit_s2];
        size_t d1 = a1->data_length, d2 = a2->data_length;
        if (is_op(c, "zit_next")) {
            uint8_t *p1 = NULL, *p2 = NULL; enum cc_stat st = cc_array_sized_zip_iter_next(&zit, &p1, &p2);
            o_stat(st); if (st == CC_OK) o(" out=%s out2=%s", dec(p1, d1), dec(p2, d2));
        } else if (is_op(c, "zit_add")) {
            uint8_t *e1 = ebuf(c->npos > 0 ? c->pos[0] : "0", d1), *e2 = ebuf(c->npos > 1 ? c->pos[1] : "0", d2);
            enum cc_stat st = cc_array_sized_zip_iter_add(&zit, e1, e2);
            escribble(e1, d1); escribble(e2, d2); o_stat(st);
        } else if (is_op(c, "zit_remove")) {
            int no = (int)kv_u64(c, "noout", 0);     /* noout=1: both out-pointers NULL */
            uint8_t *o1 = no ? NULL : obuf_zero(d1), *o2 = no ? NULL : obuf_zero(d2);
            enum cc_stat st = cc_array_sized_zip_iter_remove(&zit, o1, o2);
            o_stat(st); if (st == CC_OK && !no) o(" out=%s out2=%s", dec(o1, d1), dec(o2, d2));
            if (o1) __real_free(o1); if (o2) __real_free(o2);
        } else if (is_op(c, "zit_replace")) {
            uint8_t *e1 = ebuf(c->npos > 0 ? c->pos[0] : "0", d1), *e2 = ebuf(c->npos > 1 ? c->pos[1] : "0", d2);
            int no = (int)kv_u64(c, "noout", 0);
            uint8_t *o1 = no ? NULL : obuf_zero(d1), *o2 = no ? NULL : obuf_zero(d2);
            enum cc_stat st = cc_array_sized_zip_iter_replace(&zit, e1, e2, o1, o2);
            escribble(e1, d1); escribble(e2, d2);
            o_stat(st); if (st == CC_OK && !no) o(" out=%s out2=%s", dec(o1, d1), dec(o2, d2));
            if (o1) __real_free(o1); if (o2) __real_free(o2);
        } else if (is_op(c, "zit_index")) {
            o("st=- out=%zu", cc_array_sized_zip_iter_index(&zit));
        } else o("st=- badop");
        goto tail;
    }
    if (!strncmp(c->op, "it_", 3) && !is_op(c, "it_new")) {
        if (!it_on) { o("st=- noiter"); goto tail; }
        CC_ArraySized *a = ar[it_slot]; size_t dl = a->data_length;
        if (is_op(c, "it_next")) {
            uint8_t *p = NULL; enum cc_stat st = cc_array_sized_iter_next(&it, &p);
            o_stat(st); if (st == CC_OK) o(" out=%s", dec(p, dl));
        } else if (is_op(c, "it_remove")) {
            uint8_t *out = kv_u64(c, "noout", 0) ? NULL : obuf_new(dl);
            enum cc_stat st = cc_array_sized_iter_remove(&it, out);
            o_stat(st); if (st == CC_OK && out) o(" out=%s", dec(out, dl));
            if (out) __real_free(out);
        } else if (is_op(c, "it_add")) {
            uint8_t *e = ebuf(c->npos > 0 ? c->pos[0] : "0", dl);
            enum cc_stat st = cc_array_sized_iter_add(&it, e);
            escribble(e, dl); o_stat(st);
        } else if (is_op(c, "it_replace")) {
            uint8_t *e = ebuf(c->npos > 0 ? c->pos[0] : "0", dl);
            uint8_t *out = kv_u64(c, "noout", 0) ? NULL : obuf_new(dl);
            enum cc_stat st = cc_array_sized_iter_replace(&it, e, out);
            escribble(e, dl);
            o_stat(st); if (st == CC_OK && out) o(" out=%s", dec(out, dl));
            if (out) __real_free(out);
        } else if (is_op(c, "it_index")) {
            o("st=- out=%zu", cc_array_sized_iter_index(&it));
        } else o("st=- badop");
        goto tail;
    }
    if (is_op(c, "zit_new")) {
        int s2 = (int)kv_u64(c, "o2", 1); if (s2 < 0 || s2 >= NSLOT) s2 = 0;
        /* a zip iterator cannot be created on a missing array: the old one is forgotten, so that the
         * rest of the program does not drive a stale iterator */
        if (!ar[s] || !ar[s2]) { if (is_op(c, "zit_new")) zit_on = 0; o("st=- noobj"); goto tail; }
        cc_array_sized_zip_iter_init(&zit, ar[s], ar[s2]); zit_on = 1; zit_s1 = s; zit_s2 = s2;
        o("st=-"); goto tail;
    }
    if (is_op(c, "foreach_zip")) {
        int s2 = (int)kv_u64(c, "o2", 1); if (s2 < 0 || s2 >= NSLOT) s2 = 0;
        if (!ar[s] || !ar[s2]) { o("st=- noobj"); goto tail; }
        CC_ArraySized *a1 = ar[s], *a2 = ar[s2];
        CC_ARRAY_SIZED_FOREACH_ZIP(v1, v2, a1, a2, { cbs_add(dec(v1, a1->data_length)); cbs_add(dec(v2, a2->data_length)); })
        o("st=- cb=[%s]", cbs); goto tail;
    }
    {
    CC_ArraySized *a = ar[s];
    if (!a) { if (is_op(c, "it_new")) it_on = 0; o("st=- noobj"); goto tail; }
    size_t dl = a->data_length; cur_dl = dl;
    const char *v0 = c->npos > 0 ? c->pos[0] : "0";
    if (is_op(c, "add")) {
        uint8_t *e = ebuf(v0, dl); enum cc_stat st = cc_array_sized_add(a, e); escribble(e, dl); o_stat(st);
    } else if (is_op(c, "add_at")) {
        uint8_t *e = ebuf(v0, dl); enum cc_stat st = cc_array_sized_add_at(a, e, pos_u64(c, 1)); escribble(e, dl); o_stat(st);
    } else if (is_op(c, "replace_at")) {
        uint8_t *e = ebuf(v0, dl); uint8_t *out = kv_u64(c, "noout", 0) ? NULL : obuf_new(dl);
        enum cc_stat st = cc_array_sized_replace_at(a, e, pos_u64(c, 1), out); escribble(e, dl);
        o_stat(st); if (st == CC_OK && out) o(" out=%s", dec(out, dl));
        if (out) __real_free(out);
    } else if (is_op(c, "swap_at")) {
        o_stat(cc_array_sized_swap_at(a, pos_u64(c, 0), pos_u64(c, 1)));
    } else if (is_op(c, "remove")) {
        uint8_t *e = ebuf(v0, dl); enum cc_stat st = cc_array_sized_remove(a, e); escribble(e, dl); o_stat(st);
    } else if (is_op(c, "remove_at")) {
        uint8_t *out = kv_u64(c, "noout", 0) ? NULL : obuf_new(dl);
        enum cc_stat st = cc_array_sized_remove_at(a, pos_u64(c, 0), out);
        o_stat(st); if (st == CC_OK && out) o(" out=%s", dec(out, dl));
        if (out) __real_free(out);
    } else if (is_op(c, "remove_last")) {
        uint8_t *out = kv_u64(c, "noout", 0) ? NULL : obuf_new(dl);
        enum cc_stat st = cc_array_sized_remove_last(a, out);
        o_stat(st); if (st == CC_OK && out) o(" out=%s", dec(out, dl));
        if (out) __real_free(out);
    } else if (is_op(c, "remove_all")) {
        cc_array_sized_remove_all(a); o("st=-");
    } else if (is_op(c, "get_at")) {
        uint8_t *out = obuf_new(dl); enum cc_stat st = cc_array_sized_get_at(a, pos_u64(c, 0), out);
        o_stat(st); if (st == CC_OK) o(" out=%s", dec(out, dl)); __real_free(out);
    } else if (is_op(c, "get_last")) {
        uint8_t *out = obuf_new(dl); enum cc_stat st = cc_array_sized_get_last(a, out);
        o_stat(st); if (st == CC_OK) o(" out=%s", dec(out, dl)); __real_free(out);
    } else if (is_op(c, "peek")) {
        uint8_t *p = NULL; enum cc_stat st = cc_array_sized_peek(a, pos_u64(c, 0), &p);
        o_stat(st); if (st == CC_OK) o(" out=%s", dec(p, dl));
    } else if (is_op(c, "index_of")) {
        uint8_t *e = ebuf(v0, dl); size_t idx = 777777; enum cc_stat st = cc_array_sized_index_of(a, e, &idx); escribble(e, dl);
        o_stat(st); if (st == CC_OK) o(" out=%zu", idx);
    } else if (is_op(c, "contains")) {
        uint8_t *e = ebuf(v0, dl); size_t n = cc_array_sized_contains(a, e); escribble(e, dl); o("st=- out=%zu", n);
    } else if (is_op(c, "size")) {
        o("st=- out=%zu", cc_array_sized_size(a));
    } else if (is_op(c, "capacity")) {
        o("st=- out=%zu", cc_array_sized_capacity(a));
    } else if (is_op(c, "get_buffer")) {
        const uint8_t *b = (const uint8_t *)cc_array_sized_get_buffer(a);
        o("st=- out=%d", (int)(b == a->buffer));
    } else if (is_op(c, "reverse")) {
        uint8_t *tmp = obuf_new(dl); cc_array_sized_reverse(a, tmp); __real_free(tmp); o("st=-");
    } else if (is_op(c, "trim_capacity")) {
        o_stat(cc_array_sized_trim_capacity(a));
    } else if (is_op(c, "filter_mut")) {
        enum cc_stat st = cc_array_sized_filter_mut(a, pick_pred(c)); o_stat(st); o(" cb=[%s]", cbs);
    } else if (is_op(c, "map")) {
        const char *fn = kv_str(c, "fn", "rec");
        cc_array_sized_map(a, !strcmp(fn, "inc") ? map_inc : map_rec); o("st=- cb=[%s]", cbs);
    } else if (is_op(c, "reduce")) {
        uint8_t *r = __real_malloc(dl); memset(r, 0, dl);
        cc_array_sized_reduce(a, red_sum, r); o("st=- out=%s cb=[%s]", dec(r, dl), cbs); __real_free(r);
    } else if (is_op(c, "sort")) {
        const char *cm = kv_str(c, "cmp", "asc");
        if (!strcmp(cm, "k10")) tie_slot = s;
        cc_array_sized_sort(a, !strcmp(cm, "desc") ? cmp_desc : !strcmp(cm, "m10") ? cmp_m10 :
                               !strcmp(cm, "k10") ? cmp_k10 : cmp_asc); o("st=-");
    } else if (is_op(c, "foreach")) {
        CC_ARRAY_SIZED_FOREACH(v, a, { cbs_add(dec(v, dl)); })
        o("st=- cb=[%s]", cbs);
    } else if (is_op(c, "it_new")) {
        cc_array_sized_iter_init(&it, a); it_on = 1; it_slot = s; o("st=-");
    } else if (is_op(c, "mk_sub") || is_op(c, "mk_copy") || is_op(c, "mk_filter")) {
        int to = (int)kv_u64(c, "to", 1);
        if (to < 0 || to >= NSLOT || ar[to]) { o("st=- badslot"); goto tail; }
        CC_ArraySized *res = NULL; enum cc_stat st;
        if (is_op(c, "mk_sub")) st = cc_array_sized_subarray(a, pos_u64(c, 0), pos_u64(c, 1), &res);
        else if (is_op(c, "mk_copy")) st = cc_array_sized_copy(a, &res);
        else st = cc_array_sized_filter(a, pick_pred(c), &res);
        if (st == CC_OK) ar[to] = res;
        o_stat(st); if (is_op(c, "mk_filter")) o(" cb=[%s]", cbs);
    } else if (is_op(c, "drop")) {
        cc_array_sized_destroy(a); ar[s] = NULL;
        if (it_on && it_slot == s) it_on = 0;
        if (zit_on && (zit_s1 == s || zit_s2 == s)) zit_on = 0;
        o("st=-");
    } else if (is_op(c, "struct_size")) {
        o("st=- out=%d", (int)(cc_array_sized_struct_size() == sizeof(CC_ArraySized)));
    } else o("st=- badop");
    }
tail:
    if (!sparse || is_op(c, "observe")) obs_all();
    o_sep(); phys();
}
