#include "cc_deque.h"
#include <stdio.h>
static CC_Deque* build(size_t cap, size_t f, size_t s){
  CC_DequeConf c; cc_deque_conf_init(&c); c.capacity=cap; CC_Deque*d; cc_deque_new_conf(&c,&d);
  for(size_t i=0;i<f;i++) cc_deque_add_last(d,(void*)99);
  for(size_t i=0;i<f;i++) cc_deque_remove_first(d,NULL);
  for(size_t i=0;i<s;i++) cc_deque_add_last(d,(void*)(i+1));
  return d;
}
int main(){
  int bad_add=0,bad_rm=0,tot=0,late=0,front=0,other=0;
  for(size_t cap=1;cap<=16;cap*=2)
  for(size_t f=0;f<cap;f++) for(size_t s=1;s<=cap;s++){
    for(size_t i=0;i<s;i++){
      CC_Deque*d=build(cap,f,s); 
      enum cc_stat st=cc_deque_add_at(d,(void*)777,i);
      size_t exp[40],alt[40]; size_t n=0,m=0; for(size_t k=0;k<s;k++){ if(k==i) exp[n++]=777; exp[n++]=k+1;}
      for(size_t k=0;k<s;k++){ alt[m++]=k+1; if(k==i) alt[m++]=777; }
      int ok = st==CC_OK && cc_deque_size(d)==n, isalt=ok;
      for(size_t k=0;k<n;k++){void*o; cc_deque_get_at(d,k,&o); if((size_t)o!=exp[k]) ok=0; if((size_t)o!=alt[k]) isalt=0;}
      tot++; 
      int fronthalf = (i!=0) && (i <= (s/2)-1) ;  // s is size before; if s==cap expansion happens but size same
      if(!ok){bad_add++; if(fronthalf) front++; if(isalt) late++; if(!(fronthalf&&isalt)){ other++; printf("OTHER add cap=%zu f=%zu s=%zu i=%zu\n",cap,f,s,i);} }
      else if(fronthalf) printf("front-half but OK?? cap=%zu f=%zu s=%zu i=%zu\n",cap,f,s,i);
      cc_deque_destroy(d);
      d=build(cap,f,s); void*out=0;
      st=cc_deque_remove_at(d,i,&out);
      n=0; for(size_t k=0;k<s;k++){ if(k!=i) exp[n++]=k+1;}
      ok = st==CC_OK && cc_deque_size(d)==n && (size_t)out==i+1;
      for(size_t k=0;ok&&k<n;k++){void*o; cc_deque_get_at(d,k,&o); if((size_t)o!=exp[k]) ok=0;}
      if(!ok){bad_rm++; printf("RM bad cap=%zu f=%zu s=%zu i=%zu\n",cap,f,s,i);}
      cc_deque_destroy(d);
    }
  }
  printf("tot=%d bad_add=%d (front-half=%d, lands-late=%d, other=%d) bad_rm=%d\n",tot,bad_add,front,late,other,bad_rm);
}
