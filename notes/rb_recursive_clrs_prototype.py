import sys
R,B=0,1
# node = (color,left,key,right) ; nil = None
def col(t): return B if t is None else t[0]
def N(c,l,k,r): return (c,l,k,r)

# ---------- insert: recursive, CLRS case analysis at the grandparent
def ins(t,k):
    if t is None: return N(R,None,k,None), True   # inserted
    c,l,key,r=t
    if k<key:
        l2,new=ins(l,k)
        if not new: return t,False
        return fix_ins_left(N(c,l2,key,r)),True
    elif k>key:
        r2,new=ins(r,k)
        if not new: return t,False
        return fix_ins_right(N(c,l,key,r2)),True
    else:
        return t,False
def fix_ins_left(g):
    c,p,key,y=g
    if col(p)!=R: return g
    pl,pr=p[1],p[3]
    if col(pl)!=R and col(pr)!=R: return g
    # p red with a red child z ; g is grandparent (must be black)
    if col(y)==R:   # case 1
        return N(R, N(B,p[1],p[2],p[3]), key, N(B,y[1],y[2],y[3]))
    if col(pr)==R and col(pl)!=R:  # z is right child: case 2 rotate left at p
        z=pr
        p=N(R, N(R,pl,p[2],z[1]), z[2], z[3])   # z on top, old p is its left
        pl,pr=p[1],p[3]
    # case 3: p black, g red, rotate right at g
    return N(B, pl, p[2], N(R, pr, key, y))
def fix_ins_right(g):
    c,y,key,p=g
    if col(p)!=R: return g
    pl,pr=p[1],p[3]
    if col(pl)!=R and col(pr)!=R: return g
    if col(y)==R:
        return N(R, N(B,y[1],y[2],y[3]), key, N(B,p[1],p[2],p[3]))
    if col(pl)==R and col(pr)!=R:
        z=pl
        p=N(R, z[1], z[2], N(R,z[3],p[2],pr))
        pl,pr=p[1],p[3]
    return N(B, N(R, y, key, pl), p[2], pr)
def insert(t,k):
    t2,new=ins(t,k)
    if t2 is not None and t2[0]==R: t2=N(B,t2[1],t2[2],t2[3])
    return t2

# ---------- delete
def blacken(x): return None if x is None else N(B,x[1],x[2],x[3])
def drop(n):
    """node n has at most one child handled by caller; returns (replacement, deficit)"""
def remove_here(n):
    c,l,key,r=n
    if l is None or r is None:
        x = r if l is None else l
        if c==B:
            if col(x)==R: return blacken(x),False
            return x,True
        return x,False
    r2,mk,d=del_min(r)
    n2=N(c,l,mk,r2)
    if d: return fix_del_right(n2)
    return n2,False
def del_min(t):
    c,l,key,r=t
    if l is None:
        x=r
        if c==B:
            if col(x)==R: return blacken(x),key,False
            return x,key,True
        return x,key,False
    l2,mk,d=del_min(l)
    t2=N(c,l2,key,r)
    if d:
        t3,d2=fix_del_left(t2); return t3,mk,d2
    return t2,mk,False
def del_max(t):   # for remove_last: it is remove_node(tree_max) -> node has no right child
    c,l,key,r=t
    if r is None:
        x=l
        if c==B:
            if col(x)==R: return blacken(x),False
            return x,True
        return x,False
    r2,d=del_max(r)
    t2=N(c,l,key,r2)
    if d: return fix_del_right(t2)
    return t2,False
def del_first(t):
    c,l,key,r=t
    if l is None:
        x=r
        if c==B:
            if col(x)==R: return blacken(x),False
            return x,True
        return x,False
    l2,d=del_first(l)
    t2=N(c,l2,key,r)
    if d: return fix_del_left(t2)
    return t2,False
def dele(t,k):
    if t is None: return None,False,False
    c,l,key,r=t
    if k<key:
        l2,d,found=dele(l,k)
        if not found: return t,False,False
        t2=N(c,l2,key,r)
        if d:
            t3,d2=fix_del_left(t2); return t3,d2,True
        return t2,False,True
    elif k>key:
        r2,d,found=dele(r,k)
        if not found: return t,False,False
        t2=N(c,l,key,r2)
        if d:
            t3,d2=fix_del_right(t2); return t3,d2,True
        return t2,False,True
    else:
        t2,d=remove_here(t); return t2,d,True
def fix_del_left(p):
    """left child of p is short by one black. returns (subtree, deficit)"""
    c,x,key,w=p
    if col(w)==R:   # case 1: w black, p red, rotate left at p
        wl,wk,wr=w[1],w[2],w[3]
        inner,d=fix_del_left(N(R,x,key,wl))   # p is red now: always resolves
        assert not d
        return N(B,inner,wk,wr),False
    wl,wr=w[1],w[3]
    if col(wl)==B and col(wr)==B:   # case 2
        w2=N(R,wl,w[2],wr)
        if c==R: return N(B,x,key,w2),False
        return N(B,x,key,w2),True
    if col(wr)==B:  # case 3: wl red -> black, w red, rotate right at w
        # new w = wl (black) with right child old w (red)
        w=N(B, wl[1], wl[2], N(R, wl[3], w[2], wr))
        wl,wr=w[1],w[3]
    # case 4: w.color=p.color, p black, w.right black, rotate left at p
    return N(c, N(B,x,key,wl), w[2], blacken(wr)),False
def fix_del_right(p):
    c,w,key,x=p
    if col(w)==R:
        wl,wk,wr=w[1],w[2],w[3]
        inner,d=fix_del_right(N(R,wr,key,x))
        assert not d
        return N(B,wl,wk,inner),False
    wl,wr=w[1],w[3]
    if col(wl)==B and col(wr)==B:
        w2=N(R,wl,w[2],wr)
        if c==R: return N(B,w2,key,x),False
        return N(B,w2,key,x),True
    if col(wl)==B:
        w=N(B, N(R,wl,w[2],wr[1]), wr[2], wr[3])
        wl,wr=w[1],w[3]
    return N(c, blacken(wl), w[2], N(B,wr,key,x)),False
def fin(t):  # CLRS final x.color=BLACK when x is root
    return t
def show(t):
    if t is None: return "."
    return "(%s%d %s %s)"%("B" if t[0] else "R",t[2],show(t[1]),show(t[3]))
t=None; n=0; bad=0
for line in sys.stdin:
    op,k,rest=line.split(" ",2); k=int(k); rest=rest.strip()
    if op=='a': t=insert(t,k)
    elif op=='r':
        t2,d,f=dele(t,k)
        if f: t=t2
    elif op=='f':
        if t is not None: t,d=del_first(t)
    elif op=='l':
        if t is not None: t,d=del_max(t)
    if t is not None and t[0]==R: t=blacken(t)
    n+=1
    if show(t)!=rest:
        bad+=1
        if bad<4: print("MISMATCH at",n,op,k,"\n model",show(t),"\n C    ",rest)
        sys.exit(1)
print("ok",n)
