#include "cc_treetable.h"
#include <stdio.h>
#include <stdlib.h>
static int cmp(const void*a,const void*b){ long x=(long)a,y=(long)b; return (x>y)-(x<y); }
static void pre(RBNode*n,RBNode*s){ if(n==s){printf(".");return;} printf("(%c%ld ",n->color?'B':'R',(long)n->key); pre(n->left,s); printf(" "); pre(n->right,s); printf(")"); }
int main(int argc,char**argv){
  unsigned seed=atoi(argv[1]); int K=atoi(argv[2]); int steps=atoi(argv[3]); srand(seed);
  CC_TreeTable*t; cc_treetable_new(cmp,&t);
  for(int i=0;i<steps;i++){
    long k=1+rand()%K; int op=rand()%10;
    if(op<5){ cc_treetable_add(t,(void*)k,(void*)k); printf("a %ld ",k);} 
    else if(op<8){ cc_treetable_remove(t,(void*)k,NULL); printf("r %ld ",k);} 
    else if(op==8){ if(cc_treetable_size(t)) cc_treetable_remove_first(t,NULL); printf("f 0 "); }
    else { if(cc_treetable_size(t)) cc_treetable_remove_last(t,NULL); printf("l 0 "); }
    CC_TreeTableIter it; cc_treetable_iter_init(&it,t); RBNode*s=it.current,*root=it.next; if(root!=s) while(root->parent!=s) root=root->parent;
    pre(root,s); printf("\n");
  }
  return 0;
}
