#include <stdio.h>
#include <stdlib.h>
#include <string.h>
#include "cc_array.h"
#include "cc_deque.h"
#include "cc_list.h"
#include "cc_slist.h"
#include "cc_hashtable.h"
#include "cc_hashset.h"
#include "cc_treetable.h"
#include "cc_treeset.h"
#include "cc_tsttable.h"
#include "cc_pqueue.h"
#include "cc_queue.h"
#include "cc_stack.h"
static long live=0, countdown=-1, fired=0, allocs=0;
static int refuse(void){ allocs++; if(countdown>0 && --countdown==0){fired++; return 1;} return 0; }
static void*A(size_t n){ if(refuse()) return NULL; live++; return malloc(n?n:1);} 
static void*C(size_t a,size_t b){ if(refuse()) return NULL; live++; return calloc(a?a:1,b?b:1);} 
static void Fr(void*p){ if(p){live--; free(p);} }
static int cmp(const void*a,const void*b){ long x=(long)a,y=(long)b; return (x>y)-(x<y);} 
static bool even(const void*p){ return ((long)p)%2==0; }
static int problems=0;
#define PROBLEM(...) do{ problems++; printf("PROBLEM: " __VA_ARGS__); printf("\n"); }while(0)
/* generic: run `OP` with the k-th allocation failing, for k=1..; SNAP computes a content hash */
#define SWEEP(name, SETUP, OP, SNAP, TEARDOWN) do{ \
  for(long k=1;k<64;k++){ live=0; fired=0; countdown=-1; SETUP; long before=SNAP; long lb=live; countdown=k; enum cc_stat st=(OP); countdown=-1; \
    if(!fired){ TEARDOWN; if(live!=0) PROBLEM("%s: leak %ld after success path",name,live); break; } \
    if(st!=CC_ERR_ALLOC) PROBLEM("%s k=%ld: refusal but status %d",name,k,st); \
    if(SNAP!=before) PROBLEM("%s k=%ld: content changed by failed call",name,k); \
    if(live!=lb) PROBLEM("%s k=%ld: ledger %ld -> %ld after failed call",name,k,lb,live); \
    TEARDOWN; if(live!=0) PROBLEM("%s k=%ld: leak %ld at destroy",name,k,live); } }while(0)
static long snapA(CC_Array*a){ long h=cc_array_size(a)*131+cc_array_capacity(a); for(size_t i=0;i<cc_array_size(a);i++){void*o;cc_array_get_at(a,i,&o);h=h*31+(long)o;} return h; }
static long snapD(CC_Deque*a){ long h=cc_deque_size(a)*131+cc_deque_capacity(a); for(size_t i=0;i<cc_deque_size(a);i++){void*o;cc_deque_get_at(a,i,&o);h=h*31+(long)o;} return h; }
static long snapL(CC_List*a){ long h=cc_list_size(a); for(size_t i=0;i<cc_list_size(a);i++){void*o;cc_list_get_at(a,i,&o);h=h*31+(long)o;} void*f=0,*l=0; if(cc_list_size(a)){cc_list_get_first(a,&f);cc_list_get_last(a,&l);} return h*7+(long)f*3+(long)l; }
static long snapS(CC_SList*a){ long h=cc_slist_size(a); for(size_t i=0;i<cc_slist_size(a);i++){void*o;cc_slist_get_at(a,i,&o);h=h*31+(long)o;} void*l=0; if(cc_slist_size(a)) cc_slist_get_last(a,&l); return h*7+(long)l; }
static long acc; static void accK(const void*k){ acc=acc*31+(long)k; }
static long snapH(CC_HashTable*t){ acc=cc_hashtable_size(t)*131+cc_hashtable_capacity(t); long s=0; for(long k=0;k<64;k++){void*o; if(cc_hashtable_get(t,(void*)k,&o)==CC_OK) s+=k*1000+(long)o;} return acc+s; }
static long snapT(CC_TreeTable*t){ acc=cc_treetable_size(t); cc_treetable_foreach_key(t,accK); return acc; }
static char*W[]={"a","ab","abc","b","abd","xyz","abcdefgh"};
static long snapX(CC_TSTTable*t){ long h=cc_tsttable_size(t); for(int i=0;i<7;i++){void*o; if(cc_tsttable_get(t,W[i],&o)==CC_OK) h=h*31+(long)o+i;} return h; }
static size_t hptr(const void*k,int l,uint32_t s){ return (size_t)k*7; }
int main(){
  CC_ArrayConf ac; cc_array_conf_init(&ac); ac.mem_alloc=A;ac.mem_calloc=C;ac.mem_free=Fr; ac.capacity=2;
  CC_Array*a,*a2; 
  SWEEP("array_new", (void)0, cc_array_new_conf(&ac,&a), 0L, if(st==CC_OK) cc_array_destroy(a));
  #define ASET cc_array_new_conf(&ac,&a); cc_array_add(a,(void*)1); cc_array_add(a,(void*)2)
  SWEEP("array_add(grow)", ASET, cc_array_add(a,(void*)3), snapA(a), cc_array_destroy(a));
  SWEEP("array_add_at(grow)", ASET, cc_array_add_at(a,(void*)3,1), snapA(a), cc_array_destroy(a));
  SWEEP("array_trim", ASET; cc_array_remove_last(a,NULL), cc_array_trim_capacity(a), snapA(a), cc_array_destroy(a));
  SWEEP("array_subarray", ASET, cc_array_subarray(a,0,1,&a2), snapA(a), if(st==CC_OK) cc_array_destroy(a2); cc_array_destroy(a));
  SWEEP("array_copy", ASET, cc_array_copy_shallow(a,&a2), snapA(a), if(st==CC_OK) cc_array_destroy(a2); cc_array_destroy(a));
  SWEEP("array_filter", ASET, cc_array_filter(a,even,&a2), snapA(a), if(st==CC_OK) cc_array_destroy(a2); cc_array_destroy(a));
  { CC_ArrayIter it; void*o; SWEEP("array_iter_add(grow)", ASET; cc_array_iter_init(&it,a); cc_array_iter_next(&it,&o), cc_array_iter_add(&it,(void*)9), snapA(a)+it.index, cc_array_destroy(a)); }
  CC_DequeConf dc; cc_deque_conf_init(&dc); dc.mem_alloc=A;dc.mem_calloc=C;dc.mem_free=Fr; dc.capacity=2; CC_Deque*d,*d2;
  SWEEP("deque_new", (void)0, cc_deque_new_conf(&dc,&d), 0L, if(st==CC_OK) cc_deque_destroy(d));
  #define DSET cc_deque_new_conf(&dc,&d); cc_deque_add_first(d,(void*)1); cc_deque_add_last(d,(void*)2)
  SWEEP("deque_add_last(grow)", DSET, cc_deque_add_last(d,(void*)3), snapD(d), cc_deque_destroy(d));
  SWEEP("deque_add_first(grow)", DSET, cc_deque_add_first(d,(void*)3), snapD(d), cc_deque_destroy(d));
  SWEEP("deque_add_at(grow)", DSET, cc_deque_add_at(d,(void*)3,1), snapD(d), cc_deque_destroy(d));
  SWEEP("deque_trim", DSET; cc_deque_add_last(d,(void*)3); cc_deque_remove_first(d,NULL); cc_deque_remove_first(d,NULL), cc_deque_trim_capacity(d), snapD(d), cc_deque_destroy(d));
  SWEEP("deque_copy", DSET, cc_deque_copy_shallow(d,&d2), snapD(d), if(st==CC_OK) cc_deque_destroy(d2); cc_deque_destroy(d));
  SWEEP("deque_filter", DSET; cc_deque_add_last(d,(void*)4); cc_deque_add_last(d,(void*)6);cc_deque_add_last(d,(void*)8), cc_deque_filter(d,even,&d2), snapD(d), if(st==CC_OK) cc_deque_destroy(d2); cc_deque_destroy(d));
  CC_ListConf lc; cc_list_conf_init(&lc); lc.mem_alloc=A;lc.mem_calloc=C;lc.mem_free=Fr; CC_List*l,*l2,*l3;
  #define LSET cc_list_new_conf(&lc,&l); cc_list_add(l,(void*)1); cc_list_add(l,(void*)2); cc_list_new_conf(&lc,&l2); cc_list_add(l2,(void*)4); cc_list_add(l2,(void*)6); cc_list_add(l2,(void*)8)
  #define LTD cc_list_destroy(l); cc_list_destroy(l2)
  SWEEP("list_new", (void)0, cc_list_new_conf(&lc,&l), 0L, if(st==CC_OK) cc_list_destroy(l));
  SWEEP("list_add", LSET, cc_list_add(l,(void*)3), snapL(l), LTD);
  SWEEP("list_add_at", LSET, cc_list_add_at(l,(void*)3,1), snapL(l), LTD);
  SWEEP("list_add_all", LSET, cc_list_add_all(l,l2), snapL(l)*13+snapL(l2), LTD);
  SWEEP("list_add_all_at", LSET, cc_list_add_all_at(l,l2,1), snapL(l)*13+snapL(l2), LTD);
  SWEEP("list_sublist", LSET, cc_list_sublist(l2,0,2,&l3), snapL(l2), if(st==CC_OK) cc_list_destroy(l3); LTD);
  SWEEP("list_copy", LSET, cc_list_copy_shallow(l2,&l3), snapL(l2), if(st==CC_OK) cc_list_destroy(l3); LTD);
  SWEEP("list_filter", LSET, cc_list_filter(l2,even,&l3), snapL(l2), if(st==CC_OK) cc_list_destroy(l3); LTD);
  SWEEP("list_sort", LSET, cc_list_sort(l2,cmp), snapL(l2), LTD);
  { CC_ListIter it; void*o; SWEEP("list_iter_add", LSET; cc_list_iter_init(&it,l); cc_list_iter_next(&it,&o), cc_list_iter_add(&it,(void*)9), snapL(l)+it.index, LTD); }
  CC_SListConf sc; cc_slist_conf_init(&sc); sc.mem_alloc=A;sc.mem_calloc=C;sc.mem_free=Fr; CC_SList*s,*s2,*s3;
  #define SSET cc_slist_new_conf(&sc,&s); cc_slist_add(s,(void*)1); cc_slist_add(s,(void*)2); cc_slist_new_conf(&sc,&s2); cc_slist_add(s2,(void*)4); cc_slist_add(s2,(void*)6); cc_slist_add(s2,(void*)8)
  #define STD cc_slist_destroy(s); cc_slist_destroy(s2)
  SWEEP("slist_add_all", SSET, cc_slist_add_all(s,s2), snapS(s)*13+snapS(s2), STD);
  SWEEP("slist_add_all_at", SSET, cc_slist_add_all_at(s,s2,1), snapS(s)*13+snapS(s2), STD);
  SWEEP("slist_sublist", SSET, cc_slist_sublist(s2,0,2,&s3), snapS(s2), if(st==CC_OK) cc_slist_destroy(s3); STD);
  SWEEP("slist_copy", SSET, cc_slist_copy_shallow(s2,&s3), snapS(s2), if(st==CC_OK) cc_slist_destroy(s3); STD);
  SWEEP("slist_filter", SSET, cc_slist_filter(s2,even,&s3), snapS(s2), if(st==CC_OK) cc_slist_destroy(s3); STD);
  SWEEP("slist_sort", SSET, cc_slist_sort(s2,cmp), snapS(s2), STD);
  CC_HashTableConf hc; cc_hashtable_conf_init(&hc); hc.mem_alloc=A;hc.mem_calloc=C;hc.mem_free=Fr; hc.hash=hptr; hc.key_compare=cmp; hc.key_length=8; hc.initial_capacity=2; hc.load_factor=0.5; CC_HashTable*h; CC_Array*ka;
  #define HSET cc_hashtable_new_conf(&hc,&h); cc_hashtable_add(h,(void*)1,(void*)10)
  SWEEP("hashtable_new", (void)0, cc_hashtable_new_conf(&hc,&h), 0L, if(st==CC_OK) cc_hashtable_destroy(h));
  SWEEP("hashtable_add(resize)", HSET, cc_hashtable_add(h,(void*)2,(void*)20), snapH(h), cc_hashtable_destroy(h));
  SWEEP("hashtable_add_null", HSET, cc_hashtable_add(h,NULL,(void*)20), snapH(h), cc_hashtable_destroy(h));
  SWEEP("hashtable_get_keys", HSET; cc_hashtable_add(h,(void*)2,(void*)20), cc_hashtable_get_keys(h,&ka), snapH(h), if(st==CC_OK) cc_array_destroy(ka); cc_hashtable_destroy(h));
  CC_HashSet*hs; SWEEP("hashset_new", (void)0, cc_hashset_new_conf(&hc,&hs), 0L, if(st==CC_OK) cc_hashset_destroy(hs));
  CC_TreeTableConf tc; cc_treetable_conf_init(&tc); tc.mem_alloc=A;tc.mem_calloc=C;tc.mem_free=Fr; tc.cmp=cmp; CC_TreeTable*t; CC_TreeSet*ts;
  SWEEP("treetable_new", (void)0, cc_treetable_new_conf(&tc,&t), 0L, if(st==CC_OK) cc_treetable_destroy(t));
  SWEEP("treetable_add", cc_treetable_new_conf(&tc,&t); cc_treetable_add(t,(void*)5,(void*)5); cc_treetable_add(t,(void*)3,(void*)3), cc_treetable_add(t,(void*)4,(void*)4), snapT(t), cc_treetable_destroy(t));
  SWEEP("treeset_new", (void)0, cc_treeset_new_conf(&tc,&ts), 0L, if(st==CC_OK) cc_treeset_destroy(ts));
  CC_TSTTableConf xc; cc_tsttable_conf_init(&xc); xc.mem_alloc=A;xc.mem_calloc=C;xc.mem_free=Fr; CC_TSTTable*x;
  SWEEP("tst_new", (void)0, cc_tsttable_new_conf(&xc,&x), 0L, if(st==CC_OK) cc_tsttable_destroy(x));
  SWEEP("tst_add_long", cc_tsttable_new_conf(&xc,&x); cc_tsttable_add(x,W[1],(void*)1), cc_tsttable_add(x,W[6],(void*)7), snapX(x), cc_tsttable_destroy(x));
  SWEEP("tst_add_prefix", cc_tsttable_new_conf(&xc,&x); cc_tsttable_add(x,W[2],(void*)1), cc_tsttable_add(x,W[1],(void*)7), snapX(x), cc_tsttable_destroy(x));
  CC_PQueueConf pc; cc_pqueue_conf_init(&pc,cmp); pc.mem_alloc=A;pc.mem_calloc=C;pc.mem_free=Fr; pc.capacity=2; CC_PQueue*p;
  SWEEP("pqueue_new", (void)0, cc_pqueue_new_conf(&pc,&p), 0L, if(st==CC_OK) cc_pqueue_destroy(p));
  { void*o; SWEEP("pqueue_push(grow)", cc_pqueue_new_conf(&pc,&p); cc_pqueue_push(p,(void*)1); cc_pqueue_push(p,(void*)2), cc_pqueue_push(p,(void*)3), (cc_pqueue_top(p,&o),(long)o), cc_pqueue_destroy(p)); }
  CC_Queue*q; SWEEP("queue_new", (void)0, cc_queue_new_conf(&dc,&q), 0L, if(st==CC_OK) cc_queue_destroy(q));
  CC_Stack*k,*k2; SWEEP("stack_new", (void)0, cc_stack_new_conf(&ac,&k), 0L, if(st==CC_OK) cc_stack_destroy(k));
  SWEEP("stack_filter", cc_stack_new_conf(&ac,&k); cc_stack_push(k,(void*)2); cc_stack_push(k,(void*)4); cc_stack_push(k,(void*)6), cc_stack_filter(k,even,&k2), (long)cc_stack_size(k), if(st==CC_OK) cc_stack_destroy(k2); cc_stack_destroy(k));
  printf("fault sweep done: problems=%d, allocator calls observed=%ld\n",problems,allocs);
  return problems!=0;
}
