import ctypes, random, sys
from ctypes import *
L = ctypes.CDLL(sys.argv[1]); N=int(sys.argv[2])
vp=c_void_p
for f in ['cc_dynamic_pool_used_bytes','cc_dynamic_pool_free_bytes']: getattr(L,f).restype=c_size_t
L.cc_dynamic_pool_malloc.restype=vp; L.cc_dynamic_pool_calloc.restype=vp
ALLOC=CFUNCTYPE(vp,c_size_t); CALLOC=CFUNCTYPE(vp,c_size_t,c_size_t); FREE=CFUNCTYPE(None,vp)
libc=ctypes.CDLL(None); libc.malloc.restype=vp; libc.calloc.restype=vp; libc.malloc.argtypes=[c_size_t]; libc.calloc.argtypes=[c_size_t,c_size_t]; libc.free.argtypes=[vp]
pages={}  # addr -> size
errors=[]
def my_alloc(n):
    a=libc.malloc(n); pages[a]=n; return a
def my_calloc(a,b):
    p=libc.calloc(a,b); pages[p]=a*b; return p
def my_free(p):
    if p is None: return
    if p not in pages: errors.append(f'free of unknown/double {p}')
    else: del pages[p]
    libc.free(p)
fa,fc,ff=ALLOC(my_alloc),CALLOC(my_calloc),FREE(my_free)
class Conf(Structure): _fields_=[('exp_factor',c_float),('is_fixed',c_bool),('is_packed',c_bool),('alignment_boundary',c_size_t),('mem_alloc',ALLOC),('mem_calloc',CALLOC),('mem_free',FREE)]
class Fail(Exception): pass
def check(c,m):
    if not c: raise Fail(m)
def run(seed):
    rng=random.Random(seed); pages.clear(); errors.clear()
    c=Conf(); L.cc_dynamic_pool_conf_init(byref(c)); c.mem_alloc=fa; c.mem_calloc=fc; c.mem_free=ff
    c.exp_factor=rng.choice([0.5,1.0,1.5,2.0]); c.is_fixed=rng.random()<.4; c.is_packed=rng.random()<.5; c.alignment_boundary=rng.choice([1,2,4,8,16])
    size=rng.choice([8,16,24,40,64]); p=vp(); check(L.cc_dynamic_pool_new_conf(c_size_t(size),byref(c),byref(p))==0,'new')
    live=[]; handed=0
    for step in range(80):
        op=rng.choice(['m','m','m','c','f','r'])
        if op in('m','c'):
            n=rng.choice([1,2,3,5,8,13,16,size-1,size])
            a=L.cc_dynamic_pool_malloc(c_size_t(n),p) if op=='m' else L.cc_dynamic_pool_calloc(c_size_t(1),c_size_t(n),p)
            if a is not None:
                # inside a page the pool owns (payload after 16-byte header; pool struct itself is also in `pages`)
                inpage=[(b,s) for b,s in pages.items() if b+16<=a and a+n<=b+s]
                check(inpage, f'block outside any owned page n={n}')
                for (b,m) in live: check(a+n<=b or b+m<=a, f'overlap with live block')
                if not c.is_packed: check(a % c.alignment_boundary==0, f'misaligned {a % c.alignment_boundary} boundary {c.alignment_boundary}')
                if op=='c': check(string_at(a,n)==b'\0'*n,'calloc not zero')
                memset(a,0x5A,n)
                live.append((a,n)); handed+=n
                if c.is_fixed: check(sum(m for _,m in live)<=size, 'fixed pool handed out more than its size')
        elif op=='f' and live:
            a,n=rng.choice(live[-2:]); before=L.cc_dynamic_pool_used_bytes(p); L.cc_dynamic_pool_free(vp(a),p); after=L.cc_dynamic_pool_used_bytes(p)
            if after!=before:
                check(a==live[-1][0],'free of non-top changed state'); live.pop()
        elif op=='r' and rng.random()<.3:
            L.cc_dynamic_pool_reset(p); live=[]
            check(len(pages)==2, f'after reset pool owns {len(pages)-1} pages')
            check(L.cc_dynamic_pool_used_bytes(p)==0 and L.cc_dynamic_pool_free_bytes(p)==size, f'reset state used={L.cc_dynamic_pool_used_bytes(p)} free={L.cc_dynamic_pool_free_bytes(p)} size={size}')
        check(not errors, str(errors))
    L.cc_dynamic_pool_destroy(p)
    check(not pages, f'leak: {len(pages)} blocks after destroy'); check(not errors,str(errors))
bad=0
for s in range(N):
    try: run(s)
    except Fail as e:
        bad+=1; print('FAIL dpool seed',s,e)
        if bad>=4: break
print('dpool failing runs:',bad)
