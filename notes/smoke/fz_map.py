#!/usr/bin/env python3
# throwaway: hashtable / treetable / tsttable / pqueue / rbuf / pools vs python oracles
import ctypes, random, sys
from ctypes import *
L = ctypes.CDLL(sys.argv[1]); N = int(sys.argv[2])
OK, ITER_END = 0, 9
vp = c_void_p
class Fail(Exception): pass
def check(c, m):
    if not c: raise Fail(m)
for f in ['cc_hashtable_size', 'cc_hashtable_capacity', 'cc_treetable_size', 'cc_tsttable_size', 'cc_rbuf_size',
          'cc_static_pool_used_bytes', 'cc_static_pool_free_bytes', 'cc_dynamic_pool_used_bytes', 'cc_dynamic_pool_free_bytes']:
    getattr(L, f).restype = c_size_t
L.cc_hashtable_contains_key.restype = c_bool; L.cc_tsttable_contains_key.restype = c_bool
L.cc_treetable_contains_key.restype = c_bool
L.cc_static_pool_malloc.restype = vp; L.cc_static_pool_calloc.restype = vp
L.cc_dynamic_pool_malloc.restype = vp; L.cc_dynamic_pool_calloc.restype = vp

HASH = CFUNCTYPE(c_size_t, vp, c_int, c_uint32); CMPF = CFUNCTYPE(c_int, vp, vp)
class HConf(Structure):
    _fields_ = [('load_factor', c_float), ('initial_capacity', c_size_t), ('key_length', c_int), ('hash_seed', c_uint32),
                ('hash', HASH), ('key_compare', CMPF), ('mem_alloc', vp), ('mem_calloc', vp), ('mem_free', vp)]
class TE(Structure): pass
TE._fields_ = [('key', vp), ('value', vp), ('hash', c_size_t), ('next', POINTER(TE))]
class HIt(Structure): _fields_ = [('table', vp), ('bucket_index', c_size_t), ('prev', POINTER(TE)), ('next', POINTER(TE))]
hash_const = HASH(lambda k, l, s: 7)
hash_low = HASH(lambda k, l, s: ((k or 0) & 1) | 0x100)
hash_id = HASH(lambda k, l, s: (k or 0) * 2654435761 % (1 << 32))
cmp_ptr = CMPF(lambda a, b: ((a or 0) > (b or 0)) - ((a or 0) < (b or 0)))

def hashtable(seed):
    rng = random.Random(seed)
    c = HConf(); L.cc_hashtable_conf_init(byref(c))
    c.hash = rng.choice([hash_const, hash_low, hash_id]); c.key_compare = cmp_ptr; c.key_length = 8
    c.initial_capacity = rng.choice([0, 1, 2, 3, 5, 16]); c.load_factor = rng.choice([0.25, 0.5, 0.75, 1.0])
    h = vp(); check(L.cc_hashtable_new_conf(byref(c), byref(h)) == OK, 'new')
    ref = {}
    for step in range(150):
        k = rng.choice([0, 0, 1, 2, 3, 4, 5, 6, 17, 33, 65, 129]) if rng.random() < .7 else rng.randrange(0, 40)
        op = rng.choice(['add', 'add', 'get', 'remove', 'contains', 'iter', 'iterrm', 'keys', 'rmall'])
        if op == 'add':
            v = rng.randrange(1, 1000); check(L.cc_hashtable_add(h, vp(k), vp(v)) == OK, 'add'); ref[k] = v
            cap = L.cc_hashtable_capacity(h); check(cap & (cap - 1) == 0, 'cap pow2')
            check(len(ref) <= cap * c.load_factor + 1e-9, f'load: size {len(ref)} cap {cap} lf {c.load_factor}')
        elif op == 'get':
            o = vp(); st = L.cc_hashtable_get(h, vp(k), byref(o))
            if k in ref: check(st == OK and (o.value or 0) == ref[k], f'get {k}')
            else: check(st != OK, 'get absent')
        elif op == 'remove':
            o = vp(); st = L.cc_hashtable_remove(h, vp(k), byref(o))
            if k in ref: check(st == OK and (o.value or 0) == ref.pop(k), 'remove')
            else: check(st != OK, 'remove absent')
        elif op == 'contains':
            check(bool(L.cc_hashtable_contains_key(h, vp(k))) == (k in ref), f'contains {k}')
        elif op in ('iter', 'iterrm'):
            it = HIt(); L.cc_hashtable_iter_init(byref(it), h); seen = []
            e = POINTER(TE)()
            while L.cc_hashtable_iter_next(byref(it), byref(e)) != ITER_END:
                kk = e.contents.key or 0; seen.append(kk)
                check(kk in ref and (e.contents.value or 0) == ref[kk], 'iter entry')
                if op == 'iterrm' and rng.random() < .4:
                    o = vp(); check(L.cc_hashtable_iter_remove(byref(it), byref(o)) == OK and (o.value or 0) == ref.pop(kk), 'iter_remove')
            check(len(seen) == len(set(seen)), f'iter dup {seen}')
            if op == 'iter': check(sorted(seen) == sorted(ref), f'iter set {sorted(seen)} vs {sorted(ref)}')
        elif op == 'keys' and ref:
            a = vp(); check(L.cc_hashtable_get_keys(h, byref(a)) == OK, 'get_keys')
            L.cc_array_size.restype = c_size_t; n = L.cc_array_size(a); ks = []
            for i in range(n):
                o = vp(); L.cc_array_get_at(a, c_size_t(i), byref(o)); ks.append(o.value or 0)
            check(sorted(ks) == sorted(ref), 'keys'); L.cc_array_destroy(a)
        elif op == 'rmall' and rng.random() < .2:
            L.cc_hashtable_remove_all(h); ref.clear()
        check(L.cc_hashtable_size(h) == len(ref), f'size {L.cc_hashtable_size(h)} vs {len(ref)} after {op}')
    L.cc_hashtable_destroy(h)

class TEnt(Structure): _fields_ = [('key', vp), ('value', vp)]
class TIt(Structure): _fields_ = [('table', vp), ('current', vp), ('next', vp)]
def treetable(seed):
    rng = random.Random(seed); t = vp(); L.cc_treetable_new(cmp_ptr, byref(t)); ref = {}
    for step in range(150):
        k = rng.randrange(1, 30); op = rng.choice(['add', 'add', 'remove', 'gt', 'lt', 'first', 'last', 'rmf', 'rml', 'iterrm'])
        if op == 'add': v = rng.randrange(1, 999); L.cc_treetable_add(t, vp(k), vp(v)); ref[k] = v
        elif op == 'remove':
            o = vp(); st = L.cc_treetable_remove(t, vp(k), byref(o))
            check((st == OK) == (k in ref), 'remove st');
            if k in ref: check((o.value or 0) == ref.pop(k), 'remove val')
        elif op in ('gt', 'lt'):
            o = vp(7777); st = getattr(L, 'cc_treetable_get_' + ('greater' if op == 'gt' else 'lesser') + '_than')(t, vp(k), byref(o))
            if k in ref:
                c = [x for x in ref if (x > k if op == 'gt' else x < k)]
                if c: check(st == OK and (o.value or 0) == (min(c) if op == 'gt' else max(c)), f'{op} {k}: st={st} out={o.value} ref={sorted(ref)}')
                else: check(st != OK, f'{op} at extreme returned OK out={o.value}')
        elif op in ('first', 'last'):
            o = vp(); st = getattr(L, f'cc_treetable_get_{op}_key')(t, byref(o))
            if ref: check(st == OK and (o.value or 0) == (min(ref) if op == 'first' else max(ref)), op)
            else: check(st != OK, op + ' empty')
        elif op in ('rmf', 'rml'):
            o = vp(); st = getattr(L, 'cc_treetable_remove_' + ('first' if op == 'rmf' else 'last'))(t, byref(o))
            if ref:
                kk = min(ref) if op == 'rmf' else max(ref); check(st == OK and (o.value or 0) == ref.pop(kk), op)
            else: check(st != OK, op + ' empty')
        elif op == 'iterrm':
            it = TIt(); L.cc_treetable_iter_init(byref(it), t); e = TEnt(); seen = []
            exp = sorted(ref)
            while L.cc_treetable_iter_next(byref(it), byref(e)) != ITER_END:
                kk = e.key or 0; seen.append(kk)
                if rng.random() < .4:
                    o = vp(); check(L.cc_treetable_iter_remove(byref(it), byref(o)) == OK and (o.value or 0) == ref.pop(kk), 'iter_remove')
            check(seen == exp, f'iter order {seen} vs {exp}')
        check(L.cc_treetable_size(t) == len(ref), 'size')
    L.cc_treetable_destroy(t)

class TstEnt(Structure): _fields_ = [('key', c_char_p), ('value', vp)]
class TstIt(Structure): _fields_ = [('table', vp), ('prev', vp), ('cur', vp), ('next', vp), ('adv', c_bool), ('stat', c_int)]
WORDS = [b'a', b'ab', b'abc', b'abd', b'b', b'ba', b'x', b'xy', b'xyz', b'abcde', b'abcdf', b'm', b'\xc3\xa9', b'aa', b'aaa', b'aaaa', b'z']
KEEP = [create_string_buffer(w) for w in WORDS]
def tst(seed):
    rng = random.Random(seed); t = vp(); L.cc_tsttable_new(byref(t)); ref = {}
    for step in range(120):
        i = rng.randrange(len(WORDS)); k = WORDS[i]; kb = KEEP[i]
        op = rng.choice(['add', 'add', 'get', 'remove', 'contains', 'iter', 'iterrm', 'rmall'])
        if op == 'add': v = rng.randrange(1, 999); check(L.cc_tsttable_add(t, kb, vp(v)) == OK, 'add'); ref[k] = v
        elif op == 'get':
            o = vp(); st = L.cc_tsttable_get(t, kb, byref(o))
            if k in ref: check(st == OK and (o.value or 0) == ref[k], f'get {k}')
            else: check(st != OK, f'get absent {k}')
        elif op == 'remove':
            o = vp(); st = L.cc_tsttable_remove(t, kb, byref(o))
            if k in ref: check(st == OK and (o.value or 0) == ref.pop(k), 'remove')
            else: check(st != OK, 'remove absent')
        elif op == 'contains': check(bool(L.cc_tsttable_contains_key(t, kb)) == (k in ref), 'contains')
        elif op in ('iter', 'iterrm'):
            it = TstIt(); L.cc_tsttable_iter_init(byref(it), t); e = POINTER(TstEnt)(); seen = []; exp = sorted(ref)
            while L.cc_tsttable_iter_next(byref(it), byref(e)) != ITER_END:
                kk = e.contents.key; seen.append(kk)
                check(kk in ref and (e.contents.value or 0) == ref[kk], f'iter entry {kk}')
                if op == 'iterrm' and rng.random() < .4:
                    o = vp(); check(L.cc_tsttable_iter_remove(byref(it), byref(o)) == OK and (o.value or 0) == ref.pop(kk), 'iter_remove')
            check(sorted(seen) == exp, f'iter {seen} vs {exp}')
        elif op == 'rmall' and rng.random() < .2: L.cc_tsttable_remove_all(t); ref.clear()
        check(L.cc_tsttable_size(t) == len(ref), f'size {L.cc_tsttable_size(t)} vs {len(ref)} after {op}')
    L.cc_tsttable_destroy(t)

class PQConf(Structure): _fields_ = [('capacity', c_size_t), ('exp_factor', c_float), ('cmp', CMPF), ('a', vp), ('b', vp), ('c', vp)]
def pqueue(seed):
    rng = random.Random(seed); q = vp(); L.cc_pqueue_new(byref(q), cmp_ptr); ref = []
    for step in range(200):
        if rng.random() < .6: x = rng.randrange(1, 30); check(L.cc_pqueue_push(q, vp(x)) == OK, 'push'); ref.append(x)
        else:
            o = vp(); st = L.cc_pqueue_pop(q, byref(o))
            if ref: m = max(ref); check(st == OK and (o.value or 0) == m, f'pop {o.value} max {m}'); ref.remove(m)
            else: check(st != OK, 'pop empty')
        o = vp(); st = L.cc_pqueue_top(q, byref(o))
        if ref: check(st == OK and (o.value or 0) == max(ref), 'top')
    L.cc_pqueue_destroy(q)

def rbuf(seed):
    rng = random.Random(seed); r = vp(); L.cc_rbuf_new(byref(r)); ref = []
    for step in range(200):
        if rng.random() < .6:
            x = rng.randrange(1, 1 << 40); L.cc_rbuf_enqueue(r, c_uint64(x)); ref.append(x)
            if len(ref) > 10: ref.pop(0)
        else:
            o = c_uint64(0); st = L.cc_rbuf_dequeue(r, byref(o))
            if ref: check(st == OK and o.value == ref.pop(0), f'dequeue {o.value}')
            else: check(st != OK, 'dequeue empty')
        check(L.cc_rbuf_size(r) == len(ref), 'size')
    L.cc_rbuf_destroy(r)

def spool(seed):
    rng = random.Random(seed); size = rng.choice([0, 1, 8, 16, 33, 64]); off = rng.randrange(0, 4)
    buf = create_string_buffer(b'\xAA' * (size + off + 32)); st = create_string_buffer(64); p = vp()
    L.cc_static_pool_new(c_size_t(size), c_size_t(off), buf, st, byref(p))
    base = addressof(buf) + off; live = []; used = 0
    for step in range(60):
        op = rng.choice(['m', 'm', 'c', 'f', 'r'])
        if op in ('m', 'c'):
            n = rng.choice([0, 1, 3, 8, 16, size, size + 1, max(size - used, 0), 2**64 - 1])
            a = L.cc_static_pool_malloc(c_size_t(n), p) if op == 'm' else L.cc_static_pool_calloc(c_size_t(1), c_size_t(n), p)
            if a is None:
                check(n > size - used, f'refused fitting request n={n} used={used} size={size}') if False else None
            else:
                check(base <= a and a + n <= base + size, f'block out of bounds a-base={a-base} n={n} size={size}')
                for (b, m) in live: check(a + n <= b or b + m <= a or n == 0 or m == 0, 'overlap')
                live.append((a, n)); used += n
        elif op == 'f' and live:
            if rng.random() < .6: a, n = live[-1]
            else: a, n = rng.choice(live)
            before = L.cc_static_pool_used_bytes(p); L.cc_static_pool_free(vp(a), p); after = L.cc_static_pool_used_bytes(p)
            if after != before:
                check(a == live[-1][0] and after == before - live[-1][1], f'free changed used {before}->{after}'); used -= live[-1][1]; live.pop()
            else:
                check(a != live[-1][0] or live[-1][1] == 0 or True, 'x')
        elif op == 'r' and rng.random() < .2: L.cc_static_pool_reset(p); live = []; used = 0
        u = L.cc_static_pool_used_bytes(p); f = L.cc_static_pool_free_bytes(p)
        check(u + f == size, f'used+free {u}+{f} != {size}'); check(u == used, f'used {u} vs {used}')
    check(buf.raw[size + off:size + off + 32] == b'\xAA' * 32 and buf.raw[:off] == b'\xAA' * off, 'canary')

tests = {'hashtable': hashtable, 'treetable': treetable, 'tst': tst, 'pqueue': pqueue, 'rbuf': rbuf, 'spool': spool}
sel = sys.argv[3].split(',') if len(sys.argv) > 3 else list(tests)
for name in sel:
    bad = 0
    for s in range(N):
        try: tests[name](s)
        except Fail as e:
            bad += 1; print(f'FAIL {name} seed={s}: {e}')
            if bad >= 3: break
    print(name, 'failing runs:', bad)
