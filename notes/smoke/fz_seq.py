#!/usr/bin/env python3
# throwaway: differential smoke of list / slist / deque / array against a Python list
import ctypes, random, sys
from ctypes import c_void_p, c_size_t, c_int, POINTER, byref, CFUNCTYPE, c_bool
L = ctypes.CDLL(sys.argv[1])
SEED = int(sys.argv[2]) if len(sys.argv) > 2 else 1
N = int(sys.argv[3]) if len(sys.argv) > 3 else 300
OK, ITER_END = 0, 9
vp = c_void_p
def V(x): return vp(x)
PRED = CFUNCTYPE(c_bool, vp)
pred_even = PRED(lambda p: ((p or 0) % 2) == 0)
CMP = CFUNCTYPE(c_int, vp, vp)
cmp_val = CMP(lambda a, b: ((a or 0) > (b or 0)) - ((a or 0) < (b or 0)))

class Fail(Exception): pass
def check(c, msg):
    if not c: raise Fail(msg)

def mk(kind):
    h = vp()
    if kind == 'list': L.cc_list_new(byref(h))
    elif kind == 'slist': L.cc_slist_new(byref(h))
    elif kind == 'array': L.cc_array_new(byref(h))
    elif kind == 'deque': L.cc_deque_new(byref(h))
    return h
pref = {'list': 'cc_list_', 'slist': 'cc_slist_', 'array': 'cc_array_', 'deque': 'cc_deque_'}
def F(kind, name):
    f = getattr(L, pref[kind] + name)
    return f
for k in pref:
    for n in ['size']:
        F(k, n).restype = c_size_t
for k in pref:
    F(k, 'contains').restype = c_size_t

def content(kind, h):
    n = F(kind, 'size')(h)
    out = []
    for i in range(n):
        o = vp()
        st = F(kind, 'get_at')(h, c_size_t(i), byref(o))
        check(st == OK, f'get_at({i}) st={st} size={n}')
        out.append(o.value or 0)
    # iterator forward
    if kind == 'list':
        class It(ctypes.Structure): _fields_ = [('index', c_size_t), ('list', vp), ('last', vp), ('next', vp)]
        it = It(); L.cc_list_iter_init(byref(it), h); seq = []
        o = vp()
        while L.cc_list_iter_next(byref(it), byref(o)) != ITER_END: seq.append(o.value or 0)
        check(seq == out, f'iter fwd {seq} vs {out}')
        L.cc_list_diter_init(byref(it), h); seq = []
        while L.cc_list_diter_next(byref(it), byref(o)) != ITER_END: seq.append(o.value or 0)
        check(seq == out[::-1], f'iter bwd {seq} vs {out[::-1]}')
    if n:
        o = vp()
        if kind != 'array':
            F(kind, 'get_first')(h, byref(o)); check((o.value or 0) == out[0], 'first')
        F(kind, 'get_last')(h, byref(o)); check((o.value or 0) == out[-1], 'last')
    return out

def idx(rng, n):
    r = rng.random()
    if r < 0.15: return 0
    if r < 0.3: return max(n - 1, 0)
    if r < 0.4: return n
    if r < 0.45: return n + 1
    if r < 0.5: return 2**64 - 1
    return rng.randrange(0, n + 1)

def run(kind, seed, nops):
    rng = random.Random(seed)
    h = mk(kind); ref = []
    h2 = mk(kind); ref2 = []
    log = []
    for step in range(nops):
        n = len(ref)
        ops = ['add', 'add_first', 'add_at', 'remove', 'remove_at', 'remove_first', 'remove_last', 'replace_at',
               'reverse', 'filter_mut', 'contains', 'index_of', 'add2', 'add_all', 'add_all_at', 'splice', 'splice_at',
               'sublist', 'copy', 'remove_all', 'trim', 'sort']
        op = rng.choice(ops)
        x = rng.randrange(1, 9)
        i = idx(rng, n)
        log.append((op, x, i))
        try:
            if op == 'add':
                check(F(kind, 'add')(h, V(x)) == OK, 'add'); ref.append(x)
            elif op == 'add_first':
                if kind == 'array': continue
                check(F(kind, 'add_first')(h, V(x)) == OK, 'add_first'); ref.insert(0, x)
            elif op == 'add_at':
                if kind == 'deque' and 1 <= i and i + 1 <= n // 2: continue   # known finding D3
                st = F(kind, 'add_at')(h, V(x), c_size_t(i))
                lim = n + 1 if kind == 'array' else n
                if i < lim: check(st == OK, f'add_at st={st}'); ref.insert(i, x)
                else: check(st != OK, f'add_at accepted i={i} n={n}')
            elif op == 'remove':
                o = vp(); st = F(kind, 'remove')(h, V(x), byref(o))
                if x in ref: check(st == OK and o.value == x, 'remove'); ref.remove(x)
                else: check(st != OK, 'remove absent')
            elif op == 'remove_at':
                o = vp(); st = F(kind, 'remove_at')(h, c_size_t(i), byref(o))
                if i < n: check(st == OK and (o.value or 0) == ref[i], f'remove_at {i}'); ref.pop(i)
                else: check(st != OK, 'remove_at oor')
            elif op in ('remove_first', 'remove_last'):
                if kind == 'array' and op == 'remove_first': continue
                o = vp(); st = F(kind, op)(h, byref(o))
                if n:
                    e = ref.pop(0 if op == 'remove_first' else -1)
                    check(st == OK and (o.value or 0) == e, op)
                else: check(st != OK, op + ' empty')
            elif op == 'replace_at':
                o = vp(); st = F(kind, 'replace_at')(h, V(x), c_size_t(i), byref(o))
                if i < n: check(st == OK and (o.value or 0) == ref[i], 'replace_at'); ref[i] = x
                else: check(st != OK, 'replace oor')
            elif op == 'reverse':
                F(kind, 'reverse')(h); ref.reverse()
            elif op == 'filter_mut':
                if kind == 'slist' or True:
                    st = F(kind, 'filter_mut')(h, pred_even)
                    if n: check(st == OK, 'filter_mut'); ref[:] = [e for e in ref if e % 2 == 0]
                    else: check(st != OK, 'filter_mut empty')
            elif op == 'contains':
                check(F(kind, 'contains')(h, V(x)) == ref.count(x), 'contains')
            elif op == 'index_of':
                o = c_size_t(12345)
                if kind == 'list': st = L.cc_list_index_of(h, V(x), cmp_val, byref(o))
                else: st = F(kind, 'index_of')(h, V(x), byref(o))
                if x in ref: check(st == OK and o.value == ref.index(x), 'index_of')
                else: check(st != OK, 'index_of absent')
            elif op == 'add2':
                check(F(kind, 'add')(h2, V(x + 10)) == OK, 'add2'); ref2.append(x + 10)
            elif op in ('add_all', 'splice') and kind in ('list', 'slist'):
                st = F(kind, op)(h, h2); check(st == OK, op)
                ref.extend(ref2)
                if op == 'splice': ref2.clear()
            elif op in ('add_all_at', 'splice_at') and kind in ('list', 'slist'):
                st = F(kind, op)(h, h2, c_size_t(i))
                if not ref2: check(st == OK, op + ' empty src')
                else:
                    lim = n + 1 if kind == 'list' else n
                    if i < lim:
                        check(st == OK, f'{op} i={i} n={n} st={st}'); ref[i:i] = ref2
                        if op == 'splice_at': ref2.clear()
                    else: check(st != OK, f'{op} accepted i={i} n={n}')
            elif op in ('sublist', 'copy'):
                o = vp()
                if op == 'sublist':
                    b = rng.randrange(0, n + 1); e = idx(rng, n)
                    name = 'subarray' if kind == 'array' else 'sublist'
                    if kind == 'deque': continue
                    st = F(kind, name)(h, c_size_t(b), c_size_t(e), byref(o))
                    if b <= e < n: check(st == OK, 'sub'); exp = ref[b:e + 1]
                    else: check(st != OK, f'sub accepted b={b} e={e} n={n}'); continue
                else:
                    st = F(kind, 'copy_shallow')(h, byref(o)); check(st == OK, 'copy'); exp = list(ref)
                got = content(kind, o); check(got == exp, f'{op} {got} vs {exp}')
                # derived container must be usable: append past capacity
                for z in range(20): check(F(kind, 'add')(o, V(7)) == OK, f'{op} result cannot grow at +{z}')
                check(content(kind, o) == exp + [7] * 20, op + ' grown')
                check(content(kind, h) == ref, op + ' source changed')
                F(kind, 'destroy')(o)
            elif op == 'remove_all':
                if rng.random() < 0.2: F(kind, 'remove_all')(h); ref.clear()
            elif op == 'trim' and kind in ('array', 'deque'):
                check(F(kind, 'trim_capacity')(h) == OK, 'trim')
            elif op == 'sort' and kind in ('list', 'slist', 'array'):
                if kind == 'list' and rng.random() < 0.5:
                    L.cc_list_sort_in_place(h, cmp_val); ref.sort()
            check(content(kind, h) == ref, f'content after {op}')
            check(content(kind, h2) == ref2, f'content2 after {op}')
        except Fail as e:
            print(f'FAIL {kind} seed={seed} step={step} op={op} x={x} i={i} n={n}: {e}')
            print('   tail of log:', log[-6:])
            return False
    F(kind, 'destroy')(h); F(kind, 'destroy')(h2)
    return True

kinds = sys.argv[4].split(',') if len(sys.argv) > 4 else ['list', 'slist', 'deque', 'array']
bad = 0
for kind in kinds:
    for s in range(SEED, SEED + N):
        if not run(kind, s, 120):
            bad += 1
            if bad > 6: break
print('done, failing runs:', bad)
