#!/usr/bin/env python3
# throwaway: iterator programs (<=1 structural change per yield) vs an ideal cursor
import ctypes, random, sys
from ctypes import c_void_p, c_size_t, c_int, byref, c_bool
L = ctypes.CDLL(sys.argv[1])
OK, ITER_END = 0, 9
vp = c_void_p
class Fail(Exception): pass
def check(c, m):
    if not c: raise Fail(m)
class ArrIt(ctypes.Structure): _fields_ = [('ar', vp), ('index', c_size_t), ('last_removed', c_bool)]
class DqIt(ctypes.Structure): _fields_ = [('deque', vp), ('index', c_size_t), ('last_removed', c_bool)]
class LsIt(ctypes.Structure): _fields_ = [('index', c_size_t), ('list', vp), ('last', vp), ('next', vp)]
class SlIt(ctypes.Structure): _fields_ = [('index', c_size_t), ('list', vp), ('next', vp), ('current', vp), ('prev', vp)]
KIND = {'array': ('cc_array_', ArrIt, 'iter_'), 'deque': ('cc_deque_', DqIt, 'iter_'), 'list': ('cc_list_', LsIt, 'iter_'),
        'slist': ('cc_slist_', SlIt, 'iter_'), 'dlist': ('cc_list_', LsIt, 'diter_')}
for p in ['cc_array_', 'cc_deque_', 'cc_list_', 'cc_slist_']:
    getattr(L, p + 'size').restype = c_size_t
    getattr(L, p + 'iter_index').restype = c_size_t
L.cc_list_diter_index.restype = c_size_t

def content(p, h):
    n = getattr(L, p + 'size')(h); out = []
    for i in range(n):
        o = vp(); check(getattr(L, p + 'get_at')(h, c_size_t(i), byref(o)) == OK, 'get_at'); out.append(o.value or 0)
    if p == 'cc_list_' and n:
        it = LsIt(); L.cc_list_diter_init(byref(it), h); seq = []; o = vp()
        while L.cc_list_diter_next(byref(it), byref(o)) != ITER_END: seq.append(o.value or 0)
        check(seq == out[::-1], f'backward {seq} vs {out}')
        o = vp(); L.cc_list_get_last(h, byref(o)); check((o.value or 0) == out[-1], 'tail')
    if p == 'cc_slist_' and n:
        o = vp(); L.cc_slist_get_last(h, byref(o)); check((o.value or 0) == out[-1], f'slist tail {o.value} vs {out}')
    return out

def run(kind, seed):
    rng = random.Random(seed)
    p, It, ip = KIND[kind]
    h = vp(); getattr(L, p + 'new')(byref(h))
    n0 = rng.choice([0, 1, 2, 3, 4, 5, 7, 8, 9, 16])
    ref = []
    if kind == 'deque':   # rotate to get wrapped layouts
        r = rng.randrange(0, 8)
        for _ in range(r): L.cc_deque_add_last(h, vp(99))
        for _ in range(r): L.cc_deque_remove_first(h, None)
    for i in range(n0):
        getattr(L, p + 'add')(h, vp(i + 1)); ref.append(i + 1)
    it = It(); getattr(L, p + ip + 'init')(byref(it), h)
    desc = kind == 'dlist'
    pos = len(ref) if desc else 0      # asc: index of next; desc: index one past next (next = pos-1)
    fresh = 100; log = []
    yielded = []; expect_yield = list(reversed(ref)) if desc else list(ref)
    try:
        while True:
            o = vp(); st = getattr(L, p + ip + 'next')(byref(it), byref(o))
            more = (pos > 0) if desc else (pos < len(ref))
            log.append(('next', st, o.value))
            if not more:
                check(st == ITER_END, f'expected END got {st}'); break
            check(st == OK, f'next st={st} pos={pos} len={len(ref)}')
            cur = pos - 1 if desc else pos
            check((o.value or 0) == ref[cur], f'yield {o.value} expected {ref[cur]} (pos {pos})')
            yielded.append(ref[cur])
            pos = pos - 1 if desc else pos + 1
            # index report
            ix = getattr(L, p + ip + 'index')(byref(it))
            check(ix == cur, f'iter_index {ix} expected {cur}')
            act = rng.choice(['none', 'none', 'remove', 'add', 'replace'])
            log.append(act)
            if act == 'remove':
                o2 = vp(); st = getattr(L, p + ip + 'remove')(byref(it), byref(o2))
                check(st == OK and (o2.value or 0) == ref[cur], f'remove st={st} out={o2.value}')
                ref.pop(cur)
                if not desc: pos -= 1
            elif act == 'replace':
                if kind in ('array', 'deque', 'list', 'slist', 'dlist'):
                    fresh += 1; o2 = vp(); st = getattr(L, p + ip + 'replace')(byref(it), vp(fresh), byref(o2))
                    check(st == OK and (o2.value or 0) == ref[cur], f'replace st={st} out={o2.value} exp={ref[cur]}')
                    ref[cur] = fresh
            elif act == 'add':
                fresh += 1
                if kind == 'deque' and 1 <= pos and pos + 1 <= len(ref) // 2: continue   # D3
                st = getattr(L, p + ip + 'add')(byref(it), vp(fresh))
                check(st == OK, f'add st={st} pos={pos} len={len(ref)}')
                if desc:
                    ref.insert(cur, fresh)       # before the yielded element in list order
                    pos = cur                    # remaining unvisited are below cur
                    # after insertion the yielded element moved to cur+1; unvisited: indices < cur
                else:
                    ref.insert(pos, fresh); pos += 1
            check(content(p, h) == ref, f'content {content(p, h)} vs {ref}')
        check(content(p, h) == ref, 'final content')
        check(yielded == expect_yield, f'yielded {yielded} expected original {expect_yield}')
    except Fail as e:
        print(f'FAIL {kind} seed={seed} n0={n0}: {e}\n   log tail: {log[-8:]}')
        return False
    getattr(L, p + 'destroy')(h)
    return True

kinds = sys.argv[3].split(',') if len(sys.argv) > 3 else list(KIND)
N = int(sys.argv[2]); tot = 0
for k in kinds:
    bad = 0
    for s in range(N):
        if not run(k, s):
            bad += 1
            if bad >= 3: break
    print(k, 'failing runs:', bad); tot += bad
