import CollectionsC.Driver.Loop
import CollectionsC.Driver.DynamicPool
def main : IO Unit := CC.Driver.mainLoop (σ := CC.Driver.DynamicPoolD.Sess) {} CC.Driver.DynamicPoolD.step
