import CollectionsC.Driver.Loop
import CollectionsC.Driver.TreeTable
def main : IO Unit := CC.Driver.mainLoop (σ := CC.Driver.TreeTableD.Sess) {} CC.Driver.TreeTableD.step
