import CollectionsC.Driver.Loop
import CollectionsC.Driver.ArraySized
def main : IO Unit := CC.Driver.mainLoop (σ := CC.Driver.ArraySizedD.Sess) {} CC.Driver.ArraySizedD.step
