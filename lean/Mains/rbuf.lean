import CollectionsC.Driver.Loop
import CollectionsC.Driver.Rbuf
def main : IO Unit := CC.Driver.mainLoop (σ := CC.Driver.RbufD.Sess) {} CC.Driver.RbufD.step
