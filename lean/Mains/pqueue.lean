import CollectionsC.Driver.Loop
import CollectionsC.Driver.PQueue
def main : IO Unit := CC.Driver.mainLoop (σ := CC.Driver.PQueueD.Sess) {} CC.Driver.PQueueD.step
