import CollectionsC.Driver.Loop
import CollectionsC.Driver.Stack
def main : IO Unit := CC.Driver.mainLoop (σ := CC.Driver.StackD.Sess) {} CC.Driver.StackD.step
