import CollectionsC.Driver.Loop
import CollectionsC.Driver.DList
def main : IO Unit := CC.Driver.mainLoop (σ := CC.Driver.DListD.Sess) {} CC.Driver.DListD.step
