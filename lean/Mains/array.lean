import CollectionsC.Driver.Loop
import CollectionsC.Driver.Array
def main : IO Unit := CC.Driver.mainLoop (σ := CC.Driver.ArrayD.Sess) {} CC.Driver.ArrayD.step
