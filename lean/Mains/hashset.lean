import CollectionsC.Driver.Loop
import CollectionsC.Driver.HashSet
def main : IO Unit := CC.Driver.mainLoop (σ := CC.Driver.HashSetD.Sess) {} CC.Driver.HashSetD.step
