import CollectionsC.Driver.Loop
import CollectionsC.Driver.Queue
def main : IO Unit := CC.Driver.mainLoop (σ := CC.Driver.QueueD.Sess) {} CC.Driver.QueueD.step
