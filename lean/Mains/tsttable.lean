import CollectionsC.Driver.Loop
import CollectionsC.Driver.TST
def main : IO Unit := CC.Driver.mainLoop (σ := CC.Driver.TSTD.Sess) {} CC.Driver.TSTD.step
