import CollectionsC.Driver.Loop
import CollectionsC.Driver.SList
def main : IO Unit := CC.Driver.mainLoop (σ := CC.Driver.SListD.Sess) {} CC.Driver.SListD.step
