import CollectionsC.Driver.Loop
import CollectionsC.Driver.StaticPool
def main : IO Unit := CC.Driver.mainLoop (σ := CC.Driver.StaticPoolD.Sess) {} CC.Driver.StaticPoolD.step
