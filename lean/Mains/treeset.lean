import CollectionsC.Driver.Loop
import CollectionsC.Driver.TreeSet
def main : IO Unit := CC.Driver.mainLoop (σ := CC.Driver.TreeSetD.Sess) {} CC.Driver.TreeSetD.step
