import CollectionsC.Driver.Loop
import CollectionsC.Driver.Deque
def main : IO Unit := CC.Driver.mainLoop (σ := CC.Driver.DequeD.Sess) {} CC.Driver.DequeD.step
