import CollectionsC.Driver.Loop
import CollectionsC.Driver.HashTable
def main : IO Unit := CC.Driver.mainLoop (σ := CC.Driver.HashTableD.Sess) {} CC.Driver.HashTableD.step
