import CollectionsC.Model.HashTable
/-! Pointer-level model of `src/cc_hashtable.c`.

The heap is a finite map from entry ids (allocation serial numbers) to `TableEntry` nodes with a **raw**
`next` link; the table holds `capacity`, `size`, `threshold`, the allocator triple and the bucket
array of head ids.  `cc_hashtable_add` / `add_null_key` (chain scan, replace in place, head insertion),
`get`, `remove` / `remove_null_key` (the scan with the `prev` pointer, unlink, free), `resize` with
`move_entries` (the relinking loop that pushes every entry on the head of its new chain), `remove_all`,
`destroy` and the iterator (`bucket_index`, `prev_entry`, `next_entry` as ids) are written as the
pointer surgery of the C text, assignment by assignment.  `while (e)` loops over a chain take fuel
(`fresh`, the number of ids ever handed out: an acyclic chain cannot be longer); running out of fuel is a
cyclic chain and is reported as a fault.

`toTable` reads the bucket-list model (`Model/HashTable.lean`) off the heap; `Proofs/PHash*.lean` prove
that every operation preserves the shape invariant and commutes with it. -/
namespace CC.PHash
open CC CC.HT

structure PEntry where
  key   : Option Nat := none
  value : Nat := 0
  hash  : Nat := 0
  next  : Option Nat := none
  deriving Repr, DecidableEq, Inhabited

/-- the heap: entry id ↦ entry (a structure around the function so that a heap-returning definition
is not compiled as a closure) -/
structure Heap where
  get : Nat → Option PEntry := fun _ => none

structure PTable where
  capacity  : Nat
  size      : Nat
  threshold : Nat
  /-- `TableEntry **buckets`: head id of every chain -/
  buckets   : List (Option Nat)
  heap      : Heap := {}
  /-- serial number of the next entry to be allocated -/
  fresh     : Nat := 0
  triple    : Triple := .conf

/-- `CC_HashTableIter`: `bucket_index`, `prev_entry`, `next_entry` -/
structure PIter where
  bucketIndex : Nat
  prev : Option Nat
  next : Option Nat
  deriving Repr, DecidableEq

/-! ### field access -/
def nd (h : Heap) (id : Nat) : PEntry := (h.get id).getD {}
def upd (h : Heap) (id : Nat) (f : PEntry → PEntry) : Heap := ⟨fun j => if j = id then (h.get j).map f else h.get j⟩
def setNext (h : Heap) (id : Nat) (v : Option Nat) : Heap := upd h id ({ · with next := v })
def setValue (h : Heap) (id : Nat) (v : Nat) : Heap := upd h id ({ · with value := v })
def insert (h : Heap) (id : Nat) (e : PEntry) : Heap := ⟨fun j => if j = id then some e else h.get j⟩
def erase (h : Heap) (id : Nat) : Heap := ⟨fun j => if j = id then none else h.get j⟩
def toEntry (e : PEntry) : Entry := ⟨e.key, e.value, e.hash⟩

/-! ### walks along `next` -/

/-- the ids of the chain from `p` (at most `fuel` of them) and whether NULL was reached -/
def chainIds (h : Heap) : Nat → Option Nat → List Nat × Bool
  | _, none => ([], true)
  | 0, some _ => ([], false)
  | k + 1, some id => (id :: (chainIds h k (nd h id).next).1, (chainIds h k (nd h id).next).2)

/-- `while (e) { if (e->key matches) return e; e = e->next; }` -/
def findKey (h : Heap) (key : Option Nat) : Nat → Option Nat → Option Nat
  | _, none => none
  | 0, some _ => none
  | k + 1, some id => if (nd h id).key = key then some id else findKey h key k (nd h id).next

/-- the scan of `cc_hashtable_remove`: the matching entry and the entry before it (`prev`) -/
def findWithPrev (h : Heap) (key : Option Nat) : Nat → Option Nat → Option Nat → Option (Nat × Option Nat)
  | _, none, _ => none
  | 0, some _, _ => none
  | k + 1, some id, prev =>
    if (nd h id).key = key then some (id, prev) else findWithPrev h key k (nd h id).next (some id)

/-- the inner loop of `move_entries` on one source chain:
`next = entry->next; index = entry->hash & (dest_size - 1); entry->next = dest[index]; dest[index] = entry; entry = next` -/
def moveChain (n : Nat) : Nat → Heap → List (Option Nat) → Option Nat → Heap × List (Option Nat)
  | _, h, dest, none => (h, dest)
  | 0, h, dest, some _ => (h, dest)
  | k + 1, h, dest, some id =>
    moveChain n k (setNext h id (dest.getD ((nd h id).hash &&& (n - 1)) none))
      (dest.set ((nd h id).hash &&& (n - 1)) (some id)) (nd h id).next

/-- `move_entries`: every source chain in bucket order -/
def moveEntries (n fuel : Nat) (h : Heap) (src dest : List (Option Nat)) : Heap × List (Option Nat) :=
  src.foldl (fun acc p => moveChain n fuel acc.1 acc.2 p) (h, dest)

/-- the inner loop of `remove_all` / `destroy` on one chain: `next = entry->next; mem_free(entry); entry = next`;
returns the heap and the number of entries released -/
def freeChain : Nat → Heap → Option Nat → Heap × Nat
  | _, h, none => (h, 0)
  | 0, h, some _ => (h, 0)
  | k + 1, h, some id => ((freeChain k (erase h id) (nd h id).next).1, (freeChain k (erase h id) (nd h id).next).2 + 1)

def freeChains (fuel : Nat) (h : Heap) (src : List (Option Nat)) : Heap × Nat :=
  src.foldl (fun acc p => ((freeChain fuel acc.1 p).1, acc.2 + (freeChain fuel acc.1 p).2)) (h, 0)

namespace PTable

def bucket (t : PTable) (i : Nat) : Option Nat := t.buckets.getD i none
def index (t : PTable) (h : Nat) : Nat := h &&& (t.capacity - 1)
/-- every chain the `for (i < capacity)` loops visit is NULL-terminated within the fuel -/
def chainsOk (t : PTable) : Bool := (t.buckets.take t.capacity).all fun p => (chainIds t.heap t.fresh p).2

/-- `cc_hashtable_new_conf` -/
def new (c : HCfg) (initCap : Nat) (tr : Triple) (m : Mem) : Stat × Option PTable × Mem :=
  let a1 := m.allocT tr
  if !a1.1 then (.errAlloc, none, a1.2) else
  let cap := roundPowTwo initCap
  let a2 := a1.2.allocT tr
  if !a2.1 then (.errAlloc, none, a2.2.freeT tr) else
  (.ok, some { capacity := cap, size := 0, threshold := c.thr cap, buckets := List.replicate cap none, triple := tr }, a2.2)

/-- `resize` -/
def resize (c : HCfg) (t : PTable) (newCap : Nat) (m : Mem) : Stat × PTable × Mem :=
  if t.capacity = Gen.MAX_POW_TWO then (.errMaxCapacity, t, m) else
  let a := m.allocT t.triple
  if !a.1 then (.errAlloc, t, a.2) else
  let src := t.buckets.take t.capacity
  let ids := (src.map fun p => (chainIds t.heap t.fresh p).1).flatten
  let m := a.2.check (decide (t.capacity ≤ t.buckets.length) && t.chainsOk &&
                      ids.all (fun id => decide ((nd t.heap id).hash &&& (newCap - 1) < newCap)))
  let r := moveEntries newCap t.fresh t.heap src (List.replicate newCap none)
  (.ok, { t with capacity := newCap, threshold := c.thr newCap, buckets := r.2, heap := r.1 }, m.freeT t.triple)

def growLoop (c : HCfg) : Nat → PTable → Mem → Stat × PTable × Mem
  | 0, t, m => (.ok, t, m.check (t.size < t.threshold))
  | fuel + 1, t, m =>
    if t.size ≥ t.threshold then
      let r := resize c t (t.capacity <<< 1) m
      if r.1 ≠ .ok then r else growLoop c fuel r.2.1 r.2.2
    else (.ok, t, m)

/-- `cc_hashtable_add` / `add_null_key` -/
def add (c : HCfg) (t : PTable) (key : Option Nat) (v : Nat) (m : Mem) : Stat × PTable × Mem :=
  let g := growLoop c 64 t m
  if g.1 ≠ .ok then g else
  let t := g.2.1
  let m := g.2.2
  let h := keyHash c key
  let i := t.index h
  let m := m.check (i < t.buckets.length)
  let m := m.check (chainIds t.heap t.fresh (t.bucket i)).2
  match findKey t.heap key t.fresh (t.bucket i) with
  | some id => (.ok, { t with heap := setValue t.heap id v }, m)        -- replace->value = val
  | none =>
    let a := m.allocT t.triple
    if !a.1 then (.errAlloc, t, a.2) else
    (.ok, { t with heap := insert t.heap t.fresh { key := key, value := v, hash := h, next := t.bucket i },
                   buckets := t.buckets.set i (some t.fresh), fresh := t.fresh + 1, size := t.size + 1 }, a.2)

/-- `cc_hashtable_get` / `get_null_key` -/
def get (c : HCfg) (t : PTable) (key : Option Nat) (m : Mem) : Stat × Option Nat × Mem :=
  let i := t.index (keyHash c key)
  let m := m.check (i < t.buckets.length)
  let m := m.check (chainIds t.heap t.fresh (t.bucket i)).2
  match findKey t.heap key t.fresh (t.bucket i) with
  | some id => (.ok, some (nd t.heap id).value, m)
  | none => (.errKeyNotFound, none, m)

def containsKey (c : HCfg) (t : PTable) (key : Option Nat) (m : Mem) : Bool × Mem :=
  ((t.get c key m).1 == .ok, (t.get c key m).2.2)

/-- `cc_hashtable_remove` / `remove_null_key`: unlink with the `prev` pointer, release the entry -/
def remove (c : HCfg) (t : PTable) (key : Option Nat) (m : Mem) : Stat × Option Nat × PTable × Mem :=
  let i := t.index (keyHash c key)
  let m := m.check (i < t.buckets.length)
  let m := m.check (chainIds t.heap t.fresh (t.bucket i)).2
  match findWithPrev t.heap key t.fresh (t.bucket i) none with
  | some (id, prev) =>
    let next := (nd t.heap id).next
    let value := (nd t.heap id).value
    let t1 : PTable := match prev with
      | none => { t with buckets := t.buckets.set i next }            -- table->buckets[i] = next
      | some pv => { t with heap := setNext t.heap pv next }          -- prev->next = next
    (.ok, some value, { t1 with heap := erase t1.heap id, size := decWrap t.size }, m.freeT t.triple)
  | none => (.errKeyNotFound, none, t, m)

/-- `cc_hashtable_remove_all` -/
def removeAll (t : PTable) (m : Mem) : PTable × Mem :=
  let m := m.check (decide (t.capacity ≤ t.buckets.length) && t.chainsOk)
  let r := freeChains t.fresh t.heap (t.buckets.take t.capacity)
  ({ t with heap := r.1, buckets := (t.buckets.take t.capacity).map (fun _ => none) ++ t.buckets.drop t.capacity,
            size := decWrapN t.size r.2 }, freeN m t.triple r.2)

/-- `cc_hashtable_destroy` -/
def destroy (t : PTable) (m : Mem) : Mem :=
  let m := m.check (decide (t.capacity ≤ t.buckets.length) && t.chainsOk)
  ((freeN m t.triple (freeChains t.fresh t.heap (t.buckets.take t.capacity)).2).freeT t.triple).freeT t.triple

/-! ### iterator -/

def findBucketFrom (t : PTable) (start : Nat) : Option Nat :=
  ((List.range t.capacity).drop start).find? (fun i => (t.bucket i).isSome)

/-- `cc_hashtable_iter_init` -/
def iterInit (t : PTable) (m : Mem) : PIter × Mem :=
  let m := m.check (t.capacity ≤ t.buckets.length)
  match t.findBucketFrom 0 with
  | some i => ({ bucketIndex := i, prev := none, next := t.bucket i }, m)
  | none => ({ bucketIndex := 0, prev := none, next := none }, m)

/-- `cc_hashtable_iter_next`: `prev_entry = next_entry; next_entry = next_entry->next;` and, at the end
of a chain, the head of the next non-empty bucket.  Returns the id of the yielded entry. -/
def iterNext (t : PTable) (it : PIter) (m : Mem) : Stat × Option Nat × PIter × Mem :=
  match it.next with
  | none => (.iterEnd, none, it, m)
  | some id =>
    let m := m.check (t.heap.get id).isSome                      -- dereference of `next_entry`
    match (nd t.heap id).next with
    | some n => (.ok, some id, { it with prev := some id, next := some n }, m)
    | none =>
      let m := m.check (t.capacity ≤ t.buckets.length)
      match t.findBucketFrom (it.bucketIndex + 1) with
      | some i => (.ok, some id, { bucketIndex := i, prev := some id, next := t.bucket i }, m)
      | none => (.ok, some id, { it with prev := some id, next := none }, m)

/-- `cc_hashtable_iter_remove` (after H3) -/
def iterRemove (c : HCfg) (t : PTable) (it : PIter) (m : Mem) : Stat × Option Nat × PTable × PIter × Mem :=
  match it.prev with
  | none => (.errKeyNotFound, none, t, it, m)
  | some id =>
    let m := m.check (t.heap.get id).isSome                      -- dereference of `prev_entry`
    let r := t.remove c (nd t.heap id).key m
    (r.1, r.2.1, r.2.2.1, if r.1 = .ok then { it with prev := none } else it, r.2.2.2)

/-! ### reading the bucket-list model off the heap -/

/-- the entries of the chain starting at `p` -/
def chainEntries (t : PTable) (p : Option Nat) : List Entry :=
  (chainIds t.heap t.fresh p).1.map fun id => toEntry (nd t.heap id)

def toBuckets (t : PTable) : List (List Entry) := t.buckets.map t.chainEntries

def toTable (t : PTable) : HashTable :=
  { capacity := t.capacity, size := t.size, threshold := t.threshold, buckets := t.toBuckets, triple := t.triple }

/-- an entry pointer of the iterator as the bucket-list model represents it: by the key of its entry -/
def toIter (t : PTable) (it : PIter) : HIter :=
  { bucketIndex := it.bucketIndex, prev := it.prev.map fun id => (nd t.heap id).key,
    next := it.next.map fun id => (nd t.heap id).key }

/-- executable shape check (driver): chains NULL-terminated, every entry in exactly one chain, the
live ids are exactly the chained ones and all below `fresh` -/
def shapeOk (t : PTable) : Bool :=
  let idss := t.buckets.map fun p => (chainIds t.heap t.fresh p).1
  let flat := idss.flatten
  (t.buckets.all fun p => (chainIds t.heap t.fresh p).2) &&
  decide flat.Nodup &&
  flat.all (fun id => decide (id < t.fresh) && (t.heap.get id).isSome) &&
  (List.range t.fresh).all (fun id => (t.heap.get id).isSome == flat.contains id)

/-! ### histories (the same operations as `HashTable.step` / `HashTable.run`) -/

/-- one call of the public API on the heap -/
def step (c : HCfg) (t : PTable) (op : Spec.Map.Op) (m : Mem) : Spec.Map.Out × PTable × Mem :=
  match op with
  | .add k v => let r := t.add c k v m; (⟨some r.1, none⟩, r.2.1, r.2.2)
  | .get k => let r := t.get c k m; (⟨some r.1, r.2.1⟩, t, r.2.2)
  | .containsKey k => let r := t.containsKey c k m; (⟨none, some (if r.1 then 1 else 0)⟩, t, r.2)
  | .remove k => let r := t.remove c k m; (⟨some r.1, r.2.1⟩, r.2.2.1, r.2.2.2)
  | .removeAll => let r := t.removeAll m; (⟨none, none⟩, r.1, r.2)

/-- a history on the heap: outputs, failures of the insertions, final table, final ledger -/
def run (c : HCfg) (t : PTable) (ops : List Spec.Map.Op) (m : Mem) : List Spec.Map.Out × List (Option Stat) × PTable × Mem :=
  match ops with
  | [] => ([], [], t, m)
  | op :: ops =>
    let s := t.step c op m
    let rs := run c s.2.1 ops s.2.2
    (s.1 :: rs.1, HashTable.failedOf op s.1 :: rs.2.1, rs.2.2.1, rs.2.2.2)

end PTable
end CC.PHash
