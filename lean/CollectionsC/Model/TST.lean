import CollectionsC.Base.Status
import CollectionsC.Base.Mem
import CollectionsC.Spec.StrMapSpec
/-! Concrete model of `src/cc_tsttable.c` (ternary search trie keyed by NUL-terminated strings).

* A node is `node c data l m r`: the character, the entry pointer (`none` = `eow == NULL`; the entry
  holds the *caller's key pointer* and the value) and the three children.  `parent` pointers are
  implicit in the tree shape.
* Node addresses are **paths from the root** (`List Dir`): pruning never moves a surviving node, so a
  path names the same node before and after `remove_eow_node`.  The iterator keeps the same three
  fields as the C struct (`current_node`, `next_node`, `advanced_on_remove`/`next_stat`) as paths and
  runs the same pointer automaton (`iterStep` is the `if (previous_node == node->parent) … else if
  (previous_node == node->left) …` cascade, pointer comparisons included).
* `char_cmp` is a parameter `cmp : Nat → Nat → Ordering`; the library default (`c1 - c2` on `char`,
  signed on this platform) is `cmpSigned`.
* Every `mem_alloc`/`mem_calloc`/`mem_free` is a `Mem.allocT t.triple` / `Mem.freeT t.triple` event in the
  C order; `Table.triple` is the copy of the three function pointers the C struct keeps (`.conf` after
  `cc_tsttable_new_conf`, `.libc` after `cc_tsttable_new`).
* `iter_remove` repeated for one yielded element is rejected (repair X7).
* The empty key (known finding X5) is mirrored: `key_len = 0` makes `get_last_node` return the root
  slot with `last_index + 1 == key_len`. -/
namespace CC.TST

abbrev Key := List Nat
abbrev Entry := Key × Nat
abbrev Cmp := Nat → Nat → Ordering

inductive Dir where
  | L | M | R
  deriving DecidableEq, Repr, Inhabited

abbrev Path := List Dir

inductive Node where
  | nil
  | node (c : Nat) (data : Option Entry) (l m r : Node)
  deriving Repr, DecidableEq, Inhabited

/-- `char` is signed: bytes 128..255 are negative -/
def toSigned (b : Nat) : Int := if 128 ≤ b ∧ b < 256 then (b : Int) - 256 else b

/-- the library's default `char_cmp` : `return c1 - c2;` on (signed) `char` -/
def cmpSigned (a b : Nat) : Ordering :=
  if toSigned a < toSigned b then .lt else if toSigned b < toSigned a then .gt else .eq
/-- harness comparator `cmp=u` -/
def cmpUnsigned (a b : Nat) : Ordering := if a < b then .lt else if b < a then .gt else .eq
/-- harness comparator `cmp=r` -/
def cmpReverse (a b : Nat) : Ordering := cmpSigned b a

namespace Node

def isNil : Node → Bool
  | nil => true
  | _ => false

def child : Node → Dir → Node
  | nil, _ => nil
  | node _ _ l _ _, .L => l
  | node _ _ _ m _, .M => m
  | node _ _ _ _ r, .R => r

/-- the node a path points to (`nil` when the path leaves the tree) -/
def sub : Node → Path → Node
  | t, [] => t
  | nil, _ :: _ => nil
  | node _ _ l m r, d :: p => (match d with | .L => l | .M => m | .R => r).sub p

def data? : Node → Option Entry
  | nil => none
  | node _ d _ _ _ => d

/-- number of node blocks -/
def nodes : Node → Nat
  | nil => 0
  | node _ _ l m r => 1 + l.nodes + m.nodes + r.nodes

/-- number of end-of-word nodes (= entry blocks) -/
def marked : Node → Nat
  | nil => 0
  | node _ d l m r => (if d.isSome then 1 else 0) + l.marked + m.marked + r.marked

/-- `get_last_node` followed by `*last_node && (*last_node)->eow && last_index + 1 == key_len`:
the entry of the node at which the key is completely matched -/
def lookup (cmp : Cmp) : Node → Key → Option Entry
  | nil, _ => none
  | node _ d _ _ _, [] => d          -- key_len = 0: the loop body never runs, `*last_node` is the root
  | node c d l m r, x :: xs =>
    match cmp x c with
    | .lt => l.lookup cmp (x :: xs)
    | .gt => r.lookup cmp (x :: xs)
    | .eq => match xs with
      | [] => d                       -- `last_index + 1 == key_len` : break
      | _ :: _ => m.lookup cmp xs

/-- `get_last_node` as a path: the address of the node at which the key is completely matched -/
def findPath (cmp : Cmp) : Node → Key → Option Path
  | nil, _ => none
  | node _ _ _ _ _, [] => some []
  | node c _ l m r, x :: xs =>
    match cmp x c with
    | .lt => (l.findPath cmp (x :: xs)).map (Dir.L :: ·)
    | .gt => (r.findPath cmp (x :: xs)).map (Dir.R :: ·)
    | .eq => match xs with
      | [] => some []
      | _ :: _ => (m.findPath cmp xs).map (Dir.M :: ·)

end Node

/-- `n` calls of `mem_free` (of the table's allocator triple `tr`) -/
def freeN (tr : Triple) : Nat → Mem → Mem
  | 0, m => m
  | n + 1, m => freeN tr n (m.freeT tr)

/-- the `mem_calloc` calls of `make_mid_subtree`: `todo` nodes still to allocate, `made` already
allocated; a refusal runs `free_mid_chain` over the `made` nodes -/
def allocChain (tr : Triple) : Nat → Nat → Mem → Bool × Mem
  | 0, _, m => (true, m)
  | todo + 1, made, m =>
    let a := m.allocT tr
    if !a.1 then (false, freeN tr made a.2) else allocChain tr todo (made + 1) a.2

/-- the node list `make_mid_subtree` builds for a postfix, with the entry at its end.
`postfix_len = 0` (empty key into an empty table) still allocates `begin` and reads `key[0] = '\0'` -/
def mkChain (e : Entry) : Key → Node
  | [] => .node 0 (some e) .nil .nil .nil
  | [x] => .node x (some e) .nil .nil .nil
  | x :: y :: ys => .node x none .nil (mkChain e (y :: ys)) .nil

/-- number of nodes of `mkChain` -/
def chainLen (ks : Key) : Nat := max 1 ks.length

/-- result of the recursive part of `cc_tsttable_add` -/
structure InsRes where
  st   : Stat
  node : Node
  inc  : Bool      -- `table->size += 1` executed
  mem  : Mem

/-- `(*last_node)` exists: give it an entry if it has none, then overwrite key and value -/
def setData (tr : Triple) (key : Key) (v : Nat) (c : Nat) (d : Option Entry) (l m r : Node) (mem : Mem) : InsRes :=
  match d with
  | some _ => ⟨.ok, .node c (some (key, v)) l m r, false, mem⟩
  | none =>
    let a := mem.allocT tr
    if !a.1 then ⟨.errAlloc, .node c none l m r, false, a.2⟩
    else ⟨.ok, .node c (some (key, v)) l m r, true, a.2⟩

/-- `cc_tsttable_add` below the table header: descent of `get_last_node` on the remaining key `ks`,
then either the existing node gets the entry or `make_mid_subtree` builds the postfix chain -/
def Node.ins (tr : Triple) (cmp : Cmp) (key : Key) (v : Nat) : Node → Key → Mem → InsRes
  | .nil, ks, mem =>
    let a := allocChain tr (chainLen ks) 0 mem
    if !a.1 then ⟨.errAlloc, .nil, false, a.2⟩ else
    let b := a.2.allocT tr                               -- end->data = mem_alloc(sizeof entry)
    if !b.1 then ⟨.errAlloc, .nil, false, freeN tr (chainLen ks) b.2⟩ else
    ⟨.ok, mkChain (key, v) ks, true, b.2⟩
  | .node c d l m r, [], mem => setData tr key v c d l m r mem
  | .node c d l m r, x :: xs, mem =>
    match cmp x c with
    | .lt => let q := l.ins tr cmp key v (x :: xs) mem; ⟨q.st, .node c d q.node m r, q.inc, q.mem⟩
    | .gt => let q := r.ins tr cmp key v (x :: xs) mem; ⟨q.st, .node c d l m q.node, q.inc, q.mem⟩
    | .eq => match xs with
      | [] => setData tr key v c d l m r mem
      | y :: ys => let q := m.ins tr cmp key v (y :: ys) mem; ⟨q.st, .node c d l q.node r, q.inc, q.mem⟩

/-- result of `remove_eow_node` seen from one level of the tree -/
structure RemRes where
  hit    : Bool     -- the addressed node had an entry (otherwise `remove_eow_node` returns at once)
  node   : Node     -- what the slot holds afterwards
  pruned : Bool     -- the node of this slot was freed and the slot set to NULL: the loop goes on upward
  mem    : Mem

/-- one turn of the pruning loop at an ancestor whose child slot was just cleared -/
def rebuild (tr : Triple) (c : Nat) (d : Option Entry) (l m r : Node) (q : RemRes) : RemRes :=
  if q.pruned && l.isNil && m.isNil && r.isNil && d.isNone then ⟨q.hit, .nil, true, q.mem.freeT tr⟩
  else ⟨q.hit, .node c d l m r, false, q.mem⟩

/-- `remove_eow_node(table, node)` for the node at path `p` -/
def Node.remAt (tr : Triple) : Node → Path → Mem → RemRes
  | .nil, _, mem => ⟨false, .nil, false, mem.check false⟩      -- dangling pointer
  | .node c d l m r, [], mem =>
    match d with
    | none => ⟨false, .node c none l m r, false, mem⟩          -- if (!node->eow) return;
    | some _ =>
      let mem := mem.freeT tr                                   -- mem_free(node->data)
      if l.isNil && m.isNil && r.isNil then ⟨true, .nil, true, mem.freeT tr⟩
      else ⟨true, .node c none l m r, false, mem⟩
  | .node c d l m r, .L :: p, mem => let q := l.remAt tr p mem; rebuild tr c d q.node m r q
  | .node c d l m r, .M :: p, mem => let q := m.remAt tr p mem; rebuild tr c d l q.node r q
  | .node c d l m r, .R :: p, mem => let q := r.remAt tr p mem; rebuild tr c d l m q.node q

/-- `size_t` decrement -/
def decSize (s : Nat) : Nat := if s = 0 then 2 ^ 64 - 1 else s - 1

/-- `cc_tsttable_remove_all`: post-order walk (left, mid, right, then the node), `size -= 1` per entry -/
def Node.freeAll (tr : Triple) : Node → Nat → Mem → Nat × Mem
  | .nil, s, mem => (s, mem)
  | .node _ d l m r, s, mem =>
    let a := l.freeAll tr s mem
    let b := m.freeAll tr a.1 a.2
    let c := r.freeAll tr b.1 b.2
    match d with
    | some _ => (decSize c.1, (c.2.freeT tr).freeT tr)
    | none => (c.1, c.2.freeT tr)

/-! ### the table -/

structure Table where
  size : Nat
  root : Node
  triple : Triple := .conf      -- mem_alloc / mem_calloc / mem_free copied from the conf struct
  deriving Repr, DecidableEq

namespace Table

/-- `cc_tsttable_new_conf` with the given allocator triple (`cc_tsttable_new` passes the C library's) -/
def new (tr : Triple) (mem : Mem) : Stat × Option Table × Mem :=
  let a := mem.allocT tr
  if !a.1 then (.errAlloc, none, a.2) else (.ok, some { size := 0, root := .nil, triple := tr }, a.2)

/-- `cc_tsttable_add` -/
def add (cmp : Cmp) (t : Table) (key : Key) (v : Nat) (mem : Mem) : Stat × Table × Mem :=
  let q := t.root.ins t.triple cmp key v key mem
  (q.st, { t with size := if q.inc then t.size + 1 else t.size, root := q.node }, q.mem)

/-- `cc_tsttable_get` -/
def get (cmp : Cmp) (t : Table) (key : Key) : Stat × Option Nat :=
  match t.root.lookup cmp key with
  | some e => (.ok, some e.2)
  | none => (.errKeyNotFound, none)

/-- `cc_tsttable_contains_key` -/
def containsKey (cmp : Cmp) (t : Table) (key : Key) : Bool := (t.get cmp key).1 == .ok

/-- `cc_tsttable_remove` -/
def remove (cmp : Cmp) (t : Table) (key : Key) (mem : Mem) : Stat × Option Nat × Table × Mem :=
  match t.root.findPath cmp key with
  | none => (.errKeyNotFound, none, t, mem)
  | some p =>
    match (t.root.sub p).data? with
    | none => (.errKeyNotFound, none, t, mem)
    | some e =>
      let q := t.root.remAt t.triple p mem
      (.ok, some e.2, { t with size := if t.size > 0 then t.size - 1 else 0, root := q.node }, q.mem)

/-- `cc_tsttable_remove_all` -/
def removeAll (t : Table) (mem : Mem) : Table × Mem :=
  let a := t.root.freeAll t.triple t.size mem
  ({ t with size := a.1, root := .nil }, a.2)

/-- `cc_tsttable_destroy` -/
def destroy (t : Table) (mem : Mem) : Mem := (t.removeAll mem).2.freeT t.triple

end Table

/-! ### the iterator: the C pointer automaton over paths -/

structure Iter where
  cur      : Option Path := none     -- current_node
  next     : Option Path := none     -- next_node
  adv      : Bool := false           -- advanced_on_remove
  nextStat : Stat := .ok             -- next_stat (meaningful while `adv`)
  deriving Repr, DecidableEq

/-- `node->parent` -/
def parentPtr (p : Path) : Option Path := if p = [] then none else some p.dropLast

/-- `node->left / mid / right` of the node `n` living at path `p` -/
def childPtr (n : Node) (p : Path) (d : Dir) : Option Path :=
  if (n.child d).isNil then none else some (p ++ [d])

/-- first non-NULL pointer of a cascade `if (a) next = a; else if (b) next = b; … else error = 1` -/
def firstPtr : List (Option Path) → Option Path × Bool
  | [] => (none, true)
  | some p :: _ => (some p, false)
  | none :: rest => firstPtr rest

/-- the direction cascade of `cc_tsttable_iter_next` for the node `n` at path `p`, entered with
`previous_node = prev`: returns `next_node` and `error` -/
def iterStep (n : Node) (p : Path) (prev : Option Path) : Option Path × Bool :=
  let par := parentPtr p
  let lp := childPtr n p .L
  let mp := childPtr n p .M
  let rp := childPtr n p .R
  if prev = par then firstPtr [lp, mp, rp, par]
  else if prev = lp then firstPtr [mp, rp, par]
  else if prev = mp then firstPtr [rp, par]
  else if prev = rp then firstPtr [par]
  else (none, true)

/-- result of `cc_tsttable_iter_next` -/
structure NextRes where
  st   : Stat
  out  : Option Entry
  it   : Iter
  mem  : Mem

/-- the `while (node)` loop; `fuel` bounds the number of turns (2·nodes + 1 always suffices, see
`Proofs/TSTIter.lean`), running out of it or following a dangling pointer is a fault -/
def iterLoop (root : Node) (it : Iter) : Nat → Option Path → Option Path → Mem → NextRes
  | _, none, _, mem => ⟨.iterEnd, none, { it with next := none, cur := none }, mem⟩
  | 0, some _, _, mem => ⟨.iterEnd, none, { it with next := none, cur := none }, mem.check false⟩
  | fuel + 1, some p, prev, mem =>
    match root.sub p with
    | .nil => ⟨.iterEnd, none, { it with next := none, cur := none }, mem.check false⟩
    | .node c d l m r =>
      let s := iterStep (.node c d l m r) p prev
      if d.isSome && prev == parentPtr p then
        ⟨.ok, d, { it with cur := some p, next := if s.2 then none else s.1 }, mem⟩
      else if s.2 then ⟨.iterEnd, none, { it with next := none, cur := none }, mem⟩
      else iterLoop root it fuel s.1 (some p) mem

def iterFuel (root : Node) : Nat := 2 * root.nodes + 2

/-- `cc_tsttable_iter_init` -/
def iterInit (t : Table) : Iter :=
  { cur := none, next := if t.root.isNil then none else some [], adv := false }

/-- `cc_tsttable_iter_next` -/
def iterNext (t : Table) (it : Iter) (mem : Mem) : NextRes :=
  if it.adv then
    let it' := { it with adv := false }
    if it.nextStat = .ok then
      -- *out = ((CC_TSTTableNode*) iter->current_node)->data;
      match it.cur with
      | none => ⟨it.nextStat, none, it', mem.check false⟩
      | some p => ⟨it.nextStat, (t.root.sub p).data?, it', mem.check (!(t.root.sub p).isNil)⟩
    else ⟨it.nextStat, none, it', mem⟩
  else iterLoop t.root it (iterFuel t.root) it.next it.cur mem

/-- `cc_tsttable_iter_remove`; a repeated call for the same yielded entry (`advanced_on_remove` still
set) is rejected like a call with nothing yielded (repair X7) -/
def iterRemove (t : Table) (it : Iter) (wantOut : Bool) (mem : Mem) :
    Stat × Option Nat × Table × Iter × Mem :=
  match it.cur with
  | none => (.errKeyNotFound, none, t, it, mem)
  | some p =>
    if it.adv then (.errKeyNotFound, none, t, it, mem) else
    let d := (t.root.sub p).data?
    let mem := if wantOut then mem.check d.isSome else mem   -- if (out) *out = node->data->value
    let nx := iterNext t it mem
    let it' := { nx.it with adv := true, nextStat := nx.st }
    let q := t.root.remAt t.triple p nx.mem
    (.ok, d.map (·.2), { t with size := decSize t.size, root := q.node }, it', q.mem)

/-- the entries a fresh iterator yields, in yield order (`foreach_key`, `foreach_value`) -/
def iterAllLoop (t : Table) : Nat → Iter → Mem → List Entry × Mem
  | 0, _, mem => ([], mem)
  | n + 1, it, mem =>
    let r := iterNext t it mem
    if r.st = .iterEnd then ([], r.mem) else
    let rest := iterAllLoop t n r.it r.mem
    (match r.out with | some e => e :: rest.1 | none => rest.1, rest.2)

def iterAll (t : Table) (mem : Mem) : List Entry × Mem :=
  iterAllLoop t (t.root.nodes + 1) (iterInit t) mem

/-! ### histories -/

open Spec.StrMap (IOp IOut) in
/-- one call of an iterator session -/
def Table.iterOp (cmp : Cmp) (t : Table) (it : Iter) (op : IOp) (mem : Mem) : IOut × Table × Iter × Mem :=
  match op with
  | .next => let r := iterNext t it mem
             ({ st := r.st, key := r.out.map (·.1), val := r.out.map (·.2) }, t, r.it, r.mem)
  | .remove w => let r := iterRemove t it w mem
                 ({ st := r.1, val := r.2.1 }, r.2.2.1, r.2.2.2.1, r.2.2.2.2)
  | .get k => let r := t.get cmp k; ({ st := r.1, val := r.2 }, t, it, mem)
  | .contains k => ({ st := .ok, val := some (if t.containsKey cmp k then 1 else 0) }, t, it, mem)
  | .size => ({ st := .ok, val := some t.size }, t, it, mem)

open Spec.StrMap (IOp IOut) in
def Table.iterRun (cmp : Cmp) (t : Table) (it : Iter) (ops : List IOp) (mem : Mem) :
    List IOut × Table × Iter × Mem :=
  match ops with
  | [] => ([], t, it, mem)
  | op :: ops =>
    let s := t.iterOp cmp it op mem
    let rs := Table.iterRun cmp s.2.1 s.2.2.1 ops s.2.2.2
    (s.1 :: rs.1, rs.2)

open Spec.StrMap (Op Out) in
/-- one operation of a history; `add` installs its allocator schedule first; `iterate` runs a whole
iterator session from `iter_init` -/
def Table.step (cmp : Cmp) (t : Table) (op : Op) (mem : Mem) : Out × Table × Mem :=
  match op with
  | .add k v sched => let r := t.add cmp k v (mem.begin sched); ({ st := some r.1 }, r.2.1, r.2.2)
  | .get k => let r := t.get cmp k; ({ st := some r.1, val := r.2 }, t, mem)
  | .contains k => ({ val := some (if t.containsKey cmp k then 1 else 0) }, t, mem)
  | .remove k => let r := t.remove cmp k mem; ({ st := some r.1, val := r.2.1 }, r.2.2.1, r.2.2.2)
  | .removeAll => let r := t.removeAll mem; ({}, r.1, r.2)
  | .size => ({ val := some t.size }, t, mem)
  | .enumerate => let r := iterAll t mem; ({ enum := r.1 }, t, r.2)
  | .iterate prog => let r := t.iterRun cmp (iterInit t) prog mem; ({ iter := r.1 }, r.2.1, r.2.2.2)

open Spec.StrMap (Op Out) in
def Table.run (cmp : Cmp) (t : Table) (ops : List Op) (mem : Mem) : List Out × Table × Mem :=
  match ops with
  | [] => ([], t, mem)
  | op :: ops => let s := t.step cmp op mem; let rs := Table.run cmp s.2.1 ops s.2.2; (s.1 :: rs.1, rs.2.1, rs.2.2)

/-! ### abstraction and invariant -/

/-- the entries in first-arrival pre-order `self, left, mid, right`, each with the key its path
spells (the characters of the nodes left through `mid`, then the node's own character) -/
def Node.entries : Node → List (Key × Entry)
  | .nil => []
  | .node c d l m r =>
    (match d with | some e => [([c], e)] | none => []) ++ l.entries ++
      (m.entries.map fun x => (c :: x.1, x.2)) ++ r.entries

/-- the same enumeration with node addresses -/
def Node.entriesP : Node → List (Path × Entry)
  | .nil => []
  | .node _ d l m r =>
    (match d with | some e => [([], e)] | none => []) ++
      (l.entriesP.map fun x => (Dir.L :: x.1, x.2)) ++
      (m.entriesP.map fun x => (Dir.M :: x.1, x.2)) ++
      (r.entriesP.map fun x => (Dir.R :: x.1, x.2))

/-- characters of the nodes linked through `left`/`right` only (one level of the trie) -/
def Node.heads : Node → List Nat
  | .nil => []
  | .node c _ l _ r => c :: (l.heads ++ r.heads)

/-- every node of the left (right) level-subtree compares below (above) the node -/
def Node.Ordered (cmp : Cmp) : Node → Prop
  | .nil => True
  | .node c _ l m r =>
    (∀ x ∈ l.heads, cmp x c = .lt) ∧ (∀ x ∈ r.heads, cmp x c = .gt) ∧
      l.Ordered cmp ∧ m.Ordered cmp ∧ r.Ordered cmp

def Node.decOrdered (cmp : Cmp) : (n : Node) → Decidable (n.Ordered cmp)
  | .nil => by unfold Node.Ordered; infer_instance
  | .node c d l m r => by
    unfold Node.Ordered
    have := Node.decOrdered cmp l
    have := Node.decOrdered cmp m
    have := Node.decOrdered cmp r
    infer_instance
instance (cmp : Cmp) (n : Node) : Decidable (n.Ordered cmp) := Node.decOrdered cmp n

/-- no unmarked leaf: what `make_mid_subtree` and the pruning loop of `remove_eow_node` guarantee -/
def Node.Pruned : Node → Prop
  | .nil => True
  | .node _ d l m r =>
    (l.isNil ∧ m.isNil ∧ r.isNil → d.isSome) ∧ l.Pruned ∧ m.Pruned ∧ r.Pruned

def Node.decPruned : (n : Node) → Decidable n.Pruned
  | .nil => by unfold Node.Pruned; infer_instance
  | .node c d l m r => by
    unfold Node.Pruned
    have := Node.decPruned l
    have := Node.decPruned m
    have := Node.decPruned r
    infer_instance
instance (n : Node) : Decidable n.Pruned := Node.decPruned n

/-- structural invariant (kept by every operation, the empty key included) -/
def Table.Inv (cmp : Cmp) (t : Table) : Prop :=
  t.size = t.root.marked ∧ t.root.Pruned ∧ t.root.Ordered cmp

instance (cmp : Cmp) (t : Table) : Decidable (t.Inv cmp) := by unfold Table.Inv; infer_instance

/-- every entry stores the key its path spells (kept by every operation on non-empty keys;
broken by the empty key, X5) -/
def Node.KeysOk (n : Node) : Prop := ∀ x ∈ n.entries, x.2.1 = x.1

instance (n : Node) : Decidable n.KeysOk := by unfold Node.KeysOk; infer_instance

/-- abstraction: the stored `(key, value)` pairs -/
def Table.abs (t : Table) : Spec.StrMap := { items := t.root.entries.map (·.2) }

/-- the comparator contract the theorems need: `char_cmp` reports equality exactly for equal characters -/
def CmpLaw (cmp : Cmp) : Prop := ∀ a b, cmp a b = .eq ↔ a = b

end CC.TST
