import CollectionsC.Base.Status
import CollectionsC.Base.Mem
import CollectionsC.Base.Buf
import CollectionsC.Spec.BlocksSpec
import CollectionsC.Model.StaticPool
/-! Concrete model of `src/memory/cc_dynamic_pool.c`.

The fields of `struct cc_dynamic_pool_s`, with `free_ptr`/`high_ptr` as offsets from `low_ptr`
(which always is the payload start of the newest page), and the chain of pages reached through
`page` / `PageInfo.previous` as a list, newest first; a page is its `PageInfo.size` and the bytes
of its payload.  `exp_factor` enters through `grow : Nat → Nat`
(`grow n = (size_t)(n * exp_factor)`, instantiated with `Float32` in the driver), `fresh` is the
byte a newly allocated page is filled with (arbitrary in C).  A pointer is `Option (Nat × Nat)`:
`none` = NULL, `some (i, k)` = payload of page `i` (counted from the oldest) `+ k`.

*Ghost* (history) fields, never read by the control flow (`Proofs/DynamicPool.lean`, `*_erase`):
`PPage.blocks` (live blocks of each page) and `undo`. -/
namespace CC
open Spec (PPage PBlk fillBytes)

/-- `sizeof(PageInfo)` (a pointer and a `size_t`) on the LP64 target; the harness checks it -/
def pageInfoSize : Nat := 16

structure DynamicPool where
  triple      : Triple := .conf   -- `mem_alloc/mem_calloc/mem_free` copied from the configuration
  isFixed     : Bool
  isPacked    : Bool
  topPageSize : Nat
  ab          : Nat            -- alignment_boundary
  pages       : List PPage     -- `page` and its `previous` chain, newest first
  free        : Nat            -- free_ptr - low_ptr
  high        : Nat            -- high_ptr - low_ptr
  undo        : Bool           -- ghost
  deriving Repr, DecidableEq

namespace DynamicPool

/-- `cc_dynamic_pool_new_conf` (and `cc_dynamic_pool_new` with the default configuration) -/
def new (size : Nat) (fixed packed : Bool) (ab fresh : Nat) (t : Triple) (m : Mem) :
    Stat × Option DynamicPool × Mem :=
  -- `size + sizeof(PageInfo)` must not wrap around `size_t`
  if size > sizeMod - 1 - pageInfoSize then (.errInvalidCapacity, none, m) else
  let a1 := m.allocT t                    -- mem_calloc(1, sizeof(CC_DynamicPool))
  if !a1.1 then (.errAlloc, none, a1.2) else
  let a2 := a1.2.allocT t                 -- mem_alloc(size + sizeof(PageInfo))
  if !a2.1 then (.errAlloc, none, a2.2.freeT t) else
  (.ok, some { triple := t, isFixed := fixed, isPacked := packed, topPageSize := size, ab := ab,
               pages := [{ size := size, bytes := List.replicate size fresh, blocks := [] }],
               free := 0, high := 0, undo := false }, a2.2)

/-- the `do … while (p)` loop of `cc_dynamic_pool_destroy`: one `mem_free` per page -/
def freePages (t : Triple) : List PPage → Mem → Mem
  | [], m => m
  | _ :: ps, m => freePages t ps (m.freeT t)

/-- `cc_dynamic_pool_destroy` -/
def destroy (s : DynamicPool) (m : Mem) : Mem :=
  let m := m.check (s.pages != [])        -- `pool->page` is dereferenced
  (freePages s.triple s.pages m).freeT s.triple

/-- the loop of `cc_dynamic_pool_reset`: frees every page that has a `previous`, ends at the oldest -/
def resetLoop (t : Triple) : List PPage → Mem → Option PPage × Mem
  | [], m => (none, m.check false)
  | [p], m => (some p, m)
  | _ :: q :: rest, m => resetLoop t (q :: rest) (m.freeT t)

/-- `cc_dynamic_pool_reset` -/
def reset (s : DynamicPool) (m : Mem) : DynamicPool × Mem :=
  let r := resetLoop s.triple s.pages m
  match r.1 with
  | some p => ({ s with pages := [{ p with blocks := [] }], topPageSize := p.size, free := 0, high := 0, undo := false }, r.2)
  | none => (s, r.2)

def pushBlk (pages : List PPage) (b : PBlk) : List PPage :=
  match pages with
  | p :: ps => { p with blocks := b :: p.blocks } :: ps
  | [] => []

/-- the tail of `cc_dynamic_pool_malloc`: bump inside the newest page -/
def bump (s : DynamicPool) (n padding : Nat) : Option (Nat × Nat) × DynamicPool :=
  let ptr := s.free
  (some (s.pages.length - 1, ptr),
   { s with high := ptr, free := ptr + n + padding, pages := pushBlk s.pages ⟨ptr, n, n + padding⟩, undo := true })

/-- the page-expansion block of `cc_dynamic_pool_malloc` after the new page has been obtained:
the page is linked in front of the chain and becomes the current one -/
def expand (s : DynamicPool) (nextMax fresh : Nat) : DynamicPool :=
  { s with pages := { size := nextMax, bytes := List.replicate nextMax fresh, blocks := [] } :: s.pages,
           high := 0, free := 0, topPageSize := nextMax }

/-- `cc_dynamic_pool_malloc` -/
def malloc (grow : Nat → Nat) (fresh : Nat) (s : DynamicPool) (n : Nat) (m : Mem) :
    Option (Nat × Nat) × DynamicPool × Mem :=
  if n ≥ s.topPageSize then (none, s, m) else
  let padding :=
    if !s.isPacked && s.ab > 1 then
      let rem := n % s.ab
      if rem ≠ 0 then s.ab - rem else 0
    else 0
  let used := s.free
  if n + padding > s.topPageSize - used then
    let nextMax := grow s.topPageSize
    if s.isFixed || n + padding > nextMax then (none, s, m) else
    -- `next_max + sizeof(PageInfo)` must not wrap around `size_t`
    if nextMax > sizeMod - 1 - pageInfoSize then (none, s, m) else
    let a := m.allocT s.triple            -- mem_alloc(next_max + sizeof(PageInfo))
    if !a.1 then (none, s, a.2) else
    let r := (s.expand nextMax fresh).bump n padding
    (r.1, r.2, a.2)
  else
    let r := s.bump n padding
    (r.1, r.2, m)

def fillTop (pages : List PPage) (off n v : Nat) : List PPage :=
  match pages with
  | p :: ps => { p with bytes := fillBytes p.bytes off n v } :: ps
  | [] => []

def topBytesLen (s : DynamicPool) : Nat := match s.pages with | p :: _ => p.bytes.length | [] => 0

/-- `cc_dynamic_pool_calloc`: NULL when `count * size` overflows `size_t`, else the request is the
product -/
def calloc (grow : Nat → Nat) (fresh : Nat) (s : DynamicPool) (count sz : Nat) (m : Mem) :
    Option (Nat × Nat) × DynamicPool × Mem :=
  if mulOverflows count sz then (none, s, m) else
  let n := (count * sz) % sizeMod
  let r := malloc grow fresh s n m
  match r.1 with
  | some p =>
    let m := r.2.2.check (p.2 + n ≤ r.2.1.topBytesLen)
    (some p, { r.2.1 with pages := fillTop r.2.1.pages p.2 n 0 }, m)
  | none => (none, r.2.1, r.2.2)

/-- `cc_dynamic_pool_free` -/
def release (s : DynamicPool) (p : Option (Nat × Nat)) : DynamicPool :=
  if p = some (s.pages.length - 1, s.high) then
    { s with free := s.high,
             pages := if s.undo then (match s.pages with
                                      | pg :: ps => { pg with blocks := pg.blocks.tail } :: ps
                                      | [] => []) else s.pages,
             undo := false }
  else s

/-- `cc_dynamic_pool_used_bytes` -/
def usedBytes (s : DynamicPool) : Nat := s.free + Spec.pagesSize s.pages.tail
/-- `cc_dynamic_pool_free_bytes` -/
def freeBytes (s : DynamicPool) : Nat := s.topPageSize - s.free

/-- the user stores `v` into `n` bytes at offset `off` of the newest page (not a library function) -/
def write (s : DynamicPool) (off n v : Nat) (m : Mem) : DynamicPool × Mem :=
  ({ s with pages := fillTop s.pages off n v }, m.check (off + n ≤ s.topBytesLen))

/-- abstraction -/
def abs (s : DynamicPool) : Spec.DPool :=
  { fixed := s.isFixed, packed := s.isPacked, ab := s.ab, pages := s.pages, undo := s.undo }

/-- number of allocator blocks the pool owns: the struct and one per page -/
def owned (s : DynamicPool) : Nat := s.pages.length + 1

def layoutB : List PBlk → Bool
  | [] => true
  | b :: bs => b.off == Spec.spanLen bs && decide (b.len ≤ b.span) && layoutB bs

def pageOkB (ab : Nat) (packed : Bool) (p : PPage) : Bool :=
  layoutB p.blocks && decide (Spec.spanLen p.blocks ≤ p.size) && p.bytes.length == p.size &&
  (packed || ab == 0 || p.blocks.all fun b => b.off % ab == 0 && b.span % ab == 0)

/-- the newest block `b` of the newest page is the one `high_ptr`/`free_ptr` delimit -/
def undoOk (blocks : List PBlk) (high free : Nat) : Prop :=
  match blocks with
  | b :: _ => b.off = high ∧ b.off + b.span = free
  | [] => False

instance (blocks : List PBlk) (high free : Nat) : Decidable (undoOk blocks high free) := by
  unfold undoOk; cases blocks <;> infer_instance

def topOk (s : DynamicPool) : Prop :=
  match s.pages with
  | p :: _ => s.topPageSize = p.size ∧ s.free = Spec.spanLen p.blocks ∧
              (s.undo = true → undoOk p.blocks s.high s.free)
  | [] => False

instance (s : DynamicPool) : Decidable s.topOk := by
  unfold topOk; cases s.pages <;> infer_instance

/-- representation invariant -/
def Inv (s : DynamicPool) : Prop :=
  s.topOk ∧ s.high ≤ s.free ∧ (s.undo = false → s.free = s.high) ∧
  s.pages.all (pageOkB s.ab s.isPacked) = true ∧ (s.isFixed = true → s.pages.length = 1)

instance (s : DynamicPool) : Decidable s.Inv := by unfold Inv; infer_instance

open Spec.DPool (Op) in
/-- one history step; the spec's `refused` flag of an operation is ignored here: the model asks
its own allocator schedule (`Mem.sched`) -/
def step (grow : Nat → Nat) (fresh : Nat) (s : DynamicPool) (op : Op) (m : Mem) :
    Option (Nat × Nat) × DynamicPool × Mem :=
  match op with
  | .malloc n _ => malloc grow fresh s n m
  | .calloc c k _ => calloc grow fresh s c k m
  | .release p => (none, s.release p, m)
  | .reset => let r := s.reset m; (none, r.1, r.2)
  | .write off n v => let r := s.write off n v m; (none, r.1, r.2)

/-! ### accounting-only twin

`Acct` is `DynamicPool` without the page contents and the ghost block lists: exactly the fields the
control flow of the C functions reads.  Its operations are the model's operations with the byte
updates removed; `Proofs/DynamicPoolAcct.lean` proves that they commute with the projection
`DynamicPool.acct` (same pointers, same ledger, same fields), so the driver may run sessions with
pages of many megabytes (`phys=quiet`) on `Acct` without materialising their bytes. -/
structure Acct where
  triple      : Triple
  isFixed     : Bool
  isPacked    : Bool
  topPageSize : Nat
  ab          : Nat
  sizes       : List Nat       -- page payload sizes, newest first
  free        : Nat
  high        : Nat
  deriving Repr, DecidableEq

def acct (s : DynamicPool) : Acct :=
  { triple := s.triple, isFixed := s.isFixed, isPacked := s.isPacked, topPageSize := s.topPageSize, ab := s.ab,
    sizes := s.pages.map (·.size), free := s.free, high := s.high }

namespace Acct

def new (size : Nat) (fixed packed : Bool) (ab : Nat) (t : Triple) (m : Mem) : Stat × Option Acct × Mem :=
  if size > sizeMod - 1 - pageInfoSize then (.errInvalidCapacity, none, m) else
  let a1 := m.allocT t
  if !a1.1 then (.errAlloc, none, a1.2) else
  let a2 := a1.2.allocT t
  if !a2.1 then (.errAlloc, none, a2.2.freeT t) else
  (.ok, some { triple := t, isFixed := fixed, isPacked := packed, topPageSize := size, ab := ab, sizes := [size],
               free := 0, high := 0 }, a2.2)

def freePages (t : Triple) : List Nat → Mem → Mem
  | [], m => m
  | _ :: ps, m => freePages t ps (m.freeT t)

def destroy (a : Acct) (m : Mem) : Mem :=
  let m := m.check (a.sizes != [])
  (freePages a.triple a.sizes m).freeT a.triple

def resetLoop (t : Triple) : List Nat → Mem → Option Nat × Mem
  | [], m => (none, m.check false)
  | [p], m => (some p, m)
  | _ :: q :: rest, m => resetLoop t (q :: rest) (m.freeT t)

def reset (a : Acct) (m : Mem) : Acct × Mem :=
  let r := resetLoop a.triple a.sizes m
  match r.1 with
  | some p => ({ a with sizes := [p], topPageSize := p, free := 0, high := 0 }, r.2)
  | none => (a, r.2)

def bump (a : Acct) (n padding : Nat) : Option (Nat × Nat) × Acct :=
  let ptr := a.free
  (some (a.sizes.length - 1, ptr), { a with high := ptr, free := ptr + n + padding })

def malloc (grow : Nat → Nat) (a : Acct) (n : Nat) (m : Mem) : Option (Nat × Nat) × Acct × Mem :=
  if n ≥ a.topPageSize then (none, a, m) else
  let padding := Spec.padOf a.isPacked a.ab n
  let used := a.free
  if n + padding > a.topPageSize - used then
    let nextMax := grow a.topPageSize
    if a.isFixed || n + padding > nextMax then (none, a, m) else
    if nextMax > sizeMod - 1 - pageInfoSize then (none, a, m) else
    let al := m.allocT a.triple
    if !al.1 then (none, a, al.2) else
    let r := ({ a with sizes := nextMax :: a.sizes, high := 0, free := 0, topPageSize := nextMax } : Acct).bump n padding
    (r.1, r.2, al.2)
  else
    let r := a.bump n padding
    (r.1, r.2, m)

/-- the bounds check of calloc's `memset` needs the newest page's size -/
def topSize (a : Acct) : Nat := a.sizes.headD 0

def calloc (grow : Nat → Nat) (a : Acct) (count sz : Nat) (m : Mem) : Option (Nat × Nat) × Acct × Mem :=
  if mulOverflows count sz then (none, a, m) else
  let n := (count * sz) % sizeMod
  let r := malloc grow a n m
  match r.1 with
  | some p => (some p, r.2.1, r.2.2.check (p.2 + n ≤ r.2.1.topSize))
  | none => (none, r.2.1, r.2.2)

def release (a : Acct) (p : Option (Nat × Nat)) : Acct :=
  if p = some (a.sizes.length - 1, a.high) then { a with free := a.high } else a

def usedBytes (a : Acct) : Nat := a.free + a.sizes.tail.foldr (· + ·) 0
def freeBytes (a : Acct) : Nat := a.topPageSize - a.free

def write (a : Acct) (off n : Nat) (m : Mem) : Mem := m.check (off + n ≤ a.topSize)

end Acct

open Spec.DPool (Op) in
/-- the spec operation a model step corresponds to: the refusal flag is the allocator's next answer -/
def annotate (s : DynamicPool) (op : Op) (m : Mem) : Op :=
  match op with
  | .malloc n _ => .malloc n (!(m.allocT s.triple).1)
  | .calloc c k _ => .calloc c k (!(m.allocT s.triple).1)
  | op => op

open Spec.DPool (Op) in
/-- run a history; also returns the history annotated with the refusals that happened -/
def run (grow : Nat → Nat) (fresh : Nat) (s : DynamicPool) (ops : List Op) (m : Mem) :
    List (Option (Nat × Nat)) × List Op × DynamicPool × Mem :=
  match ops with
  | [] => ([], [], s, m)
  | op :: ops =>
    let r := step grow fresh s op m
    let rs := run grow fresh r.2.1 ops r.2.2
    (r.1 :: rs.1, annotate s op m :: rs.2.1, rs.2.2.1, rs.2.2.2)

end DynamicPool
end CC
