import CollectionsC.Base.Status
import CollectionsC.Base.Mem
import CollectionsC.Spec.OrdMapSpec
/-! Concrete model of `src/cc_treetable.c` (CLRS red-black tree with a shared sentinel).

The pointer structure is represented by the algebraic tree it spans (`nil` = the sentinel).
Insertion and deletion are structural recursions that perform CLRS's case analysis *at the same
nodes* as `rebalance_after_insert` / `rebalance_after_delete`, so the tree produced here is the
C tree node for node (keys, values, colours, shape) — the correspondence check compares the
whole pre-order dump after every operation.  The descent functions return the number of
comparator calls the C code makes. -/
namespace CC

inductive Colour where
  | red | black
  deriving DecidableEq, Repr, Inhabited

inductive Tree where
  | nil
  | node (c : Colour) (l : Tree) (k v : Nat) (r : Tree)
  deriving DecidableEq, Repr, Inhabited

namespace Tree
open Colour

/-- colour of a link target; the sentinel is black -/
def col : Tree → Colour
  | nil => black
  | node c _ _ _ _ => c

def blacken : Tree → Tree
  | nil => nil
  | node _ l k v r => node black l k v r

/-- in-order enumeration (what `tree_min` + `get_successor_node` walk) -/
def toList : Tree → List (Nat × Nat)
  | nil => []
  | node _ l k v r => toList l ++ (k, v) :: toList r

def size : Tree → Nat
  | nil => 0
  | node _ l _ _ r => size l + 1 + size r

def height : Tree → Nat
  | nil => 0
  | node _ l _ _ r => max (height l) (height r) + 1

/-! ### insertion -/

/-- `rebalance_after_insert` seen from the grandparent `g` when the new red node is in its
left subtree: the left child `p` is red and has a red child `z`. -/
def fixInsLeft : Tree → Tree
  | node c (node red pl pk pv pr) k v y =>
    if pl.col = red ∨ pr.col = red then
      match y with
      | node red yl yk yv yr =>            -- case 1: red uncle, recolour, continue at g
        node red (node black pl pk pv pr) k v (node black yl yk yv yr)
      | _ =>
        match pl.col, pr with
        | black, node red zl zk zv zr =>   -- case 2 (rotate left at p) then case 3
          node black (node red pl pk pv zl) zk zv (node red zr k v y)
        | _, _ =>                          -- case 3: rotate right at g
          node black pl pk pv (node red pr k v y)
    else node c (node red pl pk pv pr) k v y
  | t => t

/-- mirror image: the new red node is in the right subtree of the grandparent -/
def fixInsRight : Tree → Tree
  | node c y k v (node red pl pk pv pr) =>
    if pl.col = red ∨ pr.col = red then
      match y with
      | node red yl yk yv yr =>
        node red (node black yl yk yv yr) k v (node black pl pk pv pr)
      | _ =>
        match pr.col, pl with
        | black, node red zl zk zv zr =>   -- case 2 (rotate right at p) then case 3
          node black (node red y k v zl) zk zv (node red zr pk pv pr)
        | _, _ =>                          -- case 3: rotate left at g
          node black (node red y k v pl) pk pv pr
    else node c y k v (node red pl pk pv pr)
  | t => t

/-- descent of `cc_treetable_add` followed by the fix-up on the way back.
Returns the new subtree, whether a node was created, and the number of comparator calls of the
descent loop (one per visited node). -/
def ins (cmp : Nat → Nat → Int) (k v : Nat) : Tree → Tree × Bool × Nat
  | nil => (node red nil k v nil, true, 0)
  | node c l key val r =>
    if cmp k key < 0 then
      let s := ins cmp k v l
      (if s.2.1 then fixInsLeft (node c s.1 key val r) else node c s.1 key val r, s.2.1, s.2.2 + 1)
    else if 0 < cmp k key then
      let s := ins cmp k v r
      (if s.2.1 then fixInsRight (node c l key val s.1) else node c l key val s.1, s.2.1, s.2.2 + 1)
    else (node c l key v r, false, 1)

/-! ### lookup -/

/-- `get_tree_node_by_key`: value of the node found and the number of comparator calls -/
def find (cmp : Nat → Nat → Int) (k : Nat) : Tree → Option Nat × Nat
  | nil => (none, 0)
  | node _ l key val r =>
    if cmp k key < 0 then ((find cmp k l).1, (find cmp k l).2 + 1)
    else if 0 < cmp k key then ((find cmp k r).1, (find cmp k r).2 + 1)
    else (some val, 1)

/-- `tree_min` -/
def minEntry : Tree → Option (Nat × Nat)
  | nil => none
  | node _ nil k v _ => some (k, v)
  | node _ l _ _ _ => minEntry l

/-- `tree_max` -/
def maxEntry : Tree → Option (Nat × Nat)
  | nil => none
  | node _ _ k v nil => some (k, v)
  | node _ _ _ _ r => maxEntry r

/-! ### node positions and the pointer walks (`tree_min`, `tree_max`, `get_successor_node`,
`get_predecessor_node`)

A node is addressed by its path from the root; its `parent` is the path without the last step, and
"x is the right child of its parent" is "the last step is `R`".  The walks below are the C loops. -/

inductive Dir where
  | L | R
  deriving DecidableEq, Repr, Inhabited

abbrev Path := List Dir

/-- the subtree hanging at a position (`nil`: the sentinel, or a path that leaves the tree) -/
def subtree : Tree → Path → Tree
  | t, [] => t
  | nil, _ :: _ => nil
  | node _ l _ _ _, .L :: p => subtree l p
  | node _ _ _ _ r, .R :: p => subtree r p

/-- `n->key`, `n->value` of the node at a position -/
def entryAt (t : Tree) (p : Path) : Option (Nat × Nat) :=
  match subtree t p with
  | node _ _ k v _ => some (k, v)
  | nil => none

/-- `tree_min(n)` for a non-sentinel `n`: `while (n->left != s) n = n->left;` — the steps taken -/
def treeMinPath : Tree → Path
  | nil => []
  | node _ nil _ _ _ => []
  | node _ l _ _ _ => .L :: treeMinPath l

/-- `tree_max(n)`: `while (n->right != s) n = n->right;` -/
def treeMaxPath : Tree → Path
  | nil => []
  | node _ _ _ _ nil => []
  | node _ _ _ _ r => .R :: treeMaxPath r

/-- the climbing loop of `get_successor_node`, on the reversed path (innermost step first):
`y = x->parent; while (y != s && x == y->right) { x = y; y = y->parent; } return y;`
`none` = the sentinel (the root's parent) was reached -/
def climbFromRight : List Dir → Option (List Dir)
  | [] => none
  | .R :: rest => climbFromRight rest
  | .L :: rest => some rest

/-- the climbing loop of `get_predecessor_node`: `while (y != s && x == y->left)` -/
def climbFromLeft : List Dir → Option (List Dir)
  | [] => none
  | .L :: rest => climbFromLeft rest
  | .R :: rest => some rest

/-- `get_successor_node(x)` for the node `x` at position `p` -/
def succPath (t : Tree) (p : Path) : Option Path :=
  match subtree t p with
  | nil => none
  | node _ _ _ _ r =>
    if r ≠ nil then some (p ++ .R :: treeMinPath r)          -- `return tree_min(table, x->right);`
    else (climbFromRight p.reverse).map List.reverse

/-- `get_predecessor_node(x)` -/
def predPath (t : Tree) (p : Path) : Option Path :=
  match subtree t p with
  | nil => none
  | node _ l _ _ _ =>
    if l ≠ nil then some (p ++ .L :: treeMaxPath l)          -- `return tree_max(table, x->left);`
    else (climbFromLeft p.reverse).map List.reverse

/-- number of nodes the successor walk looks at (no comparator call is made) -/
def succVisits (t : Tree) (p : Path) : Nat :=
  match subtree t p with
  | nil => 0
  | node _ _ _ _ r =>
    if r ≠ nil then 1 + (treeMinPath r).length
    else p.length - ((climbFromRight p.reverse).map List.length).getD 0

/-- the node `get_tree_node_by_key` returns (descent with the comparator) -/
def findPath (cmp : Nat → Nat → Int) (k : Nat) : Tree → Option Path
  | nil => none
  | node _ l key _ r =>
    if cmp k key < 0 then (findPath cmp k l).map (.L :: ·)
    else if 0 < cmp k key then (findPath cmp k r).map (.R :: ·)
    else some []

/-- the position of the node a pointer refers to; a node is identified by its key (the C code never
moves a key from one node to another, keys are unique) -/
def posOf (k : Nat) : Tree → Option Path
  | nil => none
  | node _ l key _ r =>
    if key = k then some []
    else match posOf k l with
      | some p => some (.L :: p)
      | none => (posOf k r).map (.R :: ·)

/-- entry of the successor node of the node at `p` (`none`: the sentinel) -/
def succEntryAt (t : Tree) (p : Path) : Option (Nat × Nat) := (succPath t p).bind (entryAt t)
def predEntryAt (t : Tree) (p : Path) : Option (Nat × Nat) := (predPath t p).bind (entryAt t)

/-- `get_successor_node(get_tree_node_by_key(key))` -/
def succOfKey (cmp : Nat → Nat → Int) (t : Tree) (k : Nat) : Option (Nat × Nat) :=
  (findPath cmp k t).bind (succEntryAt t)
def predOfKey (cmp : Nat → Nat → Int) (t : Tree) (k : Nat) : Option (Nat × Nat) :=
  (findPath cmp k t).bind (predEntryAt t)
/-- `get_successor_node(x)` for the node pointer `x` held by an iterator -/
def succOfNode (t : Tree) (k : Nat) : Option (Nat × Nat) := (posOf k t).bind (succEntryAt t)

/-- position of `tree_min(root)` (`none`: the sentinel) -/
def minPos (t : Tree) : Option Path := match t with | nil => none | _ => some (treeMinPath t)

/-- the enumeration loop of `foreach_*` / `contains_value`:
`n = tree_min(root); while (n != s) { visit n; n = get_successor_node(n); }`
(`fuel` bounds the number of iterations; `size` suffices) -/
def walkFrom (t : Tree) : Nat → Option Path → List (Nat × Nat)
  | 0, _ => []
  | _ + 1, none => []
  | fuel + 1, some p =>
    match entryAt t p with
    | none => []
    | some e => e :: walkFrom t fuel (succPath t p)

def walk (t : Tree) : List (Nat × Nat) := walkFrom t t.size (minPos t)

/-- the in-order neighbours on the list of entries (used by the proofs: the walks above compute them) -/
def nextAfter : List (Nat × Nat) → Nat → Option (Nat × Nat)
  | [], _ => none
  | e :: rest, k => if e.1 = k then rest.head? else nextAfter rest k

def prevBefore (l : List (Nat × Nat)) (k : Nat) : Option (Nat × Nat) := nextAfter l.reverse k

/-! ### deletion -/

/-- `remove_node` for a node of colour `c` with at most one child `x` (which replaces it):
returns the replacement and whether the subtree is now short of one black node. -/
def dropNode (c : Colour) (x : Tree) : Tree × Bool :=
  if c = black then
    if x.col = red then (blacken x, false) else (x, true)
  else (x, false)

/-- `rebalance_after_delete`, left child `x` short by one black, sibling `w` black: CLRS cases 2–4 -/
def fixDelLeftB : Tree → Tree × Bool
  | node c x k v (node _ wl wk wv wr) =>
    if wl.col = black ∧ wr.col = black then        -- case 2: recolour w, move up
      (node black x k v (node red wl wk wv wr), c = black)
    else if wr.col = black then                     -- case 3 (rotate right at w) then case 4
      match wl with
      | node _ a lk lv b => (node c (node black x k v a) lk lv (node black b wk wv wr), false)
      | nil => (node c x k v (node black wl wk wv wr), false)
    else                                            -- case 4: rotate left at p
      (node c (node black x k v wl) wk wv (blacken wr), false)
  | t => (t, false)

/-- left child short by one black: case 1 (red sibling: rotate left at p, continue with the new
sibling) or cases 2–4 -/
def fixDelLeft : Tree → Tree × Bool
  | node _ x k v (node red wl wk wv wr) =>
    (node black (fixDelLeftB (node red x k v wl)).1 wk wv wr, false)
  | t => fixDelLeftB t

def fixDelRightB : Tree → Tree × Bool
  | node c (node _ wl wk wv wr) k v x =>
    if wl.col = black ∧ wr.col = black then
      (node black (node red wl wk wv wr) k v x, c = black)
    else if wl.col = black then
      match wr with
      | node _ a rk rv b => (node c (node black wl wk wv a) rk rv (node black b k v x), false)
      | nil => (node c (node black wl wk wv wr) k v x, false)
    else
      (node c (blacken wl) wk wv (node black wr k v x), false)
  | t => (t, false)

def fixDelRight : Tree → Tree × Bool
  | node _ (node red wl wk wv wr) k v x =>
    (node black wl wk wv (fixDelRightB (node red wr k v x)).1, false)
  | t => fixDelRightB t

/-- `remove_node(tree_min(..))`: the leftmost node has no left child -/
def delMin : Tree → Tree × Bool
  | nil => (nil, false)
  | node c nil _ _ r => dropNode c r
  | node c l k v r =>
    let d := delMin l
    if d.2 then fixDelLeft (node c d.1 k v r) else (node c d.1 k v r, false)

/-- `remove_node(tree_max(..))` -/
def delMax : Tree → Tree × Bool
  | nil => (nil, false)
  | node c l _ _ nil => dropNode c l
  | node c l k v r =>
    let d := delMax r
    if d.2 then fixDelRight (node c l k v d.1) else (node c l k v d.1, false)

/-- `remove_node(z)` seen at `z`: ≤ 1 child → replaced by the child; two children → the successor
(minimum of the right subtree) is moved into `z`'s place and takes `z`'s colour, and the hole it
leaves is repaired inside the right subtree first. -/
def removeHere : Tree → Tree × Bool
  | nil => (nil, false)
  | node c nil _ _ r => dropNode c r
  | node c l _ _ nil => dropNode c l
  | node c l _ _ r =>
    match minEntry r with
    | none => (node c l 0 0 r, false)
    | some m =>
      let d := delMin r
      if d.2 then fixDelRight (node c l m.1 m.2 d.1) else (node c l m.1 m.2 d.1, false)

/-- `remove_node` of the node holding key `k`, found by descent -/
def del (cmp : Nat → Nat → Int) (k : Nat) : Tree → Tree × Bool
  | nil => (nil, false)
  | node c l key val r =>
    if cmp k key < 0 then
      let d := del cmp k l
      if d.2 then fixDelLeft (node c d.1 key val r) else (node c d.1 key val r, false)
    else if 0 < cmp k key then
      let d := del cmp k r
      if d.2 then fixDelRight (node c l key val d.1) else (node c l key val d.1, false)
    else removeHere (node c l key val r)

end Tree

/-! ## the table object -/

structure TreeTable where
  root : Tree := .nil
  size : Nat := 0
  /-- `mem_alloc/mem_calloc/mem_free` copied from the conf struct -/
  triple : Triple := .conf
  deriving DecidableEq, Repr, Inhabited

/-- `iter->current`: the sentinel after `iter_init`, NULL after `iter_remove`, else a node -/
inductive TCur where
  | sentinel | null | at (k : Nat)
  deriving DecidableEq, Repr, Inhabited

structure TreeIter where
  cur  : TCur := .sentinel
  next : Option Nat := none       -- `none` = the sentinel
  deriving DecidableEq, Repr, Inhabited

namespace TreeTable
open Tree
open Spec.OrdMap (Op Out)
variable (cmp : Nat → Nat → Int)

def freeN (m : Mem) (tr : Triple) : Nat → Mem
  | 0 => m
  | n + 1 => freeN (m.freeT tr) tr n

/-- the ledger counter that belongs to a triple -/
def liveOf (m : Mem) : Triple → Nat
  | .conf => m.live
  | .libc => m.liveLibc

/-- `cc_treetable_new_conf` with the triple of the conf struct (`cc_treetable_new` fills the conf
with the C library's `malloc/calloc/free`) -/
def newT (tr : Triple) (m : Mem) : Stat × Option TreeTable × Mem :=
  let a1 := m.allocT tr
  if !a1.1 then (.errAlloc, none, a1.2) else
  let a2 := a1.2.allocT tr
  if !a2.1 then (.errAlloc, none, a2.2.freeT tr) else
  (.ok, some { root := .nil, size := 0, triple := tr }, a2.2)

/-- `cc_treetable_new_conf` with the caller's allocator triple -/
def new (m : Mem) : Stat × Option TreeTable × Mem := newT .conf m

/-- `cc_treetable_destroy`: every node, the sentinel, the header -/
def destroy (t : TreeTable) (m : Mem) : Mem := ((freeN m t.triple t.root.size).freeT t.triple).freeT t.triple

/-- `get_tree_node_by_key` including its `size == 0` guard -/
def lookup (t : TreeTable) (k : Nat) : Option Nat × Nat :=
  if t.size = 0 then (none, 0) else Tree.find cmp k t.root

/-- `cc_treetable_add`: status, new table, ledger, comparator calls -/
def add (t : TreeTable) (k v : Nat) (m : Mem) : Stat × TreeTable × Mem × Nat :=
  let s := Tree.ins cmp k v t.root
  if !s.2.1 then (.ok, { t with root := s.1 }, m, s.2.2) else
  let a := m.allocT t.triple
  if !a.1 then (.errAlloc, t, a.2, s.2.2) else
  (.ok, { t with root := s.1.blacken, size := t.size + 1 }, a.2, if t.root = .nil then s.2.2 else s.2.2 + 1)

/-- `cc_treetable_get` -/
def get (t : TreeTable) (k : Nat) : Stat × Option Nat × Nat :=
  match t.lookup cmp k with
  | (some v, n) => (.ok, some v, n)
  | (none, n) => (.errKeyNotFound, none, n)

/-- `cc_treetable_contains_key` -/
def containsKey (t : TreeTable) (k : Nat) : Bool × Nat :=
  ((t.lookup cmp k).1.isSome, (t.lookup cmp k).2)

/-- `cc_treetable_contains_value`: number of entries with that value -/
def containsValue (t : TreeTable) (v : Nat) : Nat :=
  (t.root.walk.filter (fun e => e.2 == v)).length

/-- `remove_node` + the final `x->color = BLACK` at the root -/
def removeNode (t : TreeTable) (k : Nat) (m : Mem) : TreeTable × Mem :=
  ({ t with root := (Tree.del cmp k t.root).1.blacken, size := t.size - 1 }, m.freeT t.triple)

/-- `cc_treetable_remove` -/
def remove (t : TreeTable) (k : Nat) (m : Mem) : Stat × Option Nat × TreeTable × Mem × Nat :=
  match t.lookup cmp k with
  | (none, n) => (.errKeyNotFound, none, t, m, n)
  | (some v, n) => let r := t.removeNode cmp k m; (.ok, some v, r.1, r.2, n)

/-- `cc_treetable_remove_first` -/
def removeFirst (t : TreeTable) (m : Mem) : Stat × Option Nat × TreeTable × Mem :=
  if t.size = 0 then (.errKeyNotFound, none, t, m) else
  match t.root.minEntry with
  | none => (.errKeyNotFound, none, t, m.check false)
  | some e => (.ok, some e.2, { t with root := t.root.delMin.1.blacken, size := t.size - 1 }, m.freeT t.triple)

/-- `cc_treetable_remove_last` -/
def removeLast (t : TreeTable) (m : Mem) : Stat × Option Nat × TreeTable × Mem :=
  if t.size = 0 then (.errKeyNotFound, none, t, m) else
  match t.root.maxEntry with
  | none => (.errKeyNotFound, none, t, m.check false)
  | some e => (.ok, some e.2, { t with root := t.root.delMax.1.blacken, size := t.size - 1 }, m.freeT t.triple)

/-- `cc_treetable_remove_all` -/
def removeAll (t : TreeTable) (m : Mem) : TreeTable × Mem :=
  ({ t with root := .nil, size := 0 }, freeN m t.triple t.root.size)

def firstKey (t : TreeTable) : Stat × Option Nat :=
  match t.root.minEntry with | some e => (.ok, some e.1) | none => (.errKeyNotFound, none)
def lastKey (t : TreeTable) : Stat × Option Nat :=
  match t.root.maxEntry with | some e => (.ok, some e.1) | none => (.errKeyNotFound, none)
def firstValue (t : TreeTable) : Stat × Option Nat :=
  match t.root.minEntry with | some e => (.ok, some e.2) | none => (.errValueNotFound, none)
def lastValue (t : TreeTable) : Stat × Option Nat :=
  match t.root.maxEntry with | some e => (.ok, some e.2) | none => (.errValueNotFound, none)

/-- `cc_treetable_get_greater_than` -/
def greaterThan (t : TreeTable) (k : Nat) : Stat × Option Nat × Nat :=
  match t.lookup cmp k with
  | (none, n) => (.errKeyNotFound, none, n)
  | (some _, n) =>
    match Tree.succOfKey cmp t.root k with
    | some e => (.ok, some e.1, n)
    | none => (.errKeyNotFound, none, n)

/-- `cc_treetable_get_lesser_than` -/
def lesserThan (t : TreeTable) (k : Nat) : Stat × Option Nat × Nat :=
  match t.lookup cmp k with
  | (none, n) => (.errKeyNotFound, none, n)
  | (some _, n) =>
    match Tree.predOfKey cmp t.root k with
    | some e => (.ok, some e.1, n)
    | none => (.errKeyNotFound, none, n)

def foreachKey (t : TreeTable) : List Nat := t.root.walk.map (·.1)
def foreachValue (t : TreeTable) : List Nat := t.root.walk.map (·.2)

/-! ### iterator -/

/-- `cc_treetable_iter_init` -/
def iterInit (t : TreeTable) : TreeIter :=
  { cur := .sentinel, next := t.root.minEntry.map (·.1) }

/-- value stored in the node that holds key `k` (pointer dereference, no comparator call) -/
def valueAt (t : TreeTable) (k : Nat) : Nat :=
  (((Tree.posOf k t.root).bind (Tree.entryAt t.root)).map (·.2)).getD 0

/-- `cc_treetable_iter_next` -/
def iterNext (t : TreeTable) (it : TreeIter) : Stat × Option (Nat × Nat) × TreeIter :=
  match it.next with
  | none => (.iterEnd, none, it)
  | some k =>
    (.ok, some (k, t.valueAt k),
      { cur := .at k, next := (Tree.succOfNode t.root k).map (·.1) })

/-- `cc_treetable_iter_remove`.  Calling it before the first `iter_next` (current = sentinel)
violates the documented precondition; the model flags it as a fault. -/
def iterRemove (t : TreeTable) (it : TreeIter) (m : Mem) :
    Stat × Option Nat × TreeTable × TreeIter × Mem :=
  match it.cur with
  | .null => (.errKeyNotFound, none, t, it, m)
  | .sentinel => (.errKeyNotFound, none, t, it, m.check false)
  | .at k =>
    let r := t.removeNode cmp k m
    (.ok, some (t.valueAt k), r.1, { it with cur := .null }, r.2)

/-! ### abstraction, invariants -/

def abs (t : TreeTable) : Spec.OrdMap := t.root.toList

end TreeTable

namespace Tree
open Colour

/-- black height (along the left spine; all paths agree under `RBok`) -/
def bh : Tree → Nat
  | nil => 0
  | node c l _ _ _ => bh l + (if c = black then 1 else 0)

/-- red-black rules below the root: no red node has a red child, equal black heights -/
def RBok : Tree → Prop
  | nil => True
  | node c l _ _ r => RBok l ∧ RBok r ∧ bh l = bh r ∧ (c = red → l.col = black ∧ r.col = black)

instance : (t : Tree) → Decidable (RBok t)
  | nil => isTrue trivial
  | node c l _ _ r =>
    have := instDecidableRBok l
    have := instDecidableRBok r
    by unfold RBok; infer_instance

/-- the red-black invariant: root black, no red-red, equal black heights -/
def RB (t : Tree) : Prop := RBok t ∧ t.col = black
instance (t : Tree) : Decidable (RB t) := by unfold RB; infer_instance

/-- search-tree order with respect to the comparator -/
def BST (cmp : Nat → Nat → Int) (t : Tree) : Prop := Spec.OrdMap.Sorted cmp t.toList
instance (cmp : Nat → Nat → Int) (t : Tree) : Decidable (BST cmp t) := by unfold BST; infer_instance

end Tree

namespace TreeTable
variable (cmp : Nat → Nat → Int)

/-- representation invariant of the table -/
def Inv (t : TreeTable) : Prop := t.root.BST cmp ∧ t.root.RB ∧ t.size = t.root.size
instance (t : TreeTable) : Decidable (t.Inv cmp) := by unfold Inv; infer_instance

open Spec.OrdMap (Op Out)

/-- one call of the public API (operations that need no iterator object): result, new table,
ledger, comparator calls -/
def step (t : TreeTable) (op : Op) (m : Mem) : Out × TreeTable × Mem × Nat :=
  match op with
  | .add k v => let r := t.add cmp k v m; ({ st := some r.1 }, r.2.1, r.2.2.1, r.2.2.2)
  | .get k => let r := t.get cmp k; ({ st := some r.1, val := r.2.1 }, t, m, r.2.2)
  | .containsKey k =>
    let r := t.containsKey cmp k; ({ val := some (if r.1 then 1 else 0) }, t, m, r.2)
  | .containsValue v => ({ val := some (t.containsValue v) }, t, m, 0)
  | .remove k =>
    let r := t.remove cmp k m; ({ st := some r.1, val := r.2.1 }, r.2.2.1, r.2.2.2.1, r.2.2.2.2)
  | .removeFirst => let r := t.removeFirst m; ({ st := some r.1, val := r.2.1 }, r.2.2.1, r.2.2.2, 0)
  | .removeLast => let r := t.removeLast m; ({ st := some r.1, val := r.2.1 }, r.2.2.1, r.2.2.2, 0)
  | .removeAll => let r := t.removeAll m; ({}, r.1, r.2, 0)
  | .firstKey => let r := t.firstKey; ({ st := some r.1, val := r.2 }, t, m, 0)
  | .lastKey => let r := t.lastKey; ({ st := some r.1, val := r.2 }, t, m, 0)
  | .firstValue => let r := t.firstValue; ({ st := some r.1, val := r.2 }, t, m, 0)
  | .lastValue => let r := t.lastValue; ({ st := some r.1, val := r.2 }, t, m, 0)
  | .greaterThan k => let r := t.greaterThan cmp k; ({ st := some r.1, val := r.2.1 }, t, m, r.2.2)
  | .lesserThan k => let r := t.lesserThan cmp k; ({ st := some r.1, val := r.2.1 }, t, m, r.2.2)
  | .foreachKey => ({ log := t.foreachKey }, t, m, 0)
  | .foreachValue => ({ log := t.foreachValue }, t, m, 0)
  | .size => ({ val := some t.size }, t, m, 0)

/-- a history; every call starts with its own allocator schedule (as the driver does) -/
def run (t : TreeTable) : List (Op × List Bool) → Mem → List Out × List (Nat × Nat) × TreeTable × Mem
  | [], m => ([], [], t, m)
  | (op, sched) :: rest, m =>
    let r := t.step cmp op (m.begin sched)
    let rs := run r.2.1 rest r.2.2.1
    (r.1 :: rs.1, (t.size, r.2.2.2) :: rs.2.1, rs.2.2)

open Spec.OrdMap (IterOp) in
/-- one iterator call, results in the same shape as the ideal cursor's -/
def iterStep (t : TreeTable) (it : TreeIter) (op : IterOp) (m : Mem) : Out × TreeTable × TreeIter × Mem :=
  match op with
  | .next =>
    let r := t.iterNext it
    ({ st := some r.1, val := r.2.1.map (·.1), log := (r.2.1.map (fun e => [e.2])).getD [] }, t, r.2.2, m)
  | .remove =>
    let r := t.iterRemove cmp it m
    ({ st := some r.1, val := r.2.1 }, r.2.2.1, r.2.2.2.1, r.2.2.2.2)

open Spec.OrdMap (IterOp) in
def iterRun (t : TreeTable) (it : TreeIter) : List IterOp → Mem → List Out × TreeTable × TreeIter × Mem
  | [], m => ([], t, it, m)
  | op :: rest, m =>
    let r := t.iterStep cmp it op m
    let rs := iterRun r.2.1 r.2.2.1 rest r.2.2.2
    (r.1 :: rs.1, rs.2)

open Spec.OrdMap (IterOp) in
/-- a program respects the documented precondition of `iter_remove` (only after a successful
`iter_next`) when no `remove` is executed while `current` is still the sentinel -/
def IterValid (t : TreeTable) (it : TreeIter) : List IterOp → Mem → Prop
  | [], _ => True
  | op :: rest, m =>
    (op = .remove → it.cur ≠ .sentinel) ∧
    IterValid (t.iterStep cmp it op m).2.1 (t.iterStep cmp it op m).2.2.1 rest (t.iterStep cmp it op m).2.2.2

open Spec.OrdMap (Segment) in
/-- a session: histories of table calls interleaved with iterator sessions, each on a fresh iterator -/
def runSession (t : TreeTable) : List Segment → Mem → List (List Out) × TreeTable × Mem
  | [], m => ([], t, m)
  | .calls ops :: rest, m =>
    let r := t.run cmp ops m
    let rs := runSession r.2.2.1 rest r.2.2.2
    (r.1 :: rs.1, rs.2)
  | .iterate prog :: rest, m =>
    let r := t.iterRun cmp t.iterInit prog m
    let rs := runSession r.2.1 rest r.2.2.2
    (r.1 :: rs.1, rs.2)

open Spec.OrdMap (Segment) in
/-- the comparator-call log of a session: `(number of keys before the call, comparator calls)` for every
table call (iterator calls make no comparator call in the C code) -/
def sessionCounts (t : TreeTable) : List Segment → Mem → List (Nat × Nat)
  | [], _ => []
  | .calls ops :: rest, m =>
    (t.run cmp ops m).2.1 ++ sessionCounts (t.run cmp ops m).2.2.1 rest (t.run cmp ops m).2.2.2
  | .iterate prog :: rest, m =>
    sessionCounts (t.iterRun cmp t.iterInit prog m).2.1 rest (t.iterRun cmp t.iterInit prog m).2.2.2

open Spec.OrdMap (Segment) in
/-- every iterator session of the session respects the precondition of `iter_remove` -/
def SessionValid (t : TreeTable) : List Segment → Mem → Prop
  | [], _ => True
  | .calls ops :: rest, m => SessionValid (t.run cmp ops m).2.2.1 rest (t.run cmp ops m).2.2.2
  | .iterate prog :: rest, m =>
    IterValid cmp t t.iterInit prog m ∧
    SessionValid (t.iterRun cmp t.iterInit prog m).2.1 rest (t.iterRun cmp t.iterInit prog m).2.2.2

end TreeTable
end CC
