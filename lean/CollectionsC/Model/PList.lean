import CollectionsC.Model.Chain
/-! Pointer-level model of the doubly linked list core of `src/cc_list.c`.

The heap is a finite map from node ids (allocation serial numbers) to nodes with **raw** `next`/`prev`
links; a list header holds `size`, `head`, `tail` and the allocator triple.  Two lists share one heap
(as in C), so `splice` can move nodes from one list to the other.  The helper functions
`link_behind`, `link_after`, `unlinkn`, `unlinkn_all`, `swap`, `swap_adjacent`, `splice_between`,
`link_all_externally`, `get_node_at` are written as the pointer surgery of the C text, assignment by
assignment, in the same order; `if (p != NULL)` is a `match` on the `Option`.  Dereference safety: the accessors
(`nd`, `upd`) are total — a released id reads as a zeroed node, a write to it is a no-op — so unchecked C
dereferences are made visible explicitly: of a header field (`list->head->prev = node` under `size != 0`) by a
`match` whose impossible branch raises the ledger fault; of a node argument or iterator field (`unlinkn`'s node,
`iter->last` in the iterator adds) by `m.check (live h p)`; of the cursors of `reverse` and of `merge`
(`sort_in_place`) by the flags `reverseLoopOk` / the `Bool` of `mergeLoop`/`split`, checked by `reverseC` /
`sortInPlace`.  The `next`/`prev` walks inside loops (`get_node_at`, `get_node`, `filter_mut`, write-back, the
builders' source walk) are not individually checked: `Seg` says which nodes they visit.  Released nodes are absent
from the heap (`St.free`), so a stale pointer fails `live` (`Properties/C06PList.lean`).  Nodes do not carry their
allocator triple: "released through the triple it was allocated on" is a statement about the per-triple block
counters (equal to the sequence-level ledger), not about node identity.  Aliasing: `add_all(l, l)` /
`add_all_at(l, l, i)` are executed by the driver on the one header (L3 compares them) but the theorems (`Repr2`,
`Inv2`) are about two distinct lists; zip over the same list is known finding `KF-list-zip-same-list`.

`Proofs/PList*.lean` prove that every operation preserves well-formedness (`WF`: the `next` chain from
`head` visits `size` distinct nodes and ends in `tail`, `prev` of every node is its predecessor) and
refines the sequence-level model (`Model/LinkedList.lean`) and the ideal list (`Spec/LSeq.lean`). -/
namespace CC.PList
open CC

structure PNode where
  data : Nat := 0
  next : Option Nat := none
  prev : Option Nat := none
  deriving Repr, DecidableEq, Inhabited

/-- the heap: node id ↦ node.  (A structure around the function, not the bare function type: a definition whose
result type is a function is compiled as a function of one more argument, so `swap h a b` would be a closure that
re-runs the whole pointer surgery on every later lookup.) -/
structure Heap where
  get : Nat → Option PNode := fun _ => none
instance : CoeFun Heap (fun _ => Nat → Option PNode) := ⟨Heap.get⟩

/-- the heap and the allocation serial of the next node -/
structure St where
  heap  : Heap := {}
  fresh : Nat := 0

/-- `struct cc_list_s` (the three allocator function pointers are the triple) -/
structure Hdr where
  size   : Nat := 0
  head   : Option Nat := none
  tail   : Option Nat := none
  triple : Triple := .conf
  deriving Repr, DecidableEq

/-! ### field access -/
def nd (h : Heap) (id : Nat) : PNode := (h id).getD {}
def upd (h : Heap) (id : Nat) (f : PNode → PNode) : Heap := ⟨fun j => if j = id then (h j).map f else h j⟩
def setNext (h : Heap) (id : Nat) (v : Option Nat) : Heap := upd h id ({ · with next := v })
def setPrev (h : Heap) (id : Nat) (v : Option Nat) : Heap := upd h id ({ · with prev := v })
def setData (h : Heap) (id : Nat) (v : Nat) : Heap := upd h id ({ · with data := v })
/-- `p->next` / `p->prev` for a possibly-NULL `p` (NULL stays NULL; only used in walks) -/
def nextOf (h : Heap) (p : Option Nat) : Option Nat := p.bind fun id => (nd h id).next
def prevOf (h : Heap) (p : Option Nat) : Option Nat := p.bind fun id => (nd h id).prev

/-- `p` is a non-NULL pointer to a node that has not been released.  Reads and writes through the accessors below are total
(`nd` of a released id is a zeroed node, `upd` a no-op); a dereference of a pointer that comes from a list header, an iterator
field or an argument is therefore preceded by `m.check (live h p)` in the operations: dereferencing NULL or a released node
raises the ledger fault. -/
def live (h : Heap) (p : Option Nat) : Bool := p.any fun id => (h id).isSome
@[simp] theorem live_some (h : Heap) (id : Nat) : live h (some id) = (h id).isSome := rfl
@[simp] theorem live_none (h : Heap) : live h none = false := rfl

/-- `mem_calloc(1, sizeof(Node))` succeeded: a zeroed node with the next serial number -/
def St.alloc (s : St) : Nat × St :=
  (s.fresh, { heap := ⟨fun j => if j = s.fresh then some {} else s.heap j⟩, fresh := s.fresh + 1 })
/-- `mem_free(node)` -/
def St.free (s : St) (id : Nat) : St := { s with heap := ⟨fun j => if j = id then none else s.heap j⟩ }

/-! ### walks -/
def walkNext (h : Heap) : Nat → Option Nat → Option Nat
  | 0, p => p
  | k + 1, p => walkNext h k (nextOf h p)
def walkPrev (h : Heap) : Nat → Option Nat → Option Nat
  | 0, p => p
  | k + 1, p => walkPrev h k (prevOf h p)

/-- data along `next` from `p`, at most `fuel` nodes -/
def dataNext (h : Heap) : Nat → Option Nat → List Nat
  | 0, _ => []
  | _, none => []
  | k + 1, some id => (nd h id).data :: dataNext h k (nd h id).next
/-- data along `prev` from `p`, at most `fuel` nodes -/
def dataPrev (h : Heap) : Nat → Option Nat → List Nat
  | 0, _ => []
  | _, none => []
  | k + 1, some id => (nd h id).data :: dataPrev h k (nd h id).prev
/-- node ids along `next` from `p` -/
def idsNext (h : Heap) : Nat → Option Nat → List Nat
  | 0, _ => []
  | _, none => []
  | k + 1, some id => id :: idsNext h k (nd h id).next

/-- forward content: data along `next` from `head` -/
def fwd (h : Heap) (l : Hdr) : List Nat := dataNext h l.size l.head
/-- backward content: data along `prev` from `tail` -/
def bwd (h : Heap) (l : Hdr) : List Nat := dataPrev h l.size l.tail

/-- `get_node_at`: from the head for the first half, from the tail otherwise -/
def getNodeAt (h : Heap) (l : Hdr) (index : Nat) : Stat × Option Nat :=
  if index ≥ l.size then (.errOutOfRange, none)
  else if index < l.size / 2 then (.ok, walkNext h index l.head)
  else (.ok, walkPrev h (l.size - 1 - index) l.tail)

/-- `get_node`: first node (from the head) whose data is `x` -/
def getNodeLoop (h : Heap) (x : Nat) : Nat → Option Nat → Option Nat
  | 0, _ => none
  | _, none => none
  | k + 1, some id => if (nd h id).data = x then some id else getNodeLoop h x k (nd h id).next
def getNode (h : Heap) (l : Hdr) (x : Nat) : Option Nat := getNodeLoop h x l.size l.head

/-! ### the static helpers of cc_list.c -/

/-- the first half of `link_behind`/`link_after` ("link the gap"): the neighbours of `ins` are linked to each other
(`if (ins->next) ins->next->prev = ins->prev; if (ins->prev) ins->prev->next = ins->next;`); a no-op for a node that is not
linked anywhere, the unlinking step when `merge` relinks a node that is part of the chain -/
def linkGap (h : Heap) (ins : Nat) : Heap :=
  let h := match (nd h ins).next with | some n => setPrev h n (nd h ins).prev | none => h
  match (nd h ins).prev with | some p => setNext h p (nd h ins).next | none => h

/-- the second half of `link_behind`: `ins` becomes the predecessor of `base` -/
def linkBehindCore (h : Heap) (base ins : Nat) : Heap :=
  match (nd h base).prev with
  | none =>
    let h := setPrev h ins none
    let h := setNext h ins (some base)
    setPrev h base (some ins)
  | some bp =>
    let h := setPrev h ins (some bp)
    let h := setNext h bp (some ins)          -- ins->prev->next = ins
    let h := setNext h ins (some base)
    setPrev h base (some ins)

/-- `link_behind(base, ins)` -/
def linkBehind (h : Heap) (base ins : Nat) : Heap := linkBehindCore (linkGap h ins) base ins

/-- `link_after(base, ins)` -/
def linkAfter (h : Heap) (base ins : Nat) : Heap :=
  let h := match (nd h ins).next with | some n => setPrev h n (nd h ins).prev | none => h
  let h := match (nd h ins).prev with | some p => setNext h p (nd h ins).next | none => h
  match (nd h base).next with
  | none =>
    let h := setPrev h ins (some base)
    let h := setNext h base (some ins)
    setNext h ins none
  | some bn =>
    let h := setNext h ins (some bn)
    let h := setPrev h bn (some ins)          -- ins->next->prev = ins
    let h := setPrev h ins (some base)
    setNext h base (some ins)

/-- `if (p) p->next = v;` / `if (p) p->prev = v;` -/
def optSetNext (h : Heap) (p : Option Nat) (v : Option Nat) : Heap := match p with | some x => setNext h x v | none => h
def optSetPrev (h : Heap) (p : Option Nat) (v : Option Nat) : Heap := match p with | some x => setPrev h x v | none => h

/-- `swap_adjacent(n1, n2)` -/
def swapAdjacent (h : Heap) (n1 n2 : Nat) : Heap :=
  if (nd h n1).next = some n2 then
    let h := optSetPrev h (nd h n2).next (some n1)
    let h := setNext h n1 (nd h n2).next
    let h := optSetNext h (nd h n1).prev (some n2)
    let h := setPrev h n2 (nd h n1).prev
    let h := setPrev h n1 (some n2)
    setNext h n2 (some n1)
  else if (nd h n2).next = some n1 then
    let h := optSetPrev h (nd h n1).next (some n2)
    let h := setNext h n2 (nd h n1).next
    let h := optSetNext h (nd h n2).prev (some n1)
    let h := setPrev h n1 (nd h n2).prev
    let h := setPrev h n2 (some n1)
    setNext h n1 (some n2)
  else h

/-- `swap(n1, n2)` -/
def swap (h : Heap) (n1 n2 : Nat) : Heap :=
  if (nd h n1).next = some n2 ∨ (nd h n2).next = some n1 then swapAdjacent h n1 n2 else
  let n1l := (nd h n1).prev
  let n1r := (nd h n1).next
  let n2l := (nd h n2).prev
  let n2r := (nd h n2).next
  let h := optSetNext h n1l (some n2)
  let h := setPrev h n2 n1l
  let h := optSetPrev h n1r (some n2)
  let h := setNext h n2 n1r
  let h := optSetNext h n2l (some n1)
  let h := setPrev h n1 n2l
  let h := optSetPrev h n2r (some n1)
  setNext h n1 n2r

/-- `unlinkn(list, node)`: returns the data -/
def unlinkn (s : St) (l : Hdr) (node : Nat) (m : Mem) : Nat × St × Hdr × Mem :=
  let n := nd s.heap node
  let h := match n.prev with | some p => setNext s.heap p n.next | none => s.heap
  let l := if n.prev = none then { l with head := n.next } else l
  let l := if n.next = none then { l with tail := n.prev } else l
  let h := match n.next with | some x => setPrev h x n.prev | none => h
  let m := m.check (live s.heap (some node))            -- `node->data`, `node->next`, `mem_free(node)`: a released node is a fault
  let s := ({ s with heap := h } : St).free node
  (n.data, s, { l with size := l.size - 1 }, m.freeT l.triple)

/-- the loop of `unlinkn_all`; returns the data in the order visited (the callback log) -/
def unlinkAllLoop : Nat → St → Hdr → Option Nat → List Nat → Mem → St × Hdr × List Nat × Mem
  | 0, s, l, _, log, m => (s, l, log, m)
  | _, s, l, none, log, m => (s, l, log, m)
  | k + 1, s, l, some node, log, m =>
    let tmp := (nd s.heap node).next
    let r := unlinkn s l node m
    unlinkAllLoop k r.2.1 r.2.2.1 tmp (log ++ [r.1]) r.2.2.2

/-- `unlinkn_all` -/
def unlinknAll (s : St) (l : Hdr) (m : Mem) : Bool × St × Hdr × List Nat × Mem :=
  if l.size = 0 then (false, s, l, [], m) else
  let r := unlinkAllLoop l.size s l l.head [] m
  (true, r.1, r.2.1, r.2.2.1, r.2.2.2)

/-- `splice_between(l1, l2, left, right)` -/
def spliceBetween (h : Heap) (l1 l2 : Hdr) (left right : Option Nat) (m : Mem) : Heap × Hdr × Hdr × Mem :=
  match l1.head, l1.tail, l2.head, l2.tail with
  | some h1, some t1, some h2, some t2 =>
    let (h, l1) :=
      match left, right with
      | none, _ =>
        let h := setPrev h h1 (some t2)
        let h := setNext h t2 (some h1)
        (h, { l1 with head := some h2 })
      | some _, none =>
        let h := setNext h t1 (some h2)
        let h := setPrev h h2 (some t1)
        (h, { l1 with tail := some t2 })
      | some lf, some rt =>
        let h := setNext h lf (some h2)
        let h := setPrev h h2 (some lf)
        let h := setPrev h rt (some t2)
        let h := setNext h t2 (some rt)
        (h, l1)
    (h, { l1 with size := l1.size + l2.size }, { l2 with head := none, tail := none, size := 0 }, m)
  | _, _, _, _ => (h, l1, l2, m.check false)

/-- the loop of `link_all_externally(dest, list, &h, &t)`: `insert` walks the source, every element is
copied into a fresh node appended to the external chain (`got` nodes so far); a refusal releases the chain
built so far -/
def linkAllLoop (t : Triple) : Nat → Nat → St → Option Nat → Option Nat → Option Nat → Mem → Bool × St × Option Nat × Option Nat × Mem
  | 0, _, s, _, hd, tl, m => (true, s, hd, tl, m)
  | k + 1, got, s, insert, hd, tl, m =>
    let a := m.allocT t
    if !a.1 then
      -- while (*h) { tmp = (*h)->next; free(*h); *h = tmp; }
      let ids := idsNext s.heap got hd
      (false, ids.foldl (fun s id => s.free id) s, none, tl, Mem.freeN t got a.2)
    else
    let m := a.2
    match insert with
    | none => (true, s, hd, tl, m.check false)
    | some src =>
      let (new, s) := s.alloc
      let h := setData s.heap new (nd s.heap src).data
      let (h, hd, tl) :=
        match hd, tl with
        | some hd', some tl' =>
          let h := setNext h tl' (some new)
          let h := setPrev h new (some tl')
          (h, some hd', some new)
        | _, _ => (h, some new, some new)
      linkAllLoop t k (got + 1) { s with heap := h } (nd h src).next hd tl m

/-! ### the public functions -/

/-- `cc_list_add_first` -/
def addFirst (s : St) (l : Hdr) (x : Nat) (m : Mem) : Stat × St × Hdr × Mem :=
  let a := m.allocT l.triple
  if !a.1 then (.errAlloc, s, l, a.2) else
  let m := a.2
  let (node, s) := s.alloc
  let h := setData s.heap node x
  if l.size = 0 then
    (.ok, { s with heap := h }, { l with head := some node, tail := some node, size := l.size + 1 }, m)
  else
    match l.head with
    | none => (.ok, { s with heap := h }, l, m.check false)
    | some hd =>
      let h := setNext h node (some hd)
      let h := setPrev h hd (some node)
      (.ok, { s with heap := h }, { l with head := some node, size := l.size + 1 }, m)

/-- `cc_list_add_last` (= `cc_list_add`) -/
def addLast (s : St) (l : Hdr) (x : Nat) (m : Mem) : Stat × St × Hdr × Mem :=
  let a := m.allocT l.triple
  if !a.1 then (.errAlloc, s, l, a.2) else
  let m := a.2
  let (node, s) := s.alloc
  let h := setData s.heap node x
  if l.size = 0 then
    (.ok, { s with heap := h }, { l with head := some node, tail := some node, size := l.size + 1 }, m)
  else
    match l.tail with
    | none => (.ok, { s with heap := h }, l, m.check false)
    | some tl =>
      let h := setPrev h node (some tl)
      let h := setNext h tl (some node)
      (.ok, { s with heap := h }, { l with tail := some node, size := l.size + 1 }, m)

/-- `cc_list_add_at`: `link_behind(base, new)`, `head = new` for index 0 -/
def addAt (s : St) (l : Hdr) (x index : Nat) (m : Mem) : Stat × St × Hdr × Mem :=
  let g := getNodeAt s.heap l index
  if g.1 != .ok then (g.1, s, l, m) else
  let a := m.allocT l.triple
  if !a.1 then (.errAlloc, s, l, a.2) else
  let m := a.2
  match g.2 with
  | none => (.ok, s, l, m.check false)
  | some base =>
    let (new, s) := s.alloc
    let h := setData s.heap new x
    let h := linkBehind h base new
    let l := if index = 0 then { l with head := some new } else l
    (.ok, { s with heap := h }, { l with size := l.size + 1 }, m)

/-- `cc_list_remove` -/
def remove (s : St) (l : Hdr) (x : Nat) (m : Mem) : Stat × Option Nat × St × Hdr × Mem :=
  match getNode s.heap l x with
  | none => (.errValueNotFound, none, s, l, m)
  | some node => let r := unlinkn s l node m; (.ok, some r.1, r.2.1, r.2.2.1, r.2.2.2)

/-- `cc_list_remove_at` -/
def removeAt (s : St) (l : Hdr) (index : Nat) (m : Mem) : Stat × Option Nat × St × Hdr × Mem :=
  let g := getNodeAt s.heap l index
  if g.1 != .ok then (g.1, none, s, l, m) else
  match g.2 with
  | none => (.ok, none, s, l, m.check false)
  | some node => let r := unlinkn s l node m; (.ok, some r.1, r.2.1, r.2.2.1, r.2.2.2)

/-- `cc_list_remove_first` -/
def removeFirst (s : St) (l : Hdr) (m : Mem) : Stat × Option Nat × St × Hdr × Mem :=
  if l.size = 0 then (.errValueNotFound, none, s, l, m) else
  match l.head with
  | none => (.ok, none, s, l, m.check false)
  | some node => let r := unlinkn s l node m; (.ok, some r.1, r.2.1, r.2.2.1, r.2.2.2)

/-- `cc_list_remove_last` -/
def removeLast (s : St) (l : Hdr) (m : Mem) : Stat × Option Nat × St × Hdr × Mem :=
  if l.size = 0 then (.errValueNotFound, none, s, l, m) else
  match l.tail with
  | none => (.ok, none, s, l, m.check false)
  | some node => let r := unlinkn s l node m; (.ok, some r.1, r.2.1, r.2.2.1, r.2.2.2)

/-- `cc_list_remove_all` / `cc_list_remove_all_cb` (the log is what the callback receives) -/
def removeAll (s : St) (l : Hdr) (m : Mem) : Stat × List Nat × St × Hdr × Mem :=
  let r := unlinknAll s l m
  if r.1 then (.ok, r.2.2.2.1, r.2.1, { r.2.2.1 with head := none, tail := none }, r.2.2.2.2)
  else (.errValueNotFound, [], s, l, m)

/-- the loop of `cc_list_filter_mut`: `next = curr->next` is read before the node may be unlinked (and freed) -/
def filterMutLoop (pr : Nat → Bool) : Nat → St → Hdr → Option Nat → Mem → St × Hdr × Mem
  | 0, s, l, _, m => (s, l, m)
  | _, s, l, none, m => (s, l, m)
  | k + 1, s, l, some curr, m =>
    let next := (nd s.heap curr).next
    if !pr (nd s.heap curr).data then
      let u := unlinkn s l curr m
      filterMutLoop pr k u.2.1 u.2.2.1 next u.2.2.2
    else filterMutLoop pr k s l next m

/-- `cc_list_filter_mut` -/
def filterMut (pr : Nat → Bool) (s : St) (l : Hdr) (m : Mem) : Stat × St × Hdr × Mem :=
  if l.size = 0 then (.errOutOfRange, s, l, m) else
  let r := filterMutLoop pr l.size s l l.head m
  (.ok, r.1, r.2.1, r.2.2)

/-- `cc_list_destroy` / `cc_list_destroy_cb`: all nodes, then the header -/
def destroy (s : St) (l : Hdr) (m : Mem) : List Nat × St × Mem :=
  let r := unlinknAll s l m
  (r.2.2.2.1, r.2.1, r.2.2.2.2.freeT l.triple)

/-- `cc_list_replace_at` -/
def replaceAt (s : St) (l : Hdr) (x index : Nat) (m : Mem) : Stat × Option Nat × St × Hdr × Mem :=
  let g := getNodeAt s.heap l index
  if g.1 != .ok then (g.1, none, s, l, m) else
  match g.2 with
  | none => (.ok, none, s, l, m.check false)
  | some node => (.ok, some (nd s.heap node).data, { s with heap := setData s.heap node x }, l, m)

/-- `cc_list_get_first` / `cc_list_get_last` / `cc_list_get_at` -/
def getFirst (h : Heap) (l : Hdr) : Stat × Option Nat :=
  if l.size = 0 then (.errValueNotFound, none) else (.ok, l.head.map fun id => (nd h id).data)
def getLast (h : Heap) (l : Hdr) : Stat × Option Nat :=
  if l.size = 0 then (.errValueNotFound, none) else (.ok, l.tail.map fun id => (nd h id).data)
def getAt (h : Heap) (l : Hdr) (index : Nat) : Stat × Option Nat :=
  let g := getNodeAt h l index
  if g.1 != .ok then (g.1, none) else (.ok, g.2.map fun id => (nd h id).data)

/-- the loop of `cc_list_reverse`: `swap(left, right)` for the `size / 2` outermost pairs -/
def reverseLoop : Nat → Heap → Option Nat → Option Nat → Heap
  | 0, h, _, _ => h
  | k + 1, h, some left, some right =>
    let tmpl := (nd h left).next
    let tmpr := (nd h right).prev
    reverseLoop k (swap h left right) tmpl tmpr
  | _, h, _, _ => h

/-- `cc_list_reverse` -/
def reverse (s : St) (l : Hdr) : St × Hdr :=
  if l.size = 0 ∨ l.size = 1 then (s, l) else
  ({ s with heap := reverseLoop (l.size / 2) s.heap l.head l.tail }, { l with head := l.tail, tail := l.head })

/-- whether every node the loop of `cc_list_reverse` dereferences (`left->next`, `right->prev`, the arguments of `swap`) is a
non-NULL live node (`reverseLoop` itself falls through on NULL; this is its fault flag) -/
def reverseLoopOk : Nat → Heap → Option Nat → Option Nat → Bool
  | 0, _, _, _ => true
  | k + 1, h, some left, some right =>
    live h (some left) && live h (some right) && reverseLoopOk k (swap h left right) (nd h left).next (nd h right).prev
  | _ + 1, _, _, _ => false

/-- `cc_list_reverse` with the ledger: a NULL or released cursor raises the fault -/
def reverseC (s : St) (l : Hdr) (m : Mem) : St × Hdr × Mem :=
  ((reverse s l).1, (reverse s l).2,
   m.check (decide (l.size = 0 ∨ l.size = 1) || reverseLoopOk (l.size / 2) s.heap l.head l.tail))

/-- `base` of `cc_list_splice_at` / `cc_list_add_all_at`: `if (end) base = end->prev; else get_node_at(list1, index - 1, &base);` -/
def baseOf (h : Heap) (l1 : Hdr) (e : Option Nat) (index : Nat) : Option Nat :=
  match e with
  | some en => (nd h en).prev
  | none => (getNodeAt h l1 (index - 1)).2

/-- `cc_list_splice_at` -/
def spliceAt (s : St) (l1 l2 : Hdr) (index : Nat) (m : Mem) : Stat × St × Hdr × Hdr × Mem :=
  if l2.size = 0 then (.ok, s, l1, l2, m) else
  if index > l1.size then (.errOutOfRange, s, l1, l2, m) else
  if l1.size = 0 then
    (.ok, s, { l1 with head := l2.head, tail := l2.tail, size := l2.size }, { l2 with head := none, tail := none, size := 0 }, m)
  else
  let e := (getNodeAt s.heap l1 index).2
  let base := baseOf s.heap l1 e index
  let r := spliceBetween s.heap l1 l2 base e m
  (.ok, { s with heap := r.1 }, r.2.1, r.2.2.1, r.2.2.2)

/-- `cc_list_splice` -/
def splice (s : St) (l1 l2 : Hdr) (m : Mem) : Stat × St × Hdr × Hdr × Mem := spliceAt s l1 l2 l1.size m

/-- `link_all_externally(dest, list, &h, &t)` -/
def linkAllExternally (s : St) (dest src : Hdr) (m : Mem) : Bool × St × Option Nat × Option Nat × Mem :=
  linkAllLoop dest.triple src.size 0 s src.head none none m

/-- `add_all_to_empty` -/
def addAllToEmpty (s : St) (l1 l2 : Hdr) (m : Mem) : Stat × St × Hdr × Mem :=
  if l2.size = 0 then (.ok, s, l1, m) else
  let r := linkAllExternally s l1 l2 m
  if !r.1 then (.errAlloc, r.2.1, l1, r.2.2.2.2) else
  (.ok, r.2.1, { l1 with head := r.2.2.1, tail := r.2.2.2.1, size := l2.size }, r.2.2.2.2)

/-- the attachment of the externally built chain `hd … tl` (`n2` nodes) in `cc_list_add_all_at`; `h1`/`t1` are
`list1->head`/`list1->tail` -/
def attach (s : St) (l1 : Hdr) (n2 hd tl h1 t1 : Nat) (e base : Option Nat) (m : Mem) : Stat × St × Hdr × Mem :=
  match e, base with
  | none, _ =>
    let h := setNext s.heap t1 (some hd)
    let h := setPrev h hd (some t1)
    (.ok, { s with heap := h }, { l1 with tail := some tl, size := l1.size + n2 }, m)
  | some _, none =>
    let h := setPrev s.heap h1 (some tl)
    let h := setNext h tl (some h1)
    (.ok, { s with heap := h }, { l1 with head := some hd, size := l1.size + n2 }, m)
  | some en, some b =>
    let h := setPrev s.heap hd (some b)
    let h := setNext h b (some hd)
    let h := setNext h tl (some en)
    let h := setPrev h en (some tl)
    (.ok, { s with heap := h }, { l1 with size := l1.size + n2 }, m)

/-- `cc_list_add_all_at` -/
def addAllAt (s : St) (l1 l2 : Hdr) (index : Nat) (m : Mem) : Stat × St × Hdr × Mem :=
  if l2.size = 0 then (.ok, s, l1, m) else
  if index > l1.size then (.errOutOfRange, s, l1, m) else
  if l1.size = 0 then addAllToEmpty s l1 l2 m else
  let r := linkAllExternally s l1 l2 m
  if !r.1 then (.errAlloc, r.2.1, l1, r.2.2.2.2) else
  let s := r.2.1
  let m := r.2.2.2.2
  match r.2.2.1, r.2.2.2.1, l1.head, l1.tail with
  | some hd, some tl, some h1, some t1 =>
    let e := (getNodeAt s.heap l1 index).2
    let base := baseOf s.heap l1 e index
    attach s l1 l2.size hd tl h1 t1 e base m
  | _, _, _, _ => (.ok, s, l1, m.check false)

/-- `cc_list_add_all` -/
def addAll (s : St) (l1 l2 : Hdr) (m : Mem) : Stat × St × Hdr × Mem :=
  if l1.size = 0 then addAllToEmpty s l1 l2 m else addAllAt s l1 l2 l1.size m

/-! ### iterator mutators

The cursor positions stay with the sequence-level iterator models; at the level of raw links an iterator mutator is
the pointer surgery on the node `iter->last` (given by its id); `tail` follows the C text after the repair of defect L6:
`if (!new_node->next) list->tail = new_node` (no `index` test any more). -/

/-- `cc_list_iter_add` (ascending) with `iter->last = last` -/
def iterAddAt (s : St) (l : Hdr) (last x : Nat) (m : Mem) : Stat × St × Hdr × Mem :=
  let a := m.allocT l.triple
  if !a.1 then (.errAlloc, s, l, a.2) else
  let m := a.2.check (live s.heap (some last))           -- `link_after(iter->last, new)` dereferences `last`
  let (new, s) := s.alloc
  let h := setData s.heap new x
  let h := linkAfter h last new
  let l := if (nd h new).next = none then { l with tail := some new } else l
  (.ok, { s with heap := h }, { l with size := l.size + 1 }, m)

/-- `cc_list_diter_add` (descending) with `iter->last = last`, `iter->index = index` -/
def diterAddAt (s : St) (l : Hdr) (last index x : Nat) (m : Mem) : Stat × St × Hdr × Mem :=
  let a := m.allocT l.triple
  if !a.1 then (.errAlloc, s, l, a.2) else
  let m := a.2.check (live s.heap (some last))           -- `link_behind(iter->last, new)` dereferences `last`
  let (new, s) := s.alloc
  let h := setData s.heap new x
  let l := if index = 0 then { l with head := some new } else l
  let h := linkBehind h last new
  (.ok, { s with heap := h }, { l with size := l.size + 1 }, m)

/-- `cc_list_iter_remove` / `cc_list_diter_remove`: `unlinkn(iter->list, iter->last)` -/
def iterRemoveAt (s : St) (l : Hdr) (last : Nat) (m : Mem) : Nat × St × Hdr × Mem := unlinkn s l last m

/-- `cc_list_iter_replace` / `cc_list_diter_replace`: `iter->last->data = element` -/
def iterReplaceAt (s : St) (last x : Nat) : Nat × St := ((nd s.heap last).data, { s with heap := setData s.heap last x })

/-- `cc_list_zip_iter_add` -/
def zipAddAt (s : St) (l1 l2 : Hdr) (last1 last2 x1 x2 : Nat) (m : Mem) : Stat × St × Hdr × Hdr × Mem :=
  let a1 := m.allocT l1.triple
  if !a1.1 then (.errAlloc, s, l1, l2, a1.2) else
  let a2 := a1.2.allocT l2.triple
  if !a2.1 then (.errAlloc, s, l1, l2, a2.2.freeT l1.triple) else
  let m := a2.2.check (live s.heap (some last1) && live s.heap (some last2))
  let (new1, s) := s.alloc
  let (new2, s) := s.alloc
  let h := setData s.heap new1 x1
  let h := setData h new2 x2
  let h := linkAfter h last1 new1
  let h := linkAfter h last2 new2
  let l1 := if (nd h new1).next = none then { l1 with tail := some new1 } else l1
  let l2 := if (nd h new2).next = none then { l2 with tail := some new2 } else l2
  (.ok, { s with heap := h }, { l1 with size := l1.size + 1 }, { l2 with size := l2.size + 1 }, m)

/-! ### `cc_list_sort_in_place`: `split` / `merge` on the raw links

The pointer variables of the C text are node ids (`none` = `NULL`); a node keeps its id when `link_behind` moves it, so —
unlike in the position model `DList.mergeLoop` — no cursor has to be re-based after a move.  Dereferencing is total here
(`dataAt` of `NULL` is 0); that no `NULL`/foreign pointer is dereferenced is the `check`s of the position model
(`C18List.sort_in_place_code_eq`). -/

/-- `p->data` -/
def dataAt (h : Heap) (p : Option Nat) : Nat := (p.map fun id => (nd h id).data).getD 0

/-- the `for` loop of `merge(left, right, l_size, r_size, cmp)`, statement by statement (`i`, `lc`, `rc` the C counters
`i`, `l`, `r`; `lp`/`rp` the cursors `l_part`/`r_part`; `left`/`right` the in-out parameters) -/
def mergeLoop (cmp : Nat → Nat → Int) (lSize rSize : Nat) :
    Nat → Nat → Nat → Nat → Option Nat → Option Nat → Heap → Option Nat → Option Nat → Bool →
      Heap × Option Nat × Option Nat × Bool
  | 0, _, _, _, _, _, h, left, right, ok => (h, left, right, ok)
  | fuel + 1, i, lc, rc, lp, rp, h, left, right, ok =>
    let size := rSize + lSize
    let ok := ok && live h lp && live h rp                                 -- `l_part->data`, `r_part->data` (and `link_behind`)
    if cmp (dataAt h lp) (dataAt h rp) ≤ 0 then
      if i = 0 ∧ size = 2 then (h, left, right, ok)
      else if lc = lSize then (h, left, walkNext h (rSize - 1 - rc) rp, ok)   -- for (; r < r_size - 1; r++) r_part = r_part->next;
      else mergeLoop cmp lSize rSize fuel (i + 1) (lc + 1) rc (nextOf h lp) rp h left right ok
    else
      let tmp := nextOf h rp
      let h' := linkBehind h (lp.getD 0) (rp.getD 0)                       -- link_behind(l_part, r_part)
      if i = 0 ∧ size = 2 then (h', rp, lp, ok)                            -- *right = l_part; *left = r_part
      else if rc + 1 = rSize then (h', left, walkNext h' (lSize - 1 - lc) lp, ok)
      else mergeLoop cmp lSize rSize fuel (i + 1) lc (rc + 1) lp tmp h' (if i = 0 then rp else left) right ok

/-- `split(list, b, size, cmp)`: returns the heap, the header (`head`/`tail` are assigned by every call that merges), the
first node of the sorted run, and whether every node `merge` dereferenced was live -/
def split (cmp : Nat → Nat → Int) : Nat → Heap → Hdr → Option Nat → Nat → Bool → Heap × Hdr × Option Nat × Bool
  | 0, h, l, b, _, ok => (h, l, b, ok)
  | fuel + 1, h, l, b, size, ok =>
    if size < 2 then (h, l, b, ok) else
    let lSize := size / 2
    let rSize := size / 2 + size % 2
    let center := walkNext h lSize b
    let r1 := split cmp fuel h l b lSize ok
    let r2 := split cmp fuel r1.1 r1.2.1 center rSize r1.2.2.2
    let mg := mergeLoop cmp lSize rSize (rSize + lSize) 0 0 0 r1.2.2.1 r2.2.2.1 r2.1 r1.2.2.1 r2.2.2.1 r2.2.2.2
    (mg.1, { r2.2.1 with head := mg.2.1, tail := mg.2.2.1 }, mg.2.1, mg.2.2.2)

/-- `cc_list_sort_in_place` (no allocator call; the ledger only records a dereference of NULL or of a released node) -/
def sortInPlace (cmp : Nat → Nat → Int) (s : St) (l : Hdr) (m : Mem) : St × Hdr × Mem :=
  let r := split cmp l.size s.heap l l.head l.size true
  ({ s with heap := r.1 }, r.2.1, m.check r.2.2.2)

/-! ### `cc_list_sort` / `cc_slist_sort`: `to_array`, `qsort`, write-back into the existing nodes -/

/-- `for (i = 0; i < k; i++) { node->data = elements[i]; node = node->next; }`: only `data` fields are written -/
def writeBack (vals : List Nat) : Nat → Nat → Option Nat → Heap → Heap
  | 0, _, _, h => h
  | _, _, none, h => h
  | k + 1, i, some id, h =>
    let h := setData h id (vals.getD i 0)
    writeBack vals k (i + 1) (nd h id).next h

/-- `cc_list_sort`: `to_array` (one block from the list's allocator, the elements read along `next`), `qsort` (the parameter
`sortFn`), write-back, release of the block.  No node is created, released or relinked. -/
def sort (sortFn : List Nat → List Nat) (s : St) (l : Hdr) (m : Mem) : Stat × St × Hdr × Mem :=
  if l.size = 0 then (.errInvalidRange, s, l, m) else
  let a := m.allocT l.triple
  if !a.1 then (.errAlloc, s, l, a.2) else
  let arr := dataNext s.heap l.size l.head
  (.ok, { s with heap := writeBack (sortFn arr) l.size 0 l.head s.heap }, l, a.2.freeT l.triple)

/-! ### the ascending iterator `CC_ListIter` with its fields as node ids, and whole iterator programs -/

/-- `CC_ListIter`: `index`, `last`, `next` -/
structure PIter where
  index : Nat := 0
  last  : Option Nat := none
  next  : Option Nat := none
  deriving DecidableEq

/-- `cc_list_iter_init` -/
def piterInit (l : Hdr) : PIter := { next := l.head }

/-- `cc_list_iter_next` -/
def piterNext (h : Heap) (it : PIter) : Stat × Option Nat × PIter :=
  match it.next with
  | none => (.iterEnd, none, it)
  | some n => (.ok, some (nd h n).data, { index := it.index + 1, last := some n, next := (nd h n).next })

/-- the calls of an iterator program -/
inductive PIOp where
  | next | remove | replace (x : Nat) | add (x : Nat)
  deriving DecidableEq

/-- one call of an iterator program on the raw links.  `cc_list_iter_add` dereferences `iter->last` unconditionally: calling
it without a current element is outside the contract ("only after a call to next") and is not executed here, as in the
harness; `remove`/`replace` check `last` themselves. -/
def piterStep (s : St) (l : Hdr) (it : PIter) (op : PIOp) (m : Mem) : Option Stat × St × Hdr × PIter × Mem :=
  match op with
  | .next => let r := piterNext s.heap it; (some r.1, s, l, r.2.2, m)
  | .add x =>
    match it.last with
    | none => (none, s, l, it, m)
    | some n =>
      let r := iterAddAt s l n x m
      (some r.1, r.2.1, r.2.2.1, (if r.1 = .ok then { it with index := it.index + 1 } else it), r.2.2.2)
  | .remove =>
    match it.last with
    | none => (some .errValueNotFound, s, l, it, m)
    | some n =>
      let u := unlinkn s l n m
      (some .ok, u.2.1, u.2.2.1, { it with index := it.index - 1, last := none }, u.2.2.2)
  | .replace x =>
    match it.last with
    | none => (some .errValueNotFound, s, l, it, m)
    | some n => (some .ok, { s with heap := setData s.heap n x }, l, it, m)

def piterRun (s : St) (l : Hdr) (it : PIter) (ops : List PIOp) (m : Mem) : St × Hdr × PIter × Mem :=
  match ops with
  | [] => (s, l, it, m)
  | op :: ops => let r := piterStep s l it op m; piterRun r.2.1 r.2.2.1 r.2.2.2.1 ops r.2.2.2.2

/-- `cc_list_new_conf` (the header is not a node: it only costs one allocation) -/
def new (t : Triple) (m : Mem) : Stat × Option Hdr × Mem :=
  let a := m.allocT t
  if !a.1 then (.errAlloc, none, a.2) else (.ok, some { triple := t }, a.2)

/-! ### derived lists: `cc_list_sublist`, `cc_list_copy_shallow/deep`, `cc_list_filter`

A fresh header (one allocation), then `cc_list_add` (= `addLast`) per selected element of the source, read along `next`; a
refused `add` destroys the partial result (`cc_list_destroy`: all nodes, then the header).  Source and result live on the same
heap. -/

/-- `while (node) { if (sel data) add(dst, value); node = node->next; }` / `for (i = b; i <= e; i++) { add; node = node->next; }` -/
def buildLoop (sel : Nat → Option Nat) : Nat → St → Option Nat → Hdr → Mem → Stat × St × Option Hdr × Mem
  | 0, s, _, d, m => (.ok, s, some d, m)
  | _, s, none, d, m => (.ok, s, some d, m)
  | k + 1, s, some id, d, m =>
    match sel (nd s.heap id).data with
    | none => buildLoop sel k s (nd s.heap id).next d m
    | some y =>
      let r := addLast s d y m
      if r.1 != .ok then
        let z := destroy r.2.1 r.2.2.1 r.2.2.2
        (r.1, z.2.1, none, z.2.2)
      else buildLoop sel k r.2.1 (nd r.2.1.heap id).next r.2.2.1 r.2.2.2

/-- `cc_list_sublist` -/
def sublist (s : St) (l : Hdr) (b e : Nat) (m : Mem) : Stat × St × Option Hdr × Mem :=
  if b > e || e ≥ l.size then (.errInvalidRange, s, none, m) else
  let c := new l.triple m
  match c.2.1 with
  | none => (c.1, s, none, c.2.2)
  | some sub =>
    let g := getNodeAt s.heap l b
    if g.1 != .ok then (g.1, s, none, c.2.2.freeT l.triple) else
    buildLoop some (e - b + 1) s g.2 sub c.2.2

/-- `cc_list_copy_shallow` (`cp = id`) and `cc_list_copy_deep` -/
def copy (cp : Nat → Nat) (s : St) (l : Hdr) (m : Mem) : Stat × St × Option Hdr × Mem :=
  let c := new l.triple m
  match c.2.1 with
  | none => (c.1, s, none, c.2.2)
  | some dst => buildLoop (fun v => some (cp v)) l.size s l.head dst c.2.2

/-- `cc_list_filter` -/
def filter (p : Nat → Bool) (s : St) (l : Hdr) (m : Mem) : Stat × St × Option Hdr × Mem :=
  if l.size = 0 then (.errOutOfRange, s, none, m) else
  let c := new l.triple m
  match c.2.1 with
  | none => (c.1, s, none, c.2.2)
  | some dst => buildLoop (fun v => if p v then some v else none) l.size s l.head dst c.2.2

end CC.PList
