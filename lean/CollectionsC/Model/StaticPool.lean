import CollectionsC.Base.Status
import CollectionsC.Base.Mem
import CollectionsC.Base.Buf
import CollectionsC.Spec.BlocksSpec
/-! Concrete model of `src/memory/cc_static_pool.c`.

`SPoolCore` holds exactly what the C struct holds, with the three pointers written as offsets
relative to `low_ptr` (= `block` = `data_buf + offset`), plus the bytes of the region.  Its
operations mirror the C statements.  A pointer argument is `Option Nat`: `none` = NULL,
`some k` = `low_ptr + k`.

`StaticPool` adds two *ghost* (history) fields that the C code does not keep and that no
`SPoolCore` operation reads: the list of live blocks and whether the newest one can still be
rolled back.  They exist so that `abs` is a function; `Proofs/StaticPool.lean` shows that the core
component of every operation is independent of them (`*_core`). -/
namespace CC

/-- `size_t` arithmetic is modulo this -/
def sizeMod : Nat := 2 ^ 64

/-- the overflow guard of the two `*_pool_calloc`: `size != 0 && count > ((size_t) -1) / size` -/
def mulOverflows (count sz : Nat) : Bool := sz != 0 && decide (count > (sizeMod - 1) / sz)

theorem mulOverflows_iff (count sz : Nat) : mulOverflows count sz = true ↔ sizeMod ≤ count * sz := by
  unfold mulOverflows
  simp only [Bool.and_eq_true, bne_iff_ne, ne_eq, decide_eq_true_eq]
  constructor
  · rintro ⟨h0, h1⟩
    have hpos : 0 < sz := Nat.pos_of_ne_zero h0
    have := Nat.lt_mul_div_succ (sizeMod - 1) hpos
    have h2 : sz * ((sizeMod - 1) / sz + 1) ≤ sz * count := Nat.mul_le_mul_left _ h1
    rw [Nat.mul_comm count sz]
    have : 0 < sizeMod := by decide
    omega
  · intro h
    have h0 : sz ≠ 0 := by
      intro e; subst e; simp [sizeMod] at h
    refine ⟨h0, ?_⟩
    apply Decidable.byContradiction
    intro hle
    have hle' : count ≤ (sizeMod - 1) / sz := by omega
    have := Nat.mul_le_mul_right sz hle'
    have h3 := Nat.div_mul_le_self (sizeMod - 1) sz
    have : 0 < sizeMod := by decide
    omega

structure SPoolCore where
  size  : Nat
  free  : Nat          -- free_ptr - low_ptr
  high  : Nat          -- high_ptr - low_ptr
  bytes : Buf Nat      -- the region `[low_ptr, low_ptr + size)`
  deriving Repr, DecidableEq

namespace SPoolCore

/-- `cc_static_pool_new` (always `CC_OK`); `bytes` is whatever the caller's buffer contains -/
def new (size : Nat) (bytes : Buf Nat) : SPoolCore := { size, free := 0, high := 0, bytes }

/-- `cc_static_pool_reset` -/
def reset (c : SPoolCore) : SPoolCore := { c with free := 0, high := 0 }

/-- `cc_static_pool_malloc` -/
def malloc (c : SPoolCore) (n : Nat) : Option Nat × SPoolCore :=
  let used := c.free
  if n > c.size - used then (none, c) else
  let ptr := c.free
  (some ptr, { c with high := ptr, free := ptr + n })

/-- `cc_static_pool_calloc`: NULL when `count * size` overflows `size_t`, else the request is the
product -/
def calloc (c : SPoolCore) (count sz : Nat) (m : Mem) : Option Nat × SPoolCore × Mem :=
  if mulOverflows count sz then (none, c, m) else
  let n := (count * sz) % sizeMod
  let r := c.malloc n
  match r.1 with
  | some ptr =>
    let m := m.check (ptr + n ≤ r.2.bytes.length)
    (some ptr, { r.2 with bytes := Spec.fillBytes r.2.bytes ptr n 0 }, m)
  | none => (none, r.2, m)

/-- `cc_static_pool_free` -/
def release (c : SPoolCore) (p : Option Nat) : SPoolCore :=
  if p = some c.high then { c with free := c.high } else c

/-- `cc_static_pool_used_bytes` -/
def usedBytes (c : SPoolCore) : Nat := c.free
/-- `cc_static_pool_free_bytes` -/
def freeBytes (c : SPoolCore) : Nat := c.size - c.free

/-- the user stores `v` into `n` bytes at `low_ptr + off` (not a library function) -/
def write (c : SPoolCore) (off n v : Nat) (m : Mem) : SPoolCore × Mem :=
  ({ c with bytes := Spec.fillBytes c.bytes off n v }, m.check (off + n ≤ c.bytes.length))

end SPoolCore

structure StaticPool where
  core   : SPoolCore
  blocks : List (Nat × Nat)     -- ghost: live blocks, newest first
  undo   : Bool                 -- ghost: the newest live block has not been rolled back
  deriving Repr, DecidableEq

namespace StaticPool

def new (size : Nat) (bytes : Buf Nat) : StaticPool :=
  { core := SPoolCore.new size bytes, blocks := [], undo := false }

def reset (s : StaticPool) : StaticPool := { core := s.core.reset, blocks := [], undo := false }

def malloc (s : StaticPool) (n : Nat) : Option Nat × StaticPool :=
  let r := s.core.malloc n
  match r.1 with
  | some p => (some p, { core := r.2, blocks := (p, n) :: s.blocks, undo := true })
  | none => (none, { s with core := r.2 })

def calloc (s : StaticPool) (count sz : Nat) (m : Mem) : Option Nat × StaticPool × Mem :=
  let r := s.core.calloc count sz m
  match r.1 with
  | some p => (some p, { core := r.2.1, blocks := (p, (count * sz) % sizeMod) :: s.blocks, undo := true }, r.2.2)
  | none => (none, { s with core := r.2.1 }, r.2.2)

def release (s : StaticPool) (p : Option Nat) : StaticPool :=
  if p = some s.core.high then
    { core := s.core.release p, blocks := if s.undo then s.blocks.tail else s.blocks, undo := false }
  else { s with core := s.core.release p }

def write (s : StaticPool) (off n v : Nat) (m : Mem) : StaticPool × Mem :=
  let r := s.core.write off n v m
  ({ s with core := r.1 }, r.2)

/-- abstraction -/
def abs (s : StaticPool) : Spec.SPool :=
  { size := s.core.size, blocks := s.blocks, undo := s.undo, bytes := s.core.bytes }

/-- decidable version of `Spec.SPool.layout` -/
def layoutB : List (Nat × Nat) → Bool
  | [] => true
  | b :: bs => b.1 == Spec.blocksLen bs && layoutB bs

/-- representation invariant (C fields and their relation to the ghost fields) -/
def Inv (s : StaticPool) : Prop :=
  s.core.free ≤ s.core.size ∧ s.core.high ≤ s.core.free ∧ s.core.bytes.length = s.core.size ∧
  s.core.free = Spec.blocksLen s.blocks ∧ layoutB s.blocks = true ∧
  (s.undo = false → s.core.free = s.core.high) ∧
  (s.undo = true → match s.blocks with
                   | b :: _ => b.1 = s.core.high ∧ b.1 + b.2 = s.core.free
                   | [] => False)

instance (s : StaticPool) : Decidable s.Inv := by
  unfold Inv
  cases s.blocks <;> infer_instance

open Spec.SPool (Op) in
def step (s : StaticPool) (op : Op) (m : Mem) : Option Nat × StaticPool × Mem :=
  match op with
  | .malloc n => let r := s.malloc n; (r.1, r.2, m)
  | .calloc c k => s.calloc c k m
  | .release p => (none, s.release p, m)
  | .reset => (none, s.reset, m)
  | .write off n v => let r := s.write off n v m; (none, r.1, r.2)

open Spec.SPool (Op) in
def run (s : StaticPool) (ops : List Op) (m : Mem) : List (Option Nat) × StaticPool × Mem :=
  match ops with
  | [] => ([], s, m)
  | op :: ops => let r := s.step op m; let rs := run r.2.1 ops r.2.2; (r.1 :: rs.1, rs.2.1, rs.2.2)

end StaticPool
end CC
