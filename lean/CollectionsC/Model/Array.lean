import CollectionsC.Base.Status
import CollectionsC.Base.Mem
import CollectionsC.Base.Buf
import CollectionsC.Spec.SeqSpec
/-! Concrete model of `src/cc_array.c`: the fields of `struct cc_array_s` (`size`, `capacity`,
the buffer block, and `exp_factor` in the form of the function `grow c = (size_t)(c * exp_factor)`),
the same statements in the same order.  `size_t` is `Nat`; the places where the C text relies on
unsigned wrap-around (`size - 1` on an empty array, `index - 1` at 0) use `wdec`.
The allocator triple of the struct (`mem_alloc/mem_calloc/mem_free`, copied from the configuration) is
the field `triple`; every allocation and release of the model goes through `Mem.allocT`/`Mem.freeT`
with the triple of the array that performs it, derived arrays copy it where the C code copies the
three function pointers.
Byte-size products (`capacity * sizeof(void*)`) never wrap: the constructor (A9) and
`expand_capacity` (A10) refuse every capacity above `CC_MAX_ELEMENTS / 8`, which is part of `Inv`. A loop that reads the slots `[0,size)` is preceded by one check
`size ≤ buf.length` instead of one check per slot. -/
namespace CC

/-- `struct cc_array_s` -/
structure Arr where
  size     : Nat
  capacity : Nat
  buf      : Buf Nat
  grow     : Nat → Nat
  triple   : Triple := .conf

/-- `CC_ArrayIter` (the array pointer is kept by the caller) -/
structure ArrIter where
  index : Nat := 0
  lastRemoved : Bool := false
  deriving Repr, DecidableEq

namespace Arr
open Spec.Seq (wdec)

/-- abstraction: the live slots in index order -/
def abs (a : Arr) : List Nat := (List.range a.size).map a.buf.get

/-- representation invariant: the live slots fit the capacity, the capacity fits the allocated
block, the capacity is at least 1 and its byte size does not wrap
(`capacity ≤ CC_MAX_ELEMENTS / sizeof(void*)`: guaranteed by the constructor — A9 — and by
`expand_capacity` — A10 — for every growth function) -/
def Inv (a : Arr) : Prop :=
  a.size ≤ a.capacity ∧ a.capacity ≤ a.buf.length ∧ 1 ≤ a.capacity ∧ a.capacity ≤ Gen.CC_MAX_ELEMENTS / 8

instance (a : Arr) : Decidable a.Inv := by unfold Inv; infer_instance

/-- `cc_array_new_conf`; `exGe q` is the float test `ex >= (float) q` -/
def new (cap : Nat) (grow : Nat → Nat) (exGe : Nat → Bool) (m : Mem) (t : Triple := .conf) : Stat × Option Arr × Mem :=
  if cap = 0 then (.errInvalidCapacity, none, m) else
  if exGe (Gen.CC_MAX_ELEMENTS / cap) then (.errInvalidCapacity, none, m) else
  -- `conf->capacity > CC_MAX_ELEMENTS / sizeof(void*)`: the byte size must not wrap (A9)
  if cap > Gen.CC_MAX_ELEMENTS / 8 then (.errInvalidCapacity, none, m) else
  let a1 := m.allocT t
  if !a1.1 then (.errAlloc, none, a1.2) else
  let a2 := a1.2.allocT t
  if !a2.1 then (.errAlloc, none, a2.2.freeT t) else
  (.ok, some { size := 0, capacity := cap, buf := Buf.mk cap, grow := grow, triple := t }, a2.2)

/-- `cc_array_destroy` -/
def destroy (a : Arr) (m : Mem) : Mem := (m.freeT a.triple).freeT a.triple

/-- `cc_array_destroy_cb`: the elements handed to the callback, then `destroy` -/
def destroyCb (a : Arr) (m : Mem) : List Nat × Mem :=
  ((List.range a.size).map a.buf.get, a.destroy (m.check (a.size ≤ a.buf.length)))

/-- the capacity `expand_capacity` asks for -/
def newCapacity (a : Arr) : Nat :=
  let nc := a.grow a.capacity
  if nc ≤ a.capacity then
    if a.capacity < Gen.CC_MAX_ELEMENTS / 2 then a.capacity + 1 else Gen.CC_MAX_ELEMENTS
  else nc

/-- `expand_capacity` (static) -/
def expandCapacity (a : Arr) (m : Mem) : Stat × Arr × Mem :=
  if a.capacity = Gen.CC_MAX_ELEMENTS then (.errMaxCapacity, a, m) else
  let nc := a.newCapacity
  -- `new_capacity > CC_MAX_ELEMENTS / sizeof(void*)`: the byte size must not wrap (A10)
  if nc > Gen.CC_MAX_ELEMENTS / 8 then (.errMaxCapacity, a, m) else
  let al := m.allocT a.triple
  if !al.1 then (.errAlloc, a, al.2) else
  let m := al.2.check (a.size ≤ a.buf.length && a.size ≤ nc)
  let nb := (Buf.mk nc : Buf Nat).memcpy 0 a.buf 0 a.size
  let m := m.freeT a.triple
  (.ok, { a with buf := nb, capacity := nc }, m)

/-- `ar->buffer[ar->size] = element; ar->size++` -/
def store (a : Arr) (x : Nat) (m : Mem) : Stat × Arr × Mem :=
  (.ok, { a with buf := a.buf.put a.size x, size := a.size + 1 }, m.check (a.size < a.buf.length))

/-- `cc_array_add` -/
def add (a : Arr) (x : Nat) (m : Mem) : Stat × Arr × Mem :=
  if a.size ≥ a.capacity then
    let e := a.expandCapacity m
    if e.1 != .ok then (e.1, e.2.1, e.2.2) else e.2.1.store x e.2.2
  else a.store x m

/-- the shifting tail of `cc_array_add_at` -/
def insertShift (a : Arr) (x i : Nat) (m : Mem) : Stat × Arr × Mem :=
  let m := m.check (a.size + 1 ≤ a.buf.length)
  let buf := a.buf.memmove (i + 1) i (a.size - i)
  let m := m.check (i < a.buf.length)
  (.ok, { a with buf := buf.put i x, size := a.size + 1 }, m)

/-- `cc_array_add_at` -/
def addAt (a : Arr) (x i : Nat) (m : Mem) : Stat × Arr × Mem :=
  if i = a.size then a.add x m else
  if (a.size = 0 && i != 0) || i > wdec a.size then (.errOutOfRange, a, m) else
  if a.size ≥ a.capacity then
    let e := a.expandCapacity m
    if e.1 != .ok then (e.1, e.2.1, e.2.2) else e.2.1.insertShift x i e.2.2
  else a.insertShift x i m

/-- `cc_array_replace_at` -/
def replaceAt (a : Arr) (x i : Nat) (m : Mem) : Stat × Option Nat × Arr × Mem :=
  if i ≥ a.size then (.errOutOfRange, none, a, m) else
  let m := m.check (i < a.buf.length)
  (.ok, some (a.buf.get i), { a with buf := a.buf.put i x }, m)

/-- `cc_array_swap_at` -/
def swapAt (a : Arr) (i j : Nat) (m : Mem) : Stat × Arr × Mem :=
  if i ≥ a.size || j ≥ a.size then (.errOutOfRange, a, m) else
  let m := m.check (i < a.buf.length && j < a.buf.length)
  let tmp := a.buf.get i
  let buf := a.buf.put i (a.buf.get j)
  (.ok, { a with buf := buf.put j tmp }, m)

/-- the scan of `cc_array_index_of`: `n` slots remain, the next one is `i` -/
def indexOfFrom (b : Buf Nat) (x : Nat) : Nat → Nat → Option Nat
  | 0, _ => none
  | n + 1, i => if b.get i = x then some i else indexOfFrom b x n (i + 1)

/-- `cc_array_index_of` -/
def indexOf (a : Arr) (x : Nat) (m : Mem) : Stat × Option Nat × Mem :=
  let m := m.check (a.size ≤ a.buf.length)
  match indexOfFrom a.buf x a.size 0 with
  | some i => (.ok, some i, m)
  | none => (.errOutOfRange, none, m)

/-- `memmove(&buffer[index], &buffer[index+1], (size-1-index)*sizeof(void*)); size--` -/
def closeGap (a : Arr) (index : Nat) : Arr :=
  let buf := if index != a.size - 1 then a.buf.memmove index (index + 1) (a.size - 1 - index) else a.buf
  { a with buf := buf, size := a.size - 1 }

/-- `cc_array_remove` -/
def remove (a : Arr) (x : Nat) (m : Mem) : Stat × Option Nat × Arr × Mem :=
  let r := a.indexOf x m
  if r.1 = .errOutOfRange then (.errValueNotFound, none, a, r.2.2) else
  let index := r.2.1.getD 0
  -- the memmove reads the slots `[index+1, index+1+(size-1-index))`
  let m := r.2.2.check (index + 1 + (a.size - 1 - index) ≤ a.buf.length)
  (.ok, some x, a.closeGap index, m)

/-- `cc_array_remove_at` -/
def removeAt (a : Arr) (i : Nat) (m : Mem) : Stat × Option Nat × Arr × Mem :=
  if i ≥ a.size then (.errOutOfRange, none, a, m) else
  -- `*out = buffer[index]`, then the memmove reads the slots `[index+1, index+1+(size-1-index))`
  let m := m.check (i < a.buf.length && i + 1 + (a.size - 1 - i) ≤ a.buf.length)
  (.ok, some (a.buf.get i), a.closeGap i, m)

/-- `cc_array_remove_last`: `remove_at(ar, ar->size - 1, out)` with the unsigned wrap on empty -/
def removeLast (a : Arr) (m : Mem) : Stat × Option Nat × Arr × Mem := a.removeAt (wdec a.size) m

/-- `cc_array_remove_all` -/
def removeAll (a : Arr) : Arr := { a with size := 0 }

/-- `cc_array_remove_all_free`: number of non-NULL elements passed to `free`, then `remove_all` -/
def removeAllFree (a : Arr) (m : Mem) : Nat × Arr × Mem :=
  (((List.range a.size).map a.buf.get).countP (· != 0), a.removeAll, m.check (a.size ≤ a.buf.length))

/-- `cc_array_get_at` -/
def getAt (a : Arr) (i : Nat) (m : Mem) : Stat × Option Nat × Mem :=
  if i ≥ a.size then (.errOutOfRange, none, m) else (.ok, some (a.buf.get i), m.check (i < a.buf.length))

/-- `cc_array_get_last` -/
def getLast (a : Arr) (m : Mem) : Stat × Option Nat × Mem :=
  if a.size = 0 then (.errValueNotFound, none, m) else a.getAt (a.size - 1) m

/-- block + header of a derived array: `mem_alloc`/`mem_calloc` in the C order, cleanup on refusal -/
def alloc2 (m : Mem) (t : Triple := .conf) : Bool × Mem :=
  let a1 := m.allocT t
  if !a1.1 then (false, a1.2) else
  let a2 := a1.2.allocT t
  if !a2.1 then (false, a2.2.freeT t) else (true, a2.2)

/-- `cc_array_subarray`: the new block has `ar->capacity` slots, the new capacity is the size -/
def subarray (a : Arr) (b e : Nat) (m : Mem) : Stat × Option Arr × Mem :=
  if b > e || e ≥ a.size then (.errInvalidRange, none, m) else
  let al := alloc2 m a.triple
  if !al.1 then (.errAlloc, none, al.2) else
  let sz := e - b + 1
  let m := al.2.check (b + sz ≤ a.buf.length && sz ≤ a.capacity)
  (.ok, some { size := sz, capacity := sz, buf := (Buf.mk a.capacity : Buf Nat).memcpy 0 a.buf b sz, grow := a.grow, triple := a.triple }, m)

/-- `cc_array_copy_shallow` -/
def copyShallow (a : Arr) (m : Mem) : Stat × Option Arr × Mem :=
  let al := alloc2 m a.triple
  if !al.1 then (.errAlloc, none, al.2) else
  let m := al.2.check (a.size ≤ a.buf.length && a.size ≤ a.capacity)
  (.ok, some { size := a.size, capacity := a.capacity, buf := (Buf.mk a.capacity : Buf Nat).memcpy 0 a.buf 0 a.size, grow := a.grow, triple := a.triple }, m)

/-- `cc_array_copy_deep`; also returns the elements handed to `cp`, in call order -/
def copyDeep (cp : Nat → Nat) (a : Arr) (m : Mem) : Stat × Option Arr × List Nat × Mem :=
  let al := alloc2 m a.triple
  if !al.1 then (.errAlloc, none, [], al.2) else
  let m := al.2.check (a.size ≤ a.buf.length && a.size ≤ a.capacity)
  let buf : Buf Nat := (List.range a.capacity).map fun j => if j < a.size then cp (a.buf.get j) else 0
  (.ok, some { size := a.size, capacity := a.capacity, buf := buf, grow := a.grow, triple := a.triple },
   (List.range a.size).map a.buf.get, m)

/-- state of the compaction loop of `cc_array_filter_mut` -/
structure FM where
  buf  : Buf Nat
  size : Nat
  rm   : Nat
  keep : Nat
  log  : List Nat      -- elements handed to the predicate so far
  ok   : Bool := true  -- every slot read and every memmove so far stayed inside the block

/-- the loop `for (i = size - 1; i != (size_t)-1; i--)`: `n = i + 1` iterations remain -/
def filterMutLoop (p : Nat → Bool) : Nat → FM → FM
  | 0, s => s
  | i + 1, s =>
    let e := s.buf.get i
    let s := { s with log := s.log ++ [e], ok := s.ok && decide (i < s.buf.length) }
    if !p e then filterMutLoop p i { s with rm := s.rm + 1 }
    else
      let s :=
        if s.rm > 0 then
          let buf := if s.keep > 0 then s.buf.memmove (i + 1) (i + 1 + s.rm) s.keep else s.buf
          let ok := if s.keep > 0 then s.ok && decide (i + 1 + s.rm + s.keep ≤ s.buf.length) else s.ok
          { s with buf := buf, size := s.size - s.rm, rm := 0, ok := ok }
        else s
      filterMutLoop p i { s with keep := s.keep + 1 }

/-- `cc_array_filter_mut`; also returns the elements handed to the predicate, in call order -/
def filterMut (p : Nat → Bool) (a : Arr) (m : Mem) : Stat × Arr × List Nat × Mem :=
  if a.size = 0 then (.errOutOfRange, a, [], m) else
  let s := filterMutLoop p a.size { buf := a.buf, size := a.size, rm := 0, keep := 0, log := [] }
  let s := if s.rm > 0 then { s with buf := s.buf.memmove 0 s.rm s.keep, size := s.size - s.rm,
                                       ok := s.ok && decide (s.rm + s.keep ≤ s.buf.length) } else s
  -- one fault check for all slot reads and memmoves of the loop (each was tested where it happened)
  (.ok, { a with buf := s.buf, size := s.size }, s.log, m.check s.ok)

/-- the copying loop of `cc_array_filter`: destination buffer and write position `f` -/
def filterStep (p : Nat → Bool) (src : Buf Nat) (s : Buf Nat × Nat) (i : Nat) : Buf Nat × Nat :=
  if p (src.get i) then (s.1.put s.2 (src.get i), s.2 + 1) else s

/-- `cc_array_filter`; also returns the elements handed to the predicate -/
def filter (p : Nat → Bool) (a : Arr) (m : Mem) : Stat × Option Arr × List Nat × Mem :=
  if a.size = 0 then (.errOutOfRange, none, [], m) else
  let al := alloc2 m a.triple
  if !al.1 then (.errAlloc, none, [], al.2) else
  let m := al.2.check (a.size ≤ a.buf.length && a.size ≤ a.capacity)
  let s := (List.range a.size).foldl (filterStep p a.buf) ((Buf.mk a.capacity : Buf Nat), 0)
  (.ok, some { size := s.2, capacity := a.capacity, buf := s.1, grow := a.grow, triple := a.triple },
   (List.range a.size).map a.buf.get, m)

/-- one swap of `cc_array_reverse`: `i` and `j = size - 1 - i` -/
def reverseStep (size : Nat) (b : Buf Nat) (i : Nat) : Buf Nat :=
  let j := size - 1 - i
  let tmp := b.get i
  (b.put i (b.get j)).put j tmp

/-- `cc_array_reverse` -/
def reverse (a : Arr) (m : Mem) : Arr × Mem :=
  if a.size = 0 then (a, m) else
  ({ a with buf := (List.range (a.size / 2)).foldl (reverseStep a.size) a.buf }, m.check (a.size ≤ a.buf.length))

/-- `cc_array_trim_capacity` -/
def trimCapacity (a : Arr) (m : Mem) : Stat × Arr × Mem :=
  if a.size = a.capacity then (.ok, a, m) else
  let size := if a.size < 1 then 1 else a.size
  if size = a.capacity then (.ok, a, m) else
  let al := m.allocT a.triple
  if !al.1 then (.errAlloc, a, al.2) else
  let m := al.2.check (a.size ≤ a.buf.length && a.size ≤ size)
  let nb := (Buf.mk size : Buf Nat).memcpy 0 a.buf 0 a.size
  let m := m.freeT a.triple
  (.ok, { a with buf := nb, capacity := size }, m)

/-- `cc_array_contains` -/
def contains (a : Arr) (x : Nat) (m : Mem) : Nat × Mem :=
  ((List.range a.size).foldl (fun o i => if a.buf.get i = x then o + 1 else o) 0, m.check (a.size ≤ a.buf.length))

/-- `cc_array_contains_value` -/
def containsValue (cmp : Nat → Nat → Int) (a : Arr) (x : Nat) (m : Mem) : Nat × Mem :=
  ((List.range a.size).foldl (fun o i => if cmp x (a.buf.get i) == 0 then o + 1 else o) 0,
   m.check (a.size ≤ a.buf.length))

/-- `cc_array_map`: the elements handed to `fn`, in call order -/
def map (a : Arr) (m : Mem) : List Nat × Mem :=
  ((List.range a.size).map a.buf.get, m.check (a.size ≤ a.buf.length))

/-- `cc_array_reduce`: the operand pairs handed to `fn` (flattened, `NULL` = 0) and the accumulator -/
def reduce (fn : Nat → Nat → Nat) (a : Arr) (r0 : Nat) (m : Mem) : List Nat × Nat × Mem :=
  let m := m.check (a.size ≤ a.buf.length)
  if a.size = 1 then ([a.buf.get 0, 0], fn (a.buf.get 0) 0, m) else
  let s : List Nat × Nat := if a.size > 1 then ([a.buf.get 0, a.buf.get 1], fn (a.buf.get 0) (a.buf.get 1)) else ([], r0)
  let s := (List.range' 2 (a.size - 2)).foldl (fun s i => (s.1 ++ [s.2, a.buf.get i], fn s.2 (a.buf.get i))) s
  (s.1, s.2, m)

/-- `cc_array_sort`: `qsort` rewrites the first `size` slots; `sortFn` is its assumed behaviour -/
def sort (sortFn : List Nat → List Nat) (a : Arr) (m : Mem) : Arr × Mem :=
  let sorted := sortFn ((List.range a.size).map a.buf.get)
  ({ a with buf := (List.range a.buf.length).map fun j => if j < a.size then sorted.getD j 0 else a.buf.get j },
   m.check (a.size ≤ a.buf.length))

/-! ## histories of a single array -/

open Spec.Seq (Cfg Op Out) in
/-- one call of the public API on the concrete state -/
def step (cfg : Cfg) (a : Arr) (op : Op) (m : Mem) : Out × Arr × Mem :=
  match op with
  | .add x => let r := a.add x m; ({ st := some r.1 }, r.2.1, r.2.2)
  | .addAt x i => let r := a.addAt x i m; ({ st := some r.1 }, r.2.1, r.2.2)
  | .trimCapacity => let r := a.trimCapacity m; ({ st := some r.1 }, r.2.1, r.2.2)
  | .replaceAt x i => let r := a.replaceAt x i m; ({ st := some r.1, val := r.2.1 }, r.2.2.1, r.2.2.2)
  | .swapAt i j => let r := a.swapAt i j m; ({ st := some r.1 }, r.2.1, r.2.2)
  | .remove x => let r := a.remove x m; ({ st := some r.1, val := r.2.1 }, r.2.2.1, r.2.2.2)
  | .removeAt i => let r := a.removeAt i m; ({ st := some r.1, val := r.2.1 }, r.2.2.1, r.2.2.2)
  | .removeLast => let r := a.removeLast m; ({ st := some r.1, val := r.2.1 }, r.2.2.1, r.2.2.2)
  | .removeAll => ({}, a.removeAll, m)
  | .removeAllFree => let r := a.removeAllFree m; ({ val := some r.1 }, r.2.1, r.2.2)
  | .reverse => let r := a.reverse m; ({}, r.1, r.2)
  | .filterMut => let r := a.filterMut cfg.pred m; ({ st := some r.1, log := r.2.2.1 }, r.2.1, r.2.2.2)
  | .sort => let r := a.sort cfg.sortFn m; ({}, r.1, r.2)
  | .getAt i => let r := a.getAt i m; ({ st := some r.1, val := r.2.1 }, a, r.2.2)
  | .getLast => let r := a.getLast m; ({ st := some r.1, val := r.2.1 }, a, r.2.2)
  | .indexOf x => let r := a.indexOf x m; ({ st := some r.1, val := r.2.1 }, a, r.2.2)
  | .contains x => let r := a.contains x m; ({ val := some r.1 }, a, r.2)
  | .containsValue x => let r := a.containsValue cfg.cmp x m; ({ val := some r.1 }, a, r.2)
  | .size => ({ val := some a.size }, a, m)
  | .map => let r := a.map m; ({ log := r.1 }, a, r.2)
  | .reduce r0 => let r := a.reduce cfg.fn r0 m; ({ val := some r.2.1, log := r.1 }, a, r.2.2)

open Spec.Seq (Cfg Op Out) in
/-- a history on the concrete state -/
def run (cfg : Cfg) (a : Arr) (ops : List Op) (m : Mem) : List Out × Arr × Mem :=
  match ops with
  | [] => ([], a, m)
  | op :: ops => let s := a.step cfg op m; let rs := run cfg s.2.1 ops s.2.2; (s.1 :: rs.1, rs.2.1, rs.2.2)

/-! ## iterator -/

/-- `cc_array_iter_next` -/
def iterNext (a : Arr) (it : ArrIter) (m : Mem) : Stat × Option Nat × ArrIter × Mem :=
  if it.index ≥ a.size then (.iterEnd, none, it, m) else
  (.ok, some (a.buf.get it.index), { index := it.index + 1, lastRemoved := false }, m.check (it.index < a.buf.length))

/-- `cc_array_iter_remove` -/
def iterRemove (a : Arr) (it : ArrIter) (m : Mem) : Stat × Option Nat × Arr × ArrIter × Mem :=
  if !it.lastRemoved then
    let r := a.removeAt (wdec it.index) m
    if r.1 = .ok then (r.1, r.2.1, r.2.2.1, { index := it.index - 1, lastRemoved := true }, r.2.2.2)
    else (r.1, r.2.1, r.2.2.1, it, r.2.2.2)
  else (.errValueNotFound, none, a, it, m)

/-- `cc_array_iter_add` -/
def iterAdd (a : Arr) (it : ArrIter) (x : Nat) (m : Mem) : Stat × Arr × ArrIter × Mem :=
  let r := a.addAt x it.index m
  if r.1 = .ok then (r.1, r.2.1, { it with index := it.index + 1 }, r.2.2) else (r.1, r.2.1, it, r.2.2)

/-- `cc_array_iter_replace` -/
def iterReplace (a : Arr) (it : ArrIter) (x : Nat) (m : Mem) : Stat × Option Nat × Arr × Mem :=
  a.replaceAt x (wdec it.index) m

/-- `cc_array_iter_index` -/
def iterIndex (it : ArrIter) : Nat := wdec it.index

open Spec.Seq (IterOp Out) in
/-- one iterator call on the concrete array and cursor -/
def iterStep (a : Arr) (it : ArrIter) (op : IterOp) (m : Mem) : Out × Arr × ArrIter × Mem :=
  match op with
  | .next => let r := a.iterNext it m; ({ st := some r.1, val := r.2.1 }, a, r.2.2.1, r.2.2.2)
  | .remove => let r := a.iterRemove it m; ({ st := some r.1, val := r.2.1 }, r.2.2.1, r.2.2.2.1, r.2.2.2.2)
  | .add x => let r := a.iterAdd it x m; ({ st := some r.1 }, r.2.1, r.2.2.1, r.2.2.2)
  | .replace x => let r := a.iterReplace it x m; ({ st := some r.1, val := r.2.1 }, r.2.2.1, it, r.2.2.2)
  | .index => ({ val := some (iterIndex it) }, a, it, m)

open Spec.Seq (IterOp Out) in
def iterRun (a : Arr) (it : ArrIter) (ops : List IterOp) (m : Mem) : List Out × Arr × ArrIter × Mem :=
  match ops with
  | [] => ([], a, it, m)
  | op :: ops =>
    let s := a.iterStep it op m
    let rs := iterRun s.2.1 s.2.2.1 ops s.2.2.2
    (s.1 :: rs.1, rs.2.1, rs.2.2.1, rs.2.2.2)

/-! ## zip iterator (two distinct arrays) -/

/-- `cc_array_zip_iter_next` -/
def zipNext (a1 a2 : Arr) (it : ArrIter) (m : Mem) : Stat × Option (Nat × Nat) × ArrIter × Mem :=
  if it.index ≥ a1.size || it.index ≥ a2.size then (.iterEnd, none, it, m) else
  (.ok, some (a1.buf.get it.index, a2.buf.get it.index), { index := it.index + 1, lastRemoved := false },
   m.check (it.index < a1.buf.length && it.index < a2.buf.length))

/-- `cc_array_zip_iter_remove` -/
def zipRemove (a1 a2 : Arr) (it : ArrIter) (m : Mem) :
    Stat × Option (Nat × Nat) × Arr × Arr × ArrIter × Mem :=
  if wdec it.index ≥ a1.size || wdec it.index ≥ a2.size then (.errOutOfRange, none, a1, a2, it, m) else
  if !it.lastRemoved then
    let r1 := a1.removeAt (wdec it.index) m
    let r2 := a2.removeAt (wdec it.index) r1.2.2.2
    (.ok, some (r1.2.1.getD 0, r2.2.1.getD 0), r1.2.2.1, r2.2.2.1,
     { index := it.index - 1, lastRemoved := true }, r2.2.2.2)
  else (.errValueNotFound, none, a1, a2, it, m)

/-- `cc_array_zip_iter_add`: room is made in both arrays first; the cursor advances only when the
call succeeds (A8); both insertions or none (A11): the status of each inner `add_at` is returned, and
when the second fails the first element is taken out again. -/
def zipAdd (a1 a2 : Arr) (it : ArrIter) (x y : Nat) (m : Mem) : Stat × Arr × Arr × ArrIter × Mem :=
  let index := it.index
  let e1 := if a1.size = a1.capacity then a1.expandCapacity m else (.ok, a1, m)
  if e1.1 != .ok then (.errAlloc, e1.2.1, a2, it, e1.2.2) else
  let e2 := if a2.size = a2.capacity then a2.expandCapacity e1.2.2 else (.ok, a2, e1.2.2)
  if e2.1 != .ok then (.errAlloc, e1.2.1, e2.2.1, it, e2.2.2) else
  let r1 := e1.2.1.addAt x index e2.2.2
  if r1.1 != .ok then (r1.1, r1.2.1, e2.2.1, it, r1.2.2) else
  let r2 := e2.2.1.addAt y index r1.2.2
  if r2.1 != .ok then
    let u := r1.2.1.removeAt index r2.2.2
    (r2.1, u.2.2.1, r2.2.1, it, u.2.2.2) else
  (.ok, r1.2.1, r2.2.1, { it with index := it.index + 1 }, r2.2.2)

/-- `cc_array_zip_iter_replace` -/
def zipReplace (a1 a2 : Arr) (it : ArrIter) (x y : Nat) (m : Mem) :
    Stat × Option (Nat × Nat) × Arr × Arr × Mem :=
  if wdec it.index ≥ a1.size || wdec it.index ≥ a2.size then (.errOutOfRange, none, a1, a2, m) else
  let r1 := a1.replaceAt x (wdec it.index) m
  let r2 := a2.replaceAt y (wdec it.index) r1.2.2.2
  (.ok, some (r1.2.1.getD 0, r2.2.1.getD 0), r1.2.2.1, r2.2.2.1, r2.2.2.2)

/-! ## zip iterator with the *same* array on both sides (`iter->ar1 == iter->ar2`)

Nothing in the library forbids `cc_array_zip_iter_init(&it, a, a)`.  Both halves of every call then act
on one object, so the model threads ONE array state through the two inner calls, in the order of the C
text.  (`zip_iter_next` only reads: `zipNext a a`.)  Consequences mirrored here: `zip_iter_remove` removes
two consecutive elements — or one, when the first removal made the index the end, and then `*out2` is
left as the caller had it (`untouched`); `zip_iter_add` makes room once, then the second `add_at` grows
again on its own when the first used the last free slot; when that growth step is refused the first
element is taken out again and the refusal reported (A11). -/

/-- `cc_array_zip_iter_remove`, `ar1 == ar2` -/
def zipRemove1 (a : Arr) (it : ArrIter) (untouched : Nat) (m : Mem) : Stat × Option (Nat × Nat) × Arr × ArrIter × Mem :=
  if wdec it.index ≥ a.size || wdec it.index ≥ a.size then (.errOutOfRange, none, a, it, m) else
  if !it.lastRemoved then
    let r1 := a.removeAt (wdec it.index) m
    let r2 := r1.2.2.1.removeAt (wdec it.index) r1.2.2.2
    (.ok, some (r1.2.1.getD 0, r2.2.1.getD untouched), r2.2.2.1,
     { index := it.index - 1, lastRemoved := true }, r2.2.2.2)
  else (.errValueNotFound, none, a, it, m)

/-- `cc_array_zip_iter_add`, `ar1 == ar2` -/
def zipAdd1 (a : Arr) (it : ArrIter) (x y : Nat) (m : Mem) : Stat × Arr × ArrIter × Mem :=
  let index := it.index
  let e1 := if a.size = a.capacity then a.expandCapacity m else (.ok, a, m)
  if e1.1 != .ok then (.errAlloc, e1.2.1, it, e1.2.2) else
  let e2 := if e1.2.1.size = e1.2.1.capacity then e1.2.1.expandCapacity e1.2.2 else (.ok, e1.2.1, e1.2.2)
  if e2.1 != .ok then (.errAlloc, e2.2.1, it, e2.2.2) else
  let r1 := e2.2.1.addAt x index e2.2.2
  if r1.1 != .ok then (r1.1, r1.2.1, it, r1.2.2) else
  let r2 := r1.2.1.addAt y index r1.2.2
  if r2.1 != .ok then
    let u := r2.2.1.removeAt index r2.2.2
    (r2.1, u.2.2.1, it, u.2.2.2) else
  (.ok, r2.2.1, { it with index := it.index + 1 }, r2.2.2)

/-- `cc_array_zip_iter_replace`, `ar1 == ar2`: the second replacement overwrites the first -/
def zipReplace1 (a : Arr) (it : ArrIter) (x y : Nat) (m : Mem) : Stat × Option (Nat × Nat) × Arr × Mem :=
  if wdec it.index ≥ a.size || wdec it.index ≥ a.size then (.errOutOfRange, none, a, m) else
  let r1 := a.replaceAt x (wdec it.index) m
  let r2 := r1.2.2.1.replaceAt y (wdec it.index) r1.2.2.2
  (.ok, some (r1.2.1.getD 0, r2.2.1.getD 0), r2.2.2.1, r2.2.2.2)

/-! ## zip-iterator programs -/

open Spec.Seq (ZipOp ZOut) in
def zipStep (a1 a2 : Arr) (it : ArrIter) (op : ZipOp) (m : Mem) : ZOut × Arr × Arr × ArrIter × Mem :=
  match op with
  | .next => let r := zipNext a1 a2 it m; ({ st := some r.1, val := r.2.1 }, a1, a2, r.2.2.1, r.2.2.2)
  | .remove => let r := zipRemove a1 a2 it m
    ({ st := some r.1, val := r.2.1 }, r.2.2.1, r.2.2.2.1, r.2.2.2.2.1, r.2.2.2.2.2)
  | .add x y => let r := zipAdd a1 a2 it x y m; ({ st := some r.1 }, r.2.1, r.2.2.1, r.2.2.2.1, r.2.2.2.2)
  | .replace x y => let r := zipReplace a1 a2 it x y m
    ({ st := some r.1, val := r.2.1 }, r.2.2.1, r.2.2.2.1, it, r.2.2.2.2)
  | .index => ({ idx := some (iterIndex it) }, a1, a2, it, m)

open Spec.Seq (ZipOp ZOut) in
def zipRun (a1 a2 : Arr) (it : ArrIter) (ops : List ZipOp) (m : Mem) : List ZOut × Arr × Arr × ArrIter × Mem :=
  match ops with
  | [] => ([], a1, a2, it, m)
  | op :: ops =>
    let s := zipStep a1 a2 it op m
    let rs := zipRun s.2.1 s.2.2.1 s.2.2.2.1 ops s.2.2.2.2
    (s.1 :: rs.1, rs.2.1, rs.2.2.1, rs.2.2.2.1, rs.2.2.2.2)

end Arr
end CC
