import CollectionsC.Base.Status
import CollectionsC.Base.Mem
import CollectionsC.Base.Buf
import CollectionsC.Spec.PQSpec
/-! Concrete model of `src/cc_pqueue.c`: the fields `size`, `capacity`, `buffer` and the same
statements in the same order.  Parameters: `cmp` (the user's comparator), `grow`
(`grow c = (size_t)(c * exp_factor)`, `Float32` in the driver) and, in the constructor, `exGe q`
(`exp_factor >= q` as floats).  The index macros `CC_PARENT/CC_LEFT/CC_RIGHT` are the generated
`CC.Gen.ccParent/ccLeft/ccRight`. -/
namespace CC
open Gen (ccParent ccLeft ccRight)

theorem ccParent_lt (i : Nat) (h : i ≠ 0) : ccParent i < i := by
  unfold ccParent
  have : i > 0 := Nat.pos_of_ne_zero h
  simp only [this, if_true]
  omega

structure PQueue where
  triple   : Triple := .conf    -- `mem_alloc/mem_calloc/mem_free` copied from the configuration
  size     : Nat
  capacity : Nat
  buf      : Buf Nat
  deriving Repr, DecidableEq

namespace PQueue

/-- `sizeof(void*)` on the LP64 target -/
def ptrSize : Nat := 8

/-- `cc_pqueue_new_conf` (the struct is calloc'ed, so `size = 0`) -/
def new (cap : Nat) (exGe : Nat → Bool) (t : Triple) (m : Mem) : Stat × Option PQueue × Mem :=
  if cap = 0 || exGe (Gen.CC_MAX_ELEMENTS / cap) then (.errInvalidCapacity, none, m) else
  if cap > Gen.CC_MAX_ELEMENTS / ptrSize then (.errInvalidCapacity, none, m) else
  let a1 := m.allocT t                    -- mem_calloc(1, sizeof(CC_PQueue))
  if !a1.1 then (.errAlloc, none, a1.2) else
  let a2 := a1.2.allocT t                 -- mem_alloc(capacity * sizeof(void*))
  if !a2.1 then (.errAlloc, none, a2.2.freeT t) else
  (.ok, some { triple := t, size := 0, capacity := cap, buf := Buf.mk cap }, a2.2)

/-- `cc_pqueue_destroy` -/
def destroy (q : PQueue) (m : Mem) : Mem := (m.freeT q.triple).freeT q.triple

/-- `cc_pqueue_destroy_cb`: the elements handed to the callback (buffer order), then `destroy` -/
def destroyCb (q : PQueue) (m : Mem) : List Nat × Mem :=
  (q.buf.firstN q.size, q.destroy (m.check (q.size ≤ q.buf.length)))

/-- the capacity `expand_capacity` asks for -/
def newCapacity (grow : Nat → Nat) (q : PQueue) : Nat :=
  let nc := grow q.capacity
  if nc ≤ q.capacity then
    if q.capacity < Gen.CC_MAX_ELEMENTS / 2 then q.capacity + 1 else Gen.CC_MAX_ELEMENTS
  else nc

/-- `expand_capacity` (static) -/
def expandCapacity (grow : Nat → Nat) (q : PQueue) (m : Mem) : Stat × PQueue × Mem :=
  if q.capacity = Gen.CC_MAX_ELEMENTS then (.errMaxCapacity, q, m) else
  let nc := newCapacity grow q
  if nc > Gen.CC_MAX_ELEMENTS / ptrSize then (.errMaxCapacity, q, m) else
  let al := m.allocT q.triple             -- mem_alloc(new_capacity * sizeof(void*))
  if !al.1 then (.errAlloc, q, al.2) else
  let m := al.2.check (q.size ≤ q.buf.length && q.size ≤ nc)
  let nb := (Buf.mk nc : Buf Nat).memcpy 0 q.buf 0 q.size
  let m := m.freeT q.triple
  (.ok, { q with buf := nb, capacity := nc }, m)

/-- `tmp = b[i]; b[i] = b[j]; b[j] = tmp` -/
def swap (b : Buf Nat) (i j : Nat) : Buf Nat := (b.put i (b.get j)).put j (b.get i)

/-- the sift-up loop of `cc_pqueue_push` -/
def siftUp (cmp : Nat → Nat → Int) (b : Buf Nat) (i : Nat) (m : Mem) : Buf Nat × Mem :=
  if _h : i ≠ 0 ∧ cmp (b.get i) (b.get (ccParent i)) > 0 then
    siftUp cmp (swap b i (ccParent i)) (ccParent i) (m.check (i < b.length))
  else (b, m)
termination_by i
decreasing_by exact ccParent_lt i _h.1

/-- `cc_pqueue_push` -/
def push (cmp : Nat → Nat → Int) (grow : Nat → Nat) (q : PQueue) (x : Nat) (m : Mem) : Stat × PQueue × Mem :=
  let i := q.size
  let e := if i ≥ q.capacity then expandCapacity grow q m else (.ok, q, m)
  if e.1 != .ok then (e.1, e.2.1, e.2.2) else
  let q := e.2.1
  let m := e.2.2.check (i < q.buf.length)
  let buf := q.buf.put i x
  let size := q.size + 1
  if i = 0 then (.ok, { q with buf := buf, size := size }, m) else
  let r := siftUp cmp buf i m
  (.ok, { q with buf := r.1, size := size }, r.2)

/-- `cc_pqueue_top` -/
def top (q : PQueue) (m : Mem) : Stat × Option Nat × Mem :=
  if q.size = 0 then (.errOutOfRange, none, m) else
  (.ok, some (q.buf.get 0), m.check (0 < q.buf.length))

/-- the index `cc_pqueue_heapify` ends up with after its two comparisons -/
def pick (cmp : Nat → Nat → Int) (b : Buf Nat) (size index : Nat) : Nat :=
  let L := ccLeft index
  let R := ccRight index
  let ip := b.get index
  let s1 : Nat × Nat := if L < size ∧ cmp ip (b.get L) < 0 then (b.get L, L) else (ip, index)
  let s2 : Nat × Nat := if R < size ∧ cmp s1.1 (b.get R) < 0 then (b.get R, R) else s1
  s2.2

theorem pick_cases (cmp : Nat → Nat → Int) (b : Buf Nat) (size index : Nat) :
    pick cmp b size index = index ∨ (pick cmp b size index = ccLeft index ∧ ccLeft index < size) ∨
    (pick cmp b size index = ccRight index ∧ ccRight index < size) := by
  unfold pick; dsimp only
  by_cases h1 : ccLeft index < size ∧ cmp (b.get index) (b.get (ccLeft index)) < 0
  · by_cases h2 : ccRight index < size ∧ cmp (b.get (ccLeft index)) (b.get (ccRight index)) < 0
    · right; right; simp [h1, h2]
    · right; left; simp [h1, h2]
  · by_cases h2 : ccRight index < size ∧ cmp (b.get index) (b.get (ccRight index)) < 0
    · right; right; simp [h1, h2]
    · left; simp [h1, h2]

/-- `cc_pqueue_heapify` (static, recursive) -/
def heapify (cmp : Nat → Nat → Int) (b : Buf Nat) (size index : Nat) (m : Mem) : Buf Nat × Mem :=
  if size ≤ 1 then (b, m) else
  let m := m.check (index < b.length && (!(ccLeft index < size) || ccLeft index < b.length) &&
                    (!(ccRight index < size) || ccRight index < b.length))
  let big := pick cmp b size index
  if _h : big ≠ index then heapify cmp (swap b index big) size big m else (b, m)
termination_by size - index
decreasing_by
  have := pick_cases cmp b size index
  simp only [ccLeft, ccRight] at this
  omega

/-- `cc_pqueue_pop`; `wantOut = false` is the call with `out == NULL`: the element is removed all the
same, only the store `*out = tmp` is skipped -/
def popOut (cmp : Nat → Nat → Int) (q : PQueue) (wantOut : Bool) (m : Mem) : Stat × Option Nat × PQueue × Mem :=
  if q.size = 0 then (.errOutOfRange, none, q, m) else
  let m := m.check (q.size - 1 < q.buf.length)
  let buf := swap q.buf 0 (q.size - 1)
  let tmp := buf.get (q.size - 1)
  let size := q.size - 1
  let r := heapify cmp buf size 0 m
  (.ok, if wantOut then some tmp else none, { q with buf := r.1, size := size }, r.2)

/-- `cc_pqueue_pop` with a non-NULL `out` -/
def pop (cmp : Nat → Nat → Int) (q : PQueue) (m : Mem) : Stat × Option Nat × PQueue × Mem := popOut cmp q true m

/-- abstraction: the held elements (a multiset; here in buffer order) -/
def abs (q : PQueue) : List Nat := q.buf.firstN q.size

/-- heap order on the first `n` slots: no element beats its parent -/
def HeapOrd (cmp : Nat → Nat → Int) (b : Buf Nat) (n : Nat) : Prop :=
  ∀ i, i < n → 0 < i → 0 ≤ cmp (b.get (ccParent i)) (b.get i)

/-- representation invariant -/
def Inv (cmp : Nat → Nat → Int) (q : PQueue) : Prop :=
  q.size ≤ q.capacity ∧ q.capacity = q.buf.length ∧ 0 < q.capacity ∧ HeapOrd cmp q.buf q.size

instance (cmp : Nat → Nat → Int) (q : PQueue) : Decidable (q.Inv cmp) := by
  unfold Inv HeapOrd; infer_instance

/-- pop until empty (at most `fuel` times): the elements in the order they come out -/
def drain (cmp : Nat → Nat → Int) : Nat → PQueue → List Nat
  | 0, _ => []
  | fuel + 1, q =>
    match pop cmp q {} with
    | (_, some x, q', _) => x :: drain cmp fuel q'
    | (_, none, _, _) => []

/-- push a list of elements one after the other (statuses ignored) -/
def pushAll (cmp : Nat → Nat → Int) (grow : Nat → Nat) (q : PQueue) : List Nat → Mem → PQueue × Mem
  | [], m => (q, m)
  | x :: xs, m => let r := push cmp grow q x m; pushAll cmp grow r.2.1 xs r.2.2

open Spec.PQ (Op Out) in
def step (cmp : Nat → Nat → Int) (grow : Nat → Nat) (q : PQueue) (op : Op) (m : Mem) : Out × PQueue × Mem :=
  match op with
  | .push x => let r := push cmp grow q x m; (⟨r.1, none⟩, r.2.1, r.2.2)
  | .top => let r := top q m; (⟨r.1, r.2.1⟩, q, r.2.2)
  | .pop => let r := pop cmp q m; (⟨r.1, r.2.1⟩, r.2.2.1, r.2.2.2)

open Spec.PQ (Op Out) in
def run (cmp : Nat → Nat → Int) (grow : Nat → Nat) (q : PQueue) (ops : List Op) (m : Mem) :
    List Out × PQueue × Mem :=
  match ops with
  | [] => ([], q, m)
  | op :: ops =>
    let r := step cmp grow q op m
    let rs := run cmp grow r.2.1 ops r.2.2
    (r.1 :: rs.1, rs.2.1, rs.2.2)

end PQueue
end CC
