import CollectionsC.Base.Status
import CollectionsC.Base.Mem
import CollectionsC.Base.Buf
import CollectionsC.Spec.Fifo
/-! Concrete model of `src/cc_ring_buffer.c`: the same fields the C struct keeps, the same
statements in the same order. `% capacity` with capacity 0 is a checked fault (SIGFPE in C). -/
namespace CC

structure Rbuf where
  size : Nat
  cap  : Nat
  head : Nat
  tail : Nat
  buf  : Buf Nat
  triple : Triple := .conf     -- the allocator triple copied from the conf struct
  deriving Repr, DecidableEq

namespace Rbuf

/-- `cc_rbuf_conf_new` with the triple of the conf struct (`cc_rbuf_new` passes the C library's) -/
def newT (t : Triple) (cap : Nat) (m : Mem) : Stat × Option Rbuf × Mem :=
  let a1 := m.allocT t
  if !a1.1 then (.errAlloc, none, a1.2) else
  let a2 := a1.2.allocT t
  if !a2.1 then (.errAlloc, none, a2.2.freeT t) else
  (.ok, some { size := 0, cap := cap, head := 0, tail := 0, buf := Buf.mk cap, triple := t }, a2.2)

/-- `cc_rbuf_conf_new` with the caller's allocator triple -/
def new (cap : Nat) (m : Mem) : Stat × Option Rbuf × Mem := newT .conf cap m

/-- `cc_rbuf_enqueue` -/
def enqueue (r : Rbuf) (x : Nat) (m : Mem) : Rbuf × Mem :=
  let m := m.check (r.cap != 0)
  let tail := if r.size = r.cap then (r.tail + 1) % r.cap else r.tail
  let m := m.check (r.head < r.buf.length)
  let buf := r.buf.put r.head x
  let head := (r.head + 1) % r.cap
  let size := if r.size < r.cap then r.size + 1 else r.size
  ({ r with size := size, head := head, tail := tail, buf := buf }, m)

/-- `cc_rbuf_dequeue` -/
def dequeue (r : Rbuf) (m : Mem) : Stat × Option Nat × Rbuf × Mem :=
  if r.size = 0 then (.errOutOfRange, none, r, m) else
  let m := m.check (r.tail < r.buf.length)
  let out := r.buf.get r.tail
  let m := m.check (r.cap != 0)
  (.ok, some out, { r with tail := (r.tail + 1) % r.cap, size := r.size - 1 }, m)

/-- `cc_rbuf_destroy`: both blocks go back through the buffer's own triple -/
def destroy (r : Rbuf) (m : Mem) : Mem := (m.freeT r.triple).freeT r.triple

/-- `cc_rbuf_peek(rbuf, int index)`: the raw slot, 0 outside `[0, capacity)` -/
def peek (r : Rbuf) (i : Int) (m : Mem) : Nat × Mem :=
  if i < 0 ∨ r.cap ≤ i.toNat then (0, m)
  else ((r.buf.get i.toNat), m.check (i.toNat < r.buf.length))

def isEmpty (r : Rbuf) : Bool := r.size = 0

/-- abstraction: the held items, oldest first -/
def abs (r : Rbuf) : List Nat := (List.range r.size).map fun i => r.buf.get ((r.tail + i) % r.cap)

/-- representation invariant -/
def Inv (r : Rbuf) : Prop :=
  0 < r.cap ∧ r.buf.length = r.cap ∧ r.size ≤ r.cap ∧ r.tail < r.cap ∧ r.head = (r.tail + r.size) % r.cap

instance (r : Rbuf) : Decidable r.Inv := by unfold Inv; infer_instance

open Spec.Fifo (Op Out) in
def step (r : Rbuf) (op : Op) (m : Mem) : Out × Rbuf × Mem :=
  match op with
  | .enqueue x => let e := r.enqueue x m; (⟨none, none⟩, e.1, e.2)
  | .dequeue   => let d := r.dequeue m; (⟨some d.1, d.2.1⟩, d.2.2.1, d.2.2.2)

open Spec.Fifo (Op Out) in
def run (r : Rbuf) (ops : List Op) (m : Mem) : List Out × Rbuf × Mem :=
  match ops with
  | []        => ([], r, m)
  | op :: ops => let s := r.step op m; let rs := run s.2.1 ops s.2.2; (s.1 :: rs.1, rs.2.1, rs.2.2)

end Rbuf
end CC
