import CollectionsC.Model.PList
/-! Pointer-level model of the singly linked list core of `src/cc_slist.c`.

Same heap as `Model/PList.lean` (node id ↦ node; the `prev` field of a node is never written and stays `none`), same
header (`size`, `head`, `tail`, triple).  `get_node_at`/`get_node` return the node **and its predecessor**, `unlinkn`
takes both — the `prev`-less unlink —, `cc_slist_reverse` is the three-variable flip loop; everything is written as the
pointer surgery of the C text, assignment by assignment.  `Proofs/PSList*.lean` prove preservation of well-formedness and
refinement of the sequence-level model (`Model/SList.lean`).

Dereference safety (see the header of `Model/PList.lean`): `unlinkn` checks its node and `prev`, `add_last`/`add_all`/`splice`
check `list->tail` before `list->tail->next = …`, `iter_add`/`zip_iter_add` check `iter->current`, and the functions that
dereference the result of `get_node_at` / `list->head` / the source cursor of `link_all_externally` have a `match` whose
impossible branch raises the fault.  Not instrumented: `reverse` (three-variable flip loop; it stops at NULL by its `match`),
`add_at`/`add_all_at`/`splice_at` after `get_node_at` (`prev` is tested by the C code itself), the `next`-walks inside loops. -/
namespace CC.PSList
open CC
open CC.PList (Heap St Hdr PNode nd setNext setData optSetNext nextOf idsNext live)

/-- the loop of `get_node_at`: `(node, prev)` after `k` steps -/
def walkAt (h : Heap) : Nat → Option Nat → Option Nat → Option Nat × Option Nat
  | 0, n, p => (n, p)
  | k + 1, n, p => walkAt h k (nextOf h n) n

/-- `get_node_at(list, index, &node, &prev)` -/
def getNodeAt (h : Heap) (l : Hdr) (index : Nat) : Stat × Option Nat × Option Nat :=
  if index ≥ l.size then (.errOutOfRange, none, none) else
  let r := walkAt h index l.head none
  (.ok, r.1, r.2)

/-- the loop of `get_node`: first node (from the head) whose data is `x`, with its predecessor -/
def getNodeLoop (h : Heap) (x : Nat) : Nat → Option Nat → Option Nat → Option (Nat × Option Nat)
  | 0, _, _ => none
  | _, none, _ => none
  | k + 1, some id, p => if (nd h id).data = x then some (id, p) else getNodeLoop h x k (nd h id).next (some id)
def getNode (h : Heap) (l : Hdr) (x : Nat) : Option (Nat × Option Nat) := getNodeLoop h x l.size l.head none

/-- `unlinkn(list, node, prev)` -/
def unlinkn (s : St) (l : Hdr) (node : Nat) (prev : Option Nat) (m : Mem) : Nat × St × Hdr × Mem :=
  let n := nd s.heap node
  let h := optSetNext s.heap prev n.next
  let l := if prev = none then { l with head := n.next } else l
  let l := if n.next = none then { l with tail := prev } else l
  -- `node->data`, `node->next`, `prev->next` (under `if (prev)`), `mem_free(node)`: NULL/released pointers are a fault
  let m := m.check (live s.heap (some node) && (prev == none || live s.heap prev))
  let s := ({ s with heap := h } : St).free node
  (n.data, s, { l with size := l.size - 1 }, m.freeT l.triple)

/-- the loop of `unlinkn_all`: the nodes are released one after the other (no relinking), `size--` each time -/
def unlinkAllLoop : Nat → St → Hdr → Option Nat → List Nat → Mem → St × Hdr × List Nat × Mem
  | 0, s, l, _, log, m => (s, l, log, m)
  | _, s, l, none, log, m => (s, l, log, m)
  | k + 1, s, l, some n, log, m =>
    let tmp := (nd s.heap n).next
    unlinkAllLoop k (s.free n) { l with size := l.size - 1 } tmp (log ++ [(nd s.heap n).data]) (m.freeT l.triple)

def unlinknAll (s : St) (l : Hdr) (m : Mem) : Bool × St × Hdr × List Nat × Mem :=
  if l.size = 0 then (false, s, l, [], m) else
  let r := unlinkAllLoop l.size s l l.head [] m
  (true, r.1, r.2.1, r.2.2.1, r.2.2.2)

/-- the loop of `link_all_externally`: every element of the source is copied into a fresh node appended to the external
chain (`got` nodes so far); a refusal releases the chain built so far -/
def linkAllLoop (t : Triple) : Nat → Nat → St → Option Nat → Option Nat → Option Nat → Mem → Bool × St × Option Nat × Option Nat × Mem
  | 0, _, s, _, hd, tl, m => (true, s, hd, tl, m)
  | k + 1, got, s, ins, hd, tl, m =>
    let a := m.allocT t
    if !a.1 then
      let ids := idsNext s.heap got hd
      (false, ids.foldl (fun s id => s.free id) s, none, tl, Mem.freeN t got a.2)
    else
    let m := a.2
    match ins with
    | none => (true, s, hd, tl, m.check false)
    | some src =>
      let r := s.alloc
      let h := setData r.2.heap r.1 (nd r.2.heap src).data
      let h := optSetNext h tl (some r.1)
      linkAllLoop t k (got + 1) { r.2 with heap := h } (nd h src).next (if hd = none then some r.1 else hd) (some r.1) m

def linkAllExternally (s : St) (dest src : Hdr) (m : Mem) : Bool × St × Option Nat × Option Nat × Mem :=
  linkAllLoop dest.triple src.size 0 s src.head none none m

/-! ### the public functions -/

/-- `cc_slist_add_first` -/
def addFirst (s : St) (l : Hdr) (x : Nat) (m : Mem) : Stat × St × Hdr × Mem :=
  let a := m.allocT l.triple
  if !a.1 then (.errAlloc, s, l, a.2) else
  let r := s.alloc
  let h := setData r.2.heap r.1 x
  if l.size = 0 then
    (.ok, { r.2 with heap := h }, { l with head := some r.1, tail := some r.1, size := l.size + 1 }, a.2)
  else
    (.ok, { r.2 with heap := setNext h r.1 l.head }, { l with head := some r.1, size := l.size + 1 }, a.2)

/-- `cc_slist_add_last` (= `cc_slist_add`) -/
def addLast (s : St) (l : Hdr) (x : Nat) (m : Mem) : Stat × St × Hdr × Mem :=
  let a := m.allocT l.triple
  if !a.1 then (.errAlloc, s, l, a.2) else
  let r := s.alloc
  let h := setData r.2.heap r.1 x
  if l.size = 0 then
    (.ok, { r.2 with heap := h }, { l with head := some r.1, tail := some r.1, size := l.size + 1 }, a.2)
  else
    (.ok, { r.2 with heap := optSetNext h l.tail (some r.1) }, { l with tail := some r.1, size := l.size + 1 },
     a.2.check (live s.heap l.tail))                      -- `list->tail->next = node` without a test

/-- `cc_slist_add_at` -/
def addAt (s : St) (l : Hdr) (x index : Nat) (m : Mem) : Stat × St × Hdr × Mem :=
  let g := getNodeAt s.heap l index
  if g.1 != .ok then (g.1, s, l, m) else
  let a := m.allocT l.triple
  if !a.1 then (.errAlloc, s, l, a.2) else
  let r := s.alloc
  let h := setData r.2.heap r.1 x
  if g.2.2 = none then
    (.ok, { r.2 with heap := setNext h r.1 l.head }, { l with head := some r.1, size := l.size + 1 }, a.2)
  else
    let tmp := nextOf h g.2.2
    let h := optSetNext h g.2.2 (some r.1)
    (.ok, { r.2 with heap := setNext h r.1 tmp }, { l with size := l.size + 1 }, a.2)

/-- `cc_slist_add_all` -/
def addAll (s : St) (l1 l2 : Hdr) (m : Mem) : Stat × St × Hdr × Mem :=
  if l2.size = 0 then (.ok, s, l1, m) else
  let r := linkAllExternally s l1 l2 m
  if !r.1 then (.errAlloc, r.2.1, l1, r.2.2.2.2) else
  if l1.size = 0 then
    (.ok, r.2.1, { l1 with head := r.2.2.1, tail := r.2.2.2.1, size := l1.size + l2.size }, r.2.2.2.2)
  else
    (.ok, { r.2.1 with heap := optSetNext r.2.1.heap l1.tail r.2.2.1 }, { l1 with tail := r.2.2.2.1, size := l1.size + l2.size },
     r.2.2.2.2.check (live s.heap l1.tail))               -- `list1->tail->next = head` without a test

/-- `cc_slist_add_all_at` -/
def addAllAt (s : St) (l1 l2 : Hdr) (index : Nat) (m : Mem) : Stat × St × Hdr × Mem :=
  if l2.size = 0 then (.ok, s, l1, m) else
  let g := getNodeAt s.heap l1 index
  if g.1 != .ok then (g.1, s, l1, m) else
  let r := linkAllExternally s l1 l2 m
  if !r.1 then (.errAlloc, r.2.1, l1, r.2.2.2.2) else
  if g.2.2 = none then
    (.ok, { r.2.1 with heap := optSetNext r.2.1.heap r.2.2.2.1 g.2.1 }, { l1 with head := r.2.2.1, size := l1.size + l2.size }, r.2.2.2.2)
  else
    let h := optSetNext r.2.1.heap g.2.2 r.2.2.1
    let h := optSetNext h r.2.2.2.1 g.2.1
    (.ok, { r.2.1 with heap := h }, { l1 with size := l1.size + l2.size }, r.2.2.2.2)

/-- `cc_slist_splice` -/
def splice (s : St) (l1 l2 : Hdr) (m : Mem) : Stat × St × Hdr × Hdr × Mem :=
  if l2.size = 0 then (.ok, s, l1, l2, m) else
  if l1.size = 0 then
    (.ok, s, { l1 with head := l2.head, tail := l2.tail, size := l1.size + l2.size }, { l2 with head := none, tail := none, size := 0 }, m)
  else
    (.ok, { s with heap := optSetNext s.heap l1.tail l2.head }, { l1 with tail := l2.tail, size := l1.size + l2.size },
     { l2 with head := none, tail := none, size := 0 }, m.check (live s.heap l1.tail))   -- `list1->tail->next = list2->head`

/-- `splice_between(l1, l2, base, end)` -/
def spliceBetween (h : Heap) (l1 l2 : Hdr) (base e : Option Nat) : Heap × Hdr × Hdr :=
  let r : Heap × Hdr :=
    if base = none then
      (optSetNext h l2.tail l1.head, { l1 with head := l2.head })
    else if e = none then
      (optSetNext h l1.tail l2.head, { l1 with tail := l2.tail })
    else
      let h := optSetNext h base l2.head
      (optSetNext h l2.tail e, l1)
  (r.1, { r.2 with size := r.2.size + l2.size }, { l2 with head := none, tail := none, size := 0 })

/-- `cc_slist_splice_at` -/
def spliceAt (s : St) (l1 l2 : Hdr) (index : Nat) (m : Mem) : Stat × St × Hdr × Hdr × Mem :=
  if l2.size = 0 then (.ok, s, l1, l2, m) else
  if index ≥ l1.size then (.errOutOfRange, s, l1, l2, m) else
  let g := getNodeAt s.heap l1 index
  if g.1 != .ok then (g.1, s, l1, l2, m) else
  let r := spliceBetween s.heap l1 l2 g.2.2 g.2.1
  (.ok, { s with heap := r.1 }, r.2.1, r.2.2, m)

/-- `cc_slist_remove` -/
def remove (s : St) (l : Hdr) (x : Nat) (m : Mem) : Stat × Option Nat × St × Hdr × Mem :=
  match getNode s.heap l x with
  | none => (.errValueNotFound, none, s, l, m)
  | some np => let r := unlinkn s l np.1 np.2 m; (.ok, some r.1, r.2.1, r.2.2.1, r.2.2.2)

/-- `cc_slist_remove_at` -/
def removeAt (s : St) (l : Hdr) (index : Nat) (m : Mem) : Stat × Option Nat × St × Hdr × Mem :=
  let g := getNodeAt s.heap l index
  if g.1 != .ok then (g.1, none, s, l, m) else
  match g.2.1 with
  | none => (.ok, none, s, l, m.check false)
  | some node => let r := unlinkn s l node g.2.2 m; (.ok, some r.1, r.2.1, r.2.2.1, r.2.2.2)

/-- `cc_slist_remove_first` -/
def removeFirst (s : St) (l : Hdr) (m : Mem) : Stat × Option Nat × St × Hdr × Mem :=
  if l.size = 0 then (.errValueNotFound, none, s, l, m) else
  match l.head with
  | none => (.ok, none, s, l, m.check false)
  | some node => let r := unlinkn s l node none m; (.ok, some r.1, r.2.1, r.2.2.1, r.2.2.2)

/-- `cc_slist_remove_last` -/
def removeLast (s : St) (l : Hdr) (m : Mem) : Stat × Option Nat × St × Hdr × Mem :=
  if l.size = 0 then (.errValueNotFound, none, s, l, m) else removeAt s l (l.size - 1) m

/-- `cc_slist_remove_all` / `cc_slist_remove_all_cb` -/
def removeAll (s : St) (l : Hdr) (m : Mem) : Stat × List Nat × St × Hdr × Mem :=
  let r := unlinknAll s l m
  if r.1 then (.ok, r.2.2.2.1, r.2.1, { r.2.2.1 with head := none, tail := none }, r.2.2.2.2)
  else (.errValueNotFound, [], s, l, m)

/-- `cc_slist_destroy` / `cc_slist_destroy_cb` -/
def destroy (s : St) (l : Hdr) (m : Mem) : List Nat × St × Mem :=
  let r := removeAll s l m
  (r.2.1, r.2.2.1, r.2.2.2.2.freeT l.triple)

/-- `cc_slist_replace_at` -/
def replaceAt (s : St) (l : Hdr) (x index : Nat) (m : Mem) : Stat × Option Nat × St × Hdr × Mem :=
  let g := getNodeAt s.heap l index
  if g.1 != .ok then (g.1, none, s, l, m) else
  match g.2.1 with
  | none => (.ok, none, s, l, m.check false)
  | some node => (.ok, some (nd s.heap node).data, { s with heap := setData s.heap node x }, l, m)

/-- the loop of `cc_slist_reverse`: `next = flip->next; flip->next = prev; prev = flip; flip = next;` — returns the heap and `prev` -/
def reverseLoop : Nat → Heap → Option Nat → Option Nat → Heap × Option Nat
  | 0, h, prev, _ => (h, prev)
  | _, h, prev, none => (h, prev)
  | k + 1, h, prev, some fl =>
    let next := (nd h fl).next
    reverseLoop k (setNext h fl prev) (some fl) next

/-- `cc_slist_reverse` -/
def reverse (s : St) (l : Hdr) : St × Hdr :=
  if l.size = 0 ∨ l.size = 1 then (s, l) else
  let r := reverseLoop l.size s.heap none l.head
  ({ s with heap := r.1 }, { l with tail := l.head, head := r.2 })

/-- `cc_slist_new_conf` -/
def new (t : Triple) (m : Mem) : Stat × Option Hdr × Mem :=
  let a := m.allocT t
  if !a.1 then (.errAlloc, none, a.2) else (.ok, some { triple := t }, a.2)

/-- the loop of `cc_slist_filter_mut`: `prev` trails `curr` and advances only over nodes that are kept, so that it is the
predecessor `unlinkn` needs (a `prev` that also advanced over an unlinked node would be a dangling pointer and the true
predecessor's `next` would never be updated) -/
def filterMutLoop (pr : Nat → Bool) : Nat → St → Hdr → Option Nat → Option Nat → Mem → St × Hdr × Mem
  | 0, s, l, _, _, m => (s, l, m)
  | _, s, l, none, _, m => (s, l, m)
  | k + 1, s, l, some curr, prev, m =>
    let next := (nd s.heap curr).next
    if !pr (nd s.heap curr).data then
      let u := unlinkn s l curr prev m
      filterMutLoop pr k u.2.1 u.2.2.1 next prev u.2.2.2
    else filterMutLoop pr k s l next (some curr) m

/-- `cc_slist_filter_mut` -/
def filterMut (pr : Nat → Bool) (s : St) (l : Hdr) (m : Mem) : Stat × St × Hdr × Mem :=
  if l.size = 0 then (.errOutOfRange, s, l, m) else
  let r := filterMutLoop pr l.size s l l.head none m
  (.ok, r.1, r.2.1, r.2.2)

/-- `cc_slist_sort`: a list of one element returns at once; otherwise `to_array`, `qsort` (`sortFn`), write-back into the
existing nodes (`PList.writeBack`), release of the array.  No node is created, released or relinked. -/
def sort (sortFn : List Nat → List Nat) (s : St) (l : Hdr) (m : Mem) : Stat × St × Hdr × Mem :=
  if l.size = 1 then (.ok, s, l, m) else
  let a := m.allocT l.triple
  if !a.1 then (.errAlloc, s, l, a.2) else
  let arr := PList.dataNext s.heap l.size l.head
  (.ok, { s with heap := PList.writeBack (sortFn arr) l.size 0 l.head s.heap }, l, a.2.freeT l.triple)

/-! ### derived lists: `cc_slist_sublist`, `cc_slist_copy_shallow/deep`, `cc_slist_filter`
(a fresh header, then `cc_slist_add` per selected element; a refused `add` destroys the partial result) -/

def buildLoop (sel : Nat → Option Nat) : Nat → St → Option Nat → Hdr → Mem → Stat × St × Option Hdr × Mem
  | 0, s, _, d, m => (.ok, s, some d, m)
  | _, s, none, d, m => (.ok, s, some d, m)
  | k + 1, s, some id, d, m =>
    match sel (nd s.heap id).data with
    | none => buildLoop sel k s (nd s.heap id).next d m
    | some y =>
      let r := addLast s d y m
      if r.1 != .ok then
        let z := destroy r.2.1 r.2.2.1 r.2.2.2
        (r.1, z.2.1, none, z.2.2)
      else buildLoop sel k r.2.1 (nd r.2.1.heap id).next r.2.2.1 r.2.2.2

/-- `cc_slist_sublist` -/
def sublist (s : St) (l : Hdr) (b e : Nat) (m : Mem) : Stat × St × Option Hdr × Mem :=
  if b > e || e ≥ l.size then (.errInvalidRange, s, none, m) else
  let c := new l.triple m
  match c.2.1 with
  | none => (c.1, s, none, c.2.2)
  | some sub =>
    let g := getNodeAt s.heap l b
    if g.1 != .ok then (g.1, s, none, (destroy s sub c.2.2).2.2) else
    buildLoop some (e - b + 1) s g.2.1 sub c.2.2

/-- `cc_slist_copy_shallow` (`cp = id`) and `cc_slist_copy_deep` -/
def copy (cp : Nat → Nat) (s : St) (l : Hdr) (m : Mem) : Stat × St × Option Hdr × Mem :=
  let c := new l.triple m
  match c.2.1 with
  | none => (c.1, s, none, c.2.2)
  | some dst => buildLoop (fun v => some (cp v)) l.size s l.head dst c.2.2

/-- `cc_slist_filter` -/
def filter (p : Nat → Bool) (s : St) (l : Hdr) (m : Mem) : Stat × St × Option Hdr × Mem :=
  if l.size = 0 then (.errOutOfRange, s, none, m) else
  let c := new l.triple m
  match c.2.1 with
  | none => (c.1, s, none, c.2.2)
  | some dst => buildLoop (fun v => if p v then some v else none) l.size s l.head dst c.2.2

/-! ### iterators (`CC_SListIter`, `CC_SListZipIter`): the fields are node ids exactly as in the C structs -/

/-- `CC_SListIter`: `index`, `current`, `prev`, `next` -/
structure PIter where
  index   : Nat := 0
  current : Option Nat := none
  prev    : Option Nat := none
  next    : Option Nat := none
  deriving DecidableEq

/-- `cc_slist_iter_init` -/
def piterInit (l : Hdr) : PIter := { next := l.head }

/-- `cc_slist_iter_next` -/
def piterNext (h : Heap) (it : PIter) : Stat × Option Nat × PIter :=
  match it.next with
  | none => (.iterEnd, none, it)
  | some n =>
    (.ok, some (nd h n).data,
     { index := it.index + 1, prev := if it.current = none then it.prev else it.current, current := some n, next := (nd h n).next })

/-- `cc_slist_iter_remove`: `unlinkn(list, current, prev)`, `current = NULL`, `index--` -/
def piterRemove (s : St) (l : Hdr) (it : PIter) (m : Mem) : Stat × Option Nat × St × Hdr × PIter × Mem :=
  match it.current with
  | none => (.errValueNotFound, none, s, l, it, m)
  | some c =>
    let u := unlinkn s l c it.prev m
    (.ok, some u.1, u.2.1, u.2.2.1, { it with current := none, index := it.index - 1 }, u.2.2.2)

/-- `cc_slist_iter_add`: `new->next = iter->next; current->next = new; if (index == size) tail = new;
prev = current; current = new; index++; size++` -/
def piterAdd (s : St) (l : Hdr) (it : PIter) (x : Nat) (m : Mem) : Stat × St × Hdr × PIter × Mem :=
  let a := m.allocT l.triple
  if !a.1 then (.errAlloc, s, l, it, a.2) else
  let r := s.alloc
  let h := setData r.2.heap r.1 x
  let h := setNext h r.1 it.next
  let h := optSetNext h it.current (some r.1)
  let l := if it.index = l.size then { l with tail := some r.1 } else l
  (.ok, { r.2 with heap := h }, { l with size := l.size + 1 },
   { index := it.index + 1, prev := it.current, current := some r.1, next := it.next },
   a.2.check (live s.heap it.current))                    -- `iter->current->next = new_node` without a test

/-- `cc_slist_iter_replace` -/
def piterReplace (s : St) (it : PIter) (x : Nat) : Stat × Option Nat × St :=
  match it.current with
  | none => (.errValueNotFound, none, s)
  | some c => (.ok, some (nd s.heap c).data, { s with heap := setData s.heap c x })

/-- `CC_SListZipIter` -/
structure PZip where
  index : Nat := 0
  cur1  : Option Nat := none
  cur2  : Option Nat := none
  prev1 : Option Nat := none
  prev2 : Option Nat := none
  next1 : Option Nat := none
  next2 : Option Nat := none
  deriving DecidableEq

def pzipInit (l1 l2 : Hdr) : PZip := { next1 := l1.head, next2 := l2.head }

/-- `cc_slist_zip_iter_next` -/
def pzipNext (h : Heap) (z : PZip) : Stat × Option (Nat × Nat) × PZip :=
  match z.next1, z.next2 with
  | some n1, some n2 =>
    (.ok, some ((nd h n1).data, (nd h n2).data),
     { index := z.index + 1, prev1 := if z.cur1 = none then z.prev1 else z.cur1, prev2 := if z.cur2 = none then z.prev2 else z.cur2,
       cur1 := some n1, cur2 := some n2, next1 := (nd h n1).next, next2 := (nd h n2).next })
  | _, _ => (.iterEnd, none, z)

/-- `cc_slist_zip_iter_add` -/
def pzipAdd (s : St) (l1 l2 : Hdr) (z : PZip) (x1 x2 : Nat) (m : Mem) : Stat × St × Hdr × Hdr × PZip × Mem :=
  let a1 := m.allocT l1.triple
  if !a1.1 then (.errAlloc, s, l1, l2, z, a1.2) else
  let a2 := a1.2.allocT l2.triple
  if !a2.1 then (.errAlloc, s, l1, l2, z, a2.2.freeT l1.triple) else
  let r1 := s.alloc
  let r2 := r1.2.alloc
  let h := setData r2.2.heap r1.1 x1
  let h := setData h r2.1 x2
  let h := setNext h r1.1 z.next1
  let h := setNext h r2.1 z.next2
  let h := optSetNext h z.cur1 (some r1.1)
  let h := optSetNext h z.cur2 (some r2.1)
  let l1 := if z.index = l1.size then { l1 with tail := some r1.1 } else l1
  let l2 := if z.index = l2.size then { l2 with tail := some r2.1 } else l2
  (.ok, { r2.2 with heap := h }, { l1 with size := l1.size + 1 }, { l2 with size := l2.size + 1 },
   { index := z.index + 1, prev1 := z.cur1, prev2 := z.cur2, cur1 := some r1.1, cur2 := some r2.1, next1 := z.next1, next2 := z.next2 },
   a2.2.check (live s.heap z.cur1 && live s.heap z.cur2))

/-- `cc_slist_zip_iter_remove` -/
def pzipRemove (s : St) (l1 l2 : Hdr) (z : PZip) (m : Mem) : Stat × Option (Nat × Nat) × St × Hdr × Hdr × PZip × Mem :=
  match z.cur1, z.cur2 with
  | some c1, some c2 =>
    let u1 := unlinkn s l1 c1 z.prev1 m
    let u2 := unlinkn u1.2.1 l2 c2 z.prev2 u1.2.2.2
    (.ok, some (u1.1, u2.1), u2.2.1, u1.2.2.1, u2.2.2.1, { z with cur1 := none, cur2 := none, index := z.index - 1 }, u2.2.2.2)
  | _, _ => (.errValueNotFound, none, s, l1, l2, z, m)

/-- `cc_slist_zip_iter_replace` -/
def pzipReplace (s : St) (z : PZip) (x1 x2 : Nat) : Stat × Option (Nat × Nat) × St :=
  match z.cur1, z.cur2 with
  | some c1, some c2 =>
    (.ok, some ((nd s.heap c1).data, (nd s.heap c2).data), { s with heap := setData (setData s.heap c1 x1) c2 x2 })
  | _, _ => (.errValueNotFound, none, s)

/-- data along `next` from `head` -/
def fwd (h : Heap) (l : Hdr) : List Nat := PList.dataNext h l.size l.head

end CC.PSList
