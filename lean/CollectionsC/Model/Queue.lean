import CollectionsC.Model.Deque
/-! Concrete model of `src/cc_queue.c`: a header block that points to a `CC_Deque`; every function
forwards to the deque function named in the C text (enqueue = `add_first`, poll = `remove_last`,
peek = `get_last`, iteration = the deque iterator, front of the deque first). -/
namespace CC

structure Queue where
  d : Deque
  /-- the queue's own copy of the allocator triple (used for its header) -/
  triple : Triple := .conf
  deriving Repr, DecidableEq

namespace Queue

/-- `cc_queue_new_conf`: header through `mem_calloc`, then `cc_deque_new_conf`; a failed inner
constructor releases the header and propagates the status -/
def new (confCap : Nat) (t : Triple) (m : Mem) : Stat × Option Queue × Mem :=
  let a := m.allocT t
  if !a.1 then (.errAlloc, none, a.2) else
  let r := Deque.new confCap t a.2       -- cc_deque_new_conf(conf, &deque): the same configuration
  match r.2.1 with
  | none => (r.1, none, r.2.2.freeT t)
  | some d => (.ok, some ⟨d, t⟩, r.2.2)

/-- `cc_queue_destroy` -/
def destroy (q : Queue) (m : Mem) : Mem := (q.d.destroy m).freeT q.triple

/-- `cc_queue_destroy_cb`: `cc_deque_destroy_cb` (foreach, remove_all, destroy), then the header;
returns the callback's argument sequence -/
def destroyCb (q : Queue) (m : Mem) : List Nat × Mem :=
  let f := q.d.foreach m
  (f.1, (q.d.removeAll.destroy f.2).freeT q.triple)

/-- `cc_queue_peek` -/
def peek (q : Queue) (m : Mem) : Stat × Option Nat × Mem := q.d.getLast m

/-- `cc_queue_poll` -/
def poll (q : Queue) (m : Mem) : Stat × Option Nat × Queue × Mem :=
  let r := q.d.removeLast m
  (r.1, r.2.1, { q with d := r.2.2.1 }, r.2.2.2)

/-- `cc_queue_enqueue` -/
def enqueue (q : Queue) (x : Nat) (m : Mem) : Stat × Queue × Mem :=
  let r := q.d.addFirst x m
  (r.1, { q with d := r.2.1 }, r.2.2)

/-- `cc_queue_size` -/
def size (q : Queue) : Nat := q.d.size

/-- `cc_queue_foreach` -/
def foreach (q : Queue) (m : Mem) : List Nat × Mem := q.d.foreach m

/-- `cc_queue_iter_next` -/
def iterNext (it : Deque.Iter) (q : Queue) (m : Mem) : Stat × Option Nat × Deque.Iter × Mem :=
  Deque.iterNext it q.d m

/-- `cc_queue_iter_replace` -/
def iterReplace (it : Deque.Iter) (q : Queue) (x : Nat) (m : Mem) : Stat × Option Nat × Queue × Mem :=
  let r := Deque.iterReplace it q.d x m
  (r.1, r.2.1, { q with d := r.2.2.1 }, r.2.2.2)

/-- `cc_queue_zip_iter_next` -/
def zipNext (it : Deque.Iter) (q1 q2 : Queue) (m : Mem) : Stat × Option (Nat × Nat) × Deque.Iter × Mem :=
  Deque.zipNext it q1.d q2.d m

/-- `cc_queue_zip_iter_replace` -/
def zipReplace (it : Deque.Iter) (q1 q2 : Queue) (x y : Nat) (m : Mem) :
    Stat × Option (Nat × Nat) × Queue × Queue × Mem :=
  let r := Deque.zipReplace it q1.d q2.d x y m
  (r.1, r.2.1, { q1 with d := r.2.2.1 }, { q2 with d := r.2.2.2.1 }, r.2.2.2.2)

/-- `cc_queue_zip_iter_replace` with `q1 == q2` -/
def zipReplaceSelf (it : Deque.Iter) (q : Queue) (x y : Nat) (m : Mem) : Stat × Option Nat × Option Nat × Queue × Mem :=
  let r := Deque.zipReplaceSelf it q.d x y m
  (r.1, r.2.1, r.2.2.1, { q with d := r.2.2.2.1 }, r.2.2.2.2)

/-- content in iteration order (front of the inner deque first = newest element first) -/
def abs (q : Queue) : List Nat := q.d.abs
/-- the inner deque's invariant; header and inner deque were given the same triple -/
def Inv (q : Queue) : Prop := q.d.Inv ∧ q.d.triple = q.triple
instance (q : Queue) : Decidable q.Inv := by unfold Inv; infer_instance

end Queue
end CC
