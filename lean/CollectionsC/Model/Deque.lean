import CollectionsC.Base.Status
import CollectionsC.Base.Mem
import CollectionsC.Base.Buf
import CollectionsC.Base.Word
import CollectionsC.Model.BufFast
/-! Concrete model of `src/cc_deque.c`: the fields of `struct cc_deque_s`, every function with the
statements of the C text in the same order (each `memmove`, each slot read/write, each allocator call).

Conventions of this file
* `x & (capacity - 1)` is written `x % d.cap`; `(x - 1) & (capacity - 1)` (unsigned wrap at `x = 0`) is
  `decMask x d.cap`.  Both are justified for `capacity = 2^k ≤ 2^64` in `Proofs/DequeBits.lean`
  (`and_capMask_eq_mod`, `decMask_eq_wrap_and`), and `Inv` says that the capacity is such a power.
* `rd/wr/mv` perform one slot read / slot write / `memmove` and record a fault when the access is
  outside the allocated slots.
* finding D3: the front-half branch of `addAtCore` is transcribed as it is in the C source (it is wrong
  there, the upstream tests pin it). -/
namespace CC

structure Deque where
  size  : Nat
  cap   : Nat
  first : Nat
  last  : Nat
  buf   : Buf Nat
  /-- the allocator triple copied from the configuration (`mem_alloc/mem_calloc/mem_free`) -/
  triple : Triple := .conf
  deriving Repr, DecidableEq

namespace Deque

/-- `buffer[i]` -/
def rd (b : Buf Nat) (i : Nat) (m : Mem) : Nat × Mem := (b.get i, m.check (i < b.length))
/-- `buffer[i] = x` -/
def wr (b : Buf Nat) (i x : Nat) (m : Mem) : Buf Nat × Mem := (b.put i x, m.check (i < b.length))
/-- `memmove(&buffer[dst], &buffer[src], n * sizeof(void*))` -/
def mv (b : Buf Nat) (dst src n : Nat) (m : Mem) : Buf Nat × Mem :=
  (b.memmove dst src n, m.check (dst + n ≤ b.length && src + n ≤ b.length))
/-- `memcpy(&dstbuf[dst], &srcbuf[src], n * sizeof(void*))` -/
def cpy (db : Buf Nat) (dst : Nat) (sb : Buf Nat) (src n : Nat) (m : Mem) : Buf Nat × Mem :=
  (db.memcpy dst sb src n, m.check (dst + n ≤ db.length && src + n ≤ sb.length))

/-- `upper_pow_two` (32-bit smear: `ARCH_64` is not defined in this build) -/
def upperPow2 (n : Nat) : Nat :=
  if n ≥ Gen.MAX_POW_TWO then Gen.MAX_POW_TWO else
  if n = 0 then 1 else
  let n := n - 1
  let n := n ||| (n >>> 1)
  let n := n ||| (n >>> 2)
  let n := n ||| (n >>> 4)
  let n := n ||| (n >>> 8)
  let n := n ||| (n >>> 16)
  n + 1

/-- physical slot of the `i`-th element: `(first + i) & (capacity - 1)` -/
@[reducible] def slot (d : Deque) (i : Nat) : Nat := (d.first + i) % d.cap

/-- `cc_deque_new_conf`: header through `conf->mem_calloc` (so `last = 0`), buffer through
`conf->mem_alloc`; the three function pointers are copied into the deque (`t`).  `cc_deque_new` calls this
with the C library triple. -/
def new (confCap : Nat) (t : Triple) (m : Mem) : Stat × Option Deque × Mem :=
  let a1 := m.allocT t
  if !a1.1 then (.errAlloc, none, a1.2) else
  let capacity := upperPow2 confCap
  let a2 := a1.2.allocT t
  if !a2.1 then (.errAlloc, none, a2.2.freeT t) else
  (.ok, some { size := 0, cap := capacity, first := 0, last := 0, buf := Buf.mk capacity, triple := t }, a2.2)

/-- `cc_deque_destroy` -/
def destroy (d : Deque) (m : Mem) : Mem := (m.freeT d.triple).freeT d.triple

/-- body of the element-wise loop of `copy_buffer`: `buff[i] = cp(deque->buffer[p])` -/
def copyStep (d : Deque) (f : Nat → Nat) (bm : Buf Nat × Mem) (i : Nat) : Buf Nat × Mem :=
  let r := rd d.buf (d.slot i) bm.2
  wr bm.1 i (f r.1) r.2

/-- `copy_buffer` -/
def copyBuffer (d : Deque) (buff : Buf Nat) (cp : Option (Nat → Nat)) (m : Mem) : Buf Nat × Mem :=
  if d.size = 0 then (buff, m) else
  match cp with
  | none =>
    if d.last > d.first then
      cpy buff 0 d.buf d.first d.size m
    else
      let l := d.last
      let e := d.cap - d.first
      let c1 := cpy buff 0 d.buf d.first e m
      cpy c1.1 e d.buf 0 l c1.2
  | some f => (List.range d.size).foldl (copyStep d f) (buff, m)

/-- `expand_capacity` -/
def expandCapacity (d : Deque) (m : Mem) : Stat × Deque × Mem :=
  if d.cap = Gen.MAX_POW_TWO then (.errMaxCapacity, d, m) else
  let newCap := d.cap <<< 1
  let a := m.allocT d.triple             -- deque->mem_calloc(new_capacity, sizeof(void*))
  if !a.1 then (.errAlloc, d, a.2) else
  let cb := copyBuffer d (Buf.mk newCap) none a.2
  let m := cb.2.freeT d.triple
  (.ok, { d with first := 0, last := d.size, cap := newCap, buf := cb.1 }, m)

/-- the statements of `cc_deque_add_first` after the growth test -/
def addFirstCore (d : Deque) (x : Nat) (m : Mem) : Stat × Deque × Mem :=
  let first := decMask d.first d.cap
  let w := wr d.buf first x m
  (.ok, { d with first := first, buf := w.1, size := d.size + 1 }, w.2)

/-- `cc_deque_add_first` -/
def addFirst (d : Deque) (x : Nat) (m : Mem) : Stat × Deque × Mem :=
  if d.size ≥ d.cap then
    let e := d.expandCapacity m
    if e.1 != .ok then (.errAlloc, e.2.1, e.2.2) else addFirstCore e.2.1 x e.2.2
  else addFirstCore d x m

def addLastCore (d : Deque) (x : Nat) (m : Mem) : Stat × Deque × Mem :=
  let w := wr d.buf d.last x m
  (.ok, { d with buf := w.1, last := (d.last + 1) % d.cap, size := d.size + 1 }, w.2)

/-- `cc_deque_add_last` (and `cc_deque_add`) -/
def addLast (d : Deque) (x : Nat) (m : Mem) : Stat × Deque × Mem :=
  if d.cap = d.size then
    let e := d.expandCapacity m
    if e.1 != .ok then (.errAlloc, e.2.1, e.2.2) else addLastCore e.2.1 x e.2.2
  else addLastCore d x m

/-- `index <= (size / 2) - 1` in `size_t` arithmetic (the subtraction wraps when `size / 2 = 0`) -/
def frontHalf (index size : Nat) : Bool := if size / 2 = 0 then true else index ≤ size / 2 - 1

/-! The four shifting blocks of `cc_deque_add_at` (`c = capacity - 1`, `l = last & c`, `f = first & c`,
`p = (first + index) & c`); each returns the buffer before `buffer[p] = element`. -/

/-- front half, `p < f || f == 0` (finding D3: wrong in the C source, transcribed as it is) -/
def adFrontWrap (d : Deque) (index : Nat) (m : Mem) : Buf Nat × Mem :=
  let c := d.cap - 1
  let f := d.first % d.cap
  let p := (d.first + index) % d.cap
  let rMove := if f ≠ 0 then c - f + 1 else 0
  let lMove := p
  let e := rd d.buf 0 m
  let s1 := if f ≠ 0 then mv d.buf (f - 1) f rMove e.2 else (d.buf, e.2)
  let s2 := if p ≠ 0 then mv s1.1 0 1 lMove s1.2 else s1
  wr s2.1 c e.1 s2.2

/-- front half, otherwise (finding D3: wrong in the C source, transcribed as it is) -/
def adFrontContig (d : Deque) (index : Nat) (m : Mem) : Buf Nat × Mem :=
  let f := d.first % d.cap
  mv d.buf (f - 1) f index m

/-- back half, `p > l` -/
def adBackWrap (d : Deque) (index : Nat) (m : Mem) : Buf Nat × Mem :=
  let c := d.cap - 1
  let l := d.last % d.cap
  let p := (d.first + index) % d.cap
  let e := rd d.buf c m
  let s1 := if p ≠ c then mv d.buf (p + 1) p (c - p) e.2 else (d.buf, e.2)
  let s2 := if l ≠ c then mv s1.1 1 0 l s1.2 else s1
  wr s2.1 0 e.1 s2.2

/-- back half, otherwise -/
def adBackContig (d : Deque) (index : Nat) (m : Mem) : Buf Nat × Mem :=
  let p := (d.first + index) % d.cap
  mv d.buf (p + 1) p (d.size - index) m

/-- `cc_deque_add_at` after the range test and the growth test -/
def addAtCore (d : Deque) (x index : Nat) (m : Mem) : Stat × Deque × Mem :=
  let c := d.cap - 1
  let l := d.last % d.cap
  let f := d.first % d.cap
  let p := (d.first + index) % d.cap
  if index = 0 then d.addFirst x m else
  if index = c then d.addLast x m else
  if frontHalf index d.size then
    let r := if p < f ∨ f = 0 then adFrontWrap d index m else adFrontContig d index m
    let w := wr r.1 p x r.2
    (.ok, { d with first := decMask d.first d.cap, buf := w.1, size := d.size + 1 }, w.2)
  else
    let r := if p > l then adBackWrap d index m else adBackContig d index m
    let w := wr r.1 p x r.2
    (.ok, { d with last := (d.last + 1) % d.cap, buf := w.1, size := d.size + 1 }, w.2)

/-- `cc_deque_add_at` -/
def addAt (d : Deque) (x index : Nat) (m : Mem) : Stat × Deque × Mem :=
  if index ≥ d.size then (.errOutOfRange, d, m) else
  if d.cap = d.size then
    let e := d.expandCapacity m
    if e.1 != .ok then (.errAlloc, e.2.1, e.2.2) else addAtCore e.2.1 x index e.2.2
  else addAtCore d x index m

/-- `cc_deque_replace_at` -/
def replaceAt (d : Deque) (x index : Nat) (m : Mem) : Stat × Option Nat × Deque × Mem :=
  if index ≥ d.size then (.errOutOfRange, none, d, m) else
  let i := (d.first + index) % d.cap
  let r := rd d.buf i m
  let w := wr d.buf i x r.2
  (.ok, some r.1, { d with buf := w.1 }, w.2)

/-- `cc_deque_remove_first` -/
def removeFirst (d : Deque) (m : Mem) : Stat × Option Nat × Deque × Mem :=
  if d.size = 0 then (.errOutOfRange, none, d, m) else
  let r := rd d.buf d.first m
  (.ok, some r.1, { d with first := (d.first + 1) % d.cap, size := d.size - 1 }, r.2)

/-- `cc_deque_remove_last` -/
def removeLast (d : Deque) (m : Mem) : Stat × Option Nat × Deque × Mem :=
  if d.size = 0 then (.errOutOfRange, none, d, m) else
  let last := decMask d.last d.cap
  let r := rd d.buf last m
  (.ok, some r.1, { d with last := last, size := d.size - 1 }, r.2)

/-! The four shifting blocks of `cc_deque_remove_at`. -/

/-- front half, `p < f` -/
def rmFrontWrap (d : Deque) (index : Nat) (m : Mem) : Buf Nat × Mem :=
  let c := d.cap - 1
  let f := d.first % d.cap
  let p := (d.first + index) % d.cap
  let e := rd d.buf c m
  let s1 := if f ≠ c then mv d.buf (f + 1) f (c - f) e.2 else (d.buf, e.2)
  let s2 := if p ≠ 0 then mv s1.1 1 0 p s1.2 else s1
  wr s2.1 0 e.1 s2.2

/-- front half, otherwise -/
def rmFrontContig (d : Deque) (index : Nat) (m : Mem) : Buf Nat × Mem :=
  let f := d.first % d.cap
  mv d.buf (f + 1) f index m

/-- back half, `p > l` -/
def rmBackWrap (d : Deque) (index : Nat) (m : Mem) : Buf Nat × Mem :=
  let c := d.cap - 1
  let l := d.last % d.cap
  let p := (d.first + index) % d.cap
  let e := rd d.buf 0 m
  let s1 := if p ≠ c then mv d.buf p (p + 1) (c - p) e.2 else (d.buf, e.2)
  let s2 := if l > 1 then mv s1.1 0 1 (l - 1) s1.2 else s1
  wr s2.1 c e.1 s2.2

/-- back half, otherwise -/
def rmBackContig (d : Deque) (index : Nat) (m : Mem) : Buf Nat × Mem :=
  let l := d.last % d.cap
  let p := (d.first + index) % d.cap
  mv d.buf p (p + 1) (l - p) m

/-- `cc_deque_remove_at` -/
def removeAt (d : Deque) (index : Nat) (m : Mem) : Stat × Option Nat × Deque × Mem :=
  if index ≥ d.size then (.errOutOfRange, none, d, m) else
  let c := d.cap - 1
  let l := d.last % d.cap
  let f := d.first % d.cap
  let p := (d.first + index) % d.cap
  let removed := rd d.buf p m
  let m := removed.2
  if index = 0 then d.removeFirst m else
  if index = c then d.removeLast m else
  if frontHalf index d.size then
    let r := if p < f then rmFrontWrap d index m else rmFrontContig d index m
    (.ok, some removed.1, { d with first := (d.first + 1) % d.cap, buf := r.1, size := d.size - 1 }, r.2)
  else
    let r := if p > l then rmBackWrap d index m else rmBackContig d index m
    (.ok, some removed.1, { d with last := decMask d.last d.cap, buf := r.1, size := d.size - 1 }, r.2)

/-- every slot a read-only traversal touches is allocated -/
def slotsOk (d : Deque) : Bool := (List.range d.size).all fun i => d.slot i < d.buf.length

/-- `cc_deque_index_of` -/
def indexOf (d : Deque) (x : Nat) (m : Mem) : Stat × Option Nat × Mem :=
  let m := m.check d.slotsOk
  match (List.range d.size).find? (fun i => d.buf.get (d.slot i) == x) with
  | some i => (.ok, some i, m)
  | none => (.errOutOfRange, none, m)

/-- `cc_deque_remove` -/
def remove (d : Deque) (x : Nat) (m : Mem) : Stat × Option Nat × Deque × Mem :=
  let r := d.indexOf x m
  match r.2.1 with
  | none => (r.1, none, d, r.2.2)
  | some index => d.removeAt index r.2.2

/-- `cc_deque_remove_all` -/
def removeAll (d : Deque) : Deque := { d with first := 0, last := 0, size := 0 }

/-- the elements in traversal order of `cc_deque_foreach` (also the argument sequence the callbacks of
`remove_all_cb`, `destroy_cb`, `filter`, `filter_mut`, `copy_deep` receive) -/
def foreach (d : Deque) (m : Mem) : List Nat × Mem :=
  ((List.range d.size).map fun i => d.buf.get (d.slot i), m.check d.slotsOk)

/-- `cc_deque_get_at` -/
def getAt (d : Deque) (index : Nat) (m : Mem) : Stat × Option Nat × Mem :=
  if index ≥ d.size then (.errOutOfRange, none, m) else
  let r := rd d.buf ((d.first + index) % d.cap) m
  (.ok, some r.1, r.2)

/-- `cc_deque_get_first` -/
def getFirst (d : Deque) (m : Mem) : Stat × Option Nat × Mem :=
  if d.size = 0 then (.errOutOfRange, none, m) else
  let r := rd d.buf d.first m
  (.ok, some r.1, r.2)

/-- `cc_deque_get_last` -/
def getLast (d : Deque) (m : Mem) : Stat × Option Nat × Mem :=
  if d.size = 0 then (.errOutOfRange, none, m) else
  let r := rd d.buf (decMask d.last d.cap) m
  (.ok, some r.1, r.2)

/-- `cc_deque_copy_shallow` (`cp = none`) and `cc_deque_copy_deep` (`cp = some f`): same text -/
def copy (d : Deque) (cp : Option (Nat → Nat)) (m : Mem) : Stat × Option Deque × Mem :=
  let a1 := m.allocT d.triple            -- deque->mem_alloc(sizeof(CC_Deque))
  if !a1.1 then (.errAlloc, none, a1.2) else
  let a2 := a1.2.allocT d.triple         -- deque->mem_alloc(capacity * sizeof(void*))
  if !a2.1 then (.errAlloc, none, a2.2.freeT d.triple) else
  let cb := copyBuffer d (Buf.mk d.cap) cp a2.2
  -- copy->mem_alloc = deque->mem_alloc … : the copy inherits the triple
  (.ok, some { size := d.size, cap := d.cap, first := 0, last := d.size % d.cap, buf := cb.1, triple := d.triple }, cb.2)

/-- `cc_deque_trim_capacity` -/
def trimCapacity (d : Deque) (m : Mem) : Stat × Deque × Mem :=
  if d.cap = d.size then (.ok, d, m) else
  let newSize := upperPow2 d.size
  if newSize = d.cap then (.ok, d, m) else
  let a := m.allocT d.triple
  if !a.1 then (.errAlloc, d, a.2) else
  let cb := copyBuffer d (Buf.mk newSize) none a.2
  let m := cb.2.freeT d.triple
  (.ok, { d with buf := cb.1, first := 0, last := d.size % newSize, cap := newSize }, m)

/-- body of the loop of `cc_deque_reverse`: swap the slots of element `i` and element `j = s - 1 - i` -/
def revStep (d : Deque) (bm : Buf Nat × Mem) (i : Nat) : Buf Nat × Mem :=
  let j := d.size - 1 - i
  let f := (d.first + i) % d.cap
  let l := (d.first + j) % d.cap
  let t := rd bm.1 f bm.2
  let u := rd bm.1 l t.2
  let w1 := wr bm.1 f u.1 u.2
  wr w1.1 l t.1 w1.2

/-- `cc_deque_reverse` -/
def reverse (d : Deque) (m : Mem) : Deque × Mem :=
  let r := (List.range (d.size / 2)).foldl (revStep d) (d.buf, m)
  ({ d with buf := r.1 }, r.2)

/-- `cc_deque_contains` -/
def contains (d : Deque) (x : Nat) (m : Mem) : Nat × Mem :=
  ((List.range d.size).countP (fun i => d.buf.get (d.slot i) == x), m.check d.slotsOk)

/-- `cc_deque_contains_value` with a comparator given as "compares equal" -/
def containsValue (d : Deque) (x : Nat) (eqv : Nat → Nat → Bool) (m : Mem) : Nat × Mem :=
  ((List.range d.size).countP (fun i => eqv (d.buf.get (d.slot i)) x), m.check d.slotsOk)

/-- loop of `cc_deque_filter_mut` (at most `size` iterations: every iteration either removes or advances) -/
def filterMutLoop (pred : Nat → Bool) : Nat → Deque → Nat → Mem → Deque × Mem
  | 0, d, _, m => (d, m)
  | fuel + 1, d, i, m =>
    if i < d.size then
      let r := rd d.buf ((d.first + i) % d.cap) m
      if !pred r.1 then
        let q := d.removeAt i r.2
        filterMutLoop pred fuel q.2.2.1 i q.2.2.2
      else filterMutLoop pred fuel d (i + 1) r.2
    else (d, m)

/-- `cc_deque_filter_mut` -/
def filterMut (d : Deque) (pred : Nat → Bool) (m : Mem) : Stat × Deque × Mem :=
  if d.size = 0 then (.errOutOfRange, d, m) else
  let r := filterMutLoop pred d.size d 0 m
  (.ok, r.1, r.2)

/-- loop of `cc_deque_filter` over the source indices still to visit -/
def filterLoop (d : Deque) (pred : Nat → Bool) : List Nat → Deque → Mem → Stat × Deque × Mem
  | [], f, m => (.ok, f, m)
  | i :: is, f, m =>
    let r := rd d.buf (d.slot i) m
    if pred r.1 then
      let a := f.addLast r.1 r.2
      if a.1 != .ok then (a.1, a.2.1, a.2.2) else filterLoop d pred is a.2.1 a.2.2
    else filterLoop d pred is f r.2

/-- `cc_deque_filter` -/
def filter (d : Deque) (pred : Nat → Bool) (m : Mem) : Stat × Option Deque × Mem :=
  if d.size = 0 then (.errOutOfRange, none, m) else
  let n := Deque.new d.cap d.triple m      -- conf.mem_* = deque->mem_* (D10)
  match n.2.1 with
  | none => (n.1, none, n.2.2)
  | some f0 =>
    let r := filterLoop d pred (List.range d.size) f0 n.2.2
    if r.1 != .ok then (r.1, none, r.2.1.destroy r.2.2) else (.ok, some r.2.1, r.2.2)

/-! ## iterators -/

/-- `CC_DequeIter` / `CC_DequeZipIter` cursor fields -/
structure Iter where
  index : Nat := 0
  lastRemoved : Bool := false
  deriving Repr, DecidableEq

/-- `iter->index - 1` in `size_t` arithmetic -/
def decIdx (i : Nat) : Nat := if i = 0 then 2 ^ 64 - 1 else i - 1

/-- `cc_deque_iter_next` -/
def iterNext (it : Iter) (d : Deque) (m : Mem) : Stat × Option Nat × Iter × Mem :=
  if it.index ≥ d.size then (.iterEnd, none, it, m) else
  let r := rd d.buf ((d.first + it.index) % d.cap) m
  (.ok, some r.1, { index := it.index + 1, lastRemoved := false }, r.2)

/-- `cc_deque_iter_remove` -/
def iterRemove (it : Iter) (d : Deque) (m : Mem) : Stat × Option Nat × Iter × Deque × Mem :=
  if it.lastRemoved then (.errValueNotFound, none, it, d, m) else
  let r := d.removeAt (decIdx it.index) m
  if r.1 = .ok then (r.1, r.2.1, { index := it.index - 1, lastRemoved := true }, r.2.2.1, r.2.2.2)
  else (r.1, none, it, r.2.2.1, r.2.2.2)

/-- `cc_deque_iter_add` -/
def iterAdd (it : Iter) (d : Deque) (x : Nat) (m : Mem) : Stat × Iter × Deque × Mem :=
  let r := if it.index = d.size then d.addLast x m else d.addAt x it.index m
  if r.1 = .ok then (r.1, { it with index := it.index + 1 }, r.2.1, r.2.2) else (r.1, it, r.2.1, r.2.2)

/-- `cc_deque_iter_replace` -/
def iterReplace (it : Iter) (d : Deque) (x : Nat) (m : Mem) : Stat × Option Nat × Deque × Mem :=
  d.replaceAt x (decIdx it.index) m

/-- `cc_deque_iter_index` -/
def iterIndex (it : Iter) : Nat := decIdx it.index

/-- `cc_deque_zip_iter_next` -/
def zipNext (it : Iter) (d1 d2 : Deque) (m : Mem) : Stat × Option (Nat × Nat) × Iter × Mem :=
  if it.index ≥ d1.size then (.iterEnd, none, it, m) else
  if it.index ≥ d2.size then (.iterEnd, none, it, m) else
  let r1 := rd d1.buf ((d1.first + it.index) % d1.cap) m
  let r2 := rd d2.buf ((d2.first + it.index) % d2.cap) r1.2
  (.ok, some (r1.1, r2.1), { index := it.index + 1, lastRemoved := false }, r2.2)

/-- `cc_deque_zip_iter_add` -/
def zipAdd (it : Iter) (d1 d2 : Deque) (x y : Nat) (m : Mem) : Stat × Iter × Deque × Deque × Mem :=
  if it.index ≥ d1.size ∨ it.index ≥ d2.size then (.errOutOfRange, it, d1, d2, m) else
  let e1 := if d1.cap = d1.size then d1.expandCapacity m else (.ok, d1, m)
  if e1.1 != .ok then (.errAlloc, it, e1.2.1, d2, e1.2.2) else
  let e2 := if d2.cap = d2.size then d2.expandCapacity e1.2.2 else (.ok, d2, e1.2.2)
  if e2.1 != .ok then (.errAlloc, it, e1.2.1, e2.2.1, e2.2.2) else
  let a1 := e1.2.1.addAt x it.index e2.2.2
  if a1.1 != .ok then (a1.1, it, a1.2.1, e2.2.1, a1.2.2) else
  let a2 := e2.2.1.addAt y it.index a1.2.2
  if a2.1 != .ok then
    -- both or none: take the first element out again (D13)
    let r := a1.2.1.removeAt it.index a2.2.2
    (a2.1, it, r.2.2.1, a2.2.1, r.2.2.2)
  else
  (.ok, { it with index := it.index + 1 }, a1.2.1, a2.2.1, a2.2.2)

/-- `cc_deque_zip_iter_remove` -/
def zipRemove (it : Iter) (d1 d2 : Deque) (m : Mem) :
    Stat × Option (Nat × Nat) × Iter × Deque × Deque × Mem :=
  if it.lastRemoved then (.errValueNotFound, none, it, d1, d2, m) else
  if decIdx it.index ≥ d1.size ∨ decIdx it.index ≥ d2.size then (.errOutOfRange, none, it, d1, d2, m) else
  let r1 := d1.removeAt (decIdx it.index) m
  let r2 := d2.removeAt (decIdx it.index) r1.2.2.2
  (.ok, some (r1.2.1.getD 0, r2.2.1.getD 0), { index := it.index - 1, lastRemoved := true },
    r1.2.2.1, r2.2.2.1, r2.2.2.2)

/-- `cc_deque_zip_iter_replace` -/
def zipReplace (it : Iter) (d1 d2 : Deque) (x y : Nat) (m : Mem) :
    Stat × Option (Nat × Nat) × Deque × Deque × Mem :=
  if decIdx it.index ≥ d1.size ∨ decIdx it.index ≥ d2.size then (.errOutOfRange, none, d1, d2, m) else
  let r1 := d1.replaceAt x (decIdx it.index) m
  let r2 := d2.replaceAt y (decIdx it.index) r1.2.2.2
  (.ok, some (r1.2.1.getD 0, r2.2.1.getD 0), r1.2.2.1, r2.2.2.1, r2.2.2.2)

/-! ## zip iterator over one and the same deque (`d1 == d2` in the C call)

The C functions then read and write the *same* object through both pointers; the model threads the one
state through both halves in the order of the C statements. -/

/-- `cc_deque_zip_iter_remove(iter, …)` with `iter->d1 == iter->d2`: the second `remove_at` acts on the
deque the first one has already changed (it removes the successor, or fails silently — the status is
ignored and `*out2` is then not written) -/
def zipRemoveSelf (it : Iter) (d : Deque) (m : Mem) : Stat × Option Nat × Option Nat × Iter × Deque × Mem :=
  if it.lastRemoved then (.errValueNotFound, none, none, it, d, m) else
  if decIdx it.index ≥ d.size ∨ decIdx it.index ≥ d.size then (.errOutOfRange, none, none, it, d, m) else
  let r1 := d.removeAt (decIdx it.index) m
  let r2 := r1.2.2.1.removeAt (decIdx it.index) r1.2.2.2
  (.ok, r1.2.1, r2.2.1, { index := it.index - 1, lastRemoved := true }, r2.2.2.1, r2.2.2.2)

/-- `cc_deque_zip_iter_add` with `d1 == d2`: both growth tests look at the one deque, then two `add_at`
calls at the same index follow; the second may have to grow again, and if it fails the first element is
taken out again (D13) -/
def zipAddSelf (it : Iter) (d : Deque) (x y : Nat) (m : Mem) : Stat × Iter × Deque × Mem :=
  if it.index ≥ d.size ∨ it.index ≥ d.size then (.errOutOfRange, it, d, m) else
  let e1 := if d.cap = d.size then d.expandCapacity m else (.ok, d, m)
  if e1.1 != .ok then (.errAlloc, it, e1.2.1, e1.2.2) else
  let e2 := if e1.2.1.cap = e1.2.1.size then e1.2.1.expandCapacity e1.2.2 else (.ok, e1.2.1, e1.2.2)
  if e2.1 != .ok then (.errAlloc, it, e2.2.1, e2.2.2) else
  let a1 := e2.2.1.addAt x it.index e2.2.2
  if a1.1 != .ok then (a1.1, it, a1.2.1, a1.2.2) else
  let a2 := a1.2.1.addAt y it.index a1.2.2
  if a2.1 != .ok then
    -- both or none (D13): the second insertion had to grow and was refused; `d1` is the same object
    let r := a2.2.1.removeAt it.index a2.2.2
    (a2.1, it, r.2.2.1, r.2.2.2)
  else
  (.ok, { it with index := it.index + 1 }, a2.2.1, a2.2.2)

/-- `cc_deque_zip_iter_replace` with `d1 == d2`: the second replacement overwrites the first -/
def zipReplaceSelf (it : Iter) (d : Deque) (x y : Nat) (m : Mem) : Stat × Option Nat × Option Nat × Deque × Mem :=
  if decIdx it.index ≥ d.size ∨ decIdx it.index ≥ d.size then (.errOutOfRange, none, none, d, m) else
  let r1 := d.replaceAt x (decIdx it.index) m
  let r2 := r1.2.2.1.replaceAt y (decIdx it.index) r1.2.2.2
  (.ok, r1.2.1, r2.2.1, r2.2.2.1, r2.2.2.2)

/-! ## abstraction and invariant -/

/-- the held elements, front first -/
def abs (d : Deque) : List Nat := (List.range d.size).map fun i => d.buf.get ((d.first + i) % d.cap)

/-- representation invariant: the capacity is a power of two not above `MAX_POW_TWO`, the buffer block
is exactly `capacity` slots long, `first` is a slot, `last` is the slot after the last element -/
def Inv (d : Deque) : Prop :=
  d.cap = 2 ^ d.cap.log2 ∧ d.cap ≤ Gen.MAX_POW_TWO ∧ d.buf.length = d.cap ∧ d.first < d.cap ∧
  d.last = (d.first + d.size) % d.cap ∧ d.size ≤ d.cap

instance (d : Deque) : Decidable d.Inv := by unfold Inv; infer_instance

end Deque
end CC
