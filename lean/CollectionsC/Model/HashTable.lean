import CollectionsC.Base.Status
import CollectionsC.Base.Mem
import CollectionsC.Base.Buf
import CollectionsC.Spec.MapSpec
/-! Concrete model of `src/cc_hashtable.c`.

State = the fields of `struct cc_hashtable_s` that carry data: `capacity`, `size`, `threshold` and
the bucket array, a `List` (length = number of *allocated* slots) of chains; a chain is the list of
its `TableEntry`s from the bucket head along `next`.  An entry keeps its key (`none` = NULL), its
value and the **cached hash**.  The hash function (after seeding) and the two float products
(`capacity * load_factor`, `array capacity * exp_factor`) are parameters (`Cfg`); every theorem
holds for every `Cfg`.  Keys are compared by value (the `key_compare` callback of the harness).

Loops over bucket slots or chains are folds over the lists; the bounds checks of all the slot
accesses of one loop are gathered in one `Mem.check` (the fault flag is sticky, so only the
conjunction matters). -/
namespace CC

structure Entry where
  key   : Option Nat
  value : Nat
  hash  : Nat
  deriving DecidableEq, Repr, Inhabited

/-- what the C code gets from its callbacks / float unit -/
structure HCfg where
  /-- `table->hash(key, key_len, hash_seed)` for a non-NULL key -/
  hash  : Nat → Nat
  /-- `(size_t)(capacity * load_factor)` -/
  thr   : Nat → Nat
  /-- `(size_t)(capacity * exp_factor)` of the arrays built by `get_keys/get_values` -/
  agrow : Nat → Nat

structure HashTable where
  capacity  : Nat
  size      : Nat
  threshold : Nat
  buckets   : List (List Entry)
  /-- `mem_alloc/mem_calloc/mem_free`, copied from the configuration by `new_conf` -/
  triple    : Triple := .conf
  deriving DecidableEq, Repr

/-- the `CC_Array` built by `get_keys`/`get_values` (fields of `struct cc_array_s`) -/
structure DArr where
  size : Nat
  cap  : Nat
  buf  : Buf Nat
  /-- the array's allocator triple (`get_keys/get_values` copy the table's into the `CC_ArrayConf`) -/
  triple : Triple := .conf
  deriving DecidableEq, Repr

/-- `CC_HashTableIter`; an entry pointer is represented by the key of the entry it points to
(keys are pairwise distinct in a table), `none` = NULL pointer -/
structure HIter where
  bucketIndex : Nat
  prev : Option (Option Nat)
  next : Option (Option Nat)
  deriving DecidableEq, Repr

namespace HT

def SIZE_MOD : Nat := 2 ^ 64

/-- `n` releases in a row -/
def freeN (m : Mem) (tr : Triple) : Nat → Mem
  | 0 => m
  | n + 1 => freeN (m.freeT tr) tr n

/-- blocks currently owned through the given triple -/
def liveOf (m : Mem) : Triple → Nat
  | .conf => m.live
  | .libc => m.liveLibc

/-- successful allocations of the current operation through the given triple -/
def allocsOf (m : Mem) : Triple → Nat
  | .conf => m.nalloc
  | .libc => m.lalloc

/-- hash stored for a key: the NULL key is pinned to hash 0 -/
def keyHash (c : HCfg) : Option Nat → Nat
  | none => 0
  | some k => c.hash k

/-- a key as the pointer value stored in a key array (NULL = 0) -/
def encKey : Option Nat → Nat
  | none => 0
  | some k => k

/-- `size--` on a `size_t` -/
def decWrap (n : Nat) : Nat := if n = 0 then SIZE_MOD - 1 else n - 1

/-- `size--` executed `n` times -/
def decWrapN (s : Nat) : Nat → Nat
  | 0 => s
  | n + 1 => decWrapN (decWrap s) n

/-- `round_pow_two` (32-bit variant: `ARCH_64` is not defined in this build) -/
def roundPowTwo (n : Nat) : Nat :=
  if n ≥ Gen.MAX_POW_TWO then Gen.MAX_POW_TWO else
  if n = 0 then 1 else
  let n := n - 1
  let n := n ||| (n >>> 1)
  let n := n ||| (n >>> 2)
  let n := n ||| (n >>> 4)
  let n := n ||| (n >>> 8)
  let n := n ||| (n >>> 16)
  n + 1

/-! ### chains -/

/-- first entry of the chain whose key equals `key` (for a non-NULL key the C test is
`e->key && key_cmp(e->key, key) == 0`, for the NULL key `e->key == NULL`) -/
def chainFind (ch : List Entry) (key : Option Nat) : Option Entry := ch.find? (fun e => e.key == key)

/-- overwrite the value of the first entry with this key; `none` when the chain has no such entry -/
def chainReplace : List Entry → Option Nat → Nat → Option (List Entry)
  | [], _, _ => none
  | e :: es, key, v =>
    if e.key = key then some ({ e with value := v } :: es)
    else (chainReplace es key v).map (e :: ·)

/-- unlink the first entry with this key; returns its value and the remaining chain -/
def chainRemove : List Entry → Option Nat → Option (Nat × List Entry)
  | [], _ => none
  | e :: es, key =>
    if e.key = key then some (e.value, es)
    else (chainRemove es key).map (fun r => (r.1, e :: r.2))

end HT

namespace HashTable
open HT

/-- `table->buckets[i]` -/
def bucket (t : HashTable) (i : Nat) : List Entry := t.buckets.getD i []

/-- `hash & (capacity - 1)` -/
def index (t : HashTable) (h : Nat) : Nat := h &&& (t.capacity - 1)

/-- the entries in the order every `for (i < capacity) for (e = buckets[i]; e; e = e->next)` loop
visits them -/
def walk (t : HashTable) : List Entry := (t.buckets.take t.capacity).flatten

/-- `cc_hashtable_new_conf` -/
def new (c : HCfg) (initCap : Nat) (tr : Triple) (m : Mem) : Stat × Option HashTable × Mem :=
  let a1 := m.allocT tr
  if !a1.1 then (.errAlloc, none, a1.2) else
  let cap := roundPowTwo initCap
  let a2 := a1.2.allocT tr
  if !a2.1 then (.errAlloc, none, a2.2.freeT tr) else
  (.ok, some { capacity := cap, size := 0, threshold := c.thr cap, buckets := List.replicate cap [], triple := tr }, a2.2)

/-- `cc_hashtable_destroy`: every entry, the bucket array, the header -/
def destroy (t : HashTable) (m : Mem) : Mem :=
  let m := m.check (t.capacity ≤ t.buckets.length)
  ((freeN m t.triple t.walk.length).freeT t.triple).freeT t.triple

/-- `move_entries`: every entry is pushed on the head of its new chain, in walk order -/
def moveEntries (es : List Entry) (dest : List (List Entry)) (n : Nat) : List (List Entry) :=
  es.foldl (fun d e => d.set (e.hash &&& (n - 1)) (e :: d.getD (e.hash &&& (n - 1)) [])) dest

/-- `resize` -/
def resize (c : HCfg) (t : HashTable) (newCap : Nat) (m : Mem) : Stat × HashTable × Mem :=
  if t.capacity = Gen.MAX_POW_TWO then (.errMaxCapacity, t, m) else
  let a := m.allocT t.triple
  if !a.1 then (.errAlloc, t, a.2) else
  let m := a.2.check (decide (t.capacity ≤ t.buckets.length) &&
                      t.walk.all (fun e => decide (e.hash &&& (newCap - 1) < newCap)))
  let nb := moveEntries t.walk (List.replicate newCap []) newCap
  (.ok, { t with capacity := newCap, threshold := c.thr newCap, buckets := nb }, m.freeT t.triple)

/-- the `while (size >= threshold) resize(capacity << 1)` loop of `cc_hashtable_add`.  The loop is
bounded by fuel; it cannot run out for a capacity that is a power of two ≤ `MAX_POW_TWO` because
`resize` refuses at `MAX_POW_TWO` (running out is reported as a fault). -/
def growLoop (c : HCfg) : Nat → HashTable → Mem → Stat × HashTable × Mem
  | 0, t, m => (.ok, t, m.check (t.size < t.threshold))
  | fuel + 1, t, m =>
    if t.size ≥ t.threshold then
      let r := resize c t (t.capacity <<< 1) m
      if r.1 ≠ .ok then r else growLoop c fuel r.2.1 r.2.2
    else (.ok, t, m)

/-- `cc_hashtable_add` / `add_null_key` (the NULL key has hash 0, hence bucket `0 & … = 0`) -/
def add (c : HCfg) (t : HashTable) (key : Option Nat) (v : Nat) (m : Mem) : Stat × HashTable × Mem :=
  let g := growLoop c 64 t m
  if g.1 ≠ .ok then g else
  let t := g.2.1
  let m := g.2.2
  let h := keyHash c key
  let i := t.index h
  let m := m.check (i < t.buckets.length)
  match chainReplace (t.bucket i) key v with
  | some ch => (.ok, { t with buckets := t.buckets.set i ch }, m)
  | none =>
    let a := m.allocT t.triple
    if !a.1 then (.errAlloc, t, a.2) else
    (.ok, { t with buckets := t.buckets.set i ({ key := key, value := v, hash := h } :: t.bucket i),
                   size := t.size + 1 }, a.2)

/-- `cc_hashtable_get` / `get_null_key` -/
def get (c : HCfg) (t : HashTable) (key : Option Nat) (m : Mem) : Stat × Option Nat × Mem :=
  let i := t.index (keyHash c key)
  let m := m.check (i < t.buckets.length)
  match chainFind (t.bucket i) key with
  | some e => (.ok, some e.value, m)
  | none => (.errKeyNotFound, none, m)

/-- `cc_hashtable_contains_key` -/
def containsKey (c : HCfg) (t : HashTable) (key : Option Nat) (m : Mem) : Bool × Mem :=
  let r := t.get c key m
  (r.1 == .ok, r.2.2)

/-- `cc_hashtable_remove` / `remove_null_key` -/
def remove (c : HCfg) (t : HashTable) (key : Option Nat) (m : Mem) : Stat × Option Nat × HashTable × Mem :=
  let i := t.index (keyHash c key)
  let m := m.check (i < t.buckets.length)
  match chainRemove (t.bucket i) key with
  | some (v, ch) => (.ok, some v, { t with buckets := t.buckets.set i ch, size := decWrap t.size }, m.freeT t.triple)
  | none => (.errKeyNotFound, none, t, m)

/-- `cc_hashtable_remove_all` -/
def removeAll (t : HashTable) (m : Mem) : HashTable × Mem :=
  let m := m.check (t.capacity ≤ t.buckets.length)
  let n := t.walk.length
  ({ t with buckets := (t.buckets.take t.capacity).map (fun _ => []) ++ t.buckets.drop t.capacity,
            size := decWrapN t.size n }, freeN m t.triple n)

/-- `cc_hashtable_foreach_key`: the keys handed to the callback, in order -/
def foreachKey (t : HashTable) (m : Mem) : List (Option Nat) × Mem :=
  (t.walk.map (·.key), m.check (t.capacity ≤ t.buckets.length))

/-- `cc_hashtable_foreach_value` -/
def foreachValue (t : HashTable) (m : Mem) : List Nat × Mem :=
  (t.walk.map (·.value), m.check (t.capacity ≤ t.buckets.length))

end HashTable

/-! ### the arrays built by `get_keys` / `get_values` (`cc_array_new_conf`, `cc_array_add`,
`expand_capacity`, `cc_array_destroy` of `src/cc_array.c` with the default expansion factor) -/
namespace DArr
open HT

/-- `cc_array_new_conf` with `exp_factor = 2` -/
def new (cap : Nat) (tr : Triple) (m : Mem) : Stat × Option DArr × Mem :=
  if cap = 0 ∨ 2 ≥ Gen.CC_MAX_ELEMENTS / cap then (.errInvalidCapacity, none, m) else
  -- the buffer size in bytes must not wrap around either (`sizeof(void*) = 8`)
  if cap > Gen.CC_MAX_ELEMENTS / 8 then (.errInvalidCapacity, none, m) else
  let a1 := m.allocT tr
  if !a1.1 then (.errAlloc, none, a1.2) else
  let a2 := a1.2.allocT tr
  if !a2.1 then (.errAlloc, none, a2.2.freeT tr) else
  (.ok, some { size := 0, cap := cap, buf := Buf.mk cap, triple := tr }, a2.2)

/-- `expand_capacity` -/
def expand (c : HCfg) (a : DArr) (m : Mem) : Stat × DArr × Mem :=
  if a.cap = Gen.CC_MAX_ELEMENTS then (.errMaxCapacity, a, m) else
  let nc := c.agrow a.cap
  let nc := if nc ≤ a.cap then (if a.cap < Gen.CC_MAX_ELEMENTS / 2 then a.cap + 1 else Gen.CC_MAX_ELEMENTS) else nc
  if nc > Gen.CC_MAX_ELEMENTS / 8 then (.errMaxCapacity, a, m) else
  let al := m.allocT a.triple
  if !al.1 then (.errAlloc, a, al.2) else
  let m := al.2.check (decide (a.size ≤ nc) && decide (a.size ≤ a.buf.length))
  (.ok, { a with buf := (Buf.mk nc).memcpy 0 a.buf 0 a.size, cap := nc }, m.freeT a.triple)

/-- `cc_array_add` -/
def add (c : HCfg) (a : DArr) (x : Nat) (m : Mem) : Stat × DArr × Mem :=
  let r := if a.size ≥ a.cap then expand c a m else (.ok, a, m)
  if r.1 ≠ .ok then r else
  let a := r.2.1
  let m := r.2.2.check (a.size < a.buf.length)
  (.ok, { a with buf := a.buf.put a.size x, size := a.size + 1 }, m)

/-- `cc_array_destroy` -/
def destroy (a : DArr) (m : Mem) : Mem := (m.freeT a.triple).freeT a.triple

/-- the held elements -/
def contents (a : DArr) : List Nat := a.buf.firstN a.size

def Inv (a : DArr) : Prop := a.size ≤ a.cap ∧ a.buf.length = a.cap ∧ 0 < a.cap
instance (a : DArr) : Decidable a.Inv := by unfold Inv; infer_instance

/-- the `cc_array_add` loop of `get_keys/get_values`: stops at the first failing add -/
def addAll (c : HCfg) : List Nat → DArr → Mem → Stat × DArr × Mem
  | [], a, m => (.ok, a, m)
  | x :: xs, a, m =>
    let r := add c a x m
    if r.1 ≠ .ok then r else addAll c xs r.2.1 r.2.2

end DArr

namespace HashTable
open HT

/-- common body of `cc_hashtable_get_keys` / `cc_hashtable_get_values` -/
def collect (c : HCfg) (t : HashTable) (xs : List Nat) (m : Mem) : Stat × Option DArr × Mem :=
  let r := DArr.new t.size t.triple m
  match r.2.1 with
  | none => (r.1, none, r.2.2)
  | some a =>
    let m := r.2.2.check (t.capacity ≤ t.buckets.length)
    let s := DArr.addAll c xs a m
    if s.1 ≠ .ok then (s.1, none, s.2.1.destroy s.2.2) else (.ok, some s.2.1, s.2.2)

/-- `cc_hashtable_get_keys` -/
def getKeys (c : HCfg) (t : HashTable) (m : Mem) : Stat × Option DArr × Mem :=
  t.collect c (t.walk.map (fun e => encKey e.key)) m

/-- `cc_hashtable_get_values` -/
def getValues (c : HCfg) (t : HashTable) (m : Mem) : Stat × Option DArr × Mem :=
  t.collect c (t.walk.map (·.value)) m

/-! ### iterator -/

/-- first non-empty bucket with index in `[start, capacity)` -/
def findBucketFrom (t : HashTable) (start : Nat) : Option Nat :=
  ((List.range t.capacity).drop start).find? (fun i => !(t.bucket i).isEmpty)

/-- `cc_hashtable_iter_init` -/
def iterInit (t : HashTable) (m : Mem) : HIter × Mem :=
  let m := m.check (t.capacity ≤ t.buckets.length)
  match t.findBucketFrom 0 with
  | some i => ({ bucketIndex := i, prev := none, next := (t.bucket i).head?.map (·.key) }, m)
  | none => ({ bucketIndex := 0, prev := none, next := none }, m)

/-- `cc_hashtable_iter_next`.  `next_entry` always points into chain `bucket_index`; a pointer
whose entry is no longer there is a dangling pointer (fault). -/
def iterNext (t : HashTable) (it : HIter) (m : Mem) : Stat × Option Entry × HIter × Mem :=
  match it.next with
  | none => (.iterEnd, none, it, m)
  | some k =>
    match (t.bucket it.bucketIndex).dropWhile (fun e => e.key != k) with
    | [] => (.iterEnd, none, it, m.check false)
    | e :: rest =>
      match rest with
      | e2 :: _ => (.ok, some e, { it with prev := some k, next := some e2.key }, m)
      | [] =>
        let m := m.check (t.capacity ≤ t.buckets.length)
        match t.findBucketFrom (it.bucketIndex + 1) with
        | some i => (.ok, some e, { bucketIndex := i, prev := some k, next := (t.bucket i).head?.map (·.key) }, m)
        | none => (.ok, some e, { it with prev := some k, next := none }, m)

/-- `cc_hashtable_iter_remove`: rejected when `prev_entry` is NULL (nothing yielded yet, or the
yielded entry was already removed through the iterator); otherwise
`cc_hashtable_remove(table, prev_entry->key, out)`, and `prev_entry = NULL` after a successful removal -/
def iterRemove (c : HCfg) (t : HashTable) (it : HIter) (m : Mem) : Stat × Option Nat × HashTable × HIter × Mem :=
  match it.prev with
  | none => (.errKeyNotFound, none, t, it, m)
  | some k =>
    let r := t.remove c k m
    (r.1, r.2.1, r.2.2.1, if r.1 = .ok then { it with prev := none } else it, r.2.2.2)

/-! ### abstraction and invariant -/

/-- the map held by the table, in walk order -/
def abs (t : HashTable) : Spec.Map := t.buckets.flatten.map (fun e => (e.key, e.value))

/-- every entry of chain `i` carries the hash of its key and belongs to bucket `i` -/
def chainOk (c : HCfg) (cap i : Nat) (ch : List Entry) : Prop :=
  ∀ e ∈ ch, e.hash = keyHash c e.key ∧ e.hash % cap = i

instance (c : HCfg) (cap i : Nat) (ch : List Entry) : Decidable (chainOk c cap i ch) := by
  unfold chainOk; infer_instance

/-- representation invariant: the capacity is a power of two not above `MAX_POW_TWO = 2^31`; the
bucket array has `capacity` slots; `size` counts the entries; every entry sits in the bucket its
cached hash selects and the cached hash is the hash of its key; keys are pairwise distinct; the
threshold is the float product for the current capacity. -/
def Inv (c : HCfg) (t : HashTable) : Prop :=
  (∃ k, k < 32 ∧ t.capacity = 2 ^ k) ∧
  t.buckets.length = t.capacity ∧
  t.size = t.buckets.flatten.length ∧
  (∀ j, j < t.buckets.length → chainOk c t.capacity j (t.bucket j)) ∧
  (t.buckets.flatten.map (·.key)).Nodup ∧
  t.threshold = c.thr t.capacity

instance (c : HCfg) (t : HashTable) : Decidable (t.Inv c) := by unfold Inv; infer_instance

/-! ### histories -/
open Spec.Map (Op Out)

/-- one call of the public API -/
def step (c : HCfg) (t : HashTable) (op : Op) (m : Mem) : Out × HashTable × Mem :=
  match op with
  | .add k v => let r := t.add c k v m; (⟨some r.1, none⟩, r.2.1, r.2.2)
  | .get k => let r := t.get c k m; (⟨some r.1, r.2.1⟩, t, r.2.2)
  | .containsKey k => let r := t.containsKey c k m; (⟨none, some (if r.1 then 1 else 0)⟩, t, r.2)
  | .remove k => let r := t.remove c k m; (⟨some r.1, r.2.1⟩, r.2.2.1, r.2.2.2)
  | .removeAll => let r := t.removeAll m; (⟨none, none⟩, r.1, r.2)

/-- the failure an insertion reported (allocation refused, maximal capacity), if any: this is the
only thing in a history that the ideal map cannot know by itself -/
def failedOf (op : Op) (o : Out) : Option Stat :=
  match op, o.st with
  | .add _ _, some .ok => none
  | .add _ _, s => s
  | _, _ => none

/-- a history: outputs, failures of the insertions, final table, final ledger -/
def run (c : HCfg) (t : HashTable) (ops : List Op) (m : Mem) : List Out × List (Option Stat) × HashTable × Mem :=
  match ops with
  | [] => ([], [], t, m)
  | op :: ops =>
    let s := t.step c op m
    let rs := run c s.2.1 ops s.2.2
    (s.1 :: rs.1, failedOf op s.1 :: rs.2.1, rs.2.2.1, rs.2.2.2)

end HashTable
end CC
