import Std.Data.HashMap
import CollectionsC.Model.TST
/-! Pointer-level model of the ternary search trie of `src/cc_tsttable.c`.

The heap maps node ids (allocation serial numbers, from 1; `0` is `NULL`) to nodes with **raw**
`parent` / `left` / `mid` / `right` links, the character and the entry pointer (`none` = `eow == NULL`).
`get_last_node` (the `CC_TSTTableNode ***last_node` is a `Slot`: the root field of the table or a child
field of a node), `make_mid_subtree`, `cc_tsttable_add`, `cc_tsttable_get`, `cc_tsttable_remove`,
`remove_eow_node` (the upward pruning loop over `parent`), `cc_tsttable_remove_all` and the iterator
(`iter_next` with its pointer comparisons `previous_node == node->parent / left / mid / right`,
`advanced_on_remove`, `iter_remove`) are the pointer surgery of the C text, assignment by assignment, in
the same order.  `while` loops take a fuel argument that the callers set above any possible iteration
count.  Allocation refusals are decided by the inductive model (`Model/TST.lean`, which owns the `Mem`
ledger); `add` here is told whether the call succeeded.

`Proofs/PTST*.lean` relate this heap to the inductive trie of `Model/TST.lean` (`toNode`): the
representation invariant `Represents`, the descent, chain creation and pruning.  The Lean driver runs this
model alongside the inductive one and prints the trie from this heap with node ids and parent ids, so the
correspondence check compares the C node identities and `parent` links with these after every operation. -/
namespace CC.PTST
open CC CC.TST

structure PNode where
  c      : Nat := 0
  data   : Option Entry := none
  parent : Nat := 0
  left   : Nat := 0
  mid    : Nat := 0
  right  : Nat := 0
  deriving Repr, DecidableEq, Inhabited

/-- the heap: node id ↦ node -/
structure Heap where
  m : Std.HashMap Nat PNode := {}

namespace Heap
/-- `*p` (an id that is not allocated reads as a zeroed node — the C code never does that) -/
def get (h : Heap) (i : Nat) : PNode := h.m.getD i {}
def set (h : Heap) (i : Nat) (n : PNode) : Heap := ⟨h.m.insert i n⟩
/-- `mem_free(node)` -/
def del (h : Heap) (i : Nat) : Heap := ⟨h.m.erase i⟩
/-- the block is allocated -/
def has (h : Heap) (i : Nat) : Bool := h.m.contains i
def count (h : Heap) : Nat := h.m.size
end Heap

def setLeft (h : Heap) (i v : Nat) : Heap := h.set i { h.get i with left := v }
def setMid (h : Heap) (i v : Nat) : Heap := h.set i { h.get i with mid := v }
def setRight (h : Heap) (i v : Nat) : Heap := h.set i { h.get i with right := v }
def setParent (h : Heap) (i v : Nat) : Heap := h.set i { h.get i with parent := v }
def setData (h : Heap) (i : Nat) (d : Option Entry) : Heap := h.set i { h.get i with data := d }

/-- `struct cc_tsttable_s` (heap, `root`, `size`), the allocation serial of the next node and the ids
released by the last call -/
structure PT where
  heap  : Heap := {}
  root  : Nat := 0
  size  : Nat := 0
  fresh : Nat := 1
  freed : List Nat := []

/-- a `CC_TSTTableNode **`: where a node pointer is stored -/
inductive Slot where
  | root
  | left (n : Nat)
  | mid (n : Nat)
  | right (n : Nat)
  deriving Repr, DecidableEq, Inhabited

/-- `**last_node` -/
def deref (h : Heap) (root : Nat) : Slot → Nat
  | .root => root
  | .left n => (h.get n).left
  | .mid n => (h.get n).mid
  | .right n => (h.get n).right

/-- `*last_node = v` -/
def store (st : PT) (s : Slot) (v : Nat) : PT :=
  match s with
  | .root => { st with root := v }
  | .left n => { st with heap := setLeft st.heap n v }
  | .mid n => { st with heap := setMid st.heap n v }
  | .right n => { st with heap := setRight st.heap n v }

/-- result of `get_last_node`: the slot, `last_parent`, and `last_index + 1` (the number of matched
characters) -/
structure Last where
  slot    : Slot := .root
  parent  : Nat := 0
  matched : Nat := 0
  deriving Repr, DecidableEq

/-- the loop of `get_last_node` -/
def getLastLoop (cmp : Cmp) (h : Heap) (root : Nat) (key : Key) : Nat → Last → Last
  | 0, r => r
  | f + 1, r =>
    let node := deref h root r.slot
    if node = 0 ∨ ¬ r.matched < key.length then r                     -- while (**last_node && idx + 1 < key_len)
    else
      match cmp (key.getD r.matched 0) (h.get node).c with
      | .lt => getLastLoop cmp h root key f { r with parent := node, slot := .left node }
      | .gt => getLastLoop cmp h root key f { r with parent := node, slot := .right node }
      | .eq =>
        if r.matched + 1 = key.length then { r with matched := r.matched + 1 }          -- break
        else getLastLoop cmp h root key f { parent := node, slot := .mid node, matched := r.matched + 1 }

/-- `get_last_node(table, &last_node, &last_parent, &last_index, key, key_len)` -/
def getLast (cmp : Cmp) (st : PT) (key : Key) : Last :=
  getLastLoop cmp st.heap st.root key (st.fresh + key.length + 1) {}

/-- the `for` loop of `make_mid_subtree`: one `mem_calloc` per remaining character, linked through `mid`
with the `parent` pointers set -/
def chainLoop (h : Heap) (node fresh : Nat) : Key → Heap × Nat × Nat
  | [] => (h, node, fresh)
  | x :: xs =>
    let h := setMid h node fresh                                      -- node->mid = calloc(...)
    let h := h.set fresh { c := x, parent := node }                   -- node->mid->parent = node; ->c = key[i]
    chainLoop h fresh (fresh + 1) xs                                  -- node = node->mid

/-- `cc_tsttable_add`; `ok` says that no allocator request of the call was refused -/
def add (cmp : Cmp) (st : PT) (key : Key) (v : Nat) (ok : Bool) : PT :=
  let st := { st with freed := [] }
  if !ok then st else
  let r := getLast cmp st key
  let node := deref st.heap st.root r.slot
  if node ≠ 0 then
    let inc := (st.heap.get node).data.isNone                         -- if (!(*last_node)->eow) … size += 1
    { st with heap := setData st.heap node (some (key, v)), size := if inc then st.size + 1 else st.size }
  else
    let sfx := key.drop r.matched
    let b := st.fresh
    let h := st.heap.set b { c := sfx.headD 0 }                   -- *begin = calloc; (*begin)->c = key[0]
    let ch := chainLoop h b (b + 1) sfx.tail
    let h := setParent ch.1 b r.parent                                -- begin->parent = last_parent
    let h := setData h ch.2.1 (some (key, v))                         -- end->data = …
    store { st with heap := h, size := st.size + 1, fresh := ch.2.2 } r.slot b   -- *last_node = begin

/-- `cc_tsttable_get`: the node whose entry is returned (`0` = `CC_ERR_KEY_NOT_FOUND`) -/
def findNode (cmp : Cmp) (st : PT) (key : Key) : Nat :=
  let r := getLast cmp st key
  let node := deref st.heap st.root r.slot
  if node ≠ 0 ∧ (st.heap.get node).data.isSome ∧ r.matched = key.length then node else 0

def get (cmp : Cmp) (st : PT) (key : Key) : Option Entry :=
  let n := findNode cmp st key
  if n = 0 then none else (st.heap.get n).data

/-- the `while (node)` loop of `remove_eow_node` -/
def pruneLoop : Nat → PT → Nat → Nat → PT
  | 0, st, _, _ => st
  | f + 1, st, node, parent =>
    if node = 0 then st else
    let n := st.heap.get node
    if n.left = 0 ∧ n.mid = 0 ∧ n.right = 0 ∧ n.data.isNone then
      if parent ≠ 0 then
        let h := st.heap
        let h :=
          if (h.get parent).left = node then setLeft h parent 0
          else if (h.get parent).right = node then setRight h parent 0
          else if (h.get parent).mid = node then setMid h parent 0
          else h
        let h := h.del node                                           -- mem_free(node)
        pruneLoop f { st with heap := h, freed := st.freed ++ [node] } parent (h.get parent).parent
      else
        { st with heap := st.heap.del node, freed := st.freed ++ [node], root := 0 }
    else st

/-- `remove_eow_node(table, node)` -/
def removeEow (st : PT) (node : Nat) : PT :=
  if (st.heap.get node).data.isNone then st else
  let h := setData st.heap node none                                  -- mem_free(node->data); node->data = NULL
  pruneLoop (st.fresh + 1) { st with heap := h } node (h.get node).parent

/-- `cc_tsttable_remove` -/
def remove (cmp : Cmp) (st : PT) (key : Key) : PT :=
  let st := { st with freed := [] }
  let n := findNode cmp st key
  if n = 0 then st
  else
    let st := removeEow st n
    { st with size := if st.size > 0 then st.size - 1 else 0 }

/-- the `while (node)` loop of `cc_tsttable_remove_all` -/
def removeAllLoop : Nat → PT → Nat → PT
  | 0, st, _ => st
  | f + 1, st, node =>
    if node = 0 then st else
    let n := st.heap.get node
    let parent := n.parent
    if n.left = 0 ∧ n.right = 0 ∧ n.mid = 0 then
      let h := st.heap
      let h :=
        if parent ≠ 0 then
          if (h.get parent).left = node then setLeft h parent 0
          else if (h.get parent).mid = node then setMid h parent 0
          else if (h.get parent).right = node then setRight h parent 0
          else h
        else h
      let size := if n.data.isSome then decSize st.size else st.size
      removeAllLoop f { st with heap := h.del node, freed := st.freed ++ [node], size := size } parent
    else if n.left ≠ 0 then removeAllLoop f st n.left
    else if n.mid ≠ 0 then removeAllLoop f st n.mid
    else removeAllLoop f st n.right

def removeAll (st : PT) : PT :=
  let st := removeAllLoop (2 * st.fresh + 2) { st with freed := [] } st.root
  { st with root := 0 }

/-! ### iterator: three node pointers and the `advanced_on_remove` flag -/

structure PIter where
  cur      : Nat := 0
  next     : Nat := 0
  adv      : Bool := false
  nextStat : Stat := .ok
  deriving Repr, DecidableEq

def iterInit (st : PT) : PIter := { cur := 0, next := st.root }

/-- first non-NULL pointer of the cascade, with the `error` flag -/
def firstNZ : List Nat → Nat × Bool
  | [] => (0, true)
  | x :: xs => if x ≠ 0 then (x, false) else firstNZ xs

/-- the direction cascade of `cc_tsttable_iter_next` at `node` entered with `previous_node = prev` -/
def iterStep (n : PNode) (prev : Nat) : Nat × Bool :=
  if prev = n.parent then firstNZ [n.left, n.mid, n.right, n.parent]
  else if prev = n.left then firstNZ [n.mid, n.right, n.parent]
  else if prev = n.mid then firstNZ [n.right, n.parent]
  else if prev = n.right then firstNZ [n.parent]
  else (0, true)

/-- the `while (node)` loop of `cc_tsttable_iter_next`: status, yielded node, iterator -/
def iterLoop (h : Heap) (it : PIter) : Nat → Nat → Nat → Stat × Nat × PIter
  | 0, _, _ => (.iterEnd, 0, { it with next := 0, cur := 0 })
  | f + 1, node, prev =>
    if node = 0 then (.iterEnd, 0, { it with next := 0, cur := 0 }) else
    let n := h.get node
    let s := iterStep n prev
    if n.data.isSome ∧ prev = n.parent then
      (.ok, node, { it with cur := node, next := if s.2 then 0 else s.1 })
    else if s.2 then (.iterEnd, 0, { it with next := 0, cur := 0 })
    else iterLoop h it f s.1 node

/-- `cc_tsttable_iter_next`: status, the node whose entry is handed out, iterator -/
def iterNext (st : PT) (it : PIter) : Stat × Nat × PIter :=
  if it.adv then
    (it.nextStat, if it.nextStat = .ok then it.cur else 0, { it with adv := false })
  else iterLoop st.heap it (2 * st.fresh + 2) it.next it.cur

/-- `cc_tsttable_iter_remove` -/
def iterRemove (st : PT) (it : PIter) : PT × PIter :=
  let st := { st with freed := [] }
  if it.cur = 0 ∨ it.adv then (st, it) else
  let toRemove := it.cur
  let nx := iterNext st it
  let it' := { nx.2.2 with adv := true, nextStat := nx.1 }
  let st := removeEow st toRemove
  ({ st with size := decSize st.size }, it')

/-! ### abstraction -/

/-- the inductive trie spanned by the `left` / `mid` / `right` links below `n` -/
def toNodeF (h : Heap) : Nat → Nat → Node
  | 0, _ => .nil
  | f + 1, n =>
    if n = 0 then .nil
    else .node (h.get n).c (h.get n).data (toNodeF h f (h.get n).left) (toNodeF h f (h.get n).mid)
      (toNodeF h f (h.get n).right)

def toNode (st : PT) : Node := toNodeF st.heap st.fresh st.root

/-- the path of a node, by walking up the `parent` links (for the iterator dump) -/
def pathOf (h : Heap) : Nat → Nat → Path → Option Path
  | 0, _, _ => none
  | f + 1, n, acc =>
    let p := (h.get n).parent
    if p = 0 then some acc
    else
      let d : Dir := if (h.get p).left = n then .L else if (h.get p).mid = n then .M else .R
      pathOf h f p (d :: acc)

end CC.PTST
