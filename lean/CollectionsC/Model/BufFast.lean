import CollectionsC.Base.Buf
/-! Linear-time implementations of `Buf.memcpy`/`Buf.memmove` for the *compiled* drivers.
`Base/Buf.lean` defines both by `List.getD` under a `map` over all indices (quadratic in the buffer
length), which is what the proofs use; the `@[csimp]` theorems below are proved equalities, so the
compiler may replace the definitions by the `take`/`drop`/`++` versions — nothing is assumed. -/
namespace CC.Buf
variable {α : Type} [Inhabited α]

/-- `n` items of `s` from `src` on, padded with `default` where `s` ends -/
def sliceD (s : Buf α) (src n : Nat) : Buf α :=
  let t := (s.drop src).take n
  t ++ List.replicate (n - t.length) default
theorem sliceD_length (s : Buf α) (src n : Nat) : (sliceD s src n).length = n := by
  simp [sliceD]; omega
theorem sliceD_getElem (s : Buf α) (src n k : Nat) (h : k < (sliceD s src n).length) :
    (sliceD s src n)[k] = s.get (src + k) := by
  have hk : k < n := by rw [sliceD_length] at h; exact h
  simp only [sliceD, get, List.getD_eq_getElem?_getD, List.getElem_append]
  split
  · rename_i hlt
    simp only [List.length_take, List.length_drop] at hlt
    rw [List.getElem_take, List.getElem_drop]
    have : src + k < s.length := by omega
    simp [this]
  · rename_i hge
    simp only [List.length_take, List.length_drop] at hge
    have : s.length ≤ src + k := by omega
    simp [List.getElem?_eq_none this]
def memcpyFast (d : Buf α) (dst : Nat) (s : Buf α) (src n : Nat) : Buf α :=
  d.take dst ++ sliceD s src (min n (d.length - dst)) ++ d.drop (dst + n)
theorem memcpy_eq_fast (d : Buf α) (dst : Nat) (s : Buf α) (src n : Nat) :
    d.memcpy dst s src n = d.memcpyFast dst s src n := by
  apply List.ext_getElem
  · simp [memcpy, memcpyFast, sliceD_length]; omega
  · intro j h1 h2
    have hj : j < d.length := by simpa [memcpy] using h1
    simp only [memcpy, memcpyFast, List.getElem_map, List.getElem_range, List.getElem_append, List.length_take,
      List.length_append, sliceD_length]
    by_cases c1 : j < dst
    · have : ¬ (dst ≤ j ∧ j < dst + n) := by omega
      rw [if_neg this, dif_pos (by omega), dif_pos (by omega)]
      simp [get, List.getD_eq_getElem?_getD, hj]
    · by_cases c2 : j < dst + n
      · rw [if_pos ⟨by omega, c2⟩, dif_pos (by omega), dif_neg (by omega)]
        rw [sliceD_getElem]
        congr 1; omega
      · have : ¬ (dst ≤ j ∧ j < dst + n) := by omega
        rw [if_neg this, dif_neg (by omega)]
        simp only [List.getElem_drop]
        simp [get, List.getD_eq_getElem?_getD]
        have e : dst + n + (j - (min dst d.length + min n (d.length - dst))) = j := by omega
        simp [e, hj]

def memmoveFast (b : Buf α) (dst src n : Nat) : Buf α := b.memcpyFast dst b src n

theorem memmove_eq_fast (b : Buf α) (dst src n : Nat) : b.memmove dst src n = b.memmoveFast dst src n := by
  rw [memmoveFast, ← memcpy_eq_fast]; rfl

end CC.Buf

@[csimp] theorem CC.Buf.memcpy_csimp : @CC.Buf.memcpy = @CC.Buf.memcpyFast := by
  funext α i d dst s src n; exact CC.Buf.memcpy_eq_fast d dst s src n
@[csimp] theorem CC.Buf.memmove_csimp : @CC.Buf.memmove = @CC.Buf.memmoveFast := by
  funext α i b dst src n; exact CC.Buf.memmove_eq_fast b dst src n
