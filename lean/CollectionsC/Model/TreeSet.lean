import CollectionsC.Model.TreeTable
/-! Concrete model of `src/cc_treeset.c`: a header block that owns a `CC_TreeTable` whose values
are all the dummy pointer `(int*) 1`. -/
namespace CC

structure TreeSet where
  t : TreeTable := {}
  /-- the set's own copy of `mem_alloc/mem_calloc/mem_free` (the same conf is handed to the table) -/
  triple : Triple := .conf
  deriving DecidableEq, Repr, Inhabited

namespace TreeSet
open Spec.OrdSet (dummy mapStat)
open Spec.OrdMap (Out)
variable (cmp : Nat → Nat → Int)

/-- `cc_treeset_new_conf`: header, then the table (header + sentinel) -/
def newT (tr : Triple) (m : Mem) : Stat × Option TreeSet × Mem :=
  let a := m.allocT tr
  if !a.1 then (.errAlloc, none, a.2) else
  match TreeTable.newT tr a.2 with
  | (.ok, some t, m') => (.ok, some { t := t, triple := tr }, m')
  | (st, _, m') => (st, none, m'.freeT tr)

/-- `cc_treeset_new_conf` with the caller's allocator triple -/
def new (m : Mem) : Stat × Option TreeSet × Mem := newT .conf m

/-- `cc_treeset_destroy` -/
def destroy (s : TreeSet) (m : Mem) : Mem := (s.t.destroy m).freeT s.triple

/-- `cc_treeset_add` -/
def add (s : TreeSet) (e : Nat) (m : Mem) : Stat × TreeSet × Mem × Nat :=
  let r := s.t.add cmp e dummy m
  (r.1, { s with t := r.2.1 }, r.2.2.1, r.2.2.2)

/-- `cc_treeset_remove`: the out-parameter receives what the table stored as the value, i.e. the
dummy pointer, not the element -/
def remove (s : TreeSet) (e : Nat) (m : Mem) : Stat × Option Nat × TreeSet × Mem × Nat :=
  let r := s.t.remove cmp e m
  (mapStat r.1, r.2.1, { s with t := r.2.2.1 }, r.2.2.2.1, r.2.2.2.2)

def removeAll (s : TreeSet) (m : Mem) : TreeSet × Mem :=
  let r := s.t.removeAll m; ({ s with t := r.1 }, r.2)

def first (s : TreeSet) : Stat × Option Nat := let r := s.t.firstKey; (mapStat r.1, r.2)
def last (s : TreeSet) : Stat × Option Nat := let r := s.t.lastKey; (mapStat r.1, r.2)
def greaterThan (s : TreeSet) (e : Nat) : Stat × Option Nat × Nat :=
  let r := s.t.greaterThan cmp e; (mapStat r.1, r.2.1, r.2.2)
def lesserThan (s : TreeSet) (e : Nat) : Stat × Option Nat × Nat :=
  let r := s.t.lesserThan cmp e; (mapStat r.1, r.2.1, r.2.2)
def contains (s : TreeSet) (e : Nat) : Bool × Nat := s.t.containsKey cmp e
def size (s : TreeSet) : Nat := s.t.size
def foreach (s : TreeSet) : List Nat := s.t.foreachKey

def iterInit (s : TreeSet) : TreeIter := s.t.iterInit
/-- `cc_treeset_iter_next`: yields the element only -/
def iterNext (s : TreeSet) (it : TreeIter) : Stat × Option Nat × TreeIter :=
  let r := s.t.iterNext it
  (r.1, r.2.1.map (·.1), r.2.2)
/-- `cc_treeset_iter_remove` (status of the table function, out = dummy) -/
def iterRemove (s : TreeSet) (it : TreeIter) (m : Mem) : Stat × Option Nat × TreeSet × TreeIter × Mem :=
  let r := s.t.iterRemove cmp it m
  (r.1, r.2.1, { s with t := r.2.2.1 }, r.2.2.2.1, r.2.2.2.2)

/-- abstraction: the elements in ascending order -/
def abs (s : TreeSet) : List Nat := s.t.root.toList.map (·.1)

/-- invariant: the table's invariant, every stored value is the dummy, and the wrapped table uses the
set's allocator triple -/
def Inv (s : TreeSet) : Prop := s.t.Inv cmp ∧ (∀ e ∈ s.t.root.toList, e.2 = dummy) ∧ s.t.triple = s.triple
instance (s : TreeSet) : Decidable (s.Inv cmp) := by unfold Inv; infer_instance

/-- one call of the set API -/
def step (s : TreeSet) (op : Spec.OrdSet.Op) (m : Mem) : Out × TreeSet × Mem × Nat :=
  match op with
  | .add e => let r := s.add cmp e m; ({ st := some r.1 }, r.2.1, r.2.2.1, r.2.2.2)
  | .remove e => let r := s.remove cmp e m; ({ st := some r.1, val := r.2.1 }, r.2.2.1, r.2.2.2.1, r.2.2.2.2)
  | .removeAll => let r := s.removeAll m; ({}, r.1, r.2, 0)
  | .contains e => let r := s.contains cmp e; ({ val := some (if r.1 then 1 else 0) }, s, m, r.2)
  | .size => ({ val := some s.size }, s, m, 0)
  | .first => let r := s.first; ({ st := some r.1, val := r.2 }, s, m, 0)
  | .last => let r := s.last; ({ st := some r.1, val := r.2 }, s, m, 0)
  | .greaterThan e => let r := s.greaterThan cmp e; ({ st := some r.1, val := r.2.1 }, s, m, r.2.2)
  | .lesserThan e => let r := s.lesserThan cmp e; ({ st := some r.1, val := r.2.1 }, s, m, r.2.2)
  | .foreach => ({ log := s.foreach }, s, m, 0)

open Spec.OrdMap (IterOp) in
/-- one call on a set iterator: `next` reports the yielded element in `val` -/
def iterStep (s : TreeSet) (it : TreeIter) (op : IterOp) (m : Mem) : Out × TreeSet × TreeIter × Mem :=
  match op with
  | .next => let r := s.iterNext it; ({ st := some r.1, val := r.2.1 }, s, r.2.2, m)
  | .remove =>
    let r := s.iterRemove cmp it m
    ({ st := some r.1, val := r.2.1 }, r.2.2.1, r.2.2.2.1, r.2.2.2.2)

open Spec.OrdMap (IterOp) in
def iterRun (s : TreeSet) (it : TreeIter) : List IterOp → Mem → List Out × TreeSet × TreeIter × Mem
  | [], m => ([], s, it, m)
  | op :: rest, m =>
    let r := s.iterStep cmp it op m
    let rs := iterRun r.2.1 r.2.2.1 rest r.2.2.2
    (r.1 :: rs.1, rs.2)

/-- a history; every call starts with its own allocator schedule -/
def run (s : TreeSet) : List (Spec.OrdSet.Op × List Bool) → Mem → List Out × List (Nat × Nat) × TreeSet × Mem
  | [], m => ([], [], s, m)
  | (op, sched) :: rest, m =>
    let r := s.step cmp op (m.begin sched)
    let rs := run r.2.1 rest r.2.2.1
    (r.1 :: rs.1, (s.size, r.2.2.2) :: rs.2.1, rs.2.2)

/-- a session: histories of set calls interleaved with iterator sessions, each on a fresh iterator -/
def runSession (s : TreeSet) : List Spec.OrdSet.Segment → Mem → List (List Out) × TreeSet × Mem
  | [], m => ([], s, m)
  | .calls ops :: rest, m =>
    let r := s.run cmp ops m
    let rs := runSession r.2.2.1 rest r.2.2.2
    (r.1 :: rs.1, rs.2)
  | .iterate prog :: rest, m =>
    let r := s.iterRun cmp s.iterInit prog m
    let rs := runSession r.2.1 rest r.2.2.2
    (r.1 :: rs.1, rs.2)

/-- every iterator session respects the precondition of `iter_remove` -/
def SessionValid (s : TreeSet) : List Spec.OrdSet.Segment → Mem → Prop
  | [], _ => True
  | .calls ops :: rest, m => SessionValid (s.run cmp ops m).2.2.1 rest (s.run cmp ops m).2.2.2
  | .iterate prog :: rest, m =>
    TreeTable.IterValid cmp s.t s.iterInit prog m ∧
    SessionValid (s.iterRun cmp s.iterInit prog m).2.1 rest (s.iterRun cmp s.iterInit prog m).2.2.2

end TreeSet
end CC
