import CollectionsC.Model.PTST
/-! Histories on the pointer-level ternary search trie (`Model/PTST.lean`): the operations of a history (`POp`, the
vocabulary of `Spec/StrMapSpec.lean`: add with the call's refusal schedule, get, contains_key, remove, remove_all,
size, a complete enumeration, and whole iterator sessions of next / remove / queries), `pstep`, `prun`.

Here the pointer level decides allocation refusals itself: `addNeeds` is the number of allocator requests a
successful `cc_tsttable_add` makes (one per node of the new suffix chain plus the entry block; only the entry block
when the node exists without an entry; none when an entry is overwritten), and the call succeeds iff none of its
first `addNeeds` requests is refused by the schedule (the C library's allocator is never refused).
`Properties/C11PTST.lean` proves that every history run here agrees, call by call, with the inductive model
(`Table.run`), hence with the ideal string map. -/
namespace CC.PTST
open CC.TST
open Spec.StrMap (Op Out IOp IOut)

/-- operations of a pointer-level history -/
abbrev POp := Op

/-- allocator requests of a successful `cc_tsttable_add` -/
def addNeeds (cmp : Cmp) (st : PT) (key : Key) : Nat :=
  let r := getLast cmp st key
  let node := deref st.heap st.root r.slot
  if node ≠ 0 then (if (st.heap.get node).data.isSome then 0 else 1)   -- if (!(*last_node)->eow) data = mem_alloc
  else chainLen (key.drop r.matched) + 1                                -- make_mid_subtree + the entry

/-- the first `n` requests of the call are all granted -/
def granted (tr : Triple) (n : Nat) (sched : List Bool) : Bool := tr == .libc || (sched.take n).all (!·)

/-- `cc_tsttable_foreach_key/value`, a complete iterator pass: the entries in yield order -/
def iterAllLoop (st : PT) : Nat → PIter → List Entry
  | 0, _ => []
  | n + 1, it =>
    let r := iterNext st it
    if r.1 = .iterEnd then [] else
    match (st.heap.get r.2.1).data with
    | some e => e :: iterAllLoop st n r.2.2
    | none => iterAllLoop st n r.2.2

def iterAll (st : PT) : List Entry := iterAllLoop st st.fresh (iterInit st)

/-- one call of an iterator session -/
def piterOp (cmp : Cmp) (st : PT) (it : PIter) : IOp → IOut × PT × PIter
  | .next =>
    let r := iterNext st it
    let d := if r.1 = .ok then (st.heap.get r.2.1).data else none        -- *out = node->data
    ({ st := r.1, key := d.map (·.1), val := d.map (·.2) }, st, r.2.2)
  | .remove _ =>
    if it.cur = 0 ∨ it.adv then ({ st := .errKeyNotFound }, { st with freed := [] }, it) else
    let d := (st.heap.get it.cur).data
    let r := iterRemove st it
    ({ st := .ok, val := d.map (·.2) }, r.1, r.2)
  | .get k =>
    (match get cmp st k with
      | some e => { st := .ok, val := some e.2 }
      | none => { st := .errKeyNotFound }, st, it)
  | .contains k => ({ st := .ok, val := some (if (get cmp st k).isSome then 1 else 0) }, st, it)
  | .size => ({ st := .ok, val := some st.size }, st, it)

def piterRun (cmp : Cmp) (st : PT) (it : PIter) : List IOp → List IOut × PT × PIter
  | [] => ([], st, it)
  | op :: ops =>
    let s := piterOp cmp st it op
    let rs := piterRun cmp s.2.1 s.2.2 ops
    (s.1 :: rs.1, rs.2)

/-- one operation of a history on a table built on the allocator triple `tr` -/
def pstep (tr : Triple) (cmp : Cmp) (st : PT) : POp → Out × PT
  | .add k v sched =>
    let ok := granted tr (addNeeds cmp st k) sched
    ({ st := some (if ok then .ok else .errAlloc) }, add cmp st k v ok)
  | .get k =>
    (match get cmp st k with
      | some e => { st := some .ok, val := some e.2 }
      | none => { st := some .errKeyNotFound }, st)
  | .contains k => ({ val := some (if (get cmp st k).isSome then 1 else 0) }, st)
  | .remove k =>
    let n := findNode cmp st k
    (if n = 0 then { st := some .errKeyNotFound }
     else { st := some .ok, val := (st.heap.get n).data.map (·.2) }, remove cmp st k)
  | .removeAll => ({}, removeAll st)
  | .size => ({ val := some st.size }, st)
  | .enumerate => ({ enum := iterAll st }, st)
  | .iterate prog => let r := piterRun cmp st (iterInit st) prog; ({ iter := r.1 }, r.2.1)

def prun (tr : Triple) (cmp : Cmp) (st : PT) : List POp → List Out × PT
  | [] => ([], st)
  | op :: ops =>
    let s := pstep tr cmp st op
    let rs := prun tr cmp s.2 ops
    (s.1 :: rs.1, rs.2)

/-- `cc_tsttable_destroy`: `remove_all`, then the header (not a node) is released -/
def destroy (st : PT) : PT := removeAll st

end CC.PTST
