import CollectionsC.Model.Chain
import CollectionsC.Spec.LSeq
/-! Concrete model of `src/cc_slist.c` (singly linked list) on the `Chain` state of
`Model/Chain.lean`: the same branches and the same assignments to `size`/`head`/`tail`, one
`m.allocT l.triple` per `list->mem_alloc`/`mem_calloc`, one `m.freeT l.triple` per `list->mem_free`, a `m.check` where a node pointer
is dereferenced.  Functions that walk with a trailing `prev` pointer return both pointers. -/
namespace CC.SList
open CC

/-- `cc_slist_new_conf` -/
def new (t : Triple) (m : Mem) : Stat × Option Chain × Mem :=
  let a := m.allocT t
  if !a.1 then (.errAlloc, none, a.2) else (.ok, some { triple := t }, a.2)

/-- `get_node_at`: status, node, prev -/
def getNodeAt (l : Chain) (index : Nat) : Stat × Ptr × Ptr :=
  if index ≥ l.size then (.errOutOfRange, none, none)
  else (.ok, Chain.walkNext l.nodes.length l.head index,
        if index = 0 then none else Chain.walkNext l.nodes.length l.head (index - 1))

/-- `get_node`: status, node, prev (the node in front of the match, `NULL` when the head matches) -/
def getNode (l : Chain) (x : Nat) : Stat × Ptr × Ptr :=
  let node := l.find l.head (· == x)
  if node = none then (.errValueNotFound, none, none)
  else (.ok, node, if node = l.head then none else node.prev)

/-- `unlinkn(list, node, prev)` -/
def unlinkn (l : Chain) (node prev : Ptr) (m : Mem) : Nat × Chain × Mem :=
  let n := l.nodes.length
  let m := m.check (node.valid n)
  let d := l.data node
  let r : Chain × Mem :=
    if prev != none then (l, m.check (prev.valid n))          -- prev->next = node->next
    else ({ l with head := node.next n }, m)
  let l := r.1
  let l := if node.next n = none then { l with tail := prev } else l
  let l := l.del node.pos
  (d, { l with size := l.size - 1 }, r.2.freeT l.triple)

/-- `cc_slist_add_first` -/
def addFirst (l : Chain) (x : Nat) (m : Mem) : Stat × Chain × Mem :=
  let a := m.allocT l.triple
  if !a.1 then (.errAlloc, l, a.2) else
  let m := a.2
  if l.size = 0 then
    (.ok, { l with nodes := [x], size := l.size + 1, head := some 0, tail := some 0 }, m)
  else
    -- node->next = head; head = node   (no dereference of the old head)
    let j := l.head.pos
    let l := l.ins j x
    (.ok, { l with head := some j, size := l.size + 1 }, m)

/-- `cc_slist_add_last` (= `cc_slist_add`) -/
def addLast (l : Chain) (x : Nat) (m : Mem) : Stat × Chain × Mem :=
  let a := m.allocT l.triple
  if !a.1 then (.errAlloc, l, a.2) else
  let m := a.2
  if l.size = 0 then
    (.ok, { l with nodes := [x], size := l.size + 1, head := some 0, tail := some 0 }, m)
  else
    let m := m.check (l.tail.valid l.nodes.length)
    let j := l.tail.pos + 1
    let l := l.ins j x
    (.ok, { l with tail := some j, size := l.size + 1 }, m)

/-- `cc_slist_add_at` -/
def addAt (l : Chain) (x index : Nat) (m : Mem) : Stat × Chain × Mem :=
  let g := getNodeAt l index
  if g.1 != .ok then (g.1, l, m) else
  let a := m.allocT l.triple
  if !a.1 then (.errAlloc, l, a.2) else
  let m := a.2
  let prev := g.2.2
  if prev = none then
    let j := l.head.pos
    let l := l.ins j x
    (.ok, { l with head := some j, size := l.size + 1 }, m)
  else
    let m := m.check (prev.valid l.nodes.length)
    let l := l.ins (prev.pos + 1) x
    (.ok, { l with size := l.size + 1 }, m)

/-- `cc_slist_add_all` -/
def addAll (l1 l2 : Chain) (m : Mem) : Stat × Chain × Mem :=
  if l2.size = 0 then (.ok, l1, m) else
  let r := l2.linkAllExternally l1.triple m
  if !r.1 then (.errAlloc, l1, r.2.2) else
  let xs := r.2.1
  let m := r.2.2
  if l1.size = 0 then
    (.ok, { l1 with nodes := xs, head := some 0, tail := some (xs.length - 1), size := l1.size + l2.size }, m)
  else
    let m := m.check (l1.tail.valid l1.nodes.length)
    let p := l1.tail.pos + 1
    let l := l1.insMany p xs
    (.ok, { l with tail := some (p + xs.length - 1), size := l.size + l2.size }, m)

/-- `cc_slist_add_all_at` -/
def addAllAt (l1 l2 : Chain) (index : Nat) (m : Mem) : Stat × Chain × Mem :=
  if l2.size = 0 then (.ok, l1, m) else
  let g := getNodeAt l1 index
  if g.1 != .ok then (g.1, l1, m) else
  let r := l2.linkAllExternally l1.triple m
  if !r.1 then (.errAlloc, l1, r.2.2) else
  let xs := r.2.1
  let m := r.2.2
  let node := g.2.1
  let prev := g.2.2
  if prev = none then
    -- tail'->next = node; head = head'
    let p := node.pos
    let l := l1.insMany p xs
    (.ok, { l with head := some p, size := l.size + l2.size }, m)
  else
    let m := m.check (prev.valid l1.nodes.length)
    let l := l1.insMany node.pos xs
    (.ok, { l with size := l.size + l2.size }, m)

/-- `cc_slist_splice` -/
def splice (l1 l2 : Chain) (m : Mem) : Stat × Chain × Chain × Mem :=
  if l2.size = 0 then (.ok, l1, l2, m) else
  let e : Chain := { l2 with nodes := [], size := 0, head := none, tail := none }
  if l1.size = 0 then
    (.ok, { l1 with nodes := l2.nodes, head := l2.head, tail := l2.tail, size := l1.size + l2.size }, e, m)
  else
    let m := m.check (l1.tail.valid l1.nodes.length)
    let p := l1.tail.pos + 1
    let l := l1.insMany p l2.nodes
    (.ok, { l with tail := l2.tail.offset p, size := l.size + l2.size }, e, m)

/-- `splice_between(l1, l2, base, end)` -/
def spliceBetween (l1 l2 : Chain) (base e : Ptr) (m : Mem) : Chain × Chain × Mem :=
  let n := l1.nodes.length
  let r : Chain × Mem :=
    if base = none then
      let m := m.check (l2.tail.valid l2.nodes.length)
      let p := l1.head.pos
      let l := l1.insMany p l2.nodes
      ({ l with head := l2.head.offset p }, m)
    else if e = none then
      let m := m.check (l1.tail.valid n)
      let p := l1.tail.pos + 1
      let l := l1.insMany p l2.nodes
      ({ l with tail := l2.tail.offset p }, m)
    else
      let m := m.check (base.valid n && l2.tail.valid l2.nodes.length)
      (l1.insMany e.pos l2.nodes, m)
  ({ r.1 with size := r.1.size + l2.size }, { l2 with nodes := [], size := 0, head := none, tail := none }, r.2)

/-- `cc_slist_splice_at` -/
def spliceAt (l1 l2 : Chain) (index : Nat) (m : Mem) : Stat × Chain × Chain × Mem :=
  if l2.size = 0 then (.ok, l1, l2, m) else
  if index ≥ l1.size then (.errOutOfRange, l1, l2, m) else
  let g := getNodeAt l1 index
  if g.1 != .ok then (g.1, l1, l2, m) else
  let r := spliceBetween l1 l2 g.2.2 g.2.1 m
  (.ok, r.1, r.2.1, r.2.2)

/-- `cc_slist_remove` -/
def remove (l : Chain) (x : Nat) (m : Mem) : Stat × Option Nat × Chain × Mem :=
  let g := getNode l x
  if g.1 != .ok then (g.1, none, l, m) else
  let u := unlinkn l g.2.1 g.2.2 m
  (.ok, some u.1, u.2.1, u.2.2)

/-- `cc_slist_remove_at` -/
def removeAt (l : Chain) (index : Nat) (m : Mem) : Stat × Option Nat × Chain × Mem :=
  let g := getNodeAt l index
  if g.1 != .ok then (g.1, none, l, m) else
  let u := unlinkn l g.2.1 g.2.2 m
  (.ok, some u.1, u.2.1, u.2.2)

/-- `cc_slist_remove_first` -/
def removeFirst (l : Chain) (m : Mem) : Stat × Option Nat × Chain × Mem :=
  if l.size = 0 then (.errValueNotFound, none, l, m) else
  let u := unlinkn l l.head none m
  (.ok, some u.1, u.2.1, u.2.2)

/-- `cc_slist_remove_last` -/
def removeLast (l : Chain) (m : Mem) : Stat × Option Nat × Chain × Mem :=
  if l.size = 0 then (.errValueNotFound, none, l, m) else
  let g := getNodeAt l (l.size - 1)
  if g.1 != .ok then (g.1, none, l, m) else
  let u := unlinkn l g.2.1 g.2.2 m
  (.ok, some u.1, u.2.1, u.2.2)

/-- the loop of `unlinkn_all`: nodes are released one by one, `head`/`tail` are not touched -/
def unlinkAllLoop : Nat → Chain → Ptr → List Nat → Mem → Chain × List Nat × Mem
  | 0, l, _, cb, m => (l, cb, m)
  | k + 1, l, node, cb, m =>
    match node with
    | none => (l, cb, m)
    | some j =>
      let m := m.check (node.valid l.nodes.length)
      let tmp := node.next l.nodes.length
      let cb := cb ++ [l.data node]
      let l' := l.del j
      unlinkAllLoop k { l' with size := l'.size - 1 } (tmp.shiftDel j) cb (m.freeT l.triple)

/-- `unlinkn_all` -/
def unlinknAll (l : Chain) (m : Mem) : Bool × Chain × List Nat × Mem :=
  if l.size = 0 then (false, l, [], m) else
  let r := unlinkAllLoop l.nodes.length l l.head [] m
  (true, r.1, r.2.1, r.2.2)

/-- `cc_slist_remove_all` / `cc_slist_remove_all_cb` -/
def removeAll (l : Chain) (m : Mem) : Stat × List Nat × Chain × Mem :=
  let r := unlinknAll l m
  if r.1 then (.ok, r.2.2.1, { r.2.1 with head := none, tail := none }, r.2.2.2)
  else (.errValueNotFound, [], r.2.1, r.2.2.2)

/-- `cc_slist_destroy` -/
def destroy (l : Chain) (m : Mem) : Mem := (removeAll l m).2.2.2.freeT l.triple

/-- `cc_slist_destroy_cb` -/
def destroyCb (l : Chain) (m : Mem) : List Nat × Mem :=
  let r := removeAll l m
  (r.2.1, r.2.2.2.freeT l.triple)

/-- `cc_slist_replace_at` -/
def replaceAt (l : Chain) (x index : Nat) (m : Mem) : Stat × Option Nat × Chain × Mem :=
  let g := getNodeAt l index
  if g.1 != .ok then (g.1, none, l, m) else
  let m := m.check (g.2.1.valid l.nodes.length)
  (.ok, some (l.data g.2.1), l.setData g.2.1 x, m)

/-- `cc_slist_get_first` -/
def getFirst (l : Chain) (m : Mem) : Stat × Option Nat × Mem :=
  if l.size = 0 then (.errValueNotFound, none, m) else
  (.ok, some (l.data l.head), m.check (l.head.valid l.nodes.length))

/-- `cc_slist_get_last` -/
def getLast (l : Chain) (m : Mem) : Stat × Option Nat × Mem :=
  if l.size = 0 then (.errValueNotFound, none, m) else
  (.ok, some (l.data l.tail), m.check (l.tail.valid l.nodes.length))

/-- `cc_slist_get_at` -/
def getAt (l : Chain) (index : Nat) (m : Mem) : Stat × Option Nat × Mem :=
  let g := getNodeAt l index
  if g.1 != .ok then (g.1, none, m) else
  (.ok, some (l.data g.2.1), m.check (g.2.1.valid l.nodes.length))

/-- the `while (flip)` loop of `cc_slist_reverse`: `next = flip->next; flip->next = prev; prev = flip;
flip = next`.  While it runs the nodes form two chains: the one hanging from `prev` (already turned,
newest first) and the one hanging from `flip` (still to do); both are given by their node data. -/
def reverseLoop : Nat → List Nat → List Nat → List Nat × List Nat
  | 0, prev, flip => (prev, flip)
  | _ + 1, prev, [] => (prev, [])
  | k + 1, prev, x :: flip => reverseLoop k (x :: prev) flip

/-- `cc_slist_reverse`: `tail = head` before the loop, `head = prev` after it -/
def reverse (l : Chain) : Chain :=
  if l.size = 0 || l.size = 1 then l else
  let r := reverseLoop l.nodes.length [] (l.walk l.head)
  -- the chain now hangs from `prev`; the old head node (the new `tail`) is its last node
  { l with nodes := r.1, tail := if l.head = none then none else some (r.1.length - 1),
           head := if r.1 = [] then none else some 0 }

/-- loops that fill a fresh list (`sublist`, the copies, `filter`); a refused `add` destroys the
partial result -/
def buildLoop (src : Chain) (sel : Nat → Option Nat) : Nat → Ptr → Chain → Mem → Stat × Chain × Mem
  | 0, _, dst, m => (.ok, dst, m)
  | k + 1, node, dst, m =>
    match node with
    | none => (.ok, dst, m)
    | some _ =>
      let m := m.check (node.valid src.nodes.length)
      match sel (src.data node) with
      | none => buildLoop src sel k (node.next src.nodes.length) dst m
      | some y =>
        let r := addLast dst y m
        if r.1 != .ok then (r.1, {}, destroy r.2.1 r.2.2)   -- the partial result is gone
        else buildLoop src sel k (node.next src.nodes.length) r.2.1 r.2.2

/-- `cc_slist_sublist` -/
def sublist (l : Chain) (b e : Nat) (m : Mem) : Stat × Option Chain × Mem :=
  if b > e || e ≥ l.size then (.errInvalidRange, none, m) else
  let c := new l.triple m
  match c.2.1 with
  | none => (c.1, none, c.2.2)
  | some sub =>
    let g := getNodeAt l b
    if g.1 != .ok then (g.1, none, destroy sub c.2.2) else
    let r := buildLoop l some (e - b + 1) g.2.1 sub c.2.2
    if r.1 != .ok then (r.1, none, r.2.2) else (.ok, some r.2.1, r.2.2)

/-- `cc_slist_copy_shallow` (`cp = id`) and `cc_slist_copy_deep` -/
def copy (cp : Nat → Nat) (l : Chain) (m : Mem) : Stat × Option Chain × Mem :=
  let c := new l.triple m
  match c.2.1 with
  | none => (c.1, none, c.2.2)
  | some dst =>
    let r := buildLoop l (fun v => some (cp v)) l.nodes.length l.head dst c.2.2
    if r.1 != .ok then (r.1, none, r.2.2) else (.ok, some r.2.1, r.2.2)

/-- `cc_slist_filter` -/
def filter (p : Nat → Bool) (l : Chain) (m : Mem) : Stat × Option Chain × Mem :=
  if l.size = 0 then (.errOutOfRange, none, m) else
  let c := new l.triple m
  match c.2.1 with
  | none => (c.1, none, c.2.2)
  | some dst =>
    let r := buildLoop l (fun v => if p v then some v else none) l.nodes.length l.head dst c.2.2
    if r.1 != .ok then (r.1, none, r.2.2) else (.ok, some r.2.1, r.2.2)

/-- `cc_slist_to_array` (an empty list yields a zero-length block) -/
def toArray (l : Chain) (m : Mem) : Stat × Option (List Nat) × Mem :=
  let a := m.allocT l.triple
  if !a.1 then (.errAlloc, none, a.2) else
  let r := l.collect l.size l.head a.2
  (.ok, some r.1, r.2)

/-- `cc_slist_contains` -/
def contains (l : Chain) (x : Nat) (m : Mem) : Nat × Mem := l.countLoop (· == x) l.nodes.length l.head 0 m
/-- `cc_slist_contains_value` -/
def containsValue (cmp : Nat → Nat → Int) (l : Chain) (x : Nat) (m : Mem) : Nat × Mem :=
  l.countLoop (fun y => cmp y x == 0) l.nodes.length l.head 0 m
/-- `cc_slist_index_of` (pointer equality) -/
def indexOf (l : Chain) (x : Nat) (m : Mem) : Stat × Option Nat × Mem :=
  let r := l.indexLoop (· == x) l.nodes.length l.head 0 m
  match r.1 with
  | some i => (.ok, some i, r.2)
  | none => (.errOutOfRange, none, r.2)

/-- `cc_slist_sort` -/
def sort (sortFn : List Nat → List Nat) (l : Chain) (m : Mem) : Stat × Chain × Mem :=
  if l.size = 1 then (.ok, l, m) else
  let t := toArray l m
  match t.2.1 with
  | none => (t.1, l, t.2.2)
  | some arr =>
    let r := Chain.writeBack l.size 0 l.head (sortFn arr) l t.2.2
    (.ok, r.1, r.2.freeT l.triple)

/-- `cc_slist_foreach`: the arguments the callback receives -/
def foreach (l : Chain) (m : Mem) : List Nat × Mem := l.foreachLoop l.nodes.length l.head m

/-- loop of `cc_slist_filter_mut` -/
def filterMutLoop (p : Nat → Bool) : Nat → Chain → Ptr → Ptr → Mem → Chain × Mem
  | 0, l, _, _, m => (l, m)
  | k + 1, l, curr, prev, m =>
    match curr with
    | none => (l, m)
    | some j =>
      let m := m.check (curr.valid l.nodes.length)
      let next := curr.next l.nodes.length
      if !p (l.data curr) then
        let u := unlinkn l curr prev m
        filterMutLoop p k u.2.1 (next.shiftDel j) prev u.2.2
      else filterMutLoop p k l next curr m

/-- `cc_slist_filter_mut` -/
def filterMut (p : Nat → Bool) (l : Chain) (m : Mem) : Stat × Chain × Mem :=
  if l.size = 0 then (.errOutOfRange, l, m) else
  let r := filterMutLoop p l.nodes.length l l.head none m
  (.ok, r.1, r.2)

/-! ## iterators -/
structure Iter where
  index   : Nat := 0
  current : Ptr := none
  prev    : Ptr := none
  next    : Ptr := none
  deriving Repr, DecidableEq

/-- `cc_slist_iter_init` -/
def iterInit (l : Chain) : Iter := { next := l.head }

/-- `cc_slist_iter_next` -/
def iterNext (l : Chain) (it : Iter) (m : Mem) : Stat × Option Nat × Iter × Mem :=
  if it.next = none then (.iterEnd, none, it, m) else
  let m := m.check (it.next.valid l.nodes.length)
  (.ok, some (l.data it.next),
   { index := it.index + 1, prev := if it.current != none then it.current else it.prev,
     current := it.next, next := it.next.next l.nodes.length }, m)

/-- `cc_slist_iter_remove` -/
def iterRemove (l : Chain) (it : Iter) (m : Mem) : Stat × Option Nat × Chain × Iter × Mem :=
  if it.current = none then (.errValueNotFound, none, l, it, m) else
  let u := unlinkn l it.current it.prev m
  (.ok, some u.1, u.2.1,
   { it with index := wdec it.index, current := none, next := it.next.shiftDel it.current.pos }, u.2.2)

/-- `cc_slist_iter_add` -/
def iterAdd (l : Chain) (it : Iter) (x : Nat) (m : Mem) : Stat × Chain × Iter × Mem :=
  let a := m.allocT l.triple
  if !a.1 then (.errAlloc, l, it, a.2) else
  let m := a.2.check (it.current.valid l.nodes.length)
  let j := it.current.pos + 1
  let l' := l.ins j x
  let l' := if it.index = l.size then { l' with tail := some j } else l'
  (.ok, { l' with size := l'.size + 1 },
   { index := it.index + 1, prev := it.current, current := some j, next := it.next.shiftIns j 1 }, m)

/-- `cc_slist_iter_replace` -/
def iterReplace (l : Chain) (it : Iter) (x : Nat) (m : Mem) : Stat × Option Nat × Chain × Mem :=
  if it.current = none then (.errValueNotFound, none, l, m) else
  let m := m.check (it.current.valid l.nodes.length)
  (.ok, some (l.data it.current), l.setData it.current x, m)

/-- `cc_slist_iter_index` -/
def iterIndex (it : Iter) : Nat := wdec it.index

structure ZipIter where
  index : Nat := 0
  cur1  : Ptr := none
  cur2  : Ptr := none
  prev1 : Ptr := none
  prev2 : Ptr := none
  next1 : Ptr := none
  next2 : Ptr := none
  deriving Repr, DecidableEq

/-- `cc_slist_zip_iter_init` -/
def zipInit (l1 l2 : Chain) : ZipIter := { next1 := l1.head, next2 := l2.head }

/-- `cc_slist_zip_iter_next` -/
def zipNext (l1 l2 : Chain) (z : ZipIter) (m : Mem) : Stat × Option (Nat × Nat) × ZipIter × Mem :=
  if z.next1 = none || z.next2 = none then (.iterEnd, none, z, m) else
  let m := m.check (z.next1.valid l1.nodes.length && z.next2.valid l2.nodes.length)
  (.ok, some (l1.data z.next1, l2.data z.next2),
   { index := z.index + 1,
     prev1 := if z.cur1 != none then z.cur1 else z.prev1, prev2 := if z.cur2 != none then z.cur2 else z.prev2,
     cur1 := z.next1, cur2 := z.next2,
     next1 := z.next1.next l1.nodes.length, next2 := z.next2.next l2.nodes.length }, m)

/-- `cc_slist_zip_iter_add` -/
def zipAdd (l1 l2 : Chain) (z : ZipIter) (x1 x2 : Nat) (m : Mem) : Stat × Chain × Chain × ZipIter × Mem :=
  let a1 := m.allocT l1.triple
  if !a1.1 then (.errAlloc, l1, l2, z, a1.2) else
  let a2 := a1.2.allocT l2.triple
  if !a2.1 then (.errAlloc, l1, l2, z, a2.2.freeT l1.triple) else
  let m := a2.2.check (z.cur1.valid l1.nodes.length && z.cur2.valid l2.nodes.length)
  let j1 := z.cur1.pos + 1
  let j2 := z.cur2.pos + 1
  let l1' := l1.ins j1 x1
  let l2' := l2.ins j2 x2
  let l1' := if z.index = l1.size then { l1' with tail := some j1 } else l1'
  let l2' := if z.index = l2.size then { l2' with tail := some j2 } else l2'
  (.ok, { l1' with size := l1'.size + 1 }, { l2' with size := l2'.size + 1 },
   { index := z.index + 1, prev1 := z.cur1, prev2 := z.cur2, cur1 := some j1, cur2 := some j2,
     next1 := z.next1.shiftIns j1 1, next2 := z.next2.shiftIns j2 1 }, m)

/-- `cc_slist_zip_iter_remove` -/
def zipRemove (l1 l2 : Chain) (z : ZipIter) (m : Mem) : Stat × Option (Nat × Nat) × Chain × Chain × ZipIter × Mem :=
  if z.cur1 = none || z.cur2 = none then (.errValueNotFound, none, l1, l2, z, m) else
  let u1 := unlinkn l1 z.cur1 z.prev1 m
  let u2 := unlinkn l2 z.cur2 z.prev2 u1.2.2
  (.ok, some (u1.1, u2.1), u1.2.1, u2.2.1,
   { z with index := wdec z.index, cur1 := none, cur2 := none,
            next1 := z.next1.shiftDel z.cur1.pos, next2 := z.next2.shiftDel z.cur2.pos }, u2.2.2)

/-- `cc_slist_zip_iter_replace` -/
def zipReplace (l1 l2 : Chain) (z : ZipIter) (x1 x2 : Nat) (m : Mem) : Stat × Option (Nat × Nat) × Chain × Chain × Mem :=
  if z.cur1 = none || z.cur2 = none then (.errValueNotFound, none, l1, l2, m) else
  let m := m.check (z.cur1.valid l1.nodes.length && z.cur2.valid l2.nodes.length)
  (.ok, some (l1.data z.cur1, l2.data z.cur2), l1.setData z.cur1 x1, l2.setData z.cur2 x2, m)

/-- `cc_slist_zip_iter_index` -/
def zipIndex (z : ZipIter) : Nat := wdec z.index

end CC.SList

namespace CC.SList
open CC.Spec.LSeq (Op Out Params)

/-- one history step on the pair (destination, source); `to_array` hands its block to the caller,
who releases it at once (as the harness does) -/
def step (P : Params) (s : Chain × Chain) (op : Op) (m : Mem) : Out × (Chain × Chain) × Mem :=
  match op with
  | .addFirst x => let r := addFirst s.1 x m; ({ st := some r.1 }, (r.2.1, s.2), r.2.2)
  | .addLast x => let r := addLast s.1 x m; ({ st := some r.1 }, (r.2.1, s.2), r.2.2)
  | .addAt x i => let r := addAt s.1 x i m; ({ st := some r.1 }, (r.2.1, s.2), r.2.2)
  | .addAll => let r := addAll s.1 s.2 m; ({ st := some r.1 }, (r.2.1, s.2), r.2.2)
  | .addAllAt i => let r := addAllAt s.1 s.2 i m; ({ st := some r.1 }, (r.2.1, s.2), r.2.2)
  | .splice => let r := splice s.1 s.2 m; ({ st := some r.1 }, (r.2.1, r.2.2.1), r.2.2.2)
  | .spliceAt i => let r := spliceAt s.1 s.2 i m; ({ st := some r.1 }, (r.2.1, r.2.2.1), r.2.2.2)
  | .remove x => let r := remove s.1 x m; ({ st := some r.1, val := r.2.1 }, (r.2.2.1, s.2), r.2.2.2)
  | .removeAt i => let r := removeAt s.1 i m; ({ st := some r.1, val := r.2.1 }, (r.2.2.1, s.2), r.2.2.2)
  | .removeFirst => let r := removeFirst s.1 m; ({ st := some r.1, val := r.2.1 }, (r.2.2.1, s.2), r.2.2.2)
  | .removeLast => let r := removeLast s.1 m; ({ st := some r.1, val := r.2.1 }, (r.2.2.1, s.2), r.2.2.2)
  | .removeAll => let r := removeAll s.1 m; ({ st := some r.1, vals := r.2.1 }, (r.2.2.1, s.2), r.2.2.2)
  | .replaceAt x i => let r := replaceAt s.1 x i m; ({ st := some r.1, val := r.2.1 }, (r.2.2.1, s.2), r.2.2.2)
  | .reverse => ({}, (reverse s.1, s.2), m)
  | .filterMut => let r := filterMut P.pred s.1 m; ({ st := some r.1 }, (r.2.1, s.2), r.2.2)
  | .getFirst => let r := getFirst s.1 m; ({ st := some r.1, val := r.2.1 }, s, r.2.2)
  | .getLast => let r := getLast s.1 m; ({ st := some r.1, val := r.2.1 }, s, r.2.2)
  | .getAt i => let r := getAt s.1 i m; ({ st := some r.1, val := r.2.1 }, s, r.2.2)
  | .indexOf x => let r := indexOf s.1 x m; ({ st := some r.1, val := r.2.1 }, s, r.2.2)
  | .contains x => let r := contains s.1 x m; ({ val := some r.1 }, s, r.2)
  | .containsValue x => let r := containsValue P.cmp s.1 x m; ({ val := some r.1 }, s, r.2)
  | .size => ({ val := some s.1.size }, s, m)
  | .toArray =>
    let r := toArray s.1 m
    ({ st := some r.1, vals := r.2.1.getD [] }, s, if r.1 = .ok then r.2.2.freeT s.1.triple else r.2.2)
  | .foreach => let r := foreach s.1 m; ({ vals := r.1 }, s, r.2)
  | .swapRoles => ({}, (s.2, s.1), m)

def run (P : Params) (s : Chain × Chain) (ops : List Op) (m : Mem) : List Out × (Chain × Chain) × Mem :=
  match ops with
  | [] => ([], s, m)
  | op :: ops => let r := step P s op m; let rs := run P r.2.1 ops r.2.2; (r.1 :: rs.1, rs.2.1, rs.2.2)

end CC.SList
