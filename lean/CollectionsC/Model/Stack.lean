import CollectionsC.Model.Array
/-! Concrete model of `src/cc_stack.c`: a header block holding a `CC_Array` (`stack->v`).
Every function forwards to the array model exactly as the C text does; the constructor allocates
the header first and releases it when the inner constructor fails. -/
namespace CC

/-- `struct cc_stack_s`: the wrapped array and the allocator triple copied from the configuration
(`stack->mem_alloc/mem_calloc/mem_free`); the header is allocated and released through it -/
structure Stack where
  v : Arr
  triple : Triple := .conf

namespace Stack

def abs (s : Stack) : List Nat := s.v.abs
def Inv (s : Stack) : Prop := s.v.Inv
instance (s : Stack) : Decidable s.Inv := by unfold Inv; infer_instance

/-- `cc_stack_new_conf` -/
def new (cap : Nat) (grow : Nat → Nat) (exGe : Nat → Bool) (m : Mem) (t : Triple := .conf) : Stat × Option Stack × Mem :=
  let a0 := m.allocT t
  if !a0.1 then (.errAlloc, none, a0.2) else
  let r := Arr.new cap grow exGe a0.2 t
  match r.2.1 with
  | some a => if r.1 = .ok then (.ok, some ⟨a, t⟩, r.2.2) else (r.1, none, r.2.2.freeT t)
  | none => (r.1, none, r.2.2.freeT t)

/-- `cc_stack_destroy` -/
def destroy (s : Stack) (m : Mem) : Mem := (s.v.destroy m).freeT s.triple

/-- `cc_stack_destroy_cb` -/
def destroyCb (s : Stack) (m : Mem) : List Nat × Mem :=
  let r := s.v.destroyCb m
  (r.1, r.2.freeT s.triple)

/-- `cc_stack_push` -/
def push (s : Stack) (x : Nat) (m : Mem) : Stat × Stack × Mem :=
  let r := s.v.add x m
  (r.1, { s with v := r.2.1 }, r.2.2)

/-- `cc_stack_peek` -/
def peek (s : Stack) (m : Mem) : Stat × Option Nat × Mem := s.v.getLast m

/-- `cc_stack_pop` -/
def pop (s : Stack) (m : Mem) : Stat × Option Nat × Stack × Mem :=
  let r := s.v.removeLast m
  (r.1, r.2.1, { s with v := r.2.2.1 }, r.2.2.2)

/-- `cc_stack_size` -/
def size (s : Stack) : Nat := s.v.size

/-- `cc_stack_map` -/
def map (s : Stack) (m : Mem) : List Nat × Mem := s.v.map m

/-- `cc_stack_filter_mut` -/
def filterMut (p : Nat → Bool) (s : Stack) (m : Mem) : Stat × Stack × List Nat × Mem :=
  let r := s.v.filterMut p m
  (r.1, { s with v := r.2.1 }, r.2.2.1, r.2.2.2)

/-- the `while (cc_stack_iter_next(&iter, &e) != CC_ITER_END)` loop of `cc_stack_filter`
(`n` bounds the number of iterations: `size + 1` suffices) -/
def filterLoop (p : Nat → Bool) (src : Arr) :
    Nat → ArrIter → Stack → List Nat → Mem → Stat × Stack × List Nat × Mem
  | 0, _, dst, log, m => (.ok, dst, log, m)
  | n + 1, it, dst, log, m =>
    let r := src.iterNext it m
    if r.1 = .iterEnd then (.ok, dst, log, r.2.2.2) else
    let e := r.2.1.getD 0
    if p e then
      let q := dst.push e r.2.2.2
      if q.1 != .ok then (q.1, q.2.1, log ++ [e], q.2.2)
      else filterLoop p src n r.2.2.1 q.2.1 (log ++ [e]) q.2.2
    else filterLoop p src n r.2.2.1 dst (log ++ [e]) r.2.2.2

/-- `cc_stack_filter`: the result is built with `cc_stack_conf_init`'s *default* capacity and expansion
factor (`dgrow`, `dexGe` are the float functions of the default factor) and the source's allocator
triple (`conf.mem_alloc = stack->mem_alloc` …) -/
def filter (p : Nat → Bool) (s : Stack) (dgrow : Nat → Nat) (dexGe : Nat → Bool) (m : Mem) :
    Stat × Option Stack × List Nat × Mem :=
  if s.size = 0 then (.errOutOfRange, none, [], m) else
  let r := Stack.new Gen.ARRAY_DEFAULT_CAPACITY dgrow dexGe m s.triple
  match r.2.1 with
  | none => (r.1, none, [], r.2.2)
  | some f =>
    if r.1 != .ok then (r.1, none, [], r.2.2) else
    let l := filterLoop p s.v (s.v.size + 1) {} f [] r.2.2
    if l.1 != .ok then (l.1, none, l.2.2.1, l.2.1.destroy l.2.2.2)
    else (.ok, some l.2.1, l.2.2.1, l.2.2.2)

open Spec.Seq (SOp Out) in
/-- one call of the push/pop/peek/size API -/
def step (s : Stack) (op : SOp) (m : Mem) : Out × Stack × Mem :=
  match op with
  | .push x => let r := s.push x m; ({ st := some r.1 }, r.2.1, r.2.2)
  | .pop => let r := s.pop m; ({ st := some r.1, val := r.2.1 }, r.2.2.1, r.2.2.2)
  | .peek => let r := s.peek m; ({ st := some r.1, val := r.2.1 }, s, r.2.2)
  | .size => ({ val := some s.size }, s, m)

open Spec.Seq (SOp Out) in
def run (s : Stack) (ops : List SOp) (m : Mem) : List Out × Stack × Mem :=
  match ops with
  | [] => ([], s, m)
  | op :: ops => let r := s.step op m; let rs := run r.2.1 ops r.2.2; (r.1 :: rs.1, rs.2.1, rs.2.2)

/-- `cc_stack_iter_next` -/
def iterNext (s : Stack) (it : ArrIter) (m : Mem) : Stat × Option Nat × ArrIter × Mem := s.v.iterNext it m

/-- `cc_stack_iter_replace` -/
def iterReplace (s : Stack) (it : ArrIter) (x : Nat) (m : Mem) : Stat × Option Nat × Stack × Mem :=
  let r := s.v.iterReplace it x m
  (r.1, r.2.1, { s with v := r.2.2.1 }, r.2.2.2)

/-- `cc_stack_zip_iter_next` -/
def zipNext (s1 s2 : Stack) (it : ArrIter) (m : Mem) : Stat × Option (Nat × Nat) × ArrIter × Mem :=
  Arr.zipNext s1.v s2.v it m

/-- `cc_stack_zip_iter_replace` -/
def zipReplace (s1 s2 : Stack) (it : ArrIter) (x y : Nat) (m : Mem) :
    Stat × Option (Nat × Nat) × Stack × Stack × Mem :=
  let r := Arr.zipReplace s1.v s2.v it x y m
  (r.1, r.2.1, { s1 with v := r.2.2.1 }, { s2 with v := r.2.2.2.1 }, r.2.2.2.2)

/-- `cc_stack_zip_iter_replace` with the same stack on both sides: one array state threaded through both
replacements (`Arr.zipReplace1`) -/
def zipReplace1 (s : Stack) (it : ArrIter) (x y : Nat) (m : Mem) : Stat × Option (Nat × Nat) × Stack × Mem :=
  let r := Arr.zipReplace1 s.v it x y m
  (r.1, r.2.1, { s with v := r.2.2.1 }, r.2.2.2)

end Stack
end CC
