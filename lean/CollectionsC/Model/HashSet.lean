import CollectionsC.Model.HashTable
/-! Concrete model of `src/cc_hashset.c`: a header block owning a `CC_HashTable` whose values are
all the dummy pointer `(int*) 1`.  Every function forwards to the table. -/
namespace CC

structure HashSet where
  table : HashTable
  /-- the set header's own copy of the allocator triple -/
  triple : Triple := .conf
  deriving DecidableEq, Repr

namespace HashSet
open HT

/-- `set->dummy = (int*) 1` -/
def dummy : Nat := 1

/-- `cc_hashset_new_conf`: header, then the table; the header is released when the table fails -/
def new (c : HCfg) (initCap : Nat) (tr : Triple) (m : Mem) : Stat × Option HashSet × Mem :=
  let a := m.allocT tr
  if !a.1 then (.errAlloc, none, a.2) else
  let r := HashTable.new c initCap tr a.2
  match r.2.1 with
  | none => (r.1, none, r.2.2.freeT tr)
  | some t => (.ok, some ⟨t, tr⟩, r.2.2)

/-- `cc_hashset_destroy` -/
def destroy (s : HashSet) (m : Mem) : Mem := (s.table.destroy m).freeT s.triple

/-- `cc_hashset_add` -/
def add (c : HCfg) (s : HashSet) (e : Option Nat) (m : Mem) : Stat × HashSet × Mem :=
  let r := s.table.add c e dummy m
  (r.1, { s with table := r.2.1 }, r.2.2)

/-- `cc_hashset_remove` -/
def remove (c : HCfg) (s : HashSet) (e : Option Nat) (m : Mem) : Stat × Option Nat × HashSet × Mem :=
  let r := s.table.remove c e m
  (r.1, r.2.1, { s with table := r.2.2.1 }, r.2.2.2)

/-- `cc_hashset_remove_all` -/
def removeAll (s : HashSet) (m : Mem) : HashSet × Mem :=
  let r := s.table.removeAll m
  ({ s with table := r.1 }, r.2)

/-- `cc_hashset_contains` -/
def contains (c : HCfg) (s : HashSet) (e : Option Nat) (m : Mem) : Bool × Mem := s.table.containsKey c e m

def size (s : HashSet) : Nat := s.table.size
def capacity (s : HashSet) : Nat := s.table.capacity

/-- `cc_hashset_foreach` -/
def foreach (s : HashSet) (m : Mem) : List (Option Nat) × Mem := s.table.foreachKey m

/-- `cc_hashset_iter_init` -/
def iterInit (s : HashSet) (m : Mem) : HIter × Mem := s.table.iterInit m

/-- `cc_hashset_iter_next`: the yielded element is the entry's key -/
def iterNext (s : HashSet) (it : HIter) (m : Mem) : Stat × Option (Option Nat) × HIter × Mem :=
  let r := s.table.iterNext it m
  (r.1, r.2.1.map (·.key), r.2.2.1, r.2.2.2)

/-- `cc_hashset_iter_remove` -/
def iterRemove (c : HCfg) (s : HashSet) (it : HIter) (m : Mem) : Stat × Option Nat × HashSet × HIter × Mem :=
  let r := s.table.iterRemove c it m
  (r.1, r.2.1, { s with table := r.2.2.1 }, r.2.2.2.1, r.2.2.2.2)

/-- the set held: the keys of the table -/
def abs (s : HashSet) : Spec.Set := Spec.Map.keys s.table.abs

/-- the table invariant, every stored value is the dummy, and header and table were given the same
allocator triple -/
def Inv (c : HCfg) (s : HashSet) : Prop :=
  s.table.Inv c ∧ (∀ e ∈ s.table.buckets.flatten, e.value = dummy) ∧ s.table.triple = s.triple

instance (c : HCfg) (s : HashSet) : Decidable (s.Inv c) := by unfold Inv; infer_instance

/-! ### histories -/
open Spec.Set (Op) in
/-- one call of the public API (the out-value of `remove`, the dummy, is dropped) -/
def step (c : HCfg) (s : HashSet) (op : Op) (m : Mem) : Spec.Map.Out × HashSet × Mem :=
  match op with
  | .add e => let r := s.add c e m; (⟨some r.1, none⟩, r.2.1, r.2.2)
  | .contains e => let r := s.contains c e m; (⟨none, some (if r.1 then 1 else 0)⟩, s, r.2)
  | .remove e => let r := s.remove c e m; (⟨some r.1, none⟩, r.2.2.1, r.2.2.2)
  | .removeAll => let r := s.removeAll m; (⟨none, none⟩, r.1, r.2)

open Spec.Set (Op) in
/-- the failure an insertion reported, if any -/
def failedOf (op : Op) (o : Spec.Map.Out) : Option Stat :=
  match op, o.st with
  | .add _, some .ok => none
  | .add _, st => st
  | _, _ => none

open Spec.Set (Op) in
def run (c : HCfg) (s : HashSet) (ops : List Op) (m : Mem) : List Spec.Map.Out × List (Option Stat) × HashSet × Mem :=
  match ops with
  | [] => ([], [], s, m)
  | op :: ops =>
    let r := s.step c op m
    let rs := run c r.2.1 ops r.2.2
    (r.1 :: rs.1, failedOf op r.1 :: rs.2.1, rs.2.2.1, rs.2.2.2)

end HashSet
end CC
