import CollectionsC.Base.Status
import CollectionsC.Base.Mem
import CollectionsC.Base.Buf
import CollectionsC.Model.BufFast
import CollectionsC.Spec.SeqSized
/-! Concrete model of `src/sized/cc_array_sized.c`: the fields of `struct cc_array_sized_s`
(`data_length`, `size`, `capacity`, the growth rule, the flat byte buffer) and the statements of
every function in the same order.  Bytes are `Nat`s (the harness only produces values < 256; no
theorem needs that bound).  Offsets are written as the macros expand them:
`INDEX(a, i + j)` is `a->data_length * i + j` (the macro is unhygienic) and `BUF_ADDR(a, i)` is
`&a->buffer[a->data_length * i]`.

* `grow c` is `(size_t)(c * exp_factor)`; the driver instantiates it with `Float32`.
* Elements handed in by the caller are byte lists `e`; the C code reads exactly `data_length`
  bytes from them (precondition of the API: the caller's buffer has that many bytes).
* Byte counts handed to the allocator (`capacity * data_length`) are natural numbers; the guards
  of `new_conf` and `expand_capacity` keep the product `≤ CC_MAX_ELEMENTS < 2^64` (it is part of
  `Inv`), so no `size_t` wrap-around is hidden by that.
* Every allocation and release goes through the triple stored in the struct (`triple`):
  `Mem.allocT`/`Mem.freeT`; derived arrays copy it where the C code copies the three pointers.
* A block obtained from `mem_alloc` is filled with `poison` (the harness allocator does that), a
  block from `mem_calloc` with 0. -/
namespace CC

structure ArraySized where
  dataLen  : Nat
  size     : Nat
  capacity : Nat
  grow     : Nat → Nat
  buf      : Buf Nat
  /-- the allocator triple `mem_alloc/mem_calloc/mem_free` the struct carries -/
  triple   : Triple := .conf

namespace ArraySized
open Gen

/-- `SIZE_MAX` -/
def sizeMax : Nat := CC_MAX_ELEMENTS + 1
/-- `x - 1` on `size_t` -/
def wdec (x : Nat) : Nat := if x = 0 then sizeMax else x - 1

def poison : Nat := 205
/-- content of a block fresh from `mem_alloc` -/
def fresh (n : Nat) : Buf Nat := List.replicate n poison

/-- the `dl` bytes at `BUF_ADDR(_, i)` of a buffer, i.e. what `memcpy(out, BUF_ADDR(ar, i), dl)`
stores in `out` -/
def chunkAt (dl : Nat) (b : Buf Nat) (i : Nat) : List Nat :=
  (List.range dl).map fun j => b.get (dl * i + j)

/-- linear-time version of `chunkAt` for the compiled driver (proved equal, `@[csimp]` below) -/
def chunkAtFast (dl : Nat) (b : Buf Nat) (i : Nat) : List Nat :=
  let t := (b.drop (dl * i)).take dl
  t ++ List.replicate (dl - t.length) 0

theorem chunkAt_eq_fast (dl : Nat) (b : Buf Nat) (i : Nat) : chunkAt dl b i = chunkAtFast dl b i := by
  unfold chunkAt chunkAtFast
  apply List.ext_getElem
  · simp; omega
  · intro j h1 h2
    have hj : j < dl := by simpa using h1
    simp only [List.getElem_map, List.getElem_range, Buf.get, List.getD_eq_getElem?_getD, List.getElem_append]
    split
    · rename_i hlt
      simp only [List.length_take, List.length_drop] at hlt
      rw [List.getElem_take, List.getElem_drop]
      have : dl * i + j < b.length := by omega
      simp [this]
    · rename_i hge
      simp only [List.length_take, List.length_drop] at hge
      have : b.length ≤ dl * i + j := by omega
      simp [List.getElem?_eq_none this]

end ArraySized
@[csimp] theorem ArraySized.chunkAt_csimp : @ArraySized.chunkAt = @ArraySized.chunkAtFast := by
  funext dl b i; exact ArraySized.chunkAt_eq_fast dl b i
namespace ArraySized
open Gen

def chunk (a : ArraySized) (i : Nat) : List Nat := chunkAt a.dataLen a.buf i

/-- abstraction: the stored elements as byte vectors -/
def abs (a : ArraySized) : List (List Nat) := (List.range a.size).map a.chunk

/-- representation invariant; the last conjunct (established by the guard of `new_conf`, kept by
the guard of `expand_capacity`) says that the buffer size in bytes fits `size_t` -/
def Inv (a : ArraySized) : Prop :=
  0 < a.dataLen ∧ 0 < a.capacity ∧ a.size ≤ a.capacity ∧ a.capacity * a.dataLen ≤ a.buf.length ∧
  a.capacity * a.dataLen ≤ CC_MAX_ELEMENTS

instance (a : ArraySized) : Decidable a.Inv := by unfold Inv; infer_instance

/-- `cc_array_sized_new_conf`; `exGe n` is the float comparison `ex >= n` on the effective
expansion factor.  The second guard (repair A9) rejects element size 0 and every capacity whose
buffer size in bytes `capacity * element_size` would exceed `CC_MAX_ELEMENTS` (so the product
handed to `mem_alloc` cannot wrap around `size_t`). -/
def new (dl cap : Nat) (grow : Nat → Nat) (exGe : Nat → Bool) (m : Mem) (t : Triple := .conf) :
    Stat × Option ArraySized × Mem :=
  if cap = 0 || exGe (CC_MAX_ELEMENTS / cap) then (.errInvalidCapacity, none, m) else
  if dl = 0 || cap > CC_MAX_ELEMENTS / dl then (.errInvalidCapacity, none, m) else
  let a1 := m.allocT t
  if !a1.1 then (.errAlloc, none, a1.2) else
  let a2 := a1.2.allocT t
  if !a2.1 then (.errAlloc, none, a2.2.freeT t) else
  (.ok, some { dataLen := dl, size := 0, capacity := cap, grow := grow, buf := fresh (cap * dl), triple := t }, a2.2)

/-- the configuration a derived array inherits: growth rule and allocator triple -/
def cfg (a : ArraySized) : (Nat → Nat) × Triple := (a.grow, a.triple)

/-- `cc_array_sized_destroy` -/
def destroy (a : ArraySized) (m : Mem) : Mem := (m.freeT a.triple).freeT a.triple

/-- the capacity `expand_capacity` asks for: the float product, or — when that made no progress
(overflow, or a factor too small at this capacity) — one more slot, resp. `CC_MAX_ELEMENTS` -/
def nextCapacity (a : ArraySized) : Nat :=
  let nc := a.grow a.capacity
  if nc ≤ a.capacity then
    (if a.capacity < CC_MAX_ELEMENTS / 2 then a.capacity + 1 else CC_MAX_ELEMENTS) else nc

/-- the array cannot grow any further: `CC_ERR_MAX_CAPACITY` -/
def AtLimit (a : ArraySized) : Prop :=
  a.capacity = CC_MAX_ELEMENTS ∨ CC_MAX_ELEMENTS / a.dataLen < a.nextCapacity

/-- `expand_capacity` (after repair A10: a new capacity whose buffer size in bytes would exceed
`CC_MAX_ELEMENTS` is refused with `CC_ERR_MAX_CAPACITY` before anything is allocated) -/
def expandCapacity (a : ArraySized) (m : Mem) : Stat × ArraySized × Mem :=
  if a.capacity = CC_MAX_ELEMENTS then (.errMaxCapacity, a, m) else
  let nc := a.nextCapacity
  let m := m.check (a.dataLen != 0)
  if nc > CC_MAX_ELEMENTS / a.dataLen then (.errMaxCapacity, a, m) else
  let al := m.allocT a.triple
  if !al.1 then (.errAlloc, a, al.2) else
  let nb := fresh (nc * a.dataLen)
  let m := al.2.check (a.size * a.dataLen ≤ nb.length && a.size * a.dataLen ≤ a.buf.length)
  let nb := nb.memcpy 0 a.buf 0 (a.size * a.dataLen)
  let m := m.freeT a.triple
  (.ok, { a with buf := nb, capacity := nc }, m)

/-- `cc_array_sized_add` -/
def add (a : ArraySized) (e : Buf Nat) (m : Mem) : Stat × ArraySized × Mem :=
  let r := if a.size ≥ a.capacity then expandCapacity a m else (.ok, a, m)
  if r.1 ≠ .ok then r else
  let a := r.2.1
  let m := r.2.2.check (a.dataLen * a.size + a.dataLen ≤ a.buf.length)
  (.ok, { a with buf := a.buf.memcpy (a.dataLen * a.size) e 0 a.dataLen, size := a.size + 1 }, m)

/-- `cc_array_sized_add_at` (`ar->size - 1` is only evaluated when `size ≠ 0`) -/
def addAt (a : ArraySized) (e : Buf Nat) (index : Nat) (m : Mem) : Stat × ArraySized × Mem :=
  if index = a.size then add a e m else
  if (a.size = 0 && index != 0) || index > a.size - 1 then (.errOutOfRange, a, m) else
  let r := if a.size ≥ a.capacity then expandCapacity a m else (.ok, a, m)
  if r.1 ≠ .ok then r else
  let a := r.2.1
  let shift := (a.size - index) * a.dataLen
  let m := r.2.2.check (a.dataLen * (index + 1) + shift ≤ a.buf.length && a.dataLen * index + shift ≤ a.buf.length)
  let b := a.buf.memmove (a.dataLen * (index + 1)) (a.dataLen * index) shift
  let m := m.check (a.dataLen * index + a.dataLen ≤ b.length)
  let b := b.memcpy (a.dataLen * index) e 0 a.dataLen
  (.ok, { a with buf := b, size := a.size + 1 }, m)

/-- `cc_array_sized_replace_at` (the model always computes the out-value; with `out == NULL`
the C code skips that copy) -/
def replaceAt (a : ArraySized) (e : Buf Nat) (index : Nat) (m : Mem) :
    Stat × Option (List Nat) × ArraySized × Mem :=
  if index ≥ a.size then (.errOutOfRange, none, a, m) else
  let m := m.check (a.dataLen * index + a.dataLen ≤ a.buf.length)
  let out := a.chunk index
  (.ok, some out, { a with buf := a.buf.memcpy (a.dataLen * index) e 0 a.dataLen }, m)

/-- the byte loop of `cc_array_sized_swap_at`; `f` = iterations left, `i` = loop variable -/
def swapLoop (dl i1 i2 : Nat) : Nat → Nat → Buf Nat → Mem → Buf Nat × Mem
  | 0, _, b, m => (b, m)
  | f + 1, i, b, m =>
    let m := m.check (dl * i1 + i < b.length && dl * i2 + i < b.length)
    let tmp := b.get (dl * i1 + i)
    let b := b.put (dl * i1 + i) (b.get (dl * i2 + i))
    let b := b.put (dl * i2 + i) tmp
    swapLoop dl i1 i2 f (i + 1) b m

/-- `cc_array_sized_swap_at` -/
def swapAt (a : ArraySized) (i1 i2 : Nat) (m : Mem) : Stat × ArraySized × Mem :=
  if i1 ≥ a.size || i2 ≥ a.size then (.errOutOfRange, a, m) else
  let r := swapLoop a.dataLen i1 i2 a.dataLen 0 a.buf m
  (.ok, { a with buf := r.1 }, r.2)

/-- inner loop of `index_of`/`contains`: compares element `i` with `e` byte by byte from byte
`j` on; `true` = reached `j == data_length - 1` with all bytes equal -/
def cmpLoop (a : ArraySized) (e : Buf Nat) (i : Nat) : Nat → Nat → Mem → Bool × Mem
  | 0, _, m => (false, m)
  | f + 1, j, m =>
    let m := m.check (a.dataLen * i + j < a.buf.length)
    if a.buf.get (a.dataLen * i + j) != e.get j then (false, m)
    else if j = a.dataLen - 1 then (true, m)
    else cmpLoop a e i f (j + 1) m

/-- outer loop of `cc_array_sized_index_of` -/
def indexOfLoop (a : ArraySized) (e : Buf Nat) : Nat → Nat → Mem → Option Nat × Mem
  | 0, _, m => (none, m)
  | f + 1, i, m =>
    let r := cmpLoop a e i a.dataLen 0 m
    if r.1 then (some i, r.2) else indexOfLoop a e f (i + 1) r.2

/-- `cc_array_sized_index_of` -/
def indexOf (a : ArraySized) (e : Buf Nat) (m : Mem) : Stat × Option Nat × Mem :=
  let r := indexOfLoop a e a.size 0 m
  match r.1 with
  | some i => (.ok, some i, r.2)
  | none => (.errOutOfRange, none, r.2)

/-- outer loop of `cc_array_sized_contains` -/
def containsLoop (a : ArraySized) (e : Buf Nat) : Nat → Nat → Nat → Mem → Nat × Mem
  | 0, _, o, m => (o, m)
  | f + 1, i, o, m =>
    let r := cmpLoop a e i a.dataLen 0 m
    containsLoop a e f (i + 1) (if r.1 then o + 1 else o) r.2

/-- `cc_array_sized_contains` -/
def contains (a : ArraySized) (e : Buf Nat) (m : Mem) : Nat × Mem := containsLoop a e a.size 0 0 m

/-- the common tail of `remove` and `remove_at` -/
def removeShift (a : ArraySized) (index : Nat) (m : Mem) : ArraySized × Mem :=
  if index ≠ a.size - 1 then
    let blockSize := (a.size - 1 - index) * a.dataLen
    let m := m.check (a.dataLen * index + blockSize ≤ a.buf.length && a.dataLen * (index + 1) + blockSize ≤ a.buf.length)
    ({ a with buf := a.buf.memmove (a.dataLen * index) (a.dataLen * (index + 1)) blockSize, size := a.size - 1 }, m)
  else ({ a with size := a.size - 1 }, m)

/-- `cc_array_sized_remove` -/
def remove (a : ArraySized) (e : Buf Nat) (m : Mem) : Stat × ArraySized × Mem :=
  let r := indexOf a e m
  match r.2.1 with
  | none => (.errValueNotFound, a, r.2.2)
  | some index => let s := removeShift a index r.2.2; (.ok, s.1, s.2)

/-- `cc_array_sized_remove_at` -/
def removeAt (a : ArraySized) (index : Nat) (m : Mem) : Stat × Option (List Nat) × ArraySized × Mem :=
  if index ≥ a.size then (.errOutOfRange, none, a, m) else
  let m := m.check (a.dataLen * index + a.dataLen ≤ a.buf.length)
  let out := a.chunk index
  let s := removeShift a index m
  (.ok, some out, s.1, s.2)

/-- `cc_array_sized_remove_last`: `remove_at(ar, ar->size - 1, out)` with `size_t` wrap-around -/
def removeLast (a : ArraySized) (m : Mem) : Stat × Option (List Nat) × ArraySized × Mem :=
  removeAt a (wdec a.size) m

/-- `cc_array_sized_remove_all` -/
def removeAll (a : ArraySized) : ArraySized := { a with size := 0 }

/-- `cc_array_sized_get_at` -/
def getAt (a : ArraySized) (index : Nat) (m : Mem) : Stat × Option (List Nat) × Mem :=
  if index ≥ a.size then (.errOutOfRange, none, m) else
  let m := m.check (a.dataLen * index + a.dataLen ≤ a.buf.length)
  (.ok, some (a.chunk index), m)

/-- `cc_array_sized_get_last` -/
def getLast (a : ArraySized) (m : Mem) : Stat × Option (List Nat) × Mem :=
  if a.size = 0 then (.errValueNotFound, none, m) else getAt a (a.size - 1) m

/-- `cc_array_sized_peek`: the pointer `BUF_ADDR(ar, index)`, observed by reading through it -/
def peek (a : ArraySized) (index : Nat) (m : Mem) : Stat × Option (List Nat) × Mem :=
  if index ≥ a.size then (.errOutOfRange, none, m) else
  let m := m.check (a.dataLen * index + a.dataLen ≤ a.buf.length)
  (.ok, some (a.chunk index), m)

/-- loop of `cc_array_sized_reverse`; `tmp` is the caller's scratch buffer -/
def reverseLoop (dl : Nat) : Nat → Nat → Nat → Buf Nat → Mem → Buf Nat × Mem
  | 0, _, _, b, m => (b, m)
  | f + 1, i, j, b, m =>
    let m := m.check (dl * i + dl ≤ b.length && dl * j + dl ≤ b.length)
    let tmp := chunkAt dl b i
    let b := b.memcpy (dl * i) b (dl * j) dl
    let b := b.memcpy (dl * j) tmp 0 dl
    reverseLoop dl f (i + 1) (j - 1) b m

/-- `cc_array_sized_reverse` -/
def reverse (a : ArraySized) (m : Mem) : ArraySized × Mem :=
  if a.size = 0 then (a, m) else
  let r := reverseLoop a.dataLen (a.size / 2) 0 (a.size - 1) a.buf m
  ({ a with buf := r.1 }, r.2)

/-- `cc_array_sized_trim_capacity` -/
def trimCapacity (a : ArraySized) (m : Mem) : Stat × ArraySized × Mem :=
  if a.size = a.capacity then (.ok, a, m) else
  let size := if a.size < 1 then 1 else a.size
  if size = a.capacity then (.ok, a, m) else
  let al := m.allocT a.triple
  if !al.1 then (.errAlloc, a, al.2) else
  let nb : Buf Nat := Buf.mk (size * a.dataLen)
  let m := al.2.check (a.size * a.dataLen ≤ nb.length && a.size * a.dataLen ≤ a.buf.length)
  let nb := nb.memcpy 0 a.buf 0 (a.size * a.dataLen)
  let m := m.freeT a.triple
  (.ok, { a with buf := nb, capacity := size }, m)

/-- state of the `filter_mut` loop -/
structure FM where
  rm   : Nat
  keep : Nat
  size : Nat
  buf  : Buf Nat
  mem  : Mem
  log  : List (List Nat)

/-- the descending loop of `cc_array_sized_filter_mut`; first argument `i + 1` means the body
runs for index `i` next, `0` means the loop variable wrapped to `(size_t)-1` -/
def filterMutLoop (p : List Nat → Bool) (dl : Nat) : Nat → FM → FM
  | 0, s => s
  | i + 1, s =>
    let m := s.mem.check (dl * i + dl ≤ s.buf.length)
    let c := chunkAt dl s.buf i
    let log := s.log ++ [c]
    if !p c then filterMutLoop p dl i { s with rm := s.rm + 1, mem := m, log := log } else
    if s.rm > 0 then
      if s.keep > 0 then
        let blockSize := s.keep * dl
        let m := m.check (dl * (i + 1) + blockSize ≤ s.buf.length && dl * (i + 1 + s.rm) + blockSize ≤ s.buf.length)
        let b := s.buf.memmove (dl * (i + 1)) (dl * (i + 1 + s.rm)) blockSize
        filterMutLoop p dl i { rm := 0, keep := s.keep + 1, size := s.size - s.rm, buf := b, mem := m, log := log }
      else
        filterMutLoop p dl i { rm := 0, keep := s.keep + 1, size := s.size - s.rm, buf := s.buf, mem := m, log := log }
    else filterMutLoop p dl i { s with keep := s.keep + 1, mem := m, log := log }

/-- `cc_array_sized_filter_mut`; returns the elements shown to the predicate in call order -/
def filterMut (a : ArraySized) (p : List Nat → Bool) (m : Mem) : Stat × List (List Nat) × ArraySized × Mem :=
  if a.size = 0 then (.errOutOfRange, [], a, m) else
  let s := filterMutLoop p a.dataLen a.size { rm := 0, keep := 0, size := a.size, buf := a.buf, mem := m, log := [] }
  if s.rm > 0 then
    let blockSize := s.keep * a.dataLen
    let m := s.mem.check (a.dataLen * 0 + blockSize ≤ s.buf.length && a.dataLen * s.rm + blockSize ≤ s.buf.length)
    (.ok, s.log, { a with buf := s.buf.memmove (a.dataLen * 0) (a.dataLen * s.rm) blockSize, size := s.size - s.rm }, m)
  else (.ok, s.log, { a with buf := s.buf, size := s.size }, s.mem)

/-- loop of `cc_array_sized_map`: `fn(BUF_ADDR(ar, i))` may rewrite the element in place -/
def mapLoop (fn : List Nat → List Nat) (dl : Nat) : Nat → Nat → Buf Nat → Mem → List (List Nat) → Buf Nat × Mem × List (List Nat)
  | 0, _, b, m, log => (b, m, log)
  | f + 1, i, b, m, log =>
    let m := m.check (dl * i + dl ≤ b.length)
    let c := chunkAt dl b i
    mapLoop fn dl f (i + 1) (b.memcpy (dl * i) (fn c) 0 dl) m (log ++ [c])

/-- `cc_array_sized_map` -/
def map (a : ArraySized) (fn : List Nat → List Nat) (m : Mem) : List (List Nat) × ArraySized × Mem :=
  let r := mapLoop fn a.dataLen a.size 0 a.buf m []
  (r.2.2, { a with buf := r.1 }, r.2.1)

/-- the `for (i = 2; …)` loop of `cc_array_sized_reduce` -/
def reduceLoop (a : ArraySized) (fn : List Nat → Option (List Nat) → List Nat → List Nat) :
    Nat → Nat → List Nat → Mem → List (List Nat × Option (List Nat)) → List Nat × Mem × List (List Nat × Option (List Nat))
  | 0, _, r, m, log => (r, m, log)
  | f + 1, i, r, m, log =>
    let m := m.check (a.dataLen * i + a.dataLen ≤ a.buf.length)
    reduceLoop a fn f (i + 1) (fn r (some (a.chunk i)) r) m (log ++ [(r, some (a.chunk i))])

/-- `cc_array_sized_reduce`; `r0` = initial content of the caller's result buffer -/
def reduce (a : ArraySized) (fn : List Nat → Option (List Nat) → List Nat → List Nat) (r0 : List Nat) (m : Mem) :
    List Nat × List (List Nat × Option (List Nat)) × Mem :=
  if a.size = 1 then
    let m := m.check (a.dataLen * 0 + a.dataLen ≤ a.buf.length)
    (fn (a.chunk 0) none r0, [(a.chunk 0, none)], m)
  else
  let s : List Nat × Mem × List (List Nat × Option (List Nat)) :=
    if a.size > 1 then
      let m := m.check (a.dataLen * 1 + a.dataLen ≤ a.buf.length)
      (fn (a.chunk 0) (some (a.chunk 1)) r0, m, [(a.chunk 0, some (a.chunk 1))])
    else (r0, m, [])
  let r := reduceLoop a fn (a.size - 2) 2 s.1 s.2.1 s.2.2
  (r.1, r.2.2, r.2.1)

/-- write-back of `qsort`'s result: element `i` of the sorted sequence ends up at `BUF_ADDR(ar, i)` -/
def writeAll (dl : Nat) : List (List Nat) → Nat → Buf Nat → Buf Nat
  | [], _, b => b
  | c :: cs, i, b => writeAll dl cs (i + 1) (b.memcpy (dl * i) c 0 dl)

/-- `cc_array_sized_sort`: `qsort(buffer, size, data_length, cmp)` with the assumed behaviour
`sortFn` of `qsort` on the sequence of records; `qsort` reads and writes exactly the first
`size * data_length` bytes of the buffer (checked) -/
def sort (a : ArraySized) (sortFn : List (List Nat) → List (List Nat)) (m : Mem) : ArraySized × Mem :=
  let m := m.check (a.size * a.dataLen ≤ a.buf.length)
  ({ a with buf := writeAll a.dataLen (sortFn a.abs) 0 a.buf }, m)

/-! ## derived containers -/

/-- `cc_array_sized_subarray` -/
def subarray (a : ArraySized) (b e : Nat) (m : Mem) : Stat × Option ArraySized × Mem :=
  if b > e || e ≥ a.size then (.errInvalidRange, none, m) else
  let a1 := m.allocT a.triple
  if !a1.1 then (.errAlloc, none, a1.2) else
  let a2 := a1.2.allocT a.triple
  if !a2.1 then (.errAlloc, none, a2.2.freeT a.triple) else
  let nb := fresh (a.capacity * a.dataLen)
  let size := e - b + 1
  let m := a2.2.check (size * a.dataLen ≤ nb.length && a.dataLen * b + size * a.dataLen ≤ a.buf.length)
  (.ok, some { dataLen := a.dataLen, size := size, capacity := size, grow := a.grow,
               buf := nb.memcpy 0 a.buf (a.dataLen * b) (size * a.dataLen), triple := a.triple }, m)

/-- `cc_array_sized_copy` -/
def copy (a : ArraySized) (m : Mem) : Stat × Option ArraySized × Mem :=
  let a1 := m.allocT a.triple
  if !a1.1 then (.errAlloc, none, a1.2) else
  let a2 := a1.2.allocT a.triple
  if !a2.1 then (.errAlloc, none, a2.2.freeT a.triple) else
  let nb : Buf Nat := Buf.mk (a.capacity * a.dataLen)
  let m := a2.2.check (a.size * a.dataLen ≤ nb.length && a.size * a.dataLen ≤ a.buf.length)
  (.ok, some { a with buf := nb.memcpy 0 a.buf 0 (a.size * a.dataLen) }, m)

/-- loop of `cc_array_sized_filter`; `fb`/`fsize` = buffer and size of the result -/
def filterLoop (a : ArraySized) (p : List Nat → Bool) : Nat → Nat → Buf Nat → Nat → Mem → List (List Nat) →
    Buf Nat × Nat × Mem × List (List Nat)
  | 0, _, fb, fsize, m, log => (fb, fsize, m, log)
  | f + 1, i, fb, fsize, m, log =>
    let m := m.check (a.dataLen * i + a.dataLen ≤ a.buf.length)
    let c := a.chunk i
    if p c then
      let m := m.check (a.dataLen * fsize + a.dataLen ≤ fb.length)
      filterLoop a p f (i + 1) (fb.memcpy (a.dataLen * fsize) a.buf (a.dataLen * i) a.dataLen) (fsize + 1) m (log ++ [c])
    else filterLoop a p f (i + 1) fb fsize m (log ++ [c])

/-- `cc_array_sized_filter` (the result index `f` and `filtered->size` advance together) -/
def filter (a : ArraySized) (p : List Nat → Bool) (m : Mem) : Stat × List (List Nat) × Option ArraySized × Mem :=
  if a.size = 0 then (.errOutOfRange, [], none, m) else
  let a1 := m.allocT a.triple
  if !a1.1 then (.errAlloc, [], none, a1.2) else
  let a2 := a1.2.allocT a.triple
  if !a2.1 then (.errAlloc, [], none, a2.2.freeT a.triple) else
  let nb : Buf Nat := Buf.mk (a.capacity * a.dataLen)
  let r := filterLoop a p a.size 0 nb 0 a2.2 []
  (.ok, r.2.2.2, some { a with buf := r.1, size := r.2.1 }, r.2.2.1)

/-! ## iterators -/

structure Iter where
  index : Nat := 0
  lastRemoved : Bool := false
  deriving Repr, DecidableEq

/-- `cc_array_sized_iter_next` -/
def iterNext (it : Iter) (a : ArraySized) (m : Mem) : Stat × Option (List Nat) × Iter × Mem :=
  if it.index ≥ a.size then (.iterEnd, none, it, m) else
  let m := m.check (a.dataLen * it.index + a.dataLen ≤ a.buf.length)
  (.ok, some (a.chunk it.index), { index := it.index + 1, lastRemoved := false }, m)

/-- `cc_array_sized_iter_remove` -/
def iterRemove (it : Iter) (a : ArraySized) (m : Mem) : Stat × Option (List Nat) × Iter × ArraySized × Mem :=
  if !it.lastRemoved then
    let r := removeAt a (wdec it.index) m
    if r.1 = .ok then (r.1, r.2.1, { index := wdec it.index, lastRemoved := true }, r.2.2.1, r.2.2.2)
    else (r.1, r.2.1, it, r.2.2.1, r.2.2.2)
  else (.errValueNotFound, none, it, a, m)

/-- `cc_array_sized_iter_add` -/
def iterAdd (it : Iter) (a : ArraySized) (e : Buf Nat) (m : Mem) : Stat × Iter × ArraySized × Mem :=
  let r := addAt a e it.index m
  if r.1 = .ok then (r.1, { it with index := it.index + 1 }, r.2.1, r.2.2) else (r.1, it, r.2.1, r.2.2)

/-- `cc_array_sized_iter_replace` -/
def iterReplace (it : Iter) (a : ArraySized) (e : Buf Nat) (m : Mem) : Stat × Option (List Nat) × ArraySized × Mem :=
  replaceAt a e (wdec it.index) m

/-- `cc_array_sized_iter_index` -/
def iterIndex (it : Iter) : Nat := wdec it.index

/-- the loop of `CC_ARRAY_SIZED_FOREACH`: `while (iter_next(&it, &val) != CC_ITER_END) body`,
collecting the elements handed to the body (`f` bounds the number of rounds) -/
def foreachGo (a : ArraySized) : Nat → Iter → Mem → List (List Nat) → List (List Nat) × Mem
  | 0, _, m, acc => (acc, m)
  | f + 1, it, m, acc =>
    let r := iterNext it a m
    match r.2.1 with
    | some c => foreachGo a f r.2.2.1 r.2.2.2 (acc ++ [c])
    | none => (acc, r.2.2.2)

/-- `CC_ARRAY_SIZED_FOREACH` with a body that does not touch the array -/
def foreach (a : ArraySized) (m : Mem) : List (List Nat) × Mem := foreachGo a (a.size + 1) {} m []

/-- `cc_array_sized_zip_iter_next` -/
def zipNext (it : Iter) (a1 a2 : ArraySized) (m : Mem) : Stat × Option (List Nat × List Nat) × Iter × Mem :=
  if it.index ≥ a1.size || it.index ≥ a2.size then (.iterEnd, none, it, m) else
  let m := m.check (a1.dataLen * it.index + a1.dataLen ≤ a1.buf.length && a2.dataLen * it.index + a2.dataLen ≤ a2.buf.length)
  (.ok, some (a1.chunk it.index, a2.chunk it.index), { index := it.index + 1, lastRemoved := false }, m)

/-- `cc_array_sized_zip_iter_remove` -/
def zipRemove (it : Iter) (a1 a2 : ArraySized) (m : Mem) :
    Stat × Option (List Nat × List Nat) × Iter × ArraySized × ArraySized × Mem :=
  if wdec it.index ≥ a1.size || wdec it.index ≥ a2.size then (.errOutOfRange, none, it, a1, a2, m) else
  if !it.lastRemoved then
    let r1 := removeAt a1 (wdec it.index) m
    let r2 := removeAt a2 (wdec it.index) r1.2.2.2
    (.ok, some (r1.2.1.getD [], r2.2.1.getD []), { index := wdec it.index, lastRemoved := true }, r1.2.2.1, r2.2.2.1, r2.2.2.2)
  else (.errValueNotFound, none, it, a1, a2, m)

/-- `cc_array_sized_zip_iter_add` (after repairs A8 and A11): the two growth checks short-circuit left
to right and return `CC_ERR_ALLOC` without touching the cursor; then `add_at` on the first array (a
failure is returned), `add_at` on the second one (on failure the first element is taken out again
with `remove_at(ar1, index, NULL)` and the failure is returned — both or none); the cursor is
advanced last -/
def zipAdd (it : Iter) (a1 a2 : ArraySized) (e1 e2 : Buf Nat) (m : Mem) : Stat × Iter × ArraySized × ArraySized × Mem :=
  let index := it.index
  let x1 := if a1.size = a1.capacity then expandCapacity a1 m else (.ok, a1, m)
  if x1.1 ≠ .ok then (.errAlloc, it, x1.2.1, a2, x1.2.2) else
  let x2 := if a2.size = a2.capacity then expandCapacity a2 x1.2.2 else (.ok, a2, x1.2.2)
  if x2.1 ≠ .ok then (.errAlloc, it, x1.2.1, x2.2.1, x2.2.2) else
  let r1 := addAt x1.2.1 e1 index x2.2.2
  if r1.1 ≠ .ok then (r1.1, it, r1.2.1, x2.2.1, r1.2.2) else
  let r2 := addAt x2.2.1 e2 index r1.2.2
  if r2.1 ≠ .ok then
    let u := removeAt r1.2.1 index r2.2.2
    (r2.1, it, u.2.2.1, r2.2.1, u.2.2.2)
  else (.ok, { it with index := it.index + 1 }, r1.2.1, r2.2.1, r2.2.2)

/-- `cc_array_sized_zip_iter_replace` -/
def zipReplace (it : Iter) (a1 a2 : ArraySized) (e1 e2 : Buf Nat) (m : Mem) :
    Stat × Option (List Nat × List Nat) × ArraySized × ArraySized × Mem :=
  if wdec it.index ≥ a1.size || wdec it.index ≥ a2.size then (.errOutOfRange, none, a1, a2, m) else
  let r1 := replaceAt a1 e1 (wdec it.index) m
  let r2 := replaceAt a2 e2 (wdec it.index) r1.2.2.2
  (.ok, some (r1.2.1.getD [], r2.2.1.getD []), r1.2.2.1, r2.2.2.1, r2.2.2.2)

/-! ### a zip iterator whose two sides are the *same* array (`ar1 == ar2`): the C functions run
unchanged, so the second half of every call sees what the first half did to the array -/

/-- `zip_iter_remove(a, a)`: two `remove_at(index - 1)` calls on the same array; the second one removes
the element that moved into the gap, or is rejected (its status is ignored and `out2` stays as the
caller left it) when the first removal took the last element -/
def zipRemoveSame (it : Iter) (a : ArraySized) (m : Mem) : Stat × Option (List Nat × List Nat) × Iter × ArraySized × Mem :=
  if wdec it.index ≥ a.size || wdec it.index ≥ a.size then (.errOutOfRange, none, it, a, m) else
  if !it.lastRemoved then
    let r1 := removeAt a (wdec it.index) m
    let r2 := removeAt r1.2.2.1 (wdec it.index) r1.2.2.2
    (.ok, some (r1.2.1.getD [], r2.2.1.getD []), { index := wdec it.index, lastRemoved := true }, r2.2.2.1, r2.2.2.2)
  else (.errValueNotFound, none, it, a, m)

/-- `zip_iter_add(a, a, e1, e2)`: one growth check (the second is the same test on the same array),
then two `add_at(index)` calls on the same array; the second one may itself have to grow the array,
and when that is refused the first element is taken out again (A11) -/
def zipAddSame (it : Iter) (a : ArraySized) (e1 e2 : Buf Nat) (m : Mem) : Stat × Iter × ArraySized × Mem :=
  let index := it.index
  let x1 := if a.size = a.capacity then expandCapacity a m else (.ok, a, m)
  if x1.1 ≠ .ok then (.errAlloc, it, x1.2.1, x1.2.2) else
  let x2 := if x1.2.1.size = x1.2.1.capacity then expandCapacity x1.2.1 x1.2.2 else (.ok, x1.2.1, x1.2.2)
  if x2.1 ≠ .ok then (.errAlloc, it, x2.2.1, x2.2.2) else
  let r1 := addAt x2.2.1 e1 index x2.2.2
  if r1.1 ≠ .ok then (r1.1, it, r1.2.1, r1.2.2) else
  let r2 := addAt r1.2.1 e2 index r1.2.2
  if r2.1 ≠ .ok then
    let u := removeAt r2.2.1 index r2.2.2
    (r2.1, it, u.2.2.1, u.2.2.2)
  else (.ok, { it with index := it.index + 1 }, r2.2.1, r2.2.2)

/-- `zip_iter_replace(a, a, e1, e2)`: two `replace_at(index - 1)` calls on the same array -/
def zipReplaceSame (it : Iter) (a : ArraySized) (e1 e2 : Buf Nat) (m : Mem) :
    Stat × Option (List Nat × List Nat) × ArraySized × Mem :=
  if wdec it.index ≥ a.size || wdec it.index ≥ a.size then (.errOutOfRange, none, a, m) else
  let r1 := replaceAt a e1 (wdec it.index) m
  let r2 := replaceAt r1.2.2.1 e2 (wdec it.index) r1.2.2.2
  (.ok, some (r1.2.1.getD [], r2.2.1.getD []), r2.2.2.1, r2.2.2.2)

/-! ## histories over the core API -/
abbrev Elem := List Nat
open Spec.SSeq (Op Out)

def step (a : ArraySized) (op : Op Elem) (m : Mem) : Out Elem × ArraySized × Mem :=
  match op with
  | .add x => let r := a.add x m; ({ st := some r.1 }, r.2.1, r.2.2)
  | .addAt x i => let r := a.addAt x i m; ({ st := some r.1 }, r.2.1, r.2.2)
  | .replaceAt x i => let r := a.replaceAt x i m; ({ st := some r.1, val := r.2.1 }, r.2.2.1, r.2.2.2)
  | .swapAt i j => let r := a.swapAt i j m; ({ st := some r.1 }, r.2.1, r.2.2)
  | .remove x => let r := a.remove x m; ({ st := some r.1 }, r.2.1, r.2.2)
  | .removeAt i => let r := a.removeAt i m; ({ st := some r.1, val := r.2.1 }, r.2.2.1, r.2.2.2)
  | .removeLast => let r := a.removeLast m; ({ st := some r.1, val := r.2.1 }, r.2.2.1, r.2.2.2)
  | .removeAll => ({}, a.removeAll, m)
  | .reverse => let r := a.reverse m; ({}, r.1, r.2)
  | .filterMut p => let r := a.filterMut p m; ({ st := some r.1, cb := r.2.1.map (·, none) }, r.2.2.1, r.2.2.2)
  | .trim => let r := a.trimCapacity m; ({ st := some r.1 }, r.2.1, r.2.2)
  | .getAt i => let r := a.getAt i m; ({ st := some r.1, val := r.2.1 }, a, r.2.2)
  | .getLast => let r := a.getLast m; ({ st := some r.1, val := r.2.1 }, a, r.2.2)
  | .peek i => let r := a.peek i m; ({ st := some r.1, val := r.2.1 }, a, r.2.2)
  | .indexOf x => let r := a.indexOf x m; ({ st := some r.1, num := r.2.1 }, a, r.2.2)
  | .contains x => let r := a.contains x m; ({ num := some r.1 }, a, r.2)
  | .map f => let r := a.map f m; ({ cb := r.1.map (·, none) }, r.2.1, r.2.2)
  | .reduce fn r0 => let r := a.reduce fn r0 m; ({ val := some r.1, cb := r.2.1 }, a, r.2.2)
  | .sort sortFn => let r := a.sort sortFn m; ({}, r.1, r.2)

/-- which refusal the environment inflicted on this call (read off the status) -/
def refusal (a : ArraySized) (op : Op Elem) (m : Mem) : Option Stat :=
  match (a.step op m).1.st with
  | some .errAlloc => some .errAlloc
  | some .errMaxCapacity => some .errMaxCapacity
  | _ => none

def run (a : ArraySized) : List (Op Elem) → Mem → List (Out Elem) × ArraySized × Mem
  | [], m => ([], a, m)
  | op :: ops, m =>
    let r := a.step op m
    let t := run r.2.1 ops r.2.2
    (r.1 :: t.1, t.2.1, t.2.2)

def refusals (a : ArraySized) : List (Op Elem) → Mem → List (Option Stat)
  | [], _ => []
  | op :: ops, m => a.refusal op m :: refusals (a.step op m).2.1 ops (a.step op m).2.2

/-- successive `add` calls (the append-dominated histories of C20) -/
def addAll (a : ArraySized) : List (Buf Nat) → Mem → ArraySized × Mem
  | [], m => (a, m)
  | x :: xs, m => addAll (a.add x m).2.1 xs (a.add x m).2.2

/-- one call of the iterator API on `(it, a)` -/
def iterStep (it : Iter) (a : ArraySized) (cmd : Spec.SSeq.IterCmd Elem) (m : Mem) : Out Elem × Iter × ArraySized × Mem :=
  match cmd with
  | .next => let r := a.iterNext it m; ({ st := some r.1, val := r.2.1 }, r.2.2.1, a, r.2.2.2)
  | .remove => let r := a.iterRemove it m; ({ st := some r.1, val := r.2.1 }, r.2.2.1, r.2.2.2.1, r.2.2.2.2)
  | .add x => let r := a.iterAdd it x m; ({ st := some r.1 }, r.2.1, r.2.2.1, r.2.2.2)
  | .replace x => let r := a.iterReplace it x m; ({ st := some r.1, val := r.2.1 }, it, r.2.2.1, r.2.2.2)
  | .index => ({ num := some (iterIndex it) }, it, a, m)

def iterRefusal (it : Iter) (a : ArraySized) (cmd : Spec.SSeq.IterCmd Elem) (m : Mem) : Option Stat :=
  match (iterStep it a cmd m).1.st with
  | some .errAlloc => some .errAlloc
  | some .errMaxCapacity => some .errMaxCapacity
  | _ => none

def iterRun (it : Iter) (a : ArraySized) : List (Spec.SSeq.IterCmd Elem) → Mem → List (Out Elem) × Iter × ArraySized × Mem
  | [], m => ([], it, a, m)
  | cmd :: cmds, m =>
    let r := iterStep it a cmd m
    let t := iterRun r.2.1 r.2.2.1 cmds r.2.2.2
    (r.1 :: t.1, t.2.1, t.2.2.1, t.2.2.2)

def iterRefusals (it : Iter) (a : ArraySized) : List (Spec.SSeq.IterCmd Elem) → Mem → List (Option Stat)
  | [], _ => []
  | cmd :: cmds, m =>
    iterRefusal it a cmd m ::
      iterRefusals (iterStep it a cmd m).2.1 (iterStep it a cmd m).2.2.1 cmds (iterStep it a cmd m).2.2.2

/-- one call of the zip-iterator API on `(it, a1, a2)` (two distinct arrays) -/
def zipStep (it : Iter) (a1 a2 : ArraySized) (cmd : Spec.SSeq.ZipCmd Elem) (m : Mem) :
    Spec.SSeq.ZOut Elem × Iter × ArraySized × ArraySized × Mem :=
  match cmd with
  | .next => let r := zipNext it a1 a2 m; ({ st := some r.1, val := r.2.1 }, r.2.2.1, a1, a2, r.2.2.2)
  | .remove => let r := zipRemove it a1 a2 m; ({ st := some r.1, val := r.2.1 }, r.2.2.1, r.2.2.2.1, r.2.2.2.2.1, r.2.2.2.2.2)
  | .add x y => let r := zipAdd it a1 a2 x y m; ({ st := some r.1 }, r.2.1, r.2.2.1, r.2.2.2.1, r.2.2.2.2)
  | .replace x y => let r := zipReplace it a1 a2 x y m; ({ st := some r.1, val := r.2.1 }, it, r.2.2.1, r.2.2.2.1, r.2.2.2.2)
  | .index => ({ num := some (iterIndex it) }, it, a1, a2, m)

def zipRefusal (it : Iter) (a1 a2 : ArraySized) (cmd : Spec.SSeq.ZipCmd Elem) (m : Mem) : Option Stat :=
  match cmd, (zipStep it a1 a2 cmd m).1.st with
  | .add _ _, some .ok => none
  | .add _ _, some s => some s
  | _, _ => none

def zipRun (it : Iter) (a1 a2 : ArraySized) : List (Spec.SSeq.ZipCmd Elem) → Mem →
    List (Spec.SSeq.ZOut Elem) × Iter × ArraySized × ArraySized × Mem
  | [], m => ([], it, a1, a2, m)
  | cmd :: cmds, m =>
    let r := zipStep it a1 a2 cmd m
    let t := zipRun r.2.1 r.2.2.1 r.2.2.2.1 cmds r.2.2.2.2
    (r.1 :: t.1, t.2.1, t.2.2.1, t.2.2.2.1, t.2.2.2.2)

def zipRefusals (it : Iter) (a1 a2 : ArraySized) : List (Spec.SSeq.ZipCmd Elem) → Mem → List (Option Stat)
  | [], _ => []
  | cmd :: cmds, m =>
    zipRefusal it a1 a2 cmd m ::
      zipRefusals (zipStep it a1 a2 cmd m).2.1 (zipStep it a1 a2 cmd m).2.2.1 (zipStep it a1 a2 cmd m).2.2.2.1 cmds
        (zipStep it a1 a2 cmd m).2.2.2.2

/-- documented preconditions of one call: element arguments are buffers of `data_length` bytes,
`map`'s function rewrites an element in place (same size), `sort`'s `qsort` rearranges -/
def OpWF (dl : Nat) : Op Elem → Prop
  | .add x | .addAt x _ | .replaceAt x _ | .remove x | .indexOf x | .contains x => x.length = dl
  | .map f => ∀ c : List Nat, c.length = dl → (f c).length = dl
  | .sort sortFn => ∀ l, (sortFn l).Perm l
  | _ => True

end ArraySized
end CC
