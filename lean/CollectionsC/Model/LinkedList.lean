import CollectionsC.Model.Chain
import CollectionsC.Spec.LSeq
/-! Concrete model of `src/cc_list.c` (doubly linked list) on the `Chain` state of
`Model/Chain.lean`: the same branches and the same assignments to `size`/`head`/`tail` in the same
order, one `m.allocT l.triple` per `list->mem_calloc`, one `m.freeT l.triple` per `list->mem_free`
(each list uses the triple stored in its own header), a `m.check` where a node
pointer is dereferenced.  Comparators, predicates, copy functions and `qsort` are parameters. -/
namespace CC.DList
open CC

/-- `cc_list_new_conf` -/
def new (t : Triple) (m : Mem) : Stat × Option Chain × Mem :=
  let a := m.allocT t
  if !a.1 then (.errAlloc, none, a.2) else (.ok, some { triple := t }, a.2)

/-- `get_node_at`: from the head for the first half, from the tail otherwise -/
def getNodeAt (l : Chain) (index : Nat) : Stat × Ptr :=
  if index ≥ l.size then (.errOutOfRange, none)
  else if index < l.size / 2 then (.ok, Chain.walkNext l.nodes.length l.head index)
  else (.ok, Chain.walkPrev l.tail (l.size - 1 - index))

/-- `get_node` -/
def getNode (l : Chain) (x : Nat) : Ptr := l.find l.head (· == x)

/-- `unlinkn`: returns the data; `head`/`tail` follow `node->next`/`node->prev` at the ends -/
def unlinkn (l : Chain) (node : Ptr) (m : Mem) : Nat × Chain × Mem :=
  let m := m.check (node.valid l.nodes.length)
  let d := l.data node
  let l := if node.prev = none then { l with head := node.next l.nodes.length } else l
  let l := if node.next l.nodes.length = none then { l with tail := node.prev } else l
  let l := l.del node.pos
  (d, { l with size := l.size - 1 }, m.freeT l.triple)

/-- `cc_list_add_first` -/
def addFirst (l : Chain) (x : Nat) (m : Mem) : Stat × Chain × Mem :=
  let a := m.allocT l.triple
  if !a.1 then (.errAlloc, l, a.2) else
  let m := a.2
  if l.size = 0 then
    (.ok, { l with nodes := [x], size := l.size + 1, head := some 0, tail := some 0 }, m)
  else
    let m := m.check (l.head.valid l.nodes.length)
    let j := l.head.pos
    let l := l.ins j x
    (.ok, { l with head := some j, size := l.size + 1 }, m)

/-- `cc_list_add_last` (= `cc_list_add`) -/
def addLast (l : Chain) (x : Nat) (m : Mem) : Stat × Chain × Mem :=
  let a := m.allocT l.triple
  if !a.1 then (.errAlloc, l, a.2) else
  let m := a.2
  if l.size = 0 then
    (.ok, { l with nodes := [x], size := l.size + 1, head := some 0, tail := some 0 }, m)
  else
    let m := m.check (l.tail.valid l.nodes.length)
    let j := l.tail.pos + 1
    let l := l.ins j x
    (.ok, { l with tail := some j, size := l.size + 1 }, m)

/-- `cc_list_add_at`: `link_behind(base, new)`, `head = new` for index 0 -/
def addAt (l : Chain) (x index : Nat) (m : Mem) : Stat × Chain × Mem :=
  let g := getNodeAt l index
  if g.1 != .ok then (g.1, l, m) else
  let a := m.allocT l.triple
  if !a.1 then (.errAlloc, l, a.2) else
  let m := a.2.check (g.2.valid l.nodes.length)
  let j := g.2.pos
  let l := l.ins j x
  let l := if index = 0 then { l with head := some j } else l
  (.ok, { l with size := l.size + 1 }, m)

/-- `add_all_to_empty` -/
def addAllToEmpty (l1 l2 : Chain) (m : Mem) : Stat × Chain × Mem :=
  if l2.size = 0 then (.ok, l1, m) else
  let r := l2.linkAllExternally l1.triple m
  if !r.1 then (.errAlloc, l1, r.2.2) else
  (.ok, { l1 with nodes := r.2.1, head := some 0, tail := some (r.2.1.length - 1), size := l2.size }, r.2.2)

/-- `cc_list_add_all_at` -/
def addAllAt (l1 l2 : Chain) (index : Nat) (m : Mem) : Stat × Chain × Mem :=
  if l2.size = 0 then (.ok, l1, m) else
  if index > l1.size then (.errOutOfRange, l1, m) else
  if l1.size = 0 then addAllToEmpty l1 l2 m else
  let r := l2.linkAllExternally l1.triple m
  if !r.1 then (.errAlloc, l1, r.2.2) else
  let m := r.2.2
  let xs := r.2.1
  let e := (getNodeAt l1 index).2
  let base := if e != none then e.prev else (getNodeAt l1 (index - 1)).2
  let n := l1.nodes.length
  if e = none then
    -- tail->next = head'; head'->prev = tail; tail = tail'
    let m := m.check (l1.tail.valid n)
    let p := l1.tail.pos + 1
    let l := l1.insMany p xs
    (.ok, { l with tail := some (p + xs.length - 1), size := l.size + l2.size }, m)
  else if base = none then
    -- head->prev = tail'; tail'->next = head; head = head'
    let m := m.check (l1.head.valid n)
    let p := l1.head.pos
    let l := l1.insMany p xs
    (.ok, { l with head := some p, size := l.size + l2.size }, m)
  else
    let m := m.check (e.valid n && base.valid n)
    let l := l1.insMany e.pos xs
    (.ok, { l with size := l.size + l2.size }, m)

/-- `cc_list_add_all` -/
def addAll (l1 l2 : Chain) (m : Mem) : Stat × Chain × Mem :=
  if l1.size = 0 then addAllToEmpty l1 l2 m else addAllAt l1 l2 l1.size m

/-- `splice_between`: the chain of `l2` is linked in, `l2` is emptied -/
def spliceBetween (l1 l2 : Chain) (left right : Ptr) (m : Mem) : Chain × Chain × Mem :=
  let n := l1.nodes.length
  let r :=
    if left = none then
      let m := m.check (l1.head.valid n && l2.tail.valid l2.nodes.length)
      let p := l1.head.pos
      let l := l1.insMany p l2.nodes
      ({ l with head := l2.head.offset p }, m)
    else if right = none then
      let m := m.check (l1.tail.valid n && l2.head.valid l2.nodes.length)
      let p := l1.tail.pos + 1
      let l := l1.insMany p l2.nodes
      ({ l with tail := l2.tail.offset p }, m)
    else
      let m := m.check (left.valid n && right.valid n && l2.head.valid l2.nodes.length && l2.tail.valid l2.nodes.length)
      (l1.insMany right.pos l2.nodes, m)
  ({ r.1 with size := r.1.size + l2.size }, { l2 with nodes := [], size := 0, head := none, tail := none }, r.2)

/-- `cc_list_splice_at` -/
def spliceAt (l1 l2 : Chain) (index : Nat) (m : Mem) : Stat × Chain × Chain × Mem :=
  if l2.size = 0 then (.ok, l1, l2, m) else
  if index > l1.size then (.errOutOfRange, l1, l2, m) else
  if l1.size = 0 then
    (.ok, { l1 with nodes := l2.nodes, head := l2.head, tail := l2.tail, size := l2.size },
          { l2 with nodes := [], size := 0, head := none, tail := none }, m)
  else
  let e := (getNodeAt l1 index).2
  let base := if e != none then e.prev else (getNodeAt l1 (index - 1)).2
  let r := spliceBetween l1 l2 base e m
  (.ok, r.1, r.2.1, r.2.2)

/-- `cc_list_splice` -/
def splice (l1 l2 : Chain) (m : Mem) : Stat × Chain × Chain × Mem := spliceAt l1 l2 l1.size m

/-- `cc_list_remove` -/
def remove (l : Chain) (x : Nat) (m : Mem) : Stat × Option Nat × Chain × Mem :=
  let node := getNode l x
  if node = none then (.errValueNotFound, none, l, m) else
  let u := unlinkn l node m
  (.ok, some (l.data node), u.2.1, u.2.2)

/-- `cc_list_remove_at` -/
def removeAt (l : Chain) (index : Nat) (m : Mem) : Stat × Option Nat × Chain × Mem :=
  let g := getNodeAt l index
  if g.1 != .ok then (g.1, none, l, m) else
  let u := unlinkn l g.2 m
  (.ok, some (l.data g.2), u.2.1, u.2.2)

/-- `cc_list_remove_first` -/
def removeFirst (l : Chain) (m : Mem) : Stat × Option Nat × Chain × Mem :=
  if l.size = 0 then (.errValueNotFound, none, l, m) else
  let u := unlinkn l l.head m
  (.ok, some u.1, u.2.1, u.2.2)

/-- `cc_list_remove_last` -/
def removeLast (l : Chain) (m : Mem) : Stat × Option Nat × Chain × Mem :=
  if l.size = 0 then (.errValueNotFound, none, l, m) else
  let u := unlinkn l l.tail m
  (.ok, some u.1, u.2.1, u.2.2)

/-- the loop of `unlinkn_all`: callback log, then `unlinkn`, then the saved `next` -/
def unlinkAllLoop : Nat → Chain → Ptr → List Nat → Mem → Chain × List Nat × Mem
  | 0, l, _, cb, m => (l, cb, m)
  | k + 1, l, node, cb, m =>
    match node with
    | none => (l, cb, m)
    | some j =>
      let tmp := node.next l.nodes.length
      let cb := cb ++ [l.data node]
      let u := unlinkn l node m
      unlinkAllLoop k u.2.1 (tmp.shiftDel j) cb u.2.2

/-- `unlinkn_all` -/
def unlinknAll (l : Chain) (m : Mem) : Bool × Chain × List Nat × Mem :=
  if l.size = 0 then (false, l, [], m) else
  let r := unlinkAllLoop l.nodes.length l l.head [] m
  (true, r.1, r.2.1, r.2.2)

/-- `cc_list_remove_all` / `cc_list_remove_all_cb` (the log is the callback's argument list) -/
def removeAll (l : Chain) (m : Mem) : Stat × List Nat × Chain × Mem :=
  let r := unlinknAll l m
  if r.1 then (.ok, r.2.2.1, { r.2.1 with head := none, tail := none }, r.2.2.2)
  else (.errValueNotFound, [], r.2.1, r.2.2.2)

/-- `cc_list_destroy` -/
def destroy (l : Chain) (m : Mem) : Mem :=
  let m := if l.size > 0 then (removeAll l m).2.2.2 else m
  m.freeT l.triple

/-- `cc_list_destroy_cb` -/
def destroyCb (l : Chain) (m : Mem) : List Nat × Mem :=
  let r := removeAll l m
  (r.2.1, r.2.2.2.freeT l.triple)

/-- `cc_list_replace_at` -/
def replaceAt (l : Chain) (x index : Nat) (m : Mem) : Stat × Option Nat × Chain × Mem :=
  let g := getNodeAt l index
  if g.1 != .ok then (g.1, none, l, m) else
  let m := m.check (g.2.valid l.nodes.length)
  (.ok, some (l.data g.2), l.setData g.2 x, m)

/-- `cc_list_get_first` -/
def getFirst (l : Chain) (m : Mem) : Stat × Option Nat × Mem :=
  if l.size = 0 then (.errValueNotFound, none, m) else
  (.ok, some (l.data l.head), m.check (l.head.valid l.nodes.length))

/-- `cc_list_get_last` -/
def getLast (l : Chain) (m : Mem) : Stat × Option Nat × Mem :=
  if l.size = 0 then (.errValueNotFound, none, m) else
  (.ok, some (l.data l.tail), m.check (l.tail.valid l.nodes.length))

/-- `cc_list_get_at` -/
def getAt (l : Chain) (index : Nat) (m : Mem) : Stat × Option Nat × Mem :=
  let g := getNodeAt l index
  if g.1 != .ok then (g.1, none, m) else
  (.ok, some (l.data g.2), m.check (g.2.valid l.nodes.length))

/-- the loop of `cc_list_reverse`: `swap(left, right)` relinks the two nodes; every pointer
variable keeps denoting its node -/
def reverseLoop : Nat → Chain → Ptr → Ptr → Ptr → Ptr → Mem → Chain × Ptr × Ptr × Mem
  | 0, l, _, _, ho, to, m => (l, ho, to, m)
  | k + 1, l, left, right, ho, to, m =>
    let n := l.nodes.length
    let m := m.check (left.valid n && right.valid n)
    let tmpl := left.next n
    let tmpr := right.prev
    let a := left.pos
    let b := right.pos
    reverseLoop k (l.swapNodes a b) (tmpl.swapPtr a b) (tmpr.swapPtr a b) (ho.swapPtr a b) (to.swapPtr a b) m

/-- `cc_list_reverse` -/
def reverse (l : Chain) (m : Mem) : Chain × Mem :=
  if l.size = 0 || l.size = 1 then (l, m) else
  let r := reverseLoop (l.size / 2) l l.head l.tail l.head l.tail m
  ({ r.1 with head := r.2.2.1, tail := r.2.1 }, r.2.2.2)

/-- loops of the form `while (node) { if (sel data) add(dst, value) …; node = node->next }` and
`for (i = b; i <= e; i++) { add(dst, node->data); node = node->next }` that fill a fresh list;
when an `add` is refused the partial result is destroyed -/
def buildLoop (src : Chain) (sel : Nat → Option Nat) : Nat → Ptr → Chain → Mem → Stat × Chain × Mem
  | 0, _, dst, m => (.ok, dst, m)
  | k + 1, node, dst, m =>
    match node with
    | none => (.ok, dst, m)
    | some _ =>
      let m := m.check (node.valid src.nodes.length)
      match sel (src.data node) with
      | none => buildLoop src sel k (node.next src.nodes.length) dst m
      | some y =>
        let r := addLast dst y m
        if r.1 != .ok then (r.1, {}, destroy r.2.1 r.2.2)   -- the partial result is gone
        else buildLoop src sel k (node.next src.nodes.length) r.2.1 r.2.2

/-- `cc_list_sublist` -/
def sublist (l : Chain) (b e : Nat) (m : Mem) : Stat × Option Chain × Mem :=
  if b > e || e ≥ l.size then (.errInvalidRange, none, m) else
  let c := new l.triple m
  match c.2.1 with
  | none => (c.1, none, c.2.2)
  | some sub =>
    let g := getNodeAt l b
    if g.1 != .ok then (g.1, none, c.2.2.freeT l.triple) else
    let r := buildLoop l some (e - b + 1) g.2 sub c.2.2
    if r.1 != .ok then (r.1, none, r.2.2) else (.ok, some r.2.1, r.2.2)

/-- `cc_list_copy_shallow` (`cp = id`) and `cc_list_copy_deep` -/
def copy (cp : Nat → Nat) (l : Chain) (m : Mem) : Stat × Option Chain × Mem :=
  let c := new l.triple m
  match c.2.1 with
  | none => (c.1, none, c.2.2)
  | some dst =>
    let r := buildLoop l (fun v => some (cp v)) l.nodes.length l.head dst c.2.2
    if r.1 != .ok then (r.1, none, r.2.2) else (.ok, some r.2.1, r.2.2)

/-- `cc_list_filter` -/
def filter (p : Nat → Bool) (l : Chain) (m : Mem) : Stat × Option Chain × Mem :=
  if l.size = 0 then (.errOutOfRange, none, m) else
  let c := new l.triple m
  match c.2.1 with
  | none => (c.1, none, c.2.2)
  | some dst =>
    let r := buildLoop l (fun v => if p v then some v else none) l.nodes.length l.head dst c.2.2
    if r.1 != .ok then (r.1, none, r.2.2) else (.ok, some r.2.1, r.2.2)

/-- `cc_list_to_array` (the array block belongs to the caller) -/
def toArray (l : Chain) (m : Mem) : Stat × Option (List Nat) × Mem :=
  if l.size = 0 then (.errInvalidRange, none, m) else
  let a := m.allocT l.triple
  if !a.1 then (.errAlloc, none, a.2) else
  let r := l.collect l.size l.head a.2
  (.ok, some r.1, r.2)

/-- `cc_list_contains` -/
def contains (l : Chain) (x : Nat) (m : Mem) : Nat × Mem := l.countLoop (· == x) l.nodes.length l.head 0 m
/-- `cc_list_contains_value` -/
def containsValue (cmp : Nat → Nat → Int) (l : Chain) (x : Nat) (m : Mem) : Nat × Mem :=
  l.countLoop (fun y => cmp y x == 0) l.nodes.length l.head 0 m
/-- `cc_list_index_of` -/
def indexOf (cmp : Nat → Nat → Int) (l : Chain) (x : Nat) (m : Mem) : Stat × Option Nat × Mem :=
  let r := l.indexLoop (fun y => cmp y x == 0) l.nodes.length l.head 0 m
  match r.1 with
  | some i => (.ok, some i, r.2)
  | none => (.errOutOfRange, none, r.2)

/-- `cc_list_sort`: `to_array`, `qsort` (the parameter `sortFn`), write back, release -/
def sort (sortFn : List Nat → List Nat) (l : Chain) (m : Mem) : Stat × Chain × Mem :=
  let t := toArray l m
  match t.2.1 with
  | none => (t.1, l, t.2.2)
  | some arr =>
    let r := Chain.writeBack l.size 0 l.head (sortFn arr) l t.2.2
    (.ok, r.1, r.2.freeT l.triple)

/-- the merge sort of `split`/`merge`: the left run has `size / 2` nodes, the right run the rest;
`merge` takes the left node while `cmp left right ≤ 0` -/
def msort (cmp : Nat → Nat → Int) : Nat → List Nat → List Nat
  | 0, xs => xs
  | fuel + 1, xs =>
    if xs.length < 2 then xs else
    let l := xs.take (xs.length / 2)
    let r := xs.drop (xs.length / 2)
    List.merge (msort cmp fuel l) (msort cmp fuel r) (fun a b => decide (cmp a b ≤ 0))

/-- `cc_list_sort_in_place`, specification level: the nodes are relinked (no allocation) in the
order `msort` computes; every `split` of two or more nodes ends with
`list->head = l_head; list->tail = r_head` -/
def sortInPlace (cmp : Nat → Nat → Int) (l : Chain) : Chain :=
  if l.size < 2 then l else
  { l with nodes := msort cmp l.size (l.nodes.take l.size) ++ l.nodes.drop l.size,
           head := some 0, tail := some (l.size - 1) }

/-- the `for` loop of `merge(left, right, l_size, r_size, cmp)`, statement by statement: `i`, `l`,
`r` are the C counters, `lp`/`rp` the cursors `l_part`/`r_part`, `left`/`right` the in-out
parameters `*left`/`*right`.  A right node that compares smaller is relinked in front of the left
cursor by `link_behind` (`moveBefore`, which requires the left cursor to stand in front of the right
one; every pointer variable keeps denoting its node).  The four `break`s of the C loop are the four
places where the recursion stops.  Every dereference of a cursor is a `m.check` (the two
fast-forward loops dereference the nodes they leave, not the one they stop at). -/
def mergeLoop (cmp : Nat → Nat → Int) (lSize rSize : Nat) :
    Nat → Nat → Nat → Nat → Ptr → Ptr → Chain → Ptr → Ptr → Mem → Chain × Ptr × Ptr × Mem
  | 0, _, _, _, _, _, ch, left, right, m => (ch, left, right, m)
  | fuel + 1, i, lc, rc, lp, rp, ch, left, right, m =>
    let n := ch.nodes.length
    let size := rSize + lSize
    let m := m.check (lp.valid n && rp.valid n)          -- l_part->data, r_part->data
    if cmp (ch.data lp) (ch.data rp) ≤ 0 then
      if i = 0 ∧ size = 2 then (ch, left, right, m)
      else if lc = lSize then
        let k := rSize - 1 - rc                           -- for (; r < r_size - 1; r++) r_part = r_part->next;
        (ch, left, Chain.walkNext n rp k, m.check (decide (k = 0) || (Chain.walkNext n rp (k - 1)).valid n))
      else mergeLoop cmp lSize rSize fuel (i + 1) (lc + 1) rc (lp.next n) rp ch left right m
    else
      let tmp := rp.next n
      let a := rp.pos
      let b := lp.pos
      let ch' := ch.moveBefore a b                       -- link_behind(l_part, r_part)
      let lp' := lp.movePtr a b
      let rp' := rp.movePtr a b
      if i = 0 ∧ size = 2 then (ch', rp', lp', m)        -- *right = l_part; *left = r_part
      else if rc + 1 = rSize then
        let k := lSize - 1 - lc                           -- for (; l < l_size - 1; l++) l_part = l_part->next;
        (ch', left.movePtr a b, Chain.walkNext n lp' k, m.check (decide (k = 0) || (Chain.walkNext n lp' (k - 1)).valid n))
      else mergeLoop cmp lSize rSize fuel (i + 1) lc (rc + 1) lp' (tmp.movePtr a b) ch'
             (if i = 0 then rp' else left.movePtr a b) (right.movePtr a b) m

/-- `split(list, b, size, cmp)`: sorts the `size` nodes starting at `b`, returns the new first node.
The recursive calls relink only nodes of their own run, so `center` and `l_head` keep their
positions across them. -/
def splitC (cmp : Nat → Nat → Int) : Nat → Chain → Ptr → Nat → Mem → Chain × Ptr × Mem
  | 0, ch, b, _, m => (ch, b, m)
  | fuel + 1, ch, b, size, m =>
    if size < 2 then (ch, b, m) else
    let lSize := size / 2
    let rSize := size / 2 + size % 2
    let n := ch.nodes.length
    let m := m.check ((Chain.walkNext n b (lSize - 1)).valid n)   -- for (i < l_size) center = center->next;
    let center := Chain.walkNext n b lSize
    let r1 := splitC cmp fuel ch b lSize m
    let r2 := splitC cmp fuel r1.1 center rSize r1.2.2
    let mg := mergeLoop cmp lSize rSize (rSize + lSize) 0 0 0 r1.2.1 r2.2.1 r2.1 r1.2.1 r2.2.1 r2.2.2
    ({ mg.1 with head := mg.2.1, tail := mg.2.2.1 }, mg.2.1, mg.2.2.2)

/-- `cc_list_sort_in_place`, code level (no allocator call; the ledger is threaded only to record
invalid dereferences) -/
def sortInPlaceC (cmp : Nat → Nat → Int) (l : Chain) (m : Mem) : Chain × Mem :=
  let r := splitC cmp l.size l l.head l.size m
  (r.1, r.2.2)

/-- `cc_list_foreach`: the arguments the callback receives -/
def foreach (l : Chain) (m : Mem) : List Nat × Mem := l.foreachLoop l.nodes.length l.head m

/-- `cc_list_reduce`: status, result, logged argument pairs -/
def reduce (f : Nat → Nat → Nat) (l : Chain) (m : Mem) : Stat × Option Nat × List Nat × Mem :=
  if l.size = 0 then (.errOutOfRange, none, [], m) else
  let n := l.nodes.length
  if l.size = 1 then
    let m := m.check (l.head.valid n)
    (.ok, some (f (l.data l.head) 0), [l.data l.head, 0], m)
  else
    let h1 := l.head.next n
    let m := m.check (l.head.valid n && h1.valid n)
    let a := l.data l.head
    let b := l.data h1
    let r := (l.walk (h1.next n)).foldl (fun (acc : Nat × List Nat) x => (f acc.1 x, acc.2 ++ [acc.1, x])) (f a b, [a, b])
    (.ok, some r.1, r.2, m)

/-- loop of `cc_list_filter_mut` -/
def filterMutLoop (p : Nat → Bool) : Nat → Chain → Ptr → Mem → Chain × Mem
  | 0, l, _, m => (l, m)
  | k + 1, l, curr, m =>
    match curr with
    | none => (l, m)
    | some j =>
      let m := m.check (curr.valid l.nodes.length)
      let next := curr.next l.nodes.length
      if !p (l.data curr) then
        let u := unlinkn l curr m
        filterMutLoop p k u.2.1 (next.shiftDel j) u.2.2
      else filterMutLoop p k l next m

/-- `cc_list_filter_mut` -/
def filterMut (p : Nat → Bool) (l : Chain) (m : Mem) : Stat × Chain × Mem :=
  if l.size = 0 then (.errOutOfRange, l, m) else
  let r := filterMutLoop p l.nodes.length l l.head m
  (.ok, r.1, r.2)

/-! ## iterators (`CC_ListIter` ascending and descending, `CC_ListZipIter`) -/
structure Iter where
  index : Nat := 0
  last  : Ptr := none
  next  : Ptr := none
  deriving Repr, DecidableEq

/-- `cc_list_iter_init` -/
def iterInit (l : Chain) : Iter := { index := 0, last := none, next := l.head }

/-- `cc_list_iter_next` -/
def iterNext (l : Chain) (it : Iter) (m : Mem) : Stat × Option Nat × Iter × Mem :=
  if it.next = none then (.iterEnd, none, it, m) else
  let m := m.check (it.next.valid l.nodes.length)
  (.ok, some (l.data it.next), { index := it.index + 1, last := it.next, next := it.next.next l.nodes.length }, m)

/-- `cc_list_iter_remove` -/
def iterRemove (l : Chain) (it : Iter) (m : Mem) : Stat × Option Nat × Chain × Iter × Mem :=
  if it.last = none then (.errValueNotFound, none, l, it, m) else
  let u := unlinkn l it.last m
  (.ok, some u.1, u.2.1, { index := wdec it.index, last := none, next := it.next.shiftDel it.last.pos }, u.2.2)

/-- `cc_list_iter_add`: `link_after(last, new)`, `tail = new` exactly when the new node has no successor
(`if (!new_node->next)`, i.e. `last` had none; defect L6: the former test `index == size` also fired for a second
`iter_add` behind the same yielded element, which links the node *in front of* the one added before) -/
def iterAdd (l : Chain) (it : Iter) (x : Nat) (m : Mem) : Stat × Chain × Iter × Mem :=
  let a := m.allocT l.triple
  if !a.1 then (.errAlloc, l, it, a.2) else
  let m := a.2.check (it.last.valid l.nodes.length)
  let j := it.last.pos + 1
  let l' := l.ins j x
  let l' := if it.last.next l.nodes.length = none then { l' with tail := some j } else l'
  (.ok, { l' with size := l'.size + 1 },
   { index := it.index + 1, last := it.last.shiftIns j 1, next := it.next.shiftIns j 1 }, m)

/-- `cc_list_iter_replace` / `cc_list_diter_replace` -/
def iterReplace (l : Chain) (it : Iter) (x : Nat) (m : Mem) : Stat × Option Nat × Chain × Mem :=
  if it.last = none then (.errValueNotFound, none, l, m) else
  let m := m.check (it.last.valid l.nodes.length)
  (.ok, some (l.data it.last), l.setData it.last x, m)

/-- `cc_list_iter_index` -/
def iterIndex (it : Iter) : Nat := wdec it.index

/-- `cc_list_diter_init` -/
def diterInit (l : Chain) : Iter := { index := l.size, last := none, next := l.tail }

/-- `cc_list_diter_next` -/
def diterNext (l : Chain) (it : Iter) (m : Mem) : Stat × Option Nat × Iter × Mem :=
  if it.next = none then (.iterEnd, none, it, m) else
  let m := m.check (it.next.valid l.nodes.length)
  (.ok, some (l.data it.next), { index := wdec it.index, last := it.next, next := it.next.prev }, m)

/-- `cc_list_diter_remove` -/
def diterRemove (l : Chain) (it : Iter) (m : Mem) : Stat × Option Nat × Chain × Iter × Mem :=
  if it.last = none then (.errValueNotFound, none, l, it, m) else
  let u := unlinkn l it.last m
  (.ok, some u.1, u.2.1, { it with last := none, next := it.next.shiftDel it.last.pos }, u.2.2)

/-- `cc_list_diter_add`: `head = new` at index 0, `link_behind(last, new)`, `last = new` -/
def diterAdd (l : Chain) (it : Iter) (x : Nat) (m : Mem) : Stat × Chain × Iter × Mem :=
  let a := m.allocT l.triple
  if !a.1 then (.errAlloc, l, it, a.2) else
  let m := a.2.check (it.last.valid l.nodes.length)
  let j := it.last.pos
  let l' := l.ins j x
  let l' := if it.index = 0 then { l' with head := some j } else l'
  (.ok, { l' with size := l'.size + 1 }, { it with last := some j, next := it.next.shiftIns j 1 }, m)

/-- `cc_list_diter_index` -/
def diterIndex (it : Iter) : Nat := it.index

structure ZipIter where
  index : Nat := 0
  last1 : Ptr := none
  last2 : Ptr := none
  next1 : Ptr := none
  next2 : Ptr := none
  deriving Repr, DecidableEq

/-- `cc_list_zip_iter_init` -/
def zipInit (l1 l2 : Chain) : ZipIter := { next1 := l1.head, next2 := l2.head }

/-- `cc_list_zip_iter_next` -/
def zipNext (l1 l2 : Chain) (z : ZipIter) (m : Mem) : Stat × Option (Nat × Nat) × ZipIter × Mem :=
  if z.next1 = none || z.next2 = none then (.iterEnd, none, z, m) else
  let m := m.check (z.next1.valid l1.nodes.length && z.next2.valid l2.nodes.length)
  (.ok, some (l1.data z.next1, l2.data z.next2),
   { index := z.index + 1, last1 := z.next1, last2 := z.next2,
     next1 := z.next1.next l1.nodes.length, next2 := z.next2.next l2.nodes.length }, m)

/-- `cc_list_zip_iter_add` (`tail = new` per list exactly when the new node has no successor, as in `iterAdd`) -/
def zipAdd (l1 l2 : Chain) (z : ZipIter) (x1 x2 : Nat) (m : Mem) : Stat × Chain × Chain × ZipIter × Mem :=
  let a1 := m.allocT l1.triple
  if !a1.1 then (.errAlloc, l1, l2, z, a1.2) else
  let a2 := a1.2.allocT l2.triple
  if !a2.1 then (.errAlloc, l1, l2, z, a2.2.freeT l1.triple) else
  let m := a2.2.check (z.last1.valid l1.nodes.length && z.last2.valid l2.nodes.length)
  let j1 := z.last1.pos + 1
  let j2 := z.last2.pos + 1
  let l1' := l1.ins j1 x1
  let l2' := l2.ins j2 x2
  let l1' := if z.last1.next l1.nodes.length = none then { l1' with tail := some j1 } else l1'
  let l2' := if z.last2.next l2.nodes.length = none then { l2' with tail := some j2 } else l2'
  (.ok, { l1' with size := l1'.size + 1 }, { l2' with size := l2'.size + 1 },
   { index := z.index + 1, last1 := z.last1.shiftIns j1 1, last2 := z.last2.shiftIns j2 1,
     next1 := z.next1.shiftIns j1 1, next2 := z.next2.shiftIns j2 1 }, m)

/-- `cc_list_zip_iter_remove` -/
def zipRemove (l1 l2 : Chain) (z : ZipIter) (m : Mem) : Stat × Option (Nat × Nat) × Chain × Chain × ZipIter × Mem :=
  if z.last1 = none || z.last2 = none then (.errValueNotFound, none, l1, l2, z, m) else
  let u1 := unlinkn l1 z.last1 m
  let u2 := unlinkn l2 z.last2 u1.2.2
  (.ok, some (u1.1, u2.1), u1.2.1, u2.2.1,
   { index := wdec z.index, last1 := none, last2 := none,
     next1 := z.next1.shiftDel z.last1.pos, next2 := z.next2.shiftDel z.last2.pos }, u2.2.2)

/-- `cc_list_zip_iter_replace` -/
def zipReplace (l1 l2 : Chain) (z : ZipIter) (x1 x2 : Nat) (m : Mem) : Stat × Option (Nat × Nat) × Chain × Chain × Mem :=
  if z.last1 = none || z.last2 = none then (.errValueNotFound, none, l1, l2, m) else
  let m := m.check (z.last1.valid l1.nodes.length && z.last2.valid l2.nodes.length)
  (.ok, some (l1.data z.last1, l2.data z.last2), l1.setData z.last1 x1, l2.setData z.last2 x2, m)

/-- `cc_list_zip_iter_index` -/
def zipIndex (z : ZipIter) : Nat := wdec z.index

end CC.DList

namespace CC.DList
open CC.Spec.LSeq (Op Out Params)

/-- one history step on the pair (destination, source); `to_array` hands its block to the caller,
who releases it at once (as the harness does) -/
def step (P : Params) (s : Chain × Chain) (op : Op) (m : Mem) : Out × (Chain × Chain) × Mem :=
  match op with
  | .addFirst x => let r := addFirst s.1 x m; ({ st := some r.1 }, (r.2.1, s.2), r.2.2)
  | .addLast x => let r := addLast s.1 x m; ({ st := some r.1 }, (r.2.1, s.2), r.2.2)
  | .addAt x i => let r := addAt s.1 x i m; ({ st := some r.1 }, (r.2.1, s.2), r.2.2)
  | .addAll => let r := addAll s.1 s.2 m; ({ st := some r.1 }, (r.2.1, s.2), r.2.2)
  | .addAllAt i => let r := addAllAt s.1 s.2 i m; ({ st := some r.1 }, (r.2.1, s.2), r.2.2)
  | .splice => let r := splice s.1 s.2 m; ({ st := some r.1 }, (r.2.1, r.2.2.1), r.2.2.2)
  | .spliceAt i => let r := spliceAt s.1 s.2 i m; ({ st := some r.1 }, (r.2.1, r.2.2.1), r.2.2.2)
  | .remove x => let r := remove s.1 x m; ({ st := some r.1, val := r.2.1 }, (r.2.2.1, s.2), r.2.2.2)
  | .removeAt i => let r := removeAt s.1 i m; ({ st := some r.1, val := r.2.1 }, (r.2.2.1, s.2), r.2.2.2)
  | .removeFirst => let r := removeFirst s.1 m; ({ st := some r.1, val := r.2.1 }, (r.2.2.1, s.2), r.2.2.2)
  | .removeLast => let r := removeLast s.1 m; ({ st := some r.1, val := r.2.1 }, (r.2.2.1, s.2), r.2.2.2)
  | .removeAll => let r := removeAll s.1 m; ({ st := some r.1, vals := r.2.1 }, (r.2.2.1, s.2), r.2.2.2)
  | .replaceAt x i => let r := replaceAt s.1 x i m; ({ st := some r.1, val := r.2.1 }, (r.2.2.1, s.2), r.2.2.2)
  | .reverse => let r := reverse s.1 m; ({}, (r.1, s.2), r.2)
  | .filterMut => let r := filterMut P.pred s.1 m; ({ st := some r.1 }, (r.2.1, s.2), r.2.2)
  | .getFirst => let r := getFirst s.1 m; ({ st := some r.1, val := r.2.1 }, s, r.2.2)
  | .getLast => let r := getLast s.1 m; ({ st := some r.1, val := r.2.1 }, s, r.2.2)
  | .getAt i => let r := getAt s.1 i m; ({ st := some r.1, val := r.2.1 }, s, r.2.2)
  | .indexOf x => let r := indexOf P.cmp s.1 x m; ({ st := some r.1, val := r.2.1 }, s, r.2.2)
  | .contains x => let r := contains s.1 x m; ({ val := some r.1 }, s, r.2)
  | .containsValue x => let r := containsValue P.cmp s.1 x m; ({ val := some r.1 }, s, r.2)
  | .size => ({ val := some s.1.size }, s, m)
  | .toArray =>
    let r := toArray s.1 m
    ({ st := some r.1, vals := r.2.1.getD [] }, s, if r.1 = .ok then r.2.2.freeT s.1.triple else r.2.2)
  | .foreach => let r := foreach s.1 m; ({ vals := r.1 }, s, r.2)
  | .swapRoles => ({}, (s.2, s.1), m)

def run (P : Params) (s : Chain × Chain) (ops : List Op) (m : Mem) : List Out × (Chain × Chain) × Mem :=
  match ops with
  | [] => ([], s, m)
  | op :: ops => let r := step P s op m; let rs := run P r.2.1 ops r.2.2; (r.1 :: rs.1, rs.2.1, rs.2.2)

end CC.DList
