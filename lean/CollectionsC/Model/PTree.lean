import Std.Data.HashMap
import CollectionsC.Model.TreeTable
/-! Pointer-level model of the red-black tree of `src/cc_treetable.c`.

The heap maps node ids (allocation serial numbers, from 1) to nodes with **raw** `left` / `right` /
`parent` links; id `0` is the shared sentinel, which is a real node of the heap: it is black, and its
`parent` field is scratch space that `transplant` writes and `rebalance_after_delete` reads (CLRS's
trick).  `rotate_left`, `rotate_right`, `transplant`, `tree_min`, `tree_max`, `get_successor_node`,
`get_predecessor_node`, `rebalance_after_insert`, `cc_treetable_add`, `remove_node`,
`rebalance_after_delete` and the iterator are the pointer surgery of the C text, assignment by
assignment, in the same order (every read sees the writes before it).  `while` loops take a fuel
argument that the callers set above any possible iteration count.

`Proofs/PTree*.lean` relate this heap to the inductive tree of `Model/TreeTable.lean` (`toTree`): the
representation invariant `WF`, the walks, the rotations and `transplant`.  The Lean driver runs this model
alongside the inductive one and prints the tree from this heap with node ids and parent ids, so the
correspondence check compares the C parent links with these after every operation. -/
namespace CC.PTree
open CC

structure PNode where
  key    : Nat := 0
  value  : Nat := 0
  color  : Colour := .black
  left   : Nat := 0
  right  : Nat := 0
  parent : Nat := 0
  deriving Repr, DecidableEq, Inhabited

/-- the heap: node id ↦ node (a hash map, so that the driver can run long histories) -/
structure Heap where
  m : Std.HashMap Nat PNode := {}

namespace Heap
/-- `*p` (an id that was never allocated reads as a zeroed node — the C code never does that) -/
def get (h : Heap) (i : Nat) : PNode := h.m.getD i {}
def set (h : Heap) (i : Nat) (n : PNode) : Heap := ⟨h.m.insert i n⟩
/-- `mem_free(node)` -/
def del (h : Heap) (i : Nat) : Heap := ⟨h.m.erase i⟩

theorem get_set (h : Heap) (i j : Nat) (n : PNode) : (h.set i n).get j = if j = i then n else h.get j := by
  unfold get set
  rw [Std.HashMap.getD_insert]
  by_cases e : j = i
  · subst e; simp
  · have : (i == j) = false := by simpa using Ne.symm e
    simp [this, e]
end Heap

/-- the sentinel -/
abbrev S : Nat := 0

def setLeft (h : Heap) (i v : Nat) : Heap := h.set i { h.get i with left := v }
def setRight (h : Heap) (i v : Nat) : Heap := h.set i { h.get i with right := v }
def setParent (h : Heap) (i v : Nat) : Heap := h.set i { h.get i with parent := v }
def setColor (h : Heap) (i : Nat) (c : Colour) : Heap := h.set i { h.get i with color := c }
def setValue (h : Heap) (i v : Nat) : Heap := h.set i { h.get i with value := v }

/-- `struct cc_treetable_s` (heap, `root`, `size`) and the allocation serial of the next node -/
structure PT where
  heap  : Heap := {}
  root  : Nat := S
  size  : Nat := 0
  fresh : Nat := 1

/-- `cc_treetable_new_conf`: the sentinel is calloc'ed and coloured black -/
def new : PT := { heap := (({} : Heap).set S { color := .black }) }

/-! ### rotations, transplant -/

/-- `rotate_left(table, x)` -/
def rotateLeft (st : PT) (x : Nat) : PT :=
  let h := st.heap
  let y := (h.get x).right                                            -- y = x->right
  let h := setRight h x (h.get y).left                                -- x->right = y->left
  let h := if (h.get y).left ≠ S then setParent h (h.get y).left x else h  -- if (y->left != s) y->left->parent = x
  let h := setParent h y (h.get x).parent                             -- y->parent = x->parent
  let xp := (h.get x).parent
  let root := if xp = S then y else st.root                           -- table->root = y
  let h :=
    if xp = S then h
    else if x = (h.get xp).left then setLeft h xp y                   -- x->parent->left = y
    else setRight h xp y                                              -- x->parent->right = y
  let h := setLeft h y x                                              -- y->left = x
  let h := setParent h x y                                            -- x->parent = y
  { st with heap := h, root := root }

/-- `rotate_right(table, x)` -/
def rotateRight (st : PT) (x : Nat) : PT :=
  let h := st.heap
  let y := (h.get x).left
  let h := setLeft h x (h.get y).right
  let h := if (h.get y).right ≠ S then setParent h (h.get y).right x else h
  let h := setParent h y (h.get x).parent
  let xp := (h.get x).parent
  let root := if xp = S then y else st.root
  let h :=
    if xp = S then h
    else if x = (h.get xp).right then setRight h xp y
    else setLeft h xp y
  let h := setRight h y x
  let h := setParent h x y
  { st with heap := h, root := root }

/-- `transplant(table, u, v)`; note `v->parent = u->parent` also when `v` is the sentinel -/
def transplant (st : PT) (u v : Nat) : PT :=
  let h := st.heap
  let up := (h.get u).parent
  let root := if up = S then v else st.root
  let h :=
    if up = S then h
    else if u = (h.get up).left then setLeft h up v
    else setRight h up v
  { st with heap := setParent h v up, root := root }

/-! ### walks -/

/-- `tree_min(table, n)` -/
def treeMinLoop (h : Heap) : Nat → Nat → Nat
  | 0, n => n
  | f + 1, n => if (h.get n).left ≠ S then treeMinLoop h f (h.get n).left else n
def treeMin (h : Heap) (fuel n : Nat) : Nat := if n = S then S else treeMinLoop h fuel n

/-- `tree_max(table, n)` -/
def treeMaxLoop (h : Heap) : Nat → Nat → Nat
  | 0, n => n
  | f + 1, n => if (h.get n).right ≠ S then treeMaxLoop h f (h.get n).right else n
def treeMax (h : Heap) (fuel n : Nat) : Nat := if n = S then S else treeMaxLoop h fuel n

/-- the climbing loop of `get_successor_node`: `while (y != s && x == y->right) { x = y; y = y->parent; }` -/
def climbRightLoop (h : Heap) : Nat → Nat → Nat → Nat
  | 0, _, y => y
  | f + 1, x, y => if y ≠ S ∧ x = (h.get y).right then climbRightLoop h f y (h.get y).parent else y
def climbLeftLoop (h : Heap) : Nat → Nat → Nat → Nat
  | 0, _, y => y
  | f + 1, x, y => if y ≠ S ∧ x = (h.get y).left then climbLeftLoop h f y (h.get y).parent else y

/-- `get_successor_node(table, x)` for a non-NULL `x` -/
def successor (h : Heap) (fuel x : Nat) : Nat :=
  if (h.get x).right ≠ S then treeMin h fuel (h.get x).right
  else climbRightLoop h fuel x (h.get x).parent
/-- `get_predecessor_node(table, x)` -/
def predecessor (h : Heap) (fuel x : Nat) : Nat :=
  if (h.get x).left ≠ S then treeMax h fuel (h.get x).left
  else climbLeftLoop h fuel x (h.get x).parent

/-- `get_tree_node_by_key` (the node id, `none` = NULL) -/
def findLoop (cmp : Nat → Nat → Int) (h : Heap) (k : Nat) : Nat → Nat → Option Nat
  | 0, _ => none
  | f + 1, n =>
    if n = S then none
    else if cmp k (h.get n).key < 0 then findLoop cmp h k f (h.get n).left
    else if 0 < cmp k (h.get n).key then findLoop cmp h k f (h.get n).right
    else some n
def findNode (cmp : Nat → Nat → Int) (st : PT) (k : Nat) : Option Nat :=
  if st.size = 0 then none else findLoop cmp st.heap k (st.size + 1) st.root

/-! ### insertion -/

/-- `rebalance_after_insert(table, z)` -/
def rebalInsertLoop : Nat → PT → Nat → PT
  | 0, st, _ => st
  | f + 1, st, z =>
    let h := st.heap
    let zp := (h.get z).parent
    if (h.get zp).color ≠ .red then st
    else
      let zpp := (h.get zp).parent
      if zp = (h.get zpp).left then
        let y := (h.get zpp).right
        if (h.get y).color = .red then
          let h := setColor h zp .black
          let h := setColor h y .black
          let h := setColor h zpp .red
          rebalInsertLoop f { st with heap := h } zpp
        else
          let stz : PT × Nat := if z = (h.get zp).right then (rotateLeft st zp, zp) else (st, z)
          let st := stz.1
          let z := stz.2
          let h := st.heap
          let h := setColor h (h.get z).parent .black
          let h := setColor h (h.get (h.get z).parent).parent .red
          let st := rotateRight { st with heap := h } (h.get (h.get z).parent).parent
          rebalInsertLoop f st z
      else
        let y := (h.get zpp).left
        if (h.get y).color = .red then
          let h := setColor h zp .black
          let h := setColor h y .black
          let h := setColor h zpp .red
          rebalInsertLoop f { st with heap := h } zpp
        else
          let stz : PT × Nat := if z = (h.get zp).left then (rotateRight st zp, zp) else (st, z)
          let st := stz.1
          let z := stz.2
          let h := st.heap
          let h := setColor h (h.get z).parent .black
          let h := setColor h (h.get (h.get z).parent).parent .red
          let st := rotateLeft { st with heap := h } (h.get (h.get z).parent).parent
          rebalInsertLoop f st z

def rebalanceAfterInsert (st : PT) (z : Nat) : PT :=
  let st := rebalInsertLoop (st.size + 2) st z
  { st with heap := setColor st.heap st.root .black }               -- table->root->color = RB_BLACK

/-- the descent of `cc_treetable_add`: `(y, x)` when it stops; `x ≠ S` means the key was found at `x` -/
def addDescent (cmp : Nat → Nat → Int) (h : Heap) (k : Nat) : Nat → Nat → Nat → Nat × Nat
  | 0, y, x => (y, x)
  | f + 1, y, x =>
    if x = S then (y, x)
    else if cmp k (h.get x).key < 0 then addDescent cmp h k f x (h.get x).left
    else if 0 < cmp k (h.get x).key then addDescent cmp h k f x (h.get x).right
    else (x, x)

/-- `cc_treetable_add`; `allocOk` is the answer of `mem_alloc` (asked only for a new key) -/
def add (cmp : Nat → Nat → Int) (st : PT) (k v : Nat) (allocOk : Bool) : PT :=
  let d := addDescent cmp st.heap k (st.size + 1) S st.root
  if d.2 ≠ S then { st with heap := setValue st.heap d.2 v }         -- x->value = val
  else if !allocOk then st
  else
    let y := d.1
    let n := st.fresh
    let h := st.heap.set n { key := k, value := v, parent := y, left := S, right := S, color := .red }
    let st := { st with heap := h, size := st.size + 1, fresh := st.fresh + 1 }
    if y = S then { st with root := n, heap := setColor st.heap n .black }
    else
      let h := if cmp k (st.heap.get y).key < 0 then setLeft st.heap y n else setRight st.heap y n
      rebalanceAfterInsert { st with heap := h } n

/-! ### deletion -/

/-- `rebalance_after_delete(table, x)`; `x` may be the sentinel, whose `parent` was set by `transplant` -/
def rebalDeleteLoop : Nat → PT → Nat → PT × Nat
  | 0, st, x => (st, x)
  | f + 1, st, x =>
    let h := st.heap
    if x = st.root ∨ (h.get x).color ≠ .black then (st, x)
    else
      let xp := (h.get x).parent
      if x = (h.get xp).left then
        let w := (h.get xp).right
        let stw : PT × Nat :=
          if (h.get w).color = .red then
            let h := setColor h w .black
            let h := setColor h xp .red
            let st := rotateLeft { st with heap := h } xp
            (st, (st.heap.get (st.heap.get x).parent).right)
          else (st, w)
        let st := stw.1
        let w := stw.2
        let h := st.heap
        if (h.get (h.get w).left).color = .black ∧ (h.get (h.get w).right).color = .black then
          let h := setColor h w .red
          rebalDeleteLoop f { st with heap := h } (h.get x).parent
        else
          let stw : PT × Nat :=
            if (h.get (h.get w).right).color = .black then
              let h := setColor h (h.get w).left .black
              let h := setColor h w .red
              let st := rotateRight { st with heap := h } w
              (st, (st.heap.get (st.heap.get x).parent).right)
            else (st, w)
          let st := stw.1
          let w := stw.2
          let h := st.heap
          let h := setColor h w (h.get (h.get x).parent).color
          let h := setColor h (h.get x).parent .black
          let h := setColor h (h.get w).right .black
          let st := rotateLeft { st with heap := h } (h.get x).parent
          (st, st.root)                                             -- x = table->root (loop ends)
      else
        let w := (h.get xp).left
        let stw : PT × Nat :=
          if (h.get w).color = .red then
            let h := setColor h w .black
            let h := setColor h xp .red
            let st := rotateRight { st with heap := h } xp
            (st, (st.heap.get (st.heap.get x).parent).left)
          else (st, w)
        let st := stw.1
        let w := stw.2
        let h := st.heap
        if (h.get (h.get w).right).color = .black ∧ (h.get (h.get w).left).color = .black then
          let h := setColor h w .red
          rebalDeleteLoop f { st with heap := h } (h.get x).parent
        else
          let stw : PT × Nat :=
            if (h.get (h.get w).left).color = .black then
              let h := setColor h (h.get w).right .black
              let h := setColor h w .red
              let st := rotateLeft { st with heap := h } w
              (st, (st.heap.get (st.heap.get x).parent).left)
            else (st, w)
          let st := stw.1
          let w := stw.2
          let h := st.heap
          let h := setColor h w (h.get (h.get x).parent).color
          let h := setColor h (h.get x).parent .black
          let h := setColor h (h.get w).left .black
          let st := rotateRight { st with heap := h } (h.get x).parent
          (st, st.root)

def rebalanceAfterDelete (st : PT) (x : Nat) : PT :=
  let r := rebalDeleteLoop (st.size + 2) st x
  { r.1 with heap := setColor r.1.heap r.2 .black }                  -- x->color = RB_BLACK

/-- `remove_node(table, z)` -/
def removeNode (st : PT) (z : Nat) : PT :=
  let h := st.heap
  let r : PT × Nat × Colour :=
    if (h.get z).left = S then
      (transplant st z (h.get z).right, (h.get z).right, (h.get z).color)
    else if (h.get z).right = S then
      (transplant st z (h.get z).left, (h.get z).left, (h.get z).color)
    else
      let y := treeMin h (st.size + 1) (h.get z).right
      let yc := (h.get y).color
      let x := (h.get y).right
      let st :=
        if (h.get y).parent = z then { st with heap := setParent h x y }        -- x->parent = y
        else
          let st := transplant st y (h.get y).right
          let h := setRight st.heap y (st.heap.get z).right                     -- y->right = z->right
          let h := setParent h (h.get y).right y                                -- y->right->parent = y
          { st with heap := h }
      let st := transplant st z y
      let h := setLeft st.heap y (st.heap.get z).left                           -- y->left = z->left
      let h := setParent h (h.get y).left y                                     -- y->left->parent = y
      let h := setColor h y (h.get z).color                                     -- y->color = z->color
      ({ st with heap := h }, x, yc)
  let st := if r.2.2 = .black then rebalanceAfterDelete r.1 r.2.1 else r.1
  { st with heap := st.heap.del z, size := st.size - 1 }                        -- mem_free(z); size--

/-- `cc_treetable_remove` -/
def remove (cmp : Nat → Nat → Int) (st : PT) (k : Nat) : PT :=
  match findNode cmp st k with
  | none => st
  | some z => removeNode st z

/-- `cc_treetable_remove_first` / `remove_last` -/
def removeFirst (st : PT) : PT :=
  if st.size = 0 then st else removeNode st (treeMin st.heap (st.size + 1) st.root)
def removeLast (st : PT) : PT :=
  if st.size = 0 then st else removeNode st (treeMax st.heap (st.size + 1) st.root)

/-- `tree_destroy` + reset of `cc_treetable_remove_all` -/
def destroyLoop (h : Heap) : Nat → Nat → Heap
  | 0, _ => h
  | f + 1, n => if n = S then h else
      let h1 := destroyLoop h f (h.get n).left
      let h2 := destroyLoop h1 f (h.get n).right
      h2.del n
def removeAll (st : PT) : PT :=
  { st with heap := destroyLoop st.heap (st.size + 1) st.root, size := 0, root := S }

/-! ### iterator: two node pointers -/

/-- `current` : `some id`, the sentinel `some S`, or NULL `none`; `next` : an id or the sentinel -/
structure PIter where
  cur  : Option Nat := some S
  next : Nat := S
  deriving Repr, DecidableEq

def iterInit (st : PT) : PIter := { cur := some S, next := treeMin st.heap (st.size + 1) st.root }

/-- `cc_treetable_iter_next`: the node handed out becomes `current`, its successor is saved in `next` -/
def iterNext (st : PT) (it : PIter) : PIter :=
  if it.next = S then it
  else { cur := some it.next, next := successor st.heap (st.size + 1) it.next }

/-- `cc_treetable_iter_remove` (only after a successful `next`) -/
def iterRemove (st : PT) (it : PIter) : PT × PIter :=
  match it.cur with
  | none => (st, it)
  | some c => if c = S then (st, it) else (removeNode st c, { it with cur := none })

/-! ### abstraction -/

/-- the inductive tree spanned by the `left` / `right` links below `n` -/
def toTreeF (h : Heap) : Nat → Nat → Tree
  | 0, _ => .nil
  | f + 1, n =>
    if n = S then .nil
    else .node (h.get n).color (toTreeF h f (h.get n).left) (h.get n).key (h.get n).value (toTreeF h f (h.get n).right)

def toTree (st : PT) : Tree := toTreeF st.heap (st.size + 1) st.root

/-! ### executable well-formedness check (run by the driver after every call)

`walkB` follows the `left` / `right` links from a node and checks every `parent` field on the way; `wfB` adds
the remaining clauses of `Represents` (Proofs/PTreeWF.lean): no node twice, `size`, allocation serial, the
sentinel's fields — and that every node of the tree and the sentinel are live entries of the heap (the
model's `Heap.get` is total: a dead id would silently read as a zero node).  `Proofs/PTreeWfB.lean` proves
`wfB st = true → WF st`. -/

/-- ids below `i` in pre-order, `none` when a `parent` field is not the node above or fuel runs out -/
def walkB (h : Heap) : Nat → Nat → Nat → Option (List Nat)
  | 0, i, _ => if i = S then some [] else none
  | f + 1, i, p =>
    if i = S then some []
    else if (h.get i).parent ≠ p then none
    else
      match walkB h f (h.get i).left i, walkB h f (h.get i).right i with
      | some l, some r => some (i :: (l ++ r))
      | _, _ => none

/-- no id twice, in `n log n` (the driver runs `wfB` after every call, also on trees of > 1000 nodes) -/
def strictAsc : List Nat → Bool
  | a :: b :: l => decide (a < b) && strictAsc (b :: l)
  | _ => true
def nodupB (l : List Nat) : Bool := strictAsc (l.mergeSort (fun a b => decide (a ≤ b)))

def wfB (st : PT) : Bool :=
  match walkB st.heap (st.size + 1) st.root S with
  | none => false
  | some ids =>
    nodupB ids && ids.length == st.size && ids.all (fun i => decide (i < st.fresh)) && decide (0 < st.fresh) &&
    (st.heap.get S).color == .black && (st.heap.get S).key == 0 && (st.heap.get S).value == 0 &&
    (st.heap.get S).left == 0 && (st.heap.get S).right == 0 &&
    st.heap.m.contains S && ids.all (fun i => st.heap.m.contains i)

/-! ### the public calls with their status and out-value (what the C functions return)

`step` is one call of the table API on the pointer-level state: the status code, the out-value and the callback
log exactly as `cc_treetable_*` produce them, computed from the heap by the loops above (`addDescent`, `findLoop`,
`tree_min`/`tree_max`, `get_successor_node`/`get_predecessor_node`, the in-order walk of the `foreach` functions).
`ok` is the allocator's answer to the one request `add` may make.  `Proofs/PTreeStep.lean` proves that it returns
what the ordered-map specification demands (`pstep_refines`). -/

/-- the in-order walk `n = tree_min(root); while (n != sentinel) { …; n = get_successor_node(n); }` of the iterator,
`foreach_key`, `foreach_value`, `contains_value` -/
def walkLoop (st : PT) : Nat → Nat → List (Nat × Nat)
  | 0, _ => []
  | f + 1, n =>
    if n = S then []
    else ((st.heap.get n).key, (st.heap.get n).value) :: walkLoop st f (successor st.heap (st.size + 1) n)
def inorder (st : PT) : List (Nat × Nat) := walkLoop st (st.size + 1) (treeMin st.heap (st.size + 1) st.root)

def step (cmp : Nat → Nat → Int) (st : PT) (op : Spec.OrdMap.Op) (ok : Bool) : Spec.OrdMap.Out × PT :=
  match op with
  | .add k v =>
    let d := addDescent cmp st.heap k (st.size + 1) S st.root
    ({ st := some (if d.2 ≠ S then .ok else if ok then .ok else .errAlloc) }, add cmp st k v ok)
  | .get k =>
    match findNode cmp st k with
    | some n => ({ st := some .ok, val := some (st.heap.get n).value }, st)
    | none => ({ st := some .errKeyNotFound }, st)
  | .containsKey k => ({ val := some (if (findNode cmp st k).isSome then 1 else 0) }, st)
  | .containsValue v => ({ val := some ((inorder st).filter (fun e => e.2 == v)).length }, st)
  | .remove k =>
    match findNode cmp st k with
    | some n => ({ st := some .ok, val := some (st.heap.get n).value }, removeNode st n)
    | none => ({ st := some .errKeyNotFound }, st)
  | .removeFirst =>
    if st.size = 0 then ({ st := some .errKeyNotFound }, st)
    else
      let n := treeMin st.heap (st.size + 1) st.root
      ({ st := some .ok, val := some (st.heap.get n).value }, removeNode st n)
  | .removeLast =>
    if st.size = 0 then ({ st := some .errKeyNotFound }, st)
    else
      let n := treeMax st.heap (st.size + 1) st.root
      ({ st := some .ok, val := some (st.heap.get n).value }, removeNode st n)
  | .removeAll => ({}, removeAll st)
  | .firstKey =>
    let n := treeMin st.heap (st.size + 1) st.root
    if n = S then ({ st := some .errKeyNotFound }, st) else ({ st := some .ok, val := some (st.heap.get n).key }, st)
  | .lastKey =>
    let n := treeMax st.heap (st.size + 1) st.root
    if n = S then ({ st := some .errKeyNotFound }, st) else ({ st := some .ok, val := some (st.heap.get n).key }, st)
  | .firstValue =>
    let n := treeMin st.heap (st.size + 1) st.root
    if n = S then ({ st := some .errValueNotFound }, st) else ({ st := some .ok, val := some (st.heap.get n).value }, st)
  | .lastValue =>
    let n := treeMax st.heap (st.size + 1) st.root
    if n = S then ({ st := some .errValueNotFound }, st) else ({ st := some .ok, val := some (st.heap.get n).value }, st)
  | .greaterThan k =>
    match findNode cmp st k with
    | none => ({ st := some .errKeyNotFound }, st)
    | some n =>
      let s := successor st.heap (st.size + 1) n
      if s = S then ({ st := some .errKeyNotFound }, st) else ({ st := some .ok, val := some (st.heap.get s).key }, st)
  | .lesserThan k =>
    match findNode cmp st k with
    | none => ({ st := some .errKeyNotFound }, st)
    | some n =>
      let s := predecessor st.heap (st.size + 1) n
      if s = S then ({ st := some .errKeyNotFound }, st) else ({ st := some .ok, val := some (st.heap.get s).key }, st)
  | .foreachKey => ({ log := (inorder st).map (·.1) }, st)
  | .foreachValue => ({ log := (inorder st).map (·.2) }, st)
  | .size => ({ val := some st.size }, st)

/-- a history: every call with the allocator's answer to its request -/
def run (cmp : Nat → Nat → Int) (st : PT) : List (Spec.OrdMap.Op × Bool) → List Spec.OrdMap.Out × PT
  | [] => ([], st)
  | (op, refused) :: rest =>
    let r := step cmp st op (!refused)
    let rs := run cmp r.2 rest
    (r.1 :: rs.1, rs.2)

/-- the descent of `cc_treetable_add` / `get_tree_node_by_key` with the number of comparator calls (one per node
visited; the C code calls `cmp` once per iteration) -/
def descentCount (cmp : Nat → Nat → Int) (h : Heap) (k : Nat) : Nat → Nat → Nat
  | 0, _ => 0
  | f + 1, n =>
    if n = S then 0
    else if cmp k (h.get n).key < 0 then descentCount cmp h k f (h.get n).left + 1
    else if 0 < cmp k (h.get n).key then descentCount cmp h k f (h.get n).right + 1
    else 1

end CC.PTree
