import CollectionsC.Base.Status
import CollectionsC.Base.Mem
/-! Common state of the two linked-list models (`Model/LinkedList.lean`, `Model/SList.lean`).

A list is its **node chain** (the element values in `next` order; one heap block per node) plus the
bookkeeping the C code maintains by hand: `size`, `head`, `tail`.  Node pointers (`head`, `tail`,
iterator cursors, local variables of the C functions) are modelled as `Ptr`: `none` is `NULL`,
`some j` points to the `j`-th node of the chain.  The raw `next`/`prev` fields are abstracted:
the successor of node `j` is node `j+1` (`NULL` after the last), its predecessor node `j-1`.  That
this is what the heap looks like is checked by the structure walkers of the harness, not proved.

Linking a node into the chain or unlinking one renumbers the nodes behind it; `shiftIns`/`shiftDel`
/`swapPtr` renumber a pointer so that it keeps denoting *the same node* (pointer stability).  Every
assignment to `head`/`tail`/`size` in the C text is an explicit assignment in the model, so a
forgotten `list->tail = node` leaves a stale pointer and breaks `Chain.Inv`. -/
namespace CC

abbrev Ptr := Option Nat

namespace Ptr
/-- `k` nodes were linked in at position `p` -/
def shiftIns (p k : Nat) : Ptr → Ptr
  | none => none
  | some j => if p ≤ j then some (j + k) else some j
/-- the node at position `p` was unlinked (a pointer to that node itself dangles) -/
def shiftDel (p : Nat) : Ptr → Ptr
  | none => none
  | some j => if p < j then some (j - 1) else some j
/-- the nodes at positions `a` and `b` exchanged places -/
def swapPtr (a b : Nat) : Ptr → Ptr
  | none => none
  | some j => if j = a then some b else if j = b then some a else some j
/-- pointer into a chain that was linked in at position `p` of another chain -/
def offset (p : Nat) : Ptr → Ptr
  | none => none
  | some j => some (j + p)
/-- may be dereferenced in a chain of `n` nodes -/
def valid (n : Nat) : Ptr → Bool
  | none => false
  | some j => j < n
/-- `node->next` in a chain of `n` nodes -/
def next (n : Nat) : Ptr → Ptr
  | none => none
  | some j => if j + 1 < n then some (j + 1) else none
/-- `node->prev` -/
def prev : Ptr → Ptr
  | none => none
  | some j => if j = 0 then none else some (j - 1)
def pos (p : Ptr) : Nat := p.getD 0
/-- the node at position `src` was relinked so that it stands in front of the node at `dst ≤ src` -/
def movePtr (src dst : Nat) : Ptr → Ptr
  | none => none
  | some j => if j = src then some dst else if dst ≤ j ∧ j < src then some (j + 1) else some j
/-- every `next` link of a chain of `n` nodes was turned around -/
def rev (n : Nat) : Ptr → Ptr
  | none => none
  | some j => some (n - 1 - j)
end Ptr

structure Chain where
  nodes : List Nat := []
  size  : Nat := 0
  head  : Ptr := none
  tail  : Ptr := none
  /-- the allocator triple copied from the configuration (`list->mem_alloc/mem_calloc/mem_free`) -/
  triple : Triple := .conf
  deriving Repr, DecidableEq

namespace Chain

/-- abstraction: the element sequence -/
def abs (l : Chain) : List Nat := l.nodes

/-- representation invariant: the hand-maintained bookkeeping describes the chain -/
def Inv (l : Chain) : Prop :=
  l.size = l.nodes.length ∧
  l.head = (if l.nodes.length = 0 then none else some 0) ∧
  l.tail = (if l.nodes.length = 0 then none else some (l.nodes.length - 1))

instance (l : Chain) : Decidable l.Inv := by unfold Inv; infer_instance

/-- `p->data` -/
def data (l : Chain) (p : Ptr) : Nat := l.nodes.getD p.pos 0
/-- `p->data = x` -/
def setData (l : Chain) (p : Ptr) (x : Nat) : Chain := { l with nodes := l.nodes.set p.pos x }

/-- a fresh node carrying `x` is linked in so that it becomes node `p` -/
def ins (l : Chain) (p x : Nat) : Chain :=
  { l with nodes := l.nodes.insertIdx p x, head := l.head.shiftIns p 1, tail := l.tail.shiftIns p 1 }
/-- a chain of nodes is linked in in front of node `p` (behind the last node for `p = length`) -/
def insMany (l : Chain) (p : Nat) (xs : List Nat) : Chain :=
  { l with nodes := l.nodes.take p ++ xs ++ l.nodes.drop p,
           head := l.head.shiftIns p xs.length, tail := l.tail.shiftIns p xs.length }
/-- node `p` is unlinked and released -/
def del (l : Chain) (p : Nat) : Chain :=
  { l with nodes := l.nodes.eraseIdx p, head := l.head.shiftDel p, tail := l.tail.shiftDel p }
/-- nodes `a` and `b` exchange places (relinking, the data stays in its node) -/
def swapNodes (l : Chain) (a b : Nat) : Chain :=
  { l with nodes := (l.nodes.set a (l.nodes.getD b 0)).set b (l.nodes.getD a 0),
           head := l.head.swapPtr a b, tail := l.tail.swapPtr a b }

/-- `link_behind(base, ins)` for a node `ins` (position `src`) that is already part of the chain and
stands behind `base` (position `dst < src`; for `dst = src` the C function would make the node its own
neighbour, the model is the identity — the merge loop reaches that case only for a comparator with
`cmp(x, x) > 0`, i.e. outside the contract): it is unlinked and relinked in front of `base` -/
def moveBefore (l : Chain) (src dst : Nat) : Chain :=
  { l with nodes := (l.nodes.eraseIdx src).insertIdx dst (l.nodes.getD src 0),
           head := l.head.movePtr src dst, tail := l.tail.movePtr src dst }

/-- every `next` link is turned around (singly linked `reverse`): the chain runs the other way -/
def flip (l : Chain) : Chain :=
  { l with nodes := l.nodes.reverse, head := l.head.rev l.nodes.length, tail := l.tail.rev l.nodes.length }

/-- the data met when following `next` from `p` to `NULL` -/
def walk (l : Chain) (p : Ptr) : List Nat :=
  match p with
  | none => []
  | some j => l.nodes.drop j
/-- the data met when following `prev` from `p` to `NULL` -/
def walkBack (l : Chain) (p : Ptr) : List Nat :=
  match p with
  | none => []
  | some j => (l.nodes.take (j + 1)).reverse

/-- forward traversal from the stored `head` -/
def forward (l : Chain) : List Nat := l.walk l.head
/-- backward traversal from the stored `tail` -/
def backward (l : Chain) : List Nat := l.walkBack l.tail

/-- first node at or behind `p` whose data satisfies `f` -/
def find (l : Chain) (p : Ptr) (f : Nat → Bool) : Ptr :=
  match p with
  | none => none
  | some j =>
    match (l.nodes.drop j).findIdx? f with
    | some i => some (j + i)
    | none => none

/-- `k` times `->next` -/
def walkNext (n : Nat) (p : Ptr) : Nat → Ptr
  | 0 => p
  | k + 1 => walkNext n (p.next n) k
/-- `k` times `->prev` -/
def walkPrev (p : Ptr) : Nat → Ptr
  | 0 => p
  | k + 1 => walkPrev p.prev k

end Chain

/-- `n` releases in a row through the triple `t` -/
def Mem.freeN (t : Triple) : Nat → Mem → Mem
  | 0, m => m
  | k + 1, m => Mem.freeN t k (m.freeT t)

namespace Chain
/-! loops that `cc_list.c` and `cc_slist.c` share word for word -/

/-- `link_all_externally`: one node per element of `src`; on a refusal every copy made so far is
released.  `t` is the triple of the **destination** list (`dest->mem_calloc`, `dest->mem_free`,
repair L5).  Returns the data of the external chain. -/
def linkAll (t : Triple) (src : Chain) : Nat → Ptr → List Nat → Mem → Bool × List Nat × Mem
  | 0, _, acc, m => (true, acc, m)
  | k + 1, ins, acc, m =>
    let a := m.allocT t
    if !a.1 then (false, [], Mem.freeN t acc.length a.2) else
    let m := a.2.check (ins.valid src.nodes.length)
    linkAll t src k (ins.next src.nodes.length) (acc ++ [src.data ins]) m
def linkAllExternally (t : Triple) (src : Chain) (m : Mem) : Bool × List Nat × Mem :=
  linkAll t src src.size src.head [] m

/-- `for (i = 0; i < k; i++) { array[i] = node->data; node = node->next; }` -/
def collect (l : Chain) : Nat → Ptr → Mem → List Nat × Mem
  | 0, _, m => ([], m)
  | k + 1, node, m =>
    let m := m.check (node.valid l.nodes.length)
    let r := collect l k (node.next l.nodes.length) m
    (l.data node :: r.1, r.2)

/-- `for (i = 0; i < k; i++) { node->data = elements[i]; node = node->next; }` -/
def writeBack : Nat → Nat → Ptr → List Nat → Chain → Mem → Chain × Mem
  | 0, _, _, _, l, m => (l, m)
  | k + 1, i, node, vals, l, m =>
    let m := m.check (node.valid l.nodes.length && decide (i < vals.length))
    writeBack k (i + 1) (node.next l.nodes.length) vals (l.setData node (vals.getD i 0)) m
/-- `while (node) { if (f(node->data)) count++; node = node->next; }` (`contains`, `contains_value`) -/
def countLoop (l : Chain) (f : Nat → Bool) : Nat → Ptr → Nat → Mem → Nat × Mem
  | 0, _, c, m => (c, m)
  | k + 1, node, c, m =>
    match node with
    | none => (c, m)
    | some _ =>
      let m := m.check (node.valid l.nodes.length)
      countLoop l f k (node.next l.nodes.length) (if f (l.data node) then c + 1 else c) m

/-- `while (node) { if (f(node->data)) { *index = i; return CC_OK; } i++; node = node->next; }` -/
def indexLoop (l : Chain) (f : Nat → Bool) : Nat → Ptr → Nat → Mem → Option Nat × Mem
  | 0, _, _, m => (none, m)
  | k + 1, node, i, m =>
    match node with
    | none => (none, m)
    | some _ =>
      let m := m.check (node.valid l.nodes.length)
      if f (l.data node) then (some i, m) else indexLoop l f k (node.next l.nodes.length) (i + 1) m

/-- `while (n) { op(n->data); n = n->next; }`: the arguments the callback receives -/
def foreachLoop (l : Chain) : Nat → Ptr → Mem → List Nat × Mem
  | 0, _, m => ([], m)
  | k + 1, node, m =>
    match node with
    | none => ([], m)
    | some _ =>
      let m := m.check (node.valid l.nodes.length)
      let r := foreachLoop l k (node.next l.nodes.length) m
      (l.data node :: r.1, r.2)
end Chain

/-- `x - 1` in `size_t` -/
def wdec (x : Nat) : Nat := if x = 0 then 2 ^ 64 - 1 else x - 1

end CC
