import CollectionsC.Driver.Cmd
import CollectionsC.Spec.MapSpec
import CollectionsC.Model.HashTable
import CollectionsC.Model.PHash
import Std.Data.HashMap
/-! Line-protocol driver for the hash-table model and the ideal map.  Also home of the pieces shared
with the hash-set driver: the harness hash functions, the library's own hash functions (djb2,
MurmurHash3 x86_32 and its pointer variant, transcribed so that the model can follow the real bucket
layout under `hash=lib_*`), the Float32 threshold, and the formatting helpers. -/
namespace CC.Driver.HashCommon
open CC CC.Driver

/-! ### hash functions -/
def rotl32 (x : UInt32) (r : UInt32) : UInt32 := (x <<< r) ||| (x >>> (32 - r))
def fmix32 (h : UInt32) : UInt32 :=
  let h := h ^^^ (h >>> 16)
  let h := h * 0x85ebca6b
  let h := h ^^^ (h >>> 13)
  let h := h * 0xc2b2ae35
  h ^^^ (h >>> 16)
def mixBlock (h1 k1 : UInt32) : UInt32 :=
  let k1 := k1 * 0xcc9e2d51
  let k1 := rotl32 k1 15
  let k1 := k1 * 0x1b873593
  let h1 := h1 ^^^ k1
  let h1 := rotl32 h1 13
  h1 * 5 + 0xe6546b64
/-- `cc_hashtable_hash` (32-bit MurmurHash3) over `data` -/
def murmur32 (data : List UInt8) (seed : UInt32) : Nat :=
  let len := data.length
  let nblocks := len / 4
  let byte (i : Nat) : UInt32 := (data.getD i 0).toUInt32
  let h1 := (List.range nblocks).foldl (fun h i =>
    mixBlock h (byte (4*i) ||| (byte (4*i+1) <<< 8) ||| (byte (4*i+2) <<< 16) ||| (byte (4*i+3) <<< 24))) seed
  let t := nblocks * 4
  let r := len % 4
  let k1 : UInt32 := 0
  let k1 := if r ≥ 3 then k1 ^^^ (byte (t+2) <<< 16) else k1
  let k1 := if r ≥ 2 then k1 ^^^ (byte (t+1) <<< 8) else k1
  let h1 := if r ≥ 1 then
      let k1 := k1 ^^^ byte t
      let k1 := k1 * 0xcc9e2d51
      let k1 := rotl32 k1 15
      let k1 := k1 * 0x1b873593
      h1 ^^^ k1
    else h1
  let h1 := h1 ^^^ UInt32.ofNat len
  (fmix32 h1).toNat
/-- `cc_hashtable_hash_ptr` (32-bit variant): hashes the low 32 bits of the pointer -/
def murmurPtr (key : Nat) (len : Nat) (seed : UInt32) : Nat :=
  let h1 := mixBlock seed (UInt32.ofNat key)
  let h1 := h1 ^^^ UInt32.ofNat len
  (fmix32 h1).toNat
/-- `cc_hashtable_hash_string` (djb2) on the decimal string of the key, `len = -1` -/
def djb2 (key : Nat) (seed : Nat) : Nat :=
  let h0 := (seed + 5381) % 2 ^ 32
  (toString key).toUTF8.foldl (fun h ch => (((h <<< 5) + h) % 2 ^ 64) ^^^ ch.toNat) h0

/-- the `klen`-byte image of key `k` the shims hash and compare: bytes 0..7 little-endian, byte `b ≥ 8` is byte
`b % 8` of `k` XOR `(b*157+11)` (so keys longer than a word have non-trivial, non-palindromic blocks) -/
def leBytes (k n : Nat) : List UInt8 := (List.range n).map fun i =>
  if i < 8 then UInt8.ofNat ((k >>> (8 * i)) % 256)
  else UInt8.ofNat ((((k >>> (8 * (i % 8))) % 256) ^^^ ((i * 157 + 11) % 256)) % 256)

def hashFn (kind : String) (seed klen : Nat) : Nat → Nat :=
  match kind with
  | "const" => fun _ => 7
  | "low" => fun k => k &&& 1
  | "mul" => fun k => (k * 2654435761) % 2 ^ 32
  | "lib_str" => fun k => djb2 k seed
  | "lib_gen" => fun k => murmur32 (leBytes k klen) (UInt32.ofNat seed)
  | "lib_ptr" => fun k => murmurPtr k 8 (UInt32.ofNat seed)
  | _ => fun k => k

/-- decimal string (`0.75`, `1`, `.5`) to Float32, like `strtof` -/
def parseF32 (s : String) : Float32 :=
  match s.splitOn "." with
  | [a] => Float32.ofScientific (a.toNat?.getD 0) false 0
  | [a, b] => Float32.ofScientific ((a ++ b).toNat?.getD 0) true b.length
  | _ => 0.75

def mkCfg (c : Cmd) : HCfg :=
  let lf := parseF32 ((c.str "lf").getD "0.75")
  { hash := hashFn ((c.str "hash").getD "id") (c.nat "seed" 0) (c.nat "klen" 4)
    thr := fun cap => (Float32.ofNat cap * lf).toUInt64.toNat
    agrow := fun cap => (Float32.ofNat cap * 2.0).toUInt64.toNat }

def defaultCfg : HCfg := mkCfg { kv := [("hash", "lib_str")] }

/-! ### formatting -/
def sortNat (xs : List Nat) : List Nat := xs.mergeSort (fun a b => decide (a ≤ b))
def sortPairs (xs : List (Nat × Nat)) : List (Nat × Nat) := xs.mergeSort (fun a b => decide (a.1 ≤ b.1))
def key (n : Nat) : Option Nat := if n = 0 then none else some n

/-- `keys=[…] vals=[…]` sorted by key -/
def fmtMap (m : Spec.Map) : String :=
  let ps := sortPairs (m.map fun e => (HT.encKey e.1, e.2))
  s!"keys={fmtList (ps.map (·.1))} vals={fmtList (ps.map (·.2))}"

def fmtEnts (t : HashTable) : String :=
  let rec go (i : Nat) (bs : List (List Entry)) : List String :=
    match bs with
    | [] => []
    | ch :: rest => ch.map (fun e => s!"{i}:{HT.encKey e.key}:{e.value}:{e.hash}") ++ go (i + 1) rest
  "[" ++ ",".intercalate (go 0 (t.buckets.take t.capacity)) ++ "]"

def fmtPtr (t : HashTable) (p : Option (Option Nat)) : String :=
  match p with
  | none => "-"
  | some k => if t.buckets.flatten.any (fun e => e.key == k) then toString (HT.encKey k) else "x"

/-- `pe=[bucket:id:key:next,…]`: every chain of the pointer-level model with its raw links -/
def fmtPe (pt : PHash.PTable) : String :=
  let rec go (i : Nat) (bs : List (Option Nat)) : List String :=
    match bs with
    | [] => []
    | p :: rest =>
      ((PHash.chainIds pt.heap pt.fresh p).1.map fun id =>
        let e := PHash.nd pt.heap id
        s!"{i}:{id}:{HT.encKey e.key}:{match e.next with | some n => toString n | none => "-"}") ++ go (i + 1) rest
  " pe=[" ++ ",".intercalate (go 0 (pt.buckets.take pt.capacity)) ++ "]"

def fmtPid (pt : PHash.PTable) (p : Option Nat) : String :=
  match p with
  | none => "-"
  | some id => if (pt.heap.get id).isSome then toString id else "x"

/-- `phys=sum`: the word-wise FNV-style checksum the shims compute over the chains -/
def sumStep (h x : UInt64) : UInt64 := (h ^^^ x) * 1099511628211
def sum0 : UInt64 := 14695981039346656037
def hex64 (x : UInt64) : String := String.ofList (Nat.toDigits 16 x.toNat)
def sumEnts (t : HashTable) : UInt64 :=
  let rec go (i : Nat) (bs : List (List Entry)) (h : UInt64) : UInt64 :=
    match bs with
    | [] => h
    | ch :: rest => go (i + 1) rest (ch.foldl (fun h e =>
        sumStep (sumStep (sumStep (sumStep h (UInt64.ofNat i)) (UInt64.ofNat (HT.encKey e.key))) (UInt64.ofNat e.value)) (UInt64.ofNat e.hash)) h)
  go 0 (t.buckets.take t.capacity) sum0
def sumPe (pt : PHash.PTable) : UInt64 :=
  let rec go (i : Nat) (bs : List (Option Nat)) (h : UInt64) : UInt64 :=
    match bs with
    | [] => h
    | p :: rest => go (i + 1) rest ((PHash.chainIds pt.heap pt.fresh p).1.foldl (fun h id =>
        let e := PHash.nd pt.heap id
        sumStep (sumStep (sumStep (sumStep h (UInt64.ofNat i)) (UInt64.ofNat id)) (UInt64.ofNat (HT.encKey e.key)))
          (match e.next with | some n => UInt64.ofNat n | none => 0xffffffffffffffff)) h)
  go 0 (pt.buckets.take pt.capacity) sum0

def fmtTable (t : HashTable) (it : Option HIter) (pt : Option PHash.PTable := none) (pit : Option PHash.PIter := none)
    (sum : Bool := false) : String :=
  let base := s!"cap={t.capacity} size={t.size} thr={t.threshold} " ++
    (if sum then s!"sum={hex64 (sumEnts t)}" else s!"ents={fmtEnts t}")
  let base := match it with
    | none => base
    | some i => base ++ s!" it={i.bucketIndex}/{fmtPtr t i.prev}/{fmtPtr t i.next}"
  match pt with
  | none => base
  | some pt =>
    base ++ (if sum then s!" psum={hex64 (sumPe pt)}" else fmtPe pt) ++ (match pit with
      | none => ""
      | some i => s!" pit={i.bucketIndex}/{fmtPid pt i.prev}/{fmtPid pt i.next}")

/-- the pointer-level model run alongside: same commands, same ledger input.  Returns the new pointer
table, the new pointer iterator and the ledger after the call (`none` when the command does not touch
the table). -/
def pstep (cfg : HCfg) (isSet : Bool) (pm : Option PHash.PTable) (pit : Option PHash.PIter) (c : Cmd) (m : Mem) :
    Option PHash.PTable × Option PHash.PIter × Option Mem :=
  let key (n : Nat) : Option Nat := if n = 0 then none else some n
  match c.op with
  | "new" | "new_default" =>
    let cap := if c.op == "new" then c.nat "cap" 16 else Gen.HASHTABLE_DEFAULT_CAPACITY
    let tr : Triple := if c.op == "new" then .conf else .libc
    if isSet then
      -- the set header is allocated first and released when the table constructor fails
      let a := m.allocT tr
      if !a.1 then (none, none, some a.2) else
      let r := PHash.PTable.new cfg cap tr a.2
      match r.2.1 with
      | none => (none, none, some (r.2.2.freeT tr))
      | some t => (some t, none, some r.2.2)
    else
      let r := PHash.PTable.new cfg cap tr m
      (r.2.1, none, some r.2.2)
  | "destroy" | "destroy_table" =>
    match pm with
    | none => (none, none, none)
    | some t => (none, none, some (if isSet then (t.destroy m).freeT t.triple else t.destroy m))
  | _ =>
  match pm with
  | none => (none, none, none)
  | some t =>
    match c.op with
    | "add" =>
      let r := t.add cfg (key (c.arg 0)) (if isSet then 1 else c.arg 1) m
      -- a live iterator survives an insertion unless it rehashes
      (some r.2.1, if r.2.1.capacity == t.capacity then pit else none, some r.2.2)
    | "get" => (some t, pit, some (t.get cfg (key (c.arg 0)) m).2.2)
    | "contains_key" | "contains" => (some t, pit, some (t.containsKey cfg (key (c.arg 0)) m).2)
    | "remove" =>
      let r := t.remove cfg (key (c.arg 0)) m
      -- … and a removal unless it frees the entry `prev_entry` / `next_entry` points to
      let names (p : Option Nat) : Bool := match p with
        | some id => (PHash.nd t.heap id).key == key (c.arg 0)
        | none => false
      let pit' := match pit with
        | some i => if names i.prev || names i.next then none else some i
        | none => none
      (some r.2.2.1, pit', some r.2.2.2)
    | "remove_all" =>
      let r := t.removeAll m
      (some r.1, none, some r.2)
    | "it_new" =>
      let r := t.iterInit m
      (some t, some r.1, some r.2)
    | "it_next" =>
      match pit with
      | none => (some t, none, none)
      | some it =>
        let r := t.iterNext it m
        (some t, some r.2.2.1, some r.2.2.2)
    | "it_remove" =>
      match pit with
      | none => (some t, none, none)
      | some it =>
        let r := t.iterRemove cfg it m
        (some r.2.2.1, some r.2.2.2.1, some r.2.2.2.2)
    | _ => (some t, pit, none)

/-- `model=off` sessions (tens of thousands of keys, hundreds of thousands of buckets: the list-based models cannot
follow, a rehash alone is quadratic for them).  The driver answers `M ?` (no model line: L3 is not judged) and computes
the ideal map's answers with a hash map: statuses and out-values of add / get / contains / remove / remove_all, END after
exactly `size` iterator steps (which key a step yields is not predicted: `S ?`), full content on `observe`. -/
structure Bulk where
  map : Std.HashMap Nat Nat := {}
  yielded : Nat := 0

def bulkStep (isSet : Bool) (b : Bulk) (c : Cmd) : Bulk × String :=
  let k := c.arg 0
  match c.op with
  | "new" => ({}, "st=0")
  | "add" => ({ b with map := b.map.insert k (if isSet then 1 else c.arg 1) }, "st=0")
  | "get" => (b, match b.map[k]? with | some v => s!"st=0 out={v}" | none => "st=6")
  | "contains_key" | "contains" => (b, s!"st=- out={if b.map.contains k then 1 else 0}")
  | "remove" =>
    (match b.map[k]? with
     | some v => ({ b with map := b.map.erase k }, if isSet then "st=0" else s!"st=0 out={v}")
     | none => (b, if isSet then "st=7" else "st=6"))
  | "remove_all" => ({ b with map := {} }, "st=-")
  | "it_new" => ({ b with yielded := 0 }, "st=-")
  | "it_next" => if b.yielded < b.map.size then ({ b with yielded := b.yielded + 1 }, "?") else (b, "st=9")
  | "observe" =>
    let ps := (b.map.toList.toArray.qsort (fun a b => a.1 < b.1)).toList
    (b, if isSet then s!"st=- size={b.map.size} elems={fmtList (ps.map (·.1))}"
        else s!"st=- size={b.map.size} keys={fmtList (ps.map (·.1))} vals={fmtList (ps.map (·.2))}")
  | "destroy" => (b, "st=-")
  | _ => (b, "?")

/-- the representation invariant `HashTable.Inv` evaluated bucket by bucket in one pass (the `Decidable` instance of
`Inv` indexes the bucket list once per slot, which is quadratic in the capacity); used on the `observe` lines of
`phys=sum` sessions, where tables have thousands of slots -/
def invFast (c : HCfg) (t : HashTable) : Bool :=
  let rec chains (i : Nat) (bs : List (List Entry)) : Bool :=
    match bs with
    | [] => true
    | ch :: rest => ch.all (fun e => e.hash == HT.keyHash c e.key && e.hash % t.capacity == i) && chains (i + 1) rest
  (List.range 32).any (fun k => t.capacity == 2 ^ k) && t.buckets.length == t.capacity &&
  t.size == t.buckets.flatten.length && chains 0 t.buckets &&
  decide ((t.buckets.flatten.map (·.key)).Nodup) && t.threshold == c.thr t.capacity

/-- execution aid: the model's heap is a function and every update wraps it in one more closure; after each command
the driver re-tabulates it over the ids handed out so far (`id < fresh`; no id at or above `fresh` is live), so a
look-up stays O(1) in long sessions.  The tabulated heap answers every `get` below `fresh` exactly as before (and
`none` from `fresh` on, where the allocation counter has not been yet). -/
def compactHeap (pt : PHash.PTable) : PHash.PTable :=
  let arr := (Array.range pt.fresh).map (fun i => pt.heap.get i)
  { pt with heap := ⟨fun j => arr.getD j none⟩ }

/-- does the pointer-level model agree with the bucket-list model? (shape, content read off the heap,
iterator, ledger) -/
def pAgree (t : Option HashTable) (it : Option HIter) (pm : Option PHash.PTable) (pit : Option PHash.PIter)
    (pmem : Option Mem) (mem : Mem) (full : Bool := true) : Bool :=
  (match pmem with | none => true | some pm' => decide (pm' = mem)) &&
  (match t, pm with
   | none, none => true
   | some t, some pt =>
     (if full then pt.shapeOk && decide (pt.toTable = t)
      else pt.capacity == t.capacity && pt.size == t.size && pt.threshold == t.threshold) &&
     (match it, pit with
      | none, none => true
      | some i, some pi => decide (pt.toIter pi = i)
      | _, _ => false)
   | _, _ => false)

/-- derived arrays: slot number, array -/
def fmtDarrObs (ds : List (Nat × List Nat)) : String :=
  String.join (ds.map fun d => s!" d{d.1}={fmtList (sortNat d.2)}")
def fmtDarrPhys (ds : List (Nat × DArr)) : String :=
  String.join (ds.map fun d => s!" d{d.1}={d.2.size}/{d.2.cap} e{d.1}={fmtList d.2.contents}")

def hdOut (st : Stat) (o : Option Nat) : String :=
  match o with | some v => s!"{fmtStat st} out={v}" | none => fmtStat st

end CC.Driver.HashCommon

-- container: hashtable
namespace CC.Driver.HashTableD
open CC CC.Driver CC.Driver.HashCommon

structure Sess where
  cfg    : HCfg := defaultCfg
  model  : Option HashTable := none
  spec   : Option Spec.Map := none
  iter   : Option HIter := none
  /-- ideal cursor: keys not yet yielded, last yielded key -/
  stodo  : List Spec.Key := []
  slast  : Option Spec.Key := none
  /-- derived arrays by slot: model array and ideal content -/
  darr   : List (Nat × DArr) := []
  sdarr  : List (Nat × List Nat) := []
  mem    : Mem := {}
  /-- pointer-level model run alongside, its iterator, and whether it agreed on this step -/
  pmodel : Option PHash.PTable := none
  piter  : Option PHash.PIter := none
  pmem   : Option Mem := none
  /-- `obs=sparse`: content is printed only by the `observe` op; `quiet` = this line prints none -/
  sparse : Bool := false
  quiet  : Bool := false
  /-- `phys=sum`: the chains are printed as checksums except on `observe`; `sumLine` = this line does so -/
  physSum : Bool := false
  sumLine : Bool := false
  /-- keys inserted through the table while the iterator session is open: the iterator may or may not reach them -/
  smaybe : List Spec.Key := []
  /-- `model=off` session -/
  bulk : Option Bulk := none

def obsM (s : Sess) : String :=
  if s.quiet then "" else
  (match s.model with
   | none => "size=- keys=[] vals=[]"
   | some t => s!"size={t.size} {fmtMap t.abs}") ++ fmtDarrObs (s.darr.map fun d => (d.1, d.2.contents))
def obsS (s : Sess) : String :=
  if s.quiet then "" else
  (match s.spec with
   | none => "size=- keys=[] vals=[]"
   | some m => s!"size={Spec.Map.size m} {fmtMap m}") ++ fmtDarrObs s.sdarr
def physM (s : Sess) (ord : Option (List Nat)) : String :=
  (match s.model with
   | none => "-"
   | some t => fmtTable t s.iter s.pmodel s.piter s.sumLine) ++ fmtDarrPhys s.darr ++
  (match ord with | none => "" | some l => s!" ord={fmtList l}")
def invM (s : Sess) : Bool :=
  -- on checksum lines of a `phys=sum` session only the cheap part is evaluated (the full invariant and the full
  -- comparison of the heap with the bucket lists are quadratic); every `observe` line evaluates everything
  (match s.model with
   | none => true
   | some t => if s.sumLine then decide (t.buckets.length = t.capacity) else if s.physSum then invFast s.cfg t
               else decide (t.Inv s.cfg)) &&
  s.darr.all (fun d => decide d.2.Inv) &&
  pAgree s.model s.iter s.pmodel s.piter s.pmem s.mem (!s.sumLine)

def lines (s : Sess) (hdS hdM : String) (ord : Option (List Nat) := none) : Sess × String × String :=
  (s, s!"S {hdS} {obsS s}", s!"M {hdM} {obsM s} | {physM s ord} | {fmtMem s.mem} | {fmtFlags (invM s) s.mem}")

def insertSlot {α : Type} (ds : List (Nat × α)) (slot : Nat) (a : α) : List (Nat × α) :=
  (ds.filter (·.1 < slot)) ++ [(slot, a)] ++ (ds.filter (·.1 > slot))
def slotOf (c : Cmd) : Nat := c.nat "to" (c.nat "o" 0)

/-- returns the new session, the spec line and the model line -/
def stepModel (s : Sess) (c : Cmd) : Sess × String × String :=
  let m := s.mem.begin c.sched
  let isNew := c.op == "new" || c.op == "new_default"
  let sparse := if isNew then c.str "obs" == some "sparse" else s.sparse
  let pcfg := if c.op == "new" then mkCfg c else if c.op == "new_default" then defaultCfg else s.cfg
  let (pm, pit, pmem) := pstep pcfg false s.pmodel s.piter c m
  let pmem := if c.op == "destroy" then pmem.map (fun m => s.darr.foldl (fun m d => d.2.destroy m) m) else pmem
  let physSum := if isNew then c.str "phys" == some "sum" else s.physSum
  let s := { s with sparse := sparse, quiet := sparse && c.op != "observe", pmodel := pm.map compactHeap, piter := pit, pmem := pmem,
                    physSum := physSum, sumLine := physSum && c.op != "observe" }
  let slot := slotOf c
  match c.op with
  | "new" | "new_default" =>
    let cfg := if c.op == "new" then mkCfg c else defaultCfg
    let cap := if c.op == "new" then c.nat "cap" 16 else Gen.HASHTABLE_DEFAULT_CAPACITY
    let (st, t, m) := HashTable.new cfg cap (if c.op == "new" then .conf else .libc) m
    let (sst, sp) := if c.fired > 0 then (Stat.errAlloc, none) else (Stat.ok, some Spec.Map.empty)
    lines { cfg := cfg, model := t, spec := sp, mem := m, darr := s.darr, sdarr := s.sdarr, sparse := s.sparse, quiet := s.quiet, pmodel := s.pmodel, piter := s.piter, pmem := s.pmem, physSum := s.physSum, sumLine := s.sumLine } (fmtStat sst) (fmtStat st)
  | "arr_add" | "arr_destroy" =>
    match s.darr.find? (·.1 == slot), s.sdarr.find? (·.1 == slot) with
    | some (_, a), some (_, l) =>
      if c.op == "arr_add" then
        let (st, a', m) := a.add s.cfg (c.arg 0) m
        let (sst, l') := if c.fired > 0 then (Stat.errAlloc, l) else (Stat.ok, l ++ [c.arg 0])
        lines { s with darr := insertSlot s.darr slot a', sdarr := insertSlot s.sdarr slot l', mem := m } (fmtStat sst) (fmtStat st)
      else
        lines { s with darr := s.darr.filter (·.1 != slot), sdarr := s.sdarr.filter (·.1 != slot), mem := a.destroy m } "st=-" "st=-"
    | _, _ => lines { s with mem := m } "st=- noslot" "st=- noslot"
  | "destroy" =>
    let m := match s.model with | some t => t.destroy m | none => m
    let m := s.darr.foldl (fun m d => d.2.destroy m) m
    lines { cfg := s.cfg, mem := m, sparse := s.sparse, quiet := s.quiet, pmodel := s.pmodel, piter := s.piter, pmem := s.pmem, physSum := s.physSum, sumLine := s.sumLine } "st=-" "st=-"
  | _ =>
  match s.model, s.spec with
  | some t, some sp =>
    match c.op with
    | "add" =>
      let k := key (c.arg 0)
      let (st, t', m) := t.add s.cfg k (c.arg 1) m
      let (sout, sp') := Spec.Map.step sp (.add k (c.arg 1)) (if c.fired > 0 then some .errAlloc else none)
      -- a live iterator survives an insertion unless it rehashes; whether it reaches a NEW key is unspecified
      let keep := t'.capacity == t.capacity
      let maybe := if sout.st == some .ok && !Spec.Map.contains sp k then k :: s.smaybe else s.smaybe
      lines { s with model := some t', spec := some sp', iter := if keep then s.iter else none, smaybe := maybe, mem := m }
        (fmtStat (sout.st.getD .ok)) (fmtStat st)
    | "get" =>
      let (st, out, m) := t.get s.cfg (key (c.arg 0)) m
      let (sout, _) := Spec.Map.step sp (.get (key (c.arg 0))) none
      lines { s with mem := m } (hdOut (sout.st.getD .ok) sout.val) (hdOut st out)
    | "contains_key" =>
      let (b, m) := t.containsKey s.cfg (key (c.arg 0)) m
      let (sout, _) := Spec.Map.step sp (.containsKey (key (c.arg 0))) none
      lines { s with mem := m } s!"st=- out={sout.val.getD 0}" s!"st=- out={if b then 1 else 0}"
    | "remove" =>
      let noout := c.nat "noout" 0 != 0
      let (st, out, t', m) := t.remove s.cfg (key (c.arg 0)) m
      let (sout, sp') := Spec.Map.step sp (.remove (key (c.arg 0))) none
      -- … and a removal unless it frees the entry `prev_entry` / `next_entry` points to
      let k := key (c.arg 0)
      let it' := match s.iter with
        | some i => if i.prev == some k || i.next == some k then none else some i
        | none => none
      lines { s with model := some t', spec := some sp', iter := it', stodo := s.stodo.erase k, smaybe := s.smaybe.erase k, mem := m }
        (hdOut (sout.st.getD .ok) (if noout then none else sout.val)) (hdOut st (if noout then none else out))
    | "remove_all" =>
      let (t', m) := t.removeAll m
      lines { s with model := some t', spec := some [], iter := none, mem := m } "st=-" "st=-"
    | "foreach_key" =>
      let (ks, m) := t.foreachKey m
      let ks := ks.map HT.encKey
      lines { s with mem := m } s!"st=- cb={fmtList (sortNat ((Spec.Map.keys sp).map HT.encKey))}" s!"st=- cb={fmtList (sortNat ks)}" (some ks)
    | "foreach_value" =>
      let (vs, m) := t.foreachValue m
      lines { s with mem := m } s!"st=- cb={fmtList (sortNat (Spec.Map.vals sp))}" s!"st=- cb={fmtList (sortNat vs)}" (some vs)
    | "mk_keys" | "mk_values" =>
      if slot < 1 || slot ≥ 4 || (s.darr.find? (·.1 == slot)).isSome then
        lines { s with mem := m } "st=- slotbusy" "st=- slotbusy"
      else
        let isKeys := c.op == "mk_keys"
        let (st, a, m) := if isKeys then t.getKeys s.cfg m else t.getValues s.cfg m
        let content := if isKeys then (Spec.Map.keys sp).map HT.encKey else Spec.Map.vals sp
        let sst : Stat := if c.fired > 0 then .errAlloc else if Spec.Map.size sp = 0 then .errInvalidCapacity else .ok
        let s' := { s with mem := m }
        let s' := match a with | some a => { s' with darr := insertSlot s.darr slot a } | none => s'
        let s' := if sst == .ok then { s' with sdarr := insertSlot s.sdarr slot content } else s'
        lines s' (fmtStat sst) (fmtStat st)
    | "it_new" =>
      let (it, m) := t.iterInit m
      lines { s with iter := some it, stodo := Spec.Map.keys sp, smaybe := [], slast := none, mem := m } "st=-" "st=-"
    | "it_next" =>
      match s.iter with
      | none => lines { s with mem := m } "st=- noiter" "st=- noiter"
      | some it =>
        let (st, e, it', m) := t.iterNext it m
        let hdM := match e with | some e => s!"{fmtStat st} k={HT.encKey e.key} v={e.value}" | none => fmtStat st
        -- ideal cursor: END exactly when nothing is left; otherwise it yields *some* pending entry —
        -- the model's choice is taken as the witness and checked to be a pending entry of the map
        let (hdS, todo, maybe, last) :=
          match e with
          | some e =>
            if (s.stodo.contains e.key || s.smaybe.contains e.key) && Spec.Map.lookup sp e.key == some e.value then
              (s!"{fmtStat .ok} k={HT.encKey e.key} v={e.value}", s.stodo.erase e.key, s.smaybe.erase e.key, some e.key)
            else (s!"{fmtStat .ok} k=not-pending", s.stodo, s.smaybe, s.slast)
          | none =>
            if s.stodo.isEmpty then (fmtStat .iterEnd, s.stodo, s.smaybe, s.slast)
            else (s!"{fmtStat .ok} k=pending-entries-left", s.stodo, s.smaybe, s.slast)
        lines { s with iter := some it', stodo := todo, smaybe := maybe, slast := last, mem := m } hdS hdM
    | "it_remove" =>
      match s.iter with
      | some it =>
        let noout := c.nat "noout" 0 != 0
        let (st, out, t', it', m) := t.iterRemove s.cfg it m
        -- ideal cursor: the last yielded entry can be removed once; otherwise KEY_NOT_FOUND
        let (sout, sp') := match s.slast with
          | some k => Spec.Map.step sp (.remove k) none
          | none => (⟨some .errKeyNotFound, none⟩, sp)
        let last := if sout.st == some .ok then none else s.slast
        lines { s with model := some t', spec := some sp', iter := some it', slast := last, mem := m }
          (hdOut (sout.st.getD .ok) (if noout then none else sout.val)) (hdOut st (if noout then none else out))
      | none => lines { s with mem := m } "st=- noiter" "st=- noiter"
    | "destroy_table" =>
      lines { s with model := none, spec := none, iter := none, mem := t.destroy m } "st=-" "st=-"
    | "observe" => lines { s with mem := m } "st=-" "st=-"
    | _ => lines { s with mem := m } "st=- badop" "st=- badop"
  | _, _ => lines { s with mem := m } "st=- nosession" "st=- nosession"

def step (s : Sess) (c : Cmd) : Sess × String × String :=
  let bulk := if c.op == "new" || c.op == "new_default" then (if c.str "model" == some "off" then some {} else none) else s.bulk
  match bulk with
  | some b =>
    let (b', body) := bulkStep false b c
    ({ bulk := if c.op == "destroy" then none else some b' }, if body == "?" then "S ?" else s!"S {body}", "M ?")
  | none => stepModel { s with bulk := none } c

end CC.Driver.HashTableD
