import CollectionsC.Driver.Cmd
import CollectionsC.Spec.Fifo
import CollectionsC.Model.Rbuf
-- container: rbuf
namespace CC.Driver.RbufD
open CC CC.Driver

structure Sess where
  model : Option Rbuf := none
  spec  : Option Spec.Fifo := none
  mem   : Mem := {}

def obsM (r : Option Rbuf) : String :=
  match r with
  | none => "abs=[]"
  | some r => s!"abs={fmtList r.abs} size={r.size} empty={if r.isEmpty then 1 else 0}"
def obsS (f : Option Spec.Fifo) : String :=
  match f with
  | none => "abs=[]"
  | some f => s!"abs={fmtList f.items} size={f.size} empty={if f.items.isEmpty then 1 else 0}"
def phys (r : Option Rbuf) : String :=
  match r with
  | none => "-"
  | some r => s!"size={r.size} cap={r.cap} head={r.head} tail={r.tail} buf={fmtList r.buf}"
def inv (r : Option Rbuf) : Bool := match r with | none => true | some r => decide r.Inv

def line (hd : String) (s : Sess) : String × String :=
  (s!"S {hd} {obsS s.spec}",
   s!"M {hd} {obsM s.model} | {phys s.model} | {fmtMem s.mem} | {fmtFlags (inv s.model) s.mem}")

/-- returns the new session, the spec line and the model line -/
def step (s : Sess) (c : Cmd) : Sess × String × String :=
  let m := s.mem.begin c.sched
  match c.op with
  | "new" | "new_default" =>
    let cap := if c.op == "new" then c.nat "cap" Gen.DEFAULT_CC_RBUF_CAPACITY else Gen.DEFAULT_CC_RBUF_CAPACITY
    let (st, r, m) := Rbuf.newT (if c.op == "new" then .conf else .libc) cap m
    -- spec: the constructor is refused exactly when the C run reported a fired refusal
    let (sst, sp) := if c.fired > 0 then (Stat.errAlloc, none) else (Stat.ok, some (Spec.Fifo.empty cap))
    let s' : Sess := { model := r, spec := sp, mem := m }
    (s', s!"S {fmtStat sst} {obsS sp}", (line (fmtStat st) s').2)
  | _ =>
  match s.model, s.spec with
  | some r, some f =>
    match c.op with
    | "enqueue" =>
      let (r', m) := r.enqueue (c.arg 0) m
      let s' : Sess := { model := some r', spec := some (f.enqueue (c.arg 0)), mem := m }
      (s', (line "st=-" s').1, (line "st=-" s').2)
    | "dequeue" =>
      let (st, out, r', m) := r.dequeue m
      let (sst, sout, f') := f.dequeue
      let s' : Sess := { model := some r', spec := some f', mem := m }
      let h (st : Stat) (o : Option Nat) := match o with | some v => s!"{fmtStat st} out={v}" | none => fmtStat st
      (s', (line (h sst sout) s').1, (line (h st out) s').2)
    | "peek" =>
      -- raw slot accessor: not part of the FIFO abstraction, so the spec line only repeats the content
      let (v, m) := r.peek ((c.argStr 0).toInt?.getD 0) m
      let s' : Sess := { s with mem := m }
      (s', s!"S ? peek", (line s!"st=- out={v}" s').2)
    | "destroy" =>
      let m := r.destroy m
      let s' : Sess := { model := none, spec := none, mem := m }
      (s', (line "st=-" s').1, (line "st=-" s').2)
    | _ => (s, "S st=- badop", "M st=- badop")
  | _, _ =>
    let s' := { s with mem := m }
    (s', "S st=- nosession", s!"M st=- nosession | - | {fmtMem m} | {fmtFlags true m}")

end CC.Driver.RbufD
