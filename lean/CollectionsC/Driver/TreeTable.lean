import CollectionsC.Driver.Cmd
import CollectionsC.Spec.OrdMapSpec
import CollectionsC.Model.TreeTable
import CollectionsC.Model.PTree
-- container: treetable
namespace CC.Driver.TreeTableD
open CC CC.Driver
open CC.Spec (OrdMap)
open CC.Spec.OrdMap (Op Out Cursor)

/-- the comparators of the harness (`harness/tree_common.h`): numeric, reversed, by `v % 100` then `v`, numeric with large magnitudes
(the difference clamped to ±(2^31-1)) -/
def cmpOf (which : Nat) : Nat → Nat → Int := fun a b =>
  match which with
  | 1 => if a < b then 1 else if b < a then -1 else 0
  | 2 => if a % 100 ≠ b % 100 then (if a % 100 > b % 100 then 7 else -7)
         else if a > b then 3 else if a < b then -3 else 0
  | 3 => if b < a then (if a - b > 2147483647 then 2147483647 else ((a - b : Nat) : Int))
         else if a < b then (if b - a > 2147483647 then -2147483647 else -((b - a : Nat) : Int)) else 0
  | _ => if a < b then -1 else if b < a then 1 else 0

structure Sess where
  which : Nat := 0
  model : Option TreeTable := none
  spec  : Option OrdMap := none
  iter  : Option TreeIter := none
  cursor : Option Cursor := none
  mem   : Mem := {}
  /-- `obs=sparse`: the content is printed by `observe` only -/
  sparse : Bool := false
  /-- the pointer-level model (Model/PTree.lean), run alongside: the dump is printed from its heap -/
  pt  : PTree.PT := {}
  pit : Option PTree.PIter := none
  /-- `keys=buf`: the shim presents keys as arena records compared by content (spec / model key = content); the dump
  then carries `!kp` per node — is the stored key pointer still the first one inserted for that content?  The C
  code keeps the old key when a value is replaced and re-links nodes on removal, so the model's answer is always 1 -/
  buf : Bool := false
  /-- `phys=quiet`: a checksum of the tree instead of the dump (the dump on `observe`) -/
  quiet : Bool := false

def fmtTree : Tree → String
  | .nil => "."
  | .node c l k v r => s!"({if c = .black then "B" else "R"} {k}:{v} {fmtTree l} {fmtTree r})"

/-- the dump of the pointer-level heap: colour, key:value, `#id^parent-id`, children (pre-order) -/
def fmtPT (h : PTree.Heap) (buf : Bool := false) : Nat → Nat → String
  | 0, _ => "..."
  | f + 1, n =>
    if n = PTree.S then "." else
    let nd := h.get n
    let par := if nd.parent = PTree.S then "S" else toString nd.parent
    let kp := if buf then "!1" else ""
    s!"({if nd.color = .black then "B" else "R"} {nd.key}:{nd.value}#{n}^{par}{kp} {fmtPT h buf f nd.left} {fmtPT h buf f nd.right})"

/-- FNV-1a 64 over the 8 little-endian bytes of a token (`harness/tree_common.h: fnv_tok`) -/
def fnvTok (h x : UInt64) : UInt64 := Id.run do
  let mut h := h
  for i in [0:8] do
    h := (h ^^^ ((x >>> (8 * i).toUInt64) &&& 0xff)) * 1099511628211
  return h

/-- the checksum of `phys=quiet` (`sum_node`): pre-order, sentinel link 0, node: 1/2 (black/red), key, value, id,
parent id, with `keys=buf` also kp (always 1 in the model) -/
def sumPT (h : PTree.Heap) (buf : Bool) : Nat → Nat → UInt64 → UInt64
  | 0, _, a => fnvTok a 4
  | f + 1, n, a =>
    if n = PTree.S then fnvTok a 0 else
    let nd := h.get n
    let a := fnvTok a (if nd.color = .black then 1 else 2)
    let a := fnvTok a nd.key.toUInt64
    let a := fnvTok a nd.value.toUInt64
    let a := fnvTok a n.toUInt64
    let a := fnvTok a nd.parent.toUInt64
    let a := if buf then fnvTok a 1 else a
    sumPT h buf f nd.right (sumPT h buf f nd.left a)

def hex16 (x : UInt64) : String :=
  let d := "0123456789abcdef".toList.toArray
  String.mk ((List.range 16).map fun i => d[((x >>> (4 * (15 - i)).toUInt64) &&& 0xf).toNat]!)

/-- a node pointer of the iterator: key (inductive model), node id (pointer-level model) and position (the C
shim computes the position by climbing the parent pointers) -/
def fmtNode (t : Tree) (pt : PTree.PT) (k : Nat) (id : Option Nat) : String :=
  let ids := match id with
    | some i => if i ≠ PTree.S ∧ (pt.heap.get i).key = k then toString i else "!"
    | none => "!"
  match Tree.posOf k t with
  | some p => s!"{k}#{ids}/" ++ String.join (p.map fun d => match d with | .L => "L" | .R => "R")
  | none => s!"{k}#{ids}/?"

def fmtIter (t : Tree) (pt : PTree.PT) (pit : Option PTree.PIter) : Option TreeIter → String
  | none => "-"
  | some it =>
    let c := match it.cur with | .sentinel => "S" | .null => "N" | .at k => fmtNode t pt k (pit.bind (fun (x : PTree.PIter) => x.cur))
    let n := match it.next with | none => "S" | some k => fmtNode t pt k (pit.map (fun (x : PTree.PIter) => x.next))
    s!"cur:{c},next:{n}"

/-- the pointer-level model follows the table calls (`ok`: the call did not report `CC_ERR_ALLOC`) -/
def ptStep (cmp : Nat → Nat → Int) (pt : PTree.PT) (op : Op) (ok : Bool) : PTree.PT :=
  match op with
  | .add k v => PTree.add cmp pt k v ok
  | .remove k => PTree.remove cmp pt k
  | .removeFirst => PTree.removeFirst pt
  | .removeLast => PTree.removeLast pt
  | .removeAll => PTree.removeAll pt
  | _ => pt

/-- the two Lean models agree: same tree (shape, colours, keys, values), same size — and the pointer-level
state is well-formed in full (`PTree.wfB`: every parent pointer, the sentinel's fields, no node twice, `size`,
allocation serial, every tree node live in the heap; sound for `PTree.WF` by `Proofs/PTreeWfB.wfB_sound`) -/
def ptAgrees (pt : PTree.PT) (t : TreeTable) : Bool :=
  PTree.toTree pt == t.root && pt.size == t.size && PTree.wfB pt

def content (m : OrdMap) : String :=
  s!"keys={fmtList (OrdMap.keys m)} vals={fmtList (OrdMap.values m)} size={m.length}"
def obsM (t : Option TreeTable) : String :=
  match t with
  | none => "keys=[] vals=[] size=0"
  | some t => s!"keys={fmtList t.foreachKey} vals={fmtList t.foreachValue} size={t.size}"
def obsS (f : Option OrdMap) : String := content (f.getD [])
def phys (s : Sess) (cmps : Nat) (full : Bool := false) : String :=
  match s.model with
  | none => "-"
  | some t =>
    let tree := if s.quiet && !full then s!"tree#={hex16 (sumPT s.pt.heap s.buf (s.pt.size + 1) s.pt.root 14695981039346656037)}"
                else s!"tree={fmtPT s.pt.heap s.buf (s.pt.size + 1) s.pt.root}"
    s!"size={t.size} cmps={cmps} it={fmtIter t.root s.pt s.pit s.iter} {tree}"

/-- `t.Inv cmp` in linear time (the `Decidable` instance of `Sorted` = `List.Pairwise` is quadratic; the scale stream
holds > 1000 keys): adjacent entries in order — for the harness comparators, all total orders
(`Properties/C03.cmpOf_total`), this is the pairwise order — the red-black rules, the size -/
def adjSorted (cmp : Nat → Nat → Int) : List (Nat × Nat) → Bool
  | a :: b :: l => decide (cmp a.1 b.1 < 0) && adjSorted cmp (b :: l)
  | _ => true
def invB (cmp : Nat → Nat → Int) (t : TreeTable) : Bool :=
  adjSorted cmp t.root.toList && decide t.root.RB && t.size == t.root.size
def inv (s : Sess) : Bool :=
  match s.model with | none => true | some t => invB (cmpOf s.which) t && ptAgrees s.pt t

/-- header of a result: status, out-value, callback log -/
def hdr (st : Option Stat) (val : Option Nat) (cb : Option (List Nat)) (noout : Bool := false) : String :=
  (match st with | some s => fmtStat s | none => "st=-") ++
  (match val with | some v => if noout then "" else s!" out={v}" | none => "") ++
  (match cb with | some l => s!" cb={fmtList l}" | none => "")

def lineS (hd : String) (s : Sess) (full : Bool := false) : String :=
  if s.sparse && !full then s!"S {hd} " else s!"S {hd} {obsS s.spec}"
def lineM (hd : String) (s : Sess) (cmps : Nat) (full : Bool := false) : String :=
  let obs := if s.sparse && !full then "" else obsM s.model
  s!"M {hd} {obs} | {phys s cmps full} | {fmtMem s.mem} | {fmtFlags (inv s) s.mem}"

/-- table operation of the history vocabulary named by a protocol line -/
def parseOp (c : Cmd) : Option Op :=
  match c.op with
  | "add" => some (.add (c.arg 0) (c.arg 1))
  | "get" => some (.get (c.arg 0))
  | "contains_key" => some (.containsKey (c.arg 0))
  | "contains_value" => some (.containsValue (c.arg 0))
  | "remove" => some (.remove (c.arg 0))
  | "remove_first" => some .removeFirst
  | "remove_last" => some .removeLast
  | "remove_all" => some .removeAll
  | "first_key" => some .firstKey
  | "last_key" => some .lastKey
  | "first_value" => some .firstValue
  | "last_value" => some .lastValue
  | "greater_than" => some (.greaterThan (c.arg 0))
  | "lesser_than" => some (.lesserThan (c.arg 0))
  | "foreach_key" => some .foreachKey
  | "foreach_value" => some .foreachValue
  | "size" => some .size
  | _ => none

def isForeach : Op → Bool | .foreachKey | .foreachValue => true | _ => false

def step (s : Sess) (c : Cmd) : Sess × String × String :=
  let m := s.mem.begin c.sched
  let noout := c.nat "noout" 0 != 0
  match c.op with
  | "new" | "new_default" =>
    -- `new_default`: the library's default constructor, i.e. the C library's allocator triple
    let (st, t, m) := TreeTable.newT (if c.op == "new_default" then .libc else .conf) m
    let (sst, sp) : Stat × Option OrdMap := if c.fired > 0 then (.errAlloc, none) else (.ok, some [])
    let s' : Sess := { which := c.nat "cmp" 0, model := t, spec := sp, mem := m, sparse := c.str "obs" == some "sparse", pt := PTree.new,
                       buf := c.str "keys" == some "buf", quiet := c.str "phys" == some "quiet" }
    (s', lineS (fmtStat sst) s', lineM (fmtStat st) s' 0)
  | _ =>
  match s.model, s.spec with
  | some t, some f =>
    let cmp := cmpOf s.which
    match parseOp c with
    | some op =>
      let (o, t', m, n) := t.step cmp op m
      let (so, f') := OrdMap.step cmp f op (c.fired > 0)
      let pt' := ptStep cmp s.pt op (o.st != some Stat.errAlloc)
      let s' : Sess := { s with model := some t', spec := some f', mem := m, pt := pt' }
      let cb (o : Out) := if isForeach op then some o.log else none
      -- a strict successor / predecessor query with an ABSENT key: the property text ("the nearest existing key or
      -- not-found when none exists") does not say that the query key must be present; the code answers not-found.  A
      -- library that answered with the nearest existing key would satisfy the text: no verdict at L1 (M stays exact)
      let absentQuery := match op with
        | .greaterThan k | .lesserThan k => !(OrdMap.contains f k)
        | _ => false
      (s', if absentQuery then "S ?" else lineS (hdr so.st so.val (cb so) noout) s', lineM (hdr o.st o.val (cb o) noout) s' n)
    | none =>
    match c.op with
    | "it_new" =>
      let pit' := some (PTree.iterInit s.pt)
      let s' : Sess := { s with iter := some t.iterInit, cursor := some (Cursor.init f), mem := m, pit := pit' }
      (s', lineS "st=-" s', lineM "st=-" s' 0)
    | "it_drop" =>
      let s' : Sess := { s with iter := none, cursor := none, mem := m, pit := none }
      (s', lineS "st=-" s', lineM "st=-" s' 0)
    | "it_next" =>
      match s.iter, s.cursor with
      | some it, some cu =>
        let (st, e, it') := t.iterNext it
        let (sst, se, cu') := cu.next f
        let pit' := s.pit.map (PTree.iterNext s.pt)
        let s' : Sess := { s with iter := some it', cursor := some cu', mem := m, pit := pit' }
        let h (st : Stat) (e : Option (Nat × Nat)) :=
          match e with | some (k, v) => s!"{fmtStat st} k={k} out={v}" | none => fmtStat st
        (s', lineS (h sst se) s', lineM (h st e) s' 0)
      | _, _ => let s' := { s with mem := m }; (s', lineS "st=- noiter" s', lineM "st=- noiter" s' 0)
    | "it_remove" =>
      match s.iter, s.cursor with
      | some it, some cu =>
        if it.cur = .sentinel then
          let s' := { s with mem := m }; (s', lineS "st=- noiter" s', lineM "st=- noiter" s' 0)
        else
        let (st, v, t', it', m) := t.iterRemove cmp it m
        let (sst, sv, cu', f') := cu.remove f
        let pr := match s.pit with
          | some pi => let r := PTree.iterRemove s.pt pi; (r.1, some r.2)
          | none => (s.pt, none)
        let s' : Sess := { s with model := some t', spec := some f', iter := some it', cursor := some cu', mem := m, pt := pr.1, pit := pr.2 }
        (s', lineS (hdr (some sst) sv none noout) s', lineM (hdr (some st) v none noout) s' 0)
      | _, _ => let s' := { s with mem := m }; (s', lineS "st=- noiter" s', lineM "st=- noiter" s' 0)
    | "observe" =>
      let s' : Sess := { s with mem := m }
      (s', lineS "st=-" s' true, lineM "st=-" s' 0 true)
    | "destroy" =>
      let m := t.destroy m
      let s' : Sess := { which := s.which, mem := m, sparse := s.sparse, buf := s.buf, quiet := s.quiet }
      (s', lineS "st=-" s', lineM "st=-" s' 0)
    | _ => (s, "S st=- badop", "M st=- badop")
  | _, _ =>
    let s' := { s with mem := m }
    (s', "S st=- nosession", s!"M st=- nosession | - | {fmtMem m} | {fmtFlags true m}")

end CC.Driver.TreeTableD
