import CollectionsC.Driver.Cmd
import CollectionsC.Driver.Array
import CollectionsC.Model.Stack
/-! Line-protocol driver for `CC_Stack` (see `harness/shim_stack.c`).  The spec side is the ideal
list with the stack vocabulary of `Spec/SeqSpec.lean` (top = end of the list). -/
-- container: stack
namespace CC.Driver.StackD
open CC CC.Driver
open CC.Driver.ArrayD (parseF32 defaultFactor effFactor growF exGeF predEven fmtLast fmtBool fmtOut fmtOut2 NSLOT growCheck absurdBegin absurdEnd
  SSlot SpecSess finS roomFired roomSched nextCap specIt specZip2)

structure Sess where
  slots  : List (Option Stack) := [none, none, none, none]
  sslots : List (Option (List Nat)) := [none, none, none, none]
  it     : Option (Nat × ArrIter) := none
  zit    : Option (Nat × Nat × ArrIter) := none
  sit    : Option (Nat × Nat × Bool) := none
  szit   : Option (Nat × Nat × Nat × Bool) := none
  mem    : Mem := {}
  blind  : Bool := false
  /-- `obs=sparse` was given on the constructor line: no content sweep except in `observe` -/
  sparse : Bool := false
  /-- the independent spec pass (L1) -/
  sp : SpecSess := {}

def Sess.stk (s : Sess) (k : Nat) : Option Stack := (s.slots.getD k none)
def Sess.lst (s : Sess) (k : Nat) : Option (List Nat) := (s.sslots.getD k none)
def Sess.setStk (s : Sess) (k : Nat) (a : Option Stack) : Sess := { s with slots := s.slots.set k a }
def Sess.setLst (s : Sess) (k : Nat) (a : Option (List Nat)) : Sess := { s with sslots := s.sslots.set k a }

def obsM (s : Sess) : String :=
  String.join <| (List.range NSLOT).map fun k =>
    match s.stk k with
    | none => ""
    | some a => s!" a{k}={fmtList (CC.Driver.ArrayD.fastAbs a.v)} n{k}={a.size} l{k}={fmtLast (a.peek {}).2.1}"
def obsS (s : Sess) : String :=
  String.join <| (List.range NSLOT).map fun k =>
    match s.lst k with
    | none => ""
    | some xs => s!" a{k}={fmtList xs} n{k}={xs.length} l{k}={fmtLast (Spec.Seq.peek xs).2}"
def physM (s : Sess) (quiet : Bool := false) : String :=
  let parts := (List.range NSLOT).filterMap fun k =>
    (s.stk k).map fun st =>
      let a := st.v
      s!"size{k}={a.size} cap{k}={a.capacity} blk{k}={a.buf.length} g{k}={a.grow a.capacity} {CC.Driver.ArrayD.fmtBuf k a quiet}"
  if parts.isEmpty then "-" else
  let its := match s.it with | some (k, i) => s!" it={k}:{i.index}:{fmtBool i.lastRemoved}" | none => " it=-"
  let zs := match s.zit with | some (k, p, i) => s!" zit={k}:{p}:{i.index}:{fmtBool i.lastRemoved}" | none => " zit=-"
  " ".intercalate parts ++ its ++ zs
def invAll (s : Sess) : Bool := s.slots.all fun o => match o with | none => true | some a => decide a.Inv

def fin (s : Sess) (hdS hdM : String) (sweep : Bool := false) : Sess × String × String :=
  let oS := if s.sparse && !sweep then "" else obsS s
  let oM := if s.sparse && !sweep then "" else obsM s
  (s, s!"S {hdS}{oS}", s!"M {hdM}{oM} | {physM s (s.sparse && !sweep)} | {fmtMem s.mem} | {fmtFlags (invAll s) s.mem}")

def Sess.dropSlot (s : Sess) (k : Nat) : Sess :=
  let s := (s.setStk k none).setLst k none
  let s := match s.it with | some (j, _) => if j = k then { s with it := none, sit := none } else s | none => s
  match s.zit with | some (j, p, _) => if j = k ∨ p = k then { s with zit := none, szit := none } else s | none => s

/-- configuration of a `new`/`mk_new` line -/
def confOf (c : Cmd) (isNew : Bool) : Nat × Float32 :=
  (if isNew then c.nat "cap" Gen.ARRAY_DEFAULT_CAPACITY else Gen.ARRAY_DEFAULT_CAPACITY,
   effFactor (match (if isNew then c.str "exp" else none) with | some e => parseF32 e | none => defaultFactor))

/-! ### the spec pass (L1): ideal lists with the stack vocabulary and, independently of the concrete
model, the capacity of every stack (see `Driver/Array.lean`: `SSlot`, `roomFired`, `nextCap`).  Nothing
here reads the model; the pass keeps running in sessions whose blocks the model pass cannot materialise. -/

/-- `cc_stack_filter` on the ideal side: the result starts with the library's default capacity and
factor and grows by pushes; the constructor makes three allocator requests, every growth step one; the
first refused request (schedule position, or a request above 2^40 bytes) ends the call with
`CC_ERR_ALLOC` after the predicate calls made so far.  Returns status, result slot, callback log. -/
def specFilter (sl : SSlot) (sched : List Bool) : Stat × Option SSlot × List Nat :=
  if sl.xs = [] then (.errOutOfRange, none, []) else
  let ref (i : Nat) : Bool := !sl.libc && sched.getD i false
  if ref 0 || ref 1 || ref 2 then (.errAlloc, none, []) else
  let r := sl.xs.foldl (fun (acc : Option Stat × List Nat × List Nat × Nat × Nat) e =>
    let (stop, log, out, cap, calls) := acc
    match stop with
    | some _ => acc
    | none =>
      let log := log ++ [e]
      if !predEven e then (none, log, out, cap, calls) else
      let (blk, cap', calls') := roomSched { xs := out, cap, f := defaultFactor, libc := sl.libc } out.length sched calls
      match blk with
      | some st => (some st, log, out, cap, calls')
      | none => (none, log, out ++ [e], cap', calls'))
    (none, [], [], Gen.ARRAY_DEFAULT_CAPACITY, 3)
  match r.1 with
  | some st => (st, none, r.2.1)
  | none => (.ok, some { xs := r.2.2.1, cap := r.2.2.2.1, f := defaultFactor, libc := sl.libc }, r.2.1)

def specStep (s : SpecSess) (c : Cmd) : SpecSess × String :=
  let refused := c.fired > 0
  let k := let k := c.nat "o" 0; if k < NSLOT then k else 0
  let to := let t := c.nat "to" 1; if t < NSLOT then t else 1
  let x := c.arg 0
  let y := c.arg 1
  let noout := c.nat "noout" 0 == 1 && ["pop", "it_replace", "zit_replace"].contains c.op
  let fmtOut := fun (st : Stat) (o : Option Nat) => if noout then fmtStat st else CC.Driver.ArrayD.fmtOut st o
  let fmtOut2 := fun (st : Stat) (o : Option (Nat × Nat)) => if noout then fmtStat st else CC.Driver.ArrayD.fmtOut2 st o
  let build (isNew : Bool) : Stat × Option SSlot :=
    let (cap, f) := confOf c isNew
    let invalid := cap = 0 ∨ exGeF f (Gen.CC_MAX_ELEMENTS / cap) ∨ cap > Gen.CC_MAX_ELEMENTS / 8
    let sst : Stat := if refused then .errAlloc else if invalid then .errInvalidCapacity else .ok
    (sst, if sst = .ok then some { xs := [], cap, f, libc := !isNew } else none)
  match c.op with
  | "new" | "new_default" =>
    let (sst, sl) := build (c.op == "new")
    finS { slots := [sl, none, none, none], sparse := c.str "obs" == some "sparse" } (fmtStat sst)
  | _ =>
  if s.slots.all Option.isNone then (s, "S st=- nosession") else
  let msg (t : String) := finS s s!"st=- {t}"
  match c.op with
  | "observe" => finS s "st=-" true
  | "destroy" | "destroy_cb" =>
    let log := (List.range NSLOT).foldl (fun acc j => match s.get j with | some sl => acc ++ sl.xs | none => acc) []
    let s' := (List.range NSLOT).foldl (fun (acc : SpecSess) j => acc.drop j) s
    if c.op == "destroy_cb" then finS s' s!"st=- cb={fmtList log}" else finS s' "st=-"
  | "zit_new" =>
    let p := c.nat "p" 1
    if p ≥ NSLOT ∨ (s.get k).isNone ∨ (s.get p).isNone then finS { s with zit := none } "st=- noobj" else
    finS { s with zit := some (k, p, 0, false) } "st=-"
  | "zit_next" | "zit_replace" =>
    match s.zit with
    | some (k1, k2, pos, rm) =>
      match s.get k1, s.get k2 with
      | some s1, some s2 =>
        if k1 = k2 then
          if c.op == "zit_next" then
            if pos ≥ s1.xs.length then finS s (fmtOut2 .iterEnd none)
            else finS { s with zit := some (k1, k2, pos + 1, false) } (fmtOut2 .ok (some (s1.xs.getD pos 0, s1.xs.getD pos 0)))
          else
            if Spec.Seq.wdec pos ≥ s1.xs.length then finS s (fmtOut2 .errOutOfRange none) else
            let r1 := Spec.Seq.replaceAt s1.xs x (Spec.Seq.wdec pos)
            let r2 := Spec.Seq.replaceAt r1.2.2 y (Spec.Seq.wdec pos)
            finS (s.set k1 (some { s1 with xs := r2.2.2 })) (fmtOut2 .ok (some (r1.2.1.getD 0, r2.2.1.getD 0)))
        else
        let (sst, so, xs1, xs2, pos', rm') := specZip2 c.op s1.xs s2.xs pos rm x y none
        finS { (s.set k1 (some { s1 with xs := xs1 })).set k2 (some { s2 with xs := xs2 }) with zit := some (k1, k2, pos', rm') }
          (fmtOut2 sst so)
      | _, _ => msg "noiter"
    | none => msg "noiter"
  | "it_new" =>
    if (s.get k).isNone then finS { s with it := none } "st=- noobj" else finS { s with it := some (k, 0, false) } "st=-"
  | "it_next" | "it_replace" =>
    match s.it with
    | some (k1, pos, rm) =>
      match s.get k1 with
      | some sl =>
        let (sst, so, xs', pos', rm') := specIt c.op sl.xs pos rm x none
        finS { s.set k1 (some { sl with xs := xs' }) with it := some (k1, pos', rm') } (fmtOut sst so)
      | none => msg "noiter"
    | none => msg "noiter"
  | "mk_new" | "mk_new_default" =>
    if (s.get to).isSome then msg "slotbusy" else
    let (sst, sl) := build (c.op == "mk_new")
    finS (s.set to sl) (fmtStat sst)
  | _ =>
  match s.get k with
  | some sl =>
    let xs := sl.xs
    let upd (xs' : List Nat) (hd : String) (cap : Nat := sl.cap) := finS (s.set k (some { sl with xs := xs', cap })) hd
    match c.op with
    | "drop" => finS (s.drop k) "st=-"
    | "push" =>
      let (blk, cap') := roomFired sl xs.length refused
      match blk with
      | some st => upd xs (fmtStat st)
      | none => let (sst, xs') := Spec.Seq.push xs x; upd xs' (fmtStat sst) cap'
    | "pop" => let (sst, so, xs') := Spec.Seq.pop xs; upd xs' (fmtOut sst so)
    | "peek" => let (sst, so) := Spec.Seq.peek xs; upd xs (fmtOut sst so)
    | "size" => finS s s!"st=- out={xs.length}"
    | "map" => upd xs s!"st=- cb={fmtList (Spec.Seq.mapVisit xs)}"
    | "filter_mut" => let (sst, xs') := Spec.Seq.filterMut predEven xs; upd xs' s!"{fmtStat sst} cb={fmtList xs.reverse}"
    | "mk_filter" =>
      if (s.get to).isSome ∨ to = k then msg "slotbusy" else
      let (sst, r, log) := specFilter sl c.sched
      finS (s.set to r) s!"{fmtStat sst} cb={fmtList log}"
    | _ => msg "badop"
  | none => msg "noobj"

/-! ### the model pass (L3); the `S` line it computes from its shadow lists is discarded by `step` -/
def stepM (s : Sess) (c : Cmd) : Sess × String × String :=
  -- the shadow lists follow the model (they only steer the protocol: which slots exist)
  let s := { s with sslots := s.slots.map (fun (o : Option Stack) => o.map fun (t : Stack) => CC.Driver.ArrayD.fastAbs t.v) }
  let m := s.mem.begin c.sched
  let refused := c.fired > 0
  let k := let k := c.nat "o" 0; if k < NSLOT then k else 0
  let to := let t := c.nat "to" 1; if t < NSLOT then t else 1
  let x := c.arg 0
  let y := c.arg 1
  -- `noout=1` on an operation with an optional out-pointer: NULL is passed, no `out=` is printed
  let noout := c.nat "noout" 0 == 1 && ["pop", "it_replace", "zit_replace"].contains c.op
  let fmtOut := fun (st : Stat) (o : Option Nat) => if noout then fmtStat st else CC.Driver.ArrayD.fmtOut st o
  let fmtOut2 := fun (st : Stat) (o : Option (Nat × Nat)) => if noout then fmtStat st else CC.Driver.ArrayD.fmtOut2 st o
  -- construction shared by `new` and `mk_new`
  let build (isNew : Bool) (m : Mem) : Stat × Option Stack × Mem × Stat :=
    let (cap, f) := confOf c isNew
    -- a request above 2^40 bytes is refused by the harness allocator (counted as `absurd=`): 3rd call
    let absurd := cap * 8 > 2 ^ 40 ∧ c.sched.isEmpty
    let m := if absurd then { m with sched := [false, false, true] } else m
    let (st, r, m) := Stack.new cap (growF f) (exGeF f) m (if isNew then .conf else .libc)
    let m := if absurd then { m with nrefused := 0 } else m
    let invalid := cap = 0 ∨ exGeF f (Gen.CC_MAX_ELEMENTS / cap) ∨ cap > Gen.CC_MAX_ELEMENTS / 8
    let sst : Stat := if refused then .errAlloc else if invalid then .errInvalidCapacity else .ok
    (st, r, m, sst)
  match c.op with
  | "new" | "new_default" =>
    let (cap, _) := confOf c (c.op == "new")
    if 2 ^ 24 < cap ∧ cap * 8 ≤ 2 ^ 40 then ({ blind := true }, "S ?", "M ?") else
    let (st, r, m, sst) := build (c.op == "new") m
    let s' : Sess := { slots := [r, none, none, none], sslots := [if sst = .ok then some [] else none, none, none, none], mem := m,
                       sparse := c.str "obs" == some "sparse" }
    fin s' (fmtStat sst) (fmtStat st)
  | _ =>
  if s.blind then (s, "S ?", "M ?") else
  if s.slots.all Option.isNone then
    ({ s with mem := m }, "S st=- nosession", s!"M st=- nosession | - | {fmtMem m} | {fmtFlags true m}")
  else
  let s := { s with mem := m }
  let msg (t : String) := fin s s!"st=- {t}" s!"st=- {t}"
  match c.op with
  | "observe" => fin s "st=-" "st=-" true
  | "destroy" | "destroy_cb" =>
    let cb := c.op == "destroy_cb"
    let r := (List.range NSLOT).foldl (fun (acc : Sess × List Nat × List Nat) j =>
      match acc.1.stk j, acc.1.lst j with
      | some a, some xs =>
        let (log, m) := if cb then a.destroyCb acc.1.mem else ([], a.destroy acc.1.mem)
        ({ acc.1.dropSlot j with mem := m }, acc.2.1 ++ (if cb then xs else []), acc.2.2 ++ log)
      | _, _ => acc) (s, [], [])
    if cb then fin r.1 s!"st=- cb={fmtList r.2.1}" s!"st=- cb={fmtList r.2.2}" else fin r.1 "st=-" "st=-"
  | "zit_new" =>
    let p := c.nat "p" 1
    if p ≥ NSLOT ∨ (s.stk k).isNone ∨ (s.stk p).isNone then
      fin { s with zit := none, szit := none } "st=- noobj" "st=- noobj" else
    fin { s with zit := some (k, p, {}), szit := some (k, p, 0, false) } "st=-" "st=-"
  | "zit_next" | "zit_replace" =>
    match s.zit, s.szit with
    | some (k1, k2, it), some (_, _, pos, rm) =>
      match s.stk k1, s.stk k2, s.lst k1, s.lst k2 with
      | some a1, some a2, some xs1, some xs2 =>
        -- the same stack on both sides: one state threaded through both halves of the call
        if k1 = k2 then
          if c.op == "zit_next" then
            let (st, o, it', m) := Stack.zipNext a1 a1 it s.mem
            let (sst, so) : Stat × Option (Nat × Nat) :=
              if pos ≥ xs1.length then (.iterEnd, none) else (.ok, some (xs1.getD pos 0, xs1.getD pos 0))
            fin { s with zit := some (k1, k2, it'), szit := some (k1, k2, if sst == Stat.ok then pos + 1 else pos, if sst == Stat.ok then false else rm), mem := m }
              (fmtOut2 sst so) (fmtOut2 st o)
          else
            let (st, o, a', m) := Stack.zipReplace1 a1 it x y s.mem
            let (sst, so, xs') : Stat × Option (Nat × Nat) × List Nat :=
              if Spec.Seq.wdec pos ≥ xs1.length then (.errOutOfRange, none, xs1) else
              let r1 := Spec.Seq.replaceAt xs1 x (Spec.Seq.wdec pos)
              let r2 := Spec.Seq.replaceAt r1.2.2 y (Spec.Seq.wdec pos)
              (.ok, some (r1.2.1.getD 0, r2.2.1.getD 0), r2.2.2)
            fin { (s.setStk k1 (some a')).setLst k1 (some xs') with mem := m } (fmtOut2 sst so) (fmtOut2 st o)
        else
        let zc : Spec.Seq.ZipCursor := { done1 := xs1.take pos, todo1 := xs1.drop pos, done2 := xs2.take pos, todo2 := xs2.drop pos, removed := rm }
        let putS (s : Sess) (zc : Spec.Seq.ZipCursor) : Sess :=
          { (s.setLst k1 (some zc.content1)).setLst k2 (some zc.content2) with szit := some (k1, k2, zc.done1.length, zc.removed) }
        if c.op == "zit_next" then
          let (st, o, it', m) := Stack.zipNext a1 a2 it s.mem
          let (sst, so, zc') := zc.next
          fin (putS { s with zit := some (k1, k2, it'), mem := m } zc') (fmtOut2 sst so) (fmtOut2 st o)
        else
          let (st, o, a1', a2', m) := Stack.zipReplace a1 a2 it x y s.mem
          let (sst, so, zc') := zc.replace x y
          fin (putS { (s.setStk k1 (some a1')).setStk k2 (some a2') with mem := m } zc') (fmtOut2 sst so) (fmtOut2 st o)
      | _, _, _, _ => msg "noiter"
    | _, _ => msg "noiter"
  | "it_new" =>
    if (s.stk k).isNone then fin { s with it := none, sit := none } "st=- noobj" "st=- noobj" else
    fin { s with it := some (k, {}), sit := some (k, 0, false) } "st=-" "st=-"
  | "it_next" | "it_replace" =>
    match s.it, s.sit with
    | some (k1, it), some (_, pos, rm) =>
      match s.stk k1, s.lst k1 with
      | some a, some xs =>
        let cur : Spec.Seq.Cursor := { done := xs.take pos, todo := xs.drop pos, removed := rm }
        let putS (s : Sess) (cu : Spec.Seq.Cursor) : Sess :=
          { s.setLst k1 (some cu.content) with sit := some (k1, cu.done.length, cu.removed) }
        if c.op == "it_next" then
          let (st, o, it', m) := a.iterNext it s.mem
          let (sst, so, cu) := cur.next
          fin (putS { s with it := some (k1, it'), mem := m } cu) (fmtOut sst so) (fmtOut st o)
        else
          let (st, o, a', m) := a.iterReplace it x s.mem
          let (sst, so, cu) := cur.replace x
          fin (putS { s.setStk k1 (some a') with mem := m } cu) (fmtOut sst so) (fmtOut st o)
      | _, _ => msg "noiter"
    | _, _ => msg "noiter"
  | "mk_new" | "mk_new_default" =>
    if (s.stk to).isSome then msg "slotbusy" else
    let (st, r, m, sst) := build (c.op == "mk_new") s.mem
    fin { (s.setStk to r).setLst to (if sst = .ok then some [] else none) with mem := m } (fmtStat sst) (fmtStat st)
  | _ =>
  match s.stk k, s.lst k with
  | some a, some xs =>
    let upd (a' : Stack) (m : Mem) (xs' : List Nat) (hdS hdM : String) :=
      fin { (s.setStk k (some a')).setLst k (some xs') with mem := m } hdS hdM
    match c.op with
    | "drop" => fin { s.dropSlot k with mem := a.destroy s.mem } "st=-" "st=-"
    | "push" =>
      let gc := growCheck a.v
      if gc = 2 then ({ s with blind := true }, "S ?", "M ?") else
      let (st, a', m) := a.push x (absurdBegin gc c s.mem)
      let (sst, xs') := if refused then (Stat.errAlloc, xs) else if st == .errMaxCapacity then (st, xs) else Spec.Seq.push xs x
      upd a' (absurdEnd gc c m) xs' (fmtStat sst) (fmtStat st)
    | "pop" =>
      let (st, o, a', m) := a.pop s.mem
      let (sst, so, xs') := Spec.Seq.pop xs
      upd a' m xs' (fmtOut sst so) (fmtOut st o)
    | "peek" =>
      let (st, o, m) := a.peek s.mem
      let (sst, so) := Spec.Seq.peek xs
      upd a m xs (fmtOut sst so) (fmtOut st o)
    | "size" => fin s s!"st=- out={xs.length}" s!"st=- out={a.size}"
    | "map" =>
      let (log, m) := a.map s.mem
      upd a m xs s!"st=- cb={fmtList (Spec.Seq.mapVisit xs)}" s!"st=- cb={fmtList log}"
    | "filter_mut" =>
      let (st, a', log, m) := a.filterMut predEven s.mem
      let (sst, xs') := Spec.Seq.filterMut predEven xs
      upd a' m xs' s!"{fmtStat sst} cb={fmtList xs.reverse}" s!"{fmtStat st} cb={fmtList log}"
    | "mk_filter" =>
      if (s.stk to).isSome ∨ to = k then msg "slotbusy" else
      let (st, r, log, m) := a.filter predEven (growF defaultFactor) (exGeF defaultFactor) s.mem
      let (sst, sr) := Spec.Seq.filter predEven xs
      let sst := if sst = .ok ∧ refused then Stat.errAlloc else sst
      let sr := if sst = .ok then sr else none
      -- the callback log of a refused call depends on where the refusal hit: taken from the model
      let cbS := if refused then log else if sst = .ok then xs else []
      fin { (s.setStk to r).setLst to sr with mem := m } s!"{fmtStat sst} cb={fmtList cbS}" s!"{fmtStat st} cb={fmtList log}"
    | _ => msg "badop"
  | _, _ => msg "noobj"

/-- one line: the spec pass (S, L1) and the model pass (M, L3) side by side; the spec pass never sees the
model and keeps running when the model pass has gone blind -/
def step (s : Sess) (c : Cmd) : Sess × String × String :=
  let (sp', lineS) := specStep s.sp c
  let (s', _, lineM) := stepM s c
  ({ s' with sp := sp' }, lineS, lineM)

end CC.Driver.StackD
