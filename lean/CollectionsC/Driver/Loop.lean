import CollectionsC.Driver.Cmd
/-! Generic stdin/stdout loop of a container driver: one input line, two output lines
(`S …` abstract spec, `M …` concrete model).  `reset` starts a fresh session. -/
namespace CC.Driver

partial def loop {σ : Type} (init : σ) (step : σ → Cmd → σ × String × String)
    (h : IO.FS.Stream) (out : IO.FS.Stream) (s : σ) : IO Unit := do
  let line ← h.getLine
  if line.isEmpty then return ()
  if line.startsWith "#" || line.trimAscii.toString.isEmpty then
    out.putStrLn "S #"; out.putStrLn "M #"
    loop init step h out s
  else if line.startsWith "reset" then
    out.putStrLn "S reset"; out.putStrLn "M reset"
    loop init step h out init
  else
    let (s', a, b) := step s (Cmd.parse line)
    out.putStrLn a; out.putStrLn b
    loop init step h out s'

def mainLoop {σ : Type} (init : σ) (step : σ → Cmd → σ × String × String) : IO Unit := do
  let out ← IO.getStdout
  loop init step (← IO.getStdin) out init
  out.flush

end CC.Driver
