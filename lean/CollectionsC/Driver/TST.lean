import CollectionsC.Driver.Cmd
import CollectionsC.Spec.StrMapSpec
import CollectionsC.Model.TST
import CollectionsC.Model.PTST
/-! Line-protocol driver of the TST table: same text as `harness/shim_tsttable.c`.
Keys are lowercase hex of their bytes (`-` = empty string). -/
-- container: tsttable
namespace CC.Driver.TSTD
open CC CC.Driver CC.TST
open CC.Spec (StrMap)

structure Sess where
  model  : Option Table := none
  spec   : Option StrMap := none
  mem    : Mem := {}
  cmpK   : String := "s"
  cmpF   : Cmp := cmpSigned             -- the comparator of the session (chosen once, at `new`)
  univ   : List Key := []               -- every key the history mentioned, sorted
  it     : Option Iter := none          -- the session iterator while it is valid
  cursor : Option StrMap.Cursor := none
  usedEmpty : Bool := false             -- the empty key was used (X5): stored keys may differ from paths
  cb     : String := ""                 -- exact callback order of the current op (phys section)
  /-- the pointer-level model (Model/PTST.lean), run alongside: the dump is printed from its heap -/
  pt  : PTST.PT := {}
  pit : Option PTST.PIter := none
  sparse : Bool := false                -- obs=sparse session: content only on `observe`
  full   : Bool := false                -- the current op is `observe`
  quiet  : Bool := false                -- phys=quiet session: checksum of the trie dump between `observe`s

def hexDigit (n : Nat) : Char := if n < 10 then Char.ofNat (48 + n) else Char.ofNat (87 + n)
def hex2 (n : Nat) : String := String.ofList [hexDigit (n / 16 % 16), hexDigit (n % 16)]
/-- append the hex form of a key (no intermediate strings: the scale stream dumps tries whose keys have hundreds of bytes) -/
def pushKey (acc : String) (k : Key) : String :=
  if k.isEmpty then acc.push '-' else
  k.foldl (fun a b => (a.push (hexDigit (b / 16 % 16))).push (hexDigit (b % 16))) acc
def fmtKey (k : Key) : String := pushKey "" k
def hexVal (c : Char) : Nat := if c.toNat ≤ 57 then c.toNat - 48 else c.toNat - 87
def parseHex : List Char → Key
  | a :: b :: rest => (hexVal a * 16 + hexVal b) :: parseHex rest
  | _ => []
def parseKey (s : String) : Key :=
  let cs := match s.toList with | 'x' :: rest => rest | cs => cs   -- optional prefix `x`
  if cs == ['-'] then [] else parseHex cs

def keyLt : Key → Key → Bool
  | [], [] => false
  | [], _ :: _ => true
  | _ :: _, [] => false
  | a :: as, b :: bs => a < b || (a == b && keyLt as bs)
def pairLe (x y : Key × Nat) : Bool := keyLt x.1 y.1 || (x.1 == y.1 && x.2 ≤ y.2)
def sortPairs (xs : List (Key × Nat)) : List (Key × Nat) := xs.mergeSort pairLe
def sortKeys (xs : List Key) : List Key := xs.mergeSort fun a b => !keyLt b a
def insertKey (k : Key) (ks : List Key) : List Key := if ks.contains k then ks else sortKeys (k :: ks)

def fmtPairs (xs : List (Key × Nat)) : String :=
  (xs.foldl (fun (a : String × Bool) x =>
    (((pushKey (if a.2 then a.1.push ',' else a.1) x.1).push ':') ++ toString x.2, true)) ("[", false)).1.push ']'
def fmtKeys (xs : List Key) : String :=
  (xs.foldl (fun (a : String × Bool) x => (pushKey (if a.2 then a.1.push ',' else a.1) x, true)) ("[", false)).1.push ']'



def fmtNode : Node → String
  | .nil => "."
  | .node c d l m r =>
    let ds := match d with | some e => s!"{fmtKey e.1}={e.2}" | none => "-"
    s!"({hex2 c};{ds};{fmtNode l}{fmtNode m}{fmtNode r})"

def fmtDir : Dir → String
  | .L => "L" | .M => "M" | .R => "R"
def fmtPath : Option Path → String
  | none => "-"
  | some p => "/" ++ String.join (p.map fmtDir)

def obsM (s : Sess) : String :=
  if s.sparse && !s.full then "" else
  match s.model with
  | none => "abs=[] enum=[] size=0"
  | some t =>
    let cmp := s.cmpF
    let abs := s.univ.filterMap fun k => (t.root.lookup cmp k).map fun e => (k, e.2)
    s!"abs={fmtPairs abs} enum={fmtPairs (sortPairs (iterAll t {}).1)} size={t.size}"
def obsS (s : Sess) : String :=
  if s.sparse && !s.full then "" else
  match s.spec with
  | none => "abs=[] enum=[] size=0"
  | some sp =>
    let abs := s.univ.filterMap fun k => (sp.get k).map fun v => (k, v)
    s!"abs={fmtPairs abs} enum={fmtPairs (sortPairs sp.items)} size={sp.size}"
/-- the trie as the pointer-level heap holds it: `(char#id^parent-id;entry;left mid right)`, appended to `acc`
(linear in the size of the dump, also on deep tries); returns the number of nodes too -/
def fmtPTAcc (h : PTST.Heap) : Nat → Nat → String × Nat → String × Nat
  | 0, _, (acc, k) => (acc.push '!', k)
  | f + 1, n, (acc, k) =>
    if n = 0 then (acc.push '.', k) else
    let nd := h.get n
    let acc := (((acc.push '(' ++ hex2 nd.c).push '#' ++ toString n).push '^' ++ toString nd.parent).push ';'
    let acc := match nd.data with
      | some e => (pushKey acc e.1).push '=' ++ toString e.2
      | none => acc.push '-'
    let a := fmtPTAcc h f nd.left (acc.push ';', k + 1)
    let a := fmtPTAcc h f nd.mid a
    let a := fmtPTAcc h f nd.right a
    (a.1.push ')', a.2)

def fmtPT (h : PTST.Heap) (fuel n : Nat) : String := (fmtPTAcc h fuel n ("", 0)).1

/-- FNV-1a 64 over the bytes of the dump, as 16 hex digits (the shim computes the same over its text) -/
def fnv64 (s : String) : String :=
  let h := s.toUTF8.foldl (fun (h : UInt64) b => (h ^^^ b.toUInt64) * 0x100000001b3) 0xcbf29ce484222325
  String.ofList ((List.range 16).map fun i => hexDigit ((h >>> (UInt64.ofNat (60 - 4 * i))).toNat % 16))

def phys (s : Sess) : String :=
  match s.model with
  | none => "-"
  | some t =>
    let pc := (s.pit.map (·.cur)).getD 0
    let pn := (s.pit.map (·.next)).getD 0
    let itS := match s.it with
      | none => ""
      | some it => s!" it=cur:{fmtPath it.cur}#{pc},next:{fmtPath it.next}#{pn},adv:{if it.adv then 1 else 0}" ++
          (if it.adv then s!",ns:{it.nextStat.code}" else "")
    let ord := if s.sparse && !s.full then "" else s!" ord={fmtPairs (iterAll t {}).1}"
    let d := fmtPTAcc s.pt.heap (s.pt.fresh + 1) s.pt.root ("", 0)
    let tree := if s.quiet && !s.full then s!"~{fnv64 d.1}/{d.2}" else d.1
    s!"size={s.pt.size} tree={tree}{ord}{s.cb}{itS}"
/-- `PTST.toNode pt == root` without building the trie: the links of the heap span exactly `root` -/
def spans (h : PTST.Heap) : Nat → Nat → Node → Bool
  | 0, _, _ => false
  | _ + 1, n, .nil => n == 0
  | f + 1, n, .node c d l m r =>
    n != 0 &&
    (let nd := h.get n
     nd.c == c && nd.data == d && spans h f nd.left l && spans h f nd.mid m && spans h f nd.right r)

/-- `Node.KeysOk` without building the enumeration: every entry stores the key its path spells (`rp` = the
characters of the `mid` links above, reversed) -/
def keysOkFast : List Nat → Node → Bool
  | _, .nil => true
  | rp, .node c d l m r =>
    (match d with | some e => e.1.reverse == c :: rp | none => true) &&
    keysOkFast rp l && keysOkFast (c :: rp) m && keysOkFast rp r

/-- the pointer-level heap spans the inductive trie, holds no other block, and the two iterators point to
the same nodes -/
def ptAgrees (s : Sess) : Bool :=
  match s.model with
  | none => true
  | some t =>
    (if s.quiet && !s.full then spans s.pt.heap (s.pt.fresh + 1) s.pt.root t.root else PTST.toNode s.pt == t.root) &&
    s.pt.size == t.size && s.pt.heap.count == t.root.nodes &&
    (match s.it, s.pit with
     | some it, some pi =>
       let pth (n : Nat) : Option Path := if n = 0 then none else PTST.pathOf s.pt.heap (s.pt.fresh + 1) n []
       pth pi.cur == it.cur && pth pi.next == it.next && pi.adv == it.adv
     | none, _ => true
     | some _, none => false)

/-- `Node.Ordered` by nearest bounds (one comparison per node and bound): the same verdict for the three transitive
comparators of the sessions; used between the `observe`s of a `phys=quiet` session, where the tries have hundreds of
nodes per level and the definition itself (all `heads` of both sides at every node) would be quadratic per operation -/
def ordFast (cmp : Cmp) : Option Nat → Option Nat → Node → Bool
  | _, _, .nil => true
  | lo, hi, .node c _ l m r =>
    (lo.all fun b => cmp c b == .gt) && (hi.all fun b => cmp c b == .lt) &&
    ordFast cmp lo (some c) l && ordFast cmp none none m && ordFast cmp (some c) hi r

def inv (s : Sess) : Bool :=
  match s.model with
  | none => true
  | some t =>
    (if s.quiet && !s.full then
       t.size == t.root.marked && decide t.root.Pruned && ordFast s.cmpF none none t.root
     else decide (t.Inv s.cmpF)) &&
    (s.usedEmpty || (if s.quiet && !s.full then keysOkFast [] t.root else decide t.root.KeysOk)) && ptAgrees s

def lines (hdS hdM : String) (s : Sess) : String × String :=
  (s!"S {hdS} {obsS s}",
   s!"M {hdM} {obsM s} | {phys s} | {fmtMem s.mem} | {fmtFlags (inv s) s.mem}")

def fin (s : Sess) (hdS hdM : String) : Sess × String × String :=
  let l := lines hdS hdM s
  ({ s with cb := "", full := false }, l.1, l.2)

/-- returns the new session, the spec line and the model line -/
def step (s0 : Sess) (c : Cmd) : Sess × String × String :=
  let m := s0.mem.begin c.sched
  let keyS := c.str "k"
  let key : Key := (keyS.map parseKey).getD []
  let s : Sess := { s0 with mem := m, cb := "",
                            univ := match keyS with | some _ => insertKey key s0.univ | none => s0.univ,
                            usedEmpty := s0.usedEmpty || (keyS.isSome && key.isEmpty) }
  let v := c.nat "v" 0
  match c.op with
  | "new" | "new_default" =>
    let (st, t, m) := Table.new (if c.op == "new" then .conf else .libc) m
    let (sst, sp) := if c.fired > 0 then (Stat.errAlloc, none) else (Stat.ok, some StrMap.empty)
    let s' : Sess := { s with model := t, spec := sp, mem := m, it := none, cursor := none, pt := {}, pit := none,
                              sparse := c.str "obs" == some "sparse",
                              quiet := c.str "phys" == some "quiet",
                              cmpK := if c.op == "new" then (c.str "cmp").getD "s" else "s",
                              cmpF := if c.op != "new" then cmpSigned
                                      else if c.str "cmp" == some "u" then cmpUnsigned
                                      else if c.str "cmp" == some "r" then cmpReverse else cmpSigned }
    fin s' (fmtStat sst) (fmtStat st)
  | _ =>
  match s.model, s.spec with
  | some t, some sp =>
    let cmp := s.cmpF
    match c.op, keyS with
    | "add", some _ =>
      let (st, t', m) := t.add cmp key v m
      let r := sp.step { refused := c.fired > 0 } (.add key v [])
      fin { s with model := some t', spec := some r.2, mem := m, it := none, cursor := none, pit := none,
                   pt := PTST.add cmp s.pt key v (st == .ok) }
        (fmtStat (r.1.st.getD .ok)) (fmtStat st)
    | "get", some _ =>
      let (st, out) := t.get cmp key
      let r := sp.step {} (.get key)
      let h (st : Stat) (o : Option Nat) := match o with | some v => s!"{fmtStat st} out={v}" | none => fmtStat st
      fin s (h (r.1.st.getD .ok) r.1.val) (h st out)
    | "contains", some _ =>
      let r := sp.step {} (.contains key)
      fin s s!"st=- out={r.1.val.getD 0}" s!"st=- out={if t.containsKey cmp key then 1 else 0}"
    | "remove", some _ | "remove_noout", some _ =>
      let (st, out, t', m) := t.remove cmp key m
      let r := sp.step {} (.remove key)
      let h (st : Stat) (o : Option Nat) := match o with
        | some v => if c.op == "remove" then s!"{fmtStat st} out={v}" else fmtStat st
        | none => fmtStat st
      fin { s with model := some t', spec := some r.2, mem := m, it := none, cursor := none, pit := none,
                   pt := PTST.remove cmp s.pt key }
        (h (r.1.st.getD .ok) r.1.val) (h st out)
    | "remove_all", _ =>
      let (t', m) := t.removeAll m
      fin { s with model := some t', spec := some sp.removeAll, mem := m, it := none, cursor := none, pit := none,
                   pt := PTST.removeAll s.pt } "st=-" "st=-"
    | "observe", _ => fin { s with full := true } "st=-" "st=-"
    | "size", _ =>
      fin s s!"st=- out={sp.size}" s!"st=- out={t.size}"
    | "foreach_key", _ =>
      let (es, m) := iterAll t m
      let ks := es.map (·.1)
      fin { s with mem := m, cb := s!" cbord={fmtKeys ks}" }
        s!"st=- cb={fmtKeys (sortKeys sp.keys)}" s!"st=- cb={fmtKeys (sortKeys ks)}"
    | "foreach_value", _ =>
      let (es, m) := iterAll t m
      let vs := es.map (·.2)
      let srt (xs : List Nat) := xs.mergeSort (· ≤ ·)
      fin { s with mem := m, cb := s!" cbord={fmtList vs}" }
        s!"st=- cb={fmtList (srt (sp.items.map (·.2)))}" s!"st=- cb={fmtList (srt vs)}"
    | "it_new", _ =>
      fin { s with it := some (iterInit t), cursor := some (StrMap.cursorNew sp), pit := some (PTST.iterInit s.pt) }
        "st=-" "st=-"
    | "destroy", _ =>
      let m := t.destroy m
      fin { s with model := none, spec := none, mem := m, it := none, cursor := none, pit := none, pt := {} }
        "st=-" "st=-"
    | op, _ =>
      match s.it, s.cursor with
      | some it, some cu =>
        match op with
        | "it_next" =>
          let r := iterNext t it m
          let (sst, sout, legal, cu') := StrMap.cursorNext sp cu (r.out.map (·.1))
          let hM := match r.out with
            | some e => if r.st == .ok then s!"{fmtStat r.st} out={fmtKey e.1}:{e.2}" else fmtStat r.st
            | none => fmtStat r.st
          let hS := match sout with
            | some e => s!"{fmtStat sst} out={fmtKey e.1}:{e.2}"
            | none => if legal then fmtStat sst else s!"{fmtStat sst} out=?not-a-pending-key"
          fin { s with it := some r.it, cursor := some cu', mem := r.mem,
                       pit := s.pit.map fun pi => (PTST.iterNext s.pt pi).2.2 } hS hM
        | "it_remove" | "it_remove_noout" =>
          let (st, out, t', it', m) := iterRemove t it (op == "it_remove") m
          let (sst, sout, sp', cu') := StrMap.cursorRemove sp cu
          let h (st : Stat) (o : Option Nat) := match o with
            | some v => if op == "it_remove" && st == .ok then s!"{fmtStat st} out={v}" else fmtStat st
            | none => fmtStat st
          let pr := match s.pit with
            | some pi => let r := PTST.iterRemove s.pt pi; (r.1, some r.2)
            | none => (s.pt, none)
          fin { s with model := some t', spec := some sp', it := some it', cursor := some cu', mem := m,
                       pt := pr.1, pit := pr.2 }
            (h sst sout) (h st out)
        | _ => fin s "st=- badop" "st=- badop"
      | _, _ =>
        if op.startsWith "it_" then fin s "st=- noiter" "st=- noiter" else fin s "st=- badop" "st=- badop"
  | _, _ =>
    (s, "S st=- nosession", s!"M st=- nosession | - | {fmtMem m} | {fmtFlags true m}")

end CC.Driver.TSTD
