import CollectionsC.Driver.Cmd
import CollectionsC.Spec.LSeq
import CollectionsC.Model.SList
import CollectionsC.Model.PSList
import Std.Data.HashMap
import Std.Data.HashSet
-- container: slist
namespace CC.Driver.SListD
open CC CC.Driver
open CC.Spec

def NSLOT : Nat := 4

structure Sess where
  model : List (Option Chain) := [none, none, none, none]
  spec  : List (Option (List Nat)) := [none, none, none, none]
  mem   : Mem := {}
  itKind : Nat := 0          -- 0 none, 1 it_, 3 zit_
  itO : Nat := 0
  itO2 : Nat := 0
  itChanged : Bool := false
  it  : SList.Iter := {}
  zit : SList.ZipIter := {}
  sit : LSeq.Cursor := {}
  pst : PList.St := {}                              -- pointer-level model (Model/PSList.lean), run alongside
  pit : PSList.PIter := {}                          -- pointer-level iterator (`CC_SListIter` fields as node ids)
  pz  : PSList.PZip := {}                           -- pointer-level zip iterator
  phd : List (Option PList.Hdr) := [none, none, none, none]
  disp : Std.HashMap Nat Nat := {}                  -- node id -> display id (first-seen order, as the shim numbers the C nodes)
  dnext : Nat := 0
  pbad : String := ""
  sparse : Bool := false     -- `obs=sparse` on a constructor line (CONVENTIONS, Addendum 2)
  quiet : Bool := false      -- `phys=quiet` on a constructor line: checksums instead of the dumps (scale histories)
  obsNow : Bool := false     -- the current operation is `observe`

def fmtPtr (n : Nat) : Ptr → String
  | none => "-"
  | some j => if j < n then toString j else "?"
def fmtOpt : Option Nat → String
  | none => "-"
  | some v => toString v

def getAtOk (l : Chain) (fw : List Nat) : Option Nat :=
  (List.range fw.length).find? fun j =>
    let g := SList.getAt l j {}
    !(g.1 == .ok && g.2.1 == some (fw.getD j 0))

def obsM1 (k : Nat) (l : Chain) : String :=
  let fw := l.forward
  let f := (SList.getFirst l {}).2.1
  let la := (SList.getLast l {}).2.1
  s!"abs{k}={fmtList fw} size{k}={l.size} first{k}={fmtOpt f} last{k}={fmtOpt la}" ++
    (match getAtOk l fw with | some j => s!" GETAT{k}=mismatch@{j}" | none => "")
def obsS1 (k : Nat) (l : List Nat) : String :=
  s!"abs{k}={fmtList l} size{k}={l.length} first{k}={fmtOpt (LSeq.getFirst l).2} last{k}={fmtOpt (LSeq.getLast l).2}"

def joinLive {α : Type} (xs : List (Option α)) (f : Nat → α → String) (none_ : String) : String :=
  let parts := (List.range xs.length).filterMap fun k => (xs.getD k none).map (f k)
  if parts.isEmpty then none_ else " ".intercalate parts

/-! ### `phys=quiet` (scale histories): FNV-1a-64 checksums instead of the dumps, exactly as `harness/shim_slist.c` computes them -/
def BIGLIM : Nat := 4000
def fnv0 : UInt64 := 14695981039346656037
def fnvMix (h x : UInt64) : UInt64 :=
  let p : UInt64 := 1099511628211
  let h := (h ^^^ (x &&& 0xff)) * p
  let h := (h ^^^ ((x >>> 8) &&& 0xff)) * p
  let h := (h ^^^ ((x >>> 16) &&& 0xff)) * p
  let h := (h ^^^ ((x >>> 24) &&& 0xff)) * p
  let h := (h ^^^ ((x >>> 32) &&& 0xff)) * p
  let h := (h ^^^ ((x >>> 40) &&& 0xff)) * p
  let h := (h ^^^ ((x >>> 48) &&& 0xff)) * p
  (h ^^^ ((x >>> 56) &&& 0xff)) * p
def fnvNat (h : UInt64) (n : Nat) : UInt64 := fnvMix h (UInt64.ofNat n)
def ckList (xs : List Nat) : UInt64 := xs.foldl fnvNat fnv0
def totalNodes (s : Sess) : Nat := s.model.foldl (fun a o => a + (match o with | some l => l.size | none => 0)) 0
def bigNow (s : Sess) : Bool := s.quiet && totalNodes s > BIGLIM
def obsM1ck (k : Nat) (l : Chain) : String :=
  let fw := l.forward
  s!"abs{k}=#{ckList fw}/{fw.length} size{k}={l.size} first{k}={fmtOpt fw.head?} last{k}={fmtOpt fw.getLast?}"
def obsS1ck (k : Nat) (l : List Nat) : String :=
  s!"abs{k}=#{ckList l}/{l.length} size{k}={l.length} first{k}={fmtOpt l.head?} last{k}={fmtOpt l.getLast?}"

def obsM (s : Sess) : String :=
  if s.sparse && !s.obsNow then "sparse" else if bigNow s then joinLive s.model obsM1ck "none" else joinLive s.model obsM1 "none"
def obsS (s : Sess) : String :=
  if s.sparse && !s.obsNow then "sparse" else if bigNow s then joinLive s.spec obsS1ck "none" else joinLive s.spec obsS1 "none"

def phys1 (s : Sess) (k : Nat) (l : Chain) : String :=
  let n := l.nodes.length
  s!"size{k}={l.size} head{k}={fmtPtr n l.head} tail{k}={fmtPtr n l.tail} nodes{k}={fmtList l.nodes}" ++
  (if s.itKind == 1 && s.itO == k then
     s!" itidx{k}={s.it.index} itcur{k}={fmtPtr n s.it.current} itprev{k}={fmtPtr n s.it.prev} itnext{k}={fmtPtr n s.it.next}" else "") ++
  (if s.itKind == 3 && (s.itO == k || s.itO2 == k) then
     let a := s.itO == k
     s!" zitidx{k}={s.zit.index} zitcur{k}={fmtPtr n (if a then s.zit.cur1 else s.zit.cur2)} zitprev{k}={fmtPtr n (if a then s.zit.prev1 else s.zit.prev2)} zitnext{k}={fmtPtr n (if a then s.zit.next1 else s.zit.next2)}" else "")
/-- ids along `next` from `p`, stopping at NULL or when the fuel is used up -/
def pWalk (h : PList.Heap) : Nat → Option Nat → List Nat → List Nat
  | 0, _, acc => acc.reverse
  | _, none, acc => acc.reverse
  | k + 1, some id, acc => pWalk h k (PList.nd h id).next (id :: acc)
def fmtDisp (s : Sess) : Option Nat → String
  | none => "-"
  | some id => match s.disp.get? id with | some d => toString d | none => "?"
/-- the raw link structure of slot `k`: every node on the `next` chain from `head` as `id:data:next` -/
def links1 (s : Sess) (k : Nat) : String :=
  match s.phd.getD k none with
  | none => s!" links{k}=? hd{k}=? tl{k}=?"
  | some hd =>
    let ids := pWalk s.pst.heap (hd.size + 4) hd.head []
    let item (id : Nat) := let n := PList.nd s.pst.heap id; s!"{fmtDisp s (some id)}:{n.data}:{fmtDisp s n.next}"
    s!" links{k}=[{",".intercalate (ids.map item)}] hd{k}={fmtDisp s hd.head} tl{k}={fmtDisp s hd.tail}"
/-- the quiet form of the phys section of slot `k` -/
def physQuiet1 (s : Sess) (k : Nat) (l : Chain) : String :=
  let n := l.nodes.length
  let hd := match l.head with | none => "-" | some _ => "0"
  let tl := match l.tail with | none => "-" | some j => if j + 1 == n then "last" else "?"
  let dnum (p : Option Nat) : Nat := match p with
    | none => 2 ^ 64 - 1
    | some id => match s.disp.get? id with | some d => d | none => 2 ^ 64 - 2
  let lck : String := match s.phd.getD k none with
    | none => "?"
    | some h =>
      let ids := pWalk s.pst.heap (h.size + 4) h.head []
      let c := ids.foldl (fun (c : UInt64) id =>
        let nd := PList.nd s.pst.heap id
        fnvNat (fnvNat (fnvNat c (dnum (some id))) nd.data) (dnum nd.next)) fnv0
      toString (fnvNat (fnvNat c (dnum h.head)) (dnum h.tail))
  s!"size{k}={l.size} head{k}={hd} tail{k}={tl} first{k}={fmtOpt l.nodes.head?} last{k}={fmtOpt l.nodes.getLast?} nck{k}={ckList l.nodes} lck{k}={lck}" ++
  (if s.itKind == 1 && s.itO == k then
     s!" itidx{k}={s.it.index} itcur{k}={fmtPtr n s.it.current} itprev{k}={fmtPtr n s.it.prev} itnext{k}={fmtPtr n s.it.next}" else "") ++
  (if s.itKind == 3 && (s.itO == k || s.itO2 == k) then
     let a := s.itO == k
     s!" zitidx{k}={s.zit.index} zitcur{k}={fmtPtr n (if a then s.zit.cur1 else s.zit.cur2)} zitprev{k}={fmtPtr n (if a then s.zit.prev1 else s.zit.prev2)} zitnext{k}={fmtPtr n (if a then s.zit.next1 else s.zit.next2)}" else "")
def phys (s : Sess) : String :=
  (if s.quiet && !(s.obsNow && totalNodes s ≤ BIGLIM) then joinLive s.model (physQuiet1 s) "-"
   else joinLive s.model (fun k l => phys1 s k l ++ links1 s k) "-") ++ s.pbad

def inv (s : Sess) : Bool := s.model.all fun o => match o with | none => true | some l => decide l.Inv

/-- the spec line and the head of the model line for the state `s` after the operation; `step` appends
` | phys | mem | flags` once the pointer-level model has been advanced as well -/
def fin (s : Sess) (hdS hdM : String) : Sess × String × String :=
  (s, s!"S {hdS} {obsS s}", s!"M {hdM} {obsM s}")
def fin1 (s : Sess) (hd : String) : Sess × String × String := fin s hd hd
/-- `st=- nosession`: obs carries no content -/
def noSess (s : Sess) (_ph : String) : Sess × String × String :=
  (s, "S st=- nosession", "M st=- nosession")

def getM (s : Sess) (k : Nat) : Option Chain := (s.model.getD k none)
def getS (s : Sess) (k : Nat) : Option (List Nat) := (s.spec.getD k none)
def setM (s : Sess) (k : Nat) (v : Option Chain) : Sess := { s with model := s.model.set k v }
def setS (s : Sess) (k : Nat) (v : Option (List Nat)) : Sess := { s with spec := s.spec.set k v }
def setMS (s : Sess) (k : Nat) (l : Chain) (a : List Nat) (m : Mem) : Sess :=
  { s with model := s.model.set k (some l), spec := s.spec.set k (some a), mem := m }

def hOut (st : Stat) (o : Option Nat) : String :=
  match o with | some v => if st == .ok then s!"{fmtStat st} out={v}" else fmtStat st | none => fmtStat st
def hOut2 (st : Stat) (o : Option (Nat × Nat)) : String :=
  match o with | some v => if st == .ok then s!"{fmtStat st} out={v.1} out2={v.2}" else fmtStat st | none => fmtStat st

/-- `noout=1`: the optional out-pointer(s) were NULL, nothing is reported besides the status -/
def hOutN (c : Cmd) (st : Stat) (o : Option Nat) : String := if c.nat "noout" 0 != 0 then fmtStat st else hOut st o
def hOut2N (c : Cmd) (st : Stat) (o : Option (Nat × Nat)) : String := if c.nat "noout" 0 != 0 then fmtStat st else hOut2 st o

def pickCmp (c : Cmd) : Nat → Nat → Int := if c.str "cmp" == some "key" then LSeq.cmpKey else LSeq.cmpNum

/-! ### big lists (scale histories)

Above `BIGLIM` nodes the driver does not execute the models element by element (the sequence-level models are quadratic on
`List`, the pointer-level heap is a chain of closures within one call) but evaluates the **closed forms that the proofs
establish for them**: `fill` = `n` × `add` (`addLast_ofList`, `addLast_spec`); `sort` (`sort_ofList`, `sort_spec`: same nodes, data
rewritten); `sort_in_place` (`sortInPlaceC_eq`, `msort_eq_stableSort`, `sortInPlace_spec`: the cells permuted by the stable
merge sort; at pointer level already above `PLFAST` nodes); `destroy`/`drop` (`destroy_ofList`, `destroy_spec`); at pointer level, above
`PLFAST` nodes, also `reverse` (`reverse_spec`: the same nodes in reverse order) and the builders (`BuilderOk`: fresh nodes). -/
def PLFAST : Nat := 256
def canon (t : Triple) (xs : List Nat) : Chain :=
  { nodes := xs, size := xs.length, head := if xs.isEmpty then none else some 0,
    tail := if xs.isEmpty then none else some (xs.length - 1), triple := t }
def fillVals (n sd : Nat) : List Nat := (List.range n).map fun i => (i * 7919 + sd * 104729) % 1000003
/-- the stable merge sort of `split`/`merge` (= `LSeq.stableSort` for a total preorder: `msort_eq_stableSort`) -/
def msortL (cmp : Nat → Nat → Int) : Nat → List Nat → List Nat
  | 0, xs => xs
  | fuel + 1, xs =>
    if xs.length < 2 then xs else
    List.merge (msortL cmp fuel (xs.take (xs.length / 2))) (msortL cmp fuel (xs.drop (xs.length / 2))) (fun a b => decide (cmp a b ≤ 0))
def fastSort (cmp : Nat → Nat → Int) (xs : List Nat) : List Nat := msortL cmp xs.length xs
/-- the same merge sort on cells (node id, data): which node ends up where (`PList.msortC`) -/
def msortCells (cmp : Nat → Nat → Int) : Nat → List (Nat × Nat) → List (Nat × Nat)
  | 0, xs => xs
  | fuel + 1, xs =>
    if xs.length < 2 then xs else
    List.merge (msortCells cmp fuel (xs.take (xs.length / 2))) (msortCells cmp fuel (xs.drop (xs.length / 2)))
      (fun a b => decide (cmp a.2 b.2 ≤ 0))

/-- destroy every live slot in ascending order -/
def destroyAll (s : Sess) (m : Mem) (cb : Bool) : Mem × List Nat :=
  (List.range NSLOT).foldl (fun (acc : Mem × List Nat) k =>
    match getM s k with
    | none => acc
    | some l => if cb then let r := SList.destroyCb l acc.1; (r.2, acc.2 ++ r.1)
                else if l.size > BIGLIM then (Mem.freeN l.triple (l.size + 1) acc.1, acc.2) else (SList.destroy l acc.1, acc.2)) (m, [])

def iterStep (s : Sess) (c : Cmd) (m : Mem) : Sess × String × String :=
  let k := c.nat "o" 0
  let s := { s with mem := m }
  match c.op with
  | "it_new" =>
    match getM s k, getS s k with
    | some l, some a =>
      let _ := a
      fin1 { s with itKind := 1, itO := k, itChanged := false, it := SList.iterInit l, sit := LSeq.itNew } "st=-"
    | _, _ => let s := { s with itKind := 0 }; noSess s (phys s)
  | "zit_new" =>
    let k2 := c.nat "o2" 1
    match getM s k, getM s k2 with
    | some l1, some l2 =>
      if k2 ≥ NSLOT || k2 == k then fin1 { s with itKind := 0 } "st=- contract" else
      fin1 { s with itKind := 3, itO := k, itO2 := k2, itChanged := false, zit := SList.zipInit l1 l2, sit := LSeq.itNew } "st=-"
    | _, _ => fin1 { s with itKind := 0 } "st=- contract"
  | _ =>
    let want := if c.op.startsWith "it_" then 1 else 3
    let sub := (c.op.drop (if want == 1 then 3 else 4)).toString
    if s.itKind != want then fin1 s "st=- noiter" else
    if want == 3 then
      match getM s s.itO, getM s s.itO2, getS s s.itO, getS s s.itO2 with
      | some l1, some l2, some a1, some a2 =>
        let z := s.zit
        let last : Ptr := if z.cur1 != none && z.cur2 != none then z.cur1 else none
        match sub with
        | "next" =>
          let r := SList.zipNext l1 l2 z m
          let rs := LSeq.zitNext a1 a2 s.sit
          fin { s with zit := (r.2.2.1), mem := (r.2.2.2), sit := (rs.2.2), itChanged := if r.1 == .ok then false else s.itChanged }
            (hOut2 rs.1 rs.2.1) (hOut2 r.1 r.2.1)
        | "add" =>
          if last == none then fin1 s "st=- contract" else
          let r := SList.zipAdd l1 l2 z (c.arg 0) (c.arg 1) m
          let sx1 := setM (setM s s.itO (some r.2.1)) s.itO2 (some r.2.2.1)
          let s' := { sx1 with zit := (r.2.2.2.1), mem := (r.2.2.2.2), itChanged := if r.1 == .ok then true else s.itChanged }
          if c.fired > 0 then fin s' (fmtStat .errAlloc) (fmtStat r.1) else
          let rs := LSeq.zitAdd true a1 a2 s.sit (c.arg 0) (c.arg 1)
          let sx2 := setS (setS s' s.itO (some rs.1)) s.itO2 (some rs.2.1)
          fin { sx2 with sit := (rs.2.2) } (fmtStat .ok) (fmtStat r.1)
        | "remove" =>
          let r := SList.zipRemove l1 l2 z m
          let rs := LSeq.zitRemove a1 a2 s.sit
          let sx3 := setM (setM s s.itO (some r.2.2.1)) s.itO2 (some r.2.2.2.1)
          let s' := { sx3 with zit := (r.2.2.2.2.1), mem := (r.2.2.2.2.2), itChanged := if r.1 == .ok then true else s.itChanged }
          let sx4 := setS (setS s' s.itO (some rs.2.2.1)) s.itO2 (some rs.2.2.2.1)
          fin { sx4 with sit := (rs.2.2.2.2) } (hOut2N c rs.1 rs.2.1) (hOut2N c r.1 r.2.1)
        | "replace" =>
          let r := SList.zipReplace l1 l2 z (c.arg 0) (c.arg 1) m
          let rs := LSeq.zitReplace a1 a2 s.sit (c.arg 0) (c.arg 1)
          let sx5 := setM (setM s s.itO (some r.2.2.1)) s.itO2 (some r.2.2.2.1)
          let s' := { sx5 with mem := (r.2.2.2.2) }
          fin (setS (setS s' s.itO (some rs.2.2.1)) s.itO2 (some rs.2.2.2)) (hOut2N c rs.1 rs.2.1) (hOut2N c r.1 r.2.1)
        | "index" => fin s s!"st=- out={LSeq.itIndex s.sit}" s!"st=- out={SList.zipIndex z}"
        | _ => fin1 s "st=- badop"
      | _, _, _, _ => fin1 s "st=- noiter"
    else
      match getM s s.itO, getS s s.itO with
      | some l, some a =>
        let it := s.it
        match sub with
        | "next" =>
          let r := SList.iterNext l it m
          let rs := LSeq.itNext a s.sit
          fin { s with it := (r.2.2.1), mem := (r.2.2.2), sit := (rs.2.2), itChanged := if r.1 == .ok then false else s.itChanged }
            (hOut rs.1 rs.2.1) (hOut r.1 r.2.1)
        | "add" =>
          if it.current == none then fin1 s "st=- contract" else
          let r := SList.iterAdd l it (c.arg 0) m
          let sx6 := setM s s.itO (some r.2.1)
          let s' := { sx6 with it := (r.2.2.1), mem := (r.2.2.2), itChanged := if r.1 == .ok then true else s.itChanged }
          if c.fired > 0 then fin s' (fmtStat .errAlloc) (fmtStat r.1) else
          let rs := LSeq.itAdd true a s.sit (c.arg 0)
          let sx7 := setS s' s.itO (some rs.1)
          fin { sx7 with sit := rs.2 } (fmtStat .ok) (fmtStat r.1)
        | "remove" =>
          let r := SList.iterRemove l it m
          let rs := LSeq.itRemove a s.sit
          let sx8 := setM s s.itO (some r.2.2.1)
          let s' := { sx8 with it := (r.2.2.2.1), mem := (r.2.2.2.2), itChanged := if r.1 == .ok then true else s.itChanged }
          let sx9 := setS s' s.itO (some rs.2.2.1)
          fin { sx9 with sit := (rs.2.2.2) } (hOutN c rs.1 rs.2.1) (hOutN c r.1 r.2.1)
        | "replace" =>
          let r := SList.iterReplace l it (c.arg 0) m
          let rs := LSeq.itReplace a s.sit (c.arg 0)
          let sx10 := setM s s.itO (some r.2.2.1)
          fin (setS { sx10 with mem := (r.2.2.2) } s.itO (some rs.2.2)) (hOutN c rs.1 rs.2.1) (hOutN c r.1 r.2.1)
        | "index" =>
          fin s s!"st=- out={LSeq.itIndex s.sit}" s!"st=- out={SList.iterIndex it}"
        | _ => fin1 s "st=- badop"
      | _, _ => fin1 s "st=- noiter"

/-- the sequence-level models: new session, spec line, head of the model line -/
def stepCore (s : Sess) (c : Cmd) : Sess × String × String :=
  let k := c.nat "o" 0
  let m := s.mem.begin c.sched
  let from_ := c.nat "from" 1
  let to := c.nat "to" 1
  let v := c.arg 0
  let idx := c.nat "idx" 0
  let refused := c.fired > 0
  let isIt := c.op.startsWith "it_" || c.op.startsWith "zit_"
  let s := if isIt || c.op == "observe" then s else { s with itKind := 0 }
  let s := { s with obsNow := c.op == "observe",
                    sparse := s.sparse || (c.op.startsWith "new" && c.str "obs" == some "sparse"),
                    quiet := s.quiet || (c.op.startsWith "new" && c.str "phys" == some "quiet") }
  if k ≥ NSLOT || from_ ≥ NSLOT || to ≥ NSLOT then fin1 { s with mem := m } "st=- badslot" else
  if c.op == "observe" then fin1 { s with mem := m } "st=-" else
  if c.op == "new" || c.op == "new_default" then
    match getM s k with
    | some _ => fin1 { s with mem := m } "st=- busy"
    | none =>
      let r := SList.new (if c.op == "new_default" then .libc else .conf) m
      let sx11 := setM s k r.2.1
      let s' := { sx11 with mem := (r.2.2) }
      let s' := setS s' k (if refused then none else some [])
      fin s' (fmtStat (if refused then .errAlloc else .ok)) (fmtStat r.1)
  else if c.op == "destroy" || c.op == "destroy_cb" then
    if s.model.all (· == none) then noSess { s with mem := m } "-" else
    let r := destroyAll s m (c.op == "destroy_cb")
    let cbS : List Nat := (s.spec.filterMap id).flatten
    let s' : Sess := { s with model := [none, none, none, none], spec := [none, none, none, none], mem := r.1 }
    if c.op == "destroy_cb" then fin s' s!"st=- cb={fmtList cbS}" s!"st=- cb={fmtList r.2}" else fin1 s' "st=-"
  else if isIt then iterStep s c m
  else
  match getM s k, getS s k with
  | some l, some a =>
    let s := { s with mem := m }
    match c.op with
    | "drop" =>
      let sx12 := setS (setM s k none) k none
      fin1 { sx12 with mem := if l.size > BIGLIM then Mem.freeN l.triple (l.size + 1) m else SList.destroy l m } "st=-"
    | "drop_cb" =>
      let r := SList.destroyCb l m
      let sx13 := setS (setM s k none) k none
      fin { sx13 with mem := r.2 } s!"st=- cb={fmtList a}" s!"st=- cb={fmtList r.1}"
    | "add" | "add_last" | "add_first" | "add_at" =>
      let r := if c.op == "add_first" then SList.addFirst l v m else if c.op == "add_at" then SList.addAt l v idx m else SList.addLast l v m
      let rs : Stat × List Nat :=
        if c.op == "add_at" then (let q := LSeq.addAt a v idx; if q.1 == .ok && refused then (.errAlloc, a) else q)
        else if refused then (.errAlloc, a)
        else if c.op == "add_first" then (.ok, LSeq.addFirst a v) else (.ok, LSeq.addLast a v)
      fin (setMS s k r.2.1 rs.2 r.2.2) (fmtStat rs.1) (fmtStat r.1)
    | "add_all" | "add_all_at" | "splice" | "splice_at" =>
      match getM s from_, getS s from_ with
      | some l2, some a2 =>
        if from_ == k && (c.op == "splice" || c.op == "splice_at") then fin1 s "st=- contract" else
        if c.op == "add_all" || c.op == "add_all_at" then
          let r := if c.op == "add_all" then SList.addAll l l2 m else SList.addAllAt l l2 idx m
          let q := if c.op == "add_all" then LSeq.addAll a a2 else LSeq.addAllAt false a a2 idx
          let rs : Stat × List Nat := if refused then (.errAlloc, a) else (q.1, q.2.1)
          fin (setMS s k r.2.1 rs.2 r.2.2) (fmtStat rs.1) (fmtStat r.1)
        else
          let r := if c.op == "splice" then SList.splice l l2 m else SList.spliceAt l l2 idx m
          let q := if c.op == "splice" then LSeq.splice a a2 else LSeq.spliceAt false a a2 idx
          let s' := setMS s k r.2.1 q.2.1 r.2.2.2
          fin (setS (setM s' from_ (some r.2.2.1)) from_ (some q.2.2)) (fmtStat q.1) (fmtStat r.1)
      | _, _ => fin1 s "st=- contract"
    | "remove" | "remove_at" | "remove_first" | "remove_last" =>
      let r := if c.op == "remove" then SList.remove l v m else if c.op == "remove_at" then SList.removeAt l idx m
               else if c.op == "remove_first" then SList.removeFirst l m else SList.removeLast l m
      let q := if c.op == "remove" then LSeq.remove a v else if c.op == "remove_at" then LSeq.removeAt a idx
               else if c.op == "remove_first" then LSeq.removeFirst a else LSeq.removeLast a
      fin (setMS s k r.2.2.1 q.2.2 r.2.2.2) (hOutN c q.1 q.2.1) (hOutN c r.1 r.2.1)
    | "remove_all" | "remove_all_cb" =>
      let r := SList.removeAll l m
      let q := LSeq.removeAll a
      let cbp (st : String) (cb : List Nat) := if c.op == "remove_all_cb" then s!"{st} cb={fmtList cb}" else st
      fin (setMS s k r.2.2.1 q.2.2 r.2.2.2) (cbp (fmtStat q.1) q.2.1) (cbp (fmtStat r.1) r.2.1)
    | "replace_at" =>
      let r := SList.replaceAt l v idx m
      let q := LSeq.replaceAt a v idx
      fin (setMS s k r.2.2.1 q.2.2 r.2.2.2) (hOutN c q.1 q.2.1) (hOutN c r.1 r.2.1)
    | "get_first" | "get_last" | "get_at" =>
      let r := if c.op == "get_first" then SList.getFirst l m else if c.op == "get_last" then SList.getLast l m else SList.getAt l idx m
      let q := if c.op == "get_first" then LSeq.getFirst a else if c.op == "get_last" then LSeq.getLast a else LSeq.getAt a idx
      fin { s with mem := (r.2.2) } (hOut q.1 q.2) (hOut r.1 r.2.1)
    | "reverse" =>
      fin1 (setMS s k (SList.reverse l) a.reverse m) "st=-"
    | "size" => fin s s!"st=- out={a.length}" s!"st=- out={l.size}"
    | "contains" =>
      let r := SList.contains l v m
      fin { s with mem := r.2 } s!"st=- out={LSeq.contains a v}" s!"st=- out={r.1}"
    | "contains_value" =>
      let r := SList.containsValue (pickCmp c) l v m
      fin { s with mem := r.2 } s!"st=- out={LSeq.containsValue (pickCmp c) a v}" s!"st=- out={r.1}"
    | "index_of" =>
      let r := SList.indexOf l v m
      let q := LSeq.indexOf LSeq.cmpNum a v
      fin { s with mem := r.2.2 } (hOut q.1 q.2) (hOut r.1 r.2.1)
    | "to_array" =>
      let r := SList.toArray l m
      let q := LSeq.toArray true a
      let q : Stat × Option (List Nat) := if q.1 == .ok && refused then (.errAlloc, none) else q
      let h (st : Stat) (o : Option (List Nat)) := match o with | some xs => s!"{fmtStat st} arr={fmtList xs}" | none => fmtStat st
      -- the harness (the caller) releases the array it was handed
      fin { s with mem := if r.1 == .ok then r.2.2.freeT l.triple else r.2.2 } (h q.1 q.2) (h r.1 r.2.1)
    | "foreach" =>
      let r := SList.foreach l m
      fin { s with mem := r.2 } s!"st=- cb={fmtList a}" s!"st=- cb={fmtList r.1}"
    | "filter_mut" =>
      let r := SList.filterMut LSeq.predEven l m
      let q := LSeq.filterMut LSeq.predEven a
      fin (setMS s k r.2.1 q.2 r.2.2) (fmtStat q.1) (fmtStat r.1)
    | "fill" =>
      -- `n` calls of `add`: one node each through the list's allocator; the first refusal stops the loop
      let vals := fillVals (c.nat "n" 0) (c.nat "seed" 1)
      let r := vals.foldl (fun (acc : Bool × List Nat × Mem) v => if !acc.1 then acc else
                 let al := acc.2.2.allocT l.triple
                 if al.1 then (true, v :: acc.2.1, al.2) else (false, acc.2.1, al.2)) (true, [], m)
      let added := r.2.1.reverse
      let st : Stat := if r.1 then .ok else .errAlloc
      fin (setMS s k (canon l.triple (l.nodes ++ added)) (a ++ added) r.2.2) (fmtStat st) (fmtStat st)
    | "sort" =>
      if a.length > BIGLIM then
        let al := m.allocT l.triple
        let sorted := fastSort LSeq.cmpNum a
        if al.1 then fin (setMS s k (canon l.triple (fastSort LSeq.cmpNum l.nodes)) sorted (al.2.freeT l.triple)) (fmtStat .ok) (fmtStat .ok)
        else fin (setMS s k l a al.2) (fmtStat .errAlloc) (fmtStat .errAlloc)
      else
      let r := SList.sort (LSeq.stableSort LSeq.cmpNum) l m
      let q := LSeq.sort true (LSeq.stableSort LSeq.cmpNum) a
      let q : Stat × List Nat := if q.1 == .ok && refused then (.errAlloc, a) else q
      fin (setMS s k r.2.1 q.2 r.2.2) (fmtStat q.1) (fmtStat r.1)
    | "mk_sub" | "mk_copy_shallow" | "mk_copy_deep" | "mk_filter" =>
      if (getM s to).isSome || to == k then fin1 s "st=- busy" else
      let r := if c.op == "mk_sub" then SList.sublist l (c.nat "b" 0) (c.nat "e" 0) m
               else if c.op == "mk_copy_shallow" then SList.copy id l m
               else if c.op == "mk_copy_deep" then SList.copy LSeq.cpPlus l m
               else SList.filter LSeq.predEven l m
      let q : Stat × Option (List Nat) :=
               if c.op == "mk_sub" then LSeq.sublist a (c.nat "b" 0) (c.nat "e" 0)
               else if c.op == "mk_copy_shallow" then (.ok, some (LSeq.copyShallow a))
               else if c.op == "mk_copy_deep" then (.ok, some (LSeq.copyDeep LSeq.cpPlus a))
               else LSeq.filter LSeq.predEven a
      let q : Stat × Option (List Nat) := if q.1 == .ok && refused then (.errAlloc, none) else q
      let sx14 := setS (setM s to r.2.1) to q.2
      fin { sx14 with mem := (r.2.2) } (fmtStat q.1) (fmtStat r.1)
    | _ => fin1 s "st=- badop"
  | _, _ =>
    let s := { s with mem := m }
    noSess s (phys s)

/-! ### the pointer-level model alongside -/

def plUnsupported : List String :=
  []

/-- rebuild the pointer-level state from the sequence-level one (fresh nodes, linked canonically) -/
def resync (s : Sess) : Sess :=
  let build (acc : PList.St × List (Option PList.Hdr)) (o : Option Chain) : PList.St × List (Option PList.Hdr) :=
    match o with
    | none => (acc.1, acc.2 ++ [none])
    | some l =>
      let n := l.nodes.length
      let base := acc.1.fresh
      let heap0 := acc.1.heap
      let tbl : Std.HashMap Nat PList.PNode := Std.HashMap.ofList ((List.range n).map fun i =>
        (base + i, { data := l.nodes.getD i 0, next := if i + 1 < n then some (base + i + 1) else none, prev := none }))
      let heap : PList.Heap := ⟨fun j => match tbl.get? j with | some nd => some nd | none => heap0 j⟩
      ({ heap := heap, fresh := base + n },
       acc.2 ++ [some { size := l.size, head := l.head.map (base + ·), tail := l.tail.map (base + ·), triple := l.triple }])
  let r := s.model.foldl build ({ heap := {}, fresh := s.pst.fresh }, [])
  { s with pst := r.1, phd := r.2, disp := {} }

def setP (s : Sess) (k : Nat) (st : PList.St) (h : Option PList.Hdr) : Sess := { s with pst := st, phd := s.phd.set k h }
def chk (s : Sess) (m : Mem) : Sess := if fmtMem m == fmtMem s.mem then s else { s with pbad := " PMEM=differs" }

/-- the cells (node id, data) of slot `k` along `next` from `head` -/
def curCells (s : Sess) (k : Nat) : List (Nat × Nat) :=
  match s.phd.getD k none with
  | none => []
  | some h => (pWalk s.pst.heap (h.size + 4) h.head []).map fun id => (id, (PList.nd s.pst.heap id).data)
/-- slot `k` rebuilt at pointer level from a cell list (the closed forms of the big-list operations); `dead` ids leave the heap -/
def rebuild (s : Sess) (k : Nat) (t : Triple) (cells : List (Nat × Nat)) (dead : List Nat) (keep : Bool) : Sess :=
  let arr := cells.toArray
  let n := arr.size
  let tbl : Std.HashMap Nat (Option PList.PNode) := Id.run do
    let mut tb : Std.HashMap Nat (Option PList.PNode) := {}
    for d in dead do tb := tb.insert d none
    for i in [0:n] do
      let c := arr[i]!
      tb := tb.insert c.1 (some { data := c.2, next := if i + 1 < n then some arr[i+1]!.1 else none,
                                  prev := none })
    return tb
  let old := s.pst.heap
  let heap : PList.Heap := ⟨fun j => match tbl.get? j with | some x => x | none => old j⟩
  let hdr : PList.Hdr := { size := n, head := if n = 0 then none else some arr[0]!.1,
                           tail := if n = 0 then none else some arr[n-1]!.1, triple := t }
  { s with pst := { s.pst with heap := heap }, phd := s.phd.set k (if keep then some hdr else none) }

/-- advance the pointer-level model: `old` is the session before the operation, `s` after it -/
def plStep (old s : Sess) (c : Cmd) : Sess :=
  let k := c.nat "o" 0
  let m := old.mem.begin c.sched
  let from_ := c.nat "from" 1
  let to := c.nat "to" 1
  let v := c.arg 0
  let idx := c.nat "idx" 0
  if k ≥ NSLOT || from_ ≥ NSLOT || to ≥ NSLOT then s else
  if plUnsupported.contains c.op then resync s else
  -- closed forms for the big-list operations (see above)
  if c.op == "fill" then
    match old.phd.getD k none, getM s k with
    | some h, some l' =>
      let cs := curCells old k
      let newData := l'.nodes.drop cs.length
      let fr := s.pst.fresh
      let newCells := ((List.range newData.length).zip newData).map fun iv => (fr + iv.1, iv.2)
      rebuild { s with pst := { s.pst with fresh := fr + newData.length } } k h.triple (cs ++ newCells) [] true
    | _, _ => s
  else
  if c.op == "sort" && (match getM old k with | some l => l.size > PLFAST | none => false) then
    match old.phd.getD k none, getM s k with
    | some h, some l' => let cs := curCells old k; rebuild s k h.triple ((cs.map (·.1)).zip l'.nodes) [] true
    | _, _ => s
  else
  if c.op == "reverse" && (match getM old k with | some l => l.size > PLFAST | none => false) then
    -- `reverse_spec`: the same nodes in reverse order
    match old.phd.getD k none with
    | some h => rebuild s k h.triple (curCells old k).reverse [] true
    | none => s
  else
  if c.op.startsWith "mk_" && (match getM old k with | some l => l.size > PLFAST | none => false) then
    -- `BuilderOk`: on success the result consists of fresh nodes carrying the sequence-level content, the source is untouched
    if (getM old to).isSome || to == k then s else
    match old.phd.getD k none, getM s to with
    | some h, some l' =>
      let fr := s.pst.fresh
      let cells := ((List.range l'.nodes.length).zip l'.nodes).map fun iv => (fr + iv.1, iv.2)
      rebuild { s with pst := { s.pst with fresh := fr + l'.nodes.length } } to h.triple cells [] true
    | _, _ => s
  else
  if (c.op == "filter_mut" || c.op == "remove_all") && (match getM old k with | some l => l.size > PLFAST | none => false) then
    -- `filterMut_spec` / `removeAll_spec`: exactly the nodes whose element fails the predicate (all nodes) leave the chain
    match old.phd.getD k none with
    | some h =>
      let cs := curCells old k
      let keep := if c.op == "filter_mut" then cs.filter (fun x => LSeq.predEven x.2) else []
      let dead := if c.op == "filter_mut" then (cs.filter (fun x => !LSeq.predEven x.2)).map (·.1) else cs.map (·.1)
      rebuild s k h.triple keep dead true
    | none => s
  else
  if (c.op == "drop" || c.op == "destroy") && (List.range NSLOT).any (fun j => match getM old j with | some l => l.size > PLFAST | none => false) then
    (List.range NSLOT).foldl (fun (acc : Sess) j =>
      if c.op == "destroy" || j == k then
        match old.phd.getD j none with
        | some h => rebuild acc j h.triple [] ((curCells old j).map (·.1)) false
        | none => acc
      else acc) s
  else
  if c.op == "new" || c.op == "new_default" then
    if (getM old k).isSome then s else
    let r := PSList.new (if c.op == "new_default" then .libc else .conf) m
    chk (setP s k s.pst r.2.1) r.2.2
  else if c.op == "destroy" || c.op == "destroy_cb" then
    let r := (List.range NSLOT).foldl (fun (acc : PList.St × Mem) j =>
      match old.phd.getD j none with
      | none => acc
      | some h => let d := PSList.destroy acc.1 h acc.2; (d.2.1, d.2.2)) (s.pst, m)
    chk { s with pst := r.1, phd := [none, none, none, none] } r.2
  else if c.op == "it_new" then
    match old.phd.getD k none with
    | some h => { s with pit := PSList.piterInit h }
    | none => s
  else if c.op == "zit_new" then
    let k2 := c.nat "o2" 1
    if k2 ≥ NSLOT || k2 == k then s else
    match old.phd.getD k none, old.phd.getD k2 none with
    | some h1, some h2 => { s with pz := PSList.pzipInit h1 h2 }
    | _, _ => s
  else if c.op.startsWith "it_" || c.op.startsWith "zit_" then
    -- the iterator fields are node ids, the surgery is that of the C text (no resynchronisation)
    let want := if c.op.startsWith "it_" then 1 else 3
    let sub := (c.op.drop (if want == 1 then 3 else 4)).toString
    if old.itKind != want then s else
    if want == 3 then
      let z := old.pz
      match old.phd.getD old.itO none, old.phd.getD old.itO2 none with
      | some h1, some h2 =>
        if sub == "next" then { s with pz := (PSList.pzipNext s.pst.heap z).2.2 }
        else if sub == "add" then
          if z.cur1 == none || z.cur2 == none then s else
          let r := PSList.pzipAdd s.pst h1 h2 z (c.arg 0) (c.arg 1) m
          chk { (setP (setP s old.itO r.2.1 (some r.2.2.1)) old.itO2 r.2.1 (some r.2.2.2.1)) with pz := r.2.2.2.2.1 } r.2.2.2.2.2
        else if sub == "remove" then
          let r := PSList.pzipRemove s.pst h1 h2 z m
          chk { (setP (setP s old.itO r.2.2.1 (some r.2.2.2.1)) old.itO2 r.2.2.1 (some r.2.2.2.2.1)) with pz := r.2.2.2.2.2.1 } r.2.2.2.2.2.2
        else if sub == "replace" then { s with pst := (PSList.pzipReplace s.pst z (c.arg 0) (c.arg 1)).2.2 }
        else s
      | _, _ => s
    else
      let it := old.pit
      match old.phd.getD old.itO none with
      | some h =>
        if sub == "next" then { s with pit := (PSList.piterNext s.pst.heap it).2.2 }
        else if sub == "add" then
          if it.current == none then s else
          let r := PSList.piterAdd s.pst h it (c.arg 0) m
          chk { (setP s old.itO r.2.1 (some r.2.2.1)) with pit := r.2.2.2.1 } r.2.2.2.2
        else if sub == "remove" then
          let r := PSList.piterRemove s.pst h it m
          chk { (setP s old.itO r.2.2.1 (some r.2.2.2.1)) with pit := r.2.2.2.2.1 } r.2.2.2.2.2
        else if sub == "replace" then { s with pst := (PSList.piterReplace s.pst it (c.arg 0)).2.2 }
        else s
      | none => s
  else
  match old.phd.getD k none, getM old k with
  | some h, some _ =>
    match c.op with
    | "drop" | "drop_cb" => let d := PSList.destroy s.pst h m; chk (setP s k d.2.1 none) d.2.2
    | "add" | "add_last" | "add_first" | "add_at" =>
      let r := if c.op == "add_first" then PSList.addFirst s.pst h v m else if c.op == "add_at" then PSList.addAt s.pst h v idx m
               else PSList.addLast s.pst h v m
      chk (setP s k r.2.1 (some r.2.2.1)) r.2.2.2
    | "add_all" | "add_all_at" | "splice" | "splice_at" =>
      match old.phd.getD from_ none with
      | some h2 =>
        if from_ == k && (c.op == "splice" || c.op == "splice_at") then s else
        if c.op == "add_all" || c.op == "add_all_at" then
          let r := if c.op == "add_all" then PSList.addAll s.pst h h2 m else PSList.addAllAt s.pst h h2 idx m
          chk (setP s k r.2.1 (some r.2.2.1)) r.2.2.2
        else
          let r := if c.op == "splice" then PSList.splice s.pst h h2 m else PSList.spliceAt s.pst h h2 idx m
          chk (setP (setP s k r.2.1 (some r.2.2.1)) from_ r.2.1 (some r.2.2.2.1)) r.2.2.2.2
      | none => s
    | "remove" | "remove_at" | "remove_first" | "remove_last" =>
      let r := if c.op == "remove" then PSList.remove s.pst h v m else if c.op == "remove_at" then PSList.removeAt s.pst h idx m
               else if c.op == "remove_first" then PSList.removeFirst s.pst h m else PSList.removeLast s.pst h m
      chk (setP s k r.2.2.1 (some r.2.2.2.1)) r.2.2.2.2
    | "remove_all" | "remove_all_cb" =>
      let r := PSList.removeAll s.pst h m
      chk (setP s k r.2.2.1 (some r.2.2.2.1)) r.2.2.2.2
    | "replace_at" =>
      let r := PSList.replaceAt s.pst h v idx m
      chk (setP s k r.2.2.1 (some r.2.2.2.1)) r.2.2.2.2
    | "reverse" => let r := PSList.reverse s.pst h; setP s k r.1 (some r.2)
    | "filter_mut" => let r := PSList.filterMut LSeq.predEven s.pst h m; chk (setP s k r.2.1 (some r.2.2.1)) r.2.2.2
    | "sort" => let r := PSList.sort (LSeq.stableSort LSeq.cmpNum) s.pst h m; chk (setP s k r.2.1 (some r.2.2.1)) r.2.2.2
    | "mk_sub" | "mk_copy_shallow" | "mk_copy_deep" | "mk_filter" =>
      if (getM old to).isSome || to == k then s else
      let r := if c.op == "mk_sub" then PSList.sublist s.pst h (c.nat "b" 0) (c.nat "e" 0) m
               else if c.op == "mk_copy_shallow" then PSList.copy id s.pst h m
               else if c.op == "mk_copy_deep" then PSList.copy LSeq.cpPlus s.pst h m
               else PSList.filter LSeq.predEven s.pst h m
      chk (setP s to r.2.1 r.2.2.1) r.2.2.2
    | _ => s
  | _, _ => s

/-- number the nodes the way the shim does: walk every live slot in ascending order along `next` from `head`;
a node seen in the previous walk keeps its display id, a new one gets the next number; also drop the closure
chain of the heap (only reachable nodes are kept) -/
def relabel (s : Sess) : Sess :=
  let walk (acc : List Nat × Std.HashSet Nat) (o : Option PList.Hdr) : List Nat × Std.HashSet Nat :=
    match o with
    | none => acc
    | some h => (pWalk s.pst.heap (h.size + 4) h.head []).foldl (fun (a : List Nat × Std.HashSet Nat × Bool) id =>
        if a.2.2 || a.2.1.contains id then (a.1, a.2.1, true) else (id :: a.1, a.2.1.insert id, false)) (acc.1, acc.2, false)
        |> fun a => (a.1, a.2.1)
  let ids := (s.phd.foldl walk ([], {})).1.reverse
  let r := ids.foldl (fun (acc : Std.HashMap Nat Nat × Nat) id =>
    match s.disp.get? id with
    | some d => (acc.1.insert id d, acc.2)
    | none => (acc.1.insert id acc.2, acc.2 + 1)) (({} : Std.HashMap Nat Nat), s.dnext)
  let tbl : Std.HashMap Nat PList.PNode := Std.HashMap.ofList (ids.filterMap fun id => (s.pst.heap id).map (id, ·))
  { s with disp := r.1, dnext := r.2, pst := { s.pst with heap := ⟨fun j => tbl.get? j⟩ } }

/-- returns the new session, the spec line and the model line -/
def step (s : Sess) (c : Cmd) : Sess × String × String :=
  let r := stepCore s c
  let s' := relabel (plStep s r.1 c)
  (s', r.2.1, r.2.2 ++ s!" | {phys s'} | {fmtMem s'.mem} | {fmtFlags (inv s') s'.mem}")

end CC.Driver.SListD
