import CollectionsC.Driver.Cmd
import CollectionsC.Driver.TreeTable
import CollectionsC.Model.TreeSet
-- container: treeset
namespace CC.Driver.TreeSetD
open CC CC.Driver
open CC.Spec (OrdMap)
open CC.Spec.OrdMap (Out Cursor)
open CC.Driver.TreeTableD (cmpOf fmtPT fmtIter hdr ptStep ptAgrees sumPT hex16 invB)

structure Sess where
  which : Nat := 0
  model : Option TreeSet := none
  spec  : Option OrdMap := none      -- the ideal set: a map to the dummy
  iter  : Option TreeIter := none
  cursor : Option Cursor := none
  mem   : Mem := {}
  /-- `obs=sparse`: the content is printed by `observe` only -/
  sparse : Bool := false
  /-- the pointer-level model of the wrapped table, run alongside -/
  pt  : PTree.PT := {}
  pit : Option PTree.PIter := none
  /-- `keys=buf` / `phys=quiet`: see Driver/TreeTable.lean -/
  buf : Bool := false
  quiet : Bool := false

def obsM (t : Option TreeSet) : String :=
  match t with
  | none => "elems=[] size=0"
  | some t => s!"elems={fmtList t.abs} size={t.size}"
def obsS (f : Option OrdMap) : String := s!"elems={fmtList (OrdMap.keys (f.getD []))} size={(f.getD []).length}"
def phys (s : Sess) (cmps : Nat) (full : Bool := false) : String :=
  match s.model with
  | none => "-"
  | some t =>
    let tree := if s.quiet && !full then s!"tree#={hex16 (sumPT s.pt.heap s.buf (s.pt.size + 1) s.pt.root 14695981039346656037)}"
                else s!"tree={fmtPT s.pt.heap s.buf (s.pt.size + 1) s.pt.root}"
    s!"size={t.t.size} cmps={cmps} it={fmtIter t.t.root s.pt s.pit s.iter} {tree}"
/-- `t.Inv cmp` in linear time (see `TreeTableD.invB`) -/
def invSetB (cmp : Nat → Nat → Int) (t : TreeSet) : Bool :=
  invB cmp t.t && t.t.root.toList.all (fun e => e.2 == Spec.OrdSet.dummy) && decide (t.t.triple = t.triple)
def inv (s : Sess) : Bool :=
  match s.model with | none => true | some t => invSetB (cmpOf s.which) t && ptAgrees s.pt t.t
def lineS (hd : String) (s : Sess) (full : Bool := false) : String :=
  if s.sparse && !full then s!"S {hd} " else s!"S {hd} {obsS s.spec}"
def lineM (hd : String) (s : Sess) (cmps : Nat) (full : Bool := false) : String :=
  let obs := if s.sparse && !full then "" else obsM s.model
  s!"M {hd} {obs} | {phys s cmps full} | {fmtMem s.mem} | {fmtFlags (inv s) s.mem}"

def parseOp (c : Cmd) : Option Spec.OrdSet.Op :=
  match c.op with
  | "add" => some (.add (c.arg 0))
  | "remove" => some (.remove (c.arg 0))
  | "remove_all" => some .removeAll
  | "contains" => some (.contains (c.arg 0))
  | "size" => some .size
  | "first" => some .first
  | "last" => some .last
  | "greater_than" => some (.greaterThan (c.arg 0))
  | "lesser_than" => some (.lesserThan (c.arg 0))
  | "foreach" => some .foreach
  | _ => none

def step (s : Sess) (c : Cmd) : Sess × String × String :=
  let m := s.mem.begin c.sched
  let noout := c.nat "noout" 0 != 0
  match c.op with
  | "new" | "new_default" =>
    -- `new_default`: the library's default constructor, i.e. the C library's allocator triple
    let (st, t, m) := TreeSet.newT (if c.op == "new_default" then .libc else .conf) m
    let (sst, sp) : Stat × Option OrdMap := if c.fired > 0 then (.errAlloc, none) else (.ok, some [])
    let s' : Sess := { which := c.nat "cmp" 0, model := t, spec := sp, mem := m, sparse := c.str "obs" == some "sparse", pt := PTree.new,
                       buf := c.str "keys" == some "buf", quiet := c.str "phys" == some "quiet" }
    (s', lineS (fmtStat sst) s', lineM (fmtStat st) s' 0)
  | _ =>
  match s.model, s.spec with
  | some t, some f =>
    let cmp := cmpOf s.which
    match parseOp c with
    | some op =>
      let (o, t', m, n) := t.step cmp op m
      let (so, f') := Spec.OrdSet.step cmp f op (c.fired > 0)
      let pt' := ptStep cmp s.pt (Spec.OrdSet.toMapOp op) (o.st != some Stat.errAlloc)
      let s' : Sess := { s with model := some t', spec := some f', mem := m, pt := pt' }
      let cb (o : Out) := if op = .foreach then some o.log else none
      -- strict successor / predecessor query with an absent element: no verdict at L1 (see Driver/TreeTable.lean)
      let absentQuery := match op with
        | .greaterThan k | .lesserThan k => !(OrdMap.contains f k)
        | _ => false
      (s', if absentQuery then "S ?" else lineS (hdr so.st so.val (cb so) noout) s', lineM (hdr o.st o.val (cb o) noout) s' n)
    | none =>
    match c.op with
    | "it_new" =>
      let pit' := some (PTree.iterInit s.pt)
      let s' : Sess := { s with iter := some t.iterInit, cursor := some (Cursor.init f), mem := m, pit := pit' }
      (s', lineS "st=-" s', lineM "st=-" s' 0)
    | "it_drop" =>
      let s' : Sess := { s with iter := none, cursor := none, mem := m, pit := none }
      (s', lineS "st=-" s', lineM "st=-" s' 0)
    | "it_next" =>
      match s.iter, s.cursor with
      | some it, some cu =>
        let (st, e, it') := t.iterNext it
        let (sst, se, cu') := cu.next f
        let pit' := s.pit.map (PTree.iterNext s.pt)
        let s' : Sess := { s with iter := some it', cursor := some cu', mem := m, pit := pit' }
        (s', lineS (hdr (some sst) (se.map (·.1)) none) s', lineM (hdr (some st) e none) s' 0)
      | _, _ => let s' := { s with mem := m }; (s', lineS "st=- noiter" s', lineM "st=- noiter" s' 0)
    | "it_remove" =>
      match s.iter, s.cursor with
      | some it, some cu =>
        if it.cur = .sentinel then
          let s' := { s with mem := m }; (s', lineS "st=- noiter" s', lineM "st=- noiter" s' 0)
        else
        let (st, v, t', it', m) := t.iterRemove cmp it m
        let (sst, _, cu', f') := cu.remove f
        -- the ideal iterator hands back the removed element
        let sv := match sst with | .ok => cu.last | _ => none
        let pr := match s.pit with
          | some pi => let r := PTree.iterRemove s.pt pi; (r.1, some r.2)
          | none => (s.pt, none)
        let s' : Sess := { s with model := some t', spec := some f', iter := some it', cursor := some cu', mem := m, pt := pr.1, pit := pr.2 }
        (s', lineS (hdr (some sst) sv none noout) s', lineM (hdr (some st) v none noout) s' 0)
      | _, _ => let s' := { s with mem := m }; (s', lineS "st=- noiter" s', lineM "st=- noiter" s' 0)
    | "observe" =>
      let s' : Sess := { s with mem := m }
      (s', lineS "st=-" s' true, lineM "st=-" s' 0 true)
    | "destroy" =>
      let m := t.destroy m
      let s' : Sess := { which := s.which, mem := m, sparse := s.sparse, buf := s.buf, quiet := s.quiet }
      (s', lineS "st=-" s', lineM "st=-" s' 0)
    | _ => (s, "S st=- badop", "M st=- badop")
  | _, _ =>
    let s' := { s with mem := m }
    (s', "S st=- nosession", s!"M st=- nosession | - | {fmtMem m} | {fmtFlags true m}")

end CC.Driver.TreeSetD
