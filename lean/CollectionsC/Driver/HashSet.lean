import CollectionsC.Driver.HashTable
import CollectionsC.Model.HashSet
/-! Line-protocol driver for the hash-set model and the ideal set. -/
-- container: hashset
namespace CC.Driver.HashSetD
open CC CC.Driver CC.Driver.HashCommon

structure Sess where
  cfg    : HCfg := defaultCfg
  model  : Option HashSet := none
  spec   : Option Spec.Set := none
  iter   : Option HIter := none
  stodo  : List Spec.Key := []
  slast  : Option Spec.Key := none
  mem    : Mem := {}
  /-- pointer-level model run alongside, its iterator, its ledger after the step -/
  pmodel : Option PHash.PTable := none
  piter  : Option PHash.PIter := none
  pmem   : Option Mem := none
  sparse : Bool := false
  quiet  : Bool := false
  physSum : Bool := false
  sumLine : Bool := false
  smaybe : List Spec.Key := []
  bulk : Option Bulk := none

def fmtSet (l : List Spec.Key) : String := fmtList (sortNat (l.map HT.encKey))

def obsM (s : Sess) : String :=
  if s.quiet then "" else
  match s.model with
  | none => "size=- elems=[]"
  | some t => s!"size={t.size} elems={fmtSet t.abs}"
def obsS (s : Sess) : String :=
  if s.quiet then "" else
  match s.spec with
  | none => "size=- elems=[]"
  | some l => s!"size={l.length} elems={fmtSet l}"
def physM (s : Sess) (extra : String) : String :=
  match s.model with
  | none => "-"
  | some t => fmtTable t.table s.iter s.pmodel s.piter s.sumLine ++ extra
def invM (s : Sess) : Bool :=
  (match s.model with
   | none => true
   | some t => if s.sumLine then decide (t.table.buckets.length = t.table.capacity)
               else if s.physSum then invFast s.cfg t.table && t.table.buckets.flatten.all (fun e => e.value == HashSet.dummy) && t.table.triple == t.triple
               else decide (t.Inv s.cfg)) &&
  pAgree (s.model.map (·.table)) s.iter s.pmodel s.piter s.pmem s.mem (!s.sumLine)

def lines (s : Sess) (hdS hdM : String) (extra : String := "") : Sess × String × String :=
  (s, s!"S {hdS} {obsS s}", s!"M {hdM} {obsM s} | {physM s extra} | {fmtMem s.mem} | {fmtFlags (invM s) s.mem}")

def rmout (noout : Bool) (st : Stat) (out : Option Nat) : String :=
  match out with
  | some v => if st == .ok && !noout then s!" rmout={v}" else ""
  | none => ""

def stepModel (s : Sess) (c : Cmd) : Sess × String × String :=
  let m := s.mem.begin c.sched
  let isNew := c.op == "new" || c.op == "new_default"
  let sparse := if isNew then c.str "obs" == some "sparse" else s.sparse
  let pcfg := if c.op == "new" then mkCfg c else if c.op == "new_default" then defaultCfg else s.cfg
  let (pm, pit, pmem) := pstep pcfg true s.pmodel s.piter c m
  let physSum := if isNew then c.str "phys" == some "sum" else s.physSum
  let s := { s with sparse := sparse, quiet := sparse && c.op != "observe", pmodel := pm.map compactHeap, piter := pit, pmem := pmem,
                    physSum := physSum, sumLine := physSum && c.op != "observe" }
  match c.op with
  | "new" | "new_default" =>
    let cfg := if c.op == "new" then mkCfg c else defaultCfg
    let cap := if c.op == "new" then c.nat "cap" 16 else Gen.HASHTABLE_DEFAULT_CAPACITY
    let (st, t, m) := HashSet.new cfg cap (if c.op == "new" then .conf else .libc) m
    let (sst, sp) := if c.fired > 0 then (Stat.errAlloc, none) else (Stat.ok, some [])
    lines { cfg := cfg, model := t, spec := sp, mem := m, sparse := s.sparse, quiet := s.quiet, pmodel := s.pmodel, piter := s.piter, pmem := s.pmem, physSum := s.physSum, sumLine := s.sumLine } (fmtStat sst) (fmtStat st)
  | _ =>
  match s.model, s.spec with
  | some t, some sp =>
    match c.op with
    | "add" =>
      let k := key (c.arg 0)
      let (st, t', m) := t.add s.cfg k m
      let (sst, sp') := if c.fired > 0 then (Stat.errAlloc, sp) else (Stat.ok, if sp.contains k then sp else k :: sp)
      let keep := t'.table.capacity == t.table.capacity
      let maybe := if sst == .ok && !sp.contains k then k :: s.smaybe else s.smaybe
      lines { s with model := some t', spec := some sp', iter := if keep then s.iter else none, smaybe := maybe, mem := m } (fmtStat sst) (fmtStat st)
    | "contains" =>
      let (b, m) := t.contains s.cfg (key (c.arg 0)) m
      lines { s with mem := m } s!"st=- out={if sp.contains (key (c.arg 0)) then 1 else 0}" s!"st=- out={if b then 1 else 0}"
    | "remove" =>
      let noout := c.nat "noout" 0 != 0
      let k := key (c.arg 0)
      let (st, out, t', m) := t.remove s.cfg k m
      let sst : Stat := if sp.contains k then .ok else .errValueNotFound
      let it' := match s.iter with
        | some i => if i.prev == some k || i.next == some k then none else some i
        | none => none
      lines { s with model := some t', spec := some (sp.erase k), iter := it', stodo := s.stodo.erase k, smaybe := s.smaybe.erase k, mem := m }
        (fmtStat sst) (fmtStat st) (rmout noout st out)
    | "remove_all" =>
      let (t', m) := t.removeAll m
      lines { s with model := some t', spec := some [], iter := none, mem := m } "st=-" "st=-"
    | "foreach" =>
      let (ks, m) := t.foreach m
      let ks := ks.map HT.encKey
      lines { s with mem := m } s!"st=- cb={fmtSet sp}" s!"st=- cb={fmtList (sortNat ks)}" s!" ord={fmtList ks}"
    | "it_new" =>
      let (it, m) := t.iterInit m
      lines { s with iter := some it, stodo := sp, smaybe := [], slast := none, mem := m } "st=-" "st=-"
    | "it_next" =>
      match s.iter with
      | none => lines { s with mem := m } "st=- noiter" "st=- noiter"
      | some it =>
        let noout := c.nat "noout" 0 != 0
        let (st, e, it', m) := t.iterNext it m
        let kstr (k : Spec.Key) := if noout then "" else s!" k={HT.encKey k}"
        let hdM := match e with | some k => s!"{fmtStat st}{kstr k}" | none => fmtStat st
        let (hdS, todo, maybe, last) :=
          match e with
          | some k =>
            if (s.stodo.contains k || s.smaybe.contains k) && sp.contains k then
              (s!"{fmtStat .ok}{kstr k}", s.stodo.erase k, s.smaybe.erase k, some k)
            else (s!"{fmtStat .ok} k=not-pending", s.stodo, s.smaybe, s.slast)
          | none =>
            if s.stodo.isEmpty then (fmtStat .iterEnd, s.stodo, s.smaybe, s.slast)
            else (s!"{fmtStat .ok} k=pending-elements-left", s.stodo, s.smaybe, s.slast)
        lines { s with iter := some it', stodo := todo, smaybe := maybe, slast := last, mem := m } hdS hdM
    | "it_remove" =>
      match s.iter with
      | some it =>
        let noout := c.nat "noout" 0 != 0
        let (st, out, t', it', m) := t.iterRemove s.cfg it m
        let (sst, sp') : Stat × Spec.Set := match s.slast with
          | some k => if sp.contains k then (.ok, sp.erase k) else (.errValueNotFound, sp)
          | none => (.errValueNotFound, sp)
        let last := if sst == .ok then none else s.slast
        lines { s with model := some t', spec := some sp', iter := some it', slast := last, mem := m } (fmtStat sst) (fmtStat st) (rmout noout st out)
      | none => lines { s with mem := m } "st=- noiter" "st=- noiter"
    | "destroy" =>
      lines { cfg := s.cfg, mem := t.destroy m, sparse := s.sparse, quiet := s.quiet, pmodel := s.pmodel, piter := s.piter, pmem := s.pmem, physSum := s.physSum, sumLine := s.sumLine } "st=-" "st=-"
    | "observe" => lines { s with mem := m } "st=-" "st=-"
    | _ => lines { s with mem := m } "st=- badop" "st=- badop"
  | _, _ => lines { s with mem := m } "st=- nosession" "st=- nosession"

def step (s : Sess) (c : Cmd) : Sess × String × String :=
  let bulk := if c.op == "new" || c.op == "new_default" then (if c.str "model" == some "off" then some {} else none) else s.bulk
  match bulk with
  | some b =>
    let (b', body) := bulkStep true b c
    ({ bulk := if c.op == "destroy" then none else some b' }, if body == "?" then "S ?" else s!"S {body}", "M ?")
  | none => stepModel { s with bulk := none } c

end CC.Driver.HashSetD
