import CollectionsC.Driver.Cmd
import CollectionsC.Spec.PQSpec
import CollectionsC.Model.PQueue
-- container: pqueue
namespace CC.Driver.PQueueD
open CC CC.Driver

/-- decimal literal → Float32 (what `strtof` yields for the short decimals the generators use) -/
def parseF32 (s : String) : Float32 :=
  match s.splitOn "." with
  | [i] => Float32.ofScientific (i.toNat?.getD 0) false 0
  | [i, f] => Float32.ofScientific ((i ++ f).toNat?.getD 0) true f.length
  | _ => 2
def defaultFactor : Float32 := Float32.ofNat Gen.PQUEUE_DEFAULT_EXPANSION_FACTOR_MILLI / 1000
/-- `cc_pqueue_new_conf` replaces factors ≤ 1 by the default -/
def effFactor (f : Float32) : Float32 := if f ≤ 1 then defaultFactor else f
/-- `(size_t)(capacity * exp_factor)` -/
def growF (f : Float32) (c : Nat) : Nat := (Float32.ofNat c * f).toUInt64.toNat
/-- `ex >= q` with `q` a `size_t` converted to float -/
def exGeF (f : Float32) (q : Nat) : Bool := f ≥ Float32.ofNat q


/-- FNV-1a 64 over the UTF-8 text of a list as the full mode prints it (`phys=quiet`) -/
def fnvList (xs : List Nat) : String :=
  let text := ",".intercalate (xs.map toString)
  let h := text.toUTF8.foldl (fun (h : UInt64) b => (h ^^^ b.toUInt64) * 1099511628211) 14695981039346656037
  s!"#{h.toNat}"

structure Sess where
  model : Option PQueue := none
  spec  : Option (List Nat) := none
  scap  : Nat := 0               -- spec side: the capacity (push reports CC_ERR_MAX_CAPACITY at the limit)
  mem   : Mem := {}
  exp   : Float32 := 2
  modc  : Nat := 0               -- comparator: 0 = numeric, 1 = v % 10, 2 = clamped 64-bit difference
  sparse : Bool := false         -- obs=sparse: the content sweep is printed by `observe` only
  quiet : Bool := false          -- phys=quiet: the buffer is printed as a checksum, the full dump on `observe`

def keyOf (modc : Nat) (v : Nat) : Nat := if modc == 1 then v % 10 else v
/-- the harness comparators (deliberately not -1/0/1) -/
def cmpOf (modc : Nat) : Nat → Nat → Int := if modc == 2 then Spec.diffCmp else Spec.keyCmp (keyOf modc)

def insDesc (x : Nat) : List Nat → List Nat
  | [] => [x]
  | y :: ys => if x ≥ y then x :: y :: ys else y :: insDesc x ys
def sortDesc (xs : List Nat) : List Nat := xs.foldr insDesc []

def obsM (modc : Nat) (r : Option PQueue) : String :=
  match r with
  | none => "abs=[]"
  | some r => s!"abs={fmtList ((PQueue.drain (cmpOf modc) r.size r).map (keyOf modc))}"
def obsS (modc : Nat) (f : Option (List Nat)) : String :=
  match f with
  | none => "abs=[]"
  | some f => s!"abs={fmtList ((Spec.PQ.drainFirst (cmpOf modc) f.length f).map (keyOf modc))}"
def phys (r : Option PQueue) (out : Option Nat) (quiet : Bool := false) (dumpKey : String := "buf") : String :=
  match r with
  | none => "-"
  | some r =>
    -- the live slots: `r.abs` (= `firstN`, one list walk per slot) computed in one pass
    let live := if r.size ≤ r.buf.length then r.buf.take r.size else r.abs
    s!"size={r.size} cap={r.capacity} {if quiet then "buf" else dumpKey}={if quiet then fnvList live else fmtList live}" ++
      (match out with | some v => s!" out={v}" | none => "")
/-- the invariant, evaluated on an array (the `Decidable` instance walks the list once per index) -/
def invFast (modc : Nat) (r : PQueue) : Bool :=
  let a := r.buf.toArray
  let cmp := cmpOf modc
  r.size ≤ r.capacity && r.capacity == a.size && 0 < r.capacity &&
    (List.range r.size).all fun i => i == 0 || 0 ≤ cmp (a.getD (Gen.ccParent i) 0) (a.getD i 0)
def inv (modc : Nat) (r : Option PQueue) : Bool :=
  match r with | none => true | some r => if r.size ≤ 64 then decide (r.Inv (cmpOf modc)) else invFast modc r

def lineS' (full : Bool) (hd : String) (s : Sess) : String :=
  if full then s!"S {hd} {obsS s.modc s.spec}" else s!"S {hd}"
def lineM'' (full quiet : Bool) (hd : String) (s : Sess) (out : Option Nat) : String :=
  s!"M {hd} {if full then obsM s.modc s.model else ""} | {phys s.model out quiet (if s.quiet then "bufdump" else "buf")} | {fmtMem s.mem} | {fmtFlags (inv s.modc s.model) s.mem}"
/-- `observe`: full content sweep and full buffer dump -/
def lineM' (full : Bool) (hd : String) (s : Sess) (out : Option Nat) : String := lineM'' full false hd s out
def lineS (hd : String) (s : Sess) : String := lineS' (!s.sparse) hd s
def lineM (hd : String) (s : Sess) (out : Option Nat) : String := lineM'' (!s.sparse) s.quiet hd s out

def hdOut (modc : Nat) (st : Stat) (o : Option Nat) (quiet : Bool) : String :=
  match o with
  | some v => if quiet || st != .ok then fmtStat st else s!"{fmtStat st} outk={keyOf modc v}"
  | none => fmtStat st

def step (s : Sess) (c : Cmd) : Sess × String × String :=
  let m := s.mem.begin c.sched
  match c.op with
  | "new" | "new_default" =>
    let dflt := c.op == "new_default"
    let cap := if dflt then Gen.PQUEUE_DEFAULT_CAPACITY else c.nat "cap" Gen.PQUEUE_DEFAULT_CAPACITY
    let f := if dflt then defaultFactor else effFactor (match c.str "exp" with | some t => parseF32 t | none => defaultFactor)
    let modc : Nat := match (c.str "cmp").getD "num" with | "mod" => 1 | "diff" => 2 | _ => 0
    let sparse := (c.str "obs").getD "full" == "sparse"
    let quiet := (c.str "phys").getD "full" == "quiet"
    let invalid := cap = 0 || exGeF f (Gen.CC_MAX_ELEMENTS / cap) || cap > Gen.CC_MAX_ELEMENTS / PQueue.ptrSize
    let (sst, sp) : Stat × Option (List Nat) :=
      if invalid then (.errInvalidCapacity, none)
      else if c.fired > 0 then (.errAlloc, none) else (.ok, some [])
    -- the harness allocator refuses requests above 2^40 bytes ("absurd"): the buffer request of such a
    -- capacity fails without counting as a scheduled refusal
    let triple : Triple := if dflt then .libc else .conf
    let absurd := !dflt && cap * PQueue.ptrSize > 2 ^ 40
    -- a model buffer of more than 2^24 slots is not materialised: no model line for such sessions
    if !invalid && !absurd && cap > 16777216 then
      let s' : Sess := { mem := m, exp := f, modc, sparse, quiet }
      (s', lineS (fmtStat sst) { s' with spec := sp }, "M ? capacity too large for the executable model")
    else
    let m := if absurd && c.sched.isEmpty then s.mem.begin [false, true] else m
    let (st, r, m) := PQueue.new cap (exGeF f) triple m
    let m := if absurd && c.sched.isEmpty then { m with nrefused := 0 } else m
    let s' : Sess := { model := r, spec := sp, scap := cap, mem := m, exp := f, modc, sparse, quiet }
    (s', lineS (fmtStat sst) s', lineM (fmtStat st) s' none)
  | _ =>
  match s.model, s.spec with
  | some r, some f =>
    let cmp := cmpOf s.modc
    let grow := growF s.exp
    match c.op with
    | "observe" =>
      let s' : Sess := { s with mem := m }
      (s', lineS' true "st=-" s', lineM' true "st=-" s' none)
    | "push" =>
      let x := c.arg 0
      let (st, r', m) := PQueue.push cmp grow r x m
      -- spec: a full queue grows by the configured law; beyond the representable capacities the
      -- push is rejected with CC_ERR_MAX_CAPACITY; a refused allocation gives CC_ERR_ALLOC
      let nc := let g := grow s.scap
                if g ≤ s.scap then (if s.scap < Gen.CC_MAX_ELEMENTS / 2 then s.scap + 1 else Gen.CC_MAX_ELEMENTS) else g
      let full := f.length ≥ s.scap
      let (sst, f', scap) :=
        if full && (s.scap = Gen.CC_MAX_ELEMENTS || nc > Gen.CC_MAX_ELEMENTS / PQueue.ptrSize) then (Stat.errMaxCapacity, f, s.scap)
        else if c.fired > 0 then (Stat.errAlloc, f, s.scap)
        else (Stat.ok, x :: f, if full then nc else s.scap)
      let s' : Sess := { s with model := some r', spec := some f', scap, mem := m }
      (s', lineS (fmtStat sst) s', lineM (fmtStat st) s' none)
    | "top" =>
      let (st, out, m) := r.top m
      let so := Spec.PQ.topFirst cmp f
      let s' : Sess := { s with mem := m }
      (s', lineS (hdOut s.modc so.st so.val false) s', lineM (hdOut s.modc st out false) s' (if st == .ok then out else none))
    | "pop" =>
      let quiet := c.nat "null" 0 != 0
      let (st, out, r', m) := PQueue.popOut cmp r (!quiet) m
      let (so, f') := Spec.PQ.popFirst cmp f
      let s' : Sess := { s with model := some r', spec := some f', mem := m }
      (s', lineS (hdOut s.modc so.st so.val quiet) s',
       lineM (hdOut s.modc st out quiet) s' (if st == .ok then out else none))
    | "destroy" =>
      let m := r.destroy m
      let s' : Sess := { mem := m }
      (s', "S st=-", s!"M st=- | - | {fmtMem m} | {fmtFlags true m}")
    | "destroy_cb" =>
      let (cb, m) := r.destroyCb m
      let s' : Sess := { mem := m }
      (s', s!"S st=- cb={fmtList (sortDesc (f.map (keyOf s.modc)))}",
       s!"M st=- cb={fmtList (sortDesc (cb.map (keyOf s.modc)))} | cbraw={fmtList cb} | {fmtMem m} | {fmtFlags true m}")
    | _ => (s, "S st=- badop", "M st=- badop")
  | _, _ =>
    let s' := { s with mem := m }
    (s', "S st=- nosession", s!"M st=- nosession | - | {fmtMem m} | {fmtFlags true m}")

end CC.Driver.PQueueD
