import CollectionsC.Driver.Cmd
import CollectionsC.Spec.QueueSpec
import CollectionsC.Model.Queue
import CollectionsC.Proofs.DequeBulk
/-! Line-protocol driver for the queue adapter: two object slots, one iterator, one zip iterator.
The spec side keeps the ideal FIFO (oldest first) and prints its iteration view. -/
-- container: queue
namespace CC.Driver.QueueD
open CC CC.Driver
open CC.Spec.DequeSpec (Cur)
open CC.Spec.QueueSpec (Fifo)

structure Sess where
  models : List (Option Queue) := [none, none]
  specs  : List (Option Fifo) := [none, none]
  it     : Option (Nat × Deque.Iter) := none
  sit    : Option (Nat × Cur) := none
  zit    : Option (Nat × Nat × Deque.Iter) := none
  szit   : Option (Nat × Nat × Cur) := none
  mem    : Mem := {}
  /-- `obs=sparse` was given on a constructor line: no content sweep except in `observe` -/
  sparse : Bool := false
  /-- `phys=quiet` was given on a constructor line: buffer checksum instead of the dump, except in `observe` -/
  quiet  : Bool := false

def nslot : Nat := 2
def getM (s : Sess) (k : Nat) : Option Queue := (s.models[k]?).join
def getS (s : Sess) (k : Nat) : Option Fifo := (s.specs[k]?).join
def setM (s : Sess) (k : Nat) (d : Option Queue) : Sess := { s with models := s.models.set k d }
def setS (s : Sess) (k : Nat) (l : Option Fifo) : Sess := { s with specs := s.specs.set k l }

def fmtPeek (k : Nat) (o : Option Nat) : String := match o with | some v => s!" peek{k}={v}" | none => s!" peek{k}=-"

def obsM (s : Sess) : String :=
  String.join ((List.range nslot).filterMap fun k => (getM s k).map fun q =>
    s!" q{k}={fmtList q.abs} n{k}={q.size}{fmtPeek k (q.peek {}).2.1}")
def obsS (s : Sess) : String :=
  String.join ((List.range nslot).filterMap fun k => (getS s k).map fun f =>
    s!" q{k}={fmtList f.view} n{k}={f.size}{fmtPeek k f.peek.2}")

/-- 64-bit FNV-1a style checksum of the slots, as `phys_deque` computes it in a `phys=quiet` session
(per slot: mix 1 and the value if live, mix 0 if dead; arithmetic modulo 2^64) -/
def bufSum (d : Deque) : UInt64 :=
  let p : UInt64 := 0x100000001b3
  let f := d.first % d.cap
  let b := d.buf.take d.cap ++ List.replicate (d.cap - d.buf.length) 0
  (b.foldl (fun (acc : UInt64 × Nat) v =>
    let live := (acc.2 + d.cap - f) % d.cap < d.size
    (if live then (((acc.1 ^^^ 1) * p) ^^^ v.toUInt64) * p else acc.1 * p, acc.2 + 1))
    ((0xcbf29ce484222325 : UInt64), 0)).1

/-- private fields of one deque; dead slots print as `_`; `full = false`: checksum instead of the dump -/
def physDeque (name : String) (k : Nat) (d : Deque) (full : Bool := true) : String :=
  let hd := s!"{name}{k}.size={d.size} {name}{k}.cap={d.cap} {name}{k}.first={d.first} {name}{k}.last={d.last} {name}{k}.buf="
  if !full then s!"{hd}#{(bufSum d).toNat}" else
  let b := d.buf.take d.cap ++ List.replicate (d.cap - d.buf.length) 0
  let slots := b.mapIdx fun j v =>
    if (j + d.cap - d.first % d.cap) % d.cap < d.size then toString v else "_"
  s!"{hd}[{",".intercalate slots}]"
def b01 (b : Bool) : String := if b then "1" else "0"
def phys (s : Sess) (full : Bool := true) : String :=
  let ds := (List.range nslot).filterMap fun k => (getM s k).map fun q => physDeque "q" k q.d full
  let i := match s.it with | some (k, it) => [s!"it={k}:{it.index}:{b01 it.lastRemoved}"] | none => []
  let z := match s.zit with | some (a, b, it) => [s!"zit={a}:{b}:{it.index}:{b01 it.lastRemoved}"] | none => []
  let all := ds ++ i ++ z
  if all.isEmpty then "-" else " ".intercalate all
def inv (s : Sess) : Bool := s.models.all fun d => match d with | none => true | some d => decide d.Inv

def fin (s : Sess) (hdS hdM : String) (sweep : Bool := false) : Sess × String × String :=
  let oS := if s.sparse && !sweep then "" else obsS s
  let oM := if s.sparse && !sweep then "" else obsM s
  (s, s!"S {hdS}{oS}", s!"M {hdM}{oM} | {phys s (!s.quiet || sweep)} | {fmtMem s.mem} | {fmtFlags (inv s) s.mem}")
def early (s : Sess) (m : Mem) (what : String) : Sess × String × String :=
  ({ s with mem := m }, s!"S st=- {what}", s!"M st=- {what} | - | {fmtMem m} | {fmtFlags true m}")
def hdOut (st : Stat) (out : Option Nat) (noout : Bool) : String :=
  match out with
  | some v => if st == .ok && !noout then s!"{fmtStat st} out={v}" else fmtStat st
  | none => fmtStat st
def hdOut2 (st : Stat) (out : Option (Nat × Nat)) (noout : Bool) : String :=
  match out with
  | some (a, b) => if st == .ok && !noout then s!"{fmtStat st} out={a} out2={b}" else fmtStat st
  | none => fmtStat st

/-- the iteration view with position `i` replaced, back in FIFO order -/
def fifoOfView (v : List Nat) : Fifo := ⟨v.reverse⟩

def step (s : Sess) (c : Cmd) : Sess × String × String :=
  let m := s.mem.begin c.sched
  let k := c.nat "o" 0
  let a0 := c.arg 0
  let a1 := c.arg 1
  let noout := c.nat "noout" 0 != 0
  let refused := c.fired > 0
  if k ≥ nslot then early s m "badslot" else
  match c.op with
  | "new" | "new_default" =>
    if (getM s k).isSome then early s m "busy" else
    let cap := if c.op == "new" then c.nat "cap" Gen.DEQUE_DEFAULT_CAPACITY else Gen.DEQUE_DEFAULT_CAPACITY
    let r := Queue.new cap (if c.op == "new" then .conf else .libc) m   -- cc_queue_new: C library triple
    let sp : Stat × Option Fifo := if refused then (.errAlloc, none) else (.ok, some {})
    let sparse := s.sparse || c.str "obs" == some "sparse"
    let quiet := s.quiet || c.str "phys" == some "quiet"
    fin (setS (setM { s with mem := r.2.2, sparse := sparse, quiet := quiet } k r.2.1) k sp.2) (fmtStat sp.1) (fmtStat r.1)
  | "observe" => fin { s with mem := m } "st=-" "st=-" true
  | "destroy" =>
    let m := s.models.foldl (fun m d => match d with | some d => d.destroy m | none => m) m
    fin { mem := m, sparse := s.sparse, quiet := s.quiet } "st=-" "st=-"
  | "zit_new" =>
    let k2 := c.nat "o2" 1
    if k2 ≥ nslot ∨ (getM s k).isNone ∨ (getM s k2).isNone then early s m "nosession" else
    fin { s with mem := m, zit := some (k, k2, {}), szit := some (k, k2, {}) } "st=-" "st=-"
  | "zit_next" | "zit_replace" =>
    match s.zit, s.szit with
    | some (ka, kb, it), some (_, _, cur) =>
      match getM s ka, getM s kb, getS s ka, getS s kb with
      | some q1, some q2, some f1, some f2 =>
        if ka == kb then
          -- both sides are the same queue: the one state is threaded through both halves
          if c.op == "zit_next" then
            let r := Queue.zipNext it q1 q1 m
            let sp := Spec.DequeSpec.zipNextSelf f1.view cur
            fin { s with mem := r.2.2.2, zit := some (ka, kb, r.2.2.1), szit := some (ka, kb, sp.2.2) }
              (hdOut2 sp.1 sp.2.1 false) (hdOut2 r.1 r.2.1 false)
          else
            let r := Queue.zipReplaceSelf it q1 a0 a1 m
            let sp := Spec.DequeSpec.zipReplaceSelf f1.view cur a0 a1
            let pr (st : Stat) (o1 o2 : Option Nat) : String :=
              match o1, o2 with
              | some a, some b => if st == .ok && !noout then s!"{fmtStat st} out={a} out2={b}" else fmtStat st
              | _, _ => fmtStat st
            fin (setS (setM { s with mem := r.2.2.2.2 } ka (some r.2.2.2.1)) ka (some (fifoOfView sp.2.2.2)))
              (pr sp.1 sp.2.1 sp.2.2.1) (pr r.1 r.2.1 r.2.2.1)
        else
        if c.op == "zit_next" then
          let r := Queue.zipNext it q1 q2 m
          let sp := Spec.DequeSpec.zipNext f1.view f2.view cur
          fin { s with mem := r.2.2.2, zit := some (ka, kb, r.2.2.1), szit := some (ka, kb, sp.2.2) }
            (hdOut2 sp.1 sp.2.1 false) (hdOut2 r.1 r.2.1 false)
        else
          let r := Queue.zipReplace it q1 q2 a0 a1 m
          let sp := Spec.DequeSpec.zipReplace f1.view f2.view cur a0 a1
          let s' := setS (setS (setM (setM { s with mem := r.2.2.2.2 } ka (some r.2.2.1)) kb (some r.2.2.2.1))
            ka (some (fifoOfView sp.2.2.1))) kb (some (fifoOfView sp.2.2.2))
          fin s' (hdOut2 sp.1 sp.2.1 noout) (hdOut2 r.1 r.2.1 noout)
      | _, _, _, _ => early s m "nosession"
    | _, _ => early s m "nosession"
  | "it_next" | "it_replace" | "it_sweep" =>
    match s.it, s.sit with
    | some (ki, it), some (_, cur) =>
      match getM s ki, getS s ki with
      | some q, some f =>
        if c.op == "it_sweep" then
          -- `n` × iter_next, stopping at the end: count and checksum of the values yielded
          let kk := c.nat "n" 1
          let r := Deque.iterSweepRun q.d kk it m
          let v := f.view
          let sv := (v.drop cur.pos).take kk
          let sst : Stat := if kk ≤ v.length - cur.pos then .ok else .iterEnd
          let cur' : Cur := if sv.isEmpty then cur else { pos := cur.pos + sv.length, removed := false }
          fin { s with mem := r.2.2.2, it := some (ki, r.2.2.1), sit := some (ki, cur') }
            s!"{fmtStat sst} out={sv.length} sum={Deque.valSum sv}" s!"{fmtStat r.2.1} out={r.1.length} sum={Deque.valSum r.1}"
        else if c.op == "it_next" then
          let r := Queue.iterNext it q m
          let sp := Spec.DequeSpec.curNext f.view cur
          fin { s with mem := r.2.2.2, it := some (ki, r.2.2.1), sit := some (ki, sp.2.2) }
            (hdOut sp.1 sp.2.1 false) (hdOut r.1 r.2.1 false)
        else
          let r := Queue.iterReplace it q a0 m
          let sp := Spec.DequeSpec.curReplace f.view cur a0
          fin (setS (setM { s with mem := r.2.2.2 } ki (some r.2.2.1)) ki (some (fifoOfView sp.2.2)))
            (hdOut sp.1 sp.2.1 noout) (hdOut r.1 r.2.1 noout)
      | _, _ => early s m "nosession"
    | _, _ => early s m "nosession"
  | _ =>
  if c.op.startsWith "zit_" || (c.op.startsWith "it_" && c.op != "it_new") then
    (if (c.op.startsWith "zit_" && s.zit.isNone) || (c.op.startsWith "it_" && s.it.isNone) then early s m "nosession"
     else fin { s with mem := m } "st=- badop" "st=- badop")
  else
  match getM s k, getS s k with
  | some q, some f =>
    match c.op with
    | "it_new" => fin { s with mem := m, it := some (k, {}), sit := some (k, {}) } "st=-" "st=-"
    | "destroy_cb" =>
      let r := q.destroyCb m
      let s := if (s.it.map (·.1)) == some k then { s with it := none, sit := none } else s
      let s := match s.zit with
        | some (a, b, _) => if a == k || b == k then { s with zit := none, szit := none } else s
        | none => s
      fin (setS (setM { s with mem := r.2 } k none) k none) s!"st=- cb={fmtList f.view}" s!"st=- cb={fmtList r.1}"
    | "enqueue" =>
      let r := q.enqueue a0 m
      let sp : Stat × Fifo := if refused then (.errAlloc, f) else (.ok, f.enqueue a0)
      fin (setS (setM { s with mem := r.2.2 } k (some r.2.1)) k (some sp.2)) (fmtStat sp.1) (fmtStat r.1)
    | "fill" =>
      -- `n` × enqueue (= add_first on the inner deque) of fixed values, stopping at the first refusal
      let vals := Deque.fillVals (c.nat "n" 0) (c.nat "seed" 1)
      let r := Deque.fillRun true (vals.length + 1) q.d m vals
      let sp : Fifo := ⟨f.items ++ vals.take (vals.length - r.2.2.2)⟩
      fin (setS (setM { s with mem := r.2.2.1 } k (some { q with d := r.2.1 })) k (some sp))
        (fmtStat (if refused then .errAlloc else .ok)) (fmtStat r.1)
    | "poll" =>
      let r := q.poll m
      let sp := f.poll
      fin (setS (setM { s with mem := r.2.2.2 } k (some r.2.2.1)) k (some sp.2.2)) (hdOut sp.1 sp.2.1 noout) (hdOut r.1 r.2.1 noout)
    | "peek" =>
      let r := q.peek m
      fin { s with mem := r.2.2 } (hdOut f.peek.1 f.peek.2 false) (hdOut r.1 r.2.1 false)
    | "size" => fin { s with mem := m } s!"st=- out={f.size}" s!"st=- out={q.size}"
    | "foreach" =>
      let r := q.foreach m
      fin { s with mem := r.2 } s!"st=- cb={fmtList f.view}" s!"st=- cb={fmtList r.1}"
    | _ => fin { s with mem := m } "st=- badop" "st=- badop"
  | _, _ => early s m "nosession"

end CC.Driver.QueueD
