import CollectionsC.Driver.Cmd
import CollectionsC.Spec.SeqSized
import CollectionsC.Model.ArraySized
/-! Line-protocol driver for the sized array: prints what `harness/shim_array_sized.c` prints.
Elements are decimal numbers encoded little-endian into `data_length` bytes. -/
-- container: array_sized
namespace CC.Driver.ArraySizedD
open CC CC.Driver
open CC.Spec.SSeq (Cursor ZipCursor)

abbrev Elem := List Nat
def NSLOT : Nat := 4

structure Sess where
  model : List (Option ArraySized) := [none, none, none, none]
  spec  : List (Option (List Elem)) := [none, none, none, none]
  mem   : Mem := {}
  it    : Option (Nat × ArraySized.Iter) := none
  zit   : Option (Nat × Nat × ArraySized.Iter) := none
  sit   : Option (Nat × Cursor Elem) := none
  szit  : Option (Nat × Nat × ZipCursor Elem) := none
  sparse : Bool := false      -- obs=sparse session: content is printed by `observe` only
  force  : Bool := false      -- the current op is `observe`
  quiet  : Bool := false      -- phys=quiet session: buffers as FNV-1a 64 checksums except on `observe`
  modelOff : Bool := false    -- model=off session (MiB-sized buffers): the driver answers `S ?` / `M ?`
  tieSlot : Option Nat := none   -- slot printed tie-invariantly by the current op (`sort cmp=k10`)
  spos  : Nat × Bool := (0, false)      -- ideal position / removed flag of the single iterator
  szpos : Nat × Bool := (0, false)      -- … of the zip iterator over two arrays
  zsame : Nat × Bool := (0, false)      -- ideal cursor of a zip iterator with the same array on both sides

def getSlot {β : Type} (l : List (Option β)) (k : Nat) : Option β := (l[k]?).getD none
def setSlot {β : Type} (l : List (Option β)) (k : Nat) (v : Option β) : List (Option β) := l.set k v

/-! ### codec -/
def enc (dl v : Nat) : Elem := (List.range dl).map fun j => v / 256 ^ j % 256
def dec (c : Elem) : Nat := c.foldr (fun b acc => b + 256 * acc) 0
def hexDigit (n : Nat) : Char := if n < 10 then Char.ofNat (48 + n) else Char.ofNat (87 + n)
def hex (bs : List Nat) : String :=
  if bs.isEmpty then "-" else String.ofList (bs.flatMap fun b => [hexDigit (b / 16 % 16), hexDigit (b % 16)])
def fnv64 (bs : List Nat) : UInt64 :=
  bs.foldl (fun h b => (h ^^^ b.toUInt64) * 0x100000001b3) 0xcbf29ce484222325
def hex16 (h : UInt64) : String :=
  String.ofList ((List.range 16).map fun i => hexDigit ((h >>> ((15 - i) * 4).toUInt64).toNat % 16))
/-- text of one element: its decimal value up to 64 bytes; beyond, the low 8 bytes and a checksum -/
def elemText (c : Elem) : String :=
  if c.length ≤ 64 then toString (dec c) else s!"{dec (c.take 8)}:{hex16 (fnv64 c)}"
def fmtElems (xs : List Elem) : String := "[" ++ ",".intercalate (xs.map elemText) ++ "]"
def fmtCb (xs : List (Elem × Option Elem)) (pairs : Bool) : String :=
  let item (p : Elem × Option Elem) : List String :=
    if pairs then [elemText p.1, match p.2 with | some b => elemText b | none => "N"]
    else [elemText p.1]
  "[" ++ ",".intercalate (xs.flatMap item) ++ "]"

/-! ### callbacks (the same fixed functions as in the shim) -/
def predOf (name : String) : Elem → Bool :=
  match name with
  | "mod3" => fun c => (c.foldl (· + ·) 0) % 3 == 0
  | "all" => fun _ => true
  | "none" => fun _ => false
  | _ => fun c => (c.getD 0 0) % 2 == 0
def mapInc (c : Elem) : Elem := c.map fun b => (b + 1) % 256
def redSum (a : Elem) (b : Option Elem) (_r : Elem) : Elem :=
  (List.range a.length).map fun j => (a.getD j 0 + (match b with | some b => b.getD j 0 | none => 0)) % 256
def leOf (name : String) : Elem → Elem → Bool :=
  match name with
  | "desc" => fun a b => dec a ≥ dec b
  | "m10" => fun a b => dec a % 10 < dec b % 10 || (dec a % 10 == dec b % 10 && dec a ≤ dec b)
  -- a total preorder with ties (key v % 10 only); `List.mergeSort` is stable, like this glibc's qsort
  | "k10" => fun a b => dec a % 10 ≤ dec b % 10
  | _ => fun a b => dec a ≤ dec b
def sortFnOf (name : String) : List Elem → List Elem := fun l => l.mergeSort (leOf name)

/-! ### float parameters -/
def parseF32 (s : String) : Float32 :=
  match s.splitOn "." with
  | [a] => Float32.ofNat (a.toNat?.getD 0)
  | [a, b] => Float32.ofScientific ((a ++ b).toNat?.getD 0) true b.length
  | _ => 0
/-- effective factor of `new_conf`: `exp_factor <= 1` falls back to the default -/
def effFactor (c : Cmd) : Float32 :=
  let dflt := Float32.ofScientific Gen.SIZED_DEFAULT_EXPANSION_FACTOR_MILLI true 3
  let f := match c.str "exp" with | some s => parseF32 s | none => dflt
  if f ≤ 1 then dflt else f
def growOf (ex : Float32) (cap : Nat) : Nat := (Float32.ofNat cap * ex).toUInt64.toNat
def exGeOf (ex : Float32) (n : Nat) : Bool := ex ≥ Float32.ofNat n

/-! ### observation -/
def obsSlotM (k : Nat) (a : ArraySized) : String :=
  let m : Mem := {}
  let items := (List.range a.size).map fun i => match (a.getAt i m).2.1 with | some c => elemText c | none => "?"
  let last := match (a.getLast m).2.1 with | some c => elemText c | none => "-"
  s!" a{k}=[{",".intercalate items}] n{k}={a.size} l{k}={last}"
def obsSlotS (k : Nat) (xs : List Elem) : String :=
  let last := match xs.getLast? with | some c => elemText c | none => "-"
  s!" a{k}={fmtElems xs} n{k}={xs.length} l{k}={last}"
/-- tie-invariant print: keys (v % 10) in array order, then the records as a sorted multiset -/
def obsTie (k : Nat) (xs : List Elem) : String :=
  let keys := xs.map fun c => toString (dec c % 10)
  let ms := (xs.map dec).mergeSort (fun a b => a ≤ b)
  s!" k{k}=[{",".intercalate keys}] m{k}=[{",".intercalate (ms.map toString)}] n{k}={xs.length}"
def obsM (s : Sess) : String :=
  String.join ((List.range NSLOT).map fun k => match getSlot s.model k with
    | some a => if s.tieSlot == some k then obsTie k ((List.range a.size).filterMap fun i => (a.getAt i {}).2.1) else obsSlotM k a
    | none => "")
def obsS (s : Sess) : String :=
  String.join ((List.range NSLOT).map fun k => match getSlot s.spec k with
    | some xs => if s.tieSlot == some k then obsTie k xs else obsSlotS k xs
    | none => "")
def physSlot (quiet full : Bool) (k : Nat) (a : ArraySized) : String :=
  let nb := (if a.triple == .libc then a.size else a.capacity) * a.dataLen
  let showFull := !quiet || full
  let txt := if showFull && nb ≤ 2 ^ 18 then hex (a.buf.take nb)
    else if nb ≤ (if full then 2 ^ 24 else 2 ^ 20) then "sum" ++ hex16 (fnv64 (a.buf.take nb)) else "sum-"
  s!"dl{k}={a.dataLen} size{k}={a.size} cap{k}={a.capacity} buf{k}={txt}"
def b01 (b : Bool) : String := if b then "1" else "0"
def phys (s : Sess) : String :=
  let parts := (List.range NSLOT).filterMap fun k => (getSlot s.model k).map (physSlot s.quiet s.force k)
  if parts.isEmpty then "-" else
  " ".intercalate parts ++
  (match s.it with | some (k, it) => s!" it={k},{it.index},{b01 it.lastRemoved}" | none => "") ++
  (match s.zit with | some (k1, k2, it) => s!" zit={k1},{k2},{it.index},{b01 it.lastRemoved}" | none => "")
def inv (s : Sess) : Bool := s.model.all fun o => match o with | some a => decide a.Inv | none => true

def lines (hdS hdM : String) (s : Sess) : Sess × String × String :=
  let show_ := !s.sparse || s.force
  (s, s!"S {hdS}{if show_ then obsS s else ""}",
   s!"M {hdM}{if show_ then obsM s else ""} | {phys s} | {fmtMem s.mem} | {fmtFlags (inv s) s.mem}")

def hdr (st : Option Stat) (out : Option String := none) (out2 : Option String := none)
    (cb : Option String := none) : String :=
  (match st with | some s => fmtStat s | none => "st=-") ++
  (match out with | some v => s!" out={v}" | none => "") ++
  (match out2 with | some v => s!" out2={v}" | none => "") ++
  (match cb with | some v => s!" cb={v}" | none => "")
def elemStr (o : Option Elem) : Option String := o.map fun c => elemText c
def okOut (st : Stat) (o : Option String) : Option String := if st = .ok then o else none

def anyObj (s : Sess) : Bool := s.model.any Option.isSome
def slotOf (c : Cmd) (key : String) (dflt : Nat) : Nat := let k := c.nat key dflt; if k < NSLOT then k else 0

/-- ideal cursor re-anchored on the current content of its slot (same position) -/
def rebase (cur : Cursor Elem) (xs : List Elem) : Cursor Elem :=
  if cur.content == xs then cur else
  { done := xs.take cur.done.length, todo := xs.drop cur.done.length, removed := cur.removed }
def rebaseZ (cur : ZipCursor Elem) (xs ys : List Elem) : ZipCursor Elem :=
  if cur.content1 == xs && cur.content2 == ys then cur else
  { done1 := xs.take cur.done1.length, todo1 := xs.drop cur.done1.length,
    done2 := ys.take cur.done1.length, todo2 := ys.drop cur.done1.length, removed := cur.removed }

/-- `CC_ARRAY_SIZED_FOREACH`: a fresh iterator driven to `CC_ITER_END` -/
def foreachM (a : ArraySized) (m : Mem) : List Elem × Mem := a.foreach m
def foreachZipM (a1 a2 : ArraySized) (m : Mem) : List (Elem × Option Elem) × Mem :=
  let rec go : Nat → ArraySized.Iter → Mem → List (Elem × Option Elem) → List (Elem × Option Elem) × Mem
    | 0, _, m, acc => (acc, m)
    | f + 1, it, m, acc =>
      let r := ArraySized.zipNext it a1 a2 m
      match r.2.1 with
      | some (c1, c2) => go f r.2.2.1 r.2.2.2 (acc ++ [(c1, some c2)])
      | none => (acc, r.2.2.2)
  go (a1.size + 1) {} m []

/-- the size limit as an environment input of the ideal sequence: an insertion into a full array
whose next capacity (in records or in bytes) would exceed `CC_MAX_ELEMENTS` is refused with
`CC_ERR_MAX_CAPACITY` before any allocation; the ideal list has no capacity, so the driver
computes this from the configuration (capacity, growth rule, element size) -/
def limitRefusal (a : ArraySized) (fired : Nat) : Option Stat :=
  if a.size ≥ a.capacity && (a.capacity == Gen.CC_MAX_ELEMENTS || Gen.CC_MAX_ELEMENTS / a.dataLen < a.nextCapacity)
  then some .errMaxCapacity
  else if fired > 0 then some .errAlloc else none

def noSession (s : Sess) (m : Mem) : Sess × String × String :=
  ({ s with mem := m }, "S st=- nosession", s!"M st=- nosession | - | {fmtMem m} | {fmtFlags true m}")

/-- returns the new session, the spec line and the model line -/
def step (s0 : Sess) (c : Cmd) : Sess × String × String :=
  let isNew := c.op == "new" || c.op == "new_default"
  if s0.modelOff || (isNew && c.str "model" == some "off") then ({ s0 with modelOff := true }, "S ?", "M ?") else
  let s : Sess := { s0 with force := c.op == "observe",
                            quiet := s0.quiet || (isNew && c.str "phys" == some "quiet"),
                            tieSlot := if c.op == "sort" && c.str "cmp" == some "k10" then some (slotOf c "o" 0) else none,
                            sparse := s0.sparse || ((c.op == "new" || c.op == "new_default") && c.str "obs" == some "sparse") }
  let m := s.mem.begin c.sched
  let k := slotOf c "o" 0
  let refusal : Option Stat := if c.fired > 0 then some .errAlloc else none
  let simple (s : Sess) (tag : String) := lines tag tag s
  match c.op with
  | "new" | "new_default" =>
    let isDef := c.op == "new_default"
    let dl := c.nat "esize" 1
    if (getSlot s.model k).isSome || dl > 65536 then simple { s with mem := m } "st=- badslot" else
    let cap := if isDef then Gen.SIZED_DEFAULT_CAPACITY else c.nat "cap" Gen.SIZED_DEFAULT_CAPACITY
    let ex := if isDef then Float32.ofScientific Gen.SIZED_DEFAULT_EXPANSION_FACTOR_MILLI true 3 else effFactor c
    /- the harness allocator refuses any request above 2^40 bytes ("absurd", reported as
       CC_ERR_ALLOC but not counted as a scheduled refusal): mirror it for the buffer request -/
    let sc := c.sched
    let absurd := cap * dl > 2 ^ 40 && !(sc.getD 0 false) && !(sc.getD 1 false)
    let m := if absurd then s.mem.begin [false, true] else m
    let (st, a, m) := ArraySized.new dl cap (growOf ex) (exGeOf ex) m (if isDef then .libc else .conf)
    let m := if absurd && st == .errAlloc then { m with nrefused := m.nrefused - 1 } else m
    let sst : Stat := if cap = 0 || exGeOf ex (Gen.CC_MAX_ELEMENTS / cap) then .errInvalidCapacity
      else if dl = 0 || cap > Gen.CC_MAX_ELEMENTS / dl then .errInvalidCapacity
      else if c.fired > 0 && !isDef then .errAlloc else .ok
    let s' : Sess := { s with model := setSlot s.model k a, spec := setSlot s.spec k (if sst = .ok then some [] else none),
                              mem := m }
    lines (hdr (some sst)) (hdr (some st)) s'
  | _ =>
  if !anyObj s then noSession s m else
  let s := { s with mem := m }
  match c.op with
  | "observe" => simple s "st=-"
  | "destroy" =>
    let m := s.model.foldl (fun m o => match o with | some a => a.destroy m | none => m) m
    simple { s with model := [none, none, none, none], spec := [none, none, none, none], mem := m,
                    it := none, zit := none, sit := none, szit := none } "st=-"
  | "zit_next" | "zit_add" | "zit_remove" | "zit_replace" | "zit_index" =>
    match s.zit, s.szit with
    | some (k1, k2, it), some (_, _, cur0) =>
      match getSlot s.model k1, getSlot s.model k2, getSlot s.spec k1, getSlot s.spec k2 with
      | some a1, some a2, some xs, some ys =>
        if k1 == k2 then
          /- ar1 == ar2: one array state threaded through both halves of every call -/
          let a := a1
          let e1 := enc a.dataLen (c.arg 0)
          let e2 := enc a.dataLen (c.arg 1)
          let z := enc a.dataLen 0
          let (pos, rem) := s.zsame
          let pr (o : Option (Elem × Elem)) (st : Stat) : Option String × Option String :=
            if st = .ok && c.nat "noout" 0 == 0 then (o.map fun p => elemText p.1, o.map fun p => elemText p.2) else (none, none)
          let fin (it : ArraySized.Iter) (a : ArraySized) (m : Mem) (xs : List Elem) (zs : Nat × Bool) (hS hM : String) :=
            lines hS hM { s with model := setSlot s.model k1 (some a), spec := setSlot s.spec k1 (some xs),
                                 mem := m, zit := some (k1, k2, it), zsame := zs }
          match c.op with
          | "zit_next" =>
            let r := ArraySized.zipNext it a a m
            let sr := Spec.SSeq.Same.next xs pos
            fin r.2.2.1 a r.2.2.2 xs (sr.2.2, if sr.1 = .ok then false else rem)
              (hdr (some sr.1) (pr sr.2.1 sr.1).1 (pr sr.2.1 sr.1).2) (hdr (some r.1) (pr r.2.1 r.1).1 (pr r.2.1 r.1).2)
          | "zit_add" =>
            let r := ArraySized.zipAddSame it a e1 e2 m
            let (sst, xs', pos') := match refusal with
              | some st => (st, xs, pos)
              | none => Spec.SSeq.Same.add xs pos e1 e2
            fin r.2.1 r.2.2.1 r.2.2.2 xs' (pos', rem) (hdr (some sst)) (hdr (some r.1))
          | "zit_remove" =>
            let r := ArraySized.zipRemoveSame it a m
            let sr := Spec.SSeq.Same.remove z xs pos rem
            fin r.2.2.1 r.2.2.2.1 r.2.2.2.2 sr.2.2.1 (sr.2.2.2.1, sr.2.2.2.2)
              (hdr (some sr.1) (pr sr.2.1 sr.1).1 (pr sr.2.1 sr.1).2) (hdr (some r.1) (pr r.2.1 r.1).1 (pr r.2.1 r.1).2)
          | "zit_replace" =>
            let r := ArraySized.zipReplaceSame it a e1 e2 m
            let sr := Spec.SSeq.Same.replace z xs pos e1 e2
            fin it r.2.2.1 r.2.2.2 sr.2.2 (pos, rem)
              (hdr (some sr.1) (pr sr.2.1 sr.1).1 (pr sr.2.1 sr.1).2) (hdr (some r.1) (pr r.2.1 r.1).1 (pr r.2.1 r.1).2)
          | _ =>
            fin it a m xs (pos, rem) (hdr none (some (toString (Spec.SSeq.wdec pos))))
              (hdr none (some (toString (ArraySized.iterIndex it))))
        else
        let _ := cur0
        let (pos, rem) := s.szpos
        let e1 := enc a1.dataLen (c.arg 0)
        let e2 := enc a2.dataLen (c.arg 1)
        let z1 := enc a1.dataLen 0
        let pr (o : Option (Elem × Elem)) (st : Stat) : Option String × Option String :=
          if st = .ok && c.nat "noout" 0 == 0 then (o.map fun p => elemText p.1, o.map fun p => elemText p.2) else (none, none)
        let fin (it : ArraySized.Iter) (a1 a2 : ArraySized) (m : Mem) (xs ys : List Elem) (zp : Nat × Bool) (hS hM : String) :=
          lines hS hM { s with model := setSlot (setSlot s.model k1 (some a1)) k2 (some a2),
                               spec := setSlot (setSlot s.spec k1 (some xs)) k2 (some ys),
                               mem := m, zit := some (k1, k2, it), szpos := zp }
        match c.op with
        | "zit_next" =>
          let r := ArraySized.zipNext it a1 a2 m
          let sr := Spec.SSeq.Pos.znext xs ys pos
          fin r.2.2.1 a1 a2 r.2.2.2 xs ys (sr.2.2, if sr.1 = .ok then false else rem)
            (hdr (some sr.1) (pr sr.2.1 sr.1).1 (pr sr.2.1 sr.1).2) (hdr (some r.1) (pr r.2.1 r.1).1 (pr r.2.1 r.1).2)
        | "zit_add" =>
          let r := ArraySized.zipAdd it a1 a2 e1 e2 m
          let (sst, xs', ys', pos') := match refusal with
            | some st => (st, xs, ys, pos)
            | none => Spec.SSeq.Pos.zadd xs ys pos e1 e2
          fin r.2.1 r.2.2.1 r.2.2.2.1 r.2.2.2.2 xs' ys' (pos', rem) (hdr (some sst)) (hdr (some r.1))
        | "zit_remove" =>
          let r := ArraySized.zipRemove it a1 a2 m
          let sr := Spec.SSeq.Pos.zremove z1 xs ys pos rem
          fin r.2.2.1 r.2.2.2.1 r.2.2.2.2.1 r.2.2.2.2.2 sr.2.2.1 sr.2.2.2.1 (sr.2.2.2.2.1, sr.2.2.2.2.2)
            (hdr (some sr.1) (pr sr.2.1 sr.1).1 (pr sr.2.1 sr.1).2) (hdr (some r.1) (pr r.2.1 r.1).1 (pr r.2.1 r.1).2)
        | "zit_replace" =>
          let r := ArraySized.zipReplace it a1 a2 e1 e2 m
          let sr := Spec.SSeq.Pos.zreplace z1 xs ys pos e1 e2
          fin it r.2.2.1 r.2.2.2.1 r.2.2.2.2 sr.2.2.1 sr.2.2.2 (pos, rem)
            (hdr (some sr.1) (pr sr.2.1 sr.1).1 (pr sr.2.1 sr.1).2) (hdr (some r.1) (pr r.2.1 r.1).1 (pr r.2.1 r.1).2)
        | _ =>
          fin it a1 a2 m xs ys (pos, rem) (hdr none (some (toString (Spec.SSeq.wdec pos))))
            (hdr none (some (toString (ArraySized.iterIndex it))))
      | _, _, _, _ => simple s "st=- noiter"
    | _, _ => simple s "st=- noiter"
  | "it_next" | "it_remove" | "it_add" | "it_replace" | "it_index" =>
    match s.it, s.sit with
    | some (ki, it), some (_, cur0) =>
      match getSlot s.model ki, getSlot s.spec ki with
      | some a, some xs =>
        let _ := cur0
        let (pos, rem) := s.spos
        let e := enc a.dataLen (c.arg 0)
        let noout := c.nat "noout" 0 != 0
        let pr (o : Option Elem) (st : Stat) : Option String := if st = .ok && !noout then elemStr o else none
        let fin (it : ArraySized.Iter) (a : ArraySized) (m : Mem) (xs : List Elem) (sp : Nat × Bool) (hS hM : String) :=
          lines hS hM { s with model := setSlot s.model ki (some a), spec := setSlot s.spec ki (some xs),
                               mem := m, it := some (ki, it), spos := sp }
        match c.op with
        | "it_next" =>
          let r := ArraySized.iterNext it a m
          let sr := Spec.SSeq.Pos.next xs pos
          fin r.2.2.1 a r.2.2.2 xs (sr.2.2, if sr.1 = .ok then false else rem)
            (hdr (some sr.1) (okOut sr.1 (elemStr sr.2.1))) (hdr (some r.1) (okOut r.1 (elemStr r.2.1)))
        | "it_remove" =>
          let r := ArraySized.iterRemove it a m
          let sr := Spec.SSeq.Pos.remove xs pos rem
          fin r.2.2.1 r.2.2.2.1 r.2.2.2.2 sr.2.2.1 (sr.2.2.2.1, sr.2.2.2.2) (hdr (some sr.1) (pr sr.2.1 sr.1)) (hdr (some r.1) (pr r.2.1 r.1))
        | "it_add" =>
          let r := ArraySized.iterAdd it a e m
          let q := Spec.SSeq.Pos.add xs pos e
          let (sst, xs', pos') := match limitRefusal a c.fired with
            | some st => if q.1 = .ok then (st, xs, pos) else q
            | none => q
          fin r.2.1 r.2.2.1 r.2.2.2 xs' (pos', rem) (hdr (some sst)) (hdr (some r.1))
        | "it_replace" =>
          let r := ArraySized.iterReplace it a e m
          let sr := Spec.SSeq.Pos.replace xs pos e
          fin it r.2.2.1 r.2.2.2 sr.2.2 (pos, rem) (hdr (some sr.1) (pr sr.2.1 sr.1)) (hdr (some r.1) (pr r.2.1 r.1))
        | _ =>
          fin it a m xs (pos, rem) (hdr none (some (toString (Spec.SSeq.wdec pos)))) (hdr none (some (toString (ArraySized.iterIndex it))))
      | _, _ => simple s "st=- noiter"
    | _, _ => simple s "st=- noiter"
  | "zit_new" | "foreach_zip" =>
    let k2 := slotOf c "o2" 1
    match getSlot s.model k, getSlot s.model k2, getSlot s.spec k, getSlot s.spec k2 with
    | some a1, some a2, some xs, some ys =>
      if c.op == "zit_new" then
        simple { s with zit := some (k, k2, {}), szit := some (k, k2, ZipCursor.start xs ys), zsame := (0, false), szpos := (0, false) } "st=-"
      else
        let r := foreachZipM a1 a2 m
        let scb := (xs.zip ys).map fun p => (p.1, some p.2)
        lines (hdr none none none (some (fmtCb scb true))) (hdr none none none (some (fmtCb r.1 true))) { s with mem := r.2 }
    | _, _, _, _ =>
      if c.op == "zit_new" then simple { s with zit := none, szit := none } "st=- noobj" else simple s "st=- noobj"
  | _ =>
  match getSlot s.model k, getSlot s.spec k with
  | some a, some xs =>
    let dl := a.dataLen
    let e := enc dl (c.arg 0)
    let noout := c.nat "noout" 0 != 0
    let upd (a' : ArraySized) (xs' : List Elem) (m : Mem) : Sess :=
      { s with model := setSlot s.model k (some a'), spec := setSlot s.spec k (some xs'), mem := m }
    /- a core operation: run `ArraySized.step` and `Spec.SSeq.step` on the same `Op` -/
    let core (op : Spec.SSeq.Op Elem) (pairs : Bool) (showCb : Bool) (ref : Option Stat) : Sess × String × String :=
      let r := a.step op m
      let sr := Spec.SSeq.step xs op ref
      let h (o : Spec.SSeq.Out Elem) : String :=
        let okk := o.st = some .ok || o.st = none
        hdr o.st (if okk && !noout then (match o.val with | some v => some (elemText v) | none => o.num.map toString) else none)
          none (if showCb then some (fmtCb o.cb pairs) else none)
      lines (h sr.1) (h r.1) (upd r.2.1 sr.2 r.2.2)
    match c.op with
    | "add" => core (.add e) false false (limitRefusal a c.fired)
    | "add_at" => core (.addAt (enc dl (c.arg 0)) (c.arg 1)) false false (limitRefusal a c.fired)
    | "replace_at" => core (.replaceAt e (c.arg 1)) false false none
    | "swap_at" => core (.swapAt (c.arg 0) (c.arg 1)) false false none
    | "remove" => core (.remove e) false false none
    | "remove_at" => core (.removeAt (c.arg 0)) false false none
    | "remove_last" => core .removeLast false false none
    | "remove_all" => core .removeAll false false none
    | "reverse" => core .reverse false false none
    | "filter_mut" => core (.filterMut (predOf ((c.str "p").getD "even"))) false true none
    | "trim_capacity" => core .trim false false refusal
    | "get_at" => core (.getAt (c.arg 0)) false false none
    | "get_last" => core .getLast false false none
    | "peek" => core (.peek (c.arg 0)) false false none
    | "index_of" => core (.indexOf e) false false none
    | "contains" => core (.contains e) false false none
    | "map" => core (.map (if c.str "fn" == some "inc" then mapInc else id)) false true none
    | "reduce" => core (.reduce redSum (enc dl 0)) true true none
    | "sort" => core (.sort (sortFnOf ((c.str "cmp").getD "asc"))) false false none
    | "size" => lines (hdr none (some (toString xs.length))) (hdr none (some (toString a.size))) s
    | "capacity" => simple s (hdr none (some (toString a.capacity)))
    | "get_buffer" | "struct_size" => simple s (hdr none (some "1"))
    | "foreach" =>
      let r := foreachM a m
      lines (hdr none none none (some (fmtCb (xs.map (·, none)) false)))
        (hdr none none none (some (fmtCb (r.1.map (·, none)) false))) { s with mem := r.2 }
    | "it_new" => simple { s with it := some (k, {}), sit := some (k, Cursor.start xs), spos := (0, false) } "st=-"
    | "mk_sub" | "mk_copy" | "mk_filter" =>
      let to := c.nat "to" 1
      if to ≥ NSLOT || (getSlot s.model to).isSome then simple s "st=- badslot" else
      let p := predOf ((c.str "p").getD "even")
      let (st, cb, res, m) : Stat × Option (List Elem) × Option ArraySized × Mem :=
        match c.op with
        | "mk_sub" => let r := a.subarray (c.arg 0) (c.arg 1) m; (r.1, none, r.2.1, r.2.2)
        | "mk_copy" => let r := a.copy m; (r.1, none, r.2.1, r.2.2)
        | _ => let r := a.filter p m; (r.1, some r.2.1, r.2.2.1, r.2.2.2)
      let (sst0, scb0, sres0) : Stat × Option (List Elem) × Option (List Elem) :=
        match c.op with
        | "mk_sub" => let r := Spec.SSeq.subarray xs (c.arg 0) (c.arg 1); (r.1, none, r.2)
        | "mk_copy" => (.ok, none, some xs)
        | _ => let r := Spec.SSeq.filter p xs; (r.1, some r.2.1, r.2.2)
      let (sst, scb, sres) := if sst0 = .ok && c.fired > 0 then (Stat.errAlloc, scb0.map fun _ => [], none) else (sst0, scb0, sres0)
      let cbs (o : Option (List Elem)) := o.map fun l => fmtCb (l.map (·, none)) false
      lines (hdr (some sst) none none (cbs scb)) (hdr (some st) none none (cbs cb))
        { s with model := setSlot s.model to res, spec := setSlot s.spec to sres, mem := m }
    | "drop" =>
      let m := a.destroy m
      let keepIt := match s.it with | some (ki, _) => ki != k | none => false
      let keepZ := match s.zit with | some (k1, k2, _) => k1 != k && k2 != k | none => false
      simple { s with model := setSlot s.model k none, spec := setSlot s.spec k none, mem := m,
                      it := if keepIt then s.it else none, sit := if keepIt then s.sit else none,
                      zit := if keepZ then s.zit else none, szit := if keepZ then s.szit else none } "st=-"
    | _ => simple s "st=- badop"
  | _, _ => if c.op == "it_new" then simple { s with it := none, sit := none } "st=- noobj" else simple s "st=- noobj"

end CC.Driver.ArraySizedD
