import CollectionsC.Driver.Cmd
import CollectionsC.Spec.SeqSpec
import CollectionsC.Model.Array
/-! Line-protocol driver for `CC_Array`: runs the abstract spec (ideal lists + ideal cursors) and the
concrete model on the same operation lines as `harness/shim_array.c`.
The growth function is instantiated with `Float32` exactly as C computes
`(size_t)(capacity * exp_factor)`. -/
-- container: array
namespace CC.Driver.ArrayD
open CC CC.Driver

/-! ### float side (shared with the stack driver) -/
/-- decimal literal → Float32 (what `strtof` yields for the short decimals the generators use) -/
def parseF32 (s : String) : Float32 :=
  match s.splitOn "." with
  | [i] => Float32.ofScientific (i.toNat?.getD 0) false 0
  | [i, f] => Float32.ofScientific ((i ++ f).toNat?.getD 0) true f.length
  | _ => 0
def defaultFactor : Float32 := Float32.ofNat Gen.ARRAY_DEFAULT_EXPANSION_FACTOR_MILLI / 1000
/-- `if (conf->exp_factor <= 1) ex = DEFAULT_EXPANSION_FACTOR; else ex = conf->exp_factor;` -/
def effFactor (f : Float32) : Float32 := if f ≤ 1 then defaultFactor else f
/-- `(size_t)(capacity * exp_factor)` -/
def growF (f : Float32) (c : Nat) : Nat := (Float32.ofNat c * f).toUInt64.toNat
/-- `ex >= (float) q` -/
def exGeF (f : Float32) (q : Nat) : Bool := f ≥ Float32.ofNat q

/-! ### fixed harness callbacks -/
def predEven (v : Nat) : Bool := v % 2 == 0
/-- `PTR(VAL(e) + 1000)`: 64-bit wrap-around -/
def cpPlus (v : Nat) : Nat := (v + 1000) % 2 ^ 64
def cmpMod10 (a b : Nat) : Int := (a % 10 : Nat) - (b % 10 : Nat)
/-- `(x * 3 + y) % 1000003ULL` in `unsigned long long` arithmetic -/
def reduceFn (a b : Nat) : Nat := ((a * 3 + b) % 2 ^ 64) % 1000003
def sortNum (xs : List Nat) : List Nat := xs.mergeSort (fun a b => a ≤ b)
def sortMod (xs : List Nat) : List Nat := xs.mergeSort (fun a b => a % 10 ≤ b % 10)

def NSLOT : Nat := 4

/-- what the next growth step of `a` means for the driver: 0 = executable (no growth, a refusal at
the capacity limit, or a small block), 1 = the request exceeds 2^40 bytes and is refused by the
harness allocator (`refuse_now` in common.h, reported as `absurd=`), 2 = a block the driver cannot
materialise although the harness would serve it -/
def growCheck (a : Arr) : Nat :=
  if a.size < a.capacity then 0
  else if a.capacity = Gen.CC_MAX_ELEMENTS ∨ a.newCapacity > Gen.CC_MAX_ELEMENTS / 8 then 0
  else if a.newCapacity * 8 > 2 ^ 40 then 1
  else if a.newCapacity > 2 ^ 24 then 2 else 0

/-- allocator view of a call that grows `a`: an absurd request is a refusal of the first call that is
not counted as a scheduled refusal -/
def absurdBegin (gc : Nat) (c : Cmd) (m : Mem) : Mem := if gc = 1 ∧ c.sched.isEmpty then { m with sched := [true] } else m
def absurdEnd (gc : Nat) (c : Cmd) (m : Mem) : Mem := if gc = 1 ∧ c.sched.isEmpty then { m with nrefused := 0 } else m

/-- spec side of a slot: ideal content, and — tracked independently of the model — capacity,
expansion factor and whether the array lives on the C library's allocators -/
structure SSlot where
  xs   : List Nat
  cap  : Nat
  f    : Float32
  libc : Bool

structure SpecSess where
  slots  : List (Option SSlot) := [none, none, none, none]
  it     : Option (Nat × Nat × Bool) := none            -- slot, position, removed
  zit    : Option (Nat × Nat × Nat × Bool) := none      -- slots, position, removed
  sparse : Bool := false

structure Sess where
  slots  : List (Option Arr) := [none, none, none, none]
  sslots : List (Option (List Nat)) := [none, none, none, none]
  it     : Option (Nat × ArrIter) := none          -- slot, cursor (model)
  zit    : Option (Nat × Nat × ArrIter) := none
  sit    : Option (Nat × Nat × Bool) := none       -- slot, position, removed (spec)
  szit   : Option (Nat × Nat × Nat × Bool) := none
  mem    : Mem := {}
  blind : Bool := false      -- configuration too large to execute in the driver: lines are `?`
  /-- `obs=sparse` was given on the constructor line: no content sweep except in `observe` -/
  sparse : Bool := false
  /-- slot just sorted by a comparator with ties (`sort_mod`): its obs on this line is tie-invariant -/
  tie : Option Nat := none
  /-- the independent spec pass (L1) -/
  sp : SpecSess := {}

def Sess.arr (s : Sess) (k : Nat) : Option Arr := (s.slots.getD k none)
def Sess.lst (s : Sess) (k : Nat) : Option (List Nat) := (s.sslots.getD k none)
def Sess.setArr (s : Sess) (k : Nat) (a : Option Arr) : Sess := { s with slots := s.slots.set k a }
def Sess.setLst (s : Sess) (k : Nat) (a : Option (List Nat)) : Sess := { s with sslots := s.sslots.set k a }

def fmtLast (o : Option Nat) : String := match o with | some v => toString v | none => "-"

/-- tie-invariant observation of a slot just sorted by the comparator "compare modulo 10" through `qsort`
(whose order among equal keys is not promised by C): the key sequence in order and the multiset of the
elements (printed in increasing order); the exact order is in `phys` (L3) only -/
def fmtTie (k : Nat) (xs : List Nat) : String :=
  s!" k{k}={fmtList (xs.map (· % 10))} ms{k}={fmtList (xs.mergeSort (fun a b => a ≤ b))} n{k}={xs.length}"

/-- `a.abs` computed in linear time (the definition indexes the buffer slot by slot) -/
def fastAbs (a : Arr) : List Nat := a.buf.take a.size ++ List.replicate (a.size - a.buf.length) 0

def obsM (s : Sess) : String :=
  String.join <| (List.range NSLOT).map fun k =>
    match s.arr k with
    | none => ""
    | some a => if s.tie = some k then fmtTie k (fastAbs a) else
      s!" a{k}={fmtList (fastAbs a)} n{k}={a.size} l{k}={fmtLast (a.getLast {}).2.1}"
def obsS (s : Sess) : String :=
  String.join <| (List.range NSLOT).map fun k =>
    match s.lst k with
    | none => ""
    | some xs => s!" a{k}={fmtList xs} n{k}={xs.length} l{k}={fmtLast (Spec.Seq.getLast xs).2}"
def fmtBool (b : Bool) : String := if b then "1" else "0"
/-- the live slots of the buffer as the walker sees them -/
def liveSlots (a : Arr) : List Nat := a.buf.take (min a.size a.buf.length)
/-- physical view of one buffer: the full dump, or — in a sparse session between two `observe`s — first
and last live slot and the checksum `h = (h ^ v) * 0x100000001b3` (64 bit, from `0xcbf29ce484222325`) -/
def fmtBuf (k : Nat) (a : Arr) (quiet : Bool) : String :=
  let xs := liveSlots a
  if quiet then
    let h := xs.foldl (fun (h : UInt64) v => (h ^^^ UInt64.ofNat v) * 0x100000001b3) 0xcbf29ce484222325
    let fl := match xs.head?, xs.getLast? with
      | some x, some y => s!"first{k}={x} last{k}={y} "
      | _, _ => s!"first{k}=- last{k}=- "
    s!"{fl}sum{k}={h.toNat}"
  else s!"buf{k}={fmtList xs}"
def physM (s : Sess) (quiet : Bool := false) : String :=
  let parts := (List.range NSLOT).filterMap fun k =>
    (s.arr k).map fun a =>
      s!"size{k}={a.size} cap{k}={a.capacity} blk{k}={a.buf.length} g{k}={a.grow a.capacity} {fmtBuf k a quiet}"
  if parts.isEmpty then "-" else
  let its := match s.it with | some (k, i) => s!" it={k}:{i.index}:{fmtBool i.lastRemoved}" | none => " it=-"
  let zs := match s.zit with | some (k, p, i) => s!" zit={k}:{p}:{i.index}:{fmtBool i.lastRemoved}" | none => " zit=-"
  " ".intercalate parts ++ its ++ zs
def invAll (s : Sess) : Bool := s.slots.all fun o => match o with | none => true | some a => decide a.Inv

def fin (s : Sess) (hdS hdM : String) (sweep : Bool := false) : Sess × String × String :=
  let oS := if s.sparse && !sweep then "" else obsS s
  let oM := if s.sparse && !sweep then "" else obsM s
  (s, s!"S {hdS}{oS}", s!"M {hdM}{oM} | {physM s (s.sparse && !sweep)} | {fmtMem s.mem} | {fmtFlags (invAll s) s.mem}")

def fmtOut (st : Stat) (o : Option Nat) : String :=
  match o with | some v => s!"{fmtStat st} out={v}" | none => fmtStat st
def fmtOut2 (st : Stat) (o : Option (Nat × Nat)) : String :=
  match o with | some (v, w) => s!"{fmtStat st} out={v} out2={w}" | none => fmtStat st

/-- forget the cursors that point into slot `k` -/
def Sess.dropSlot (s : Sess) (k : Nat) : Sess :=
  let s := (s.setArr k none).setLst k none
  let s := match s.it with | some (j, _) => if j = k then { s with it := none, sit := none } else s | none => s
  match s.zit with | some (j, p, _) => if j = k ∨ p = k then { s with zit := none, szit := none } else s | none => s

/-- spec cursor view of slot list `xs` -/
def curOf (xs : List Nat) (pos : Nat) (rm : Bool) : Spec.Seq.Cursor := { done := xs.take pos, todo := xs.drop pos, removed := rm }

/-- the harness presets both out-parameters of the zip calls with this value -/
def zipUntouched : Nat := 777777

/-- the ideal list under a zip call whose two sides are the *same* array: the two list-level calls of
the C text in sequence on one list.  `blk`: the blocking status `zip_iter_add` reported (a refused or
limit-bound growth step of either inner insertion; both or none are inserted — A11). -/
def specZip1 (op : String) (xs : List Nat) (pos : Nat) (rm : Bool) (x y : Nat) (blk : Option Stat) :
    Stat × Option (Nat × Nat) × List Nat × Nat × Bool :=
  match op with
  | "zit_next" =>
    if pos ≥ xs.length then (.iterEnd, none, xs, pos, rm)
    else (.ok, some (xs.getD pos 0, xs.getD pos 0), xs, pos + 1, false)
  | "zit_remove" =>
    if Spec.Seq.wdec pos ≥ xs.length then (.errOutOfRange, none, xs, pos, rm)
    else if rm then (.errValueNotFound, none, xs, pos, rm)
    else
      let r1 := Spec.Seq.removeAt xs (Spec.Seq.wdec pos)
      let r2 := Spec.Seq.removeAt r1.2.2 (Spec.Seq.wdec pos)
      (.ok, some (r1.2.1.getD 0, r2.2.1.getD zipUntouched), r2.2.2, pos - 1, true)
  | "zit_add" =>
    match blk with
    | some st => (st, none, xs, pos, rm)
    | none =>
      let r1 := Spec.Seq.addAt xs x pos
      if r1.1 != .ok then (r1.1, none, xs, pos, rm) else
      (.ok, none, (Spec.Seq.addAt r1.2 y pos).2, pos + 1, rm)
  | "zit_replace" =>
    if Spec.Seq.wdec pos ≥ xs.length then (.errOutOfRange, none, xs, pos, rm)
    else
      let r1 := Spec.Seq.replaceAt xs x (Spec.Seq.wdec pos)
      let r2 := Spec.Seq.replaceAt r1.2.2 y (Spec.Seq.wdec pos)
      (.ok, some (r1.2.1.getD 0, r2.2.1.getD 0), r2.2.2, pos, rm)
  | _ => (.ok, none, xs, pos, rm)

/-! ### the spec pass (L1): ideal lists, ideal cursors and — independently of the concrete model — the
capacity of every array, tracked from the constructor arguments and the documented growth rule
(`capacity * exp_factor`, at least `capacity + 1`; `CC_ERR_MAX_CAPACITY` when the next capacity is not
representable; `trim` → `max size 1`; sub-array: its size; copies and filter: the source's capacity).
Refusals come from the environment: `@fired` (how many refusals fired in the C run) for calls with one
allocator request, the input schedule `fail=` position by position for `zip_iter_add`, whose two growth
steps are separate requests.  Nothing here reads the model, so this pass also runs in sessions whose
blocks the model pass cannot materialise (`M ?`). -/

/-- one call of the plain iterator on the ideal list, the cursor being what it is in the library — an
index (`pos`) and the "already removed" flag.  For cursors inside the list this is `Spec.Seq.Cursor`; it
also says what happens to a cursor left behind the end by direct calls on the array (legal input for an
index-based iterator): every call is rejected by its index test.  `room`: blocking status of `iter_add`
(computed by the caller from the capacity). -/
def specIt (op : String) (xs : List Nat) (pos : Nat) (rm : Bool) (x : Nat) (room : Option Stat) :
    Stat × Option Nat × List Nat × Nat × Bool :=
  match op with
  | "it_next" =>
    if pos ≥ xs.length then (.iterEnd, none, xs, pos, rm) else (.ok, some (xs.getD pos 0), xs, pos + 1, false)
  | "it_remove" =>
    if rm then (.errValueNotFound, none, xs, pos, rm) else
    let r := Spec.Seq.removeAt xs (Spec.Seq.wdec pos)
    if r.1 != .ok then (r.1, none, xs, pos, rm) else (.ok, r.2.1, r.2.2, pos - 1, true)
  | "it_add" =>
    if pos > xs.length then (.errOutOfRange, none, xs, pos, rm) else
    match room with
    | some st => (st, none, xs, pos, rm)
    | none => let r := Spec.Seq.addAt xs x pos; (r.1, none, r.2, if r.1 == .ok then pos + 1 else pos, rm)
  | "it_replace" =>
    let r := Spec.Seq.replaceAt xs x (Spec.Seq.wdec pos)
    (r.1, r.2.1, r.2.2, pos, rm)
  | _ => (.ok, none, xs, pos, rm)

/-- one call of the zip iterator over two *different* ideal lists, index-based in the same way; `blk`:
blocking status of `zip_iter_add` (room in either array) -/
def specZip2 (op : String) (xs1 xs2 : List Nat) (pos : Nat) (rm : Bool) (x y : Nat) (blk : Option Stat) :
    Stat × Option (Nat × Nat) × List Nat × List Nat × Nat × Bool :=
  match op with
  | "zit_next" =>
    if pos ≥ xs1.length ∨ pos ≥ xs2.length then (.iterEnd, none, xs1, xs2, pos, rm)
    else (.ok, some (xs1.getD pos 0, xs2.getD pos 0), xs1, xs2, pos + 1, false)
  | "zit_remove" =>
    if Spec.Seq.wdec pos ≥ xs1.length ∨ Spec.Seq.wdec pos ≥ xs2.length then (.errOutOfRange, none, xs1, xs2, pos, rm)
    else if rm then (.errValueNotFound, none, xs1, xs2, pos, rm)
    else
      let r1 := Spec.Seq.removeAt xs1 (Spec.Seq.wdec pos)
      let r2 := Spec.Seq.removeAt xs2 (Spec.Seq.wdec pos)
      (.ok, some (r1.2.1.getD 0, r2.2.1.getD 0), r1.2.2, r2.2.2, pos - 1, true)
  | "zit_add" =>
    match blk with
    | some st => (st, none, xs1, xs2, pos, rm)
    | none =>
      -- both insertions or none: the status of the first one that is rejected
      let r1 := Spec.Seq.addAt xs1 x pos
      if r1.1 != .ok then (r1.1, none, xs1, xs2, pos, rm) else
      let r2 := Spec.Seq.addAt xs2 y pos
      if r2.1 != .ok then (r2.1, none, xs1, xs2, pos, rm) else (.ok, none, r1.2, r2.2, pos + 1, rm)
  | "zit_replace" =>
    if Spec.Seq.wdec pos ≥ xs1.length ∨ Spec.Seq.wdec pos ≥ xs2.length then (.errOutOfRange, none, xs1, xs2, pos, rm)
    else
      let r1 := Spec.Seq.replaceAt xs1 x (Spec.Seq.wdec pos)
      let r2 := Spec.Seq.replaceAt xs2 y (Spec.Seq.wdec pos)
      (.ok, some (r1.2.1.getD 0, r2.2.1.getD 0), r1.2.2, r2.2.2, pos, rm)
  | _ => (.ok, none, xs1, xs2, pos, rm)

def SpecSess.get (s : SpecSess) (k : Nat) : Option SSlot := s.slots.getD k none
def SpecSess.set (s : SpecSess) (k : Nat) (a : Option SSlot) : SpecSess := { s with slots := s.slots.set k a }
def SpecSess.drop (s : SpecSess) (k : Nat) : SpecSess :=
  let s := s.set k none
  let s := match s.it with | some (j, _) => if j = k then { s with it := none } else s | none => s
  match s.zit with | some (j, p, _) => if j = k ∨ p = k then { s with zit := none } else s | none => s

def obsSp (s : SpecSess) (tie : Option Nat) : String :=
  String.join <| (List.range NSLOT).map fun k =>
    match s.get k with
    | none => ""
    | some sl => if tie = some k then fmtTie k sl.xs else
      s!" a{k}={fmtList sl.xs} n{k}={sl.xs.length} l{k}={fmtLast (Spec.Seq.getLast sl.xs).2}"

def finS (s : SpecSess) (hd : String) (sweep : Bool := false) (tie : Option Nat := none) : SpecSess × String :=
  (s, s!"S {hd}{if s.sparse && !sweep then "" else obsSp s tie}")

/-- the capacity the library asks for when a full array must grow -/
def nextCap (f : Float32) (cap : Nat) : Nat :=
  let g := growF f cap
  if g ≤ cap then (if cap < Gen.CC_MAX_ELEMENTS / 2 then cap + 1 else Gen.CC_MAX_ELEMENTS) else g

/-- room for one more element in a slot holding `len` elements, for a call with a single allocator
request: blocking status (none: there is room, possibly after growing) and the capacity afterwards -/
def roomFired (sl : SSlot) (len : Nat) (refused : Bool) : Option Stat × Nat :=
  if len < sl.cap then (none, sl.cap) else
  let nc := nextCap sl.f sl.cap
  if sl.cap = Gen.CC_MAX_ELEMENTS ∨ nc > Gen.CC_MAX_ELEMENTS / 8 then (some .errMaxCapacity, sl.cap)
  else if refused then (some .errAlloc, sl.cap) else (none, nc)

/-- the same for one of several requests of a call: `calls` requests were made so far through the
configured allocators; the next one is refused when the schedule says so or when it is larger than 2^40
bytes (the harness allocator's limit); the C library's allocators never refuse -/
def roomSched (sl : SSlot) (len : Nat) (sched : List Bool) (calls : Nat) : Option Stat × Nat × Nat :=
  if len < sl.cap then (none, sl.cap, calls) else
  let nc := nextCap sl.f sl.cap
  if sl.cap = Gen.CC_MAX_ELEMENTS ∨ nc > Gen.CC_MAX_ELEMENTS / 8 then (some .errMaxCapacity, sl.cap, calls)
  else if sl.libc then (none, nc, calls)
  else if sched.getD calls false ∨ nc * 8 > 2 ^ 40 then (some .errAlloc, sl.cap, calls + 1) else (none, nc, calls + 1)

def specStep (s : SpecSess) (c : Cmd) : SpecSess × String :=
  let refused := c.fired > 0
  let k := let k := c.nat "o" 0; if k < NSLOT then k else 0
  let to := let t := c.nat "to" 1; if t < NSLOT then t else 1
  let x := c.arg 0
  let y := c.arg 1
  let noout := c.nat "noout" 0 == 1 &&
    ["replace_at", "remove", "remove_at", "remove_last", "it_remove", "it_replace", "zit_remove", "zit_replace"].contains c.op
  let fmtOut := fun (st : Stat) (o : Option Nat) => if noout then fmtStat st else CC.Driver.ArrayD.fmtOut st o
  let fmtOut2 := fun (st : Stat) (o : Option (Nat × Nat)) => if noout then fmtStat st else CC.Driver.ArrayD.fmtOut2 st o
  -- constructors: `isNew`: configured triple with the line's cap= / exp=; else library defaults, C library triple
  let build (isNew : Bool) : Stat × Option SSlot :=
    let cap := if isNew then c.nat "cap" Gen.ARRAY_DEFAULT_CAPACITY else Gen.ARRAY_DEFAULT_CAPACITY
    let f := effFactor (match (if isNew then c.str "exp" else none) with | some e => parseF32 e | none => defaultFactor)
    let sst : Stat := if cap = 0 ∨ exGeF f (Gen.CC_MAX_ELEMENTS / cap) ∨ cap > Gen.CC_MAX_ELEMENTS / 8 then .errInvalidCapacity
      else if refused then .errAlloc else .ok
    (sst, if sst = .ok then some { xs := [], cap, f, libc := !isNew } else none)
  match c.op with
  | "new" | "new_default" =>
    let (sst, sl) := build (c.op == "new")
    finS { slots := [sl, none, none, none], sparse := c.str "obs" == some "sparse" } (fmtStat sst)
  | _ =>
  if s.slots.all Option.isNone then (s, "S st=- nosession") else
  let msg (t : String) := finS s s!"st=- {t}"
  match c.op with
  | "observe" => finS s "st=-" true
  | "mk_new" | "mk_new_default" =>
    if (s.get to).isSome then msg "slotbusy" else
    let (sst, sl) := build (c.op == "mk_new")
    finS (s.set to sl) (fmtStat sst)
  | "destroy" | "destroy_cb" =>
    let log := (List.range NSLOT).foldl (fun acc j => match s.get j with | some sl => acc ++ sl.xs | none => acc) []
    let s' := (List.range NSLOT).foldl (fun (acc : SpecSess) j => acc.drop j) s
    if c.op == "destroy_cb" then finS s' s!"st=- cb={fmtList log}" else finS s' "st=-"
  | "zit_new" =>
    let p := c.nat "p" 1
    if p ≥ NSLOT ∨ (s.get k).isNone ∨ (s.get p).isNone then finS { s with zit := none } "st=- noobj" else
    finS { s with zit := some (k, p, 0, false) } "st=-"
  | "zit_next" | "zit_remove" | "zit_add" | "zit_replace" | "zit_index" =>
    match s.zit with
    | some (k1, k2, pos, rm) =>
      match s.get k1, s.get k2 with
      | some s1, some s2 =>
        if k1 = k2 then
          -- the same array on both sides: the two list-level calls in sequence on one list
          if c.op == "zit_index" then finS s s!"st=- out={Spec.Seq.wdec pos}" else
          if c.op == "zit_add" then
            let (b1, c1, n1) := roomSched s1 s1.xs.length c.sched 0
            match b1 with
            | some _ => finS s (fmtStat .errAlloc)
            | none =>
              -- a cursor left behind the end: the first insertion is rejected by its index test
              if pos > s1.xs.length then finS (s.set k1 (some { s1 with cap := c1 })) (fmtStat .errOutOfRange) else
              let (b2, c2, _) := roomSched { s1 with cap := c1 } (s1.xs.length + 1) c.sched n1
              match b2 with
              | some st => finS (s.set k1 (some { s1 with cap := c1 })) (fmtStat st)
              | none =>
                let (_, _, xs', pos', rm') := specZip1 c.op s1.xs pos rm x y none
                finS { s.set k1 (some { s1 with xs := xs', cap := c2 }) with zit := some (k1, k2, pos', rm') } (fmtStat .ok)
          else
            let (sst, so, xs', pos', rm') := specZip1 c.op s1.xs pos rm x y none
            finS { s.set k1 (some { s1 with xs := xs' }) with zit := some (k1, k2, pos', rm') } (fmtOut2 sst so)
        else
        let put (s : SpecSess) (xs1 xs2 : List Nat) (c1 c2 pos : Nat) (rm : Bool) : SpecSess :=
          { (s.set k1 (some { s1 with xs := xs1, cap := c1 })).set k2 (some { s2 with xs := xs2, cap := c2 }) with
            zit := some (k1, k2, pos, rm) }
        if c.op == "zit_index" then finS s s!"st=- out={Spec.Seq.wdec pos}" else
        if c.op == "zit_add" then
          -- room in the first, then in the second array (each a separate allocator request); any
          -- failure is reported as CC_ERR_ALLOC; then both insertions or none
          let (b1, c1, n1) := roomSched s1 s1.xs.length c.sched 0
          match b1 with
          | some _ => finS s (fmtStat .errAlloc)
          | none =>
            let (b2, c2, _) := roomSched s2 s2.xs.length c.sched n1
            match b2 with
            | some _ => finS (put s s1.xs s2.xs c1 s2.cap pos rm) (fmtStat .errAlloc)
            | none =>
              let (sst, _, xs1, xs2, pos', rm') := specZip2 c.op s1.xs s2.xs pos rm x y none
              finS (put s xs1 xs2 c1 c2 pos' rm') (fmtStat sst)
        else
          let (sst, so, xs1, xs2, pos', rm') := specZip2 c.op s1.xs s2.xs pos rm x y none
          finS (put s xs1 xs2 s1.cap s2.cap pos' rm') (fmtOut2 sst so)
      | _, _ => msg "noiter"
    | none => msg "noiter"
  | "it_new" =>
    if (s.get k).isNone then finS { s with it := none } "st=- noobj" else finS { s with it := some (k, 0, false) } "st=-"
  | "it_next" | "it_remove" | "it_add" | "it_replace" | "it_index" =>
    match s.it with
    | some (k1, pos, rm) =>
      match s.get k1 with
      | some sl =>
        if c.op == "it_index" then finS s s!"st=- out={Spec.Seq.wdec pos}" else
        let (room, cap') := if c.op == "it_add" ∧ pos ≤ sl.xs.length then roomFired sl sl.xs.length refused else (none, sl.cap)
        let (sst, so, xs', pos', rm') := specIt c.op sl.xs pos rm x room
        let s' := { s.set k1 (some { sl with xs := xs', cap := if sst == .ok then cap' else sl.cap }) with it := some (k1, pos', rm') }
        if c.op == "it_add" then finS s' (fmtStat sst) else finS s' (fmtOut sst so)
      | none => msg "noiter"
    | none => msg "noiter"
  | _ =>
  match s.get k with
  | some sl =>
    let xs := sl.xs
    let upd (xs' : List Nat) (hd : String) (cap : Nat := sl.cap) (tie : Option Nat := none) :=
      finS (s.set k (some { sl with xs := xs', cap })) hd false tie
    match c.op with
    | "drop" => finS (s.drop k) "st=-"
    | "add" =>
      let (blk, cap') := roomFired sl xs.length refused
      match blk with
      | some st => upd xs (fmtStat st)
      | none => let (sst, xs') := Spec.Seq.add xs x; upd xs' (fmtStat sst) cap'
    | "add_at" =>
      let (blk, cap') := if y ≤ xs.length then roomFired sl xs.length refused else (none, sl.cap)
      match blk with
      | some st => upd xs (fmtStat st)
      | none => let (sst, xs') := Spec.Seq.addAt xs x y; upd xs' (fmtStat sst) cap'
    | "replace_at" => let (sst, so, xs') := Spec.Seq.replaceAt xs x y; upd xs' (fmtOut sst so)
    | "swap_at" => let (sst, xs') := Spec.Seq.swapAt xs x y; upd xs' (fmtStat sst)
    | "remove" => let (sst, so, xs') := Spec.Seq.remove xs x; upd xs' (fmtOut sst so)
    | "remove_at" => let (sst, so, xs') := Spec.Seq.removeAt xs x; upd xs' (fmtOut sst so)
    | "remove_last" => let (sst, so, xs') := Spec.Seq.removeLast xs; upd xs' (fmtOut sst so)
    | "remove_all" => upd (Spec.Seq.removeAll xs) "st=-"
    | "remove_all_free" => let (sn, xs') := Spec.Seq.removeAllFree xs; upd xs' s!"st=- freed={sn}"
    | "reverse" => upd (Spec.Seq.reverse xs) "st=-"
    | "filter_mut" => let (sst, xs') := Spec.Seq.filterMut predEven xs; upd xs' s!"{fmtStat sst} cb={fmtList xs.reverse}"
    | "trim_capacity" =>
      let want := if xs.length < 1 then 1 else xs.length
      if xs.length = sl.cap ∨ want = sl.cap then upd xs (fmtStat .ok)
      else if refused then upd xs (fmtStat .errAlloc) else upd xs (fmtStat .ok) want
    | "get_at" => let (sst, so) := Spec.Seq.getAt xs x; upd xs (fmtOut sst so)
    | "get_last" => let (sst, so) := Spec.Seq.getLast xs; upd xs (fmtOut sst so)
    | "index_of" => let (sst, so) := Spec.Seq.indexOf xs x; upd xs (fmtOut sst so)
    | "contains" => upd xs s!"st=- out={Spec.Seq.contains xs x}"
    | "contains_value" => upd xs s!"st=- out={Spec.Seq.containsValue cmpMod10 xs x}"
    | "size" => finS s s!"st=- out={xs.length}"
    | "capacity" => finS s s!"st=- out={sl.cap}"
    | "map" => upd xs s!"st=- cb={fmtList (Spec.Seq.mapVisit xs)}"
    | "reduce" => let (slog, sr) := Spec.Seq.reduce reduceFn xs x; upd xs s!"st=- out={sr} cb={fmtList slog}"
    | "sort" => upd (Spec.Seq.sort sortNum xs) "st=-"
    -- ties: the order among equal keys is `qsort`'s business; L1 sees keys and multiset on this line
    | "sort_mod" => upd (Spec.Seq.sort sortMod xs) "st=-" sl.cap (some k)
    | "mk_sub" | "mk_copy_shallow" | "mk_copy_deep" | "mk_filter" =>
      if (s.get to).isSome ∨ to = k then msg "slotbusy" else
      let mk (sst : Stat) (sr : Option (List Nat)) (cap : Nat) (cb : String) :=
        let sst := if sst = .ok ∧ refused then Stat.errAlloc else sst
        let sr := if sst = .ok then sr else none
        finS (s.set to (sr.map fun r => { sl with xs := r, cap := if c.op == "mk_sub" then r.length else cap })) s!"{fmtStat sst}{cb}"
      match c.op with
      | "mk_sub" => let (sst, sr) := Spec.Seq.subarray xs x y; mk sst sr 0 ""
      | "mk_copy_shallow" => mk .ok (some (Spec.Seq.copyShallow xs)) sl.cap ""
      | "mk_copy_deep" => mk .ok (some (Spec.Seq.copyDeep cpPlus xs)) sl.cap s!" cb={fmtList (if refused then [] else xs)}"
      | _ =>
        let (sst, sr) := Spec.Seq.filter predEven xs
        mk sst sr sl.cap s!" cb={fmtList (if refused ∨ sst != .ok then [] else xs)}"
    | _ => msg "badop"
  | none => msg "noobj"

/-! ### the model pass (L3).  It keeps ideal shadow lists only for its own bookkeeping; the `S` line it
computes is discarded by `step`. -/
def stepM (s : Sess) (c : Cmd) : Sess × String × String :=
  -- the shadow lists follow the model (they only steer the protocol: which slots exist)
  let s := { s with tie := none, sslots := s.slots.map (fun (o : Option Arr) => o.map fastAbs) }
  let m := s.mem.begin c.sched
  let refused := c.fired > 0
  let k := let k := c.nat "o" 0; if k < NSLOT then k else 0
  let to := let t := c.nat "to" 1; if t < NSLOT then t else 1
  let x := c.arg 0
  let y := c.arg 1
  -- `noout=1` on an operation with an optional out-pointer: NULL is passed, no `out=` is printed
  let noout := c.nat "noout" 0 == 1 &&
    ["replace_at", "remove", "remove_at", "remove_last", "it_remove", "it_replace", "zit_remove", "zit_replace"].contains c.op
  let fmtOut := fun (st : Stat) (o : Option Nat) => if noout then fmtStat st else CC.Driver.ArrayD.fmtOut st o
  let fmtOut2 := fun (st : Stat) (o : Option (Nat × Nat)) => if noout then fmtStat st else CC.Driver.ArrayD.fmtOut2 st o
  let capOf (isNew : Bool) : Nat := if isNew then c.nat "cap" Gen.ARRAY_DEFAULT_CAPACITY else Gen.ARRAY_DEFAULT_CAPACITY
  let tooBig (isNew : Bool) : Bool := decide (2 ^ 24 < capOf isNew ∧ capOf isNew * 8 ≤ 2 ^ 40)
  -- construction shared by `new`, `new_default`, `mk_new`, `mk_new_default` (`isNew`: configured triple and
  -- the line's cap= / exp=; otherwise the library defaults and the C library triple)
  let build (isNew : Bool) (m : Mem) : Stat × Option Arr × Mem × Stat :=
    let cap := capOf isNew
    let f := effFactor (match (if isNew then c.str "exp" else none) with | some e => parseF32 e | none => defaultFactor)
    -- a request above 2^40 bytes is refused by the harness allocator (`refuse_now` in common.h, counted
    -- as `absurd=`, not as a scheduled refusal): the buffer is the 2nd allocator call
    let absurd := cap * 8 > 2 ^ 40 ∧ c.sched.isEmpty
    let m := if absurd then { m with sched := [false, true] } else m
    let (st, r, m) := Arr.new cap (growF f) (exGeF f) m (if isNew then .conf else .libc)
    let m := if absurd then { m with nrefused := 0 } else m
    let sst : Stat := if cap = 0 ∨ exGeF f (Gen.CC_MAX_ELEMENTS / cap) ∨ cap > Gen.CC_MAX_ELEMENTS / 8 then .errInvalidCapacity else if refused then .errAlloc else .ok
    (st, r, m, sst)
  match c.op with
  | "new" | "new_default" =>
    let isNew := c.op == "new"
    -- blocks the driver cannot materialise although the harness allocator would serve them
    if tooBig isNew then ({ blind := true }, "S ?", "M ?") else
    let (st, r, m, sst) := build isNew m
    let s' : Sess := { slots := [r, none, none, none], sslots := [if sst = .ok then some [] else none, none, none, none], mem := m,
                       sparse := c.str "obs" == some "sparse" }
    fin s' (fmtStat sst) (fmtStat st)
  | _ =>
  if s.blind then (s, "S ?", "M ?") else
  if s.slots.all Option.isNone then
    ({ s with mem := m }, "S st=- nosession", s!"M st=- nosession | - | {fmtMem m} | {fmtFlags true m}")
  else
  let s := { s with mem := m }
  let msg (t : String) := fin s s!"st=- {t}" s!"st=- {t}"
  match c.op with
  | "observe" => fin s "st=-" "st=-" true
  | "mk_new" | "mk_new_default" =>
    if (s.arr to).isSome then msg "slotbusy" else
    if tooBig (c.op == "mk_new") then ({ s with blind := true }, "S ?", "M ?") else
    let (st, r, m, sst) := build (c.op == "mk_new") s.mem
    fin { (s.setArr to r).setLst to (if sst = .ok then some [] else none) with mem := m } (fmtStat sst) (fmtStat st)
  | "destroy" | "destroy_cb" =>
    let cb := c.op == "destroy_cb"
    let r := (List.range NSLOT).foldl (fun (acc : Sess × List Nat × List Nat) j =>
      match acc.1.arr j, acc.1.lst j with
      | some a, some xs =>
        let (log, m) := if cb then a.destroyCb acc.1.mem else ([], a.destroy acc.1.mem)
        ({ acc.1.dropSlot j with mem := m }, acc.2.1 ++ (if cb then xs else []), acc.2.2 ++ log)
      | _, _ => acc) (s, [], [])
    if cb then fin r.1 s!"st=- cb={fmtList r.2.1}" s!"st=- cb={fmtList r.2.2}" else fin r.1 "st=-" "st=-"
  | "zit_new" =>
    let p := c.nat "p" 1
    if p ≥ NSLOT ∨ (s.arr k).isNone ∨ (s.arr p).isNone then
      fin { s with zit := none, szit := none } "st=- noobj" "st=- noobj" else
    fin { s with zit := some (k, p, {}), szit := some (k, p, 0, false) } "st=-" "st=-"
  | "zit_next" | "zit_remove" | "zit_add" | "zit_replace" | "zit_index" =>
    match s.zit, s.szit with
    | some (k1, k2, it), some (_, _, pos, rm) =>
      match s.arr k1, s.arr k2, s.lst k1, s.lst k2 with
      | some a1, some a2, some xs1, some xs2 =>
        -- the same array on both sides: one state threaded through both halves of the call
        if k1 = k2 then
          if c.op == "zit_index" then fin s s!"st=- out={Spec.Seq.wdec pos}" s!"st=- out={Arr.iterIndex it}" else
          if c.op == "zit_add" ∧ growCheck a1 ≠ 0 then ({ s with blind := true }, "S ?", "M ?") else
          let (st, o, a', it', m) : Stat × Option (Nat × Nat) × Arr × ArrIter × Mem :=
            match c.op with
            | "zit_next" => let r := Arr.zipNext a1 a1 it s.mem; (r.1, r.2.1, a1, r.2.2.1, r.2.2.2)
            | "zit_remove" => Arr.zipRemove1 a1 it zipUntouched s.mem
            | "zit_add" => let r := Arr.zipAdd1 a1 it x y s.mem; (r.1, none, r.2.1, r.2.2.1, r.2.2.2)
            | _ => let r := Arr.zipReplace1 a1 it x y s.mem; (r.1, r.2.1, r.2.2.1, it, r.2.2.2)
          let blk : Option Stat := if c.op == "zit_add" ∧ (st == Stat.errAlloc ∨ st == Stat.errMaxCapacity) then some st else none
          let (sst, so, xs', pos', rm') := specZip1 c.op xs1 pos rm x y blk
          fin { (s.setArr k1 (some a')).setLst k1 (some xs') with zit := some (k1, k2, it'), szit := some (k1, k2, pos', rm'), mem := m }
            (fmtOut2 sst so) (fmtOut2 st o)
        else
        let zc : Spec.Seq.ZipCursor := { done1 := xs1.take pos, todo1 := xs1.drop pos, done2 := xs2.take pos, todo2 := xs2.drop pos, removed := rm }
        let putS (s : Sess) (zc : Spec.Seq.ZipCursor) : Sess :=
          { (s.setLst k1 (some zc.content1)).setLst k2 (some zc.content2) with szit := some (k1, k2, zc.done1.length, zc.removed) }
        match c.op with
        | "zit_next" =>
          let (st, o, it', m) := Arr.zipNext a1 a2 it s.mem
          let (sst, so, zc') := zc.next
          fin (putS { s with zit := some (k1, k2, it'), mem := m } zc') (fmtOut2 sst so) (fmtOut2 st o)
        | "zit_remove" =>
          let (st, o, a1', a2', it', m) := Arr.zipRemove a1 a2 it s.mem
          let (sst, so, zc') := zc.remove
          fin (putS { (s.setArr k1 (some a1')).setArr k2 (some a2') with zit := some (k1, k2, it'), mem := m } zc') (fmtOut2 sst so) (fmtOut2 st o)
        | "zit_add" =>
          if growCheck a1 ≠ 0 ∨ growCheck a2 ≠ 0 then ({ s with blind := true }, "S ?", "M ?") else
          let (st, a1', a2', it', m) := Arr.zipAdd a1 a2 it x y s.mem
          let (sst, zc') := if refused then (Stat.errAlloc, zc) else zc.add x y
          fin (putS { (s.setArr k1 (some a1')).setArr k2 (some a2') with zit := some (k1, k2, it'), mem := m } zc') (fmtStat sst) (fmtStat st)
        | "zit_replace" =>
          let (st, o, a1', a2', m) := Arr.zipReplace a1 a2 it x y s.mem
          let (sst, so, zc') := zc.replace x y
          fin (putS { (s.setArr k1 (some a1')).setArr k2 (some a2') with mem := m } zc') (fmtOut2 sst so) (fmtOut2 st o)
        | _ => fin s s!"st=- out={zc.index}" s!"st=- out={Arr.iterIndex it}"
      | _, _, _, _ => msg "noiter"
    | _, _ => msg "noiter"
  | "it_new" =>
    if (s.arr k).isNone then fin { s with it := none, sit := none } "st=- noobj" "st=- noobj" else
    fin { s with it := some (k, {}), sit := some (k, 0, false) } "st=-" "st=-"
  | "it_next" | "it_remove" | "it_add" | "it_replace" | "it_index" =>
    match s.it, s.sit with
    | some (k1, it), some (_, pos, rm) =>
      match s.arr k1, s.lst k1 with
      | some a, some xs =>
        let cur := curOf xs pos rm
        let putS (s : Sess) (cu : Spec.Seq.Cursor) : Sess :=
          { s.setLst k1 (some cu.content) with sit := some (k1, cu.done.length, cu.removed) }
        match c.op with
        | "it_next" =>
          let (st, o, it', m) := a.iterNext it s.mem
          let (sst, so, cu) := cur.next
          fin (putS { s with it := some (k1, it'), mem := m } cu) (fmtOut sst so) (fmtOut st o)
        | "it_remove" =>
          let (st, o, a', it', m) := a.iterRemove it s.mem
          let (sst, so, cu) := cur.remove
          fin (putS { s.setArr k1 (some a') with it := some (k1, it'), mem := m } cu) (fmtOut sst so) (fmtOut st o)
        | "it_add" =>
          let gc := growCheck a
          if gc = 2 then ({ s with blind := true }, "S ?", "M ?") else
          let (st, a', it', m) := a.iterAdd it x (absurdBegin gc c s.mem)
          let m := absurdEnd gc c m
          let (sst, cu) := if refused then (Stat.errAlloc, cur) else if st == .errMaxCapacity then (st, cur) else cur.add x
          fin (putS { s.setArr k1 (some a') with it := some (k1, it'), mem := m } cu) (fmtStat sst) (fmtStat st)
        | "it_replace" =>
          let (st, o, a', m) := a.iterReplace it x s.mem
          let (sst, so, cu) := cur.replace x
          fin (putS { s.setArr k1 (some a') with mem := m } cu) (fmtOut sst so) (fmtOut st o)
        | _ => fin s s!"st=- out={cur.index}" s!"st=- out={Arr.iterIndex it}"
      | _, _ => msg "noiter"
    | _, _ => msg "noiter"
  | _ =>
  match s.arr k, s.lst k with
  | some a, some xs =>
    -- result of a call that only changes slot `k`
    let upd (a' : Arr) (m : Mem) (xs' : List Nat) (hdS hdM : String) :=
      fin { (s.setArr k (some a')).setLst k (some xs') with mem := m } hdS hdM
    match c.op with
    | "drop" => fin { s.dropSlot k with mem := a.destroy s.mem } "st=-" "st=-"
    -- the ideal list is told when a growing call was blocked: refusals come from the C run
    -- (`@fired`), the capacity limit (`CC_ERR_MAX_CAPACITY`) from the model's status
    | "add" =>
      let gc := growCheck a
      if gc = 2 then ({ s with blind := true }, "S ?", "M ?") else
      let (st, a', m) := a.add x (absurdBegin gc c s.mem)
      let (sst, xs') := if refused then (Stat.errAlloc, xs) else if st == .errMaxCapacity then (st, xs) else Spec.Seq.add xs x
      upd a' (absurdEnd gc c m) xs' (fmtStat sst) (fmtStat st)
    | "add_at" =>
      let gc := if y ≤ a.size then growCheck a else 0
      if gc = 2 then ({ s with blind := true }, "S ?", "M ?") else
      let (st, a', m) := a.addAt x y (absurdBegin gc c s.mem)
      let (sst, xs') := if refused then (Stat.errAlloc, xs) else if st == .errMaxCapacity then (st, xs) else Spec.Seq.addAt xs x y
      upd a' (absurdEnd gc c m) xs' (fmtStat sst) (fmtStat st)
    | "replace_at" =>
      let (st, o, a', m) := a.replaceAt x y s.mem
      let (sst, so, xs') := Spec.Seq.replaceAt xs x y
      upd a' m xs' (fmtOut sst so) (fmtOut st o)
    | "swap_at" =>
      let (st, a', m) := a.swapAt x y s.mem
      let (sst, xs') := Spec.Seq.swapAt xs x y
      upd a' m xs' (fmtStat sst) (fmtStat st)
    | "remove" =>
      let (st, o, a', m) := a.remove x s.mem
      let (sst, so, xs') := Spec.Seq.remove xs x
      upd a' m xs' (fmtOut sst so) (fmtOut st o)
    | "remove_at" =>
      let (st, o, a', m) := a.removeAt x s.mem
      let (sst, so, xs') := Spec.Seq.removeAt xs x
      upd a' m xs' (fmtOut sst so) (fmtOut st o)
    | "remove_last" =>
      let (st, o, a', m) := a.removeLast s.mem
      let (sst, so, xs') := Spec.Seq.removeLast xs
      upd a' m xs' (fmtOut sst so) (fmtOut st o)
    | "remove_all" => upd a.removeAll s.mem (Spec.Seq.removeAll xs) "st=-" "st=-"
    | "remove_all_free" =>
      let (n, a', m) := a.removeAllFree s.mem
      let (sn, xs') := Spec.Seq.removeAllFree xs
      upd a' m xs' s!"st=- freed={sn}" s!"st=- freed={n}"
    | "reverse" =>
      let (a', m) := a.reverse s.mem
      upd a' m (Spec.Seq.reverse xs) "st=-" "st=-"
    | "filter_mut" =>
      let (st, a', log, m) := a.filterMut predEven s.mem
      let (sst, xs') := Spec.Seq.filterMut predEven xs
      upd a' m xs' s!"{fmtStat sst} cb={fmtList xs.reverse}" s!"{fmtStat st} cb={fmtList log}"
    | "trim_capacity" =>
      let (st, a', m) := a.trimCapacity s.mem
      upd a' m xs (fmtStat (if refused then .errAlloc else .ok)) (fmtStat st)
    | "get_at" =>
      let (st, o, m) := a.getAt x s.mem
      let (sst, so) := Spec.Seq.getAt xs x
      upd a m xs (fmtOut sst so) (fmtOut st o)
    | "get_last" =>
      let (st, o, m) := a.getLast s.mem
      let (sst, so) := Spec.Seq.getLast xs
      upd a m xs (fmtOut sst so) (fmtOut st o)
    | "index_of" =>
      let (st, o, m) := a.indexOf x s.mem
      let (sst, so) := Spec.Seq.indexOf xs x
      upd a m xs (fmtOut sst so) (fmtOut st o)
    | "contains" =>
      let (n, m) := a.contains x s.mem
      upd a m xs s!"st=- out={Spec.Seq.contains xs x}" s!"st=- out={n}"
    | "contains_value" =>
      let (n, m) := a.containsValue cmpMod10 x s.mem
      upd a m xs s!"st=- out={Spec.Seq.containsValue cmpMod10 xs x}" s!"st=- out={n}"
    | "size" => fin s s!"st=- out={xs.length}" s!"st=- out={a.size}"
    | "capacity" => fin s s!"st=- out={a.capacity}" s!"st=- out={a.capacity}"
    | "map" =>
      let (log, m) := a.map s.mem
      upd a m xs s!"st=- cb={fmtList (Spec.Seq.mapVisit xs)}" s!"st=- cb={fmtList log}"
    | "reduce" =>
      let (log, r, m) := a.reduce reduceFn x s.mem
      let (slog, sr) := Spec.Seq.reduce reduceFn xs x
      upd a m xs s!"st=- out={sr} cb={fmtList slog}" s!"st=- out={r} cb={fmtList log}"
    | "sort" =>
      let (a', m) := a.sort sortNum s.mem
      upd a' m (Spec.Seq.sort sortNum xs) "st=-" "st=-"
    | "sort_mod" =>
      let (a', m) := a.sort sortMod s.mem
      fin { (s.setArr k (some a')).setLst k (some (Spec.Seq.sort sortMod xs)) with mem := m, tie := some k } "st=-" "st=-"
    | "mk_sub" | "mk_copy_shallow" | "mk_copy_deep" | "mk_filter" =>
      if (s.arr to).isSome ∨ to = k then msg "slotbusy" else
      let mk (st : Stat) (r : Option Arr) (m : Mem) (sst : Stat) (sr : Option (List Nat)) (cbS cbM : String) :=
        let sst := if sst = .ok ∧ refused then Stat.errAlloc else sst
        let sr := if sst = .ok then sr else none
        fin { (s.setArr to r).setLst to sr with mem := m } s!"{fmtStat sst}{cbS}" s!"{fmtStat st}{cbM}"
      match c.op with
      | "mk_sub" =>
        let (st, r, m) := a.subarray x y s.mem
        let (sst, sr) := Spec.Seq.subarray xs x y
        mk st r m sst sr "" ""
      | "mk_copy_shallow" =>
        let (st, r, m) := a.copyShallow s.mem
        mk st r m .ok (some (Spec.Seq.copyShallow xs)) "" ""
      | "mk_copy_deep" =>
        let (st, r, log, m) := a.copyDeep cpPlus s.mem
        mk st r m .ok (some (Spec.Seq.copyDeep cpPlus xs)) s!" cb={fmtList (if refused then [] else xs)}" s!" cb={fmtList log}"
      | _ =>
        let (st, r, log, m) := a.filter predEven s.mem
        let (sst, sr) := Spec.Seq.filter predEven xs
        mk st r m sst sr s!" cb={fmtList (if refused ∨ sst != .ok then [] else xs)}" s!" cb={fmtList log}"
    | _ => msg "badop"
  | _, _ => msg "noobj"

/-- one line: the spec pass (S, L1) and the model pass (M, L3) run side by side; the spec pass never
sees the model, and keeps running when the model pass has gone blind -/
def step (s : Sess) (c : Cmd) : Sess × String × String :=
  let (sp', lineS) := specStep s.sp c
  let (s', _, lineM) := stepM s c
  ({ s' with sp := sp' }, lineS, lineM)

end CC.Driver.ArrayD
