import CollectionsC.Base.Status
import CollectionsC.Base.Mem
/-! Line-protocol helpers shared by all container drivers. -/
namespace CC.Driver

structure Cmd where
  op  : String := ""
  pos : List String := []
  kv  : List (String × String) := []
  deriving Repr

def Cmd.parse (line : String) : Cmd :=
  let toks := (line.trimAscii.toString.splitOn " ").filter (· ≠ "")
  match toks with
  | [] => {}
  | op :: rest =>
    let step (c : Cmd) (t : String) : Cmd :=
      match t.splitOn "=" with
      | [k, v] => { c with kv := c.kv ++ [(k, v)] }
      | _ => { c with pos := c.pos ++ [t] }
    rest.foldl step { op := op }

def Cmd.str (c : Cmd) (k : String) : Option String := (c.kv.find? (·.1 == k)).map (·.2)
def Cmd.nat (c : Cmd) (k : String) (dflt : Nat) : Nat := ((c.str k).bind String.toNat?).getD dflt
def Cmd.natOpt (c : Cmd) (k : String) : Option Nat := (c.str k).bind String.toNat?
def Cmd.arg (c : Cmd) (i : Nat) : Nat := ((c.pos[i]?).bind String.toNat?).getD 0
def Cmd.argStr (c : Cmd) (i : Nat) : String := (c.pos[i]?).getD ""

/-- `fail=k1,k2` : the k-th allocator call of this operation is refused (1-based) -/
def Cmd.sched (c : Cmd) : List Bool :=
  match c.str "fail" with
  | none => []
  | some s =>
    let ks := (s.splitOn ",").filterMap String.toNat?
    let mx := ks.foldl max 0
    (List.range mx).map fun i => ks.contains (i + 1)

/-- `@fired=n` annotation written by the runner from the C run: number of refusals that fired -/
def Cmd.fired (c : Cmd) : Nat := c.nat "@fired" 0

def fmtList (xs : List Nat) : String := "[" ++ ",".intercalate (xs.map toString) ++ "]"
def fmtStat (s : Stat) : String := s!"st={s.code}"
def fmtMem (m : Mem) : String :=
  s!"mem=a{m.nalloc} f{m.nfree} r{m.nrefused} live={m.live} libc=a{m.lalloc} f{m.lfree} llive={m.liveLibc}"
def fmtFlags (inv : Bool) (m : Mem) : String :=
  s!"inv={if inv then 1 else 0} fault={if m.fault then 1 else 0}"

end CC.Driver
