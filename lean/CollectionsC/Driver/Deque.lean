import CollectionsC.Driver.Cmd
import CollectionsC.Spec.DequeSpec
import CollectionsC.Model.Deque
import CollectionsC.Proofs.DequeBulk
/-! Line-protocol driver for the deque: four object slots (`o=`, builders `to=`), one iterator, one zip
iterator.  Prints exactly what `harness/shim_deque.c` prints. -/
-- container: deque
namespace CC.Driver.DequeD
open CC CC.Driver
open CC.Spec.DequeSpec (Cur)

structure Sess where
  models : List (Option Deque) := [none, none, none, none]
  specs  : List (Option (List Nat)) := [none, none, none, none]
  it     : Option (Nat × Deque.Iter) := none
  sit    : Option (Nat × Cur) := none
  zit    : Option (Nat × Nat × Deque.Iter) := none
  szit   : Option (Nat × Nat × Cur) := none
  mem    : Mem := {}
  /-- `obs=sparse` was given on a constructor line: no content sweep except in `observe` -/
  sparse : Bool := false
  /-- `phys=quiet` was given on a constructor line: buffer checksum instead of the dump, except in `observe` -/
  quiet  : Bool := false

def nslot : Nat := 4
def predEven (v : Nat) : Bool := v % 2 == 0
/-- the harness copy function `(void*)((uintptr_t)e + 1000)`: pointer arithmetic wraps at 2^64 -/
def cp1000 (v : Nat) : Nat := (v + 1000) % 2 ^ 64
def eqvMod10 (a b : Nat) : Bool := a % 10 == b % 10

def getM (s : Sess) (k : Nat) : Option Deque := (s.models[k]?).join
def getS (s : Sess) (k : Nat) : Option (List Nat) := (s.specs[k]?).join
def setM (s : Sess) (k : Nat) (d : Option Deque) : Sess := { s with models := s.models.set k d }
def setS (s : Sess) (k : Nat) (l : Option (List Nat)) : Sess := { s with specs := s.specs.set k l }

def forgetIters (s : Sess) (k : Nat) : Sess :=
  let s := if (s.it.map (·.1)) == some k then { s with it := none } else s
  let s := if (s.sit.map (·.1)) == some k then { s with sit := none } else s
  let s := match s.zit with
    | some (a, b, _) => if a == k || b == k then { s with zit := none } else s
    | none => s
  match s.szit with
    | some (a, b, _) => if a == k || b == k then { s with szit := none } else s
    | none => s

def obsM (s : Sess) : String :=
  String.join ((List.range nslot).filterMap fun k => (getM s k).map fun d => s!" d{k}={fmtList d.abs}")
def obsS (s : Sess) : String :=
  String.join ((List.range nslot).filterMap fun k => (getS s k).map fun l => s!" d{k}={fmtList l}")

/-- 64-bit FNV-1a style checksum of the slots, as `phys_deque` computes it in a `phys=quiet` session
(per slot: mix 1 and the value if live, mix 0 if dead; arithmetic modulo 2^64) -/
def bufSum (d : Deque) : UInt64 :=
  let p : UInt64 := 0x100000001b3
  let f := d.first % d.cap
  let b := d.buf.take d.cap ++ List.replicate (d.cap - d.buf.length) 0
  (b.foldl (fun (acc : UInt64 × Nat) v =>
    let live := (acc.2 + d.cap - f) % d.cap < d.size
    (if live then (((acc.1 ^^^ 1) * p) ^^^ v.toUInt64) * p else acc.1 * p, acc.2 + 1))
    ((0xcbf29ce484222325 : UInt64), 0)).1

/-- private fields of one deque; dead slots print as `_`; `full = false`: checksum instead of the dump -/
def physDeque (name : String) (k : Nat) (d : Deque) (full : Bool := true) : String :=
  let hd := s!"{name}{k}.size={d.size} {name}{k}.cap={d.cap} {name}{k}.first={d.first} {name}{k}.last={d.last} {name}{k}.buf="
  if !full then s!"{hd}#{(bufSum d).toNat}" else
  let b := d.buf.take d.cap ++ List.replicate (d.cap - d.buf.length) 0
  let slots := b.mapIdx fun j v =>
    if (j + d.cap - d.first % d.cap) % d.cap < d.size then toString v else "_"
  s!"{hd}[{",".intercalate slots}]"
def b01 (b : Bool) : String := if b then "1" else "0"

def phys (s : Sess) (full : Bool := true) : String :=
  let ds := (List.range nslot).filterMap fun k => (getM s k).map fun d => physDeque "d" k d full
  let i := match s.it with | some (k, it) => [s!"it={k}:{it.index}:{b01 it.lastRemoved}"] | none => []
  let z := match s.zit with | some (a, b, it) => [s!"zit={a}:{b}:{it.index}:{b01 it.lastRemoved}"] | none => []
  let all := ds ++ i ++ z
  if all.isEmpty then "-" else " ".intercalate all

def inv (s : Sess) : Bool := s.models.all fun d => match d with | none => true | some d => decide d.Inv

def fin (s : Sess) (hdS hdM : String) (sweep : Bool := false) : Sess × String × String :=
  let oS := if s.sparse && !sweep then "" else obsS s
  let oM := if s.sparse && !sweep then "" else obsM s
  (s, s!"S {hdS}{oS}", s!"M {hdM}{oM} | {phys s (!s.quiet || sweep)} | {fmtMem s.mem} | {fmtFlags (inv s) s.mem}")

def early (s : Sess) (m : Mem) (what : String) : Sess × String × String :=
  ({ s with mem := m }, s!"S st=- {what}", s!"M st=- {what} | - | {fmtMem m} | {fmtFlags true m}")

def hdOut (st : Stat) (out : Option Nat) (noout : Bool) : String :=
  match out with
  | some v => if st == .ok && !noout then s!"{fmtStat st} out={v}" else fmtStat st
  | none => fmtStat st
def hdOut2 (st : Stat) (out : Option (Nat × Nat)) (noout : Bool) : String :=
  match out with
  | some (a, b) => if st == .ok && !noout then s!"{fmtStat st} out={a} out2={b}" else fmtStat st
  | none => fmtStat st

/-- pair of out-values of which the second may not have been written -/
def hdOut2o (st : Stat) (o1 o2 : Option Nat) (noout : Bool) : String :=
  if st == .ok && !noout then
    let f (o : Option Nat) := match o with | some v => toString v | none => "-"
    s!"{fmtStat st} out={f o1} out2={f o2}"
  else fmtStat st

/-- operations on the deque in slot `k` (model `d`, spec `l`) -/
def stepObj (s : Sess) (c : Cmd) (m : Mem) (k : Nat) (d : Deque) (l : List Nat) : Sess × String × String :=
  let a0 := c.arg 0
  let a1 := c.arg 1
  let noout := c.nat "noout" 0 != 0
  let refused := c.fired > 0
  let upd (d' : Deque) (l' : List Nat) (m' : Mem) : Sess := setS (setM { s with mem := m' } k (some d')) k (some l')
  -- additions: (model result) (ideal result)
  let addLike (r : Stat × Deque × Mem) (sp : Stat × List Nat) :=
    let sp := if refused then (Stat.errAlloc, l) else sp
    fin (upd r.2.1 sp.2 r.2.2) (fmtStat sp.1) (fmtStat r.1)
  let outLike (r : Stat × Option Nat × Deque × Mem) (sp : Stat × Option Nat × List Nat) :=
    fin (upd r.2.2.1 sp.2.2 r.2.2.2) (hdOut sp.1 sp.2.1 noout) (hdOut r.1 r.2.1 noout)
  let getLike (r : Stat × Option Nat × Mem) (sp : Stat × Option Nat) :=
    fin (upd d l r.2.2) (hdOut sp.1 sp.2 false) (hdOut r.1 r.2.1 false)
  match c.op with
  | "it_new" =>
    fin { s with mem := m, it := some (k, {}), sit := some (k, {}) } "st=-" "st=-"
  | "drop" =>
    let s' := forgetIters (setS (setM { s with mem := d.destroy m } k none) k none) k
    fin s' "st=-" "st=-"
  | "destroy_cb" =>
    let f := d.foreach m
    let s' := forgetIters (setS (setM { s with mem := d.removeAll.destroy f.2 } k none) k none) k
    fin s' s!"st=- cb={fmtList l}" s!"st=- cb={fmtList f.1}"
  | "add" | "add_last" => addLike (d.addLast a0 m) (.ok, Spec.DequeSpec.addLast l a0)
  | "fill" =>
    -- `n` × add_last of fixed values, stopping at the first refusal (closed forms: Proofs/DequeBulk.lean); the ideal
    -- list takes the values that went in
    let vals := Deque.fillVals (c.nat "n" 0) (c.nat "seed" 1)
    let r := Deque.fillRun false (vals.length + 1) d m vals
    fin (upd r.2.1 (l ++ vals.take (vals.length - r.2.2.2)) r.2.2.1) (fmtStat (if refused then .errAlloc else .ok)) (fmtStat r.1)
  | "add_first" => addLike (d.addFirst a0 m) (.ok, Spec.DequeSpec.addFirst l a0)
  | "add_at" => addLike (d.addAt a0 a1 m) (Spec.DequeSpec.addAt l a0 a1)
  | "replace_at" => outLike (d.replaceAt a0 a1 m) (Spec.DequeSpec.replaceAt l a0 a1)
  | "remove" => outLike (d.remove a0 m) (Spec.DequeSpec.remove l a0)
  | "remove_at" => outLike (d.removeAt a0 m) (Spec.DequeSpec.removeAt l a0)
  | "remove_first" => outLike (d.removeFirst m) (Spec.DequeSpec.removeFirst l)
  | "remove_last" => outLike (d.removeLast m) (Spec.DequeSpec.removeLast l)
  | "remove_all" => fin (upd d.removeAll [] m) "st=-" "st=-"
  | "remove_all_cb" =>
    let f := d.foreach m
    fin (upd d.removeAll [] f.2) s!"st=- cb={fmtList l}" s!"st=- cb={fmtList f.1}"
  | "get_at" => getLike (d.getAt a0 m) (Spec.DequeSpec.getAt l a0)
  | "get_first" => getLike (d.getFirst m) (Spec.DequeSpec.getFirst l)
  | "get_last" => getLike (d.getLast m) (Spec.DequeSpec.getLast l)
  | "reverse" => let r := d.reverse m; fin (upd r.1 l.reverse r.2) "st=-" "st=-"
  | "trim" =>
    let r := d.trimCapacity m
    fin (upd r.2.1 l r.2.2) (fmtStat (if refused then .errAlloc else .ok)) (fmtStat r.1)
  | "contains" =>
    let r := d.contains a0 m
    fin (upd d l r.2) s!"st=- out={Spec.DequeSpec.contains l a0}" s!"st=- out={r.1}"
  | "contains_value" =>
    let r := d.containsValue a0 eqvMod10 m
    fin (upd d l r.2) s!"st=- out={Spec.DequeSpec.containsValue l a0 eqvMod10}" s!"st=- out={r.1}"
  | "index_of" =>
    let r := d.indexOf a0 m
    let sp := Spec.DequeSpec.indexOf l a0
    fin (upd d l r.2.2) (hdOut sp.1 sp.2 false) (hdOut r.1 r.2.1 false)
  | "size" => fin (upd d l m) s!"st=- out={l.length}" s!"st=- out={d.size}"
  | "foreach" => let f := d.foreach m; fin (upd d l f.2) s!"st=- cb={fmtList l}" s!"st=- cb={fmtList f.1}"
  | "filter_mut" =>
    let f := d.foreach m
    let r := d.filterMut predEven f.2
    let sp := Spec.DequeSpec.filterMut l predEven
    fin (upd r.2.1 sp.2 r.2.2) s!"{fmtStat sp.1} cb={fmtList l}" s!"{fmtStat r.1} cb={fmtList f.1}"
  | "mk_filter" | "mk_copy_shallow" | "mk_copy_deep" =>
    let to := c.nat "to" 1
    if (getM s to).isSome then early s m "busy" else
    let r : Stat × Option Deque × Mem × List Nat :=
      if c.op == "mk_filter" then
        let r := d.filter predEven m
        -- the predicate is called (and logs) only once the result object exists
        (r.1, r.2.1, r.2.2, if d.size = 0 ∨ (Deque.new d.cap d.triple m).2.1.isNone then [] else (d.foreach m).1)
      else if c.op == "mk_copy_shallow" then let r := d.copy none m; (r.1, r.2.1, r.2.2, [])
      else let r := d.copy (some cp1000) m; (r.1, r.2.1, r.2.2, if r.1 == .ok then (d.foreach m).1 else [])
    let sp : Stat × Option (List Nat) × List Nat :=
      if c.op == "mk_filter" then
        let f := Spec.DequeSpec.filter l predEven
        if f.1 != .ok then (f.1, none, []) else if refused then (.errAlloc, none, []) else (f.1, f.2, l)
      else if refused then (.errAlloc, none, [])
      else if c.op == "mk_copy_shallow" then (.ok, some (Spec.DequeSpec.copyShallow l), [])
      else (.ok, some (Spec.DequeSpec.copyDeep l cp1000), l)
    let s' := setS (setM { s with mem := r.2.2.1 } to r.2.1) to sp.2.1
    fin s' s!"{fmtStat sp.1} cb={fmtList sp.2.2}" s!"{fmtStat r.1} cb={fmtList r.2.2.2}"
  | _ => fin { s with mem := m } "st=- badop" "st=- badop"

/-- iterator operations: iterator `it` over slot `k` -/
def stepIter (s : Sess) (c : Cmd) (m : Mem) : Sess × String × String :=
  match s.it, s.sit with
  | some (k, it), some (_, cur) =>
    match getM s k, getS s k with
    | some d, some l =>
      let a0 := c.arg 0
      let noout := c.nat "noout" 0 != 0
      let refused := c.fired > 0
      match c.op with
      | "it_next" =>
        let r := Deque.iterNext it d m
        let sp := Spec.DequeSpec.curNext l cur
        fin { s with mem := r.2.2.2, it := some (k, r.2.2.1), sit := some (k, sp.2.2) }
          (hdOut sp.1 sp.2.1 false) (hdOut r.1 r.2.1 false)
      | "it_remove" =>
        let r := Deque.iterRemove it d m
        let sp := Spec.DequeSpec.curRemove l cur
        let s' := setS (setM { s with mem := r.2.2.2.2, it := some (k, r.2.2.1), sit := some (k, sp.2.2.2) } k (some r.2.2.2.1)) k (some sp.2.2.1)
        fin s' (hdOut sp.1 sp.2.1 noout) (hdOut r.1 r.2.1 noout)
      | "it_add" =>
        let r := Deque.iterAdd it d a0 m
        let sp := if refused then (Stat.errAlloc, l, cur) else Spec.DequeSpec.curAdd l cur a0
        let s' := setS (setM { s with mem := r.2.2.2, it := some (k, r.2.1), sit := some (k, sp.2.2) } k (some r.2.2.1)) k (some sp.2.1)
        fin s' (fmtStat sp.1) (fmtStat r.1)
      | "it_replace" =>
        let r := Deque.iterReplace it d a0 m
        let sp := Spec.DequeSpec.curReplace l cur a0
        let s' := setS (setM { s with mem := r.2.2.2 } k (some r.2.2.1)) k (some sp.2.2)
        fin s' (hdOut sp.1 sp.2.1 noout) (hdOut r.1 r.2.1 noout)
      | "it_index" =>
        fin { s with mem := m } s!"st=- out={Deque.decIdx cur.pos}" s!"st=- out={Deque.iterIndex it}"
      | "it_sweep" =>
        -- `n` × iter_next, stopping at the end: count and checksum of the values yielded
        let kk := c.nat "n" 1
        let r := Deque.iterSweepRun d kk it m
        let sv := (l.drop cur.pos).take kk
        let sst : Stat := if kk ≤ l.length - cur.pos then .ok else .iterEnd
        let cur' : Cur := if sv.isEmpty then cur else { pos := cur.pos + sv.length, removed := false }
        fin { s with mem := r.2.2.2, it := some (k, r.2.2.1), sit := some (k, cur') }
          s!"{fmtStat sst} out={sv.length} sum={Deque.valSum sv}" s!"{fmtStat r.2.1} out={r.1.length} sum={Deque.valSum r.1}"
      | _ => fin { s with mem := m } "st=- badop" "st=- badop"
    | _, _ => early s m "nosession"
  | _, _ => early s m "nosession"

/-- zip iterator whose two sides are the same deque (`zit_new o=k o2=k`) -/
def stepZipSelf (s : Sess) (c : Cmd) (m : Mem) (k : Nat) (it : Deque.Iter) (cur : Cur) (d : Deque) (l : List Nat) :
    Sess × String × String :=
  let a0 := c.arg 0
  let a1 := c.arg 1
  let noout := c.nat "noout" 0 != 0
  let refused := c.fired > 0
  let put (d' : Deque) (l' : List Nat) (it' : Deque.Iter) (cur' : Cur) (m' : Mem) : Sess :=
    setS (setM { s with mem := m', zit := some (k, k, it'), szit := some (k, k, cur') } k (some d')) k (some l')
  match c.op with
  | "zit_next" =>
    let r := Deque.zipNext it d d m
    let sp := Spec.DequeSpec.zipNextSelf l cur
    fin (put d l r.2.2.1 sp.2.2 r.2.2.2) (hdOut2 sp.1 sp.2.1 false) (hdOut2 r.1 r.2.1 false)
  | "zit_add" =>
    let r := Deque.zipAddSelf it d a0 a1 m
    let sp := if refused then (Stat.errAlloc, l, cur) else Spec.DequeSpec.zipAddSelf l cur a0 a1
    fin (put r.2.2.1 sp.2.1 r.2.1 sp.2.2 r.2.2.2) (fmtStat sp.1) (fmtStat r.1)
  | "zit_remove" =>
    let r := Deque.zipRemoveSelf it d m
    let sp := Spec.DequeSpec.zipRemoveSelf l cur
    fin (put r.2.2.2.2.1 sp.2.2.2.1 r.2.2.2.1 sp.2.2.2.2 r.2.2.2.2.2)
      (hdOut2o sp.1 sp.2.1 sp.2.2.1 noout) (hdOut2o r.1 r.2.1 r.2.2.1 noout)
  | "zit_replace" =>
    let r := Deque.zipReplaceSelf it d a0 a1 m
    let sp := Spec.DequeSpec.zipReplaceSelf l cur a0 a1
    fin (put r.2.2.2.1 sp.2.2.2 it cur r.2.2.2.2) (hdOut2o sp.1 sp.2.1 sp.2.2.1 noout) (hdOut2o r.1 r.2.1 r.2.2.1 noout)
  | "zit_index" =>
    fin { s with mem := m } s!"st=- out={Deque.decIdx cur.pos}" s!"st=- out={Deque.iterIndex it}"
  | _ => fin { s with mem := m } "st=- badop" "st=- badop"

def stepZip (s : Sess) (c : Cmd) (m : Mem) : Sess × String × String :=
  match s.zit, s.szit with
  | some (ka, kb, it), some (_, _, cur) =>
    if ka == kb then
      match getM s ka, getS s ka with
      | some d, some l => stepZipSelf s c m ka it cur d l
      | _, _ => early s m "nosession"
    else
    match getM s ka, getM s kb, getS s ka, getS s kb with
    | some d1, some d2, some l1, some l2 =>
      let a0 := c.arg 0
      let a1 := c.arg 1
      let noout := c.nat "noout" 0 != 0
      let refused := c.fired > 0
      let put (d1' d2' : Deque) (l1' l2' : List Nat) (it' : Deque.Iter) (cur' : Cur) (m' : Mem) : Sess :=
        setS (setS (setM (setM { s with mem := m', zit := some (ka, kb, it'), szit := some (ka, kb, cur') }
          ka (some d1')) kb (some d2')) ka (some l1')) kb (some l2')
      match c.op with
      | "zit_next" =>
        let r := Deque.zipNext it d1 d2 m
        let sp := Spec.DequeSpec.zipNext l1 l2 cur
        fin (put d1 d2 l1 l2 r.2.2.1 sp.2.2 r.2.2.2) (hdOut2 sp.1 sp.2.1 false) (hdOut2 r.1 r.2.1 false)
      | "zit_add" =>
        let r := Deque.zipAdd it d1 d2 a0 a1 m
        let sp := if refused then (Stat.errAlloc, l1, l2, cur) else Spec.DequeSpec.zipAdd l1 l2 cur a0 a1
        fin (put r.2.2.1 r.2.2.2.1 sp.2.1 sp.2.2.1 r.2.1 sp.2.2.2 r.2.2.2.2) (fmtStat sp.1) (fmtStat r.1)
      | "zit_remove" =>
        let r := Deque.zipRemove it d1 d2 m
        let sp := Spec.DequeSpec.zipRemove l1 l2 cur
        fin (put r.2.2.2.1 r.2.2.2.2.1 sp.2.2.1 sp.2.2.2.1 r.2.2.1 sp.2.2.2.2 r.2.2.2.2.2)
          (hdOut2 sp.1 sp.2.1 noout) (hdOut2 r.1 r.2.1 noout)
      | "zit_replace" =>
        let r := Deque.zipReplace it d1 d2 a0 a1 m
        let sp := Spec.DequeSpec.zipReplace l1 l2 cur a0 a1
        fin (put r.2.2.1 r.2.2.2.1 sp.2.2.1 sp.2.2.2 it cur r.2.2.2.2)
          (hdOut2 sp.1 sp.2.1 noout) (hdOut2 r.1 r.2.1 noout)
      | "zit_index" =>
        fin { s with mem := m } s!"st=- out={Deque.decIdx cur.pos}" s!"st=- out={Deque.iterIndex it}"
      | _ => fin { s with mem := m } "st=- badop" "st=- badop"
    | _, _, _, _ => early s m "nosession"
  | _, _ => early s m "nosession"

/-- returns the new session, the spec line and the model line -/
def step (s : Sess) (c : Cmd) : Sess × String × String :=
  let m := s.mem.begin c.sched
  let k := c.nat "o" 0
  let to := c.nat "to" 1
  if k ≥ nslot ∨ to ≥ nslot then early s m "badslot" else
  match c.op with
  | "new" | "new_default" =>
    if (getM s k).isSome then early s m "busy" else
    let cap := if c.op == "new" then c.nat "cap" Gen.DEQUE_DEFAULT_CAPACITY else Gen.DEQUE_DEFAULT_CAPACITY
    let r := Deque.new cap (if c.op == "new" then .conf else .libc) m   -- cc_deque_new: C library triple
    let sp : Stat × Option (List Nat) := if c.fired > 0 then (.errAlloc, none) else (.ok, some [])
    let sparse := s.sparse || c.str "obs" == some "sparse"
    let quiet := s.quiet || c.str "phys" == some "quiet"
    fin (setS (setM { s with mem := r.2.2, sparse := sparse, quiet := quiet } k r.2.1) k sp.2) (fmtStat sp.1) (fmtStat r.1)
  | "observe" => fin { s with mem := m } "st=-" "st=-" true
  | "destroy" =>
    let m := s.models.foldl (fun m d => match d with | some d => d.destroy m | none => m) m
    fin { mem := m, sparse := s.sparse, quiet := s.quiet } "st=-" "st=-"
  | "zit_new" =>
    let k2 := c.nat "o2" 1
    if k2 ≥ nslot ∨ (getM s k).isNone ∨ (getM s k2).isNone then early s m "nosession" else
    fin { s with mem := m, zit := some (k, k2, {}), szit := some (k, k2, {}) } "st=-" "st=-"
  | _ =>
  if c.op.startsWith "zit_" then stepZip s c m
  else if c.op.startsWith "it_" && c.op != "it_new" then stepIter s c m
  else match getM s k, getS s k with
    | some d, some l => stepObj s c m k d l
    | _, _ => early s m "nosession"

end CC.Driver.DequeD
