import CollectionsC.Driver.Cmd
import CollectionsC.Spec.BlocksSpec
import CollectionsC.Model.DynamicPool
-- container: dpool
namespace CC.Driver.DynamicPoolD
open CC CC.Driver

/-- decimal literal → Float32 (what `strtof` yields for the short decimals the generators use) -/
def parseF32 (s : String) : Float32 :=
  match s.splitOn "." with
  | [i] => Float32.ofScientific (i.toNat?.getD 0) false 0
  | [i, f] => Float32.ofScientific ((i ++ f).toNat?.getD 0) true f.length
  | _ => 1
/-- `(size_t)(top_page_size * exp_factor)` -/
def growF (f : Float32) (c : Nat) : Nat := (Float32.ofNat c * f).toUInt64.toNat

/-- FNV-1a 64 over the UTF-8 text of a list as the full mode prints it (pages above 4096 bytes) -/
def fnvList (xs : List Nat) : String :=
  let text := ",".intercalate (xs.map toString)
  let h := text.toUTF8.foldl (fun (h : UInt64) b => (h ^^^ b.toUInt64) * 1099511628211) 14695981039346656037
  s!"#{h.toNat}"

/-- the harness "user": remembers every allocation result (for `free idx=k`) and dirties every
block with a running non-zero pattern -/
structure User where
  ptrs : List (Option (Nat × Nat)) := []
  pat  : Nat := 0

structure Sess where
  model : Option DynamicPool := none
  spec  : Option Spec.DPool := none
  mem   : Mem := {}
  exp   : Float32 := 1
  dflt  : Bool := false
  um    : User := {}
  us    : User := {}
  sparse : Bool := false  -- obs=sparse: used/free are printed by `observe` only
  blind : Bool := false   -- the spec has given no opinion on an earlier request: no S lines any more
  acct  : Option DynamicPool.Acct := none   -- phys=quiet: the session runs on the accounting-only twin

def freshByte : Nat := 238

def fmtPtr (p : Option (Nat × Nat)) : String :=
  match p with | some a => s!" p={a.1}:{a.2}" | none => " p=NULL"

def obsM (r : Option DynamicPool) : String :=
  match r with | none => "" | some r => s!" used={r.usedBytes} free={r.freeBytes}"
def obsS (f : Option Spec.DPool) : String :=
  match f with | none => "" | some f => s!" used={f.used} free={f.free}"
def b01 (b : Bool) : Nat := if b then 1 else 0
def phys (dflt : Bool) (r : Option DynamicPool) : String :=
  match r with
  | none => "-"
  | some r =>
    let pgs := r.pages.reverse
    let head := s!"fixed={b01 r.isFixed} packed={b01 r.isPacked} ab={r.ab} tps={r.topPageSize} free={r.free} high={r.high} sizes={fmtList (pgs.map (·.size))}"
    if dflt then head else
    head ++ String.join ((List.range pgs.length).zipWith (fun i p =>
      s!" pg{i}={if p.size > 4096 then fnvList p.bytes else fmtList p.bytes}") pgs)
def inv (r : Option DynamicPool) : Bool := match r with | none => true | some r => decide r.Inv

def lineS' (full : Bool) (hd : String) (s : Sess) : String :=
  if s.blind then "S ? no opinion since a request equal to the page size" else s!"S {hd}{if full then obsS s.spec else ""}"

/-- C13 says that a pool "never hands out more than its configured size and returns NULL beyond it";
the library (and `Spec.DPool.malloc`, which records its behaviour) additionally refuses a request
that is **equal** to the size of the newest page (`size >= top_page_size`).  A library that served
such a request — from the empty newest page, or from a new page of an expandable pool — would
satisfy the property text, so in exactly this region the spec line gives no opinion (and none for
the rest of the session, since the two admissible answers lead to different states). -/
def noOpinion (grow : Nat → Nat) (f : Spec.DPool) (n : Nat) : Bool :=
  let span := n + Spec.padOf f.packed f.ab n
  n ≥ f.top.size &&
    (span ≤ f.top.size - f.topUsed || (!f.fixed && span ≤ grow f.top.size && grow f.top.size ≤ Spec.pageLimit))
def lineM' (full : Bool) (hd : String) (s : Sess) : String :=
  s!"M {hd}{if full then obsM s.model else ""} | {phys s.dflt s.model} | {fmtMem s.mem} | {fmtFlags (inv s.model) s.mem}"
def lineS (hd : String) (s : Sess) : String := lineS' (!s.sparse) hd s
def lineM (hd : String) (s : Sess) : String := lineM' (!s.sparse) hd s

def freeArg (c : Cmd) (u : User) : Option (Nat × Nat) → Option (Nat × Nat) := fun topPtr =>
  match c.natOpt "idx", c.natOpt "off" with
  | some k, _ => (u.ptrs[k]?).getD none
  | none, some a => topPtr.map fun t => (t.1, a)
  | none, none => none

def note (u : User) (p : Option (Nat × Nat)) (wrote : Bool) : User :=
  { ptrs := u.ptrs ++ [p], pat := if wrote then u.pat + 1 else u.pat }
def forget (u : User) : User :=
  { u with ptrs := u.ptrs.map fun p => match p with | some (0, k) => some (0, k) | _ => none }

/-- model side of an allocation: dirty the block when it lies inside the newest page -/
def afterAllocM (s : Sess) (p : Option (Nat × Nat)) (r : DynamicPool) (n : Nat) (m : Mem) : DynamicPool × Mem × User :=
  match p with
  | some a =>
    if a.2 + n ≤ r.topPageSize then
      let w := r.write a.2 n (1 + s.um.pat % 250) m
      (w.1, w.2, note s.um p true)
    else (r, m, note s.um p false)
  | none => (r, m, note s.um p false)
def afterAllocS (s : Sess) (q : Option (Nat × Nat)) (f : Spec.DPool) (n : Nat) : Spec.DPool × User :=
  match q with
  | some a => if a.2 + n ≤ f.top.size then (f.write a.2 n (1 + s.us.pat % 250), note s.us q true) else (f, note s.us q false)
  | none => (f, note s.us q false)

def stOf (p : Option (Nat × Nat)) (refused : Bool) : String := if refused && p.isNone then "st=1" else "st=-"

/-! ### `phys=quiet` sessions (pages of many megabytes)

The session runs on `DynamicPool.Acct`, the model without page contents (`Proofs/DynamicPoolAcct.lean`
proves that it returns the pointers, ledger and fields of the full model), and the phys section
carries no page dump.  The spec line is derived from the same run (the refinement theorems of C13
say the spec agrees with the model), except where the spec has no opinion. -/
def physA (a : DynamicPool.Acct) : String :=
  s!"fixed={b01 a.isFixed} packed={b01 a.isPacked} ab={a.ab} tps={a.topPageSize} free={a.free} high={a.high} sizes={fmtList a.sizes.reverse}"
def invA (a : DynamicPool.Acct) : Bool :=
  a.high ≤ a.free && a.free ≤ a.topPageSize && a.sizes.headD 0 == a.topPageSize && !a.sizes.isEmpty &&
  a.sizes.all (· ≤ Spec.pageLimit) && (!a.isFixed || a.sizes.length == 1)
def obsA (a : DynamicPool.Acct) : String := s!" used={a.usedBytes} free={a.freeBytes}"
def noOpinionA (grow : Nat → Nat) (a : DynamicPool.Acct) (n : Nat) : Bool :=
  let span := n + Spec.padOf a.isPacked a.ab n
  n ≥ a.topPageSize &&
    (span ≤ a.topPageSize - a.free || (!a.isFixed && span ≤ grow a.topPageSize && grow a.topPageSize ≤ Spec.pageLimit))

def linesA (full : Bool) (hdS hdM : String) (s : Sess) (a : DynamicPool.Acct) : String × String :=
  let obs := if full then obsA a else ""
  ((if s.blind then "S ? no opinion since a request equal to the page size" else s!"S {hdS}{obs}"),
   s!"M {hdM}{obs} | {physA a} | {fmtMem s.mem} | {fmtFlags (invA a) s.mem}")

def stepQuiet (s : Sess) (c : Cmd) (a : DynamicPool.Acct) (m : Mem) : Sess × String × String :=
  let grow := growF s.exp
  match c.op with
  | "observe" =>
    let s' : Sess := { s with mem := m }
    let l := linesA true "st=-" "st=-" s' a
    (s', l.1, l.2)
  | "malloc" =>
    let n := c.arg 0
    let (p, a', m) := DynamicPool.Acct.malloc grow a n m
    let hdM := stOf p (m.nrefused > 0) ++ fmtPtr p
    let hdS := stOf p (c.fired > 0) ++ fmtPtr p
    -- the user dirties the block when it lies inside the newest page
    let wrote := match p with | some x => decide (x.2 + n ≤ a'.topPageSize) | none => false
    let m := match p with | some x => if wrote then a'.write x.2 n m else m | none => m
    let s' : Sess := { s with acct := some a', mem := m, um := note s.um p wrote, blind := s.blind || noOpinionA grow a n }
    let l := linesA (!s.sparse) hdS hdM s' a'
    (s', l.1, l.2)
  | "calloc" =>
    let x := c.arg 0; let y := c.arg 1
    let n := (x * y) % sizeMod
    let (p, a', m) := DynamicPool.Acct.calloc grow a x y m
    let z := if p.isSome then " zero=1" else ""
    let hdM := stOf p (m.nrefused > 0) ++ fmtPtr p ++ z
    let hdS := stOf p (c.fired > 0) ++ fmtPtr p ++ z
    let wrote := match p with | some q => decide (q.2 + n ≤ a'.topPageSize) | none => false
    let m := match p with | some q => if wrote then a'.write q.2 n m else m | none => m
    let s' : Sess := { s with acct := some a', mem := m, um := note s.um p wrote, blind := s.blind || noOpinionA grow a (x * y) }
    let l := linesA (!s.sparse) hdS hdM s' a'
    (s', l.1, l.2)
  | "free" =>
    let pm := freeArg c s.um (some (a.sizes.length - 1, 0))
    let a' := a.release pm
    let s' : Sess := { s with acct := some a', mem := m }
    let l := linesA (!s.sparse) "st=-" "st=-" s' a'
    (s', l.1, l.2)
  | "pool_reset" =>
    let (a', m) := a.reset m
    let s' : Sess := { s with acct := some a', mem := m, um := forget s.um }
    let l := linesA (!s.sparse) "st=-" "st=-" s' a'
    (s', l.1, l.2)
  | "destroy" =>
    let m := a.destroy m
    let s' : Sess := { mem := m }
    (s', (if s.blind then "S ?" else "S st=-"), s!"M st=- | - | {fmtMem m} | {fmtFlags true m}")
  | _ => (s, "S st=- badop", "M st=- badop")

def step (s : Sess) (c : Cmd) : Sess × String × String :=
  let m := s.mem.begin c.sched
  match c.op with
  | "new" | "new_default" =>
    let dflt := c.op == "new_default"
    let size := c.nat "size" 16
    let fixed := if dflt then true else c.nat "fixed" 1 != 0
    let packed := if dflt then true else c.nat "packed" 1 != 0
    let ab := if dflt then 1 else c.nat "ab" 1
    let exp := if dflt then 1 else parseF32 ((c.str "exp").getD "1")
    let triple : Triple := if dflt then .libc else .conf
    -- the harness allocator refuses requests above 2^40 bytes ("absurd") without counting a refusal
    let absurd := !dflt && size ≤ Spec.pageLimit && size + pageInfoSize > 2 ^ 40
    let m := if absurd && c.sched.isEmpty then s.mem.begin [false, true] else m
    let sparse := (c.str "obs").getD "full" == "sparse"
    if (c.str "phys").getD "full" == "quiet" then
      let (st, a, m) := DynamicPool.Acct.new size fixed packed ab triple m
      let m := if absurd && c.sched.isEmpty then { m with nrefused := 0 } else m
      let sst : Stat := if size > Spec.pageLimit then .errInvalidCapacity else if c.fired > 0 then .errAlloc else .ok
      let s' : Sess := { acct := a, mem := m, exp, dflt, sparse }
      match a with
      | some a =>
        let l := linesA (!sparse) (fmtStat sst) (fmtStat st) s' a
        (s', l.1, l.2)
      | none => (s', s!"S {fmtStat sst}", s!"M {fmtStat st} | - | {fmtMem m} | {fmtFlags true m}")
    else
    let (st, r, m) := DynamicPool.new size fixed packed ab freshByte triple m
    let m := if absurd && c.sched.isEmpty then { m with nrefused := 0 } else m
    let (sst, sp) := if size > Spec.pageLimit then (Stat.errInvalidCapacity, none)
                     else if c.fired > 0 then (Stat.errAlloc, none)
                     else (Stat.ok, some (Spec.DPool.init size fixed packed ab (List.replicate size freshByte)))
    let s' : Sess := { model := r, spec := sp, mem := m, exp, dflt, sparse := (c.str "obs").getD "full" == "sparse" }
    (s', lineS (fmtStat sst) s', lineM (fmtStat st) s')
  | _ =>
  match s.acct with
  | some a => stepQuiet s c a m
  | none =>
  match s.model, s.spec with
  | some r, some f =>
    let grow := growF s.exp
    match c.op with
    | "observe" =>
      let s' : Sess := { s with mem := m }
      (s', lineS' true "st=-" s', lineM' true "st=-" s')
    | "malloc" =>
      let n := c.arg 0
      let probe := c.nat "probe" 0 != 0
      let (p, r', m) := DynamicPool.malloc grow freshByte r n m
      let hdM := stOf p (m.nrefused > 0) ++ fmtPtr p ++ (if probe && p.isSome then " absalign=1" else "")
      let (r', m, um) := afterAllocM s p r' n m
      let (q, f') := Spec.DPool.malloc grow freshByte f n (c.fired > 0)
      let hdS := stOf q (c.fired > 0) ++ fmtPtr q ++ (if probe && q.isSome then " absalign=1" else "")
      let (f', us) := afterAllocS s q f' n
      let s' : Sess := { s with model := some r', spec := some f', mem := m, um, us, blind := s.blind || noOpinion grow f n }
      (s', lineS hdS s', lineM hdM s')
    | "calloc" =>
      let a := c.arg 0; let b := c.arg 1
      let n := (a * b) % sizeMod
      let (p, r', m) := DynamicPool.calloc grow freshByte r a b m
      let zM := match p with
        | some x => s!" zero={b01 (r'.abs.isZero x.2 n)}"
        | none => ""
      let hdM := stOf p (m.nrefused > 0) ++ fmtPtr p ++ zM
      let (r', m, um) := afterAllocM s p r' n m
      let (q, f') := Spec.DPool.calloc grow freshByte f a b (c.fired > 0)
      let zS := match q with
        | some x => s!" zero={b01 (f'.isZero x.2 (a * b))}"
        | none => ""
      let hdS := stOf q (c.fired > 0) ++ fmtPtr q ++ zS
      let (f', us) := afterAllocS s q f' (a * b)
      let s' : Sess := { s with model := some r', spec := some f', mem := m, um, us, blind := s.blind || noOpinion grow f (a * b) }
      (s', lineS hdS s', lineM hdM s')
    | "free" =>
      let pm := freeArg c s.um (some (r.pages.length - 1, 0))
      let ps := freeArg c s.us (some (f.pages.length - 1, 0))
      let s' : Sess := { s with model := some (r.release pm), spec := some (f.release ps), mem := m }
      (s', lineS "st=-" s', lineM "st=-" s')
    | "pool_reset" =>
      let (r', m) := r.reset m
      let s' : Sess := { s with model := some r', spec := some f.reset, mem := m, um := forget s.um, us := forget s.us }
      (s', lineS "st=-" s', lineM "st=-" s')
    | "destroy" =>
      let m := r.destroy m
      let s' : Sess := { mem := m }
      (s', (if s.blind then "S ?" else "S st=-"), s!"M st=- | - | {fmtMem m} | {fmtFlags true m}")
    | _ => (s, "S st=- badop", "M st=- badop")
  | _, _ =>
    let s' := { s with mem := m }
    (s', "S st=- nosession", s!"M st=- nosession | - | {fmtMem m} | {fmtFlags true m}")

end CC.Driver.DynamicPoolD
