import CollectionsC.Driver.Cmd
import CollectionsC.Spec.BlocksSpec
import CollectionsC.Model.StaticPool
-- container: spool
namespace CC.Driver.StaticPoolD
open CC CC.Driver

/-- the harness "user": remembers every allocation result (for `free idx=k`) and dirties every
block with a running non-zero pattern -/
structure User where
  ptrs : List (Option Nat) := []
  pat  : Nat := 0

structure Sess where
  model : Option StaticPool := none
  spec  : Option Spec.SPool := none
  mem   : Mem := {}
  um    : User := {}      -- user state on the model side
  us    : User := {}      -- user state on the spec side
  sparse : Bool := false  -- obs=sparse: used/free are printed by `observe` only
  quiet : Bool := false   -- phys=quiet: the region bytes are printed as a checksum, the full dump on `observe`
  giant : Bool := false   -- giant=1: the region is untouched reserved address space of several GiB; the model and
                          -- the spec run with an empty byte list (no operation but calloc/write reads or writes it,
                          -- `Proofs/StaticPool.lean` `*_withBytes`) and the users never write


/-- FNV-1a 64 over the UTF-8 text of a list as the full mode prints it (`phys=quiet`) -/
def fnvList (xs : List Nat) : String :=
  let text := ",".intercalate (xs.map toString)
  let h := text.toUTF8.foldl (fun (h : UInt64) b => (h ^^^ b.toUInt64) * 1099511628211) 14695981039346656037
  s!"#{h.toNat}"

def fmtPtr (p : Option Nat) : String := match p with | some a => s!" p={a}" | none => " p=NULL"

def obsM (r : Option StaticPool) : String :=
  match r with | none => "" | some r => s!" used={r.core.usedBytes} free={r.core.freeBytes}"
def obsS (f : Option Spec.SPool) : String :=
  match f with | none => "" | some f => s!" used={f.used} free={f.free}"
def phys (r : Option StaticPool) (quiet : Bool := false) (giant : Bool := false) : String :=
  match r with
  | none => "-"
  | some r => s!"size={r.core.size} free={r.core.free} high={r.core.high} bytes={if giant then "-" else if quiet then fnvList r.core.bytes else fmtList r.core.bytes}"
/-- `StaticPool.Inv` evaluated in one pass over the block list (the `Decidable` instance recomputes the
total length of the tail at every block: quadratic, too slow with thousands of live blocks) -/
def invFast (r : StaticPool) (giant : Bool := false) : Bool :=
  -- fold from the oldest block: running total = expected offset of the next block
  let chk := r.blocks.foldr (fun b (acc : Bool × Nat) => (acc.1 && b.1 == acc.2, acc.2 + b.2)) (true, 0)
  decide (r.core.free ≤ r.core.size) && decide (r.core.high ≤ r.core.free) && (giant || r.core.bytes.length == r.core.size) &&
  chk.1 && r.core.free == chk.2 &&
  (if r.undo then (match r.blocks with | b :: _ => b.1 == r.core.high && b.1 + b.2 == r.core.free | [] => false)
   else r.core.free == r.core.high)
def inv (r : Option StaticPool) (giant : Bool := false) : Bool :=
  match r with | none => true | some r => if giant then invFast r true else if r.blocks.length ≤ 32 then decide r.Inv else invFast r

def lineS' (full : Bool) (hd : String) (s : Sess) : String := s!"S {hd}{if full then obsS s.spec else ""}"
def lineM' (full : Bool) (hd : String) (s : Sess) : String :=
  s!"M {hd}{if full then obsM s.model else ""} | {phys s.model false s.giant} | {fmtMem s.mem} | {fmtFlags (inv s.model s.giant) s.mem}"
def lineS (hd : String) (s : Sess) : String := lineS' (!s.sparse) hd s
def lineM (hd : String) (s : Sess) : String :=
  s!"M {hd}{if !s.sparse then obsM s.model else ""} | {phys s.model s.quiet s.giant} | {fmtMem s.mem} | {fmtFlags (inv s.model s.giant) s.mem}"

def freshByte : Nat := 238   -- 0xEE, what the harness fills the region with

/-- which pointer a `free` line names -/
def freeArg (c : Cmd) (u : User) : Option Nat :=
  match c.natOpt "idx", c.natOpt "off" with
  | some k, _ => (u.ptrs[k]?).getD none
  | none, some a => some a
  | none, none => none

def step (s : Sess) (c : Cmd) : Sess × String × String :=
  let m := s.mem.begin c.sched
  match c.op with
  | "new" =>
    let size := c.nat "size" 16
    let giant := c.nat "giant" 0 != 0
    let bytes := if giant then [] else List.replicate size freshByte
    let s' : Sess := { model := some (StaticPool.new size bytes), spec := some (Spec.SPool.init size bytes), mem := m, giant,
                       sparse := (c.str "obs").getD "full" == "sparse", quiet := (c.str "phys").getD "full" == "quiet" }
    (s', lineS (fmtStat .ok) s', lineM (fmtStat .ok) s')
  | _ =>
  match s.model, s.spec with
  | some r, some f =>
    match c.op with
    | "observe" =>
      let s' : Sess := { s with mem := m }
      (s', lineS' true "st=-" s', lineM' true "st=-" s')
    | "malloc" =>
      let n := c.arg 0
      -- model
      let (p, r') := r.malloc n
      let (r', m, um) := match p with
        | some a =>
          -- the shim writes only when the block is inside its buffer
          if !s.giant && a + n ≤ r'.core.size then
            let w := r'.write a n (1 + s.um.pat % 250) m
            (w.1, w.2, { ptrs := s.um.ptrs ++ [p], pat := s.um.pat + 1 : User })
          else (r', m, { s.um with ptrs := s.um.ptrs ++ [p] })
        | none => (r', m, { s.um with ptrs := s.um.ptrs ++ [p] })
      -- spec
      let (q, f') := f.malloc n
      let (f', us) := match q with
        | some a =>
          if s.giant then (f', { s.us with ptrs := s.us.ptrs ++ [q] })
          else (f'.write a n (1 + s.us.pat % 250), { ptrs := s.us.ptrs ++ [q], pat := s.us.pat + 1 : User })
        | none => (f', { s.us with ptrs := s.us.ptrs ++ [q] })
      let s' : Sess := { s with model := some r', spec := some f', mem := m, um, us }
      (s', lineS ("st=-" ++ fmtPtr q) s', lineM ("st=-" ++ fmtPtr p) s')
    | "calloc" =>
      if s.giant then (let s' : Sess := { s with mem := m }; (s', lineS "st=- badop" s', lineM "st=- badop" s')) else
      let a := c.arg 0; let b := c.arg 1
      let (p, r', m) := r.calloc a b m
      let n := (a * b) % sizeMod
      let zM := match p with
        | some x => s!" zero={if (Spec.SPool.isZero r'.abs x n) then 1 else 0}"
        | none => ""
      let (r', m, um) := match p with
        | some x =>
          if x + n ≤ r'.core.size then
            let w := r'.write x n (1 + s.um.pat % 250) m
            (w.1, w.2, { ptrs := s.um.ptrs ++ [p], pat := s.um.pat + 1 : User })
          else (r', m, { s.um with ptrs := s.um.ptrs ++ [p] })
        | none => (r', m, { s.um with ptrs := s.um.ptrs ++ [p] })
      let (q, f') := f.calloc a b
      let zS := match q with
        | some x => s!" zero={if f'.isZero x (a * b) then 1 else 0}"
        | none => ""
      let (f', us) := match q with
        | some x => (f'.write x (a * b) (1 + s.us.pat % 250), { ptrs := s.us.ptrs ++ [q], pat := s.us.pat + 1 : User })
        | none => (f', { s.us with ptrs := s.us.ptrs ++ [q] })
      let s' : Sess := { s with model := some r', spec := some f', mem := m, um, us }
      (s', lineS ("st=-" ++ fmtPtr q ++ zS) s', lineM ("st=-" ++ fmtPtr p ++ zM) s')
    | "free" =>
      let s' : Sess := { s with model := some (r.release (freeArg c s.um)), spec := some (f.release (freeArg c s.us)), mem := m }
      (s', lineS "st=-" s', lineM "st=-" s')
    | "pool_reset" =>
      let s' : Sess := { s with model := some r.reset, spec := some f.reset, mem := m }
      (s', lineS "st=-" s', lineM "st=-" s')
    | "destroy" =>
      let s' : Sess := { mem := m }
      (s', "S st=-", s!"M st=- | - | {fmtMem m} | {fmtFlags true m}")
    | _ => (s, "S st=- badop", "M st=- badop")
  | _, _ =>
    let s' := { s with mem := m }
    (s', "S st=- nosession", s!"M st=- nosession | - | {fmtMem m} | {fmtFlags true m}")

end CC.Driver.StaticPoolD
