import CollectionsC.Base.Status
/-! Abstract spec of the sized dynamic array (`CC_ArraySized`, sized half of property C01):
an ideal list of elements of an arbitrary type `α` with decidable equality (the model
instantiates `α` with byte vectors, equality = bytewise equality), with the statuses the API
documents.  Plain list functions; allocation refusals are an input of `step` (`refusal`), because
the ideal list does not know when the allocator refuses. -/
namespace CC.Spec.SSeq
variable {α : Type} [DecidableEq α]

/-- `size_t` wrap-around of `x - 1` (what `iter_index` reports before the first yield) -/
def wdec (x : Nat) : Nat := if x = 0 then 2 ^ 64 - 1 else x - 1

/-! ## mutators -/
def add (xs : List α) (x : α) : List α := xs ++ [x]

/-- positions `[0, size]` -/
def addAt (xs : List α) (x : α) (i : Nat) : Stat × List α :=
  if i ≤ xs.length then (.ok, xs.insertIdx i x) else (.errOutOfRange, xs)

/-- positions `[0, size)`, out = the replaced element -/
def replaceAt (xs : List α) (x : α) (i : Nat) : Stat × Option α × List α :=
  if i < xs.length then (.ok, xs[i]?, xs.set i x) else (.errOutOfRange, none, xs)

def swapAt (xs : List α) (i j : Nat) : Stat × List α :=
  match xs[i]?, xs[j]? with
  | some a, some b => (.ok, (xs.set i b).set j a)
  | _, _ => (.errOutOfRange, xs)

/-- index of the first occurrence -/
def indexOf : List α → α → Option Nat
  | [], _ => none
  | y :: ys, x => if y = x then some 0 else (indexOf ys x).map (· + 1)

/-- `remove`: the first element equal to `x` -/
def remove (xs : List α) (x : α) : Stat × List α :=
  match indexOf xs x with
  | none => (.errValueNotFound, xs)
  | some k => (.ok, xs.eraseIdx k)

def removeAt (xs : List α) (i : Nat) : Stat × Option α × List α :=
  if i < xs.length then (.ok, xs[i]?, xs.eraseIdx i) else (.errOutOfRange, none, xs)

def removeLast (xs : List α) : Stat × Option α × List α :=
  if xs = [] then (.errOutOfRange, none, xs) else (.ok, xs.getLast?, xs.dropLast)

/-- `filter_mut` refuses the empty array; the predicate is shown the elements last to first -/
def filterMut (p : α → Bool) (xs : List α) : Stat × List α × List α :=
  if xs = [] then (.errOutOfRange, [], xs) else (.ok, xs.reverse, xs.filter p)

/-! ## observers -/
def getAt (xs : List α) (i : Nat) : Stat × Option α :=
  if i < xs.length then (.ok, xs[i]?) else (.errOutOfRange, none)

def getLast (xs : List α) : Stat × Option α :=
  if xs = [] then (.errValueNotFound, none) else (.ok, xs.getLast?)

def indexOfSt (xs : List α) (x : α) : Stat × Option Nat :=
  match indexOf xs x with
  | none => (.errOutOfRange, none)
  | some k => (.ok, some k)

/-- occurrence count -/
def contains (xs : List α) (x : α) : Nat := (xs.filter (fun y => decide (y = x))).length

/-- `reduce`: the operand pairs handed to `fn` in call order and the final content of the result
buffer.  `fn a b r` = new content of the result buffer after `fn(a, b, result)` when it held `r`.
Size 0: no call; size 1: `fn(e0, NULL, result)`; size ≥ 2: `fn(e0, e1, result)` then
`fn(result, ei, result)` for every further element. -/
def reduce (fn : α → Option α → α → α) (xs : List α) (r0 : α) : List (α × Option α) × α :=
  match xs with
  | [] => ([], r0)
  | [a] => ([(a, none)], fn a none r0)
  | a :: b :: rest =>
    rest.foldl (fun s x => (s.1 ++ [(s.2, some x)], fn s.2 (some x) s.2)) ([(a, some b)], fn a (some b) r0)

/-! ## derived containers -/
/-- both ends inclusive -/
def subarray (xs : List α) (b e : Nat) : Stat × Option (List α) :=
  if b ≤ e ∧ e < xs.length then (.ok, some ((xs.drop b).take (e - b + 1))) else (.errInvalidRange, none)

/-- non-mutating filter refuses the empty array; the predicate sees the elements first to last -/
def filter (p : α → Bool) (xs : List α) : Stat × List α × Option (List α) :=
  if xs = [] then (.errOutOfRange, [], none) else (.ok, xs, some (xs.filter p))

/-! ## one call of the core API (C01 vocabulary) -/
inductive Op (α : Type) where
  | add (x : α) | addAt (x : α) (i : Nat) | replaceAt (x : α) (i : Nat) | swapAt (i j : Nat)
  | remove (x : α) | removeAt (i : Nat) | removeLast | removeAll | reverse
  | filterMut (p : α → Bool) | trim
  | getAt (i : Nat) | getLast | peek (i : Nat) | indexOf (x : α) | contains (x : α)
  | map (f : α → α) | reduce (fn : α → Option α → α → α) (r0 : α)
  | sort (sortFn : List α → List α)

/-- what a call returns: status (`none` for `void` functions), out-element, out-number
(index / count), callback log (element, second operand) -/
structure Out (α : Type) where
  st  : Option Stat := none
  val : Option α := none
  num : Option Nat := none
  cb  : List (α × Option α) := []

/-- `refusal = some s`: the environment refuses this call with status `s` (`CC_ERR_ALLOC` when the
allocator says no, `CC_ERR_MAX_CAPACITY` at the size limit); only `add`, `addAt` (in range) and
`trim` (when it has to reallocate) can be refused, and a refused call changes nothing. -/
def step (xs : List α) (op : Op α) (refusal : Option Stat := none) : Out α × List α :=
  match op with
  | .add x => match refusal with
    | some s => ({ st := some s }, xs)
    | none => ({ st := some .ok }, add xs x)
  | .addAt x i =>
    let r := addAt xs x i
    match refusal with
    | some s => if r.1 = .ok then ({ st := some s }, xs) else ({ st := some r.1 }, xs)
    | none => ({ st := some r.1 }, r.2)
  | .replaceAt x i => let r := replaceAt xs x i; ({ st := some r.1, val := r.2.1 }, r.2.2)
  | .swapAt i j => let r := swapAt xs i j; ({ st := some r.1 }, r.2)
  | .remove x => let r := remove xs x; ({ st := some r.1 }, r.2)
  | .removeAt i => let r := removeAt xs i; ({ st := some r.1, val := r.2.1 }, r.2.2)
  | .removeLast => let r := removeLast xs; ({ st := some r.1, val := r.2.1 }, r.2.2)
  | .removeAll => ({}, [])
  | .reverse => ({}, xs.reverse)
  | .filterMut p => let r := filterMut p xs; ({ st := some r.1, cb := r.2.1.map (·, none) }, r.2.2)
  | .trim => match refusal with
    | some s => ({ st := some s }, xs)
    | none => ({ st := some .ok }, xs)
  | .getAt i => let r := getAt xs i; ({ st := some r.1, val := r.2 }, xs)
  | .getLast => let r := getLast xs; ({ st := some r.1, val := r.2 }, xs)
  | .peek i => let r := getAt xs i; ({ st := some r.1, val := r.2 }, xs)
  | .indexOf x => let r := indexOfSt xs x; ({ st := some r.1, num := r.2 }, xs)
  | .contains x => ({ num := some (contains xs x) }, xs)
  | .map f => ({ cb := xs.map (·, none) }, xs.map f)
  | .reduce fn r0 => let r := reduce fn xs r0; ({ val := some r.2, cb := r.1 }, xs)
  | .sort sortFn => ({}, sortFn xs)

/-- a history: one refusal input per call -/
def run (xs : List α) : List (Op α) → List (Option Stat) → List (Out α) × List α
  | [], _ => ([], xs)
  | op :: ops, rs =>
    let r := step xs op (rs.headD none)
    let t := run r.2 ops rs.tail
    (r.1 :: t.1, t.2)

/-! ## ideal cursor: `done` = elements before the cursor (the last one is the element yielded
last, unless it was removed), `todo` = elements not yet visited.  The list is `done ++ todo`. -/
structure Cursor (α : Type) where
  done : List α
  todo : List α
  removed : Bool := false     -- the element yielded last is already gone

namespace Cursor
def start (xs : List α) : Cursor α := { done := [], todo := xs }
def content (c : Cursor α) : List α := c.done ++ c.todo

def next (c : Cursor α) : Stat × Option α × Cursor α :=
  match c.todo with
  | [] => (.iterEnd, none, c)
  | x :: t => (.ok, some x, { done := c.done ++ [x], todo := t, removed := false })

/-- remove the element yielded last -/
def remove (c : Cursor α) : Stat × Option α × Cursor α :=
  if c.removed then (.errValueNotFound, none, c)
  else if c.done = [] then (.errOutOfRange, none, c)
  else (.ok, c.done.getLast?, { c with done := c.done.dropLast, removed := true })

/-- insert directly after the element yielded last (before the unvisited ones); the new
element is not visited -/
def add (c : Cursor α) (x : α) : Cursor α := { c with done := c.done ++ [x] }

/-- replace the element yielded last -/
def replace (c : Cursor α) (x : α) : Stat × Option α × Cursor α :=
  if c.done = [] then (.errOutOfRange, none, c)
  else (.ok, c.done.getLast?, { c with done := c.done.dropLast ++ [x] })

/-- position of the element yielded last -/
def index (c : Cursor α) : Nat := wdec c.done.length
end Cursor

/-- one call of the iterator API -/
inductive IterCmd (α : Type) where
  | next | remove | add (x : α) | replace (x : α) | index

/-- a program driving one ideal cursor; `add` can be refused by the environment (then nothing
changes, the cursor included) -/
def Cursor.step (c : Cursor α) (cmd : IterCmd α) (refusal : Option Stat := none) : Out α × Cursor α :=
  match cmd with
  | .next => let r := c.next; ({ st := some r.1, val := r.2.1 }, r.2.2)
  | .remove => let r := c.remove; ({ st := some r.1, val := r.2.1 }, r.2.2)
  | .add x => match refusal with
    | some s => ({ st := some s }, c)
    | none => ({ st := some .ok }, c.add x)
  | .replace x => let r := c.replace x; ({ st := some r.1, val := r.2.1 }, r.2.2)
  | .index => ({ num := some c.index }, c)

def Cursor.run (c : Cursor α) : List (IterCmd α) → List (Option Stat) → List (Out α) × Cursor α
  | [], _ => ([], c)
  | cmd :: cmds, rs =>
    let r := c.step cmd (rs.headD none)
    let t := Cursor.run r.2 cmds rs.tail
    (r.1 :: t.1, t.2)

/-- lock-step cursor over two lists; both `done` parts always have the same length -/
structure ZipCursor (α : Type) where
  done1 : List α
  todo1 : List α
  done2 : List α
  todo2 : List α
  removed : Bool := false

namespace ZipCursor
def start (xs ys : List α) : ZipCursor α := { done1 := [], todo1 := xs, done2 := [], todo2 := ys }
def content1 (c : ZipCursor α) : List α := c.done1 ++ c.todo1
def content2 (c : ZipCursor α) : List α := c.done2 ++ c.todo2

def next (c : ZipCursor α) : Stat × Option (α × α) × ZipCursor α :=
  match c.todo1, c.todo2 with
  | x :: t1, y :: t2 =>
    (.ok, some (x, y), { done1 := c.done1 ++ [x], todo1 := t1, done2 := c.done2 ++ [y], todo2 := t2, removed := false })
  | _, _ => (.iterEnd, none, c)

def remove (c : ZipCursor α) : Stat × Option (α × α) × ZipCursor α :=
  match c.done1.getLast?, c.done2.getLast? with
  | some x, some y =>
    if c.removed then (.errValueNotFound, none, c)
    else (.ok, some (x, y), { c with done1 := c.done1.dropLast, done2 := c.done2.dropLast, removed := true })
  | _, _ => (.errOutOfRange, none, c)

def add (c : ZipCursor α) (x y : α) : ZipCursor α :=
  { c with done1 := c.done1 ++ [x], done2 := c.done2 ++ [y] }

def replace (c : ZipCursor α) (x y : α) : Stat × Option (α × α) × ZipCursor α :=
  match c.done1.getLast?, c.done2.getLast? with
  | some a, some b =>
    (.ok, some (a, b), { c with done1 := c.done1.dropLast ++ [x], done2 := c.done2.dropLast ++ [y] })
  | _, _ => (.errOutOfRange, none, c)

def index (c : ZipCursor α) : Nat := wdec c.done1.length
end ZipCursor

/-- one call of the zip-iterator API -/
inductive ZipCmd (α : Type) where
  | next | remove | add (x y : α) | replace (x y : α) | index

/-- what a zip call returns -/
structure ZOut (α : Type) where
  st  : Option Stat := none
  val : Option (α × α) := none
  num : Option Nat := none

def ZipCursor.step (c : ZipCursor α) (cmd : ZipCmd α) (refusal : Option Stat := none) : ZOut α × ZipCursor α :=
  match cmd with
  | .next => let r := c.next; ({ st := some r.1, val := r.2.1 }, r.2.2)
  | .remove => let r := c.remove; ({ st := some r.1, val := r.2.1 }, r.2.2)
  | .add x y => match refusal with
    | some s => ({ st := some s }, c)
    | none => ({ st := some .ok }, c.add x y)
  | .replace x y => let r := c.replace x y; ({ st := some r.1, val := r.2.1 }, r.2.2)
  | .index => ({ num := some c.index }, c)

def ZipCursor.run (c : ZipCursor α) : List (ZipCmd α) → List (Option Stat) → List (ZOut α) × ZipCursor α
  | [], _ => ([], c)
  | cmd :: cmds, rs =>
    let r := c.step cmd (rs.headD none)
    let t := ZipCursor.run r.2 cmds rs.tail
    (r.1 :: t.1, t.2)

/-! ## a zip cursor over one sequence on both sides (`ar1 == ar2`): positions only; each call is the
ideal effect of the two half-calls performed one after the other on the same list.  `dflt` stands for
an out-value the call leaves untouched (second half of `remove` with nothing left to remove). -/
namespace Same
def next (xs : List α) (pos : Nat) : Stat × Option (α × α) × Nat :=
  match xs[pos]? with
  | some x => (.ok, some (x, x), pos + 1)
  | none => (.iterEnd, none, pos)

def remove (dflt : α) (xs : List α) (pos : Nat) (removed : Bool) : Stat × Option (α × α) × List α × Nat × Bool :=
  if pos = 0 ∨ xs.length ≤ pos - 1 then (.errOutOfRange, none, xs, pos, removed)
  else if removed then (.errValueNotFound, none, xs, pos, removed)
  else
    let x1 := (xs[pos - 1]?).getD dflt
    let ys := xs.eraseIdx (pos - 1)
    (.ok, some (x1, (ys[pos - 1]?).getD dflt), ys.eraseIdx (pos - 1), pos - 1, true)

def add (xs : List α) (pos : Nat) (x y : α) : Stat × List α × Nat :=
  if pos ≤ xs.length then (.ok, (xs.insertIdx pos x).insertIdx pos y, pos + 1) else (.errOutOfRange, xs, pos)

def replace (dflt : α) (xs : List α) (pos : Nat) (x y : α) : Stat × Option (α × α) × List α :=
  if pos = 0 ∨ xs.length ≤ pos - 1 then (.errOutOfRange, none, xs)
  else (.ok, some ((xs[pos - 1]?).getD dflt, x), xs.set (pos - 1) y)
end Same

/-! ## index-based cursors under interleaved direct calls.  An array iterator is an index; the API
does not forbid calling the container directly between two iterator calls, after which the index may
lie beyond the content.  `Pos.*` say what each iterator call then means on the ideal list: exactly the
`Cursor` behaviour while `pos ≤ length`, a rejection (`next`: END) when the position is stale. -/
namespace Pos
def next (xs : List α) (pos : Nat) : Stat × Option α × Nat :=
  match xs[pos]? with
  | some x => (.ok, some x, pos + 1)
  | none => (.iterEnd, none, pos)

def remove (xs : List α) (pos : Nat) (removed : Bool) : Stat × Option α × List α × Nat × Bool :=
  if removed then (.errValueNotFound, none, xs, pos, removed)
  else if pos = 0 ∨ xs.length ≤ pos - 1 then (.errOutOfRange, none, xs, pos, removed)
  else (.ok, xs[pos - 1]?, xs.eraseIdx (pos - 1), pos - 1, true)

def add (xs : List α) (pos : Nat) (x : α) : Stat × List α × Nat :=
  if pos ≤ xs.length then (.ok, xs.insertIdx pos x, pos + 1) else (.errOutOfRange, xs, pos)

def replace (xs : List α) (pos : Nat) (x : α) : Stat × Option α × List α :=
  if pos = 0 ∨ xs.length ≤ pos - 1 then (.errOutOfRange, none, xs)
  else (.ok, xs[pos - 1]?, xs.set (pos - 1) x)

/-- lock step over two lists -/
def znext (xs ys : List α) (pos : Nat) : Stat × Option (α × α) × Nat :=
  match xs[pos]?, ys[pos]? with
  | some x, some y => (.ok, some (x, y), pos + 1)
  | _, _ => (.iterEnd, none, pos)

def zremove (dflt : α) (xs ys : List α) (pos : Nat) (removed : Bool) :
    Stat × Option (α × α) × List α × List α × Nat × Bool :=
  if pos = 0 ∨ xs.length ≤ pos - 1 ∨ ys.length ≤ pos - 1 then (.errOutOfRange, none, xs, ys, pos, removed)
  else if removed then (.errValueNotFound, none, xs, ys, pos, removed)
  else (.ok, some ((xs[pos - 1]?).getD dflt, (ys[pos - 1]?).getD dflt), xs.eraseIdx (pos - 1), ys.eraseIdx (pos - 1),
        pos - 1, true)

def zadd (xs ys : List α) (pos : Nat) (x y : α) : Stat × List α × List α × Nat :=
  if pos ≤ xs.length ∧ pos ≤ ys.length then (.ok, xs.insertIdx pos x, ys.insertIdx pos y, pos + 1)
  else (.errOutOfRange, xs, ys, pos)

def zreplace (dflt : α) (xs ys : List α) (pos : Nat) (x y : α) : Stat × Option (α × α) × List α × List α :=
  if pos = 0 ∨ xs.length ≤ pos - 1 ∨ ys.length ≤ pos - 1 then (.errOutOfRange, none, xs, ys)
  else (.ok, some ((xs[pos - 1]?).getD dflt, (ys[pos - 1]?).getD dflt), xs.set (pos - 1) x, ys.set (pos - 1) y)
end Pos

end CC.Spec.SSeq
