import CollectionsC.Base.Status
/-! Abstract spec of a bounded FIFO that overwrites the oldest item (property C19). -/
namespace CC.Spec

structure Fifo where
  cap   : Nat
  items : List Nat          -- oldest first
  deriving Repr, DecidableEq

namespace Fifo
def empty (cap : Nat) : Fifo := { cap, items := [] }

def enqueue (f : Fifo) (x : Nat) : Fifo :=
  if f.items.length < f.cap then { f with items := f.items ++ [x] }
  else { f with items := f.items.tail ++ [x] }

def dequeue (f : Fifo) : Stat × Option Nat × Fifo :=
  match f.items with
  | []      => (.errOutOfRange, none, f)
  | x :: xs => (.ok, some x, { f with items := xs })

def size (f : Fifo) : Nat := f.items.length
end Fifo
end CC.Spec
