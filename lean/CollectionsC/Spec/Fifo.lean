import CollectionsC.Base.Status
/-! Abstract spec of a bounded FIFO that overwrites the oldest item (property C19). -/
namespace CC.Spec

structure Fifo where
  cap   : Nat
  items : List Nat          -- oldest first
  deriving Repr, DecidableEq

namespace Fifo
def empty (cap : Nat) : Fifo := { cap, items := [] }

def enqueue (f : Fifo) (x : Nat) : Fifo :=
  if f.items.length < f.cap then { f with items := f.items ++ [x] }
  else { f with items := f.items.tail ++ [x] }

def dequeue (f : Fifo) : Stat × Option Nat × Fifo :=
  match f.items with
  | []      => (.errOutOfRange, none, f)
  | x :: xs => (.ok, some x, { f with items := xs })

def size (f : Fifo) : Nat := f.items.length

/-- operations of a ring-buffer history -/
inductive Op where
  | enqueue (x : Nat)
  | dequeue
  deriving Repr, DecidableEq

/-- what a call returns: status (none for `void` functions) and out-value -/
structure Out where
  st  : Option Stat
  val : Option Nat
  deriving Repr, DecidableEq

def step (f : Fifo) : Op → Out × Fifo
  | .enqueue x => (⟨none, none⟩, f.enqueue x)
  | .dequeue   => let r := f.dequeue; (⟨some r.1, r.2.1⟩, r.2.2)

def run (f : Fifo) : List Op → List Out × Fifo
  | []        => ([], f)
  | op :: ops => let r := f.step op; let rs := run r.2 ops; (r.1 :: rs.1, rs.2)
end Fifo
end CC.Spec
