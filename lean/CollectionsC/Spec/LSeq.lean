import CollectionsC.Base.Status
/-! Abstract spec of the two linked lists (properties C04, C07, C15, C16, C18): an ideal sequence
`List Nat` with the statuses the list API documents.  Where `CC_List` and `CC_SList` document
different ranges the function takes the flag `pastEnd` (`true`: one-past-the-end accepted, the
doubly linked list's `add_all_at`/`splice_at`; `false`: the singly linked list's). -/
namespace CC.Spec.LSeq

/-! ## fixed harness callbacks (the same functions are compiled into the C shim) -/
def cmpNum (a b : Nat) : Int := if a < b then -1 else if b < a then 1 else 0
def cmpKey (a b : Nat) : Int := cmpNum (a % 10) (b % 10)
def predEven (v : Nat) : Bool := v % 2 == 0
/-- the harness callbacks work on `uintptr_t`: arithmetic wraps at 2^64 -/
def cpPlus (v : Nat) : Nat := (v + 1000) % 2 ^ 64
def redF (x y : Nat) : Nat := ((x * 3 + y + 1) % 2 ^ 64) % 1000003

/-! ## single-list operations -/
def addFirst (l : List Nat) (x : Nat) : List Nat := x :: l
def addLast (l : List Nat) (x : Nat) : List Nat := l ++ [x]

def addAt (l : List Nat) (x i : Nat) : Stat × List Nat :=
  if i < l.length then (.ok, l.insertIdx i x) else (.errOutOfRange, l)

/-- remove the first occurrence -/
def remove (l : List Nat) (x : Nat) : Stat × Option Nat × List Nat :=
  if x ∈ l then (.ok, some x, l.erase x) else (.errValueNotFound, none, l)

def removeAt (l : List Nat) (i : Nat) : Stat × Option Nat × List Nat :=
  if i < l.length then (.ok, some (l.getD i 0), l.eraseIdx i) else (.errOutOfRange, none, l)

def removeFirst : List Nat → Stat × Option Nat × List Nat
  | [] => (.errValueNotFound, none, [])
  | x :: xs => (.ok, some x, xs)

def removeLast (l : List Nat) : Stat × Option Nat × List Nat :=
  if l = [] then (.errValueNotFound, none, l) else (.ok, some (l.getLastD 0), l.dropLast)

/-- status, elements handed to the callback (in order), new content -/
def removeAll (l : List Nat) : Stat × List Nat × List Nat :=
  if l = [] then (.errValueNotFound, [], l) else (.ok, l, [])

def replaceAt (l : List Nat) (x i : Nat) : Stat × Option Nat × List Nat :=
  if i < l.length then (.ok, some (l.getD i 0), l.set i x) else (.errOutOfRange, none, l)

def getFirst : List Nat → Stat × Option Nat
  | [] => (.errValueNotFound, none)
  | x :: _ => (.ok, some x)
def getLast (l : List Nat) : Stat × Option Nat :=
  if l = [] then (.errValueNotFound, none) else (.ok, some (l.getLastD 0))
def getAt (l : List Nat) (i : Nat) : Stat × Option Nat :=
  if i < l.length then (.ok, some (l.getD i 0)) else (.errOutOfRange, none)

def contains (l : List Nat) (x : Nat) : Nat := l.count x
def containsValue (cmp : Nat → Nat → Int) (l : List Nat) (x : Nat) : Nat := l.countP fun y => cmp y x == 0
/-- index of the first element the comparator calls equal -/
def indexOf (cmp : Nat → Nat → Int) (l : List Nat) (x : Nat) : Stat × Option Nat :=
  match l.findIdx? fun y => cmp y x == 0 with
  | some i => (.ok, some i)
  | none => (.errOutOfRange, none)

def filterMut (p : Nat → Bool) (l : List Nat) : Stat × List Nat :=
  if l = [] then (.errOutOfRange, l) else (.ok, l.filter p)

/-- `emptyOk`: the singly linked list hands out a zero-length array, the doubly linked rejects -/
def toArray (emptyOk : Bool) (l : List Nat) : Stat × Option (List Nat) :=
  if l = [] ∧ !emptyOk then (.errInvalidRange, none) else (.ok, some l)

/-- `fn(a0, a1, r); fn(r, ai, r)…`, with the one-element case `fn(a0, NULL, r)`:
status, result, logged argument pairs -/
def reduce (f : Nat → Nat → Nat) : List Nat → Stat × Option Nat × List Nat
  | [] => (.errOutOfRange, none, [])
  | [a] => (.ok, some (f a 0), [a, 0])
  | a :: b :: rest =>
    let r := rest.foldl (fun (acc : Nat × List Nat) x => (f acc.1 x, acc.2 ++ [acc.1, x])) (f a b, [a, b])
    (.ok, some r.1, r.2)

/-! ## two-list operations: (status, destination, source) -/
def addAll (dst src : List Nat) : Stat × List Nat × List Nat := (.ok, dst ++ src, src)

def addAllAt (pastEnd : Bool) (dst src : List Nat) (i : Nat) : Stat × List Nat × List Nat :=
  if src = [] then (.ok, dst, src)
  else if (if pastEnd then i ≤ dst.length else i < dst.length) then (.ok, dst.take i ++ src ++ dst.drop i, src)
  else (.errOutOfRange, dst, src)

def splice (dst src : List Nat) : Stat × List Nat × List Nat := (.ok, dst ++ src, [])

def spliceAt (pastEnd : Bool) (dst src : List Nat) (i : Nat) : Stat × List Nat × List Nat :=
  if src = [] then (.ok, dst, src)
  else if (if pastEnd then i ≤ dst.length else i < dst.length) then (.ok, dst.take i ++ src ++ dst.drop i, [])
  else (.errOutOfRange, dst, src)

/-! ## derived containers -/
def sublist (l : List Nat) (b e : Nat) : Stat × Option (List Nat) :=
  if b > e ∨ e ≥ l.length then (.errInvalidRange, none) else (.ok, some ((l.drop b).take (e - b + 1)))
def copyShallow (l : List Nat) : List Nat := l
def copyDeep (cp : Nat → Nat) (l : List Nat) : List Nat := l.map cp
def filter (p : Nat → Bool) (l : List Nat) : Stat × Option (List Nat) :=
  if l = [] then (.errOutOfRange, none) else (.ok, some (l.filter p))

/-! ## sorting: a stable insertion sort is the executable reference -/
def insertBy (cmp : Nat → Nat → Int) (x : Nat) : List Nat → List Nat
  | [] => [x]
  | y :: ys => if cmp x y ≤ 0 then x :: y :: ys else y :: insertBy cmp x ys
def stableSort (cmp : Nat → Nat → Int) (l : List Nat) : List Nat := l.foldr (insertBy cmp) []

/-- `kind = 0`: doubly linked (`to_array` rejects the empty list), `kind = 1`: singly linked
(length 1 returns at once, length 0 sorts a zero-length array) -/
def sort (emptyOk : Bool) (sortFn : List Nat → List Nat) (l : List Nat) : Stat × List Nat :=
  if l = [] ∧ !emptyOk then (.errInvalidRange, l) else (.ok, sortFn l)

/-! ## ideal cursors.  `pos` = number of elements the traversal has passed (ascending) or has
still in front of it (descending); `cur` = position of the element mutators act on. -/
structure Cursor where
  pos : Nat := 0
  cur : Option Nat := none
  deriving Repr, DecidableEq

def itNew : Cursor := {}
def itNext (l : List Nat) (c : Cursor) : Stat × Option Nat × Cursor :=
  if c.pos < l.length then (.ok, some (l.getD c.pos 0), { pos := c.pos + 1, cur := some c.pos })
  else (.iterEnd, none, c)
def itRemove (l : List Nat) (c : Cursor) : Stat × Option Nat × List Nat × Cursor :=
  match c.cur with
  | none => (.errValueNotFound, none, l, c)
  | some k => (.ok, some (l.getD k 0), l.eraseIdx k, { pos := c.pos - 1, cur := none })
/-- insert after the current element; `follow`: the new element becomes current (singly linked) -/
def itAdd (follow : Bool) (l : List Nat) (c : Cursor) (x : Nat) : List Nat × Cursor :=
  match c.cur with
  | none => (l, c)
  | some k => (l.insertIdx (k + 1) x, { pos := c.pos + 1, cur := some (if follow then k + 1 else k) })
def itReplace (l : List Nat) (c : Cursor) (x : Nat) : Stat × Option Nat × List Nat :=
  match c.cur with
  | none => (.errValueNotFound, none, l)
  | some k => (.ok, some (l.getD k 0), l.set k x)
/-- `index - 1` in `size_t` -/
def itIndex (c : Cursor) : Nat := if c.pos = 0 then 2 ^ 64 - 1 else c.pos - 1

def ditNew (l : List Nat) : Cursor := { pos := l.length }
def ditNext (l : List Nat) (c : Cursor) : Stat × Option Nat × Cursor :=
  if 0 < c.pos ∧ c.pos ≤ l.length then (.ok, some (l.getD (c.pos - 1) 0), { pos := c.pos - 1, cur := some (c.pos - 1) })
  else (.iterEnd, none, c)
def ditRemove (l : List Nat) (c : Cursor) : Stat × Option Nat × List Nat × Cursor :=
  match c.cur with
  | none => (.errValueNotFound, none, l, c)
  | some k => (.ok, some (l.getD k 0), l.eraseIdx k, { c with cur := none })
/-- insert in front of the current element; the new element becomes current -/
def ditAdd (l : List Nat) (c : Cursor) (x : Nat) : List Nat × Cursor :=
  match c.cur with
  | none => (l, c)
  | some k => (l.insertIdx k x, { c with cur := some k })
def ditIndex (c : Cursor) : Nat := c.pos

/-! lock-step cursor over two lists (`follow` as for `itAdd`) -/
def zitNext (l1 l2 : List Nat) (c : Cursor) : Stat × Option (Nat × Nat) × Cursor :=
  if c.pos < l1.length ∧ c.pos < l2.length then
    (.ok, some (l1.getD c.pos 0, l2.getD c.pos 0), { pos := c.pos + 1, cur := some c.pos })
  else (.iterEnd, none, c)
def zitRemove (l1 l2 : List Nat) (c : Cursor) : Stat × Option (Nat × Nat) × List Nat × List Nat × Cursor :=
  match c.cur with
  | none => (.errValueNotFound, none, l1, l2, c)
  | some k => (.ok, some (l1.getD k 0, l2.getD k 0), l1.eraseIdx k, l2.eraseIdx k, { pos := c.pos - 1, cur := none })
def zitAdd (follow : Bool) (l1 l2 : List Nat) (c : Cursor) (x1 x2 : Nat) : List Nat × List Nat × Cursor :=
  match c.cur with
  | none => (l1, l2, c)
  | some k => (l1.insertIdx (k + 1) x1, l2.insertIdx (k + 1) x2,
               { pos := c.pos + 1, cur := some (if follow then k + 1 else k) })
def zitReplace (l1 l2 : List Nat) (c : Cursor) (x1 x2 : Nat) : Stat × Option (Nat × Nat) × List Nat × List Nat :=
  match c.cur with
  | none => (.errValueNotFound, none, l1, l2)
  | some k => (.ok, some (l1.getD k 0, l2.getD k 0), l1.set k x1, l2.set k x2)

/-! ## histories over a destination list and a source list (property C04)

The state is the pair (destination, source); `swapRoles` exchanges the roles, so every operation
can be applied to either list and the bulk operations can go in both directions. -/
inductive Op where
  | addFirst (x : Nat) | addLast (x : Nat) | addAt (x i : Nat)
  | addAll | addAllAt (i : Nat) | splice | spliceAt (i : Nat)
  | remove (x : Nat) | removeAt (i : Nat) | removeFirst | removeLast | removeAll
  | replaceAt (x i : Nat) | reverse | filterMut
  | getFirst | getLast | getAt (i : Nat) | indexOf (x : Nat) | contains (x : Nat) | containsValue (x : Nat)
  | size | toArray | foreach
  | swapRoles
  deriving Repr, DecidableEq

/-- what a call reports: status (`none` for `void`/`size_t` functions), out-value, out-sequence
(array, callback log) -/
structure Out where
  st   : Option Stat := none
  val  : Option Nat := none
  vals : List Nat := []
  deriving Repr, DecidableEq

/-- user callbacks of a history -/
structure Params where
  pred : Nat → Bool
  cmp  : Nat → Nat → Int

/-- one step of the ideal pair of lists; `dbl`: the doubly linked list's documented ranges and
statuses (`true`) or the singly linked list's (`false`) -/
def step (dbl : Bool) (P : Params) (s : List Nat × List Nat) : Op → Out × (List Nat × List Nat)
  | .addFirst x => ({ st := some .ok }, (addFirst s.1 x, s.2))
  | .addLast x => ({ st := some .ok }, (addLast s.1 x, s.2))
  | .addAt x i => let r := addAt s.1 x i; ({ st := some r.1 }, (r.2, s.2))
  | .addAll => let r := addAll s.1 s.2; ({ st := some r.1 }, (r.2.1, r.2.2))
  | .addAllAt i => let r := addAllAt dbl s.1 s.2 i; ({ st := some r.1 }, (r.2.1, r.2.2))
  | .splice => let r := splice s.1 s.2; ({ st := some r.1 }, (r.2.1, r.2.2))
  | .spliceAt i => let r := spliceAt dbl s.1 s.2 i; ({ st := some r.1 }, (r.2.1, r.2.2))
  | .remove x => let r := remove s.1 x; ({ st := some r.1, val := r.2.1 }, (r.2.2, s.2))
  | .removeAt i => let r := removeAt s.1 i; ({ st := some r.1, val := r.2.1 }, (r.2.2, s.2))
  | .removeFirst => let r := removeFirst s.1; ({ st := some r.1, val := r.2.1 }, (r.2.2, s.2))
  | .removeLast => let r := removeLast s.1; ({ st := some r.1, val := r.2.1 }, (r.2.2, s.2))
  | .removeAll => let r := removeAll s.1; ({ st := some r.1, vals := r.2.1 }, (r.2.2, s.2))
  | .replaceAt x i => let r := replaceAt s.1 x i; ({ st := some r.1, val := r.2.1 }, (r.2.2, s.2))
  | .reverse => ({}, (s.1.reverse, s.2))
  | .filterMut => let r := filterMut P.pred s.1; ({ st := some r.1 }, (r.2, s.2))
  | .getFirst => let r := getFirst s.1; ({ st := some r.1, val := r.2 }, s)
  | .getLast => let r := getLast s.1; ({ st := some r.1, val := r.2 }, s)
  | .getAt i => let r := getAt s.1 i; ({ st := some r.1, val := r.2 }, s)
  | .indexOf x => let r := indexOf (if dbl then P.cmp else cmpNum) s.1 x; ({ st := some r.1, val := r.2 }, s)
  | .contains x => ({ val := some (contains s.1 x) }, s)
  | .containsValue x => ({ val := some (containsValue P.cmp s.1 x) }, s)
  | .size => ({ val := some s.1.length }, s)
  | .toArray => let r := toArray (!dbl) s.1; ({ st := some r.1, vals := r.2.getD [] }, s)
  | .foreach => ({ vals := s.1 }, s)
  | .swapRoles => ({}, (s.2, s.1))

def run (dbl : Bool) (P : Params) (s : List Nat × List Nat) : List Op → List Out × (List Nat × List Nat)
  | [] => ([], s)
  | op :: ops => let r := step dbl P s op; let rs := run dbl P r.2 ops; (r.1 :: rs.1, rs.2)

/-- the ideal run in which the operations the allocator refused (status `CC_ERR_ALLOC` in `sts`)
did not happen -/
def runSkipping (dbl : Bool) (P : Params) (s : List Nat × List Nat) :
    List Op → List (Option Stat) → List Out × (List Nat × List Nat)
  | op :: ops, st :: sts =>
    if st = some .errAlloc then
      let rs := runSkipping dbl P s ops sts; ({ st := some .errAlloc } :: rs.1, rs.2)
    else
      let r := step dbl P s op; let rs := runSkipping dbl P r.2 ops sts; (r.1 :: rs.1, rs.2)
  | _, _ => ([], s)

end CC.Spec.LSeq
