import CollectionsC.Base.Status
/-! Abstract spec of a priority queue (property C10).

The state is the list of held elements read as a multiset (`List.Perm`).  The comparator is a
parameter `cmp : Nat → Nat → Int` (positive: first argument has higher priority), required to be a
total preorder in the sense of `TotalPreorder`.  Because ties may be broken arbitrarily, `top` and
`pop` are specified as *relations* (`Step`): any maximal element is an admissible answer.  For the
line-protocol driver there is also a deterministic instance (`popFirst`: the first maximal element
in list order) whose tie-invariant observations every admissible implementation shares. -/
namespace CC.Spec

/-- the comparator contract: the relation `a ≽ b := 0 ≤ cmp a b` is total and transitive, and a
non-positive answer one way means a non-negative answer the other way -/
structure TotalPreorder (cmp : Nat → Nat → Int) : Prop where
  flip  : ∀ a b, cmp a b ≤ 0 → 0 ≤ cmp b a
  trans : ∀ a b c, 0 ≤ cmp a b → 0 ≤ cmp b c → 0 ≤ cmp a c

/-- comparators of the harness: compare the keys, answer 7 / -3 / 0 (deliberately not -1/0/1) -/
def keyCmp (key : Nat → Nat) (a b : Nat) : Int :=
  if key a > key b then 7 else if key a < key b then -3 else 0

theorem keyCmp_nonneg (key : Nat → Nat) (a b : Nat) : 0 ≤ keyCmp key a b ↔ key b ≤ key a := by
  unfold keyCmp
  by_cases h1 : key a > key b
  · simp only [h1, if_true]; omega
  · by_cases h2 : key a < key b
    · simp only [h1, h2, if_false, if_true]; omega
    · simp only [h1, h2, if_false]; omega

theorem keyCmp_nonpos (key : Nat → Nat) (a b : Nat) : keyCmp key a b ≤ 0 ↔ key a ≤ key b := by
  unfold keyCmp
  by_cases h1 : key a > key b
  · simp only [h1, if_true]; omega
  · by_cases h2 : key a < key b
    · simp only [h1, h2, if_false, if_true]; omega
    · simp only [h1, h2, if_false]; omega

theorem keyCmp_totalPreorder (key : Nat → Nat) : TotalPreorder (keyCmp key) := by
  constructor
  · intro a b h
    rw [keyCmp_nonpos] at h; rw [keyCmp_nonneg]; exact h
  · intro a b c h1 h2
    rw [keyCmp_nonneg] at *; omega

/-- the harness comparator `cmp=diff`: the 64-bit difference of the two values, computed without
wrap-around and clamped to the range of `int` (what a correct "subtracting" comparator returns) -/
def diffCmp (a b : Nat) : Int :=
  let d : Int := (a : Int) - (b : Int)
  if d > 2147483647 then 2147483647 else if d < -2147483648 then -2147483648 else d

theorem diffCmp_nonneg (a b : Nat) : 0 ≤ diffCmp a b ↔ b ≤ a := by
  unfold diffCmp; simp only
  split
  · omega
  · split <;> omega

theorem diffCmp_nonpos (a b : Nat) : diffCmp a b ≤ 0 ↔ a ≤ b := by
  unfold diffCmp; simp only
  split
  · omega
  · split <;> omega

theorem diffCmp_totalPreorder : TotalPreorder diffCmp := by
  constructor
  · intro a b h; rw [diffCmp_nonpos] at h; rw [diffCmp_nonneg]; exact h
  · intro a b c h1 h2; rw [diffCmp_nonneg] at *; omega

namespace PQ

/-- `x` is held and no held element has strictly higher priority -/
def IsMax (cmp : Nat → Nat → Int) (items : List Nat) (x : Nat) : Prop :=
  x ∈ items ∧ ∀ y ∈ items, 0 ≤ cmp x y

inductive Op where
  | push (x : Nat)
  | top
  | pop
  deriving Repr, DecidableEq

/-- what a call returns -/
structure Out where
  st  : Stat
  val : Option Nat
  deriving Repr, DecidableEq

/-- admissible behaviours of one operation on the multiset `items` -/
def Step (cmp : Nat → Nat → Int) (items : List Nat) (op : Op) (out : Out) (items' : List Nat) : Prop :=
  match op with
  | .push x =>
    (out = ⟨.ok, none⟩ ∧ items'.Perm (x :: items)) ∨
    -- a refused growth: nothing changes
    ((out = ⟨.errAlloc, none⟩ ∨ out = ⟨.errMaxCapacity, none⟩) ∧ items'.Perm items)
  | .top =>
    items'.Perm items ∧
    ((items = [] ∧ out = ⟨.errOutOfRange, none⟩) ∨ (∃ x, out = ⟨.ok, some x⟩ ∧ IsMax cmp items x))
  | .pop =>
    (items = [] ∧ out = ⟨.errOutOfRange, none⟩ ∧ items' = []) ∨
    (∃ x, out = ⟨.ok, some x⟩ ∧ IsMax cmp items x ∧ items.Perm (x :: items'))

/-- admissible behaviours of a history -/
def Run (cmp : Nat → Nat → Int) : List Nat → List Op → List Out → List Nat → Prop
  | items, [], outs, items' => outs = [] ∧ items' = items
  | items, op :: ops, outs, items' =>
    ∃ o os mid, outs = o :: os ∧ Step cmp items op o mid ∧ Run cmp mid ops os items'

/-- the elements successfully pushed in a history -/
def pushed : List Op → List Out → List Nat
  | .push x :: ops, o :: os => if o.st = .ok then x :: pushed ops os else pushed ops os
  | _ :: ops, _ :: os => pushed ops os
  | _, _ => []

/-- the elements returned by the pops of a history -/
def popped : List Op → List Out → List Nat
  | .pop :: ops, o :: os => (match o.val with | some v => v :: popped ops os | none => popped ops os)
  | _ :: ops, _ :: os => popped ops os
  | _, _ => []


/-! ### a deterministic instance (used by the driver) -/

/-- the first element of the list that no other element beats -/
def maxOf (cmp : Nat → Nat → Int) : List Nat → Option Nat
  | [] => none
  | x :: xs =>
    match maxOf cmp xs with
    | none => some x
    | some y => if 0 ≤ cmp x y then some x else some y

def topFirst (cmp : Nat → Nat → Int) (items : List Nat) : Out :=
  match maxOf cmp items with
  | none => ⟨.errOutOfRange, none⟩
  | some x => ⟨.ok, some x⟩

def popFirst (cmp : Nat → Nat → Int) (items : List Nat) : Out × List Nat :=
  match maxOf cmp items with
  | none => (⟨.errOutOfRange, none⟩, items)
  | some x => (⟨.ok, some x⟩, items.erase x)

/-- the keys of the content in the order repeated `popFirst` yields them -/
def drainFirst (cmp : Nat → Nat → Int) : Nat → List Nat → List Nat
  | 0, _ => []
  | fuel + 1, items =>
    match maxOf cmp items with
    | none => []
    | some x => x :: drainFirst cmp fuel (items.erase x)

end PQ
end CC.Spec
