import CollectionsC.Base.Status
/-! Abstract spec of a string-keyed map (property C11): an association list with pairwise distinct
keys. Keys are byte strings (`List Nat`, every byte in 1..255, the empty list is the empty string),
values are naturals.  The order of `items` carries no meaning; enumeration is compared up to
permutation. -/
namespace CC.Spec

abbrev SKey := List Nat

structure StrMap where
  items : List (SKey × Nat) := []
  deriving Repr, DecidableEq

namespace StrMap

def empty : StrMap := {}

def get (s : StrMap) (k : SKey) : Option Nat := s.items.lookup k

def contains (s : StrMap) (k : SKey) : Bool := (s.get k).isSome

/-- add-or-replace -/
def add (s : StrMap) (k : SKey) (v : Nat) : StrMap :=
  { items := (k, v) :: s.items.filter (fun e => e.1 != k) }

def remove (s : StrMap) (k : SKey) : StrMap :=
  { items := s.items.filter (fun e => e.1 != k) }

def removeAll (_s : StrMap) : StrMap := {}

def size (s : StrMap) : Nat := s.items.length

def keys (s : StrMap) : List SKey := s.items.map (·.1)

/-- representation invariant of the spec itself: keys pairwise distinct -/
def WF (s : StrMap) : Prop := s.keys.Nodup

/-- operations of an iterator session (between `iter_init` and the end of its use): the iterator calls
and the table queries that do not invalidate the iterator -/
inductive IOp where
  | next
  | remove (wantOut : Bool)
  | get (k : SKey)
  | contains (k : SKey)
  | size
  deriving Repr, DecidableEq

/-- what a call of an iterator session returns: status (`.ok` for the `bool` / `size_t` queries), yielded
key, yielded / removed / queried value -/
structure IOut where
  st  : Stat
  key : Option SKey := none
  val : Option Nat := none
  deriving Repr, DecidableEq

/-- operations of a TST history; `add` carries the allocator schedule of the call (`true` = the
next allocator request is refused), which only the concrete model interprets; `iterate` is a whole
iterator session: `iter_init` followed by the given calls -/
inductive Op where
  | add (k : SKey) (v : Nat) (sched : List Bool)
  | get (k : SKey)
  | contains (k : SKey)
  | remove (k : SKey)
  | removeAll
  | size
  | enumerate          -- foreach_key / foreach_value / a complete iterator pass
  | iterate (prog : List IOp)
  deriving Repr, DecidableEq

/-- what a call returns: status (`none` for `void`/`bool`/`size_t` functions), out-value,
for `enumerate` the yielded `(key, value)` pairs, for `iterate` the results of the session's calls;
`legal` (spec side) says that every key the session yielded was one the ideal cursor could yield -/
structure Out where
  st   : Option Stat := none
  val  : Option Nat := none
  enum : List (SKey × Nat) := []
  iter : List IOut := []
  legal : Bool := true
  deriving Repr, DecidableEq

/-- what the spec is told about the implementation's run of one call: whether an allocator request was
refused (the spec does not know how many requests a call makes) and which keys an iterator session
yielded (the enumeration order is the implementation's choice; the cursor validates each choice) -/
structure Oracle where
  refused : Bool := false
  choices : List (Option SKey) := []
  deriving Repr, DecidableEq

/-! ### ideal cursor: the keys still to be yielded and the key yielded last -/
structure Cursor where
  todo : List SKey := []
  last : Option SKey := none
  deriving Repr, DecidableEq

def cursorNew (s : StrMap) : Cursor := { todo := s.keys }

/-- `next`: the cursor may yield any key of `todo`; `choice` resolves the nondeterminism (it comes
from the implementation under test and is validated here) -/
def cursorNext (s : StrMap) (c : Cursor) (choice : Option SKey) : Stat × Option (SKey × Nat) × Bool × Cursor :=
  match c.todo with
  | [] => (.iterEnd, none, true, { todo := [], last := none })
  | _ :: _ =>
    match choice with
    | some k =>
      if c.todo.contains k then
        match s.get k with
        | some v => (.ok, some (k, v), true, { todo := c.todo.filter (· != k), last := some k })
        | none => (.ok, none, false, c)
      else (.ok, none, false, c)
    | none => (.ok, none, false, c)

/-- `remove` through the cursor: removes the key yielded last -/
def cursorRemove (s : StrMap) (c : Cursor) : Stat × Option Nat × StrMap × Cursor :=
  match c.last with
  | none => (.errKeyNotFound, none, s, c)
  | some k =>
    match s.get k with
    | some v => (.ok, some v, s.remove k, { c with last := none })
    | none => (.errKeyNotFound, none, s, c)

/-- one call of an iterator session on the ideal cursor; the second component says whether `choice`
was a legal yield -/
def cursorStep (s : StrMap) (c : Cursor) (choice : Option SKey) : IOp → IOut × Bool × StrMap × Cursor
  | .next => let r := cursorNext s c choice
             ({ st := r.1, key := r.2.1.map (·.1), val := r.2.1.map (·.2) }, r.2.2.1, s, r.2.2.2)
  | .remove _ => let r := cursorRemove s c
                 ({ st := r.1, val := r.2.1 }, true, r.2.2.1, r.2.2.2)
  | .get k => match s.get k with
    | some v => ({ st := .ok, val := some v }, true, s, c)
    | none => ({ st := .errKeyNotFound }, true, s, c)
  | .contains k => ({ st := .ok, val := some (if s.contains k then 1 else 0) }, true, s, c)
  | .size => ({ st := .ok, val := some s.size }, true, s, c)

/-- an iterator session; every call comes with the key the implementation yielded (if any) -/
def cursorRun (s : StrMap) (c : Cursor) : List (Option SKey × IOp) → List (IOut × Bool) × StrMap × Cursor
  | [] => ([], s, c)
  | (ch, op) :: ops =>
    let r := cursorStep s c ch op
    let rs := cursorRun r.2.2.1 r.2.2.2 ops
    ((r.1, r.2.1) :: rs.1, rs.2)

/-- one step of a history -/
def step (s : StrMap) (orc : Oracle) : Op → Out × StrMap
  | .add k v _ => if orc.refused then ({ st := some .errAlloc }, s) else ({ st := some .ok }, s.add k v)
  | .get k => match s.get k with
    | some v => ({ st := some .ok, val := some v }, s)
    | none => ({ st := some .errKeyNotFound }, s)
  | .contains k => ({ val := some (if s.contains k then 1 else 0) }, s)
  | .remove k => match s.get k with
    | some v => ({ st := some .ok, val := some v }, s.remove k)
    | none => ({ st := some .errKeyNotFound }, s)
  | .removeAll => ({}, s.removeAll)
  | .size => ({ val := some s.size }, s)
  | .enumerate => ({ enum := s.items }, s)
  | .iterate prog =>
    let r := cursorRun s (cursorNew s) (orc.choices.zip prog)
    ({ iter := r.1.map (·.1), legal := r.1.all (·.2) }, r.2.1)

def IOp.keys : IOp → List SKey
  | .get k => [k]
  | .contains k => [k]
  | _ => []

/-- the keys an operation mentions -/
def Op.keys : Op → List SKey
  | .add k _ _ => [k]
  | .get k => [k]
  | .contains k => [k]
  | .remove k => [k]
  | .iterate prog => prog.flatMap IOp.keys
  | _ => []

/-- a history; each operation comes with what the spec is told about the implementation's run of it -/
def run (s : StrMap) : List (Oracle × Op) → List Out × StrMap
  | [] => ([], s)
  | (f, op) :: ops => let r := s.step f op; let rs := run r.2 ops; (r.1 :: rs.1, rs.2)

end StrMap
end CC.Spec
