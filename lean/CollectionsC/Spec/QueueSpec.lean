import CollectionsC.Spec.DequeSpec
/-! Abstract spec of `CC_Queue` (queue half of C09).  Two layers:
* `Fifo`: the property's own vocabulary — elements oldest first, `enqueue` appends, `poll` takes the
  oldest, `peek` shows it;
* the *iteration view* used by the observable protocol: the adapter iterates newest first, so the
  observable sequence is `items.reverse`.  `viewEnqueue/viewPoll/viewPeek` are the same operations
  expressed on that view (they are `DequeSpec.addFirst/removeLast/getLast`), and
  `Properties/C09Queue.lean` proves the two layers equal. -/
namespace CC.Spec.QueueSpec

/-- ideal FIFO: oldest element first -/
structure Fifo where
  items : List Nat := []
  deriving Repr, DecidableEq

namespace Fifo
def enqueue (f : Fifo) (x : Nat) : Fifo := ⟨f.items ++ [x]⟩
def poll (f : Fifo) : Stat × Option Nat × Fifo :=
  match f.items with
  | [] => (.errOutOfRange, none, f)
  | x :: xs => (.ok, some x, ⟨xs⟩)
def peek (f : Fifo) : Stat × Option Nat :=
  match f.items with
  | [] => (.errOutOfRange, none)
  | x :: _ => (.ok, some x)
def size (f : Fifo) : Nat := f.items.length
/-- what an iteration shows: newest first -/
def view (f : Fifo) : List Nat := f.items.reverse
end Fifo

abbrev View := List Nat
def viewEnqueue (v : View) (x : Nat) : View := DequeSpec.addFirst v x
def viewPoll (v : View) : Stat × Option Nat × View := DequeSpec.removeLast v
def viewPeek (v : View) : Stat × Option Nat := DequeSpec.getLast v

end CC.Spec.QueueSpec
